(* Proofs about Model/RelayDrain.v: relay items and tombstones drain.
   Invariant K: the item registered under an id is, if it is a tombstone, awaited by a pending
   GC callback for that id; otherwise its timer is still armed, or a handler that stopped the
   timer still holds the id, or the timer callback is running.  So when no timer is armed and
   no handler / callback / GC is pending the map is empty. *)
From Coq Require Import ZArith List Bool Lia ZifyBool.
From Verif Require Import Base.Wire Model.MexDrain Model.RelayDrain.
Import ListNotations.
Local Open Scope Z_scope.

Definition KItem (s : rstate) (id : Z) (it : ritem) : Prop :=
  if ri_tomb it then In id (rs_gc s)
  else (ri_timer it = 0 \/ In id (rs_held s) \/ In id (rs_firing s)).

Definition KInv (s : rstate) : Prop :=
  forall id it, get_item id (rs_items s) = Some it -> KItem s id it.

Lemma get_del id id' l :
  get_item id (del_item id' l) = if id =? id' then None else get_item id l.
Proof.
  unfold del_item. induction l as [|[k v] r IH]; cbn [filter get_item fst].
  - destruct (id =? id'); reflexivity.
  - destruct (k =? id') eqn:E; cbn [negb].
    + rewrite IH. destruct (id =? id') eqn:E2; [reflexivity|].
      assert (k =? id = false) as -> by lia. reflexivity.
    + cbn [get_item]. rewrite IH. destruct (k =? id) eqn:E2; [|reflexivity].
      assert (id =? id' = false) as -> by lia. reflexivity.
Qed.

Lemma get_set id id' v l :
  get_item id (set_item id' v l) =
  if id =? id' then (match get_item id' l with Some _ => Some v | None => None end) else get_item id l.
Proof.
  induction l as [|[k x] r IH]; cbn [set_item get_item].
  - destruct (id =? id'); reflexivity.
  - destruct (k =? id') eqn:E.
    + cbn [get_item]. destruct (id =? id') eqn:E2.
      * assert (k =? id = true) as -> by lia. reflexivity.
      * assert (k =? id = false) as -> by lia. reflexivity.
    + cbn [get_item]. destruct (k =? id) eqn:E3.
      * assert (id =? id' = false) as -> by lia. reflexivity.
      * exact IH.
Qed.

Lemma in_remove1_other x id l : x <> id -> In x l -> In x (remove1 id l).
Proof.
  intros Hne. induction l as [|y r IH]; cbn [remove1 In]; [tauto|].
  intros [->|Hin].
  - assert (x =? id = false) as -> by lia. left. reflexivity.
  - destruct (y =? id); [exact Hin|]. right. auto.
Qed.

Lemma has_In id l : has id l = true <-> In id l.
Proof.
  unfold has. rewrite existsb_exists. split.
  - intros (x & Hin & Hx). assert (x = id) by lia. subst. exact Hin.
  - intros Hin. exists id. split; [exact Hin|lia].
Qed.

(* -- preservation through Delete and Entomb (on a state whose held/firing/gc list lost one
      occurrence of [id]) -- *)

(* A weaker form of the invariant that ignores the entry of [id0] *)
Definition KInvExcept (id0 : Z) (s : rstate) : Prop :=
  forall id it, id <> id0 -> get_item id (rs_items s) = Some it -> KItem s id it.

Lemma KInv_except id0 s : KInv s -> KInvExcept id0 s.
Proof. intros H id it _ Hg. exact (H id it Hg). Qed.

Lemma r_delete_K id0 s : KInvExcept id0 s -> KInv (snd (r_delete id0 s)).
Proof.
  intros HK. unfold r_delete. destruct (get_item id0 (rs_items s)) as [it0|] eqn:Hg; cbn [snd].
  - intros id it Hget. cbn [rs_items] in Hget. rewrite get_del in Hget.
    destruct (id =? id0) eqn:E; [discriminate|].
    assert (Hne : id <> id0) by lia. specialize (HK id it Hne Hget).
    unfold KItem in *. cbn [rs_gc rs_held rs_firing]. exact HK.
  - intros id it Hget. destruct (Z.eq_dec id id0) as [->|Hne]; [congruence|]. exact (HK id it Hne Hget).
Qed.

Lemma r_entomb_K id0 s :
  KInvExcept id0 s ->
  (forall it, get_item id0 (rs_items s) = Some it -> ri_tomb it = true -> In id0 (rs_gc s)) ->
  KInv (snd (r_entomb id0 s)).
Proof.
  intros HK Htomb. unfold r_entomb.
  destruct (rs_maxtombs s <? rs_tombs s); [apply r_delete_K; exact HK|].
  destruct (get_item id0 (rs_items s)) as [it0|] eqn:Hg; cbn [snd].
  - destruct (ri_tomb it0) eqn:Ht; cbn [snd].
    + intros id it Hget. destruct (Z.eq_dec id id0) as [->|Hne]; [|exact (HK id it Hne Hget)].
      rewrite Hg in Hget. injection Hget as <-. unfold KItem. rewrite Ht. exact (Htomb it0 eq_refl Ht).
    + intros id it Hget. cbn [rs_items] in Hget. rewrite get_set in Hget.
      destruct (id =? id0) eqn:E.
      * assert (id = id0) by lia. subst id. rewrite Hg in Hget. injection Hget as <-.
        unfold KItem. cbn [ri_tomb rs_gc]. left. reflexivity.
      * assert (Hne : id <> id0) by lia. specialize (HK id it Hne Hget). unfold KItem in *.
        cbn [rs_gc rs_held rs_firing]. destruct (ri_tomb it); [right; exact HK|exact HK].
  - intros id it Hget. destruct (Z.eq_dec id id0) as [->|Hne]; [congruence|]. exact (HK id it Hne Hget).
Qed.

Lemma finish_with_K r : KInv (snd r) -> KInv (finish_with r).
Proof.
  destruct r as [ok s]. cbn [snd finish_with]. intros HK. destruct ok; exact HK.
Qed.

Lemma KInv_init mt : KInv (rs_init mt).
Proof. intros id it H. cbn in H. discriminate. Qed.

Lemma KItem_tomb_gc s id it : KItem s id it -> ri_tomb it = true -> In id (rs_gc s).
Proof. unfold KItem. intros H Ht. rewrite Ht in H. exact H. Qed.

Lemma get_stop_K ct id0 s : KInv s -> KInv (r_get_stop ct id0 s).
Proof.
  intros HK. unfold r_get_stop. destruct (get_item id0 (rs_items s)) as [it0|] eqn:Hg; [|destruct ct; exact HK].
  destruct (timer_stop (ri_timer it0)) as [t' stopped] eqn:Hts. cbn zeta.
  assert (Hcore : forall held', (forall x, In x (rs_held s) -> In x held') ->
            (stopped && negb (ct && ri_tomb it0) = true -> In id0 held') ->
            (stopped && negb (ct && ri_tomb it0) = false -> ri_tomb it0 = true \/ t' = ri_timer it0 /\ ri_timer it0 <> 0) ->
            forall id it,
            get_item id (set_item id0 {| ri_tomb := ri_tomb it0; ri_timer := t' |} (rs_items s)) = Some it ->
            if ri_tomb it then In id (rs_gc s) else (ri_timer it = 0 \/ In id held' \/ In id (rs_firing s))).
  { intros held' Hmono Hgo Hnogo id it Hget. rewrite get_set in Hget. destruct (id =? id0) eqn:E.
    - assert (id = id0) by lia. subst id. rewrite Hg in Hget. injection Hget as <-. cbn [ri_tomb ri_timer].
      pose proof (HK id0 it0 Hg) as Hk0. unfold KItem in Hk0.
      destruct (ri_tomb it0) eqn:Ht; [exact Hk0|].
      destruct (stopped && negb (ct && false)) eqn:Hg2.
      + right. left. apply Hgo. reflexivity.
      + destruct (Hnogo eq_refl) as [Hc|[Ht' Hnz]]; [discriminate|]. rewrite Ht'.
        destruct Hk0 as [Hz|[Hh|Hf]]; [contradiction|right; left; auto|right; right; exact Hf].
    - specialize (HK id it Hget). unfold KItem in HK. destruct (ri_tomb it); [exact HK|].
      destruct HK as [Hz|[Hh|Hf]]; [left; exact Hz|right; left; auto|right; right; exact Hf]. }
  assert (Hnogo : stopped && negb (ct && ri_tomb it0) = false ->
                  ri_tomb it0 = true \/ t' = ri_timer it0 /\ ri_timer it0 <> 0).
  { intros Hf. unfold timer_stop in Hts.
    destruct (ri_timer it0 =? 1) eqn:E1; [injection Hts as <- <-|].
    - cbn [andb] in Hf. destruct ct, (ri_tomb it0); cbn in Hf; try discriminate. left; reflexivity.
    - destruct (ri_timer it0 =? 0) eqn:E0; injection Hts as <- <-.
      + cbn [andb] in Hf. destruct ct, (ri_tomb it0); cbn in Hf; try discriminate. left; reflexivity.
      + right. split; [reflexivity|lia]. }
  destruct (stopped && negb (ct && ri_tomb it0)) eqn:Hgo.
  - intros id it Hget. unfold KItem.
    assert (Hget' : get_item id (set_item id0 {| ri_tomb := ri_tomb it0; ri_timer := t' |} (rs_items s)) = Some it)
      by (destruct ct; exact Hget).
    assert (Hgoal : if ri_tomb it then In id (rs_gc s) else (ri_timer it = 0 \/ In id (id0 :: rs_held s) \/ In id (rs_firing s))).
    { apply (Hcore (id0 :: rs_held s)); try assumption.
      + intros x Hx. right. exact Hx.
      + intros _. left. reflexivity. }
    destruct ct; exact Hgoal.
  - intros id it Hget. unfold KItem.
    assert (Hget' : get_item id (set_item id0 {| ri_tomb := ri_tomb it0; ri_timer := t' |} (rs_items s)) = Some it)
      by (destruct ct; exact Hget).
    assert (Hgoal : if ri_tomb it then In id (rs_gc s) else (ri_timer it = 0 \/ In id (rs_held s) \/ In id (rs_firing s))).
    { apply (Hcore (rs_held s)); try assumption.
      + auto.
      + intros H. discriminate. }
    destruct ct; exact Hgoal.
Qed.

Lemma KInv_step s l s' : KInv s -> rstep s l = Some s' -> KInv s'.
Proof.
  intros HK Hs. destruct l as [id0|id0|id0|id0|id0|id0|id0|id0]; cbn [rstep] in Hs.
  - (* RAdd *)
    destruct (get_item id0 (rs_items s)) eqn:Hg; [discriminate|]. injection Hs as <-.
    intros id it Hget. cbn [rs_items get_item] in Hget. destruct (id0 =? id) eqn:E.
    + injection Hget as <-. unfold KItem. cbn. left. reflexivity.
    + exact (HK id it Hget).
  - injection Hs as <-. apply get_stop_K. exact HK.
  - injection Hs as <-. apply get_stop_K. exact HK.
  - (* RFinishHeld *)
    destruct (has id0 (rs_held s)); [|discriminate]. injection Hs as <-.
    apply finish_with_K. apply r_delete_K.
    intros id it Hne Hget. cbn [drop_held rs_items] in Hget. specialize (HK id it Hget).
    unfold KItem in *. cbn [drop_held rs_gc rs_held rs_firing]. destruct (ri_tomb it); [exact HK|].
    destruct HK as [Hz|[Hh|Hf]]; [left; exact Hz|right; left; apply in_remove1_other; assumption|right; right; exact Hf].
  - (* RFailHeld *)
    destruct (has id0 (rs_held s)); [|discriminate]. injection Hs as <-.
    apply finish_with_K. apply r_entomb_K.
    + intros id it Hne Hget. cbn [drop_held rs_items] in Hget. specialize (HK id it Hget).
      unfold KItem in *. cbn [drop_held rs_gc rs_held rs_firing]. destruct (ri_tomb it); [exact HK|].
      destruct HK as [Hz|[Hh|Hf]]; [left; exact Hz|right; left; apply in_remove1_other; assumption|right; right; exact Hf].
    + intros it Hget Ht. cbn [drop_held rs_items rs_gc] in *. exact (KItem_tomb_gc _ _ _ (HK id0 it Hget) Ht).
  - (* RFireStart *)
    destruct (get_item id0 (rs_items s)) as [it0|] eqn:Hg; [|discriminate].
    destruct (ri_timer it0 =? 0) eqn:E0; [|discriminate]. injection Hs as <-.
    intros id it Hget. cbn [rs_items] in Hget. rewrite get_set in Hget. destruct (id =? id0) eqn:E.
    + assert (id = id0) by lia. subst id. rewrite Hg in Hget. injection Hget as <-.
      pose proof (HK id0 it0 Hg) as Hk0. unfold KItem in *. cbn [ri_tomb ri_timer rs_gc rs_held rs_firing].
      destruct (ri_tomb it0); [exact Hk0|]. right. right. left. reflexivity.
    + specialize (HK id it Hget). unfold KItem in *. cbn [rs_gc rs_held rs_firing]. destruct (ri_tomb it); [exact HK|].
      destruct HK as [Hz|[Hh|Hf]]; [left; exact Hz|right; left; exact Hh|right; right; right; exact Hf].
  - (* RFireEntomb *)
    destruct (has id0 (rs_firing s)); [|discriminate]. injection Hs as <-.
    apply finish_with_K. apply r_entomb_K.
    + intros id it Hne Hget. cbn [drop_firing rs_items] in Hget. specialize (HK id it Hget).
      unfold KItem in *. cbn [drop_firing rs_gc rs_held rs_firing]. destruct (ri_tomb it); [exact HK|].
      destruct HK as [Hz|[Hh|Hf]]; [left; exact Hz|right; left; exact Hh|right; right; apply in_remove1_other; assumption].
    + intros it Hget Ht. cbn [drop_firing rs_items rs_gc] in *. exact (KItem_tomb_gc _ _ _ (HK id0 it Hget) Ht).
  - (* RGc *)
    destruct (has id0 (rs_gc s)); [|discriminate]. injection Hs as <-.
    apply r_delete_K.
    intros id it Hne Hget. cbn [drop_gc rs_items] in Hget. specialize (HK id it Hget).
    unfold KItem in *. cbn [drop_gc rs_gc rs_held rs_firing]. destruct (ri_tomb it); [|exact HK].
    apply in_remove1_other; assumption.
Qed.

Lemma KInv_run ls : forall s s', KInv s -> rrun s ls = Some s' -> KInv s'.
Proof.
  induction ls as [|l r IH]; intros s s' HK Hr; cbn [rrun] in Hr.
  - injection Hr as <-. exact HK.
  - destruct (rstep s l) as [s1|] eqn:Hs; [|discriminate]. eapply IH; [|exact Hr]. eapply KInv_step; eauto.
Qed.

(* Main theorem: after ANY sequence of steps (any ids, any order of frames, timeouts,
   failures and GC callbacks), once no timer is armed and no handler, timer callback or
   tombstone GC is pending, the map holds neither items nor tombstones. *)
Theorem relay_drained : forall mt ls s,
  rrun (rs_init mt) ls = Some s -> relay_quiet s = true -> rs_items s = [].
Proof.
  intros mt ls s Hr Hq. pose proof (KInv_run ls _ _ (KInv_init mt) Hr) as HK.
  unfold relay_quiet in Hq. apply andb_true_iff in Hq as [Hq Hfi]. apply andb_true_iff in Hq as [Hq Hhe].
  apply andb_true_iff in Hq as [Hti Hgc].
  destruct (rs_items s) as [|[k v] r] eqn:Hit; [reflexivity|exfalso].
  assert (Hget : get_item k (rs_items s) = Some v) by (rewrite Hit; cbn [get_item]; rewrite Z.eqb_refl; reflexivity).
  specialize (HK k v Hget). unfold KItem in HK.
  destruct (rs_gc s); [|discriminate]. destruct (rs_held s); [|discriminate]. destruct (rs_firing s); [|discriminate].
  cbn [forallb snd] in Hti. apply andb_true_iff in Hti as [Hv _].
  destruct (ri_tomb v); [exact HK|]. destruct HK as [Hz|[[]|[]]]. lia.
Qed.

(* ---- the tombstone counter (needs unique keys, which RAdd's enabledness gives) ---- *)

Fixpoint ntombs (l : list (Z * ritem)) : Z :=
  match l with [] => 0 | (_, v) :: r => zb (ri_tomb v) + ntombs r end.

Definition TInv (s : rstate) : Prop :=
  NoDup (map fst (rs_items s)) /\ rs_tombs s = ntombs (rs_items s).

Lemma get_none_notin id l : get_item id l = None -> ~ In id (map fst l).
Proof.
  induction l as [|[k v] r IH]; cbn [get_item map fst In]; [tauto|].
  destruct (k =? id) eqn:E; [discriminate|]. intros H [Hk|Hin]; [lia|]. exact (IH H Hin).
Qed.

Lemma del_item_notin id l : ~ In id (map fst l) -> del_item id l = l.
Proof.
  unfold del_item. induction l as [|[k v] r IH]; cbn [filter map fst In]; [reflexivity|].
  intros H. assert (k =? id = false) as -> by (destruct (k =? id) eqn:E; [exfalso; apply H; left; lia|reflexivity]).
  cbn [negb]. f_equal. apply IH. tauto.
Qed.

Lemma del_item_fst_subset id l x : In x (map fst (del_item id l)) -> In x (map fst l).
Proof.
  unfold del_item. induction l as [|[k v] r IH]; cbn [filter map fst In]; [tauto|].
  destruct (k =? id); cbn [negb map fst In]; tauto.
Qed.

Lemma del_item_spec id l it :
  NoDup (map fst l) -> get_item id l = Some it ->
  NoDup (map fst (del_item id l)) /\ ntombs (del_item id l) = ntombs l - zb (ri_tomb it).
Proof.
  induction l as [|[k v] r IH]; cbn [get_item map fst]; [discriminate|].
  intros Hnd Hg. inversion Hnd as [|? ? Hnotin Hnd']; subst.
  unfold del_item. cbn [filter fst]. destruct (k =? id) eqn:E; cbn [negb].
  - injection Hg as <-. assert (k = id) by lia. subst k.
    fold (del_item id r). rewrite (del_item_notin _ _ Hnotin). split; [exact Hnd'|]. cbn [ntombs]. lia.
  - fold (del_item id r). destruct (IH Hnd' Hg) as [H1 H2]. cbn [map fst ntombs]. split.
    + constructor; [|exact H1]. intros Hin. apply Hnotin. eapply del_item_fst_subset; exact Hin.
    + rewrite H2. lia.
Qed.

Lemma set_item_fst id v l : map fst (set_item id v l) = map fst l.
Proof.
  induction l as [|[k x] r IH]; cbn [set_item map fst]; [reflexivity|].
  destruct (k =? id); cbn [map fst]; [reflexivity|]. rewrite IH. reflexivity.
Qed.

Lemma set_item_ntombs id v l it :
  get_item id l = Some it -> ntombs (set_item id v l) = ntombs l - zb (ri_tomb it) + zb (ri_tomb v).
Proof.
  induction l as [|[k x] r IH]; cbn [get_item set_item]; [discriminate|].
  destruct (k =? id); intros Hg.
  - injection Hg as <-. cbn [ntombs]. lia.
  - cbn [ntombs]. rewrite (IH Hg). lia.
Qed.

Lemma r_delete_T id s : TInv s -> TInv (snd (r_delete id s)).
Proof.
  intros [Hnd Hc]. unfold r_delete. destruct (get_item id (rs_items s)) as [it|] eqn:Hg; cbn [snd]; [|split; assumption].
  destruct (del_item_spec _ _ _ Hnd Hg) as [H1 H2]. split; cbn [rs_items rs_tombs]; [exact H1|].
  rewrite H2, Hc. destruct (ri_tomb it); cbn [zb]; lia.
Qed.

Lemma r_entomb_T id s : TInv s -> TInv (snd (r_entomb id s)).
Proof.
  intros HT. unfold r_entomb. destruct (rs_maxtombs s <? rs_tombs s); [apply r_delete_T; exact HT|].
  destruct (get_item id (rs_items s)) as [it|] eqn:Hg; cbn [snd]; [|exact HT].
  destruct (ri_tomb it) eqn:Ht; cbn [snd]; [exact HT|].
  destruct HT as [Hnd Hc]. split; cbn [rs_items rs_tombs].
  - rewrite set_item_fst. exact Hnd.
  - rewrite (set_item_ntombs _ _ _ _ Hg), Hc, Ht. cbn [ri_tomb zb]. lia.
Qed.

Lemma finish_with_T r : TInv (snd r) -> TInv (finish_with r).
Proof. destruct r as [ok s]. cbn [snd finish_with]. intros H. destruct ok; exact H. Qed.

Lemma get_stop_T ct id s : TInv s -> TInv (r_get_stop ct id s).
Proof.
  intros [Hnd Hc]. unfold r_get_stop. destruct (get_item id (rs_items s)) as [it|] eqn:Hg; [|destruct ct; split; assumption].
  destruct (timer_stop (ri_timer it)) as [t' st]. cbn zeta.
  assert (H : NoDup (map fst (set_item id {| ri_tomb := ri_tomb it; ri_timer := t' |} (rs_items s))) /\
              rs_tombs s = ntombs (set_item id {| ri_tomb := ri_tomb it; ri_timer := t' |} (rs_items s))).
  { rewrite set_item_fst. split; [exact Hnd|]. rewrite (set_item_ntombs _ _ _ _ Hg). cbn [ri_tomb]. lia. }
  destruct (st && negb (ct && ri_tomb it)); destruct ct; exact H.
Qed.

Lemma TInv_step s l s' : TInv s -> rstep s l = Some s' -> TInv s'.
Proof.
  intros HT Hs. destruct l as [id0|id0|id0|id0|id0|id0|id0|id0]; cbn [rstep] in Hs.
  - destruct (get_item id0 (rs_items s)) eqn:Hg; [discriminate|]. injection Hs as <-.
    destruct HT as [Hnd Hc]. split; cbn [rs_items rs_tombs map fst ntombs ri_tomb zb].
    + constructor; [apply get_none_notin; exact Hg|exact Hnd].
    + lia.
  - injection Hs as <-. apply get_stop_T. exact HT.
  - injection Hs as <-. apply get_stop_T. exact HT.
  - destruct (has id0 (rs_held s)); [|discriminate]. injection Hs as <-.
    apply finish_with_T. apply r_delete_T. exact HT.
  - destruct (has id0 (rs_held s)); [|discriminate]. injection Hs as <-.
    apply finish_with_T. apply r_entomb_T. exact HT.
  - destruct (get_item id0 (rs_items s)) as [it0|] eqn:Hg; [|discriminate].
    destruct (ri_timer it0 =? 0); [|discriminate]. injection Hs as <-.
    destruct HT as [Hnd Hc]. split; cbn [rs_items rs_tombs].
    + rewrite set_item_fst. exact Hnd.
    + rewrite (set_item_ntombs _ _ _ _ Hg). cbn [ri_tomb]. lia.
  - destruct (has id0 (rs_firing s)); [|discriminate]. injection Hs as <-.
    apply finish_with_T. apply r_entomb_T. exact HT.
  - destruct (has id0 (rs_gc s)); [|discriminate]. injection Hs as <-.
    apply r_delete_T. exact HT.
Qed.

Lemma TInv_run ls : forall s s', TInv s -> rrun s ls = Some s' -> TInv s'.
Proof.
  induction ls as [|l r IH]; intros s s' HK Hr; cbn [rrun] in Hr.
  - injection Hr as <-. exact HK.
  - destruct (rstep s l) as [s1|] eqn:Hs; [|discriminate]. eapply IH; [|exact Hr]. eapply TInv_step; eauto.
Qed.

Theorem relay_tombs_counter : forall mt ls s,
  rrun (rs_init mt) ls = Some s -> rs_tombs s = ntombs (rs_items s).
Proof.
  intros mt ls s Hr. assert (H0 : TInv (rs_init mt)) by (split; [constructor|reflexivity]).
  exact (proj2 (TInv_run ls _ _ H0 Hr)).
Qed.

Corollary relay_drained_full : forall mt ls s,
  rrun (rs_init mt) ls = Some s -> relay_quiet s = true -> rs_items s = [] /\ rs_tombs s = 0.
Proof.
  intros mt ls s Hr Hq. pose proof (relay_drained mt ls s Hr Hq) as H. split; [exact H|].
  rewrite (relay_tombs_counter mt ls s Hr), H. reflexivity.
Qed.

(* A hazard the model exposes (outside C11's statement; reported for C09/C03): the tombstone GC
   callback deletes by id.  If a handler that had stopped the timer finishes (deletes) an item
   that another goroutine entombed in between, and the same id is registered again before the
   GC callback runs, the callback deletes the NEW, live item: Release() on its armed timer
   panics, and the pending counter is never decremented.  Model-level trace only. *)
Lemma relay_gc_hits_reused_id_hazard :
  exists ls s, rrun (rs_init 30000) ls = Some s /\
    relay_quiet s = true /\ rs_items s = [] /\ rs_pending s = 1 /\ rs_panic s = true.
Proof.
  exists [RAdd 5; RGetStop 5; RFailStop 5; RFailHeld 5; RFinishHeld 5; RAdd 5; RGc 5].
  eexists. split; [vm_compute; reflexivity|]. vm_compute. repeat split; reflexivity.
Qed.
