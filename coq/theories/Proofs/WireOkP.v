(* Lemmas about the response grammar of Spec/WireOk.v: automaton characterisation,
   prefix closure, uniqueness and finality of the terminal frame. *)
From Coq Require Import List Bool Lia.
From Verif Require Import Spec.WireOk.
Import ListNotations.

Lemma wire_run_app q l1 l2 :
  wire_run q (l1 ++ l2) =
  match wire_run q l1 with Some q' => wire_run q' l2 | None => None end.
Proof.
  revert q; induction l1 as [|k r IH]; intros q; cbn [wire_run app].
  - reflexivity.
  - destruct (wire_step q k) as [q'|]; [apply IH | reflexivity].
Qed.

Lemma wire_run_end l : wire_run WEnd l = match l with [] => Some WEnd | _ => None end.
Proof. destruct l as [|k r]; reflexivity. Qed.

Lemma wire_step_end k : wire_step WEnd k = None.
Proof. destruct k as [[]|[]|]; reflexivity. Qed.

Lemma wire_step_terminal q k q' :
  wire_step q k = Some q' -> (terminal k = true <-> q' = WEnd).
Proof.
  destruct q, k as [[]|[]|]; cbn; intros H; inversion H; subst; split; intros E;
    try reflexivity; try discriminate.
Qed.

Lemma wire_step_never_W0 q k : wire_step q k <> Some W0.
Proof. destruct q, k as [[]|[]|]; cbn; discriminate. Qed.

Lemma wire_run_mid l :
  wire_run WMid l =
  if conts_more l then Some WMid
  else if conts_last l || conts_err l then Some WEnd else None.
Proof.
  induction l as [|k r IH].
  - reflexivity.
  - destruct k as [[]|[]|]; cbn [wire_run wire_step].
    + reflexivity.
    + reflexivity.
    + rewrite IH. cbn [conts_more conts_last conts_err].
      destruct r; reflexivity.
    + rewrite wire_run_end. destruct r; reflexivity.
    + rewrite wire_run_end. destruct r; reflexivity.
Qed.

Lemma wire_run_init l :
  wire_run W0 l =
  match l with
  | [] => Some W0
  | _ => if wire_open l then Some WMid else if wire_ok l then Some WEnd else None
  end.
Proof.
  destruct l as [|k r]; [reflexivity|].
  destruct k as [[]|[]|]; cbn [wire_run wire_step].
  - rewrite wire_run_mid. unfold wire_ok. cbn [wire_open wire_complete wire_cut].
    destruct (conts_more r); reflexivity.
  - rewrite wire_run_end. destruct r; reflexivity.
  - reflexivity.
  - reflexivity.
  - rewrite wire_run_end. destruct r; reflexivity.
Qed.

(* the two languages never overlap: an accepted word is not open *)
Lemma conts_more_not_last l : conts_more l = true -> conts_last l = false /\ conts_err l = false.
Proof.
  induction l as [|k r IH]; cbn.
  - split; reflexivity.
  - destruct k as [[]|[]|]; try discriminate. intros H. destruct (IH H) as [A B].
    split; destruct r; auto.
Qed.

Lemma wire_open_not_ok l : wire_open l = true -> wire_ok l = false.
Proof.
  destruct l as [|k r]; [reflexivity|].
  destruct k as [[]|[]|]; cbn; try discriminate.
  intros H. destruct (conts_more_not_last _ H) as [A B]. unfold wire_ok; cbn.
  rewrite A, B. reflexivity.
Qed.

(* automaton characterisations *)
Theorem wire_ok_run l : wire_ok l = true <-> wire_run W0 l = Some WEnd.
Proof.
  rewrite wire_run_init. destruct l as [|k r].
  - split; discriminate.
  - destruct (wire_open (k :: r)) eqn:O.
    + rewrite (wire_open_not_ok _ O). split; discriminate.
    + destruct (wire_ok (k :: r)); split; intros H; try reflexivity; discriminate.
Qed.

Theorem wire_prefix_ok_run l : wire_prefix_ok l = true <-> exists q, wire_run W0 l = Some q.
Proof.
  rewrite wire_run_init. unfold wire_prefix_ok. destruct l as [|k r].
  - split; [intros _; eexists; reflexivity | reflexivity].
  - destruct (wire_open (k :: r)) eqn:O.
    + rewrite orb_true_r. split; [intros _; eexists; reflexivity | reflexivity].
    + rewrite orb_false_r. destruct (wire_ok (k :: r)).
      * split; [intros _; eexists; reflexivity | reflexivity].
      * split; [discriminate | intros [q H]; discriminate].
Qed.

Corollary wire_prefix_ok_run_none l : wire_prefix_ok l = false <-> wire_run W0 l = None.
Proof.
  split; intros H.
  - destruct (wire_run W0 l) as [q|] eqn:E; [|reflexivity].
    assert (P : wire_prefix_ok l = true) by (apply wire_prefix_ok_run; eauto). congruence.
  - destruct (wire_prefix_ok l) eqn:E; [|reflexivity].
    apply wire_prefix_ok_run in E as [q E]. congruence.
Qed.

Theorem wire_ok_prefix l : wire_ok l = true -> wire_prefix_ok l = true.
Proof. intros H; unfold wire_prefix_ok; rewrite H; reflexivity. Qed.

Theorem wire_prefix_ok_app_inv l1 l2 :
  wire_prefix_ok (l1 ++ l2) = true -> wire_prefix_ok l1 = true.
Proof.
  rewrite !wire_prefix_ok_run, wire_run_app. intros [q H].
  destruct (wire_run W0 l1) as [q1|]; [eauto | discriminate].
Qed.

(* from every automaton state an accepted word can still be reached *)
Lemma wire_run_completable q : exists s, wire_run q s = Some WEnd.
Proof.
  destruct q; [exists [Err] | exists [Err] | exists []]; reflexivity.
Qed.

(* [wire_prefix_ok] is exactly the prefix closure of [wire_ok] *)
Theorem wire_prefix_ok_spec l :
  wire_prefix_ok l = true <-> exists s, wire_ok (l ++ s) = true.
Proof.
  split.
  - intros H. apply wire_prefix_ok_run in H as [q H].
    destruct (wire_run_completable q) as [s Hs]. exists s.
    apply wire_ok_run. rewrite wire_run_app, H. exact Hs.
  - intros [s H]. apply wire_ok_prefix in H. eapply wire_prefix_ok_app_inv; exact H.
Qed.

(* a terminal frame drives the automaton to WEnd, whence nothing is accepted *)
Lemma wire_run_terminal_end q l k q' :
  wire_run q (l ++ [k]) = Some q' -> terminal k = true -> q' = WEnd.
Proof.
  rewrite wire_run_app. destruct (wire_run q l) as [q1|]; [|discriminate].
  cbn [wire_run]. destruct (wire_step q1 k) as [q2|] eqn:S; [|discriminate].
  intros H T. inversion H; subst. apply (wire_step_terminal _ _ _ S). exact T.
Qed.

Theorem prefix_ok_terminal_last l1 k l2 :
  wire_prefix_ok (l1 ++ k :: l2) = true -> terminal k = true -> l2 = [].
Proof.
  intros H T. apply wire_prefix_ok_run in H as [q H].
  replace (l1 ++ k :: l2) with ((l1 ++ [k]) ++ l2) in H by (rewrite <- app_assoc; reflexivity).
  rewrite wire_run_app in H.
  destruct (wire_run W0 (l1 ++ [k])) as [q1|] eqn:E; [|discriminate].
  apply wire_run_terminal_end in E; [|exact T]. subst q1.
  rewrite wire_run_end in H. destruct l2; [reflexivity | discriminate].
Qed.

(* at most one terminal frame *)
Theorem prefix_ok_one_terminal l :
  wire_prefix_ok l = true -> (length (filter terminal l) <= 1)%nat.
Proof.
  intros H.
  destruct (filter terminal l) as [|a [|b r]] eqn:F; cbn; try lia.
  exfalso.
  (* locate the first terminal frame: something follows it *)
  assert (S : exists l1 k l2, l = l1 ++ k :: l2 /\ terminal k = true /\ l2 <> []).
  { clear H. revert a b r F. induction l as [|x l IH]; intros a b r F; [discriminate|].
    cbn [filter] in F. destruct (terminal x) eqn:T.
    - inversion F; subst. exists [], a, l. split; [reflexivity|]. split; [exact T|].
      intros ->. discriminate.
    - destruct (IH _ _ _ F) as (l1 & k & l2 & E & Tk & N). exists (x :: l1), k, l2.
      subst l. split; [reflexivity|]. split; assumption. }
  destruct S as (l1 & k & l2 & E & T & N). subst l.
  apply N. eapply prefix_ok_terminal_last; eassumption.
Qed.

(* one more frame: the step form used by invariant proofs *)
Lemma wire_run_snoc q l k :
  wire_run q (l ++ [k]) =
  match wire_run q l with Some q1 => wire_step q1 k | None => None end.
Proof.
  rewrite wire_run_app. destruct (wire_run q l) as [q1|]; [|reflexivity].
  cbn [wire_run]. destruct (wire_step q1 k); reflexivity.
Qed.

(* the automaton state tells how much was sent *)
Lemma wire_run_W0_nil l : wire_run W0 l = Some W0 -> l = [].
Proof.
  destruct l as [|k r]; [reflexivity|]. rewrite wire_run_init.
  destruct (wire_open (k :: r)); [discriminate|]. destruct (wire_ok (k :: r)); discriminate.
Qed.

Lemma wire_run_end_ok l : wire_run W0 l = Some WEnd -> wire_ok l = true.
Proof. apply wire_ok_run. Qed.

Lemma wire_run_mid_open l : wire_run W0 l = Some WMid -> wire_open l = true /\ l <> [].
Proof.
  destruct l as [|k r]; [discriminate|]. rewrite wire_run_init.
  destruct (wire_open (k :: r)); [intros _; split; [reflexivity | discriminate]|].
  destruct (wire_ok (k :: r)); discriminate.
Qed.
