(* Proofs about the channel close state machine (Model/ChanClose.v). *)
From Coq Require Import ZArith List Bool Lia Arith.
From Verif Require Import Base.Wrap Base.Wire Gen.GenConsts Model.CloseKernel Model.ChanClose Proofs.CloseKernelP.
Import ListNotations.
Local Open Scope Z_scope.

Ltac cconsts := unfold hClient, hListening, hSC, hIC, hCl, kA, kSC, kIC, kCl, c_ChannelClient, c_ChannelListening,
  c_ChannelStartClose, c_ChannelInboundClosed, c_ChannelClosed, c_connectionActive, c_connectionStartClose,
  c_connectionInboundClosed, c_connectionClosed in *.

Ltac zprop := repeat match goal with
  | H : (_ =? _) = true |- _ => apply Z.eqb_eq in H
  | H : (_ =? _) = false |- _ => apply Z.eqb_neq in H
  | H : (_ <? _) = true |- _ => apply Z.ltb_lt in H
  | H : (_ <? _) = false |- _ => apply Z.ltb_ge in H
  | H : (_ <=? _) = true |- _ => apply Z.leb_le in H
  | H : (_ <=? _) = false |- _ => apply Z.leb_gt in H
  | H : (_ && _) = true |- _ => apply andb_true_iff in H; destruct H
  | H : (_ || _) = false |- _ => apply orb_false_iff in H; destruct H
  | H : negb _ = true |- _ => apply negb_true_iff in H
  | H : negb _ = false |- _ => apply negb_false_iff in H
  end.

Ltac cfields := cbn [chst conns cstates g_closed g_owed lis set_chst set_conns set_closed set_cstate set_lis set_owed add_cstate] in *.

Ltac ctstep_inv H :=
  match type of H with ctstep _ ?p _ = Some _ => destruct p end;
  cbn [ctstep] in H;
  repeat (match type of H with
    | context [if ?c then _ else _] => destruct c eqn:?
    | context [match conns ?s with _ => _ end] => destruct (conns s) eqn:?
    | context [match ?snap with [] => _ | _ :: _ => _ end] => destruct snap eqn:?
    end);
  try discriminate; inversion H; subst; clear H.

(* ---------- lists of connection ids ---------- *)
Lemma in_remn : forall m n l, In m (remn n l) <-> In m l /\ m <> n.
Proof. intros m n l. unfold remn. rewrite filter_In, negb_true_iff, Nat.eqb_neq. tauto. Qed.

Lemma cstate_upd_same : forall s c v, (c < length (cstates s))%nat -> cstate (set_cstate s c v) c = v.
Proof.
  intros s c v H. unfold cstate. cfields. apply nth_error_nth. apply nth_error_upd_same. exact H.
Qed.

Lemma cstate_upd_other : forall s c d v, d <> c -> cstate (set_cstate s c v) d = cstate s d.
Proof.
  intros s c d v H. unfold cstate. cfields.
  destruct (nth_error (cstates s) d) as [x|] eqn:E.
  - rewrite (nth_error_nth _ _ _ E). apply nth_error_nth. rewrite nth_error_upd_other; auto.
  - rewrite (nth_overflow _ _ (proj1 (nth_error_None _ _) E)).
    apply nth_overflow. rewrite length_upd. apply nth_error_None. exact E.
Qed.

Lemma cstate_snoc_old : forall l x c, (c < length l)%nat -> nth c (l ++ [x]) kCl = nth c l kCl.
Proof. intros. apply app_nth1. exact H. Qed.

Lemma minstate_le : forall s c, In c (conns s) -> minstate s <= cstate s c.
Proof.
  intros s c. unfold minstate. induction (conns s) as [|d l IH]; intros H; [destruct H|].
  cbn [fold_right]. destruct H as [->|H]; [lia|]. specialize (IH H). lia.
Qed.

Lemma minstate_top : forall s, minstate s <= kCl.
Proof. intros s. unfold minstate. induction (conns s) as [|d l IH]; cbn [fold_right]; lia. Qed.

Lemma minstate_glb : forall s m, m <= kCl -> (forall c, In c (conns s) -> m <= cstate s c) -> m <= minstate s.
Proof.
  intros s m Hm. unfold minstate. induction (conns s) as [|d l IH]; intros H; cbn [fold_right]; [exact Hm|].
  assert (m <= cstate s d) by (apply H; left; reflexivity).
  assert (m <= fold_right (fun c m0 => Z.min (cstate s c) m0) kCl l) by (apply IH; intros; apply H; right; assumption).
  lia.
Qed.

(* ---------- base invariant ---------- *)
Definition I_ch (s : cshared) : Prop :=
  1 <= chst s <= 5 /\
  (forall c, In c (conns s) -> (c < length (cstates s))%nat) /\
  (forall c, (c < length (cstates s))%nat -> 1 <= cstate s c <= 4) /\
  (hIC <= chst s -> forall c, In c (conns s) -> kIC <= cstate s c) /\
  (chst s = hCl -> forall c, In c (conns s) -> cstate s c = kCl).

Definition A_ch (s : cshared) (p : cpc) : Prop :=
  match p with
  | PCb2 c => kCl <= cstate s c /\ (c < length (cstates s))%nat
  | PCb4 c chState | PCb4b c chState _ => (chState = hSC \/ chState = hIC) /\ chState <= chst s
  | PCb5 c _ u => (u = hIC \/ u = hCl) /\ hSC <= chst s /\
                (forall d, In d (conns s) -> (if u =? hCl then kCl else kIC) <= cstate s d)
  | PCb1 c | PAd1 c => (c < length (cstates s))%nat
  | _ => True
  end.

Definition G_ch (s s' : cshared) : Prop :=
  chst s <= chst s' /\
  (length (cstates s) <= length (cstates s'))%nat /\
  (forall c, (c < length (cstates s))%nat -> cstate s c <= cstate s' c) /\
  (hSC <= chst s -> forall c, In c (conns s') -> In c (conns s)).

Lemma G_ch_refl : forall s, G_ch s s.
Proof. intros s. unfold G_ch. repeat split; intros; auto; lia. Qed.

Lemma A_ch_stable : forall s s' p, G_ch s s' -> I_ch s -> A_ch s p -> A_ch s' p.
Proof.
  intros s s' p (Hc & Hl & Hs & Hsub) (Hr & Hin & Hrng & _) HA.
  destruct p; cbn [A_ch] in *; auto; try lia.
  - destruct HA as [HA Hlt]. split; [|lia]. specialize (Hs c Hlt). lia.
  - destruct HA as (H1 & H2 & H3). split; [exact H1|]. split; [lia|].
    intros d Hd. specialize (Hsub H2 d Hd). specialize (H3 d Hsub). specialize (Hs d (Hin d Hsub)). lia.
Qed.

Lemma conn_close_spec : forall s c,
  chst (conn_close s c) = chst s /\ conns (conn_close s c) = conns s /\
  length (cstates (conn_close s c)) = length (cstates s) /\ g_closed (conn_close s c) = g_closed s /\
  (forall d, (d < length (cstates s))%nat -> cstate s d <= cstate (conn_close s c) d) /\
  (forall d, (d < length (cstates s))%nat -> 1 <= cstate s d <= 4 -> 1 <= cstate (conn_close s c) d <= 4).
Proof.
  intros s c. unfold conn_close. destruct (cstate s c =? kA) eqn:E; zprop.
  - cfields. rewrite length_upd.
    assert (Hcs : forall d, (d < length (cstates s))%nat ->
              cstate (set_cstate s c kSC) d = if Nat.eqb d c then kSC else cstate s d).
    { intros d Hd. destruct (Nat.eqb d c) eqn:Ed.
      - apply Nat.eqb_eq in Ed. subst. apply cstate_upd_same. exact Hd.
      - apply Nat.eqb_neq in Ed. apply cstate_upd_other. exact Ed. }
    split; [reflexivity|]. split; [reflexivity|]. split; [reflexivity|]. split; [reflexivity|].
    split; intros d Hd; [|intros Hr]; rewrite (Hcs d Hd); destruct (Nat.eqb d c) eqn:Ed;
      try (apply Nat.eqb_eq in Ed; subst d); cconsts; lia.
  - split; [reflexivity|]. split; [reflexivity|]. split; [reflexivity|]. split; [reflexivity|].
    split; intros; lia.
Qed.

Lemma cstate_set_chst : forall s v c, cstate (set_chst s v) c = cstate s c.
Proof. reflexivity. Qed.
Lemma cstate_set_conns : forall s v c, cstate (set_conns s v) c = cstate s c.
Proof. reflexivity. Qed.
Lemma cstate_set_closed : forall s v c, cstate (set_closed s v) c = cstate s c.
Proof. reflexivity. Qed.

Lemma IG_set_chst : forall s v, I_ch s -> chst s <= v <= 5 ->
  (hIC <= v -> forall c, In c (conns s) -> kIC <= cstate s c) ->
  (v = hCl -> forall c, In c (conns s) -> cstate s c = kCl) ->
  G_ch s (set_chst s v) /\ I_ch (set_chst s v).
Proof.
  intros s v (Hr & Hin & Hrng & Hd1 & Hd2) Hv H1 H2. split.
  - unfold G_ch. cfields. repeat split; auto; try lia. intros; rewrite cstate_set_chst; lia.
  - unfold I_ch. cfields. repeat split; auto; try lia; intros; rewrite ?cstate_set_chst; auto; apply Hrng; auto.
Qed.

Lemma IG_set_closed : forall s v, I_ch s -> G_ch s (set_closed s v) /\ I_ch (set_closed s v).
Proof.
  intros s v (Hr & Hin & Hrng & Hd1 & Hd2). split.
  - unfold G_ch. cfields. repeat split; auto; try lia. intros; rewrite cstate_set_closed; lia.
  - unfold I_ch. cfields. repeat split; auto; try lia; intros; rewrite ?cstate_set_closed; auto; apply Hrng; auto.
Qed.

Lemma IG_set_conns_sub : forall s l, I_ch s -> (forall c, In c l -> In c (conns s)) ->
  G_ch s (set_conns s l) /\ I_ch (set_conns s l).
Proof.
  intros s l (Hr & Hin & Hrng & Hd1 & Hd2) Hsub. split.
  - unfold G_ch. cfields. repeat split; auto; try lia. intros; rewrite cstate_set_conns; lia.
  - unfold I_ch. cfields. repeat split; auto; try lia; intros; rewrite ?cstate_set_conns; auto; try (apply Hrng; auto).
Qed.

Lemma IG_conn_close : forall s c, I_ch s -> G_ch s (conn_close s c) /\ I_ch (conn_close s c).
Proof.
  intros s c (Hr & Hin & Hrng & Hd1 & Hd2).
  destruct (conn_close_spec s c) as (E1 & E2 & E3 & E4 & Hm & Hrg).
  split.
  - unfold G_ch. rewrite E1, E2, E3. repeat split; auto; try lia.
  - unfold I_ch. rewrite E1, E2, E3. refine (conj Hr (conj Hin (conj _ (conj _ _)))).
    + intros d Hd. apply Hrg; auto.
    + intros Hc d Hd. specialize (Hd1 Hc d Hd). specialize (Hm d (Hin d Hd)). lia.
    + intros Hc d Hd. specialize (Hd2 Hc d Hd). specialize (Hm d (Hin d Hd)).
      destruct (Hrg d (Hin d Hd) (Hrng d (Hin d Hd))). cconsts. lia.
Qed.

Lemma IG_add_conn : forall s c, I_ch s -> chst s < hSC -> (c < length (cstates s))%nat ->
  G_ch s (set_conns s (conns s ++ [c])) /\ I_ch (set_conns s (conns s ++ [c])).
Proof.
  intros s c (Hr & Hin & Hrng & Hd1 & Hd2) Hlt Hc. split.
  - unfold G_ch. cfields. repeat split; auto; try lia. intros; rewrite cstate_set_conns; lia.
  - unfold I_ch. cfields. refine (conj Hr (conj _ (conj Hrng (conj _ _)))).
    + intros d Hd. apply in_app_or in Hd. destruct Hd as [Hd|[<-|[]]]; auto.
    + intros Hx. cconsts. lia.
    + intros Hx. cconsts. lia.
Qed.

Lemma IG_lis : forall s b, I_ch s -> G_ch s (set_lis s b) /\ I_ch (set_lis s b).
Proof.
  intros s b (Hr & Hin & Hrng & Hd1 & Hd2). split.
  - unfold G_ch. cfields. repeat split; auto; try lia. intros. unfold cstate. cfields. lia.
  - unfold I_ch. cfields. refine (conj Hr (conj Hin (conj Hrng (conj Hd1 Hd2)))).
Qed.

Lemma update_to_cases : forall m chState,
  let u := update_to m chState in
  (u = hCl /\ kCl <= m) \/ (u = hIC /\ kIC <= m /\ chState = hSC) \/ u = 0.
Proof.
  intros m chState. unfold update_to. destruct (kCl <=? m) eqn:E1; zprop; [left; auto|].
  destruct ((kIC <=? m) && (chState =? hSC)) eqn:E2; zprop; [right; left; auto|right; right; reflexivity].
Qed.

Lemma ch_tstep : forall s p arg s' p', I_ch s -> A_ch s p -> ctstep s p arg = Some (s', p') ->
  G_ch s s' /\ I_ch s' /\ A_ch s' p'.
Proof.
  intros s p arg s' p' HI HA H. pose proof HI as (Hr & Hin & Hrng & Hd1 & Hd2).
  ctstep_inv H; cfields; cbn [A_ch] in *.
  all: try (split; [apply G_ch_refl|split; [exact HI|]]; zprop; cconsts; auto; try tauto; try lia).
  all: try match goal with |- ?G /\ ?I /\ True => cut (G /\ I); [tauto|] end.
  all: try (apply IG_set_closed; exact HI).
  all: try (apply IG_conn_close; exact HI).
  all: try (apply IG_set_conns_sub; [exact HI|intros d Hd; apply in_remn in Hd; tauto]).
  all: try (apply IG_add_conn; [exact HI|zprop; cconsts; lia|exact HA]).
  all: try (change (set_chst (set_chst s hSC) hCl) with (set_chst s hCl)).
  all: try (apply IG_set_chst; [exact HI|zprop; cconsts; lia| |];
            first [intros Hx; zprop; cconsts; lia
                  |match goal with E : conns _ = [] |- _ => rewrite E; intros _ d [] end
                  |idtac]).
  (* PCb4b -> PCb5: the scanned minimum bounds every tracked connection *)
  - destruct HA as [HA1 HA2]. destruct (update_to_cases arg chState) as [[Hu Hm]|[[Hu [Hm Hc]]|Hu]];
      cbv zeta in Hu; [| |rewrite Hu in *; discriminate].
    + rewrite Hu. split; [right; reflexivity|]. split; [cconsts; lia|].
      intros d Hd. pose proof (minstate_le s' d Hd). cconsts. cbn [Z.eqb Pos.eqb]. lia.
    + rewrite Hu. split; [left; reflexivity|]. split; [cconsts; lia|].
      intros d Hd. pose proof (minstate_le s' d Hd). cconsts. cbn [Z.eqb Pos.eqb]. lia.
  (* PCb5: the update is applied *)
  - destruct HA as (HA1 & HA2 & HA3). intros Hx d Hd. specialize (HA3 d Hd).
    destruct HA1 as [->| ->]; [replace (hIC =? hCl) with false in HA3 by reflexivity; exact HA3|rewrite Z.eqb_refl in HA3; cconsts; lia].
  - destruct HA as (HA1 & HA2 & HA3). intros Hx d Hd. specialize (HA3 d Hd). subst updateTo.
    rewrite Z.eqb_refl in HA3. pose proof (Hrng d (Hin d Hd)). cconsts. lia.
  - destruct HA as (HA1 & HA2 & HA3). intros Hx d Hd. specialize (HA3 d Hd).
    destruct HA1 as [->| ->]; [replace (hIC =? hCl) with false in HA3 by reflexivity; exact HA3|rewrite Z.eqb_refl in HA3; cconsts; lia].
  (* PSrv: refused by the state test (the listener is set all the same) *)
  - apply IG_lis; exact HI.
  (* PSrv: Client -> Listening *)
  - destruct (IG_lis s true HI) as [_ I1]. zprop.
    assert (Hc : chst s = hClient) by assumption.
    destruct (IG_set_chst (set_lis s true) hListening I1) as [G2 I2].
    + cfields. rewrite Hc. cconsts. lia.
    + intros Hx. cconsts. lia.
    + intros Hx. cconsts. lia.
    + split; [exact G2|exact I2].
Qed.

Definition ch_Inv (s : csys) : Prop :=
  I_ch (csh s) /\ forall n p, nth_error (cthr s) n = Some p -> A_ch (csh s) p.

Lemma IG_owed : forall s o, I_ch s -> let s' := set_owed s o in G_ch s s' /\ I_ch s'.
Proof.
  intros s o (Hr & Hin & Hrng & Hd1 & Hd2). cbv zeta. split.
  - unfold G_ch. cfields. repeat split; auto; try lia. intros. unfold cstate. cfields. lia.
  - unfold I_ch. cfields. refine (conj Hr (conj Hin (conj Hrng (conj Hd1 Hd2)))).
Qed.

Lemma IG_newconn : forall s, I_ch s ->
  let s' := add_cstate s kA in G_ch s s' /\ I_ch s'.
Proof.
  intros s (Hr & Hin & Hrng & Hd1 & Hd2). cbv zeta.
  assert (Hold : forall c, (c < length (cstates s))%nat ->
            cstate (add_cstate s kA) c = cstate s c).
  { intros c Hc. unfold cstate. cfields. apply app_nth1. exact Hc. }
  split.
  - unfold G_ch. cfields. rewrite app_length. cbn [length]. repeat split; auto; try lia.
    intros c Hc. rewrite Hold by exact Hc. lia.
  - unfold I_ch. cfields. rewrite app_length. cbn [length]. refine (conj Hr (conj _ (conj _ (conj _ _)))).
    + intros c Hc. specialize (Hin c Hc). lia.
    + intros c Hc. destruct (Nat.eq_dec c (length (cstates s))) as [->|Hne].
      * unfold cstate. cfields. rewrite app_nth2 by lia. rewrite Nat.sub_diag. cbn. cconsts. lia.
      * rewrite Hold by lia. apply Hrng. lia.
    + intros Hx c Hc. rewrite Hold by (apply Hin; exact Hc). apply Hd1; auto.
    + intros Hx c Hc. rewrite Hold by (apply Hin; exact Hc). apply Hd2; auto.
Qed.

Lemma IG_connmove : forall s c v, I_ch s -> (c < length (cstates s))%nat -> cstate s c < v -> v <= kCl ->
  G_ch s (set_cstate s c v) /\ I_ch (set_cstate s c v).
Proof.
  intros s c v (Hr & Hin & Hrng & Hd1 & Hd2) Hc Hlt Hv.
  assert (Hcs : forall d, (d < length (cstates s))%nat ->
            cstate (set_cstate s c v) d = if Nat.eqb d c then v else cstate s d).
  { intros d Hd. destruct (Nat.eqb d c) eqn:Ed.
    - apply Nat.eqb_eq in Ed. subst. apply cstate_upd_same. exact Hd.
    - apply Nat.eqb_neq in Ed. apply cstate_upd_other. exact Ed. }
  pose proof (Hrng c Hc) as Hrc.
  split.
  - unfold G_ch. cfields. rewrite length_upd. repeat split; auto; try lia.
    intros d Hd. fold (set_cstate s c v). rewrite (Hcs d Hd). destruct (Nat.eqb d c) eqn:E; [apply Nat.eqb_eq in E; subst|]; lia.
  - unfold I_ch. cfields. rewrite length_upd. fold (set_cstate s c v).
    refine (conj Hr (conj Hin (conj _ (conj _ _)))).
    + intros d Hd. rewrite (Hcs d Hd). destruct (Nat.eqb d c); [cconsts; lia|apply Hrng; exact Hd].
    + intros Hx d Hd. rewrite (Hcs d (Hin d Hd)). specialize (Hd1 Hx d Hd).
      destruct (Nat.eqb d c) eqn:E; [apply Nat.eqb_eq in E; subst; lia|exact Hd1].
    + intros Hx d Hd. rewrite (Hcs d (Hin d Hd)). specialize (Hd2 Hx d Hd).
      destruct (Nat.eqb d c) eqn:E; [apply Nat.eqb_eq in E; subst; cconsts; lia|exact Hd2].
Qed.

Lemma IG_listen : forall s, I_ch s -> chst s = hClient ->
  G_ch s (set_chst (set_lis s true) hListening) /\ I_ch (set_chst (set_lis s true) hListening).
Proof.
  intros s HI Hc. destruct (IG_lis s true HI) as [_ I1].
  destruct (IG_set_chst (set_lis s true) hListening I1) as [G2 I2].
  - cfields. rewrite Hc. cconsts. lia.
  - intros Hx. cconsts. lia.
  - intros Hx. cconsts. lia.
  - split; [exact G2|exact I2].
Qed.

Lemma ch_step : forall s l s', ch_Inv s -> cstep s l = Some s' -> G_ch (csh s) (csh s') /\ ch_Inv s'.
Proof.
  intros s l s' [HI HA] Hs.
  assert (Hadd : forall sh' p, G_ch (csh s) sh' -> I_ch sh' -> A_ch sh' p ->
            G_ch (csh s) sh' /\ ch_Inv (mkCS sh' (cthr s ++ [p]))).
  { intros sh' p HG HI' Hp. split; [exact HG|]. split; [exact HI'|]. cbn [csh cthr].
    intros n q Hn. apply nth_error_snoc in Hn. destruct Hn as [[_ Hn]|[_ ->]]; [|exact Hp].
    eapply A_ch_stable; eauto. }
  destruct l; cbn [cstep] in Hs.
  - destruct ((chst (csh s) =? hClient) && negb (lis (csh s))) eqn:E; [|discriminate]. inversion Hs; subst; clear Hs. zprop.
    destruct (IG_listen (csh s) HI) as [HG HI']; [assumption|].
    split; [exact HG|]. split; [exact HI'|]. cbn [csh cthr]. intros n q Hn. eapply A_ch_stable; eauto.
  - inversion Hs; subst; clear Hs. destruct (IG_newconn (csh s) HI) as [HG HI']. cbv zeta in HG, HI'.
    apply Hadd; auto. cbn [A_ch]. cfields. rewrite app_length. cbn [length]. lia.
  - destruct ((c <? length (cstates (csh s)))%nat && (cstate (csh s) c <? v) && (v <=? kCl)) eqn:E; [|discriminate].
    inversion Hs; subst; clear Hs. zprop. apply Nat.ltb_lt in H.
    destruct (IG_connmove (csh s) c v HI H H1 H0) as [HG HI'].
    split; [exact HG|]. split; [exact HI'|]. cbn [csh cthr]. intros n q Hn. eapply A_ch_stable; eauto.
  - inversion Hs; subst; clear Hs. apply Hadd; [apply G_ch_refl|exact HI|exact I].
  - destruct (c <? length (cstates (csh s)))%nat eqn:E; [|discriminate]. inversion Hs; subst; clear Hs.
    apply Nat.ltb_lt in E. destruct (IG_owed (csh s) (remn c (g_owed (csh s))) HI) as [HG HI']. cbv zeta in HG, HI'.
    apply Hadd; auto.
  - inversion Hs; subst; clear Hs. apply Hadd; [apply G_ch_refl|exact HI|exact I].
  - destruct (nth_error (cthr s) tid) as [p|] eqn:Ep; [|discriminate].
    destruct (ctstep (csh s) p arg) as [[sh' p']|] eqn:Et; [|discriminate].
    inversion Hs; subst; clear Hs. cbn [csh cthr].
    destruct (ch_tstep _ _ _ _ _ HI (HA _ _ Ep) Et) as (HG & HI' & HA').
    split; [exact HG|]. split; [exact HI'|]. cbn [csh cthr].
    intros n q Hn. apply nth_error_upd in Hn. destruct Hn as [[_ ->]|[_ Hn]]; [exact HA'|].
    eapply A_ch_stable; eauto.
  - inversion Hs; subst; clear Hs. apply Hadd; [apply G_ch_refl|exact HI|exact I].
  - inversion Hs; subst; clear Hs. apply Hadd; [apply G_ch_refl|exact HI|exact I].
Qed.

Lemma ch_inv : forall s, Reach cstep cinit s -> ch_Inv s.
Proof.
  apply reach_ind.
  - split.
    + unfold I_ch. cbn. cconsts. repeat split; try lia; intros; try lia; try contradiction.
    + intros [|n] p H; discriminate.
  - intros s l s' _ IH Hs. eapply ch_step; eauto.
Qed.

(* MONOTONE.  Along every run the channel state never decreases and stays within Client .. Closed. *)
Theorem chan_monotone : forall ls1 ls2 s1 s2,
  run cstep cinit ls1 = Some s1 -> run cstep s1 ls2 = Some s2 ->
  chst (csh s1) <= chst (csh s2) /\ hClient <= chst (csh s1) /\ chst (csh s2) <= hCl.
Proof.
  intros ls1 ls2 s1 s2 H1 H2.
  assert (R1 : Reach cstep cinit s1) by (exists ls1; exact H1).
  assert (R : forall ls a b, Reach cstep cinit a -> run cstep a ls = Some b ->
              chst (csh a) <= chst (csh b) /\ Reach cstep cinit b).
  { induction ls as [|l ls IH] using rev_ind; intros a b Ha Hr.
    - cbn in Hr. inversion Hr; subst. split; [lia|exact Ha].
    - rewrite run_snoc in Hr. destruct (run cstep a ls) as [m|] eqn:E; [|discriminate].
      destruct (IH a m Ha E) as [Hle Hm]. destruct (ch_step m l b (ch_inv m Hm) Hr) as [(Hg & _) _].
      split; [lia|eapply reach_step; eauto]. }
  destruct (R ls2 s1 s2 R1 H2) as [Hle R2].
  destruct (ch_inv s1 R1) as [(Hr1 & _) _]. destruct (ch_inv s2 R2) as [(Hr2 & _) _].
  cconsts. lia.
Qed.

(* DRAIN (channel level).  In every reachable state: a channel at or beyond InboundClosed tracks
   only connections at or beyond InboundClosed, and a Closed channel tracks only Closed
   connections -- the channel never reports more progress than its slowest connection. *)
Theorem chan_drain : forall s, Reach cstep cinit s ->
  (hIC <= chst (csh s) -> forall c, In c (conns (csh s)) -> kIC <= cstate (csh s) c) /\
  (chst (csh s) = hCl -> forall c, In c (conns (csh s)) -> cstate (csh s) c = kCl).
Proof. intros s Hr. destruct (ch_inv s Hr) as [(_ & _ & _ & H1 & H2) _]. split; assumption. Qed.

(* ---------- closed is signalled exactly once ---------- *)
Definition cowing (p : cpc) : bool :=
  match p with PCl2 _ true | PCl3 | PCb6 => true | _ => false end.
Definition b2z (b : bool) : Z := if b then 1 else 0.
Definition cowed (s : csys) : Z := Z.of_nat (count_if cowing (cthr s)).

Lemma csignal_tstep : forall s p arg s' p', I_ch s -> A_ch s p -> ctstep s p arg = Some (s', p') ->
  g_closed s' + b2z (cowing p') + b2z (chst s =? hCl) = g_closed s + b2z (cowing p) + b2z (chst s' =? hCl).
Proof.
  intros s p arg s' p' (Hr & _) HA H.
  ctstep_inv H; cfields; cbn [A_ch cowing b2z] in *;
    try (destruct (conn_close_spec s (Z.to_nat arg)) as (-> & _ & _ & -> & _));
    try (destruct (conn_close_spec s c) as (-> & _ & _ & -> & _));
    try (destruct channelClosed); cbn [cowing b2z];
    repeat match goal with |- context [?a =? ?b] => destruct (a =? b) eqn:? end; zprop; cconsts; cbn [cowing b2z]; try lia.
  all: try (destruct HA as ([->| ->] & _); lia).
Qed.

Lemma csignal_inv : forall s, Reach cstep cinit s ->
  g_closed (csh s) + cowed s = b2z (chst (csh s) =? hCl).
Proof.
  apply reach_ind; [reflexivity|].
  intros s l s' Hr IH Hs. destruct (ch_inv s Hr) as [HI HA].
  assert (Hadd : forall p, cowing p = false -> count_if cowing (cthr s ++ [p]) = count_if cowing (cthr s)).
  { intros p Hp. rewrite count_if_app. unfold count_if at 2. cbn [filter]. rewrite Hp. cbn. lia. }
  unfold cowed in *. destruct l; cbn [cstep] in Hs.
  - destruct ((chst (csh s) =? hClient) && negb (lis (csh s))) eqn:E; [|discriminate]. inversion Hs; subst; clear Hs. cbn [csh cthr]. cfields.
    zprop. match goal with E : chst _ = hClient |- _ => rewrite E in IH end. exact IH.
  - inversion Hs; subst; clear Hs. cbn [csh cthr]. cfields. rewrite Hadd by reflexivity. exact IH.
  - destruct ((c <? length (cstates (csh s)))%nat && (cstate (csh s) c <? v) && (v <=? kCl)); [|discriminate].
    inversion Hs; subst; clear Hs. cbn [csh cthr]. cfields. exact IH.
  - inversion Hs; subst; clear Hs. cbn [csh cthr]. rewrite Hadd by reflexivity. exact IH.
  - destruct (c <? length (cstates (csh s)))%nat; [|discriminate]. inversion Hs; subst; clear Hs.
    cbn [csh cthr]. cfields. rewrite Hadd by reflexivity. exact IH.
  - inversion Hs; subst; clear Hs. cbn [csh cthr]. rewrite Hadd by reflexivity. exact IH.
  - destruct (nth_error (cthr s) tid) as [p|] eqn:Ep; [|discriminate].
    destruct (ctstep (csh s) p arg) as [[sh' p']|] eqn:Et; [|discriminate].
    inversion Hs; subst; clear Hs. cbn [csh cthr].
    pose proof (csignal_tstep _ _ _ _ _ HI (HA _ _ Ep) Et) as Hd.
    pose proof (count_if_upd cowing (cthr s) tid p p' Ep) as Hc.
    unfold b2z in *. destruct (cowing p), (cowing p'); lia.
  - inversion Hs; subst; clear Hs. cbn [csh cthr]. rewrite Hadd by reflexivity. exact IH.
  - inversion Hs; subst; clear Hs. cbn [csh cthr]. rewrite Hadd by reflexivity. exact IH.
Qed.

Lemma cclosed_tstep : forall s p arg s' p', ctstep s p arg = Some (s', p') -> g_closed s <= g_closed s'.
Proof.
  intros s p arg s' p' H.
  ctstep_inv H; cfields; try lia;
    try (destruct (conn_close_spec s (Z.to_nat arg)) as (_ & _ & _ & -> & _); lia);
    try (destruct (conn_close_spec s c) as (_ & _ & _ & -> & _); lia).
Qed.

Lemma cclosed_nonneg : forall s, Reach cstep cinit s -> 0 <= g_closed (csh s).
Proof.
  apply reach_ind; [cbn; lia|].
  intros s l s' _ IH Hs. destruct l; cbn [cstep] in Hs.
  - destruct ((chst (csh s) =? hClient) && negb (lis (csh s))); [|discriminate]. inversion Hs; subst. cbn [csh]. cfields. exact IH.
  - inversion Hs; subst. cbn [csh]. cfields. exact IH.
  - destruct ((c <? length (cstates (csh s)))%nat && (cstate (csh s) c <? v) && (v <=? kCl)); [|discriminate].
    inversion Hs; subst. cbn [csh]. cfields. exact IH.
  - inversion Hs; subst. exact IH.
  - destruct (c <? length (cstates (csh s)))%nat; [|discriminate]. inversion Hs; subst. cbn [csh]. cfields. exact IH.
  - inversion Hs; subst. exact IH.
  - destruct (nth_error (cthr s) tid) as [p|]; [|discriminate].
    destruct (ctstep (csh s) p arg) as [[sh' p']|] eqn:Et; [|discriminate].
    inversion Hs; subst. cbn [csh]. pose proof (cclosed_tstep _ _ _ _ _ Et). lia.
  - inversion Hs; subst. exact IH.
  - inversion Hs; subst. exact IH.
Qed.

(* SIGNAL ONCE (channel).  ch.closed is closed at most once; never while the state is not
   Closed; exactly once when the state is Closed and no thread is between its transition to
   Closed and its onClosed(); at most one thread ever owes the close (no double close panic). *)
Theorem chan_signal_once : forall s, Reach cstep cinit s ->
  0 <= g_closed (csh s) <= 1 /\
  (chst (csh s) <> hCl -> g_closed (csh s) = 0 /\ cowed s = 0) /\
  (chst (csh s) = hCl -> g_closed (csh s) + cowed s = 1) /\
  (chst (csh s) = hCl -> (forall n p, nth_error (cthr s) n = Some p -> cowing p = false) -> g_closed (csh s) = 1).
Proof.
  intros s Hr. pose proof (csignal_inv s Hr) as H.
  pose proof (cclosed_nonneg s Hr) as Hc.
  assert (Ho : 0 <= cowed s) by (unfold cowed; lia).
  unfold b2z in H. destruct (chst (csh s) =? hCl) eqn:E; zprop.
  - repeat split; try lia; try congruence.
    intros _ Hall. unfold cowed in *. rewrite (count_if_zero cowing (cthr s) Hall) in H. lia.
  - repeat split; try lia; try congruence.
Qed.

(* ---------- reaches closed (channel) ---------- *)
(* every tracked connection that is Closed has a pending removal: its callback is owed or running *)
Definition K_inv (s : csys) : Prop :=
  forall c, In c (conns (csh s)) -> kCl <= cstate (csh s) c ->
    In c (g_owed (csh s)) \/ exists n, nth_error (cthr s) n = Some (PCb1 c) \/ nth_error (cthr s) n = Some (PCb2 c).

Lemma ctstep_frame : forall s p arg s' p', I_ch s -> A_ch s p -> ctstep s p arg = Some (s', p') ->
  (forall c, In c (conns s') -> In c (conns s) \/ (p = PAd1 c /\ cstate s' c = kA)) /\
  (forall c, (c < length (cstates s))%nat -> kCl <= cstate s' c -> kCl <= cstate s c) /\
  (forall c, In c (g_owed s) -> In c (g_owed s')) /\
  (forall c, p = PCb2 c -> ~ In c (conns s')).
Proof.
  intros s p arg s' p' HI HA H. pose proof HI as (Hr & Hin & Hrng & _).
  assert (Hcc : forall d, (forall c, In c (conns (conn_close s d)) -> In c (conns s) \/ False) /\
            (forall c, (c < length (cstates s))%nat -> kCl <= cstate (conn_close s d) c -> kCl <= cstate s c) /\
            (forall c, In c (g_owed s) -> In c (g_owed (conn_close s d)))).
  { intros d. unfold conn_close. destruct (cstate s d =? kA) eqn:E; zprop; [|repeat split; auto].
    cfields. repeat split; auto.
    - intros c Hc Hk. destruct (Nat.eq_dec c d) as [->|Hn].
      + rewrite cstate_upd_same in Hk by exact Hc. cconsts. lia.
      + rewrite cstate_upd_other in Hk by exact Hn. exact Hk.
    - intros c Hc. apply in_or_app. left. exact Hc. }
  ctstep_inv H; cfields; cbn [A_ch] in *;
    destruct (Hcc (Z.to_nat arg)) as (C1 & C2 & C3);
    try (match goal with c : nat |- _ => destruct (Hcc c) as (D1 & D2 & D3) end);
    (split; [|split; [|split]]); try (intros; auto; fail); try (intros ? ?; discriminate); try (intros ? ? ?; discriminate).
  all: try (intros d Hd; destruct (C1 d Hd) as [?|[]]; left; assumption).
  all: try (intros d Hd; destruct (D1 d Hd) as [?|[]]; left; assumption).
  all: try (exact D2). all: try (exact D3). all: try (exact C2). all: try (exact C3).
  all: try (intros d Hd; apply in_remn in Hd; left; tauto).
  all: try (intros d Hd; inversion Hd; subst; intros Hx; apply in_remn in Hx; tauto).
  all: try (intros d Hd; apply in_app_or in Hd; destruct Hd as [Hd|[<-|[]]]; [left; exact Hd|right; split; [reflexivity|]];
            unfold cstate in *; cfields; zprop; assumption).
  all: try (intros d Hd; left; first [exact Hd | rewrite Heql in Hd; exact Hd | rewrite <- Heql; exact Hd]).
Qed.

Lemma K_reach : forall s, Reach cstep cinit s -> K_inv s.
Proof.
  apply reach_ind; [intros c []|].
  intros s l s' Hr IH Hs. destruct (ch_inv s Hr) as [HI HA]. pose proof HI as (Hrg & Hin & Hrng & _).
  assert (Hold : forall sh' p, conns sh' = conns (csh s) -> g_owed sh' = g_owed (csh s) ->
            (forall c, In c (conns (csh s)) -> cstate sh' c = cstate (csh s) c) ->
            K_inv (mkCS sh' (cthr s ++ [p]))).
  { intros sh' p E1 E2 E3 c Hc Hk. cbn [csh cthr] in *. rewrite E1 in Hc. rewrite E3 in Hk by exact Hc.
    destruct (IH c Hc Hk) as [Ho|[n Hn]]; [left; rewrite E2; exact Ho|right; exists n].
    destruct Hn as [Hn|Hn]; [left|right]; apply nth_error_snoc_old; exact Hn. }
  destruct l; cbn [cstep] in Hs.
  - destruct ((chst (csh s) =? hClient) && negb (lis (csh s))); [|discriminate]. inversion Hs; subst; clear Hs.
    intros c Hc Hk. cbn [csh cthr] in *. cfields. exact (IH c Hc Hk).
  - inversion Hs; subst; clear Hs. apply Hold; try reflexivity.
    intros c Hc. unfold cstate. cfields. apply app_nth1. apply Hin. exact Hc.
  - destruct ((c <? length (cstates (csh s)))%nat && (cstate (csh s) c <? v) && (v <=? kCl)) eqn:E; [|discriminate].
    inversion Hs; subst; clear Hs. zprop. intros d Hd Hk. cbn [csh cthr] in *. cfields.
    destruct (Nat.eq_dec d c) as [->|Hne].
    + left. apply in_or_app. right. left. reflexivity.
    + fold (set_cstate (csh s) c v) in Hk. rewrite cstate_upd_other in Hk by exact Hne.
      destruct (IH d Hd Hk) as [Ho|Hn]; [left; apply in_or_app; left; exact Ho|right; exact Hn].
  - inversion Hs; subst; clear Hs. apply Hold; reflexivity.
  - destruct (c <? length (cstates (csh s)))%nat; [|discriminate]. inversion Hs; subst; clear Hs.
    intros d Hd Hk. cbn [csh cthr] in *. cfields. change (cstate _ d) with (cstate (csh s) d) in Hk.
    destruct (Nat.eq_dec d c) as [->|Hne].
    + right. exists (length (cthr s)). left. rewrite nth_error_app2 by lia. rewrite Nat.sub_diag. reflexivity.
    + destruct (IH d Hd Hk) as [Ho|[n Hn]].
      * left. apply in_remn. auto.
      * right. exists n. destruct Hn as [Hn|Hn]; [left|right]; apply nth_error_snoc_old; exact Hn.
  - inversion Hs; subst; clear Hs. apply Hold; reflexivity.
  - destruct (nth_error (cthr s) tid) as [p|] eqn:Ep; [|discriminate].
    destruct (ctstep (csh s) p arg) as [[sh' p']|] eqn:Et; [|discriminate].
    inversion Hs; subst; clear Hs.
    destruct (ctstep_frame _ _ _ _ _ HI (HA _ _ Ep) Et) as (F1 & F2 & F3 & F4).
    pose proof (nth_error_lt _ _ _ Ep) as Hlt.
    intros c Hc Hk. cbn [csh cthr] in *.
    destruct (F1 c Hc) as [Hc0|[_ Hka]]; [|cconsts; lia].
    specialize (F2 c (Hin c Hc0) Hk).
    destruct (IH c Hc0 F2) as [Ho|[n Hn]]; [left; apply F3; exact Ho|].
    destruct (Nat.eq_dec n tid) as [->|Hne].
    + (* the stepping thread was the pending removal *)
      rewrite Ep in Hn. destruct Hn as [Hn|Hn]; inversion Hn; subst p.
      * cbn [ctstep] in Et. pose proof (Hrng c (Hin c Hc0)) as Hr4.
        assert (Ec : (cstate (csh s) c =? kCl) = true) by (apply Z.eqb_eq; cconsts; lia).
        rewrite Ec in Et. inversion Et; subst. right. exists tid. right. apply nth_error_upd_same. exact Hlt.
      * exfalso. exact (F4 c eq_refl Hc).
    + right. exists n. rewrite !nth_error_upd_other by exact Hne. exact Hn.
  - inversion Hs; subst; clear Hs. apply Hold; reflexivity.
  - inversion Hs; subst; clear Hs. apply Hold; reflexivity.
Qed.

Definition chopeful (p : cpc) : bool :=
  match p with
  | PCb1 _ | PCb2 _ | PCb3 _ | PCb4 _ _ => true
  | PCb4b _ _ lo => kCl <=? lo
  | PCb5 _ _ u => u =? hCl
  | _ => false
  end.

Definition open_conn (s : cshared) : Prop := exists c, In c (conns s) /\ cstate s c < kCl.

Definition Lc_inv (s : csys) : Prop :=
  (chst (csh s) = hSC \/ chst (csh s) = hIC) ->
  open_conn (csh s) \/ g_owed (csh s) <> [] \/ exists n p, nth_error (cthr s) n = Some p /\ chopeful p = true.

Lemma minstate_witness : forall s, minstate s < kCl -> open_conn s.
Proof.
  intros s. unfold minstate, open_conn. induction (conns s) as [|d l IH]; cbn [fold_right]; [lia|].
  intros H. destruct (Z_lt_ge_dec (cstate s d) kCl) as [L|L].
  - exists d. split; [left; reflexivity|exact L].
  - destruct IH as [c [Hc Hl]]; [lia|]. exists c. split; [right; exact Hc|exact Hl].
Qed.

(* a step of a thread preserves "some tracked connection is still open" *)
Lemma open_tstep : forall s p arg s' p', I_ch s -> A_ch s p -> ctstep s p arg = Some (s', p') ->
  open_conn s -> open_conn s'.
Proof.
  intros s p arg s' p' HI HA H [c [Hc Hl]]. pose proof HI as (Hr & Hin & Hrng & _).
  assert (Hcc : forall d, open_conn (conn_close s d)).
  { intros d. exists c. destruct (conn_close_spec s d) as (_ & -> & _ & _ & _ & _). split; [exact Hc|].
    unfold conn_close. destruct (cstate s d =? kA) eqn:E; [|exact Hl]. zprop.
    destruct (Nat.eq_dec c d) as [->|Hne].
    - rewrite cstate_upd_same by (apply Hin; exact Hc). cconsts. lia.
    - rewrite cstate_upd_other by exact Hne. exact Hl. }
  ctstep_inv H; cfields; cbn [A_ch] in *; try (apply Hcc);
    try (exists c; split; [first [exact Hc | rewrite <- Heql; exact Hc | rewrite Heql in Hc; exact Hc]|exact Hl]).
  - destruct Hc.
  - destruct Hc.
  - exists c. split; [|exact Hl]. cfields. rewrite Heql. exact Hc.
  - exists c. split; [|exact Hl]. rewrite Heql. exact Hc.
  - exists c. split; [|exact Hl]. cfields. apply in_remn. split; [exact Hc|]. intros ->. lia.
  - exists c. split; [cfields; apply in_or_app; left; exact Hc|exact Hl].
Qed.

Lemma hope_tstep : forall s p arg s' p', I_ch s -> A_ch s p -> ctstep s p arg = Some (s', p') ->
  chopeful p = true -> (chst s' = hSC \/ chst s' = hIC) -> chopeful p' = true \/ open_conn s'.
Proof.
  intros s p arg s' p' (Hr & _) HA H Hh Hst.
  ctstep_inv H; cfields; cbn [chopeful A_ch] in *; try discriminate; try (left; reflexivity); zprop.
  - exfalso. cconsts. lia.
  - destruct (Z_lt_ge_dec (minstate s') kCl) as [L|L].
    + right. apply minstate_witness. exact L.
    + left. apply Z.leb_le. lia.
  - left. unfold update_to in *. assert (E : (kCl <=? arg) = true) by (apply Z.leb_le; lia). rewrite E. reflexivity.
  - exfalso. unfold update_to in *. assert (E : (kCl <=? arg) = true) by (apply Z.leb_le; lia). rewrite E in *. cconsts. lia.
  - exfalso. cconsts. lia.
  - exfalso. cconsts. lia.
  - exfalso. cconsts. lia.
Qed.

Lemma prem_tstep : forall s p arg s' p', I_ch s -> A_ch s p -> ctstep s p arg = Some (s', p') ->
  ~ (chst s = hSC \/ chst s = hIC) -> (chst s' = hSC \/ chst s' = hIC) ->
  p = PCl1 /\ conns s <> [] /\ conns s' = conns s /\ g_owed s' = g_owed s /\ cstates s' = cstates s.
Proof.
  intros s p arg s' p' (Hr & _) HA H Hn Hst.
  ctstep_inv H; cfields; cbn [A_ch] in *; zprop;
    try (destruct (conn_close_spec s (Z.to_nat arg)) as (E1 & _); rewrite E1 in Hst);
    try (destruct (conn_close_spec s c) as (E1 & _); rewrite E1 in Hst);
    try (exfalso; apply Hn; exact Hst); try (exfalso; cconsts; lia).
  repeat split; auto; try discriminate; try (rewrite Heql; discriminate).
Qed.

Lemma classic_prem : forall x, (x = hSC \/ x = hIC) \/ ~ (x = hSC \/ x = hIC).
Proof. intros x. cconsts. destruct (Z.eq_dec x 3); [left; left; assumption|]. destruct (Z.eq_dec x 4); [left; right; assumption|]. right. lia. Qed.

Lemma Lc_reach : forall s, Reach cstep cinit s -> Lc_inv s.
Proof.
  apply reach_ind.
  - intros [H|H]; cbn in H; cconsts; discriminate.
  - intros s l s' Hr IH Hs Hst. destruct (ch_inv s Hr) as [HI HA]. pose proof (K_reach s Hr) as HK.
    pose proof HI as (Hrg & Hin & Hrng & _).
    (* adding a thread / touching only ghost state keeps every witness *)
    assert (Hkeep : forall p, (chst (csh s) = hSC \/ chst (csh s) = hIC) ->
              (open_conn (csh s) \/ g_owed (csh s) <> [] \/
               exists n q, nth_error (cthr s ++ [p]) n = Some q /\ chopeful q = true)).
    { intros p Hp. destruct (IH Hp) as [H|[H|[n [q [Hn Hq]]]]]; auto.
      right. right. exists n, q. split; [apply nth_error_snoc_old; exact Hn|exact Hq]. }
    destruct l; cbn [cstep] in Hs.
    + destruct ((chst (csh s) =? hClient) && negb (lis (csh s))); [|discriminate]. inversion Hs; subst; clear Hs.
      cbn [csh] in Hst. cfields. cconsts. lia.
    + inversion Hs; subst; clear Hs. cbn [csh cthr] in *. cfields.
      destruct (Hkeep (PAd1 (length (cstates (csh s)))) Hst) as [[c [Hc Hl]]|[H|H]]; auto.
      left. exists c. split; [exact Hc|]. unfold cstate in *. cfields. rewrite app_nth1 by (apply Hin; exact Hc). exact Hl.
    + destruct ((c <? length (cstates (csh s)))%nat && (cstate (csh s) c <? v) && (v <=? kCl)) eqn:E; [|discriminate].
      inversion Hs; subst; clear Hs. cbn [csh cthr] in *. cfields.
      right. left. intros Hx. apply app_eq_nil in Hx. destruct Hx as [_ Hx]. discriminate.
    + inversion Hs; subst; clear Hs. cbn [csh cthr] in *. apply Hkeep. exact Hst.
    + destruct (c <? length (cstates (csh s)))%nat; [|discriminate]. inversion Hs; subst; clear Hs.
      cbn [csh cthr] in *. cfields. right. right. exists (length (cthr s)), (PCb1 c).
      split; [rewrite nth_error_app2 by lia; rewrite Nat.sub_diag; reflexivity|reflexivity].
    + inversion Hs; subst; clear Hs. cbn [csh cthr] in *. apply Hkeep. exact Hst.
    + destruct (nth_error (cthr s) tid) as [p|] eqn:Ep; [|discriminate].
      destruct (ctstep (csh s) p arg) as [[sh' p']|] eqn:Et; [|discriminate].
      inversion Hs; subst; clear Hs. cbn [csh cthr] in *.
      pose proof (nth_error_lt _ _ _ Ep) as Hlt.
      destruct (ctstep_frame _ _ _ _ _ HI (HA _ _ Ep) Et) as (F1 & F2 & F3 & F4).
      assert (Howed : g_owed (csh s) <> [] -> g_owed sh' <> []).
      { intros Hne Hx. destruct (g_owed (csh s)) as [|x l] eqn:E; [congruence|].
        specialize (F3 x (or_introl eq_refl)). rewrite Hx in F3. destruct F3. }
      destruct (classic_prem (chst (csh s))) as [Hp|Hp].
      * destruct (IH Hp) as [Ho|[Ho|[n [q [Hn Hq]]]]].
        -- left. eapply open_tstep; eauto.
        -- right. left. auto.
        -- destruct (Nat.eq_dec n tid) as [->|Hne].
           ++ rewrite Ep in Hn. inversion Hn; subst q.
              destruct (hope_tstep _ _ _ _ _ HI (HA _ _ Ep) Et Hq Hst) as [Hh|Hh]; [|left; exact Hh].
              right. right. exists tid, p'. split; [apply nth_error_upd_same; exact Hlt|exact Hh].
           ++ right. right. exists n, q. split; [rewrite nth_error_upd_other by exact Hne; exact Hn|exact Hq].
      * destruct (prem_tstep _ _ _ _ _ HI (HA _ _ Ep) Et Hp Hst) as (-> & Hne & Ec & Eo & Es).
        destruct (conns (csh s)) as [|c l] eqn:Econ; [congruence|].
        destruct (Z_lt_ge_dec (cstate (csh s) c) kCl) as [L|L].
        -- left. exists c. split; [rewrite Ec; left; reflexivity|]. unfold cstate in *. rewrite Es. exact L.
        -- assert (Hc : In c (conns (csh s))) by (rewrite Econ; left; reflexivity).
           destruct (HK c Hc ltac:(lia)) as [Ho|[n Hn]].
           ++ right. left. rewrite Eo. intros Hx. rewrite Hx in Ho. destruct Ho.
           ++ right. right. assert (Hne' : n <> tid).
              { intros ->. rewrite Ep in Hn. destruct Hn as [Hn|Hn]; discriminate. }
              destruct Hn as [Hn|Hn]; [exists n, (PCb1 c)|exists n, (PCb2 c)];
                (split; [rewrite nth_error_upd_other by exact Hne'; exact Hn|reflexivity]).
    + inversion Hs; subst; clear Hs. cbn [csh cthr] in *. apply Hkeep. exact Hst.
    + inversion Hs; subst; clear Hs. cbn [csh cthr] in *. apply Hkeep. exact Hst.
Qed.

(* REACHES CLOSED (channel).  In every reachable state where Close has taken effect (the state is
   at or beyond StartClose), every tracked connection is Closed, no connection owes its state
   callback and every thread has run to completion, the channel is Closed and has signalled it
   exactly once. *)
Theorem chan_reaches_closed : forall s, Reach cstep cinit s ->
  hSC <= chst (csh s) ->
  (forall c, In c (conns (csh s)) -> cstate (csh s) c = kCl) ->
  g_owed (csh s) = [] ->
  (forall n p, nth_error (cthr s) n = Some p -> exists o, p = CDone o) ->
  chst (csh s) = hCl /\ g_closed (csh s) = 1.
Proof.
  intros s Hr Hge Hall Howed Hdone.
  destruct (ch_inv s Hr) as [(Hrg & _) _]. pose proof (Lc_reach s Hr) as HL.
  assert (Hcl : chst (csh s) = hCl).
  { cconsts. destruct (Z.eq_dec (chst (csh s)) 5) as [E|E]; [exact E|exfalso].
    assert (Hst : chst (csh s) = 3 \/ chst (csh s) = 4) by lia.
    destruct (HL Hst) as [[c [Hc Hl]]|[Ho|[n [p [Hn Hp]]]]].
    - rewrite (Hall c Hc) in Hl. cconsts. lia.
    - congruence.
    - destruct (Hdone n p Hn) as [o ->]. discriminate. }
  split; [exact Hcl|].
  destruct (chan_signal_once s Hr) as (_ & _ & _ & H1). apply H1; [exact Hcl|].
  intros n p Hn. destruct (Hdone n p Hn) as [o ->]. reflexivity.
Qed.

(* New connections are refused locally once Close has taken effect: Connect's state test and
   addConnection's state test both fail without touching the channel. *)
Theorem chan_connect_local : forall s arg, hSC <= chst s ->
  ctstep s PConn arg = Some (s, CDone oConnErr) /\
  (forall c, ctstep s (PAd1 c) arg = Some (s, PAd2 c)).
Proof.
  intros s arg H. cbn [ctstep].
  assert (E : (chst s =? hClient) || (chst s =? hListening) = false).
  { apply orb_false_iff. split; apply Z.eqb_neq; cconsts; lia. }
  rewrite E. split; [reflexivity|]. intros c. destruct (negb (cstate s c =? kA)); reflexivity.
Qed.
