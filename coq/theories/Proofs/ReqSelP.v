(* C15 end to end over the attempts of ONE request: the previously-selected set is the one the
   code regenerated from retry.go accumulates (Gen/GenPeerSel.v), selection is Model/PeerList.v.
   Between two attempts anything may happen to the list (any history of Add / Remove / Get /
   GetNew of other requests / score changes / SetStrategy).
   Also: the scores of the generated calculators over the load that the generated
   NumConnections / NumPendingOutbound read from a peer's connection lists. *)
From Coq Require Import ZArith List Bool Lia ZifyBool Permutation.
From Verif Require Import Base.Wrap Base.GoSem Base.GoSemColl Gen.GenPeers Gen.GenPeerSel
  Spec.PeerSelect Model.Retry Model.PeerHeap Model.PeerList Model.ReqSel
  Proofs.PeerListP Proofs.GenPeerSelP.
Import ListNotations.
Local Open Scope Z_scope.

(* ---------------------------------------------------------------- one request *)

(* SubChannel.BeginCall + Peer.BeginCall: Get(rs.PrevSelectedPeers()), then rs.AddSelectedPeer(peer) *)
Definition attempt_gen (l : plist) (rs : RequestState) (d : Z) : option (plist * RequestState * sel) :=
  match RequestState_PrevSelectedPeers rs with
  | None => None
  | Some prev =>
      match pl_get l (sset_elems prev) d with
      | None => None
      | Some (l', SelOk hp, _) =>
          match RequestState_AddSelectedPeer rs hp with
          | None => None
          | Some rs' => Some (l', rs', SelOk hp)
          end
      | Some (l', r, _) => Some (l', rs, r)
      end
  end.

(* an attempt: what happened to the list since the previous attempt, and the rng draw of its Get *)
Record att := mkAtt { at_ops : list lop; at_draw : Z }.

(* the attempts of a request in order; log entry k = (the list attempt k+1 selected from, the
   peer it got).  The request ends when a selection reports no peers.  None = a panic. *)
Fixpoint req_run (l : plist) (rs : RequestState) (atts : list att)
  : option (list (plist * hostport) * RequestState) :=
  match atts with
  | [] => Some ([], rs)
  | a :: r =>
      match lrun l (at_ops a) with
      | None => None
      | Some l1 =>
          match attempt_gen l1 rs (at_draw a) with
          | None => None
          | Some (l2, rs', SelOk p) =>
              match req_run l2 rs' r with
              | None => None
              | Some (log, rsf) => Some ((l1, p) :: log, rsf)
              end
          | Some (_, rs', _) => Some ([], rs')
          end
      end
  end.

Definition fresh_request : RequestState := mk_RequestState None.

(* everything tried so far: the peers and their hosts *)
Definition tried_set (picks : list hostport) : list hostport := picks ++ map host_of picks.

Lemma tried_ext prev prev' s : (forall x, In x prev <-> In x prev') -> tried prev s = tried prev' s.
Proof.
  intros H. unfold tried. destruct (existsb (bytes_eqb s) prev) eqn:E.
  - symmetry. apply existsb_eqb_In. apply H. now apply existsb_eqb_In.
  - symmetry. apply not_true_is_false. intros E'. apply existsb_eqb_In, H, existsb_eqb_In in E'. congruence.
Qed.

Lemma existsb_ext_eq {A} (f g : A -> bool) l : (forall x, f x = g x) -> existsb f l = existsb g l.
Proof. intros H. induction l as [|x r IH]; cbn [existsb]; [reflexivity|]. now rewrite H, IH. Qed.

Lemma eligible_get_ext prev prev' members q : (forall x, In x prev <-> In x prev') ->
  eligible_get prev members q = eligible_get prev' members q.
Proof.
  intros H. unfold eligible_get.
  assert (T1 : forall x, tier1 prev x = tier1 prev' x).
  { intros x. unfold tier1. now rewrite (tried_ext prev prev' x H), (tried_ext prev prev' (host_of x) H). }
  assert (T2 : forall x, tier2 prev x = tier2 prev' x).
  { intros x. unfold tier2. now rewrite (tried_ext prev prev' x H). }
  rewrite (existsb_ext_eq _ _ members T1), (existsb_ext_eq _ _ members T2).
  destruct (existsb (tier1 prev') members); [apply T1|]. destruct (existsb (tier2 prev') members); [apply T2|reflexivity].
Qed.

Lemma tried_set_snoc picks p s :
  In s (tried_set (picks ++ [p])) <-> In s (tried_set picks) \/ s = p \/ s = host_of p.
Proof.
  unfold tried_set. rewrite map_app, !in_app_iff. cbn [map In].
  split; [intros [[A|[A|[]]]|[A|[A|[]]]]|intros [[A|A]|[A|A]]]; auto.
Qed.

(* the request never panics, and attempt k+1 gets a least-loaded peer among those eligible with
   respect to everything the first k attempts tried *)
Lemma req_run_spec : forall atts l rs pre, wf l ->
  (forall s, In s (sset_elems (RequestState_SelectedPeers rs)) <-> In s (tried_set pre)) ->
  exists log rsf, req_run l rs atts = Some (log, rsf) /\
    (forall s, In s (sset_elems (RequestState_SelectedPeers rsf)) <-> In s (tried_set (pre ++ map snd log))) /\
    forall k lk p, nth_error log k = Some (lk, p) ->
      wf lk /\
      least_loaded (eligible_get (tried_set (pre ++ map snd (firstn k log))) (pl_keys lk)) (peers_of lk) p.
Proof.
  induction atts as [|a r IH]; intros l rs pre Hwf Hset; cbn [req_run].
  - exists [], rs. split; [reflexivity|]. cbn [map]. rewrite app_nil_r. split; [exact Hset|].
    intros k lk p Hk. destruct k; discriminate.
  - destruct (lrun_wf (at_ops a) l Hwf) as (l1 & E1 & W1). rewrite E1.
    unfold attempt_gen. rewrite prev_selected_gen.
    pose proof (get_min_eligible l1 (sset_elems (RequestState_SelectedPeers rs)) (at_draw a) W1) as G.
    destruct (pl_get l1 (sset_elems (RequestState_SelectedPeers rs)) (at_draw a)) as [[[l2 [p| |]] n]|]; [| |destruct G|destruct G].
    + destruct G as (LL & W2 & _ & _).
      destruct (add_selected_gen rs p) as (rs' & EA & _ & MA). rewrite EA.
      assert (Hset' : forall s, In s (sset_elems (RequestState_SelectedPeers rs')) <-> In s (tried_set (pre ++ [p]))).
      { intros s. rewrite MA, Hset, tried_set_snoc. tauto. }
      destruct (IH l2 rs' (pre ++ [p]) W2 Hset') as (log & rsf & ER & HF & HK). rewrite ER.
      exists ((l1, p) :: log), rsf. split; [reflexivity|]. cbn [map snd].
      split. { intros s. rewrite HF. now rewrite <- app_assoc. }
      intros k lk q Hk. destruct k as [|k'].
      * cbn [nth_error] in Hk. injection Hk as <- <-. split; [exact W1|].
        cbn [firstn map]. rewrite app_nil_r.
        eapply least_loaded_ext; [|exact LL]. intros x. now apply eligible_get_ext.
      * cbn [nth_error] in Hk. destruct (HK k' lk q Hk) as (Wk & Lk). split; [exact Wk|].
        cbn [firstn map snd]. now rewrite <- app_assoc in Lk.
    + exists [], rs. split; [reflexivity|]. cbn [map]. rewrite app_nil_r. split; [exact Hset|].
      intros k lk p Hk. destruct k; discriminate.
Qed.

(* ---------------------------------------------------------------- statements *)

(* the set after attempts that selected p1..pk (any strings): never a panic; it holds every pi
   and every host(pi), and nothing else *)
Fixpoint add_all (rs : RequestState) (ps : list hostport) : option RequestState :=
  match ps with
  | [] => Some rs
  | p :: r => match RequestState_AddSelectedPeer rs p with Some rs' => add_all rs' r | None => None end
  end.

Theorem selected_set_complete : forall ps, exists rs,
  add_all fresh_request ps = Some rs /\
  RequestState_PrevSelectedPeers rs = Some (RequestState_SelectedPeers rs) /\
  (forall p, In p ps -> sset_mem (RequestState_SelectedPeers rs) p = true /\
                        sset_mem (RequestState_SelectedPeers rs) (host_of p) = true) /\
  (forall s, sset_mem (RequestState_SelectedPeers rs) s = true ->
             exists p, In p ps /\ (s = p \/ s = host_of p)) /\
  (ps <> [] -> sset_isnil (RequestState_SelectedPeers rs) = false).
Proof.
  assert (G : forall ps rs0, exists rs, add_all rs0 ps = Some rs /\
            (forall s, In s (sset_elems (RequestState_SelectedPeers rs)) <->
                       In s (sset_elems (RequestState_SelectedPeers rs0)) \/ exists p, In p ps /\ (s = p \/ s = host_of p)) /\
            (ps <> [] -> sset_isnil (RequestState_SelectedPeers rs) = false)).
  { induction ps as [|p r IH]; intros rs0; cbn [add_all].
    - exists rs0. split; [reflexivity|]. split; [|congruence]. intros s. split; [auto|]. intros [H|(p & [] & _)]. exact H.
    - destruct (add_selected_gen rs0 p) as (rs1 & E & N & M). rewrite E.
      destruct (IH rs1) as (rs & ER & MR & NR). exists rs. split; [exact ER|]. split.
      + intros s. rewrite MR, M. cbn [In]. split.
        * intros [[A|[A|A]]|(q & Hq & A)]; [auto|right; exists p; auto|right; exists p; auto|right; exists q; auto].
        * intros [A|(q & [<-|Hq] & A)]; [auto|left; tauto|right; exists q; auto].
      + intros _. destruct r as [|p2 r2]; [cbn [add_all] in ER; injection ER as <-; exact N|apply NR; discriminate]. }
  intros ps. destruct (G ps fresh_request) as (rs & E & M & N). exists rs. split; [exact E|].
  split; [apply prev_selected_gen|]. cbn [fresh_request RequestState_SelectedPeers sset_elems In] in M.
  split; [|split; [|exact N]].
  - intros p Hp. rewrite !sset_mem_In, !M. split; right; exists p; auto.
  - intros s Hs. apply sset_mem_In, M in Hs. destruct Hs as [[]|H]. exact H.
Qed.

(* the attempts of a request, from any reachable list, with any activity in between *)
Theorem retry_least_loaded_untried : forall ops l atts, lrun pl_empty ops = Some l ->
  exists log rsf, req_run l fresh_request atts = Some (log, rsf) /\
    forall k lk p, nth_error log k = Some (lk, p) ->
      let T := tried_set (map snd (firstn k log)) in
      least_loaded (eligible_get T (pl_keys lk)) (map (fun x => (ps_hp x, ps_score x)) (pl_arr lk)) p.
Proof.
  intros ops l atts E.
  destruct (req_run_spec atts l fresh_request [] (lrun_reach_wf ops l E)) as (log & rsf & ER & _ & HK).
  { intros s. cbn. tauto. }
  exists log, rsf. split; [exact ER|]. intros k lk p Hk. destruct (HK k lk p Hk) as (_ & L). exact L.
Qed.

Lemma tried_false_iff prev s : tried prev s = false <-> ~ In s prev.
Proof.
  unfold tried. split.
  - intros E H. apply existsb_eqb_In in H. congruence.
  - intros H. apply not_true_is_false. intros E. apply H. now apply existsb_eqb_In.
Qed.

(* in plain terms: while some member of the list has a host that no earlier attempt touched, the
   attempt gets such a member; while some member was not tried itself, it gets an untried member;
   and the peer it gets is a member *)
Theorem retry_avoids_tried_hosts : forall ops l atts, lrun pl_empty ops = Some l ->
  exists log rsf, req_run l fresh_request atts = Some (log, rsf) /\
    forall k lk p, nth_error log k = Some (lk, p) ->
      let T := tried_set (map snd (firstn k log)) in
      In p (pl_keys lk) /\
      ((exists q, In q (pl_keys lk) /\ ~ In q T /\ ~ In (host_of q) T) -> ~ In p T /\ ~ In (host_of p) T) /\
      ((exists q, In q (pl_keys lk) /\ ~ In q T) -> ~ In p T).
Proof.
  intros ops l atts E.
  destruct (req_run_spec atts l fresh_request [] (lrun_reach_wf ops l E)) as (log & rsf & ER & _ & HK).
  { intros s. cbn. tauto. }
  exists log, rsf. split; [exact ER|]. intros k lk p Hk T.
  destruct (HK k lk p Hk) as (Wk & (s & Hin & He & _)). cbn [app] in He. fold T in He.
  assert (Hp : In p (pl_keys lk)).
  { destruct Wk as (_ & P & _). eapply Permutation_in; [apply Permutation_sym, P|].
    unfold peers_of in Hin. apply in_map_iff in Hin as (x & Hx & Hi). unfold hps. apply in_map_iff. exists x.
    unfold hs in Hx. split; [congruence|exact Hi]. }
  split; [exact Hp|]. unfold eligible_get in He. split.
  - intros (q & Hq & Nq & Nh).
    assert (E1 : existsb (tier1 T) (pl_keys lk) = true).
    { apply existsb_exists. exists q. split; [exact Hq|]. unfold tier1.
      rewrite (proj2 (tried_false_iff T q) Nq), (proj2 (tried_false_iff T (host_of q)) Nh). reflexivity. }
    rewrite E1 in He. unfold tier1 in He. apply andb_true_iff in He as [A B].
    apply negb_true_iff in A, B. split; now apply tried_false_iff.
  - intros (q & Hq & Nq).
    assert (E2 : existsb (tier2 T) (pl_keys lk) = true).
    { apply existsb_exists. exists q. split; [exact Hq|]. unfold tier2.
      now rewrite (proj2 (tried_false_iff T q) Nq). }
    destruct (existsb (tier1 T) (pl_keys lk)).
    + unfold tier1 in He. apply andb_true_iff in He as [A _]. apply negb_true_iff in A. now apply tried_false_iff.
    + rewrite E2 in He. unfold tier2 in He. apply negb_true_iff in He. now apply tried_false_iff.
Qed.

(* ---------------------------------------------------------------- load and score of a peer *)

(* ScoreCalculator.GetScore(p) of the built-in strategies: the generated calculators applied to
   what the generated NumConnections / NumPendingOutbound return for the peer *)
Definition gen_score (strat : Z) (p : Peer) : option Z :=
  match Peer_NumConnections p, Peer_NumPendingOutbound p with
  | Some (i, o), Some n =>
      Some (if strat =? 0 then preferIncomingScore i o n
            else if strat =? 1 then leastPendingScore i o n else zeroScore i o n)
  | _, _ => None
  end.

Lemma gen_score_model strat p : 0 <= strat <= 2 -> pending_calls (peerconns_of p) < 2 ^ 63 ->
  gen_score strat p = Some (calc strat (attrs_of (peerconns_of p) 0 0)).
Proof.
  intros Hs Hb. unfold gen_score. rewrite num_connections_gen, num_pending_gen by exact Hb.
  unfold calc, attrs_of. cbn [a_in a_out a_pend a_custom].
  destruct (strat =? 0) eqn:E0; [reflexivity|]. destruct (strat =? 1) eqn:E1; [reflexivity|].
  destruct (strat =? 2) eqn:E2; [reflexivity|lia].
Qed.

Lemma pending_nonneg p : 0 <= pending_calls (peerconns_of p).
Proof.
  unfold pending_calls, peerconns_of. cbn [pc_inbound pc_outbound].
  pose proof (zsum_nonneg _ (conn_out_nonneg (Peer_inboundConnections p))).
  pose proof (zsum_nonneg _ (conn_out_nonneg (Peer_outboundConnections p))). lia.
Qed.

(* the pending count is the number of OUR calls in flight, whichever kind of connection carries
   them; exchanges of calls the peer makes to us never count *)
Theorem pending_counts_our_calls : forall p, pending_calls (peerconns_of p) < 2 ^ 63 ->
  Peer_NumPendingOutbound p =
    Some (zsum (map (fun c => zlen (messageExchangeSet_exchanges (Connection_outbound c)))
                    (Peer_outboundConnections p ++ Peer_inboundConnections p))) /\
  Peer_NumConnections p = Some (zlen (Peer_inboundConnections p), zlen (Peer_outboundConnections p)).
Proof.
  intros p Hb. split.
  - rewrite num_pending_gen by exact Hb. f_equal. unfold pending_calls, peerconns_of. cbn [pc_inbound pc_outbound].
    rewrite map_app, !map_map. cbn [conn_of cn_out].
    generalize (map (fun c => zlen (messageExchangeSet_exchanges (Connection_outbound c))) (Peer_outboundConnections p)) as a.
    generalize (map (fun c => zlen (messageExchangeSet_exchanges (Connection_outbound c))) (Peer_inboundConnections p)) as b.
    intros b a. unfold zsum. induction a as [|x r IH]; cbn [app fold_right]; lia.
  - rewrite num_connections_gen. unfold peerconns_of, zlen. cbn [pc_inbound pc_outbound]. now rewrite !map_length.
Qed.

(* default strategy over connection-level loads: the generated score orders two peers exactly as
   (tier, pending) does, tier 0 = has a connection the peer dialled, 1 = connected, 2 = unconnected *)
Theorem default_rank_of_connections : forall p1 p2 s1 s2,
  let c1 := peerconns_of p1 in let c2 := peerconns_of p2 in
  zlen (pc_inbound c1) + zlen (pc_outbound c1) < 2 ^ 63 -> pending_calls c1 < 2 ^ 31 - 1 ->
  zlen (pc_inbound c2) + zlen (pc_outbound c2) < 2 ^ 63 -> pending_calls c2 < 2 ^ 31 - 1 ->
  gen_score 0 p1 = Some s1 -> gen_score 0 p2 = Some s2 ->
  (s1 < s2 <-> rank_lt (default_rank (zlen (pc_inbound c1)) (zlen (pc_outbound c1)) (pending_calls c1))
                       (default_rank (zlen (pc_inbound c2)) (zlen (pc_outbound c2)) (pending_calls c2))).
Proof.
  intros p1 p2 s1 s2 c1 c2 B1 P1 B2 P2 E1 E2.
  rewrite gen_score_model in E1, E2 by (try lia; unfold c1, c2 in *; lia).
  injection E1 as <-. injection E2 as <-. unfold calc, attrs_of. cbn [a_in a_out a_pend Z.eqb].
  pose proof (pending_nonneg p1). pose proof (pending_nonneg p2).
  apply prefer_incoming_rank; unfold c1, c2, zlen in *; lia.
Qed.
