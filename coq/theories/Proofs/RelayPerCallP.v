(* Relay model, C09 per call: a call none of whose goroutines is still running and whose timers
   are all disarmed has been ended exactly once, and once the tomb GC of its items has run the
   relay holds nothing for it -- whatever the rest of the relay is doing (other calls may be in
   flight, other timers armed).  The globally quiescent statements of RelayThmP are the special
   case "every call is done". *)
From Coq Require Import ZArith List Bool Lia.
From Verif Require Import Base.Wrap Gen.GenConsts Gen.GenFrame Model.RelayItems Spec.RelayAccount
  Proofs.RelayAssocP Proofs.RelayCoreP Proofs.RelayInv9P Proofs.RelayTimerP Proofs.RelayThmP Proofs.RelaySilentP
  Model.RelayCalm Proofs.RelayCalmP.
Import ListNotations.
Local Open Scope Z_scope.

(* the table keys an instruction has looked up or is going to operate on *)
Definition keys_of (j : instr) : list key :=
  match j with
  | INcChk _ _ _ own _ => [own]
  | IRcvGet r => [r_own r; rcv_key r]
  | IRcvChk r rk _ | IRcvEnq r rk _ => [r_own r; rk]
  | IFailGet t _ | IEntomb t _ | IDelete t _ => [t]
  | _ => []
  end.

Definition key_of_call (st : state) (c : Z) (t : key) : bool :=
  match klookup t (items st) with Some it => it_call it =? c | None => false end.

(* instruction j of some goroutine still refers to call c: it carries c, or one of its keys is
   the key of an item of c, or it is the OnTimer run of a timer of an item of c *)
Definition refers (st : state) (c : Z) (j : instr) : bool :=
  oncall c j || existsb (key_of_call st c) (keys_of j) ||
  match j with
  | ITimerRun tm => match zlookup tm (timers st) with Some x => key_of_call st c (tm_key x) | None => false end
  | _ => false
  end.

(* call c is done: no goroutine refers to it any more and none of its items has an armed timer *)
Definition call_done (st : state) (c : Z) : Prop :=
  (forall th code j, In (th, code) (threads st) -> In j code -> refers st c j = false) /\
  (forall t it x, In (t, it) (items st) -> it_call it = c -> zlookup (it_tm it) (timers st) = Some x -> tm_armed x = false).

Lemma quiescent_call_done : forall st c, quiescent st -> call_done st c.
Proof.
  intros st c [Hth Harm]. split.
  - intros th code j Hin. rewrite Hth in Hin. contradiction.
  - intros t it x _ _ Hx. eapply Harm. exact Hx.
Qed.

Lemma owes_keys : forall j t, In t (owes j) -> In t (keys_of j).
Proof.
  intros j t H. unfold owes in H. apply in_app_or in H. destruct H as [H|H].
  - destruct j; cbn in *; try contradiction.
    + destruct g as [[it [|]]|]; try contradiction. destruct (fin_of f && negb (it_tomb it)); [exact H|contradiction].
    + destruct (fin_of (r_f r)); [|contradiction]. destruct H as [<-|[]]. left. reflexivity.
    + apply in_app_or in H. destruct H as [H|H].
      * destruct (fin_of (r_f r)); [|contradiction]. destruct H as [<-|[]]. left. reflexivity.
      * destruct g as [[it [|]]|]; try contradiction. destruct (fin_of (r_f r) && negb (it_tomb it)); [|contradiction].
        destruct H as [<-|[]]. right. left. reflexivity.
    + destruct (fin_of (r_f r)); [exact H|contradiction].
    + destruct s; [exact H|contradiction].
    + exact H.
  - destruct j; try contradiction. exact H.
Qed.

Lemma refers_key : forall st c j t it, In t (keys_of j) -> klookup t (items st) = Some it -> it_call it = c -> refers st c j = true.
Proof.
  intros st c j t it Ht Hl Hc. unfold refers. apply orb_true_iff. left. apply orb_true_iff. right.
  apply existsb_exists. exists t. split; [exact Ht|]. unfold key_of_call. rewrite Hl. apply Z.eqb_eq. exact Hc.
Qed.

(* every item of a done call is a tombstone *)
Lemma call_done_tombs : forall st c, Inv st -> TInv st -> call_done st c ->
  forall t it, In (t, it) (items st) -> it_call it = c -> it_tomb it = true.
Proof.
  intros st c HI HT [Href Harm] t it Hin Hc. destruct (it_tomb it) eqn:Et; [reflexivity|]. exfalso.
  pose proof (in_lookup key_eqb key_eqb_ok _ _ _ (inv_items_nd _ HI) Hin) as Hl.
  destruct (t_oblig _ HT _ _ Hin Et) as (x&Hx&[A|[(code&Hcode&Hp)|(_&th&code&j&Hcode&Hj&Ho)]]).
  - rewrite (Harm _ _ _ Hin Hc Hx) in A. discriminate.
  - destruct (t_item _ HT _ _ Hin) as (y&Hy&Hk&_). rewrite Hx in Hy. inversion Hy. subst y.
    destruct Hp as [->|(o&rest&->)].
    + assert (Hr : refers st c (ITimerRun (it_tm it)) = true).
      { unfold refers. apply orb_true_iff. right. rewrite Hx, Hk. unfold key_of_call. rewrite Hl. apply Z.eqb_eq. exact Hc. }
      rewrite (Href _ _ _ Hcode (or_introl eq_refl)) in Hr. discriminate.
    + assert (Hr : refers st c (IEntomb t (FromTimeout o)) = true) by (eapply refers_key; [left; reflexivity|exact Hl|exact Hc]).
      rewrite (Href _ _ _ Hcode (or_introl eq_refl)) in Hr. discriminate.
  - assert (Hr : refers st c j = true) by (eapply refers_key; [apply owes_keys; exact Ho|exact Hl|exact Hc]).
    rewrite (Href _ _ _ Hcode Hj) in Hr. discriminate.
Qed.

Lemma tsum_zero : forall f ths, (forall th code j, In (th, code) ths -> In j code -> f j = 0) -> tsum f ths = 0.
Proof.
  intros f ths. unfold tsum. induction ths as [|[th code] r IH]; intro H; cbn; [reflexivity|].
  rewrite IH by (intros th' code' j Hin Hj; eapply H; [right; exact Hin|exact Hj]).
  assert (G : forall l, (forall j, In j l -> f j = 0) -> csum f l = 0).
  { induction l as [|a l IHl]; intro Hl; cbn; [reflexivity|]. rewrite (Hl a (or_introl eq_refl)), IHl; [reflexivity|].
    intros j Hj. apply Hl. right. exact Hj. }
  rewrite G; [reflexivity|]. intros j Hj. eapply (H th code); [left; reflexivity|exact Hj].
Qed.

Lemma tok_oncall : forall c j, tok_i c j <> 0 -> oncall c j = true.
Proof.
  intros c j H. destruct j; cbn in *; try (exfalso; apply H; reflexivity);
    try (destruct (c0 =? c); [reflexivity|exfalso; apply H; reflexivity]).
  destruct x; try (exfalso; apply H; reflexivity). destruct (c0 =? c); [reflexivity|exfalso; apply H; reflexivity].
Qed.

(* a done call that was started has been ended exactly once *)
Theorem end_exactly_once_call : forall cf ls st c, run_fresh cf init ls = Some st -> call_done st c ->
  1 <= c < next_call st -> end_exactly_once cb_is_end c (cblog st).
Proof.
  intros cf ls st c H Hd Hc. destruct (reach_both _ _ _ H) as [HI HT]. unfold end_exactly_once. rewrite <- ends_count_end.
  pose proof (inv_total _ HI c) as Ht. unfold total in Ht.
  assert (Hth : tsum (tok_i c) (threads st) = 0).
  { apply tsum_zero. intros th code j Hin Hj. destruct (Z.eq_dec (tok_i c j) 0) as [Hz|Hnz]; [exact Hz|]. exfalso.
    destruct Hd as [Href _]. pose proof (Href _ _ _ Hin Hj) as Hr. unfold refers in Hr. rewrite (tok_oncall _ _ Hnz) in Hr. discriminate. }
  assert (Hit : asum (item_tok c) (items st) = 0).
  { assert (G : forall l, (forall t it, In (t, it) l -> it_call it = c -> it_tomb it = true) -> asum (item_tok c) l = 0).
    { induction l as [|[t it] r IH]; intro Hall; cbn; [reflexivity|].
      rewrite IH by (intros t' it' Hin; eapply Hall; right; exact Hin).
      unfold item_tok. destruct (it_call it =? c) eqn:Ec; [|reflexivity]. apply Z.eqb_eq in Ec.
      rewrite (Hall t it (or_introl eq_refl) Ec). rewrite andb_false_r. reflexivity. }
    apply G. apply (call_done_tombs _ _ HI HT Hd). }
  unfold started, b2z in Ht.
  assert (E : (1 <=? c) && (c <? next_call st) = true).
  { apply andb_true_iff. split; [apply Z.leb_le|apply Z.ltb_lt]; lia. }
  rewrite E in Ht. lia.
Qed.

(* ... and once the tomb GC timers of its items have fired the tables hold nothing for it *)
Theorem forgotten_call : forall cf ls st c, run_fresh cf init ls = Some st -> call_done st c ->
  (forall t it, In (t, it) (items st) -> it_call it = c -> ~ In t (gcs st)) ->
  forall t it, In (t, it) (items st) -> it_call it <> c.
Proof.
  intros cf ls st c H Hd Hg t it Hin Hc. destruct (reach_both _ _ _ H) as [HI HT].
  pose proof (call_done_tombs _ _ HI HT Hd _ _ Hin Hc) as Ht.
  destruct (t_tomb _ HT _ _ Hin Ht) as [Hgc _]. exact (Hg _ _ Hin Hc Hgc).
Qed.

(* a live item of a call that is not done yet keeps a unit of the pending counter of its
   connection; conversely the pending counter of a connection all of whose calls are done and
   collected, and on which no goroutine holds a unit, is zero *)
Theorem pending_zero_conn : forall cf ls st k, run_fresh cf init ls = Some st ->
  (forall t it, In (t, it) (items st) -> key_conn t = k -> it_tomb it = true) ->
  (forall th code j, In (th, code) (threads st) -> In j code -> hold_i k j = 0) ->
  c_pending (get_conn st k) = 0.
Proof.
  intros cf ls st k H Hit Hth. destruct (reach_both _ _ _ H) as [HI _].
  change (get_conn st k) with (getc (conns st) k). rewrite (inv_pending _ HI k).
  rewrite (tsum_zero _ _ Hth).
  assert (G : forall l, (forall t it, In (t, it) l -> key_conn t = k -> it_tomb it = true) -> asum (live_i k) l = 0).
  { induction l as [|[t it] r IH]; intro Hall; cbn; [reflexivity|].
    rewrite IH by (intros t' it' Hin; eapply Hall; right; exact Hin).
    unfold live_i. destruct (key_conn t =? k) eqn:Ec; [|reflexivity]. apply Z.eqb_eq in Ec.
    rewrite (Hall t it (or_introl eq_refl) Ec). reflexivity. }
  rewrite (G _ Hit). reflexivity.
Qed.
