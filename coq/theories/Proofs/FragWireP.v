From Coq Require Import ZArith List Bool Lia ZifyBool.
From Verif Require Import Base.Wrap Base.Bytes Gen.GenConsts Gen.GenFrame Model.TypedBuf Model.Messages
  Model.Crc Model.Frag Model.FragWire Spec.Protocol Proofs.CodecP Proofs.FrameP.
Import ListNotations.
Local Open Scope Z_scope.

Lemma enc_chunks_cons c cs : enc_chunks (c :: cs) = (be 2 (zlen c) ++ c) ++ enc_chunks cs.
Proof. reflexivity. Qed.

(* the chunk loop recovers exactly the chunks that were laid out, for any list of chunks
   whose layout fits a frame (the frame size field is 16 bits) *)
Lemma parse_chunks_enc : forall cs fuel acc,
  zlen (enc_chunks cs) <= 65535 -> (length cs <= fuel)%nat ->
  parse_chunks fuel (rb (enc_chunks cs)) acc = (0, acc ++ cs).
Proof.
  induction cs as [|c cs IH]; intros fuel acc Hsz Hf.
  - cbn [enc_chunks flat_map]. destruct fuel; cbn; rewrite app_nil_r; reflexivity.
  - destruct fuel; [cbn in Hf; lia|].
    rewrite enc_chunks_cons in *. rewrite !zlen_app, zlen_be in Hsz. change (Z.of_nat 2) with 2 in Hsz.
    pose proof (zlen_nonneg c) as Hc. pose proof (zlen_nonneg (enc_chunks cs)) as He.
    cbn [parse_chunks].
    assert (Z1 : (zlen (rrem (rb ((be 2 (zlen c) ++ c) ++ enc_chunks cs))) >? 0) = true).
    { cbn [rrem rb]. rewrite !zlen_app, zlen_be. change (Z.of_nat 2) with 2. lia. }
    rewrite Z1. cbn [rerr rb negb andb].
    destruct (r_uint_consumes 2 (zlen c)) as [C _]; [apply u_ok_2; lia|].
    rewrite <- app_assoc. unfold r_u16. rewrite C.
    assert (Z2 : (zlen c >? wrapU 16 (zlen (rrem (rb (c ++ enc_chunks cs))))) = false).
    { cbn [rrem rb]. rewrite zlen_app. unfold wrapU. change (2 ^ 16) with 65536. rewrite Z.mod_small by lia. lia. }
    rewrite Z2.
    destruct (r_bytes_consumes c) as [B _]. unfold zlen at 1. rewrite Nat2Z.id. rewrite B.
    rewrite IH; [|lia|cbn in Hf; lia]. rewrite <- app_assoc. reflexivity.
Qed.

(* a fragment laid out as the writer does it parses back to the same fragment:
   flags, checksum type, checksum bytes, chunks *)
Theorem parse_frag_roundtrip : forall f,
  f_chunks f <> [] \/ True ->
  0 <= f_ctype f < c_checksumCount -> zlen (f_ck f) = ChecksumSize (f_ctype f) ->
  zlen (enc_chunks (f_chunks f)) <= 65535 ->
  parse_frag_payload c_messageTypeCallReqContinue (enc_frag_payload [] f) = (0, f).
Proof.
  intros f _ Ht Hck Hsz. unfold parse_frag_payload, enc_frag_payload.
  set (fl := if f_more f then c_hasMoreFragmentsFlag else 0).
  assert (Hfl : 0 <= fl < 256) by (unfold fl, c_hasMoreFragmentsFlag; destruct (f_more f); lia).
  cbn [app]. rewrite r_u8_byte' by exact Hfl.
  replace (c_messageTypeCallReqContinue =? c_messageTypeCallReq) with false by reflexivity.
  replace (c_messageTypeCallReqContinue =? c_messageTypeCallRes) with false by reflexivity.
  cbn [rerr rb]. unfold parse_frag_tail. unfold c_checksumCount in *.
  rewrite r_u8_byte' by lia. cbn [rerr rb].
  replace (f_ctype f >=? 4) with false by lia. cbn [andb].
  destruct (r_bytes_consumes (f_ck f)) as [B _].
  replace (Z.to_nat (ChecksumSize (f_ctype f))) with (length (f_ck f)) by (rewrite <- Hck; unfold zlen; lia).
  rewrite B. cbn [rerr rb rrem].
  rewrite parse_chunks_enc; [|exact Hsz|].
  - cbn [app]. f_equal. destruct f as [m t k cs]; cbn [f_more f_ctype f_ck f_chunks] in *. f_equal.
    unfold fl, hasMoreFragments, c_hasMoreFragmentsFlag. destruct m; reflexivity.
  - (* fuel = number of bytes >= number of chunks (each chunk occupies at least 2 bytes) *)
    clear. induction (f_chunks f) as [|c cs IH]; [cbn; lia|].
    rewrite enc_chunks_cons, !app_length, be_length. cbn [length]. lia.
Qed.

From Verif Require Import Spec.FragSpec Spec.FragOk.

Lemma enc_chunks_size cs : zlen (enc_chunks cs) = chunks_size cs.
Proof.
  induction cs as [|c cs IH]; [reflexivity|].
  rewrite enc_chunks_cons, !zlen_app, zlen_be, IH. unfold chunks_size. cbn [fold_right]. change (Z.of_nat 2) with 2. lia.
Qed.

(* the room reqResWriter.newFragment leaves for chunks in a pooled frame: the payload
   capacity minus flags, message header, checksum type and checksum bytes *)
Definition frag_capacity (msghdr : list Z) (ck : ckst) : Z :=
  c_MaxFramePayloadSize - (1 + zlen msghdr + 1 + ck_size ck).

(* every frame emitted is at most 65535 bytes, and its header size = bytes written *)
Theorem frame_bytes_bound : forall msghdr ck f,
  chunks_size (f_chunks f) <= frag_capacity msghdr ck -> zlen (f_ck f) = ck_size ck ->
  c_FrameHeaderSize + zlen (enc_frag_payload msghdr f) <= c_MaxFrameSize.
Proof.
  intros msghdr ck f H Hck. unfold frag_capacity, enc_frag_payload, c_MaxFramePayloadSize, c_FrameHeaderSize, c_MaxFrameSize in *.
  rewrite !zlen_app, enc_chunks_size, Hck. unfold zlen at 1 3. cbn [length]. lia.
Qed.

(* the state predicates of the hand models are the ones generated from the Go source *)
Lemma is_writing_generated s : is_writing s = isWritingArgument s.
Proof. reflexivity. Qed.
Lemma is_reading_generated s : is_reading s = isReadingArgument s.
Proof. reflexivity. Qed.
