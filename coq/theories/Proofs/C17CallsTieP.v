(* Property C17 -- the mirrors of Model/C17Calls.v ARE the code: each is EQUAL to the definition
   go2v regenerates from subchannel.go / channel.go / peer.go / retry.go / thrift/client.go /
   json/call.go on every run (Gen/GenC17Calls.v, go2v/c17calls.go), for every behaviour of the
   rest of the system (the peer list's Get, the connection: parameters of the generated
   functions).  An edit of the Go source that changes what peer selection is fed with (only on
   a retry, nil, a copy taken before the attempt's calls, ...), that guards / moves / drops the
   recording in Peer.BeginCall, or that stops the clients handing the RequestState down breaks a
   proof of this file. *)
From Coq Require Import ZArith List Bool.
From Verif Require Import Base.Wrap Base.GoErr Base.C17CallSem Gen.GenConsts Gen.GenC17Calls Model.C17Calls.
Import ListNotations.
Local Open Scope Z_scope.

Lemma tie_prev_selected rs : c17PrevSelectedPeers rs = m_prev_selected rs.
Proof. destruct rs; reflexivity. Qed.

Lemma tie_retry_count rs : c17RetryCount rs = m_retry_count rs.
Proof. destruct rs; reflexivity. Qed.

Lemma tie_peer_begin_call : forall (K C : Type) validate (gc : K * Z) (cb : K -> c17co -> C * Z) (nc : C)
    p ctx sn mn co,
  c17PeerBeginCall validate gc cb nc p ctx sn mn co = m_peer_begin_call validate gc cb nc p co.
Proof.
  intros K C validate gc cb nc p ctx sn mn co.
  unfold c17PeerBeginCall, m_peer_begin_call, c17_validate, c17_get_conn, c17_conn_begin, c17_peer_hostport.
  assert (R : c17_co_set_rs (if go_isnil co then c17_default_co else co)
                (c17_add_selected_peer (c17_co_rs (if go_isnil co then c17_default_co else co)) p) = m_record p co).
  { destruct co as [[r|]|]; reflexivity. }
  rewrite R. rewrite (Z.eqb_sym 0 validate).
  destruct (negb (validate =? 0)); [reflexivity|].
  destruct gc as [conn err]. rewrite (Z.eqb_sym 0 err).
  destruct (negb (err =? 0)); [reflexivity|].
  destruct (cb conn (m_record p co)) as [call err2]. rewrite (Z.eqb_sym 0 err2).
  destruct (negb (err2 =? 0)); reflexivity.
Qed.

Lemma tie_sc_begin_call : forall (P C : Type) (get : list (list Z) -> P * Z) (begin : P -> c17co -> C * Z) (nc : C)
    ctx mn co,
  c17SubChannelBeginCall get begin nc ctx mn co = m_sc_begin_call get begin nc co.
Proof.
  intros P C get begin nc ctx mn co.
  unfold c17SubChannelBeginCall, m_sc_begin_call, c17_call1, c17_call_begin.
  rewrite tie_prev_selected.
  assert (D : (if go_isnil co then c17_default_co else co) = match co with None => c17_default_co | Some _ => co end).
  { destruct co; reflexivity. }
  rewrite D.
  destruct (get _) as [peer err]. rewrite (Z.eqb_sym 0 err). reflexivity.
Qed.

Lemma tie_ch_begin_call : forall (P C : Type) (goa : list Z -> P) (begin : P -> c17co -> C * Z) ctx sn mn hp co,
  c17ChannelBeginCall goa begin ctx sn mn hp co = m_ch_begin_call goa begin hp co.
Proof. reflexivity. Qed.

Lemma tie_clients : forall rs, c17ThriftCallRequestState rs = rs /\ c17JsonCallRequestState rs = rs.
Proof. intros rs. split; reflexivity. Qed.

