(* Proofs about Model/C07CloseStop.v: the optional components a closing channel stops. *)
From Coq Require Import ZArith List Bool Lia Arith.
From Verif Require Import Base.Wrap Base.Wire Gen.GenConsts Model.CloseKernel Model.ChanClose Model.C07CloseStop
  Proofs.CloseKernelP Proofs.ChanCloseP.
Import ListNotations.
Local Open Scope Z_scope.

Definition xchst (s : xsys) : Z := chst (csh (xb s)).

(* ---------- facts about one thread step of the channel model ---------- *)
Lemma ctstep_not_PCl1 : forall s p arg s' p', ctstep s p arg = Some (s', p') -> p' <> PCl1.
Proof. intros s p arg s' p' H. ctstep_inv H; intro; discriminate. Qed.

Lemma chst_conn_close : forall s c, chst (conn_close s c) = chst s.
Proof. intros s c. unfold conn_close. destruct (cstate s c =? kA); reflexivity. Qed.

(* only the locked region of Channel.Close takes the state from below StartClose to StartClose or beyond *)
Lemma ctstep_cross : forall s p arg s' p', I_ch s -> A_ch s p -> ctstep s p arg = Some (s', p') ->
  p <> PCl1 -> (hSC <=? chst s') = (hSC <=? chst s).
Proof.
  intros s p arg s' p' HI HA H Hp.
  ctstep_inv H; cfields; try reflexivity; try congruence; try (rewrite chst_conn_close; reflexivity).
  - (* PCb5: the update is applied -- the state was at StartClose or beyond already *)
    cbn [A_ch] in HA. destruct HA as (_ & H2 & _). zprop.
    transitivity true; [apply Z.leb_le; lia|symmetry; apply Z.leb_le; lia].
  - cbn [A_ch] in HA. destruct HA as (_ & H2 & _). zprop.
    transitivity true; [apply Z.leb_le; lia|symmetry; apply Z.leb_le; lia].
  - (* PSrv: Client -> Listening *)
    zprop. match goal with E : chst s = hClient |- _ => rewrite E end. reflexivity.
Qed.

Lemma ctstep_PCl1 : forall s arg, I_ch s ->
  exists s' p', ctstep s PCl1 arg = Some (s', p') /\ hSC <= chst s'.
Proof.
  intros s arg (Hr & _). cbn [ctstep].
  destruct (chst s =? hCl) eqn:E.
  - zprop. eexists; eexists; split; [reflexivity|]. rewrite E. cconsts. lia.
  - destruct (conns s) eqn:Ec.
    + eexists; eexists; split; [reflexivity|]. cfields. cconsts. lia.
    + eexists; eexists; split; [reflexivity|].
      destruct (chst s <? hSC) eqn:E2; cfields; zprop; lia.
Qed.

(* ---------- one step of the channel system ---------- *)
Lemma cstep_mono : forall b l b', ch_Inv b -> cstep b l = Some b' -> chst (csh b) <= chst (csh b').
Proof. intros b l b' HI H. destruct (ch_step b l b' HI H) as [(Hg & _) _]. exact Hg. Qed.

Lemma cstep_cross : forall b l b', ch_Inv b -> cstep b l = Some b' ->
  (forall tid arg, l = LRunC tid arg -> nth_error (cthr b) tid <> Some PCl1) ->
  (hSC <=? chst (csh b')) = (hSC <=? chst (csh b)).
Proof.
  intros b l b' [HI HA] H Hn. destruct l; cbn [cstep] in H.
  - destruct ((chst (csh b) =? hClient) && negb (lis (csh b))) eqn:E; [|discriminate].
    inversion H; subst; clear H. cbn [csh]. cfields. zprop.
    match goal with E : chst (csh b) = hClient |- _ => rewrite E end. reflexivity.
  - inversion H; subst; reflexivity.
  - destruct ((c <? length (cstates (csh b)))%nat && (cstate (csh b) c <? v) && (v <=? kCl)); [|discriminate].
    inversion H; subst; reflexivity.
  - inversion H; subst; reflexivity.
  - destruct (c <? length (cstates (csh b)))%nat; [|discriminate]. inversion H; subst; reflexivity.
  - inversion H; subst; reflexivity.
  - destruct (nth_error (cthr b) tid) as [p|] eqn:Ep; [|discriminate].
    destruct (ctstep (csh b) p arg) as [[sh' p']|] eqn:Et; [|discriminate].
    inversion H; subst; clear H. cbn [csh].
    eapply ctstep_cross; eauto. intros ->. apply (Hn tid arg eq_refl). exact Ep.
  - inversion H; subst; reflexivity.
  - inversion H; subst; reflexivity.
Qed.

Lemma cstep_new_pc : forall b tid arg b', cstep b (LRunC tid arg) = Some b' -> nth_error (cthr b') tid <> Some PCl1.
Proof.
  intros b tid arg b' H. cbn [cstep] in H.
  destruct (nth_error (cthr b) tid) as [p|] eqn:Ep; [|discriminate].
  destruct (ctstep (csh b) p arg) as [[sh' p']|] eqn:Et; [|discriminate].
  inversion H; subst; clear H. cbn [cthr].
  rewrite nth_error_upd_same by (eapply nth_error_lt; eauto).
  intros E. inversion E. eapply ctstep_not_PCl1; eauto.
Qed.

(* ---------- the invariant of the extended system ---------- *)
Definition XInv (iv : Z) (s : xsys) : Prop :=
  Reach cstep cinit (xb s) /\ x_panics s = 0 /\
  sw_started (xw s) = (0 <? iv) && negb (hSC <=? xchst s) /\
  sw_closes (xw s) = (if (0 <? iv) && (hSC <=? xchst s) then 1 else 0).

Lemma xlift_inv : forall iv s l b', XInv iv s -> cstep (xb s) l = Some b' ->
  (hSC <=? chst (csh b')) = (hSC <=? xchst s) ->
  XInv iv (mkXS b' (xw s) (x_lcloses s) (x_panics s)).
Proof.
  intros iv s l b' (HR & HP & HS & HC) Hs Hk. unfold XInv, xchst. cbn [xb xw x_panics].
  rewrite Hk. split; [eapply reach_step; eauto|]. auto.
Qed.

Lemma xinit_inv : forall iv, XInv iv (xinit iv).
Proof.
  intros iv. unfold XInv, xinit, xchst, sweep_start. cbn [xb xw x_panics sw_started sw_closes].
  split; [apply reach_init|]. split; [reflexivity|].
  replace (hSC <=? chst (csh cinit)) with false by reflexivity. cbn [negb orb].
  rewrite andb_true_r, andb_false_r.
  destruct (Z.leb_spec iv 0) as [L|L]; destruct (Z.ltb_spec 0 iv) as [L2|L2]; try lia; split; reflexivity.
Qed.

(* what one step of the extended system does *)
Lemma xstep_props : forall iv s l s', XInv iv s -> xstep s l = Some s' ->
  XInv iv s' /\ xchst s <= xchst s' /\
  ((forall tid arg, l = LRunC tid arg -> nth_error (cthr (xb s)) tid <> Some PCl1) ->
   (hSC <=? xchst s') = (hSC <=? xchst s)) /\
  (forall tid arg, l = LRunC tid arg -> nth_error (cthr (xb s)) tid = Some PCl1 -> hSC <= xchst s') /\
  (forall tid arg, l = LRunC tid arg -> nth_error (cthr (xb s')) tid <> Some PCl1).
Proof.
  intros iv s l s' HX H. pose proof HX as (HR & HP & HS & HC).
  pose proof (ch_inv _ HR) as HI.
  (* a step that is a plain step of the channel system *)
  assert (Lift : forall b', cstep (xb s) l = Some b' ->
            (forall tid arg, l = LRunC tid arg -> nth_error (cthr (xb s)) tid <> Some PCl1) ->
            XInv iv (mkXS b' (xw s) (x_lcloses s) (x_panics s)) /\
            xchst s <= xchst (mkXS b' (xw s) (x_lcloses s) (x_panics s)) /\
            ((forall tid arg, l = LRunC tid arg -> nth_error (cthr (xb s)) tid <> Some PCl1) ->
             (hSC <=? xchst (mkXS b' (xw s) (x_lcloses s) (x_panics s))) = (hSC <=? xchst s)) /\
            (forall tid arg, l = LRunC tid arg -> nth_error (cthr (xb s)) tid = Some PCl1 ->
               hSC <= xchst (mkXS b' (xw s) (x_lcloses s) (x_panics s))) /\
            (forall tid arg, l = LRunC tid arg ->
               nth_error (cthr (xb (mkXS b' (xw s) (x_lcloses s) (x_panics s)))) tid <> Some PCl1)).
  { intros b' Hs Hn. pose proof (cstep_cross _ _ _ HI Hs Hn) as Hk.
    split; [eapply xlift_inv; eauto|]. split; [eapply cstep_mono; eauto|]. split; [intros _; exact Hk|].
    split.
    - intros tid arg -> Ep. exfalso. exact (Hn tid arg eq_refl Ep).
    - intros tid arg ->. cbn [xb]. eapply cstep_new_pc; eauto. }
  unfold xstep, xstep_v in H.
  destruct l as [| |c v| |c| |tid arg| |];
    try (unfold xlift in H;
         match type of H with match ?c with _ => _ end = _ => destruct c as [b'|] eqn:Es end; [|discriminate];
         inversion H; subst; clear H; apply Lift; [first [exact Es|reflexivity]|intros ? ? E; discriminate E]).
  destruct (nth_error (cthr (xb s)) tid) as [p|] eqn:Ep.
  2:{ unfold xlift in H. destruct (cstep (xb s) (LRunC tid arg)) as [b'|] eqn:Es; [|discriminate].
      inversion H; subst; clear H. apply Lift; [first [exact Es|reflexivity]|]. intros t a E. inversion E; subst. rewrite Ep. discriminate. }
  assert (NotCl : p <> PCl1 -> xlift s (cstep (xb s) (LRunC tid arg)) = Some s' ->
            XInv iv s' /\ xchst s <= xchst s' /\
            ((forall t a, LRunC tid arg = LRunC t a -> nth_error (cthr (xb s)) t <> Some PCl1) ->
             (hSC <=? xchst s') = (hSC <=? xchst s)) /\
            (forall t a, LRunC tid arg = LRunC t a -> nth_error (cthr (xb s)) t = Some PCl1 -> hSC <= xchst s') /\
            (forall t a, LRunC tid arg = LRunC t a -> nth_error (cthr (xb s')) t <> Some PCl1)).
  { intros Hp H'. unfold xlift in H'. destruct (cstep (xb s) (LRunC tid arg)) as [b'|] eqn:Es; [|discriminate].
    inversion H'; subst; clear H'. apply Lift; [first [exact Es|reflexivity]|]. intros t a E. inversion E; subst. rewrite Ep. congruence. }
  destruct p; try (apply NotCl; [discriminate|exact H]).
  (* the locked region of Channel.Close *)
  destruct HI as [HIc HAc].
  destruct (ctstep_PCl1 (csh (xb s)) arg HIc) as (sh' & p' & Et & Hge).
  assert (Es : cstep (xb s) (LRunC tid arg) = Some (mkCS sh' (upd (cthr (xb s)) tid p'))).
  { cbn [cstep]. rewrite Ep, Et. reflexivity. }
  assert (Hmono : chst (csh (xb s)) <= chst sh').
  { apply (cstep_mono _ _ _ (conj HIc HAc) Es). }
  assert (Hnew : forall t a, LRunC tid arg = LRunC t a ->
            nth_error (upd (cthr (xb s)) tid p') t <> Some PCl1).
  { intros t a E. inversion E; subst. apply (cstep_new_pc _ _ _ _ Es). }
  destruct (chst (csh (xb s)) =? hCl) eqn:Ecl.
  - (* early return *)
    rewrite Es in H. cbn [xlift] in H. inversion H; subst; clear H.
    assert (Hk : (hSC <=? chst sh') = (hSC <=? xchst s)).
    { unfold xchst. zprop. transitivity true; [apply Z.leb_le; lia|symmetry; apply Z.leb_le; rewrite Ecl; cconsts; lia]. }
    split; [eapply xlift_inv; eauto|]. unfold xchst. cbn [xb csh cthr].
    split; [exact Hmono|]. split; [intros _; exact Hk|]. split; [intros; exact Hge|exact Hnew].
  - unfold sweep_stop_v in H. rewrite HS, HC in H.
    assert (Hge' : (hSC <=? chst sh') = true) by (apply Z.leb_le; exact Hge).
    destruct (0 <? iv) eqn:Eon; destruct (hSC <=? xchst s) eqn:Ek; cbn [andb negb] in H;
      rewrite Es in H; cbn [Z.leb] in H; inversion H; subst; clear H;
      (split; [unfold XInv, xchst; cbn [xb xw x_panics csh sw_started sw_closes];
               rewrite Hge', Eon; cbn [andb negb];
               split; [eapply reach_step; eauto|]; split; [exact HP|];
               first [split; [exact HS|exact HC] | split; reflexivity | idtac]
             |unfold xchst; cbn [xb csh cthr];
              split; [exact Hmono|]; split; [intros Hn; exfalso; exact (Hn tid arg eq_refl Ep)|];
              split; [intros; exact Hge|exact Hnew]]).
Qed.

Lemma xinv_reach : forall iv s, Reach xstep (xinit iv) s -> XInv iv s.
Proof.
  intros iv. apply reach_ind; [apply xinit_inv|].
  intros s l s' _ IH Hs. exact (proj1 (xstep_props iv s l s' IH Hs)).
Qed.

(* NO PANIC, and the channel theorems carry over.  For every interleaving of any number of Close
   calls with everything else the channel model does (connection moves, callbacks, new connections,
   Serve / ListenAndServe), with or without the idle sweeper: no Close ever panics, and the run of
   the extended system projects onto a run of the channel system of Model/ChanClose.v -- so every
   theorem about [Reach cstep cinit] (monotone, signal once, drain, reaches closed, no service after
   close) holds of the channel with its optional components. *)
Theorem c07stop_no_panic : forall iv s, Reach xstep (xinit iv) s ->
  x_panics s = 0 /\ Reach cstep cinit (xb s) /\
  (forall n o, nth_error (cthr (xb s)) n = Some (CDone o) -> o <> oClosePanic).
Proof.
  intros iv s HR. destruct (xinv_reach iv s HR) as (Hb & Hp & _). split; [exact Hp|]. split; [exact Hb|].
  (* no thread of a run of cstep ever has the outcome oClosePanic: ctstep does not produce it *)
  clear HR Hp. revert s Hb.
  assert (G : forall b, Reach cstep cinit b -> forall n o, nth_error (cthr b) n = Some (CDone o) -> o <> oClosePanic).
  { apply (reach_ind cstep cinit (fun b => forall n o, nth_error (cthr b) n = Some (CDone o) -> o <> oClosePanic)).
    - intros [|n] o H; discriminate.
    - intros b l b' _ IH Hs n o Hn.
      assert (Snoc : forall p sh, (forall o', p <> CDone o') -> b' = mkCS sh (cthr b ++ [p]) -> o <> oClosePanic).
      { intros p sh Hp ->. cbn [cthr] in Hn. apply nth_error_snoc in Hn. destruct Hn as [[_ Hn]|[_ Hn]]; [eapply IH; eauto|].
        exfalso. eapply Hp; eauto. }
      destruct l; cbn [cstep] in Hs.
      + destruct ((chst (csh b) =? hClient) && negb (lis (csh b))); [|discriminate]. inversion Hs; subst. eapply IH; eauto.
      + inversion Hs; subst. eapply Snoc; [|reflexivity]. intros; discriminate.
      + destruct ((c <? length (cstates (csh b)))%nat && (cstate (csh b) c <? v) && (v <=? kCl)); [|discriminate].
        inversion Hs; subst. eapply IH; eauto.
      + inversion Hs; subst. eapply Snoc; [|reflexivity]. intros; discriminate.
      + destruct (c <? length (cstates (csh b)))%nat; [|discriminate]. inversion Hs; subst.
        eapply Snoc; [|reflexivity]. intros; discriminate.
      + inversion Hs; subst. eapply Snoc; [|reflexivity]. intros; discriminate.
      + destruct (nth_error (cthr b) tid) as [p|] eqn:Ep; [|discriminate].
        destruct (ctstep (csh b) p arg) as [[sh' p']|] eqn:Et; [|discriminate].
        inversion Hs; subst; clear Hs. cbn [cthr] in Hn. apply nth_error_upd in Hn.
        destruct Hn as [[_ Hn]|[_ Hn]]; [|eapply IH; eauto].
        subst p'. clear - Et. ctstep_inv Et; intro; discriminate.
      + inversion Hs; subst. eapply Snoc; [|reflexivity]. intros; discriminate.
      + inversion Hs; subst. eapply Snoc; [|reflexivity]. intros; discriminate. }
  intros s Hb. apply G. exact Hb.
Qed.

(* STOPPED EXACTLY ONCE.  In every reachable state: the poller is running (started, its stopCh
   open) exactly when the idle sweeper is configured and no Close has got through its locked region
   yet (state below StartClose); once the state is at StartClose or beyond the poller is stopped
   and its stopCh has been closed exactly once -- never a second time, however many Close calls
   there are and wherever they land. *)
Theorem c07stop_once : forall iv s, Reach xstep (xinit iv) s ->
  sw_started (xw s) = (0 <? iv) && negb (hSC <=? xchst s) /\
  sw_closes (xw s) = (if (0 <? iv) && (hSC <=? xchst s) then 1 else 0) /\
  0 <= sw_closes (xw s) <= 1.
Proof.
  intros iv s HR. destruct (xinv_reach iv s HR) as (_ & _ & HS & HC). split; [exact HS|]. split; [exact HC|].
  rewrite HC. destruct ((0 <? iv) && (hSC <=? xchst s)); lia.
Qed.

(* the idle sweeper is off (default options): Stop is a no-op at every call *)
Corollary c07stop_default_options : forall iv s, iv <= 0 -> Reach xstep (xinit iv) s ->
  sw_started (xw s) = false /\ sw_closes (xw s) = 0.
Proof.
  intros iv s Hiv HR. destruct (c07stop_once iv s HR) as (HS & HC & _).
  assert (E : (0 <? iv) = false) by (apply Z.ltb_ge; lia). rewrite E in HS, HC. auto.
Qed.

(* the locked region of Channel.Close as one step: what it does to the listener counter, the
   sweeper, the state and the rest of the Close call is what [close_region] says *)
Theorem c07stop_region_step : forall keep s tid arg,
  nth_error (cthr (xb s)) tid = Some PCl1 ->
  let sh := csh (xb s) in
  let '(lcl, stops, st', cc) := close_region (lis sh) (zlen (conns sh)) (chst sh) in
  match (if stops =? 0 then Some (xw s) else sweep_stop_v keep (xw s)) with
  | None => exists s', xstep_v keep s (LRunC tid arg) = Some s' /\ x_panics s' = x_panics s + 1 /\
                       csh (xb s') = sh /\ nth_error (cthr (xb s')) tid = Some (CDone oClosePanic)
  | Some w' => exists s', xstep_v keep s (LRunC tid arg) = Some s' /\ x_panics s' = x_panics s /\
                       xw s' = w' /\ x_lcloses s' = x_lcloses s + lcl /\ chst (csh (xb s')) = st' /\
                       nth_error (cthr (xb s')) tid = Some (PCl2 (if (stops =? 0) || cc then [] else conns sh) cc)
  end.
Proof.
  intros keep s tid arg Ep. cbv zeta. unfold close_region, xstep_v. rewrite Ep.
  assert (Hl : forall (A : Type) (l : list A) (x : A), nth_error l tid = Some x -> (tid < length l)%nat).
  { intros A l x H. eapply nth_error_lt; eauto. }
  destruct (chst (csh (xb s)) =? hCl) eqn:Ecl.
  - cbn [Z.eqb]. cbn [cstep]. rewrite Ep. cbn [ctstep]. rewrite Ecl. cbn [xlift].
    eexists. split; [reflexivity|]. cbn [x_panics xw x_lcloses xb csh cthr].
    rewrite nth_error_upd_same by (eapply Hl; eauto).
    repeat split; lia.
  - replace (1 =? 0) with false by reflexivity.
    destruct (sweep_stop_v keep (xw s)) as [w'|] eqn:Ew.
    + cbn [cstep]. rewrite Ep. cbn [ctstep]. rewrite Ecl.
      destruct (conns (csh (xb s))) as [|c0 cs] eqn:Ec.
      * eexists. split; [reflexivity|]. cbn [x_panics xw x_lcloses xb csh cthr].
        rewrite nth_error_upd_same by (eapply Hl; eauto).
        replace (zlen [] =? 0) with true by reflexivity.
        repeat split; try reflexivity. destruct (lis (csh (xb s))); lia.
      * eexists. split; [reflexivity|]. cbn [x_panics xw x_lcloses xb csh cthr].
        rewrite nth_error_upd_same by (eapply Hl; eauto).
        assert (En : (zlen (c0 :: cs) =? 0) = false).
        { unfold zlen. cbn [length]. apply Z.eqb_neq. lia. }
        rewrite En. repeat split; try reflexivity.
        -- destruct (lis (csh (xb s))); lia.
        -- destruct (chst (csh (xb s)) <? hSC); reflexivity.
    + eexists. split; [reflexivity|]. cbn [x_panics xw x_lcloses xb csh cthr].
      rewrite nth_error_upd_same by (eapply Hl; eauto). repeat split; reflexivity.
Qed.

(* ---------- the wrong variant: Stop does not clear is.started ---------- *)
(* one connection, Close (StartClose: the connection is still open), a second Close: panic *)
Definition keep_started_witness : list clabel :=
  [LNewConn; LRunC 0 0; LClose; LRunC 1 0; LClose; LRunC 2 0].

Theorem c07stop_keep_started_refuted : exists s,
  run (xstep_v true) (xinit 1) keep_started_witness = Some s /\
  x_panics s = 1 /\ chst (csh (xb s)) = hSC /\ conns (csh (xb s)) = [0%nat] /\
  nth_error (cthr (xb s)) 2 = Some (CDone oClosePanic).
Proof. eexists. split; [vm_compute; reflexivity|]. vm_compute. repeat split. Qed.

(* the same schedule: on the model nothing panics; with the default options the variant is invisible *)
Lemma keep_started_witness_model :
  (exists s, run xstep (xinit 1) keep_started_witness = Some s /\ x_panics s = 0 /\ sw_closes (xw s) = 1 /\
             nth_error (cthr (xb s)) 2 = Some (PCl2 [0%nat] false)) /\
  (exists s, run (xstep_v true) (xinit 0) keep_started_witness = Some s /\ x_panics s = 0 /\ sw_closes (xw s) = 0).
Proof. split; eexists; (split; [vm_compute; reflexivity|]); vm_compute; repeat split. Qed.

(* ---------- the entry points of engine c07closecfg ---------- *)
Definition XR (iv : Z) (s : xsys) : Prop := Reach xstep (xinit iv) s.
Definition called (s : xsys) : bool := hSC <=? xchst s.

Lemma xr_step : forall iv s l s', XR iv s -> xstep s l = Some s' -> XR iv s'.
Proof. intros iv s l s' H Hs. eapply reach_step; eauto. Qed.

Lemma xstep_P : forall iv s l s', XR iv s -> xstep s l = Some s' ->
  xchst s <= xchst s' /\
  ((forall tid arg, l = LRunC tid arg -> nth_error (cthr (xb s)) tid <> Some PCl1) -> called s' = called s) /\
  (forall tid arg, l = LRunC tid arg -> nth_error (cthr (xb s)) tid = Some PCl1 -> called s' = true) /\
  (forall tid arg, l = LRunC tid arg -> nth_error (cthr (xb s')) tid <> Some PCl1).
Proof.
  intros iv s l s' HR Hs. destruct (xstep_props iv s l s' (xinv_reach iv s HR) Hs) as (_ & H1 & H2 & H3 & H4).
  split; [exact H1|]. split; [exact H2|]. split; [|exact H4].
  intros tid arg E Ep. unfold called. apply Z.leb_le. eapply H3; eauto.
Qed.

Lemma called_mono : forall iv s l s', XR iv s -> xstep s l = Some s' -> called s = true -> called s' = true.
Proof.
  intros iv s l s' HR Hs Hc. destruct (xstep_P iv s l s' HR Hs) as (H1 & _). unfold called in *.
  apply Z.leb_le in Hc. apply Z.leb_le. lia.
Qed.

Lemma xrun_thread_reach : forall iv f s tid, XR iv s -> XR iv (xrun_thread f s tid).
Proof.
  intros iv f. induction f as [|f IH]; intros s tid HR; cbn [xrun_thread]; [exact HR|].
  destruct (nth_error (cthr (xb s)) tid) as [p|]; [|exact HR].
  destruct p; try exact HR;
    match goal with |- XR _ (match xstep s ?l with _ => _ end) => destruct (xstep s l) as [s'|] eqn:Es; [|exact HR] end;
    apply IH; eapply xr_step; eauto.
Qed.

Lemma xrun_thread_mono : forall iv f s tid, XR iv s -> called s = true -> called (xrun_thread f s tid) = true.
Proof.
  intros iv f. induction f as [|f IH]; intros s tid HR Hc; cbn [xrun_thread]; [exact Hc|].
  destruct (nth_error (cthr (xb s)) tid) as [p|]; [|exact Hc].
  destruct p; try exact Hc;
    match goal with |- called (match xstep s ?l with _ => _ end) = _ => destruct (xstep s l) as [s'|] eqn:Es; [|exact Hc] end;
    (apply IH; [eapply xr_step; eauto|eapply called_mono; eauto]).
Qed.

(* a thread that is not at the start of Close never gets there: running it leaves "Close was called" as it is *)
Lemma xrun_thread_keep : forall iv f s tid, XR iv s -> nth_error (cthr (xb s)) tid <> Some PCl1 ->
  called (xrun_thread f s tid) = called s.
Proof.
  intros iv f. induction f as [|f IH]; intros s tid HR Hn; cbn [xrun_thread]; [reflexivity|].
  destruct (nth_error (cthr (xb s)) tid) as [p|] eqn:Ep; [|reflexivity].
  destruct p; try reflexivity; try (exfalso; apply Hn; reflexivity);
    match goal with |- called (match xstep s ?l with _ => _ end) = _ => destruct (xstep s l) as [s'|] eqn:Es; [|reflexivity] end;
    (destruct (xstep_P iv s _ s' HR Es) as (_ & H2 & _ & H4);
     rewrite IH; [apply H2; intros t a E; inversion E; subst; rewrite Ep; discriminate
                 |eapply xr_step; eauto|eapply H4; reflexivity]).
Qed.

Lemma xstep_PCl1_enabled : forall iv s tid arg, XR iv s -> nth_error (cthr (xb s)) tid = Some PCl1 ->
  exists s', xstep s (LRunC tid arg) = Some s'.
Proof.
  intros iv s tid arg HR Ep.
  pose proof (c07stop_region_step false s tid arg Ep) as H. cbv zeta in H.
  destruct (close_region _ _ _) as [[[lcl stops] st'] cc].
  destruct (if stops =? 0 then Some (xw s) else sweep_stop_v false (xw s)) as [w'|].
  - destruct H as (s' & Hs & _). exists s'. exact Hs.
  - destruct H as (s' & Hs & _). exists s'. exact Hs.
Qed.

Lemma xrun_thread_close : forall iv f s tid, XR iv s -> nth_error (cthr (xb s)) tid = Some PCl1 ->
  called (xrun_thread (S f) s tid) = true.
Proof.
  intros iv f s tid HR Ep. cbn [xrun_thread]. rewrite Ep. cbn [xarg].
  destruct (xstep_PCl1_enabled iv s tid (minstate (csh (xb s))) HR Ep) as [s' Hs]. rewrite Hs.
  destruct (xstep_P iv s _ s' HR Hs) as (_ & _ & H3 & _).
  apply (xrun_thread_mono iv); [eapply xr_step; eauto|]. eapply H3; [reflexivity|exact Ep].
Qed.

(* starting a thread with a label that is not a thread step *)
Lemma xspawn_other : forall iv s l, XR iv s -> (forall tid arg, l <> LRunC tid arg) -> l <> LClose ->
  XR iv (xspawn_run s l) /\ called (xspawn_run s l) = called s.
Proof.
  intros iv s l HR Hl Hc. unfold xspawn_run. destruct (xstep s l) as [s1|] eqn:Es; [|split; [exact HR|reflexivity]].
  assert (HR1 : XR iv s1) by (eapply xr_step; eauto).
  split; [apply xrun_thread_reach; exact HR1|].
  destruct (xstep_P iv s l s1 HR Es) as (_ & H2 & _).
  rewrite xrun_thread_keep with (iv := iv); [apply H2; intros t a E; exfalso; exact (Hl t a E)|exact HR1|].
  (* the new thread is not a Close thread *)
  unfold xstep, xstep_v in Es.
  destruct l; try (exfalso; apply Hc; reflexivity); try (exfalso; eapply Hl; reflexivity);
    unfold xlift in Es; cbn [cstep] in Es.
  - destruct ((chst (csh (xb s)) =? hClient) && negb (lis (csh (xb s)))); [|discriminate].
    inversion Es; subst; clear Es. cbn [xb cthr].
    destruct (nth_error (cthr (xb s)) (length (cthr (xb s)))) eqn:E; [|discriminate].
    apply nth_error_lt in E. lia.
  - inversion Es; subst; clear Es. cbn [xb cthr]. rewrite nth_error_app2 by lia. rewrite Nat.sub_diag. discriminate.
  - destruct ((c <? length (cstates (csh (xb s))))%nat && (cstate (csh (xb s)) c <? v) && (v <=? kCl)); [|discriminate].
    inversion Es; subst; clear Es. cbn [xb cthr].
    destruct (nth_error (cthr (xb s)) (length (cthr (xb s)))) eqn:E; [|discriminate].
    apply nth_error_lt in E. lia.
  - destruct (c <? length (cstates (csh (xb s))))%nat; [|discriminate].
    inversion Es; subst; clear Es. cbn [xb cthr]. rewrite nth_error_app2 by lia. rewrite Nat.sub_diag. discriminate.
  - inversion Es; subst; clear Es. cbn [xb cthr]. rewrite nth_error_app2 by lia. rewrite Nat.sub_diag. discriminate.
  - inversion Es; subst; clear Es. cbn [xb cthr]. rewrite nth_error_app2 by lia. rewrite Nat.sub_diag. discriminate.
  - inversion Es; subst; clear Es. cbn [xb cthr]. rewrite nth_error_app2 by lia. rewrite Nat.sub_diag. discriminate.
Qed.

Lemma xspawn_close : forall iv s, XR iv s ->
  XR iv (xspawn_run s LClose) /\ called (xspawn_run s LClose) = true.
Proof.
  intros iv s HR. unfold xspawn_run.
  assert (Es : xstep s LClose = Some (mkXS (mkCS (csh (xb s)) (cthr (xb s) ++ [PCl1])) (xw s) (x_lcloses s) (x_panics s))) by reflexivity.
  rewrite Es.
  assert (HR1 : XR iv (mkXS (mkCS (csh (xb s)) (cthr (xb s) ++ [PCl1])) (xw s) (x_lcloses s) (x_panics s))) by (eapply xr_step; eauto).
  split; [apply xrun_thread_reach; exact HR1|].
  apply (xrun_thread_close iv 63); [exact HR1|]. cbn [xb cthr]. rewrite nth_error_app2 by lia. rewrite Nat.sub_diag. reflexivity.
Qed.

Lemma iter_S : forall (A : Type) (f : A -> A) k x, Nat.iter (S k) f x = f (Nat.iter k f x).
Proof. reflexivity. Qed.

Lemma xiter_close : forall iv k s, XR iv s ->
  let s' := Nat.iter k (fun s => xspawn_run s LClose) s in
  XR iv s' /\ called s' = called s || negb (Nat.eqb k 0).
Proof.
  intros iv k. induction k as [|k IH]; intros s HR; cbv zeta; [cbn [Nat.iter nat_rect]|rewrite iter_S].
  - split; [exact HR|]. cbn [Nat.eqb negb]. rewrite orb_false_r. reflexivity.
  - destruct (IH s HR) as [HR' _]. cbv zeta in HR'.
    destruct (xspawn_close iv _ HR') as [H1 H2]. split; [exact H1|]. rewrite H2. cbn [Nat.eqb negb]. rewrite orb_true_r. reflexivity.
Qed.

Lemma xobs_spec : forall iv s, XR iv s ->
  xobs false s = [zb ((0 <? iv) && negb (called s)); zb ((0 <? iv) && called s); 0].
Proof.
  intros iv s HR. destruct (xinv_reach iv s HR) as (_ & HP & HS & HC).
  unfold xobs, called. cbn [app]. rewrite HS, HC, HP.
  destruct ((0 <? iv) && (hSC <=? xchst s)); reflexivity.
Qed.

Lemma xrun_ops_spec : forall iv n s l, XR iv s ->
  xrun_ops false n s l = spec_stop_ops n (0 <? iv) (called s) l.
Proof.
  intros iv n. induction n as [|n IH]; intros s l HR; cbn [xrun_ops spec_stop_ops]; [reflexivity|].
  destruct l as [|op [|a [|b r]]]; try reflexivity.
  destruct (op =? 1).
  - destruct (xiter_close iv (Z.to_nat a) s HR) as [HR' Hc]. cbv zeta in HR', Hc.
    rewrite (IH _ r HR'), Hc. f_equal. f_equal.
    destruct (Z.ltb_spec 0 a) as [L|L].
    + destruct (Z.to_nat a) eqn:E; [lia|reflexivity].
    + replace (Z.to_nat a) with O by lia. reflexivity.
  - destruct (op =? 2).
    + destruct (xstep s (LConnMove (Z.to_nat a) b)) as [s1|] eqn:Es.
      * assert (HR1 : XR iv s1) by (eapply xr_step; eauto).
        destruct (xspawn_other iv s1 (LCallback (Z.to_nat a)) HR1) as [HR2 Hc2]; [intros; discriminate|discriminate|].
        rewrite (IH _ r HR2), Hc2. f_equal.
        destruct (xstep_P iv s _ s1 HR Es) as (_ & H2 & _). apply H2. intros; discriminate.
      * apply IH. exact HR.
    + rewrite (xobs_spec iv s HR), (IH s r HR). reflexivity.
Qed.

Lemma xstart_reach : forall iv lis n, XR iv (xstart iv lis n) /\ called (xstart iv lis n) = false.
Proof.
  intros iv lis n. unfold xstart.
  set (s1 := if lis =? 1 then match xstep (xinit iv) LListen with Some s => s | None => xinit iv end else xinit iv).
  assert (H1 : XR iv s1 /\ called s1 = false).
  { assert (H0 : XR iv (xinit iv)) by apply reach_init.
    unfold s1. destruct (lis =? 1); [|split; [exact H0|reflexivity]].
    destruct (xstep (xinit iv) LListen) as [s|] eqn:Es; [|split; [exact H0|reflexivity]].
    split; [eapply xr_step; eauto|]. destruct (xstep_P iv _ _ s H0 Es) as (_ & H2 & _).
    rewrite H2; [reflexivity|intros; discriminate]. }
  clearbody s1. induction (Z.to_nat n) as [|k IH]; [exact H1|rewrite iter_S].
  destruct IH as [HRk Hck].
  destruct (xspawn_other iv _ LNewConn HRk) as [H2 H3]; [intros; discriminate|discriminate|].
  split; [exact H2|]. rewrite H3. exact Hck.
Qed.

(* MODEL = SPECIFICATION for the component observable of engine c07closecfg, on EVERY input (any
   number of connections, any script of Close batches, connection moves and observations). *)
Theorem c07closestop_spec : forall c, run_c07closestop c = spec_c07closestop c.
Proof.
  intros c. unfold run_c07closestop, run_c07close, spec_c07closestop.
  destruct c as [|iv [|lis [|n [|nops r]]]]; try reflexivity.
  destruct (xstart_reach iv lis n) as [HR Hc]. rewrite (xrun_ops_spec iv _ _ r HR), Hc. reflexivity.
Qed.

(* the full entry point visits reachable states only (the states the theorems are about) *)
Theorem c07closecfg_reachable : forall iv lis n, Reach xstep (xinit iv) (xstart iv lis n).
Proof. intros iv lis n. exact (proj1 (xstart_reach iv lis n)). Qed.

(* ================= Part 2: Connection.stopHealthCheck ================================= *)
Definition is_hg (p : hpc) : bool :=
  match p with HG0 | HGq | HGs1 | HGs2 | HGs3 | HGs4 | HGx => true | _ => false end.

(* what holds of a thread at program counter p (thread number n) *)
Definition H_thr (on : bool) (s : hshared) (n : nat) (p : hpc) : Prop :=
  match p with
  | HDone | HS1 => True
  | HS2 | HS3 => on = true
  | HS4 => on = true /\ h_cancelled s = true
  | HG0 | HGq | HGx => n = 0%nat /\ on = true /\ h_exits s = 0
  | HGs1 | HGs2 => n = 0%nat /\ on = true /\ h_exits s = 0 /\ h_cancelled s = true
  | HGs3 | HGs4 => False
  end.

Definition HInv (on : bool) (s : hsys) : Prop :=
  h_on (hsh s) = on /\
  (forall n p, nth_error (hthr s) n = Some p -> H_thr on (hsh s) n p) /\
  0 <= h_exits (hsh s) <= 1 /\
  (on = true -> exists p0, nth_error (hthr s) 0 = Some p0 /\
                 ((is_hg p0 = true /\ h_exits (hsh s) = 0) \/ (p0 = HDone /\ h_exits (hsh s) = 1))) /\
  (on = false -> h_exits (hsh s) = 0).

Lemma H_thr_stable : forall on s s' n p,
  h_exits s' = h_exits s -> (h_cancelled s = true -> h_cancelled s' = true) ->
  H_thr on s n p -> H_thr on s' n p.
Proof.
  intros on s s' n p He Hc H. destruct p; cbn [H_thr] in *; rewrite ?He; intuition auto.
Qed.

Lemma hpc_eq_HGx : forall p, p = HGx \/ p <> HGx.
Proof. intros p. destruct p; try (right; discriminate). left; reflexivity. Qed.

Lemma hinv_init : forall on, HInv on (hinit on).
Proof.
  intros on. unfold HInv, hinit. cbn [hsh hthr h_on h_exits]. split; [reflexivity|].
  split.
  - intros n p H. destruct on; [|destruct n; discriminate].
    destruct n as [|n]; [|destruct n; discriminate]. inversion H; subst. cbn. auto.
  - split; [lia|]. split; [|reflexivity].
    intros ->. exists HG0. split; [reflexivity|]. left. split; reflexivity.
Qed.

Lemma hinv_step : forall on s l s', HInv on s -> hstep s l = Some s' -> HInv on s'.
Proof.
  intros on s l s' (Hon & Hthr & Hex & Hg & Hoff) H. subst on. destruct l as [|tid arg]; cbn [hstep] in H.
  - injection H as <-. unfold HInv. cbn [hsh hthr]. split; [reflexivity|].
    split.
    + intros n p Hn. apply nth_error_snoc in Hn. destruct Hn as [[_ Hn]|[_ ->]]; [apply Hthr; exact Hn|exact I].
    + split; [exact Hex|]. split; [|exact Hoff].
      intros E. destruct (Hg E) as (p0 & Hp0 & Hc). exists p0. split; [|exact Hc].
      apply nth_error_snoc_old. exact Hp0.
  - destruct (nth_error (hthr s) tid) as [p|] eqn:Ep; [|discriminate].
    destruct (htstep (hsh s) p arg) as [[sh' p']|] eqn:Et; [|discriminate].
    injection H as <-. pose proof (Hthr _ _ Ep) as HT.
    assert (Hlen : (tid < length (hthr s))%nat) by (eapply nth_error_lt; eauto).
    (* the frame: every step leaves h_on alone, never resets h_cancelled, and only HGx changes h_exits *)
    assert (F : h_on sh' = h_on (hsh s) /\ (h_cancelled (hsh s) = true -> h_cancelled sh' = true) /\
                (p <> HGx -> h_exits sh' = h_exits (hsh s))).
    { destruct p; cbn [htstep] in Et;
        repeat match type of Et with context [if ?c then _ else _] => destruct c eqn:? end;
        try discriminate; inversion Et; subst; cbn [h_on h_cancelled h_exits]; repeat split; auto; congruence. }
    destruct F as (F1 & F2 & F3).
    unfold HInv. cbn [hsh hthr]. split; [congruence|].
    destruct (hpc_eq_HGx p) as [->|Hne].
    + (* the goroutine's deferred close(healthCheckDone) *)
      cbn [htstep] in Et. inversion Et; subst; clear Et. cbn [H_thr] in HT. destruct HT as (-> & Eon & Hz).
      cbn [h_exits h_cancelled h_on] in *.
      split.
      * intros n p Hn. apply nth_error_upd in Hn. destruct Hn as [[_ ->]|[Hne Hn]]; [exact I|].
        pose proof (Hthr _ _ Hn) as HT. destruct p; cbn [H_thr] in *; cbn [h_exits h_cancelled]; auto; try tauto; exfalso; apply Hne; tauto.
      * split; [lia|]. split; [|intros E; congruence].
        intros _. exists HDone. split; [apply nth_error_upd_same; exact Hlen|]. right. split; [reflexivity|lia].
    + specialize (F3 Hne).
      split.
      * intros n q Hn. apply nth_error_upd in Hn. destruct Hn as [[-> ->]|[_ Hn]].
        2:{ eapply H_thr_stable; eauto. }
        (* the new program counter of the stepping thread *)
        destruct p; cbn [htstep] in Et; cbn [H_thr] in HT;
          repeat match type of Et with context [if ?c then _ else _] => destruct c eqn:? end;
          try discriminate; try contradiction; inversion Et; subst; cbn [H_thr h_exits h_cancelled h_on] in *;
          auto; try tauto;
          try (unfold hc_guard1 in *; destruct (h_on (hsh s)); cbn in *; try discriminate; auto; fail);
          try (unfold hc_guard2 in *; destruct (h_cancelled (hsh s)); cbn in *; try discriminate; intuition congruence).
      * rewrite F3. split; [exact Hex|]. split; [|exact Hoff].
        intros E. destruct (Hg E) as (p0 & Hp0 & Hc).
        destruct (Nat.eq_dec tid 0) as [->|Hn0].
        -- (* the goroutine stepped: it is still the goroutine *)
           rewrite Ep in Hp0. inversion Hp0; subst p0. exists p'. split; [apply nth_error_upd_same; exact Hlen|].
           destruct Hc as [[Hgp Hz]|[-> _]]; [|cbn [htstep] in Et; discriminate].
           left. split; [|exact Hz].
           destruct p; try discriminate; cbn [htstep] in Et; cbn [H_thr] in HT;
             repeat match type of Et with context [if ?c then _ else _] => destruct c eqn:? end;
             try discriminate; try contradiction; inversion Et; subst; try reflexivity; exfalso; apply Hne; reflexivity.
        -- exists p0. split; [rewrite nth_error_upd_other by auto; exact Hp0|exact Hc].
Qed.

Lemma hinv_reach : forall on s, Reach hstep (hinit on) s -> HInv on s.
Proof.
  intros on. apply reach_ind; [apply hinv_init|]. intros s l s' _ IH Hs. eapply hinv_step; eauto.
Qed.

(* STOPPING THE HEALTH CHECKS IS SAFE AND IDEMPOTENT, for any number of stopHealthCheck calls in
   any interleaving with the health-check goroutine (which may fail and call stopHealthCheck on
   itself through connectionError at any moment):
   (1) health checks not enabled: no call gets past the first guard -- healthCheckCtx /
       healthCheckQuit / healthCheckDone (all nil) are never touched;
   (2) the goroutine never gets to wait for its own healthCheckDone (it cancelled first, so its own
       stopHealthCheck returns at the second guard);
   (3) close(healthCheckDone) runs at most once; a caller that waits has cancelled the context. *)
Theorem c07hc_safe : forall on s, Reach hstep (hinit on) s ->
  (on = false -> forall n p, nth_error (hthr s) n = Some p -> p = HDone \/ p = HS1) /\
  (forall n p, nth_error (hthr s) n = Some p -> p <> HGs3 /\ p <> HGs4) /\
  0 <= h_exits (hsh s) <= 1 /\
  (forall n, nth_error (hthr s) n = Some HS4 -> h_cancelled (hsh s) = true).
Proof.
  intros on s HR. destruct (hinv_reach on s HR) as (Hon & Hthr & Hex & Hg & Hoff).
  split; [|split; [|split; [exact Hex|]]].
  - intros -> n p Hn. pose proof (Hthr _ _ Hn) as HT.
    destruct p; cbn [H_thr] in HT; auto; try discriminate; try (destruct HT as [? ?]; discriminate);
      try contradiction; destruct HT as (_ & E & _); discriminate.
  - intros n p Hn. pose proof (Hthr _ _ Hn) as HT. split; intros ->; exact HT.
  - intros n Hn. pose proof (Hthr _ _ Hn) as HT. cbn [H_thr] in HT. tauto.
Qed.

(* EVERY CALL RETURNS: no reachable state is stuck while some stopHealthCheck call (or the
   goroutine) has not finished -- a waiting caller is released by the goroutine's exit, and the
   goroutine can always get there. *)
Theorem c07hc_progress : forall on s, Reach hstep (hinit on) s ->
  (exists n p, nth_error (hthr s) n = Some p /\ p <> HDone) ->
  exists l s', hstep s l = Some s'.
Proof.
  intros on s HR (n & p & Hn & Hp). destruct (hinv_reach on s HR) as (Hon & Hthr & Hex & Hg & Hoff).
  assert (Run : forall tid q arg sh' q', nth_error (hthr s) tid = Some q -> htstep (hsh s) q arg = Some (sh', q') ->
            exists l s', hstep s l = Some s').
  { intros tid q arg sh' q' Hq Ht. exists (LHRun tid arg). eexists. cbn [hstep]. rewrite Hq, Ht. reflexivity. }
  destruct on.
  - destruct (Hg eq_refl) as (p0 & Hp0 & [[Hgp Hz]|[-> Hone]]).
    + (* the goroutine has not exited: it has a step *)
      pose proof (Hthr _ _ Hp0) as HT.
      destruct p0; try discriminate; cbn [H_thr] in HT; try contradiction.
      * destruct (h_cancelled (hsh s)) eqn:Ec.
        -- eapply (Run 0%nat HG0 0); [exact Hp0|]. cbn [htstep]. rewrite Ec. reflexivity.
        -- eapply (Run 0%nat HG0 1); [exact Hp0|]. cbn [htstep]. rewrite Ec. reflexivity.
      * eapply (Run 0%nat HGq 0); [exact Hp0|]. reflexivity.
      * eapply (Run 0%nat HGs1 0); [exact Hp0|]. reflexivity.
      * eapply (Run 0%nat HGs2 0); [exact Hp0|]. reflexivity.
      * eapply (Run 0%nat HGx 0); [exact Hp0|]. reflexivity.
    + (* the goroutine has exited: healthCheckDone is closed, nobody waits *)
      pose proof (Hthr _ _ Hn) as HT.
      destruct p; try congruence; cbn [H_thr] in HT; try contradiction;
        try (destruct HT as (_ & _ & Hz); lia); try (destruct HT as (_ & _ & Hz & _); lia).
      * eapply (Run n HS1 0); [exact Hn|]. reflexivity.
      * eapply (Run n HS2 0); [exact Hn|]. reflexivity.
      * eapply (Run n HS3 0); [exact Hn|]. reflexivity.
      * eapply (Run n HS4 0); [exact Hn|]. cbn [htstep]. rewrite Hone. reflexivity.
  - pose proof (Hthr _ _ Hn) as HT.
    destruct p; try congruence; cbn [H_thr] in HT; try discriminate; try contradiction;
      try (destruct HT as [E _]; discriminate); try (destruct HT as (_ & E & _); discriminate).
    eapply (Run n HS1 0); [exact Hn|]. reflexivity.
Qed.

(* non-vacuity: health checks on, two outside callers, the goroutine fails on its own in between:
   everything finishes, healthCheckDone closed once *)
Lemma c07hc_example :
  exists s, run hstep (hinit true)
              [LHStop; LHRun 1 0; LHRun 0 1; LHRun 0 0; LHStop; LHRun 1 0; LHRun 2 0; LHRun 2 0;
               LHRun 0 0; LHRun 0 0; LHRun 0 0] = Some s /\
            hthr s = [HDone; HDone; HDone] /\ h_exits (hsh s) = 1 /\ h_cancelled (hsh s) = true.
Proof. eexists. split; [vm_compute; reflexivity|]. vm_compute. repeat split. Qed.
