(* Proofs about Model/RetryRuns.v: the pooled RequestState is private to its run.

   (the tie of [private_cfg] to the tables regenerated from retry.go is Proofs/RetryPoolTieP.v)
   pool_discipline       under [private_cfg], in every reachable state the element of a run
                         that has not returned is not in the pool and is not the element of
                         another such run
   runs_private          under [private_cfg], whatever the interleaving, every run goes through
                         exactly the states of [iso_step] -- the run with a RequestState of its
                         own -- on its own labels
   run_labels_iso        a run alone on scripted outcomes is run_with_retry (Model/Retry.v)
   runs_compose          the two together
   not_deferred_refuted, no_reset_refuted   the discipline is needed *)
From Coq Require Import ZArith List Bool Lia.
From Verif Require Import Base.Wrap Base.Wire Gen.GenConsts Gen.GenRetry Model.Retry Model.RetryRuns.
Import ListNotations.
Local Open Scope Z_scope.

(* ------------------------------------------------------------------ association lists *)

Lemma lookup_upd_same {A} k (v : A) l : lookup k (upd k v l) = Some v.
Proof.
  induction l as [|[k' v'] l IH]; cbn [upd lookup].
  - rewrite Z.eqb_refl. reflexivity.
  - destruct (k =? k') eqn:E; cbn [lookup].
    + rewrite Z.eqb_refl. reflexivity.
    + rewrite E. exact IH.
Qed.

Lemma lookup_upd_other {A} k k' (v : A) l : k <> k' -> lookup k (upd k' v l) = lookup k l.
Proof.
  intros H. induction l as [|[k2 v2] l IH]; cbn [upd lookup].
  - destruct (k =? k') eqn:E; [apply Z.eqb_eq in E; contradiction | reflexivity].
  - destruct (k' =? k2) eqn:E2; cbn [lookup].
    + apply Z.eqb_eq in E2. subst k2.
      destruct (k =? k') eqn:E; [apply Z.eqb_eq in E; contradiction | reflexivity].
    + destruct (k =? k2); [reflexivity | exact IH].
Qed.

Lemma lookup_upd_some {A} k k' (v : A) l : lookup k l <> None -> lookup k (upd k' v l) <> None.
Proof.
  intros H. destruct (Z.eq_dec k k') as [->|N].
  - rewrite lookup_upd_same. discriminate.
  - rewrite lookup_upd_other by exact N. exact H.
Qed.

Lemma zmem_In k l : zmem k l = true <-> In k l.
Proof.
  induction l as [|x l IH]; cbn [zmem In].
  - split; [discriminate | tauto].
  - rewrite orb_true_iff, IH, Z.eqb_eq. split; intros [H|H]; auto.
Qed.

Lemma In_zremove1 x k l : In x (zremove1 k l) -> In x l.
Proof.
  induction l as [|y l IH]; cbn [zremove1]; [tauto|].
  destruct (k =? y); cbn [In]; tauto.
Qed.

Lemma NoDup_zremove1 k l : NoDup l -> NoDup (zremove1 k l).
Proof.
  induction 1 as [|y l Hy Hl IH]; cbn [zremove1]; [constructor|].
  destruct (k =? y); [exact Hl|].
  constructor; [|exact IH]. intros Hin. apply Hy. eapply In_zremove1. exact Hin.
Qed.

Lemma notin_zremove1 k l : NoDup l -> ~ In k (zremove1 k l).
Proof.
  induction 1 as [|y l Hy Hl IH]; cbn [zremove1]; [tauto|].
  destruct (k =? y) eqn:E.
  - apply Z.eqb_eq in E. subst y. exact Hy.
  - cbn [In]. apply Z.eqb_neq in E. intros [H|H]; [congruence | tauto].
Qed.

(* ------------------------------------------------------------------ the pool discipline *)

Definition active (s : st) (r : Z) (rn : run_st) : Prop :=
  lookup r (s_runs s) = Some rn /\ rc_done (rn_ctl rn) = false.

Record inv (s : st) : Prop := mkInv {
  inv_nodup : NoDup (s_pool s);
  inv_pool_heap : forall k, In k (s_pool s) -> lookup k (s_heap s) <> None;
  inv_act_heap : forall r rn, active s r rn -> lookup (rn_obj rn) (s_heap s) <> None;
  inv_act_pool : forall r rn, active s r rn -> ~ In (rn_obj rn) (s_pool s);
  inv_act_distinct : forall r1 r2 rn1 rn2, active s r1 rn1 -> active s r2 rn2 ->
                       rn_obj rn1 = rn_obj rn2 -> r1 = r2
}.

Lemma inv_st0 : inv st0.
Proof.
  constructor; cbn.
  - constructor.
  - tauto.
  - intros r rn [H _]. discriminate.
  - intros r rn [H _]. discriminate.
  - intros r1 r2 rn1 rn2 [H _]. discriminate.
Qed.

Lemma ctl_enter_some c ob c' : ctl_enter c ob = Some c' ->
  rc_done c = false /\ rc_in c = false /\ rc_done c' = false.
Proof.
  unfold ctl_enter. destruct (rc_done c); [discriminate|]. destruct (rc_in c); [discriminate|].
  cbn [orb]. intros H. injection H as <-. auto.
Qed.

Lemma ctl_exit_some c ob e c' : ctl_exit c ob e = Some c' -> rc_done c = false /\ rc_in c = true.
Proof.
  unfold ctl_exit. destruct (rc_done c); [discriminate|]. destruct (rc_in c); [|discriminate]. auto.
Qed.

Lemma ctl_can_mark_true c : ctl_can_mark c = true -> rc_done c = false.
Proof. unfold ctl_can_mark. destruct (rc_in c), (rc_done c); cbn; congruence. Qed.

(* what Get gives under the invariant *)
Lemma pool_get_spec s k ob pool : inv s -> pool_get s k = Some (ob, pool) ->
  NoDup pool /\ (forall x, In x pool -> In x (s_pool s)) /\ ~ In k pool /\
  (forall r rn, active s r rn -> rn_obj rn <> k).
Proof.
  intros I. unfold pool_get. destruct (lookup k (s_heap s)) as [ob0|] eqn:Hk.
  - destruct (zmem k (s_pool s)) eqn:Hm; [|discriminate]. intros H. injection H as <- <-.
    apply zmem_In in Hm. repeat split.
    + apply NoDup_zremove1. exact (inv_nodup s I).
    + intros x. apply In_zremove1.
    + apply notin_zremove1. exact (inv_nodup s I).
    + intros r rn Ha E. apply (inv_act_pool s I r rn Ha). rewrite E. exact Hm.
  - intros H. injection H as <- <-. repeat split.
    + exact (inv_nodup s I).
    + tauto.
    + intros Hin. apply (inv_pool_heap s I k Hin). exact Hk.
    + intros r rn Ha E. apply (inv_act_heap s I r rn Ha). rewrite E. exact Hk.
Qed.

(* a run of the state after a step that rewrote run r0: it is r0's new record or an old run *)
Lemma active_upd s' s r0 rn0 r rn :
  active s' r rn -> s_runs s' = upd r0 rn0 (s_runs s) ->
  (r = r0 /\ rn = rn0) \/ (r <> r0 /\ active s r rn).
Proof.
  intros [Hl Hd] Hr. rewrite Hr in Hl. destruct (Z.eq_dec r r0) as [->|N].
  - rewrite lookup_upd_same in Hl. injection Hl as <-. left. auto.
  - rewrite lookup_upd_other in Hl by exact N. right. split; [exact N | split; assumption].
Qed.

Lemma inv_step s l s' : inv s -> step private_cfg s l = Some s' -> inv s'.
Proof.
  intros I. destruct l as [r0 o k | r0 k | r0 hp | r0 e]; cbn [step].
  - (* LStart *)
    destruct (lookup r0 (s_runs s)) eqn:Hr0; [discriminate|].
    destruct (pool_get s k) as [[ob pool]|] eqn:Hg; [|discriminate].
    destruct (pool_get_spec s k ob pool I Hg) as (Hnd & Hsub & Hk & Hact).
    generalize (ctl_start o). intros c.
    cbn [pc_put_at_exit private_cfg]. intros H. injection H as <-.
    assert (Hpool : forall x, In x (if rc_done c then k :: pool else pool) -> x = k \/ In x (s_pool s)).
    { intros x. destruct (rc_done c); cbn [In]; intros Hx.
      - destruct Hx as [<-|Hx]; [left; reflexivity | right; apply Hsub; exact Hx].
      - right. apply Hsub. exact Hx. }
    constructor; cbn [s_pool s_heap s_runs].
    + destruct (rc_done c); [constructor; assumption | exact Hnd].
    + intros x Hx. destruct (Hpool x Hx) as [->|Hin].
      * rewrite lookup_upd_same. discriminate.
      * apply lookup_upd_some. exact (inv_pool_heap s I x Hin).
    + intros r rn Ha. destruct (active_upd _ s r0 (mkRun k c) r rn Ha eq_refl) as [[-> ->]|[N Ha']].
      * cbn [rn_obj]. rewrite lookup_upd_same. discriminate.
      * apply lookup_upd_some. exact (inv_act_heap s I r rn Ha').
    + intros r rn Ha. destruct (active_upd _ s r0 (mkRun k c) r rn Ha eq_refl) as [[-> ->]|[N Ha']].
      * destruct Ha as [_ Hd]. cbn [rn_ctl rn_obj] in *. rewrite Hd. exact Hk.
      * intros Hx. destruct (Hpool _ Hx) as [E|Hin].
        -- exact (Hact r rn Ha' E).
        -- exact (inv_act_pool s I r rn Ha' Hin).
    + intros r1 r2 rn1 rn2 Ha1 Ha2 E.
      destruct (active_upd _ s r0 (mkRun k c) r1 rn1 Ha1 eq_refl) as [[-> ->]|[N1 Ha1']];
      destruct (active_upd _ s r0 (mkRun k c) r2 rn2 Ha2 eq_refl) as [[-> ->]|[N2 Ha2']].
      * reflexivity.
      * cbn [rn_obj] in E. exfalso. exact (Hact r2 rn2 Ha2' (eq_sym E)).
      * cbn [rn_obj] in E. exfalso. exact (Hact r1 rn1 Ha1' E).
      * exact (inv_act_distinct s I r1 r2 rn1 rn2 Ha1' Ha2' E).
  - (* LEnter *)
    destruct (lookup r0 (s_runs s)) as [rn0|] eqn:Hr0; [|discriminate].
    destruct (k =? rn_obj rn0) eqn:Ek; cbn [negb]; [|discriminate]. apply Z.eqb_eq in Ek. subst k.
    destruct (lookup (rn_obj rn0) (s_heap s)) as [ob|] eqn:Hob; [|discriminate].
    destruct (ctl_enter (rn_ctl rn0) (obj_inc ob)) as [c|] eqn:Hc; [|discriminate].
    destruct (ctl_enter_some _ _ _ Hc) as (Hd0 & _ & Hdc).
    assert (Ha0 : active s r0 rn0) by (split; assumption).
    intros H. injection H as <-.
    constructor; cbn [s_pool s_heap s_runs].
    + exact (inv_nodup s I).
    + intros x Hx. apply lookup_upd_some. exact (inv_pool_heap s I x Hx).
    + intros r rn Ha. destruct (active_upd _ s r0 (mkRun (rn_obj rn0) c) r rn Ha eq_refl) as [[-> ->]|[N Ha']].
      * cbn [rn_obj]. rewrite lookup_upd_same. discriminate.
      * apply lookup_upd_some. exact (inv_act_heap s I r rn Ha').
    + intros r rn Ha. destruct (active_upd _ s r0 (mkRun (rn_obj rn0) c) r rn Ha eq_refl) as [[-> ->]|[N Ha']].
      * cbn [rn_obj]. exact (inv_act_pool s I r0 rn0 Ha0).
      * exact (inv_act_pool s I r rn Ha').
    + intros r1 r2 rn1 rn2 Ha1 Ha2 E.
      destruct (active_upd _ s r0 (mkRun (rn_obj rn0) c) r1 rn1 Ha1 eq_refl) as [[-> ->]|[N1 Ha1']];
      destruct (active_upd _ s r0 (mkRun (rn_obj rn0) c) r2 rn2 Ha2 eq_refl) as [[-> ->]|[N2 Ha2']].
      * reflexivity.
      * cbn [rn_obj] in E. exact (inv_act_distinct s I r0 r2 rn0 rn2 Ha0 Ha2' E).
      * cbn [rn_obj] in E. exact (inv_act_distinct s I r1 r0 rn1 rn0 Ha1' Ha0 E).
      * exact (inv_act_distinct s I r1 r2 rn1 rn2 Ha1' Ha2' E).
  - (* LMark *)
    destruct (lookup r0 (s_runs s)) as [rn0|] eqn:Hr0; [|discriminate].
    destruct (ctl_can_mark (rn_ctl rn0)) eqn:Hm; cbn [negb]; [|discriminate].
    destruct (lookup (rn_obj rn0) (s_heap s)) as [ob|] eqn:Hob; [|discriminate].
    intros H. injection H as <-.
    constructor; cbn [s_pool s_heap s_runs].
    + exact (inv_nodup s I).
    + intros x Hx. apply lookup_upd_some. exact (inv_pool_heap s I x Hx).
    + intros r rn Ha. apply lookup_upd_some. exact (inv_act_heap s I r rn Ha).
    + intros r rn Ha. exact (inv_act_pool s I r rn Ha).
    + intros r1 r2 rn1 rn2 Ha1 Ha2 E. exact (inv_act_distinct s I r1 r2 rn1 rn2 Ha1 Ha2 E).
  - (* LExit *)
    destruct (lookup r0 (s_runs s)) as [rn0|] eqn:Hr0; [|discriminate].
    destruct (lookup (rn_obj rn0) (s_heap s)) as [ob|] eqn:Hob; [|discriminate].
    destruct (ctl_exit (rn_ctl rn0) ob e) as [c|] eqn:Hc; [|discriminate].
    destruct (ctl_exit_some _ _ _ _ Hc) as (Hd0 & _).
    assert (Ha0 : active s r0 rn0) by (split; assumption).
    cbn [pc_put_at_exit private_cfg andb]. intros H. injection H as <-.
    assert (Hpool : forall x, In x (if rc_done c then rn_obj rn0 :: s_pool s else s_pool s) ->
                              (rc_done c = true /\ x = rn_obj rn0) \/ In x (s_pool s)).
    { intros x. destruct (rc_done c); cbn [In]; intros Hx; [|right; exact Hx].
      destruct Hx as [<-|Hx]; [left; auto | right; exact Hx]. }
    constructor; cbn [s_pool s_heap s_runs].
    + destruct (rc_done c); [|exact (inv_nodup s I)].
      constructor; [exact (inv_act_pool s I r0 rn0 Ha0) | exact (inv_nodup s I)].
    + intros x Hx. destruct (Hpool x Hx) as [[_ ->]|Hin].
      * rewrite Hob. discriminate.
      * exact (inv_pool_heap s I x Hin).
    + intros r rn Ha. destruct (active_upd _ s r0 (mkRun (rn_obj rn0) c) r rn Ha eq_refl) as [[-> ->]|[N Ha']].
      * cbn [rn_obj]. rewrite Hob. discriminate.
      * exact (inv_act_heap s I r rn Ha').
    + intros r rn Ha Hx. destruct (active_upd _ s r0 (mkRun (rn_obj rn0) c) r rn Ha eq_refl) as [[-> ->]|[N Ha']].
      * destruct Ha as [_ Hd]. cbn [rn_ctl rn_obj] in *. destruct (Hpool _ Hx) as [[Hd' _]|Hin].
        -- congruence.
        -- exact (inv_act_pool s I r0 rn0 Ha0 Hin).
      * destruct (Hpool _ Hx) as [[_ E]|Hin].
        -- apply N. exact (inv_act_distinct s I r r0 rn rn0 Ha' Ha0 E).
        -- exact (inv_act_pool s I r rn Ha' Hin).
    + intros r1 r2 rn1 rn2 Ha1 Ha2 E.
      destruct (active_upd _ s r0 (mkRun (rn_obj rn0) c) r1 rn1 Ha1 eq_refl) as [[-> ->]|[N1 Ha1']];
      destruct (active_upd _ s r0 (mkRun (rn_obj rn0) c) r2 rn2 Ha2 eq_refl) as [[-> ->]|[N2 Ha2']].
      * reflexivity.
      * cbn [rn_obj] in E. exact (inv_act_distinct s I r0 r2 rn0 rn2 Ha0 Ha2' E).
      * cbn [rn_obj] in E. exact (inv_act_distinct s I r1 r0 rn1 rn0 Ha1' Ha0 E).
      * exact (inv_act_distinct s I r1 r2 rn1 rn2 Ha1' Ha2' E).
Qed.

Lemma inv_exec ls : forall s s', inv s -> exec private_cfg s ls = Some s' -> inv s'.
Proof.
  induction ls as [|l ls IH]; intros s s' I; cbn [exec].
  - intros H. injection H as <-. exact I.
  - destruct (step private_cfg s l) as [s1|] eqn:Hs; [|discriminate].
    intros H. exact (IH s1 s' (inv_step s l s1 I Hs) H).
Qed.

(* a run's state is not in the pool while the run is active, and nobody else holds it *)
Theorem pool_discipline ls s : exec private_cfg st0 ls = Some s ->
  forall r rn, lookup r (s_runs s) = Some rn -> rc_done (rn_ctl rn) = false ->
    ~ In (rn_obj rn) (s_pool s) /\
    lookup (rn_obj rn) (s_heap s) <> None /\
    (forall r' rn', lookup r' (s_runs s) = Some rn' -> rc_done (rn_ctl rn') = false -> r' <> r ->
       rn_obj rn' <> rn_obj rn).
Proof.
  intros He r rn Hl Hd. pose proof (inv_exec ls st0 s inv_st0 He) as I.
  assert (Ha : active s r rn) by (split; assumption).
  split; [exact (inv_act_pool s I r rn Ha)|]. split; [exact (inv_act_heap s I r rn Ha)|].
  intros r' rn' Hl' Hd' N E. apply N.
  exact (inv_act_distinct s I r' r rn' rn (conj Hl' Hd') Ha E).
Qed.

(* ------------------------------------------------------------------ refinement of the private-state specification *)

(* run r of the shared state [s] is the private run [i]: same locals, and while it has not
   returned its element holds exactly the private RequestState *)
Definition sim_run (s : st) (r : Z) (i : option iso_run) : Prop :=
  match lookup r (s_runs s) with
  | None => i = None
  | Some rn => exists ir, i = Some ir /\ ir_ctl ir = rn_ctl rn /\
                 (rc_done (rn_ctl rn) = false -> lookup (rn_obj rn) (s_heap s) = Some (ir_obj ir))
  end.

Lemma sim_step s l s' r i : inv s -> step private_cfg s l = Some s' -> sim_run s r i ->
  exists i', (if lab_run l =? r then iso_step i l = Some i' else i' = i) /\ sim_run s' r i'.
Proof.
  intros I. unfold sim_run.
  destruct l as [r0 o k | r0 k | r0 hp | r0 e]; cbn [step lab_run].
  - (* LStart *)
    destruct (lookup r0 (s_runs s)) eqn:Hr0; [discriminate|].
    destruct (pool_get s k) as [[ob pool]|] eqn:Hg; [|discriminate].
    destruct (pool_get_spec s k ob pool I Hg) as (_ & _ & _ & Hact).
    intros H. injection H as <-. cbn [s_runs s_heap].
    destruct (r0 =? r) eqn:E.
    + apply Z.eqb_eq in E. subst r0. rewrite Hr0. intros ->.
      eexists. split; [reflexivity|]. rewrite lookup_upd_same.
      eexists. split; [reflexivity|]. cbn [ir_ctl rn_ctl rn_obj ir_obj]. split; [reflexivity|].
      intros _. rewrite lookup_upd_same. reflexivity.
    + apply Z.eqb_neq in E. intros Hs. exists i. split; [reflexivity|].
      rewrite lookup_upd_other by congruence.
      destruct (lookup r (s_runs s)) as [rn|] eqn:Hr; [|exact Hs].
      destruct Hs as (ir & -> & Hc & Hh). exists ir. split; [reflexivity|]. split; [exact Hc|].
      intros Hd. rewrite lookup_upd_other; [exact (Hh Hd)|]. exact (Hact r rn (conj Hr Hd)).
  - (* LEnter *)
    destruct (lookup r0 (s_runs s)) as [rn0|] eqn:Hr0; [|discriminate].
    destruct (k =? rn_obj rn0) eqn:Ek; cbn [negb]; [|discriminate]. apply Z.eqb_eq in Ek. subst k.
    destruct (lookup (rn_obj rn0) (s_heap s)) as [ob|] eqn:Hob; [|discriminate].
    destruct (ctl_enter (rn_ctl rn0) (obj_inc ob)) as [c|] eqn:Hc; [|discriminate].
    destruct (ctl_enter_some _ _ _ Hc) as (Hd0 & _ & Hdc).
    intros H. injection H as <-. cbn [s_runs s_heap].
    destruct (r0 =? r) eqn:E.
    + apply Z.eqb_eq in E. subst r0. rewrite Hr0. intros (ir & -> & Hic & Hh).
      specialize (Hh Hd0). rewrite Hob in Hh. injection Hh as Hh.
      cbn [iso_step]. rewrite Hic, <- Hh, Hc.
      eexists. split; [reflexivity|]. rewrite lookup_upd_same.
      eexists. split; [reflexivity|]. cbn [ir_ctl rn_ctl rn_obj ir_obj]. split; [reflexivity|].
      intros _. rewrite lookup_upd_same. reflexivity.
    + apply Z.eqb_neq in E. intros Hs. exists i. split; [reflexivity|].
      rewrite lookup_upd_other by congruence.
      destruct (lookup r (s_runs s)) as [rn|] eqn:Hr; [|exact Hs].
      destruct Hs as (ir & -> & Hic & Hh). exists ir. split; [reflexivity|]. split; [exact Hic|].
      intros Hd. rewrite lookup_upd_other; [exact (Hh Hd)|].
      intros Eo. apply E. symmetry.
      exact (inv_act_distinct s I r r0 rn rn0 (conj Hr Hd) (conj Hr0 Hd0) Eo).
  - (* LMark *)
    destruct (lookup r0 (s_runs s)) as [rn0|] eqn:Hr0; [|discriminate].
    destruct (ctl_can_mark (rn_ctl rn0)) eqn:Hm; cbn [negb]; [|discriminate].
    pose proof (ctl_can_mark_true _ Hm) as Hd0.
    destruct (lookup (rn_obj rn0) (s_heap s)) as [ob|] eqn:Hob; [|discriminate].
    intros H. injection H as <-. cbn [s_runs s_heap].
    destruct (r0 =? r) eqn:E.
    + apply Z.eqb_eq in E. subst r0. rewrite Hr0. intros (ir & -> & Hic & Hh).
      specialize (Hh Hd0). rewrite Hob in Hh. injection Hh as Hh.
      cbn [iso_step]. rewrite Hic, Hm, <- Hh.
      eexists. split; [reflexivity|].
      eexists. split; [reflexivity|]. cbn [ir_ctl ir_obj]. split; [reflexivity|].
      intros _. rewrite lookup_upd_same. reflexivity.
    + apply Z.eqb_neq in E. intros Hs. exists i. split; [reflexivity|].
      destruct (lookup r (s_runs s)) as [rn|] eqn:Hr; [|exact Hs].
      destruct Hs as (ir & -> & Hic & Hh). exists ir. split; [reflexivity|]. split; [exact Hic|].
      intros Hd. rewrite lookup_upd_other; [exact (Hh Hd)|].
      intros Eo. apply E. symmetry.
      exact (inv_act_distinct s I r r0 rn rn0 (conj Hr Hd) (conj Hr0 Hd0) Eo).
  - (* LExit *)
    destruct (lookup r0 (s_runs s)) as [rn0|] eqn:Hr0; [|discriminate].
    destruct (lookup (rn_obj rn0) (s_heap s)) as [ob|] eqn:Hob; [|discriminate].
    destruct (ctl_exit (rn_ctl rn0) ob e) as [c|] eqn:Hc; [|discriminate].
    destruct (ctl_exit_some _ _ _ _ Hc) as (Hd0 & _).
    intros H. injection H as <-. cbn [s_runs s_heap].
    destruct (r0 =? r) eqn:E.
    + apply Z.eqb_eq in E. subst r0. rewrite Hr0. intros (ir & -> & Hic & Hh).
      specialize (Hh Hd0). rewrite Hob in Hh. injection Hh as Hh.
      cbn [iso_step]. rewrite Hic, <- Hh, Hc.
      eexists. split; [reflexivity|]. rewrite lookup_upd_same.
      eexists. split; [reflexivity|]. cbn [ir_ctl rn_ctl rn_obj ir_obj]. split; [reflexivity|].
      intros _. exact Hob.
    + apply Z.eqb_neq in E. intros Hs. exists i. split; [reflexivity|].
      rewrite lookup_upd_other by congruence. exact Hs.
Qed.

Lemma sim_exec r ls : forall s s' i, inv s -> exec private_cfg s ls = Some s' -> sim_run s r i ->
  exists i', iso_exec i (proj r ls) = Some i' /\ sim_run s' r i'.
Proof.
  induction ls as [|l ls IH]; intros s s' i I; cbn [exec proj filter].
  - intros H Hs. injection H as <-. exists i. split; [reflexivity | exact Hs].
  - destruct (step private_cfg s l) as [s1|] eqn:Hst; [|discriminate]. intros He Hs.
    destruct (sim_step s l s1 r i I Hst Hs) as (i1 & Hi1 & Hs1).
    pose proof (inv_step s l s1 I Hst) as I1.
    destruct (lab_run l =? r).
    + cbn [iso_exec]. rewrite Hi1. exact (IH s1 s' i1 I1 He Hs1).
    + subst i1. exact (IH s1 s' i I1 He Hs1).
Qed.

(* Whatever the interleaving with other runs (nested or concurrent, any number), run r goes
   through the states of a run that owns its RequestState, on its own labels alone. *)
Theorem runs_private ls s : exec private_cfg st0 ls = Some s ->
  forall r, exists i, iso_exec None (proj r ls) = Some i /\
    match lookup r (s_runs s) with
    | None => i = None
    | Some rn => exists ir, i = Some ir /\ ir_ctl ir = rn_ctl rn /\
                   (rc_done (rn_ctl rn) = false -> lookup (rn_obj rn) (s_heap s) = Some (ir_obj ir))
    end.
Proof.
  intros He r. exact (sim_exec r ls st0 s None inv_st0 He eq_refl).
Qed.

(* ------------------------------------------------------------------ one run alone = run_with_retry *)

(* second look of an attempt: its own marks are added to what it saw first *)
Definition exit_obs (f : attempt_fn) (a : attempt_obs) : attempt_obs :=
  {| ao_attempt := ao_attempt a; ao_seen := fold_left add_selected (snd (f (ao_attempt a) (ao_seen a))) (ao_seen a) |}.
Definition both_looks (f : attempt_fn) (log : list attempt_obs) : list attempt_obs :=
  flat_map (fun a => [a; exit_obs f a]) log.

Lemma iso_marks r added : forall ob c, ctl_can_mark c = true ->
  forall rest, iso_exec (Some (mkIso ob c)) (map (LMark r) added ++ rest) =
               iso_exec (Some (mkIso (mkObj (ro_attempt ob) (fold_left add_selected added (ro_sel ob))) c)) rest.
Proof.
  induction added as [|hp added IH]; intros ob c Hm rest; cbn [map app fold_left].
  - destruct ob. reflexivity.
  - cbn [iso_exec iso_step ir_ctl ir_obj]. rewrite Hm. rewrite (IH _ c Hm rest). reflexivity.
Qed.

Lemma both_looks_app f a b : both_looks f (a ++ b) = both_looks f a ++ both_looks f b.
Proof. unfold both_looks. apply flat_map_app. Qed.

Lemma one_attempt r k ron n attempt sel last LOG added e rest :
  iso_exec (Some (mkIso (mkObj attempt sel) (mkCtl (S n) ron last false false LOG)))
           (LEnter r k :: map (LMark r) added ++ LExit r e :: rest) =
  let sel' := fold_left add_selected added sel in
  let log' := LOG ++ [ {| ao_attempt := attempt + 1; ao_seen := sel |}; {| ao_attempt := attempt + 1; ao_seen := sel' |} ] in
  let ob' := mkObj (attempt + 1) sel' in
  if e_nil e then iso_exec (Some (mkIso ob' (mkCtl (S n) ron nil_err false true log'))) rest
  else if negb (CanRetry ron e) then iso_exec (Some (mkIso ob' (mkCtl (S n) ron e false true log'))) rest
  else match n with
       | S m => iso_exec (Some (mkIso ob' (mkCtl (S m) ron e false false log'))) rest
       | O => iso_exec (Some (mkIso ob' (mkCtl O ron e false true log'))) rest
       end.
Proof.
  cbn [iso_exec iso_step ir_obj ir_ctl]. unfold ctl_enter. cbn [rc_done rc_in orb obj_inc ro_attempt ro_sel rc_left rc_ron rc_last rc_log].
  rewrite iso_marks by reflexivity.
  cbn [iso_exec iso_step ir_obj ir_ctl ro_attempt ro_sel]. unfold ctl_exit.
  cbn [rc_done rc_in orb negb rc_left rc_ron rc_last rc_log obs_of ro_attempt ro_sel].
  rewrite <- app_assoc. cbn [app].
  destruct (e_nil e); [reflexivity|]. destruct (negb (CanRetry ron e)); [reflexivity|].
  destruct n; reflexivity.
Qed.

Lemma iso_exec_nil s : iso_exec s [] = Some s.
Proof. reflexivity. Qed.

Lemma script_iso r k ron outs : forall n attempt sel last llog,
  exists ir,
    iso_exec (Some (mkIso (mkObj attempt sel) (mkCtl (S n) ron last false false (both_looks (scripted outs) llog))))
             (script_labels r k (S n) ron attempt outs) = Some (Some ir) /\
    rc_done (ir_ctl ir) = true /\
    rc_last (ir_ctl ir) = fst (attempts (S n) attempt ron (scripted outs) sel last llog) /\
    rc_log (ir_ctl ir) = both_looks (scripted outs) (snd (attempts (S n) attempt ron (scripted outs) sel last llog)).
Proof.
  induction n as [|n IH]; intros attempt sel last llog.
  - cbn [script_labels attempts].
    destruct (scripted outs (attempt + 1) sel) as [e added] eqn:Hf.
    assert (Hf' : nth (Z.to_nat (attempt + 1 - 1)) outs (List.last outs (nil_err, [])) = (e, added)) by exact Hf.
    rewrite Hf'.
    assert (Hlog : both_looks (scripted outs) (llog ++ [{| ao_attempt := attempt + 1; ao_seen := sel |}]) =
                   both_looks (scripted outs) llog ++
                   [{| ao_attempt := attempt + 1; ao_seen := sel |};
                    {| ao_attempt := attempt + 1; ao_seen := fold_left add_selected added sel |}]).
    { rewrite both_looks_app. unfold both_looks at 2. cbn [flat_map app]. unfold exit_obs. cbn [ao_attempt ao_seen].
      rewrite Hf. reflexivity. }
    destruct (e_nil e) eqn:En; [|destruct (negb (CanRetry ron e)) eqn:Ec].
    + rewrite one_attempt. cbv zeta. rewrite En, iso_exec_nil. eexists. split; [reflexivity|].
      cbn [ir_ctl rc_done rc_last rc_log fst snd]. rewrite Hlog. auto.
    + rewrite one_attempt. cbv zeta. rewrite En, Ec, iso_exec_nil. eexists. split; [reflexivity|].
      cbn [ir_ctl rc_done rc_last rc_log fst snd]. rewrite Hlog. auto.
    + rewrite one_attempt. cbv zeta. rewrite En, Ec, iso_exec_nil. eexists. split; [reflexivity|].
      cbn [ir_ctl rc_done rc_last rc_log fst snd]. rewrite Hlog. auto.
  - cbn [script_labels attempts].
    destruct (scripted outs (attempt + 1) sel) as [e added] eqn:Hf.
    assert (Hf' : nth (Z.to_nat (attempt + 1 - 1)) outs (List.last outs (nil_err, [])) = (e, added)) by exact Hf.
    rewrite Hf'.
    assert (Hlog : both_looks (scripted outs) (llog ++ [{| ao_attempt := attempt + 1; ao_seen := sel |}]) =
                   both_looks (scripted outs) llog ++
                   [{| ao_attempt := attempt + 1; ao_seen := sel |};
                    {| ao_attempt := attempt + 1; ao_seen := fold_left add_selected added sel |}]).
    { rewrite both_looks_app. unfold both_looks at 2. cbn [flat_map app]. unfold exit_obs. cbn [ao_attempt ao_seen].
      rewrite Hf. reflexivity. }
    destruct (e_nil e) eqn:En; [|destruct (negb (CanRetry ron e)) eqn:Ec].
    + rewrite one_attempt. cbv zeta. rewrite En, iso_exec_nil. eexists. split; [reflexivity|].
      cbn [ir_ctl rc_done rc_last rc_log fst snd]. rewrite Hlog. auto.
    + rewrite one_attempt. cbv zeta. rewrite En, Ec, iso_exec_nil. eexists. split; [reflexivity|].
      cbn [ir_ctl rc_done rc_last rc_log fst snd]. rewrite Hlog. auto.
    + rewrite one_attempt. cbv zeta. rewrite En, Ec. rewrite <- Hlog.
      exact (IH (attempt + 1) (fold_left add_selected added sel) e (llog ++ [{| ao_attempt := attempt + 1; ao_seen := sel |}])).
Qed.

(* A run alone, on scripted outcomes, is run_with_retry of Model/Retry.v: same result, and its
   attempts see (first look) exactly what run_with_retry's attempts see. *)
Theorem run_labels_iso r k o outs : 0 < max_attempts (get_retry_options o) ->
  exists ir, iso_exec None (run_labels r k o outs) = Some (Some ir) /\
    rc_done (ir_ctl ir) = true /\
    rc_last (ir_ctl ir) = fst (run_with_retry o (scripted outs)) /\
    rc_log (ir_ctl ir) = both_looks (scripted outs) (snd (run_with_retry o (scripted outs))).
Proof.
  intros Hm. unfold run_labels, run_with_retry. cbn [iso_exec iso_step]. unfold ctl_start.
  destruct (Z.to_nat (max_attempts (get_retry_options o))) as [|n] eqn:En; [lia|].
  exact (script_iso r k (retry_on (get_retry_options o)) outs n 0 [] nil_err []).
Qed.

(* The two together: in ANY interleaving with other runs, a run whose own labels are those of
   the script returns what run_with_retry returns and its attempts see what they see there. *)
Theorem runs_compose ls s r k o outs : exec private_cfg st0 ls = Some s ->
  0 < max_attempts (get_retry_options o) ->
  proj r ls = run_labels r k o outs ->
  exists rn, lookup r (s_runs s) = Some rn /\
    rc_done (rn_ctl rn) = true /\
    rc_last (rn_ctl rn) = fst (run_with_retry o (scripted outs)) /\
    rc_log (rn_ctl rn) = both_looks (scripted outs) (snd (run_with_retry o (scripted outs))).
Proof.
  intros He Hm Hp. destruct (runs_private ls s He r) as (i & Hi & Hs).
  destruct (run_labels_iso r k o outs Hm) as (ir & Hir & Hd & Hl & Hg).
  rewrite Hp, Hir in Hi. injection Hi as <-.
  destruct (lookup r (s_runs s)) as [rn|]; [|discriminate].
  destruct Hs as (ir' & Hir' & Hc & _). injection Hir' as <-.
  exists rn. rewrite <- Hc. auto.
Qed.

(* ------------------------------------------------------------------ the discipline is needed *)

Definition busy_err : goerr := {| e_nil := false; e_sys := true; e_code := 3; e_net := false |}.

(* the Put not deferred: run 1's first attempt makes a nested run 2 (three attempts, one peer);
   run 1's second attempt finds attempt number 4 and run 2's peer *)
Definition nested_schedule : list label :=
  [ LStart 1 None 7; LEnter 1 7; LMark 1 [49];
      LStart 2 None 7; LEnter 2 7; LMark 2 [50]; LExit 2 busy_err; LEnter 2 7; LExit 2 busy_err;
      LEnter 2 7; LExit 2 nil_err;
    LExit 1 busy_err; LEnter 1 7; LExit 1 nil_err ].

Theorem not_deferred_refuted :
  exists s rn, exec (mkCfg false true true) st0 nested_schedule = Some s /\
    lookup 1 (s_runs s) = Some rn /\
    map ao_attempt (rc_log (rn_ctl rn)) = [1; 3; 4; 4] /\
    (* while the private run sees 1 1 2 2, and the deferred Put does not even let run 2 have the element *)
    (exists ir, iso_exec None (proj 1 nested_schedule) = Some (Some ir) /\
                map ao_attempt (rc_log (ir_ctl ir)) = [1; 1; 2; 2]) /\
    exec private_cfg st0 nested_schedule = None.
Proof.
  eexists. eexists. split; [vm_compute; reflexivity|]. split; [vm_compute; reflexivity|].
  split; [vm_compute; reflexivity|]. split; [|vm_compute; reflexivity].
  eexists. split; vm_compute; reflexivity.
Qed.

(* a getter that does not reset: run 2 starts after run 1 has returned, with the element run 1
   put back, and its FIRST attempt sees run 1's attempt count / peers *)
Definition sequential_schedule : list label :=
  [ LStart 1 None 7; LEnter 1 7; LMark 1 [49]; LExit 1 nil_err;
    LStart 2 None 7; LEnter 2 7; LExit 2 nil_err ].

Theorem no_reset_refuted :
  (exists s rn, exec (mkCfg true false true) st0 sequential_schedule = Some s /\
     lookup 2 (s_runs s) = Some rn /\ map ao_attempt (rc_log (rn_ctl rn)) = [2; 2]) /\
  (exists s rn, exec (mkCfg true true false) st0 sequential_schedule = Some s /\
     lookup 2 (s_runs s) = Some rn /\ map ao_seen (rc_log (rn_ctl rn)) = [[[49]; [49]]; [[49]; [49]]]) /\
  (exists s rn, exec private_cfg st0 sequential_schedule = Some s /\
     lookup 2 (s_runs s) = Some rn /\ map ao_attempt (rc_log (rn_ctl rn)) = [1; 1] /\
     map ao_seen (rc_log (rn_ctl rn)) = [[]; []]).
Proof.
  split; [|split]; eexists; eexists; repeat split; vm_compute; reflexivity.
Qed.
