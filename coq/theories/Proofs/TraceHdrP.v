(* Proofs about the tracing keys on the application-header map (Model/TraceHdr.v):
   what RemoveTracingKeys removes (in every iteration order), what InjectOutboundSpan adds,
   extract (inject m) = the application's own entries of m, the call path of Model/HdrSlot.v
   with the tracing layer in it, and the tie to the definitions regenerated from the source
   (Gen/GenTraceHdr.v). *)
From Coq Require Import ZArith List Bool Lia Permutation.
From Verif Require Import Base.Wrap Base.Wire Base.GoStrMap Gen.GenConsts Gen.GenTraceHdr
  Model.TypedBuf Model.Messages Model.Codecs Spec.HdrPath Model.HdrSlot Model.TraceHdr
  Proofs.CodecP Proofs.CodecsP Proofs.StrMapP Proofs.HdrSlotP.
Import ListNotations.
Local Open Scope Z_scope.

(* ---------------- keys ---------------- *)
Lemma reserved_encode k : reserved (encode_key k) = true.
Proof. apply str_has_prefix_app. Qed.

Lemma decode_encode k : decode_key (encode_key k) = Some k.
Proof. apply str_from_app. Qed.

(* on every key that passes the guard of ForeachKey the slice expression of the decoder is in range *)
Lemma decode_reserved k : reserved k = true -> exists r, k = encode_key r /\ decode_key k = Some r.
Proof.
  intros H. destruct (str_has_prefix_split tprefix k H) as [r ->]. exists r. split; [reflexivity | apply decode_encode].
Qed.

(* ---------------- mapAndCache ---------------- *)
(* every cached pair is a pair of the mapper *)
Definition cache_sound (mapper : list Z -> list Z) (cache : kvs) : Prop :=
  forall k v, hm_get cache k = (v, true) -> v = mapper k.

Lemma cache_sound_set mapper cache k : cache_sound mapper cache -> cache_sound mapper (hm_set cache k (mapper k)).
Proof.
  intros H k' v'. unfold hm_set. rewrite hm_get_insert. destruct (bytes_eqb k' k) eqn:E.
  - apply bytes_eqb_eq in E. subst k'. intros Hv. inversion Hv. reflexivity.
  - apply H.
Qed.

Theorem map_and_cache_spec mapper cache cache' key :
  cache_sound mapper cache -> cache_sound mapper cache' ->
  snd (map_and_cache mapper cache cache' key) = mapper key /\
  cache_sound mapper (fst (map_and_cache mapper cache cache' key)).
Proof.
  intros H1 H2. unfold map_and_cache.
  destruct (hm_get cache key) as [v ok] eqn:E1. destruct ok.
  - cbn [fst snd]. split; [apply H1, E1 | exact H1].
  - destruct (hm_get cache' key) as [v' ok'] eqn:E2. destruct ok'.
    + cbn [fst snd]. split; [apply H2, E2 | exact H2].
    + destruct (zlen cache' <? c_tracingKeyMappingSize); cbn [fst snd].
      * split; [reflexivity | apply cache_sound_set, H2].
      * split; [reflexivity | exact H2].
Qed.

(* ---------------- RemoveTracingKeys ---------------- *)
Lemma filter_filter {A} (f g : A -> bool) l : filter f (filter g l) = filter (fun x => g x && f x) l.
Proof.
  induction l as [|x l IH]; cbn [filter]; [reflexivity|].
  destruct (g x); cbn [filter andb]; [destruct (f x); rewrite IH; reflexivity | exact IH].
Qed.

Lemma bytes_eqb_sym a b : bytes_eqb a b = bytes_eqb b a.
Proof.
  destruct (bytes_eqb a b) eqn:E.
  - apply bytes_eqb_eq in E. subst b. symmetry. apply bytes_eqb_refl.
  - destruct (bytes_eqb b a) eqn:E2; [|reflexivity]. apply bytes_eqb_eq in E2. subst b.
    rewrite bytes_eqb_refl in E. discriminate.
Qed.

(* after visiting the keys of `order` exactly the reserved keys among them are gone *)
Lemma strip_in_spec order : forall c,
  strip_in order c = filter (fun kv => negb (reserved (fst kv) && existsb (bytes_eqb (fst kv)) order)) c.
Proof.
  induction order as [|key order IH]; intros c; cbn [strip_in fold_left existsb].
  - symmetry. rewrite <- (filter_ext (fun _ => true)).
    + induction c as [|x c IHc]; cbn [filter]; [reflexivity | f_equal; exact IHc].
    + intros kv. rewrite andb_false_r. reflexivity.
  - fold (strip_in order (strip_step c key)). rewrite IH. unfold strip_step.
    destruct (reserved key) eqn:R.
    + unfold hm_del. rewrite filter_filter. apply filter_ext. intros kv.
      rewrite (bytes_eqb_sym (fst kv) key).
      destruct (bytes_eqb key (fst kv)) eqn:E; cbn [negb andb orb]; [|reflexivity].
      apply bytes_eqb_eq in E. subst key. rewrite R. reflexivity.
    + apply filter_ext. intros kv.
      destruct (bytes_eqb (fst kv) key) eqn:E; cbn [orb]; [|reflexivity].
      apply bytes_eqb_eq in E. subst key. rewrite R. reflexivity.
Qed.

(* ... hence, in WHATEVER order the range loop visits the keys of the map (any list that
   contains them), what is left are exactly the entries whose key does not have the prefix *)
Theorem strip_any_order order c :
  (forall kv, In kv c -> In (fst kv) order) -> strip_in order c = filter app_key c.
Proof.
  intros H. rewrite strip_in_spec. apply filter_ext_in. intros kv Hin. unfold app_key.
  assert (E : existsb (bytes_eqb (fst kv)) order = true).
  { apply existsb_exists. exists (fst kv). split; [apply H, Hin | apply bytes_eqb_refl]. }
  rewrite E, andb_true_r. reflexivity.
Qed.

Theorem strip_spec c : strip c = filter app_key c.
Proof. apply strip_any_order. intros kv Hin. apply in_map, Hin. Qed.

Lemma extract_spec nonnil h : extract_inbound nonnil h = if nonnil then filter app_key h else h.
Proof. unfold extract_inbound. rewrite strip_spec. reflexivity. Qed.

(* ---------------- InjectOutboundSpan ---------------- *)
Lemma app_key_filter_eq l : filter app_key l = filter (fun kv => negb (reserved (fst kv))) l.
Proof. reflexivity. Qed.

Lemma inject_fold sets : forall acc, ksorted acc -> filter app_key acc = [] ->
  ksorted (fold_left (fun c kv => carrier_set c (fst kv) (snd kv)) sets acc) /\
  filter app_key (fold_left (fun c kv => carrier_set c (fst kv) (snd kv)) sets acc) = [].
Proof.
  induction sets as [|[k v] sets IH]; intros acc Hs Hf; cbn [fold_left fst snd]; [auto|].
  apply IH.
  - apply map_insert_sorted, Hs.
  - unfold carrier_set, hm_set. rewrite app_key_filter_eq.
    rewrite (filter_insert (fun k => negb (reserved k)) _ _ _ Hs). rewrite reserved_encode. exact Hf.
Qed.

Lemma inject_sets_sorted sets : ksorted (inject_sets sets).
Proof. apply inject_fold; [exact I | reflexivity]. Qed.
(* the tracer can only add keys with the prefix *)
Lemma inject_sets_reserved sets : filter app_key (inject_sets sets) = [].
Proof. apply inject_fold; [exact I | reflexivity]. Qed.

Lemma merge_step_sorted nh k v : ksorted nh -> ksorted (merge_step nh k v).
Proof. intros H. unfold merge_step. destruct (hm_mem nh k); [exact H | apply map_insert_sorted, H]. Qed.

Lemma merge_in_sorted order : forall nh, ksorted nh -> ksorted (merge_in order nh).
Proof.
  induction order as [|[k v] order IH]; intros nh H; cbn [merge_in fold_left]; [exact H|].
  apply IH, merge_step_sorted, H.
Qed.

Lemma filter_merge_step nh k v : ksorted nh ->
  filter app_key (merge_step nh k v) =
  if reserved k then filter app_key nh else merge_step (filter app_key nh) k v.
Proof.
  intros Hs. unfold merge_step at 1. destruct (hm_mem nh k) eqn:M.
  - destruct (reserved k) eqn:R; [reflexivity|].
    unfold merge_step, hm_mem. rewrite app_key_filter_eq.
    rewrite (hm_get_filter (fun k => negb (reserved k))); [|rewrite R; reflexivity].
    unfold hm_mem in M. rewrite M. reflexivity.
  - unfold hm_set. rewrite app_key_filter_eq.
    rewrite (filter_insert (fun k => negb (reserved k)) _ _ _ Hs).
    destruct (reserved k) eqn:R; cbn [negb]; [reflexivity|].
    unfold merge_step, hm_mem.
    rewrite (hm_get_filter (fun k => negb (reserved k))); [|rewrite R; reflexivity].
    unfold hm_mem in M. rewrite M. reflexivity.
Qed.

Lemma filter_merge_in order : forall nh, ksorted nh ->
  filter app_key (merge_in order nh) = merge_in (filter app_key order) (filter app_key nh).
Proof.
  induction order as [|[k v] order IH]; intros nh Hs; cbn [merge_in fold_left fst snd]; [reflexivity|].
  fold (merge_in order (merge_step nh k v)). rewrite (IH _ (merge_step_sorted nh k v Hs)).
  rewrite (filter_merge_step nh k v Hs). cbn [filter]. change (app_key (k, v)) with (negb (reserved k)).
  destruct (reserved k); cbn [negb]; reflexivity.
Qed.

Lemma merge_in_above l : forall acc, ksorted l -> (forall kv, In kv l -> all_lt acc (fst kv)) ->
  merge_in l acc = acc ++ l.
Proof.
  induction l as [|[k v] r IH]; intros acc Hs Hall; cbn [merge_in fold_left fst snd]; [rewrite app_nil_r; reflexivity|].
  fold (merge_in r (merge_step acc k v)).
  cbn [ksorted] in Hs. destruct Hs as [H1 H2].
  pose proof (Hall (k, v) (or_introl eq_refl)) as Hk. cbn [fst] in Hk.
  unfold merge_step. rewrite (hm_mem_all_lt acc k Hk). unfold hm_set. rewrite (map_insert_above k v acc Hk).
  rewrite IH; [rewrite <- app_assoc; reflexivity | exact H2 |].
  intros [k2 v2] Hin. cbn [fst]. apply all_lt_snoc; [exact Hk|].
  clear - H1 Hin. induction r as [|[k3 v3] r IH]; [destruct Hin|]. cbn [lt_all] in H1. destruct H1 as [Ha Hb].
  destruct Hin as [E|Hin]; [inversion E; subst; exact Ha | apply IH; assumption].
Qed.

Lemma merge_in_nil l : ksorted l -> merge_in l [] = l.
Proof. intros H. rewrite merge_in_above; [reflexivity | exact H | intros; constructor]. Qed.

Lemma inject_outbound_sorted has_span sets m : ksorted m -> ksorted (inject_outbound has_span sets m).
Proof.
  intros H. unfold inject_outbound, inject_outbound_in. destruct (negb has_span); [exact H|].
  destruct (zlen (inject_sets sets) =? 0); [exact H|]. apply merge_in_sorted, inject_sets_sorted.
Qed.

(* the application's own entries are untouched by the injection, whatever the tracer injects *)
Theorem inject_outbound_app has_span sets m : ksorted m ->
  filter app_key (inject_outbound has_span sets m) = filter app_key m.
Proof.
  intros H. unfold inject_outbound, inject_outbound_in. destruct (negb has_span); [reflexivity|].
  destruct (zlen (inject_sets sets) =? 0); [reflexivity|].
  rewrite (filter_merge_in m _ (inject_sets_sorted sets)), inject_sets_reserved.
  apply merge_in_nil, ksorted_filter, H.
Qed.

(* ---------------- the merge loop in any iteration order ---------------- *)
Lemma hm_get_miss l k : snd (hm_get l k) = false -> hm_get l k = ([], false).
Proof.
  induction l as [|[k2 v2] r IH]; cbn [hm_get]; [reflexivity|].
  destruct (bytes_eqb k k2); [cbn [snd]; discriminate | exact IH].
Qed.

Lemma hm_get_merge_step nh k v k' :
  hm_get (merge_step nh k v) k' =
  if bytes_eqb k' k then (if hm_mem nh k then hm_get nh k else (v, true)) else hm_get nh k'.
Proof.
  unfold merge_step. destruct (hm_mem nh k) eqn:M.
  - destruct (bytes_eqb k' k) eqn:E; [|reflexivity]. apply bytes_eqb_eq in E. subst k'. reflexivity.
  - unfold hm_set. apply hm_get_insert.
Qed.

(* newHeaders after the loop: its own entries, then the FIRST binding of every other key *)
Lemma hm_get_merge_in order : forall nh k',
  hm_get (merge_in order nh) k' = if hm_mem nh k' then hm_get nh k' else hm_get order k'.
Proof.
  induction order as [|[k v] order IH]; intros nh k'; cbn [merge_in fold_left fst snd].
  - unfold hm_mem. destruct (snd (hm_get nh k')) eqn:M; [reflexivity | apply hm_get_miss, M].
  - fold (merge_in order (merge_step nh k v)). rewrite IH. unfold hm_mem. rewrite hm_get_merge_step.
    cbn [hm_get]. destruct (bytes_eqb k' k) eqn:E.
    + apply bytes_eqb_eq in E. subst k'. fold (hm_mem nh k). destruct (hm_mem nh k) eqn:M.
      * unfold hm_mem in M. rewrite M. reflexivity.
      * reflexivity.
    + reflexivity.
Qed.

(* Go ranges over `headers` in an unspecified order: the result is the same for every order *)
Theorem merge_in_any_order order m nh : ksorted m -> ksorted nh -> Permutation order m ->
  merge_in order nh = merge_in m nh.
Proof.
  intros Hm Hn Hp. apply ksorted_ext; [apply merge_in_sorted, Hn | apply merge_in_sorted, Hn|].
  intros k. rewrite !hm_get_merge_in. rewrite (hm_get_perm m order k (ksorted_nodup m Hm) Hp). reflexivity.
Qed.

Theorem inject_outbound_any_order order has_span sets m : ksorted m -> Permutation order m ->
  inject_outbound_in order has_span sets m = inject_outbound has_span sets m.
Proof.
  intros Hm Hp. unfold inject_outbound, inject_outbound_in. destruct (negb has_span); [reflexivity|].
  destruct (zlen (inject_sets sets) =? 0); [reflexivity|].
  apply merge_in_any_order; [exact Hm | apply inject_sets_sorted | exact Hp].
Qed.

(* ---------------- extract after inject ---------------- *)
(* THE statement about the request path: whatever the caller's tracer injects (has_span, sets) and
   whatever happens in the callee's tracer (it does not occur), the map the handler's context is
   built from is the caller's map without the entries whose key has the transport prefix.
   nonnil: is the decoded map non-nil (it can only be nil when it is empty). *)
Theorem extract_inject has_span sets nonnil m : ksorted m ->
  (nonnil = false -> inject_outbound has_span sets m = []) ->
  extract_inbound nonnil (inject_outbound has_span sets m) = filter app_key m.
Proof.
  intros Hs Hn. rewrite extract_spec. destruct nonnil.
  - apply inject_outbound_app, Hs.
  - rewrite <- (inject_outbound_app has_span sets m Hs). rewrite (Hn eq_refl). reflexivity.
Qed.

Definition no_reserved (m : kvs) : Prop := forallb app_key m = true.

Lemma filter_all {A} (f : A -> bool) l : forallb f l = true -> filter f l = l.
Proof.
  induction l as [|x l IH]; cbn [forallb filter]; [reflexivity|].
  intros H. apply andb_true_iff in H. destruct H as [H1 H2]. rewrite H1, (IH H2). reflexivity.
Qed.

(* application headers without the prefix reach the handler EXACTLY *)
Theorem extract_inject_exact has_span sets nonnil m : ksorted m -> no_reserved m ->
  (nonnil = false -> inject_outbound has_span sets m = []) ->
  extract_inbound nonnil (inject_outbound has_span sets m) = m.
Proof. intros Hs Hr Hn. rewrite (extract_inject _ _ _ _ Hs Hn). apply filter_all, Hr. Qed.

(* the exception (known finding c18:reserved-tracing-prefix): an APPLICATION header whose key
   starts with the prefix never reaches the handler -- even when no tracer is configured on
   either side *)
Theorem extract_inject_reserved_refuted :
  exists m, ksorted m /\ kvs16_ok m /\
    extract_inbound true (inject_outbound true [] m) <> m.
Proof.
  exists [(c_tracingKeyPrefix ++ [120], [49])]. split; [cbn; auto|]. split.
  - split; [cbn; lia | repeat constructor; vm_compute; discriminate].
  - vm_compute. discriminate.
Qed.

(* ---------------- the call path of Model/HdrSlot.v with the tracing layer ---------------- *)
Lemma hmap_ok_sorted h : hmap_ok h -> ksorted h.
Proof. intros [_ H]. apply canon_fix_sorted, H. Qed.

Lemma extract_nil nn : extract_inbound nn [] = [].
Proof. destruct nn; reflexivity. Qed.

(* thrift: within the size limits (they now include the injected entries) the handler sees the
   application's own entries *)
Theorem seen_thrift_spec t h : ksorted h ->
  kvs16_ok (inject_outbound (t_span t) (t_sets t) h) ->
  seen_thrift t h = Some (filter app_key h).
Proof.
  intros Hs Hk. unfold seen_thrift.
  assert (Hok : hmap_ok (inject_outbound (t_span t) (t_sets t) h)).
  { split; [exact Hk | apply canon_map_fix, inject_outbound_sorted, Hs]. }
  rewrite (thrift_wire_ok _ Hok). f_equal. apply extract_inject; [exact Hs|].
  intros E. apply negb_false_iff in E. destruct (inject_outbound (t_span t) (t_sets t) h); [reflexivity | discriminate].
Qed.

Theorem seen_json_spec t nonnil h : ksorted h ->
  (nonnil = false -> inject_outbound (t_span t) (t_sets t) h = []) ->
  seen_json t nonnil h = filter app_key h.
Proof. intros Hs Hn. unfold seen_json. apply extract_inject; assumption. Qed.

(* tracing is transparent for the header path: with ANY tracer configuration a call does to the
   context and shows to the handler what Model/HdrSlot.v (proved to observe Spec/HdrPath.v) says *)
Theorem do_call_tr_transparent t nonnil c kind outcome resp :
  hmap_ok (s_req c) -> no_reserved (s_req c) ->
  kvs16_ok (inject_outbound (t_span t) (t_sets t) (s_req c)) ->
  (nonnil = false -> inject_outbound (t_span t) (t_sets t) (s_req c) = []) ->
  do_call_tr t nonnil c kind outcome resp = do_call c kind outcome resp.
Proof.
  intros Hok Hr Hk Hn. pose proof (hmap_ok_sorted _ Hok) as Hs.
  unfold do_call_tr, do_call. destruct (kind =? 0).
  - unfold call_thrift_tr, call_thrift, ctx_headers.
    rewrite (seen_thrift_spec t (s_req c) Hs Hk), (filter_all _ _ Hr), (thrift_wire_ok _ Hok). reflexivity.
  - unfold call_json_tr, call_json, ctx_headers.
    rewrite (seen_json_spec t nonnil (s_req c) Hs Hn), (filter_all _ _ Hr). reflexivity.
Qed.

(* ---------------- the harness entry point is the specification ---------------- *)
Theorem run_tracehdr_spec c kind hs sets m r1 r2 r3 r4 :
  take1 c = (kind, r1) -> take1 r1 = (hs, r2) ->
  take_list take_kv r2 = (sets, r3) -> take_list take_kv r3 = (m, r4) ->
  ksorted m -> kvs16_ok (inject_outbound (bz hs) sets m) ->
  run_tracehdr c = put_list put_kv (filter app_key m).
Proof.
  intros E1 E2 E3 E4 Hs Hk. unfold run_tracehdr. rewrite E1, E2, E3, E4.
  destruct (kind =? 0).
  - rewrite (seen_thrift_spec (mkT (bz hs) sets false false) m Hs Hk). reflexivity.
  - rewrite seen_json_spec; [reflexivity | exact Hs |].
    cbn [t_span t_sets]. intros E. apply negb_false_iff in E.
    destruct (inject_outbound (bz hs) sets m); [reflexivity | discriminate].
Qed.

(* ---------------- the regenerated pieces ---------------- *)
Lemma merge_step_gen nh k v : injectMergeStep nh k v = merge_step nh k v.
Proof. unfold injectMergeStep, merge_step. destruct (hm_mem nh k); reflexivity. Qed.

Lemma merge_fold_gen order : forall nh,
  fold_left (fun nh kv => injectMergeStep nh (fst kv) (snd kv)) order nh = merge_in order nh.
Proof.
  induction order as [|kv order IH]; intros nh; cbn [fold_left merge_in]; [reflexivity|].
  rewrite merge_step_gen. apply IH.
Qed.

Theorem tracehdr_generated :
  (forall k, traceEncodeKey k = encode_key k) /\
  (forall k, traceDecodeKey k = decode_key k) /\
  (forall mapper cache cache' key,
     match mapAndCacheFast cache key with
     | Some v => (cache, v)
     | None => mapAndCacheSlow mapper cache' key
     end = map_and_cache mapper cache cache' key) /\
  (forall c k v, carrierSet c k v = carrier_set c k v) /\
  (forall c key, removeKeyStep c key = strip_step c key) /\
  (forall k, foreachKeyVisits k = foreach_visits k) /\
  (forall order has_span sets headers,
     match injectHead has_span sets headers with
     | inl r => r
     | inr nh => injectTail headers (fold_left (fun nh kv => injectMergeStep nh (fst kv) (snd kv)) order nh)
     end = inject_outbound_in order has_span sets headers) /\
  (forall (strip' : kvs -> kvs) has_span nonnil extract_ok h,
     extractInboundHeaders strip' has_span nonnil extract_ok h = if nonnil then strip' h else h) /\
  (forall has_span nonnil extract_ok h,
     extractInboundHeaders strip has_span nonnil extract_ok h = extract_inbound nonnil h) /\
  (forall (inj : kvs -> kvs) h, thriftWrittenHeaders inj h = inj h) /\
  (forall (inj : kvs -> kvs) is_map h, jsonWrittenHeaders inj is_map h = if is_map then inj h else h) /\
  (forall (ex : kvs -> kvs) h, thriftHandlerHeaders ex h = ex h) /\
  (forall (ex : kvs -> kvs) h, jsonHandlerHeaders ex h = ex h).
Proof.
  split; [intros k; reflexivity|].
  split; [intros k; reflexivity|].
  split.
  { intros mapper cache cache' key. unfold mapAndCacheFast, mapAndCacheSlow, map_and_cache.
    destruct (hm_get cache key) as [v ok]. destruct ok; [reflexivity|].
    destruct (hm_get cache' key) as [v' ok']. destruct ok'; [reflexivity|].
    destruct (zlen cache' <? c_tracingKeyMappingSize); reflexivity. }
  split; [intros c k v; reflexivity|].
  split; [intros c key; reflexivity|].
  split; [intros k; unfold foreachKeyVisits, foreach_visits, reserved; destruct (str_has_prefix k tprefix) eqn:E; unfold tprefix in E; unfold c_tracingKeyPrefix in E; rewrite E; reflexivity|].
  split.
  { intros order has_span sets headers. unfold injectHead, inject_outbound_in, injectTail.
    destruct has_span; cbn [negb]; [|reflexivity].
    change (fold_left (fun c kv => carrierSet c (fst kv) (snd kv)) sets []) with (inject_sets sets).
    destruct (zlen (inject_sets sets) =? 0); [reflexivity | apply merge_fold_gen]. }
  split; [intros strip' has_span nonnil extract_ok h; destruct has_span, nonnil, extract_ok; reflexivity|].
  split; [intros has_span nonnil extract_ok h; destruct has_span, nonnil, extract_ok; reflexivity|].
  split; [intros inj h; reflexivity|].
  split; [intros inj is_map h; destruct is_map; reflexivity|].
  split; intros ex h; reflexivity.
Qed.
