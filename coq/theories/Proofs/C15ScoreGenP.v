(* Property C15: the steps of Model/C15Score.v are the statement structure / lock regions that
   go2v regenerates from channel.go, subchannel.go and peer.go on every run (Gen/GenC15Score.v). *)
From Coq Require Import ZArith List Bool Arith String.
From Verif Require Import Base.Wrap Base.GoMap Spec.C15ScoreSpec Gen.GenC15Score Gen.GenC15ScoreFn Model.PeerList Model.C15Score.
Import ListNotations.
Local Open Scope Z_scope.

(* ---------------------------------------------------------------- channel functions *)

(* Channel.connectionCloseStateChange, from `ch.removeClosedConn(c)` to `chState := ch.State()`:
   the peer of the announced host:port and -- for an alias connection -- the peer of the dialled
   one each lose the connection and are then passed to updatePeer *)
Lemma close_tie c ann dial :
  compiled c15prog_addToPeer (env_of c false ann dial [] true) c15prog_close = Some (prog_close c ann dial).
Proof. unfold env_of, prog_close. destruct (alias_of ann dial), (is_nil ann); reflexivity. Qed.

(* Channel.connectionActive (+ addConnectionToPeer inlined) for an admitted connection *)
Lemma active_tie c inb ann dial :
  compiled c15prog_addToPeer (env_of c inb ann dial [] true) c15prog_active = Some (add_to_peer c ann inb).
Proof. unfold env_of. destruct (alias_of ann dial), (is_nil ann), (bytes_eqb [] ann); reflexivity. Qed.

(* ... and for one the channel refused (it is closed, no peer hears of it) *)
Lemma active_refused_tie c inb ann dial :
  compiled c15prog_addToPeer (env_of c inb ann dial [] false) c15prog_active = Some [].
Proof. unfold env_of. destruct (alias_of ann dial), (is_nil ann), (bytes_eqb [] ann); reflexivity. Qed.

(* the tail of Channel.Connect(hostPort): the connection is also added to the peer of the dialled
   host:port when the remote announced another one *)
Lemma connect_tail_tie c ann dial :
  compiled c15prog_addToPeer (env_of c false ann dial dial true) c15prog_connectTail =
    Some (if negb (bytes_eqb dial ann) then add_to_peer c dial false else []).
Proof. unfold env_of. destruct (alias_of ann dial), (is_nil ann), (bytes_eqb dial ann); reflexivity. Qed.

Lemma connect_tie c ann dial :
  exists p1 p2,
    compiled c15prog_addToPeer (env_of c false ann dial [] true) c15prog_active = Some p1 /\
    compiled c15prog_addToPeer (env_of c false ann dial dial true) c15prog_connectTail = Some p2 /\
    prog_connect c ann dial = p1 ++ p2.
Proof.
  eexists; eexists. split; [apply active_tie|]. split; [apply connect_tail_tie|]. reflexivity.
Qed.

(* Channel.exchangeUpdated *)
Lemma exch_tie c ann dial :
  compiled c15prog_addToPeer (env_of c false ann dial [] true) c15prog_exch = Some (exch_updated ann dial).
Proof. unfold env_of, exch_updated. destruct (alias_of ann dial), (is_nil ann), (bytes_eqb [] ann); reflexivity. Qed.

(* Channel.updatePeer visits the channel's own list, then subChannelMap.updatePeer every isolated
   sub-channel's list: BUpd 0, 1, ..., n of the model *)
Lemma update_peer_tie :
  c15prog_updatePeer = [CCall 7 4; CCall 8 4] /\ c15prog_subUpdate = [CLoop [CIf 7 0 [CCall 9 4] []]].
Proof. split; reflexivity. Qed.

(* ---------------------------------------------------------------- PeerList functions *)

Lemma regions_tie :
  c15reg_listAdd = reg_add /\ c15reg_listExists = reg_exists /\
  c15reg_onPeerChange = reg_on_peer_change /\ c15reg_getPeerScore = reg_get_peer_score /\
  c15reg_setStrategy = reg_set_strategy /\ c15reg_listUpdatePeer = reg_list_update_peer /\
  c15reg_listRemove = reg_remove.
Proof. repeat split; reflexivity. Qed.

(* every GetScore, every use of its result, every store of a score or of the calculator happens
   with the list's write lock held (PeerList.updatePeer and getPeerScore run under their callers' lock) *)
Lemma regions_safe :
  forallb region_safe [c15reg_listAdd; c15reg_listExists; c15reg_onPeerChange; c15reg_setStrategy; c15reg_listRemove] = true.
Proof. reflexivity. Qed.

(* the DATA PATH of a score inside those regions (Gen/GenC15ScoreFn.v; host:ports and peers as names):
   PeerList.updatePeer leaves the entry with the new score whatever the old one was; the locked
   region of Add stores, under the host:port, the score GetScore gives the peer the ROOT list
   returned, computed in that region; the locked region of onPeerChange stores GetScore of the
   entry's own peer iff the entry (still) exists -- what AAddLocked / AResUpd hand to pl_add / pl_update *)
Lemma update_score_tie score new : c15listUpdateScore score new = new.
Proof. unfold c15listUpdateScore. destruct (score =? new) eqn:E; [apply Z.eqb_eq in E; congruence|reflexivity]. Qed.

Lemma add_scores_tie scores get_score hp p :
  c15listAddScores scores get_score hp p = (gmap_set scores hp (get_score p), p).
Proof. reflexivity. Qed.

Lemma rescore_tie scores get_score hp :
  c15listRescore scores get_score hp =
    if snd (gmap_get scores hp) then gmap_set scores hp (get_score hp) else scores.
Proof. unfold c15listRescore. rewrite update_score_tie. reflexivity. Qed.

(* ---------------------------------------------------------------- census *)
Local Open Scope string_scope.

(* the functions of the package that change a peer's connection lists, compute / store a score or
   call Channel.updatePeer / PeerList.onPeerChange: all of them are modelled above
   (Peer.addConnection = AConnAdd, Peer.connectionCloseStateChange = AConnDrop; Channel.Connect and
   Channel.serve install the callbacks OnActive / OnCloseStateChange / OnExchangeUpdated) *)
Definition census_expected : list censusrow :=
  [("Channel.Connect", 47); ("Channel.addConnectionToPeer", 40); ("Channel.addConnectionToPeer", 42);
   ("Channel.connectionCloseStateChange", 40); ("Channel.connectionCloseStateChange", 43);
   ("Channel.exchangeUpdated", 40); ("Channel.serve", 47); ("Channel.updatePeer", 41); ("Channel.updatePeer", 46);
   ("Peer.addConnection", 48); ("Peer.connectionCloseStateChange", 44); ("Peer.connectionCloseStateChange", 45);
   ("Peer.connectionsFor", 45); ("PeerList.Add", 20); ("PeerList.SetStrategy", 20); ("PeerList.SetStrategy", 24);
   ("PeerList.onPeerChange", 20); ("PeerList.onPeerChange", 24); ("PeerList.updatePeer", 32); ("PeerList.updatePeer", 33);
   ("subChannelMap.updatePeer", 41)].

Lemma census_tie : c15_census = census_expected.
Proof. reflexivity. Qed.
