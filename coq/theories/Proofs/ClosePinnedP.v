(* C07: the flag-parameterised close models (Model/ClosePinned.v).
   1. [*_v false] are the repaired step functions, so every C07 theorem is a theorem about [*_v false].
   2. [*_v true] (the pinned tree) refutes three clauses, each with a concrete schedule. *)
From Coq Require Import ZArith List Bool Lia.
From Verif Require Import Base.Wrap Gen.GenConsts Model.CloseKernel Model.ConnClose Model.ChanClose
  Model.ClosePinned Proofs.ConnCloseP Proofs.ChanCloseP.
Import ListNotations.
Local Open Scope Z_scope.

(* ---------- the flag set to false is the repaired model ---------- *)

Lemma tstep_v_false : forall s n p, tstep_v false s n p = tstep s n p.
Proof. intros s n p. destruct p; reflexivity. Qed.

Lemma step_v_false : forall s l, step_v false s l = ConnClose.step s l.
Proof.
  intros s l. destruct l as [k|tid]; cbn [step_v ConnClose.step]; [reflexivity|].
  destruct (nth_error (thr s) tid) as [p|]; [|reflexivity]. rewrite tstep_v_false. reflexivity.
Qed.

Lemma ctstep_v_false : forall s p arg, ctstep_v false s p arg = ctstep s p arg.
Proof. intros s p arg. destruct p; reflexivity. Qed.

Lemma cstep_v_false : forall s l, cstep_v false s l = cstep s l.
Proof.
  intros s l. destruct l; cbn [cstep_v cstep]; try reflexivity.
  destruct (nth_error (cthr s) tid) as [p|]; [|reflexivity]. rewrite ctstep_v_false. reflexivity.
Qed.

Lemma run_ext : forall (St Lbl : Type) (f g : St -> Lbl -> option St),
  (forall s l, f s l = g s l) -> forall ls o,
  fold_left (fun o l => match o with Some s' => f s' l | None => None end) ls o =
  fold_left (fun o l => match o with Some s' => g s' l | None => None end) ls o.
Proof.
  intros St Lbl f g H ls. induction ls as [|l r IH]; intros o; cbn [fold_left]; [reflexivity|].
  rewrite IH. destruct o as [s|]; [rewrite H|]; reflexivity.
Qed.

Lemma pinned_false_is_repaired :
  (forall s ls, run (step_v false) s ls = run ConnClose.step s ls) /\
  (forall s ls, run (cstep_v false) s ls = run cstep s ls) /\
  (forall relay s, Reach (step_v false) (ConnClose.init relay) s <-> Reach ConnClose.step (ConnClose.init relay) s) /\
  (forall s, Reach (cstep_v false) cinit s <-> Reach cstep cinit s).
Proof.
  assert (H1 : forall s ls, run (step_v false) s ls = run ConnClose.step s ls)
    by (intros s ls; unfold run; apply run_ext; exact step_v_false).
  assert (H2 : forall s ls, run (cstep_v false) s ls = run cstep s ls)
    by (intros s ls; unfold run; apply run_ext; exact cstep_v_false).
  split; [exact H1|]. split; [exact H2|]. split.
  - intros relay s. unfold Reach. split; intros [ls H]; exists ls; [rewrite <- H1|rewrite H1]; exact H.
  - intros s. unfold Reach. split; intros [ls H]; exists ls; [rewrite <- H2|rewrite H2]; exact H.
Qed.

(* ---------- (a) pinned Channel.Close moves the state backwards ---------- *)

(* listen; connection 0 is added; Close #1: StartClose, closes connection 0 (-> StartClose); its
   callback sees nothing to do; the connection drains its inbound calls (-> InboundClosed); the
   callback moves the channel to InboundClosed. *)
Definition pinned_mono_prefix : list clabel :=
  [LListen; LNewConn; LRunC 0 0; LClose; LRunC 1 0; LRunC 1 0; LRunC 1 0;
   LCallback 0; LRunC 2 0; LRunC 2 0; LRunC 2 0; LRunC 2 2;
   LConnMove 0 3; LCallback 0; LRunC 3 0; LRunC 3 0; LRunC 3 0; LRunC 3 3; LRunC 3 0].
(* Close #2, its locked region *)
Definition pinned_mono_suffix : list clabel := [LClose; LRunC 4 0].

Lemma chan_monotone_pinned_refuted : exists s1 s2,
  run (cstep_v true) cinit pinned_mono_prefix = Some s1 /\
  run (cstep_v true) s1 pinned_mono_suffix = Some s2 /\
  chst (csh s1) = hIC /\ chst (csh s2) = hSC /\ chst (csh s2) < chst (csh s1).
Proof.
  eexists. eexists. split; [vm_compute; reflexivity|]. split; [vm_compute; reflexivity|].
  vm_compute. repeat split.
Qed.

(* the repaired model on the same schedule stays at InboundClosed *)
Lemma chan_monotone_witness_repaired : exists s2,
  run (cstep_v false) cinit (pinned_mono_prefix ++ pinned_mono_suffix) = Some s2 /\ chst (csh s2) = hIC.
Proof. eexists. split; vm_compute; reflexivity. Qed.

(* ---------- (b) pinned handleCallReq drops the racing request without a reply ---------- *)

(* call 7 is dispatched (it keeps the connection open); the frame of call 5 passes the first state
   check and registers its exchange; Close; call 5's re-check fails: exchange shut down,
   checkExchanges finds call 7, the handler of the frame returns. *)
Definition pinned_refuse_witness : list label :=
  [LSpawn (TReader 7); LRun 0; LRun 0; LRun 0;
   LSpawn (TReader 5); LRun 1; LRun 1;
   LSpawn TCloser; LRun 2; LRun 2; LRun 2; LRun 2; LRun 2; LRun 2;
   LRun 1; LRun 1; LRun 1; LRun 1; LRun 1; LRun 1].

Lemma refuse_pinned_refuted : exists s,
  run (step_v true) (ConnClose.init false) pinned_refuse_witness = Some s /\
  nth_error (thr s) 1 = Some (PDone oRefused2 5) /\
  ~ answered (sh s) 1 5 eDeclined /\
  g_replies (sh s) = [] /\ st (sh s) = sSC /\ inb (sh s) = [(7, true)].
Proof.
  eexists. split; [vm_compute; reflexivity|]. split; [vm_compute; reflexivity|]. split.
  - unfold answered. vm_compute. intros [H|[_ H]]; discriminate.
  - vm_compute. repeat split.
Qed.

(* the repaired model on the same schedule + the extra SendSystemError step answers (5, Declined) *)
Lemma refuse_witness_repaired : exists s,
  run (step_v false) (ConnClose.init false) (pinned_refuse_witness ++ [LRun 1]) = Some s /\
  nth_error (thr s) 1 = Some (PDone oRefused2 5) /\ g_replies (sh s) = [(1%nat, 5, eDeclined)].
Proof. eexists. split; [vm_compute; reflexivity|]. split; vm_compute; reflexivity. Qed.

(* ---------- (c) pinned connectionCloseStateChange loses the transition to Closed ---------- *)

(* listen; connection 0 added; Close (StartClose; connection 0 -> StartClose), its callback does
   nothing.  The connection reaches InboundClosed: callback A reads chState = StartClose, scans
   min = InboundClosed, computes updateTo = InboundClosed and is about to take the lock.  The
   connection reaches Closed: callback B removes it, reads chState = StartClose, scans min = Closed
   (no connections), computes updateTo = Closed.  A applies its update (InboundClosed).  B finds
   state <> chState and drops its update.  No thread is left, one callback ran per state change. *)
Definition pinned_stuck_witness : list clabel :=
  [LListen; LNewConn; LRunC 0 0; LClose; LRunC 1 0; LRunC 1 0; LRunC 1 0;
   LCallback 0; LRunC 2 0; LRunC 2 0; LRunC 2 0; LRunC 2 2;
   LConnMove 0 3; LCallback 0; LRunC 3 0; LRunC 3 0; LRunC 3 0; LRunC 3 3;
   LConnMove 0 4; LCallback 0; LRunC 4 0; LRunC 4 0; LRunC 4 0; LRunC 4 0; LRunC 4 4;
   LRunC 3 0; LRunC 4 0].

Lemma chan_reaches_closed_pinned_refuted : exists s,
  run (cstep_v true) cinit pinned_stuck_witness = Some s /\
  hSC <= chst (csh s) /\
  (forall c, In c (conns (csh s)) -> cstate (csh s) c = kCl) /\
  g_owed (csh s) = [] /\
  (forall n p, nth_error (cthr s) n = Some p -> exists o, p = CDone o) /\
  chst (csh s) = hIC /\ chst (csh s) <> hCl /\ g_closed (csh s) = 0.
Proof.
  eexists. split; [vm_compute; reflexivity|].
  split; [vm_compute; discriminate|].
  split; [vm_compute; intros c []|].
  split; [vm_compute; reflexivity|].
  split.
  - intros n p H. vm_compute in H.
    do 5 (destruct n as [|n]; [inversion H; eexists; reflexivity|]).
    destruct n; discriminate H.
  - vm_compute. repeat split. discriminate.
Qed.

Lemma stuck_witness_repaired : exists s,
  run (cstep_v false) cinit pinned_stuck_witness = Some s /\ chst (csh s) = hCl.
Proof. eexists. split; vm_compute; reflexivity. Qed.

(* ---------- the three refutations in the shape of the negated C07 clauses ---------- *)

Lemma chan_monotone_pinned_refuted_ex : exists ls1 ls2 s1 s2,
  run (cstep_v true) cinit ls1 = Some s1 /\ run (cstep_v true) s1 ls2 = Some s2 /\
  ~ (chst (csh s1) <= chst (csh s2)) /\ chst (csh s1) = hIC /\ chst (csh s2) = hSC.
Proof.
  destruct chan_monotone_pinned_refuted as (s1 & s2 & H1 & H2 & E1 & E2 & Hlt).
  exists pinned_mono_prefix, pinned_mono_suffix, s1, s2.
  split; [exact H1|]. split; [exact H2|]. split; [lia|]. split; assumption.
Qed.

Lemma refuse_pinned_refuted_ex : exists relay s n id,
  Reach (step_v true) (ConnClose.init relay) s /\
  nth_error (thr s) n = Some (PDone oRefused2 id) /\
  ~ answered (sh s) n id eDeclined /\
  g_replies (sh s) = [] /\ st (sh s) = sSC.
Proof.
  destruct refuse_pinned_refuted as (s & H & Hn & Ha & Hr & Hs & _).
  exists false, s, 1%nat, 5. split; [exists pinned_refuse_witness; exact H|].
  split; [exact Hn|]. split; [exact Ha|]. split; assumption.
Qed.

Lemma chan_reaches_closed_pinned_refuted_ex : exists s,
  Reach (cstep_v true) cinit s /\
  hSC <= chst (csh s) /\
  (forall c, In c (conns (csh s)) -> cstate (csh s) c = kCl) /\
  g_owed (csh s) = [] /\
  (forall n p, nth_error (cthr s) n = Some p -> exists o, p = CDone o) /\
  ~ (chst (csh s) = hCl /\ g_closed (csh s) = 1) /\
  chst (csh s) = hIC /\ conns (csh s) = [] /\ g_closed (csh s) = 0.
Proof.
  destruct chan_reaches_closed_pinned_refuted as (s & H & H1 & H2 & H3 & H4 & H5 & H6 & H7).
  exists s. split; [exists pinned_stuck_witness; exact H|].
  split; [exact H1|]. split; [exact H2|]. split; [exact H3|]. split; [exact H4|].
  split; [intros [Hc _]; exact (H6 Hc)|]. split; [exact H5|]. split; [|exact H7].
  revert H. vm_compute. intros H. inversion H. reflexivity.
Qed.
