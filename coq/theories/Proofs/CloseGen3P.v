(* C07, third strengthening: the steps of the channel close model (Model/ChanClose.v) that were
   modelled by hand only are the definitions go2v regenerates from channel.go on every run
   (Gen/GenClose3.v):
     Channel.Serve (the whole Lock region), the mutable.l test of ListenAndServe,
     removeClosedConn (test and delete), the part of connectionCloseStateChange between the
     schedule points "enter" and "afterRead" (removal FIRST, then the read of the channel state,
     then the state test), and the len(conns) == 0 decision of Channel.Close. *)
From Coq Require Import ZArith List Bool Lia.
From Verif Require Import Base.Wrap Gen.GenConsts Gen.GenClose Gen.GenClose3 Model.CloseKernel Model.ChanClose.
Import ListNotations.
Local Open Scope Z_scope.

Definition srv_outcome (e : Z) : Z := if e =? 0 then oSrvOk else if e =? 1 then oSrvAlready else oSrvInvalid.

(* Serve: "if mutable.l != nil { return errAlreadyListening }; mutable.l = tnet.Wrap(l);
   if mutable.state != ChannelClient { return errInvalidStateForOp }; mutable.state = ChannelListening" *)
Lemma gen_serve : forall s arg,
  ctstep s PSrv arg =
    let '(e, l, st) := chanServe (lis s) (chst s) in
    Some (set_chst (set_lis s l) st, CDone (srv_outcome e)).
Proof.
  intros s arg. cbn [ctstep]. unfold chanServe, hClient, hListening.
  destruct s as [a b c d e f]. cbn [lis chst set_lis set_chst conns cstates g_closed g_owed].
  destruct f; [reflexivity|]. destruct (a =? c_ChannelClient); reflexivity.
Qed.

(* the generated Serve: only a client channel without a listener starts listening; in every other
   case the state is left as it was (in particular at and beyond StartClose) *)
Lemma gen_serve_spec : forall l st,
  chanServe l st = if l then (1, true, st)
                   else if st =? c_ChannelClient then (0, true, c_ChannelListening) else (2, true, st).
Proof. intros l st. unfold chanServe. destruct l; [reflexivity|]. destruct (st =? c_ChannelClient); reflexivity. Qed.

(* ListenAndServe: "if mutable.l != nil { RUnlock; return errAlreadyListening }" *)
Lemma gen_listen_test : forall s arg,
  ctstep s PLs1 arg = Some (s, if chanListenTest (lis s) =? 1 then CDone oSrvAlready else PSrv).
Proof. intros s arg. cbn [ctstep]. unfold chanListenTest. destruct (lis s); reflexivity. Qed.

(* removeClosedConn: "if c.readState() != connectionClosed { return }; Lock; delete(conns, id); Unlock" *)
Lemma gen_remove : forall s c arg,
  ctstep s (PCb1 c) arg = Some (s, if chanRemoveTest (cstate s c) =? 1 then PCb2 c else PCb3 c) /\
  chanRemoveDeletes = 1 /\
  ctstep s (PCb2 c) arg = Some (set_conns s (remn c (conns s)), PCb3 c).
Proof.
  intros s c arg. cbn [ctstep]. unfold chanRemoveTest, kCl. split; [|split; reflexivity].
  destruct (cstate s c =? c_connectionClosed); reflexivity.
Qed.

(* connectionCloseStateChange between "enter" and "afterRead": go2v accepts the text only with
   ch.removeClosedConn(c) BEFORE chState := ch.State() (the read mentions the marker of the removal);
   what is left is the state test, the model's PCb3 -- which therefore comes after PCb1/PCb2 *)
Lemma gen_callback_read : forall s c arg,
  ctstep s (PCb3 c) arg =
    Some (s, if chanCallbackRead (chst s) =? 0 then CDone oCbDone else PCb4 c (chanCallbackRead (chst s))).
Proof.
  intros s c arg. cbn [ctstep]. unfold chanCallbackRead, hSC, hIC. rewrite Z.add_0_r.
  destruct (chst s =? c_ChannelStartClose) eqn:E1; cbn [negb andb orb].
  - apply Z.eqb_eq in E1. rewrite E1. reflexivity.
  - destruct (chst s =? c_ChannelInboundClosed) eqn:E2; cbn [negb andb orb]; [|reflexivity].
    apply Z.eqb_eq in E2. rewrite E2. reflexivity.
Qed.

Lemma zlen_zero : forall (l : list nat), (zlen l =? 0) = match l with [] => true | _ => false end.
Proof. intros [|x l]; [reflexivity|]. unfold zlen. cbn [length]. apply Z.eqb_neq. lia. Qed.

(* Channel.Close, the locked region after the early return: the guarded raise to StartClose (already
   tied, Gen/GenClose.v) followed by "if len(conns) == 0 { state = ChannelClosed; channelClosed = true }" *)
Lemma gen_close_empty : forall s arg, chst s <> hCl ->
  ctstep s PCl1 arg =
    let '(st, cc) := chanCloseEmpty (zlen (conns s)) (chanCloseState (chst s)) in
    Some (set_chst s st, PCl2 (if cc then [] else conns s) cc).
Proof.
  intros s arg H. cbn [ctstep]. apply Z.eqb_neq in H. rewrite H.
  unfold chanCloseEmpty, chanCloseState, hSC, hCl. rewrite zlen_zero.
  destruct s as [a b c d e f]. cbn [chst conns set_chst cstates g_closed g_owed lis].
  destruct b; destruct (a <? c_ChannelStartClose); reflexivity.
Qed.

Lemma close3_generated :
  (forall s arg,
     ctstep s PSrv arg =
       let '(e, l, st) := chanServe (lis s) (chst s) in
       Some (set_chst (set_lis s l) st, CDone (srv_outcome e))) /\
  (forall l st,
     chanServe l st = if l then (1, true, st)
                      else if st =? c_ChannelClient then (0, true, c_ChannelListening) else (2, true, st)) /\
  (forall s arg,
     ctstep s PLs1 arg = Some (s, if chanListenTest (lis s) =? 1 then CDone oSrvAlready else PSrv)) /\
  (forall s c arg,
     ctstep s (PCb1 c) arg = Some (s, if chanRemoveTest (cstate s c) =? 1 then PCb2 c else PCb3 c) /\
     chanRemoveDeletes = 1 /\
     ctstep s (PCb2 c) arg = Some (set_conns s (remn c (conns s)), PCb3 c)) /\
  (forall s c arg,
     ctstep s (PCb3 c) arg =
       Some (s, if chanCallbackRead (chst s) =? 0 then CDone oCbDone else PCb4 c (chanCallbackRead (chst s)))) /\
  (forall s arg, chst s <> hCl ->
     ctstep s PCl1 arg =
       let '(st, cc) := chanCloseEmpty (zlen (conns s)) (chanCloseState (chst s)) in
       Some (set_chst s st, PCl2 (if cc then [] else conns s) cc)).
Proof.
  split; [exact gen_serve|]. split; [exact gen_serve_spec|]. split; [exact gen_listen_test|].
  split; [exact gen_remove|]. split; [exact gen_callback_read|]. exact gen_close_empty.
Qed.
