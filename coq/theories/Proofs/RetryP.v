From Coq Require Import ZArith List Bool Lia.
From Verif Require Import Base.Wrap Base.Wire Gen.GenConsts Gen.GenRetry Spec.RetryTable Model.Retry.
Import ListNotations.
Local Open Scope Z_scope.

Lemma can_retry_matches_table :
  forall r p e, policy_of r = Some p -> e_nil e = false ->
    CanRetry r e = retryable p (classify e).
Proof.
  intros r p e Hp Hn.
  unfold policy_of in Hp.
  unfold CanRetry, getErrCode, GetSystemErrorCode, classify, class_of_code.
  rewrite Hn.
  unfold c_RetryNever, c_RetryDefault, c_RetryConnectionError, c_RetryUnexpected, c_RetryIdempotent,
    c_ErrCodeBusy, c_ErrCodeDeclined, c_ErrCodeBadRequest, c_ErrCodeNetwork, c_ErrCodeUnexpected,
    c_ErrCodeInvalid.
  destruct (e_net e), (e_sys e);
  repeat match type of Hp with
         | (if ?c then _ else _) = _ => destruct c eqn:?
         end; try discriminate; inversion Hp; subst p;
  repeat match goal with
         | H : (r =? _) = true |- _ => apply Z.eqb_eq in H; subst r
         end; cbn [Z.eqb Pos.eqb orb andb negb];
  repeat match goal with
         | |- context [e_code e =? ?k] => destruct (e_code e =? k) eqn:?
         end; try reflexivity;
  repeat match goal with
         | H : (e_code e =? _) = true |- _ => apply Z.eqb_eq in H
         end; try congruence; try lia.
Qed.

Lemma can_retry_unknown_policy :
  forall r e, policy_of r = None -> e_nil e = false ->
    CanRetry r e = match classify e with Busy | Declined => true | _ => false end.
Proof.
  intros r e Hp Hn.
  unfold policy_of in Hp.
  unfold CanRetry, getErrCode, GetSystemErrorCode, classify, class_of_code.
  rewrite Hn.
  unfold c_RetryNever, c_RetryDefault, c_RetryConnectionError, c_RetryUnexpected, c_RetryIdempotent,
    c_ErrCodeBusy, c_ErrCodeDeclined, c_ErrCodeBadRequest, c_ErrCodeNetwork, c_ErrCodeUnexpected,
    c_ErrCodeInvalid.
  repeat match type of Hp with
         | (if ?c then _ else _) = _ => destruct c eqn:?
         end; try discriminate.
  destruct (e_net e), (e_sys e); cbn [Z.eqb Pos.eqb orb andb negb];
  repeat match goal with
         | |- context [e_code e =? ?k] => destruct (e_code e =? k) eqn:?
         end; try reflexivity;
  repeat match goal with
         | H : (_ =? _) = true |- _ => apply Z.eqb_eq in H
         end; try congruence; try lia.
Qed.

(* ---------------- the attempt loop ---------------- *)

(* Specification of the loop, written independently: walk the attempts 1,2,...; stop at
   the first success or non-retryable error or when the budget is used up. *)
Definition outcome_of (f : attempt_fn) (sels : Z -> list (list Z)) (k : Z) := fst (f k (sels k)).

Section Loop.
  Variable ron : Z.
  Variable f : attempt_fn.

  Lemma attempts_log_prefix n : forall attempt sel last log,
    exists ext, snd (attempts n attempt ron f sel last log) = log ++ ext.
  Proof.
    induction n as [|n IH]; intros attempt sel last log; cbn [attempts].
    - exists []. now rewrite app_nil_r.
    - destruct (f (attempt + 1) sel) as [err added] eqn:Hf.
      destruct (e_nil err); [eexists; reflexivity|].
      destruct (negb (CanRetry ron err)); [eexists; reflexivity|].
      destruct (IH (attempt + 1) (fold_left add_selected added sel) err
                   (log ++ [{| ao_attempt := attempt + 1; ao_seen := sel |}])) as [ext Hext].
      exists ({| ao_attempt := attempt + 1; ao_seen := sel |} :: ext).
      rewrite Hext, <- app_assoc. reflexivity.
  Qed.

  (* number of calls is between 1 and n (n >= 1), attempt numbers are consecutive *)
  Lemma attempts_numbers n : forall attempt sel last log,
    let r := attempts n attempt ron f sel last log in
    exists ext, snd r = log ++ ext /\
      (length ext <= n)%nat /\
      (n <> O -> ext <> []) /\
      map ao_attempt ext = map (fun i => attempt + 1 + Z.of_nat i) (seq 0 (length ext)).
  Proof.
    induction n as [|n IH]; intros attempt sel last log; cbn [attempts].
    - exists []. rewrite app_nil_r. repeat split; auto; congruence.
    - destruct (f (attempt + 1) sel) as [err added] eqn:Hf.
      set (o := {| ao_attempt := attempt + 1; ao_seen := sel |}).
      assert (Hone : map ao_attempt [o] = map (fun i => attempt + 1 + Z.of_nat i) (seq 0 1)).
      { cbn. f_equal. lia. }
      destruct (e_nil err).
      { exists [o]. cbn [snd length]. repeat split; auto; try lia; congruence. }
      destruct (negb (CanRetry ron err)).
      { exists [o]. cbn [snd length]. repeat split; auto; try lia; congruence. }
      destruct (IH (attempt + 1) (fold_left add_selected added sel) err (log ++ [o]))
        as [ext [H1 [H2 [_ H4]]]].
      exists (o :: ext). cbn zeta in *. rewrite H1, <- app_assoc. repeat split; auto.
      + cbn. lia.
      + congruence.
      + cbn [map length seq]. f_equal; [cbn; lia|].
        rewrite H4. rewrite <- seq_shift, map_map. apply map_ext. intros; lia.
  Qed.
End Loop.

(* Reference semantics: the trace of the first [n] attempts, as a relation-free function
   of the per-attempt results (independent of how the loop is coded). *)
Fixpoint ref_run (n : nat) (ron : Z) (outs : list goerr) (last : goerr) : goerr * nat :=
  match n, outs with
  | O, _ => (last, O)
  | _, [] => (last, O)
  | S n', e :: rest =>
      if e_nil e then (nil_err, 1%nat)
      else if CanRetry ron e then let '(r, k) := ref_run n' ron rest e in (r, S k)
      else (e, 1%nat)
  end.

(* Whatever the attempt function does with the selected set, if its k-th call returns
   the k-th error of [outs] the loop stops exactly as ref_run says, with the same result. *)
Lemma attempts_ref ron : forall n outs attempt sel last log (f : attempt_fn),
  (n <= length outs)%nat ->
  (forall a s, attempt < a -> fst (f a s) = nth (Z.to_nat (a - attempt - 1)) outs nil_err) ->
  fst (attempts n attempt ron f sel last log) = fst (ref_run n ron outs last) /\
  length (snd (attempts n attempt ron f sel last log)) = (length log + snd (ref_run n ron outs last))%nat.
Proof.
  induction n as [|n IH]; intros outs attempt sel last log f Hn Hf; cbn [attempts ref_run].
  - cbn. split; auto.
  - destruct outs as [|e rest]; [cbn in Hn; lia|].
    pose proof (Hf (attempt + 1) sel ltac:(lia)) as H1.
    replace (attempt + 1 - attempt - 1) with 0 in H1 by lia. cbn [Z.to_nat nth] in H1.
    destruct (f (attempt + 1) sel) as [err added]. cbn [fst] in H1. subst err.
    destruct (e_nil e). { cbn. rewrite app_length. cbn. split; auto. }
    destruct (CanRetry ron e); cbn [negb].
    2:{ cbn. rewrite app_length. cbn. split; auto. }
    destruct (IH rest (attempt + 1) (fold_left add_selected added sel) e
                 (log ++ [{| ao_attempt := attempt + 1; ao_seen := sel |}]) f
                 ltac:(cbn in Hn; lia)) as [A B].
    { intros a s Ha. rewrite Hf by lia.
      replace (Z.to_nat (a - attempt - 1)) with (S (Z.to_nat (a - (attempt + 1) - 1))) by lia.
      reflexivity. }
    destruct (ref_run n ron rest e) as [r k] eqn:E. cbn [fst snd] in *.
    rewrite A, B. rewrite app_length. cbn. split; auto. lia.
Qed.

(* Budget: default 5 when MaxAttempts is 0 or no options are given. *)
Lemma budget_default o :
  max_attempts (get_retry_options o) =
  match o with None => 5 | Some o => if max_attempts o =? 0 then 5 else max_attempts o end.
Proof. destruct o as [o|]; cbn; [destruct (max_attempts o =? 0)|]; reflexivity. Qed.

Theorem run_calls_bounded o f :
  let r := run_with_retry o f in
  let m := max_attempts (get_retry_options o) in
  1 <= m ->
  (1 <= length (snd r))%nat /\ Z.of_nat (length (snd r)) <= m /\
  map ao_attempt (snd r) = map (fun i => 1 + Z.of_nat i) (seq 0 (length (snd r))).
Proof.
  cbn zeta. intros Hm. unfold run_with_retry.
  destruct (attempts_numbers (retry_on (get_retry_options o)) f
              (Z.to_nat (max_attempts (get_retry_options o))) 0 [] nil_err [])
    as [ext [H1 [H2 [H3 H4]]]].
  cbn zeta in *. rewrite H1. cbn [app].
  assert (ext <> []) by (apply H3; lia).
  repeat split.
  - destruct ext; [congruence|cbn; lia].
  - lia.
  - exact H4.
Qed.

(* The selected-peer set seen by an attempt is exactly what the earlier attempts added:
   the first attempt sees the initial set; each later attempt sees its predecessor's set
   plus what the predecessor marked (host:port and host). *)
Fixpoint chain_ok (f : attempt_fn) (prev : attempt_obs) (l : list attempt_obs) : Prop :=
  match l with
  | [] => True
  | o :: r => ao_seen o = fold_left add_selected (snd (f (ao_attempt prev) (ao_seen prev))) (ao_seen prev)
              /\ chain_ok f o r
  end.

Lemma attempts_seen ron f : forall n attempt sel last log,
  exists ext, snd (attempts n attempt ron f sel last log) = log ++ ext /\
    match ext with
    | [] => True
    | o :: r => ao_seen o = sel /\ ao_attempt o = attempt + 1 /\ chain_ok f o r
    end.
Proof.
  induction n as [|n IH]; intros attempt sel last log; cbn [attempts].
  - exists []. rewrite app_nil_r. split; auto.
  - destruct (f (attempt + 1) sel) as [err added] eqn:Hf.
    set (o0 := {| ao_attempt := attempt + 1; ao_seen := sel |}).
    destruct (e_nil err). { exists [o0]. cbn. auto. }
    destruct (negb (CanRetry ron err)). { exists [o0]. cbn. auto. }
    destruct (IH (attempt + 1) (fold_left add_selected added sel) err (log ++ [o0])) as [ext [H1 H2]].
    exists (o0 :: ext). rewrite H1, <- app_assoc. split; auto.
    split; [reflexivity|]. split; [reflexivity|].
    destruct ext as [|o r]; cbn [chain_ok]; auto.
    destruct H2 as [A [B C]]. split; auto.
    rewrite A. subst o0. cbn [ao_attempt ao_seen]. rewrite Hf. reflexivity.
Qed.

Theorem run_seen o f :
  match snd (run_with_retry o f) with
  | [] => True
  | o1 :: r => ao_seen o1 = [] /\ ao_attempt o1 = 1 /\ chain_ok f o1 r
  end.
Proof.
  unfold run_with_retry.
  destruct (attempts_seen (retry_on (get_retry_options o)) f
             (Z.to_nat (max_attempts (get_retry_options o))) 0 [] nil_err []) as [ext [H1 H2]].
  rewrite H1. cbn [app]. destruct ext; auto.
Qed.

(* Stop rule and returned error: agreement with ref_run. *)
Theorem run_ref o (outs : list goerr) (f : attempt_fn) :
  let opts := get_retry_options o in
  let n := Z.to_nat (max_attempts opts) in
  (n <= length outs)%nat ->
  (forall a s, 0 < a -> fst (f a s) = nth (Z.to_nat (a - 1)) outs nil_err) ->
  fst (run_with_retry o f) = fst (ref_run n (retry_on opts) outs nil_err) /\
  length (snd (run_with_retry o f)) = snd (ref_run n (retry_on opts) outs nil_err).
Proof.
  cbn zeta. intros Hn Hf. unfold run_with_retry.
  apply (attempts_ref (retry_on (get_retry_options o)) 
               (Z.to_nat (max_attempts (get_retry_options o))) outs 0 [] nil_err [] f Hn).
  intros a s Ha. rewrite Hf by lia. f_equal. lia.
Qed.

(* ref_run, read as the statement: it stops at the first success (returning nil), at the
   first non-retryable error (returning it), or after n attempts (returning the last). *)
Lemma ref_run_spec ron : forall n outs last r k, ref_run n ron outs last = (r, k) ->
  (n <= length outs)%nat ->
  (k <= n)%nat /\
  (forall i, (i + 1 < k)%nat -> e_nil (nth i outs nil_err) = false /\ CanRetry ron (nth i outs nil_err) = true) /\
  (k = O -> r = last /\ n = O) /\
  (k <> O -> let e := nth (k - 1) outs nil_err in
     (e_nil e = true /\ r = nil_err) \/
     (e_nil e = false /\ r = e /\ (CanRetry ron e = false \/ k = n))).
Proof.
  induction n as [|n IH]; intros outs last r k H Hn; cbn [ref_run] in H.
  - inversion H; subst. split; [lia|]. split; [intros; lia|]. split; [auto|congruence].
  - destruct outs as [|e rest]; [cbn in Hn; lia|].
    destruct (e_nil e) eqn:En.
    { inversion H; subst. split; [lia|]. split; [intros; lia|]. split; [congruence|].
      intros _. cbn. left. auto. }
    destruct (CanRetry ron e) eqn:Ec.
    2:{ inversion H; subst. split; [lia|]. split; [intros; lia|]. split; [congruence|].
        intros _. cbn. right. auto. }
    destruct (ref_run n ron rest e) as [r' k'] eqn:E. inversion H; subst r k. clear H.
    destruct (IH rest e r' k' E ltac:(cbn in Hn; lia)) as [A [B [C D]]].
    split; [lia|]. split; [|split; [congruence|]].
    + intros i Hi. destruct i; cbn [nth]; auto. apply B. lia.
    + intros _. destruct k' as [|k'].
      * destruct (C eq_refl) as [-> ->]. cbn. right. auto.
      * specialize (D ltac:(lia)). cbn zeta in D. cbn [Nat.sub nth] in *.
        replace (k' - 0)%nat with k' in * by lia.
        destruct D as [[D1 D2]|[D1 [D2 D3]]]; [left; auto|].
        right. split; [auto|]. split; [auto|]. destruct D3; [left; auto|right; lia].
Qed.

Theorem run_stop : forall o outs f,
  let opts := get_retry_options o in
  let n := Z.to_nat (max_attempts opts) in
  (n <= length outs)%nat ->
  (forall a s, 0 < a -> fst (f a s) = nth (Z.to_nat (a - 1)) outs nil_err) ->
  let r := fst (run_with_retry o f) in
  let k := length (snd (run_with_retry o f)) in
  (k <= n)%nat /\
  (forall i, (i + 1 < k)%nat -> e_nil (nth i outs nil_err) = false /\ CanRetry (retry_on opts) (nth i outs nil_err) = true) /\
  (k <> O -> let e := nth (k - 1) outs nil_err in
     (e_nil e = true /\ r = nil_err) \/
     (e_nil e = false /\ r = e /\ (CanRetry (retry_on opts) e = false \/ k = n))).
Proof.
  intros o outs f opts n Hn Hf. cbn zeta.
  destruct (run_ref o outs f Hn Hf) as [A B]. fold opts in A, B. fold n in A, B.
  destruct (ref_run n (retry_on opts) outs nil_err) as [r k] eqn:E. cbn [fst snd] in A, B.
  destruct (ref_run_spec _ _ _ _ _ _ E Hn) as [H1 [H2 [H3 H4]]].
  rewrite A, B. split; [exact H1|]. split; [exact H2|exact H4].
Qed.
