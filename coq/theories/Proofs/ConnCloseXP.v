(* Proofs about the two thread kinds added to Model/ConnClose.v for the strengthening of C07:
   the handler of an accepted call that answers with a SYSTEM ERROR (TFinInErr: PErr, PErrRm) and
   ping requests (TPing: PPing, PPong).  Every theorem of Proofs/ConnCloseP.v is stated over
   [Reach step (init relay)] and therefore quantifies over these labels as well. *)
From Coq Require Import ZArith List Bool Lia Arith.
From Verif Require Import Base.Wrap Base.Wire Gen.GenConsts Model.CloseKernel Model.ConnClose
  Proofs.CloseKernelP Proofs.ConnCloseP.
Import ListNotations.
Local Open Scope Z_scope.

(* ---------- run_to (the harness' "run this thread until ...") stays inside Reach ---------- *)
Lemma reach_step : forall relay s l s', Reach step (init relay) s -> step s l = Some s' -> Reach step (init relay) s'.
Proof.
  intros relay s l s' [ls H] Hs. exists (ls ++ [l]). unfold run in *. rewrite fold_left_app. rewrite H. cbn. exact Hs.
Qed.

Lemma run_to_reach : forall relay f s tid m first, Reach step (init relay) s ->
  Reach step (init relay) (fst (run_to f s tid m first)).
Proof.
  intros relay f. induction f as [|f IH]; intros s tid m first Hr; cbn [run_to].
  - destruct (nth_error (thr s) tid) as [p|]; [|exact Hr].
    destruct (pc_class p =? 0); [exact Hr|].
    destruct (negb first && (pc_class p <? 64) && Z.testbit m (pc_class p)); exact Hr.
  - destruct (nth_error (thr s) tid) as [p|]; [|exact Hr].
    destruct (pc_class p =? 0); [exact Hr|].
    destruct (negb first && (pc_class p <? 64) && Z.testbit m (pc_class p)); [exact Hr|].
    destruct (step s (LRun tid)) as [s'|] eqn:E; [|exact Hr].
    apply IH. eapply reach_step; eauto.
Qed.

(* ---------- (a) the result of an accepted call is delivered also when it is an error ---------- *)

(* A handler thread that answered with system error [code] and has finished queued exactly one
   error frame, (id, code) -- or none and the connection is Closed. *)
Theorem conn_error_result : forall relay s n id code, Reach step (init relay) s ->
  code_ok code = true ->
  nth_error (thr s) n = Some (PDone (oErrBase + code) id) -> answered (sh s) n id code.
Proof.
  intros relay s n id code Hr Hc Hn. destruct (ref_inv relay s Hr) as [_ HA]. specialize (HA n _ Hn).
  unfold A_ref in HA. cbn [sent] in HA. rewrite (sent_done_err code id Hc) in HA. exact HA.
Qed.

(* The decisive step: without a connection failure, when the handler of a DISPATCHED call whose
   exchange is still registered answers with a system error, the connection is at most in
   StartClose (C07_drain), so the frame IS queued -- exactly one frame (id, code) of this thread --
   and the exchange is still registered afterwards: the removal that may close the connection
   comes after the frame. *)
Theorem conn_error_queued : forall relay s n id code, Reach step (init relay) s ->
  stopped (sh s) = false -> code_ok code = true ->
  nth_error (thr s) n = Some (PErr id code) -> In (id, true) (inb (sh s)) ->
  st (sh s) <= sSC /\
  exists s', step s (LRun n) = Some s' /\
    nth_error (thr s') n = Some (PErrRm id code) /\
    replies_of n (sh s') = [(n, id, code)] /\
    In (id, true) (inb (sh s')) /\ st (sh s') = st (sh s).
Proof.
  intros relay s n id code Hr Hns Hc Hn Hin.
  destruct (conn_drain relay s Hr Hns) as [Hd _].
  assert (Hle : st (sh s) <= sSC) by (apply Hd; exists id; exact Hin).
  split; [exact Hle|].
  destruct (ref_inv relay s Hr) as [_ HA]. specialize (HA n _ Hn). unfold A_ref in HA. cbn [sent] in HA.
  cbn [step]. rewrite Hn. cbn [tstep]. rewrite Hc.
  eexists. split; [reflexivity|]. cbn [sh thr].
  split; [apply nth_error_upd_same; eapply nth_error_lt; exact Hn|].
  rewrite replies_of_send_same.
  assert (Hncl : (st (sh s) =? sCl) = false) by (apply Z.eqb_neq; consts; lia).
  rewrite Hncl, HA. split; [reflexivity|].
  destruct (send_err_frame (sh s) n id code) as (Hst & Hinb & _). rewrite Hinb, Hst. split; [exact Hin|reflexivity].
Qed.

(* The handler thread stays inside its own program counters and can only finish with the
   outcome "answered with [code]": there is no path on which the error is not sent first. *)
Definition err_k (id code : Z) (k : cont) : bool :=
  match k with KDone o i => (o =? oErrBase + code) && (i =? id) | _ => false end.
Definition err_pc (id code : Z) (p : pc) : bool :=
  match p with
  | PErr i c | PErrRm i c => (i =? id) && (c =? code)
  | PCE0 k | PCE1 _ k | PCE2 _ k | PCE3 k | PCE4 k | PCE5 k | PCE6 _ k | PCE7 _ k
  | PCE8 _ k | PCE9 k | PCE10 k => err_k id code k
  | PDone o i => (o =? oErrBase + code) && (i =? id)
  | _ => false
  end.

Lemma conn_err_outcomes : forall id code,
  err_pc id code (start_pc (TFinInErr id code)) = true /\
  (forall s n p s' p', err_pc id code p = true -> tstep s n p = Some (s', p') -> err_pc id code p' = true) /\
  (forall s n s' p', tstep s n (PErr id code) = Some (s', p') -> s' = send_err s n id code /\ p' = PErrRm id code).
Proof.
  intros id code. split; [cbn; rewrite !Z.eqb_refl; reflexivity|]. split.
  - intros s n p s' p' Hp H.
    tstep_inv H; cbn [err_pc err_k] in *; unfold ce_after2, ce_fin, resume;
      repeat match goal with |- context [if ?c then _ else _] => destruct c eqn:? end;
      repeat match goal with
       | |- context [match ?k with KDone _ _ => _ | KCloser => _ | KFail => _ | KProto _ => _ end] => destruct k
       end; cbn [err_pc err_k] in *; try discriminate; try assumption; try reflexivity.
    all: try (apply andb_true_iff in Hp; destruct Hp as [Hp1 Hp2]; apply Z.eqb_eq in Hp1; apply Z.eqb_eq in Hp2; subst;
              rewrite !Z.eqb_refl; reflexivity).
  - intros s n s' p' H. cbn [tstep] in H. destruct (code_ok code); [|discriminate]. inversion H. auto.
Qed.

(* ---------- pings: answered while the connection is not Closed, touching nothing ---------- *)

(* A ping req on a connection that is not Closed -- Active, StartClose or InboundClosed -- is
   answered with a ping res (outcome oPong) in two steps that change NO shared variable: the
   exchanges of the calls being drained, the state, stoppedExchanges are exactly as before.
   Only a Closed connection takes the protocol-error path. *)
Theorem conn_ping_steps : forall s n id,
  (st s <> sCl -> tstep s n (PPing id) = Some (s, PPong id)) /\
  (st s = sCl -> tstep s n (PPing id) = Some (s, PProtoSend id)) /\
  tstep s n (PPong id) = Some (s, PDone oPong id).
Proof.
  intros s n id. cbn [tstep]. repeat split.
  - intros H. apply Z.eqb_neq in H. rewrite H. reflexivity.
  - intros H. apply Z.eqb_eq in H. rewrite H. reflexivity.
Qed.

(* In every reachable state a ping thread that is still in its own two steps has queued no
   error frame; and while a dispatched call holds the connection open (no connection failure)
   the ping is answered: the connection is not Closed. *)
Theorem conn_ping_drain : forall relay s n id idc, Reach step (init relay) s ->
  stopped (sh s) = false -> nth_error (thr s) n = Some (PPing id) -> In (idc, true) (inb (sh s)) ->
  exists s', step s (LRun n) = Some s' /\ sh s' = sh s /\ nth_error (thr s') n = Some (PPong id).
Proof.
  intros relay s n id idc Hr Hns Hn Hin.
  destruct (conn_drain relay s Hr Hns) as [Hd _].
  assert (Hle : st (sh s) <= sSC) by (apply Hd; exists idc; exact Hin).
  assert (Hncl : (st (sh s) =? sCl) = false) by (apply Z.eqb_neq; consts; lia).
  cbn [step]. rewrite Hn. cbn [tstep]. rewrite Hncl. eexists. split; [reflexivity|]. cbn [sh thr].
  split; [reflexivity|]. apply nth_error_upd_same. eapply nth_error_lt; exact Hn.
Qed.

Definition ping_k (id : Z) (k : cont) : bool := match k with KProto i => i =? id | _ => false end.
Definition ping_pc (id : Z) (p : pc) : bool :=
  match p with
  | PPing i | PPong i | PProtoSend i | PProtoCAS i | PProtoStopOut i | PProtoStopIn i => i =? id
  | PClose k | PCloseCb k | PCE0 k | PCE1 _ k | PCE2 _ k | PCE3 k | PCE4 k | PCE5 k | PCE6 _ k | PCE7 _ k
  | PCE8 _ k | PCE9 k | PCE10 k => ping_k id k
  | PDone o i => ((o =? oPong) || (o =? oProto)) && (i =? id)
  | _ => false
  end.

Lemma conn_ping_outcomes : forall id,
  ping_pc id (start_pc (TPing id)) = true /\
  (forall s n p s' p', ping_pc id p = true -> tstep s n p = Some (s', p') -> ping_pc id p' = true) /\
  (forall o i, ping_pc id (PDone o i) = true -> i = id /\ (o = oPong \/ o = oProto)).
Proof.
  intros id. split; [cbn; apply Z.eqb_refl|]. split.
  - intros s n p s' p' Hp H.
    tstep_inv H; cbn [ping_pc ping_k] in *; unfold ce_after2, ce_fin, resume;
      repeat match goal with |- context [if ?c then _ else _] => destruct c eqn:? end;
      repeat match goal with
       | |- context [match ?k with KDone _ _ => _ | KCloser => _ | KFail => _ | KProto _ => _ end] => destruct k
       end; cbn [ping_pc ping_k] in *; try discriminate; try assumption;
      try (rewrite Hp; reflexivity); try reflexivity.
  - intros o i H. cbn [ping_pc] in H. apply andb_true_iff in H. destruct H as [H1 H2].
    apply Z.eqb_eq in H2. split; [exact H2|].
    apply orb_true_iff in H1. destruct H1 as [H1|H1]; apply Z.eqb_eq in H1; auto.
Qed.
