(* Proofs about the reset discipline of pooled objects: the checker of Model/PoolReset.v on the
   table regenerated from the source, and the semantic meaning of the discipline (Spec/PoolSpec.v). *)
From Coq Require Import ZArith List Bool Lia.
From Verif Require Import Base.Wrap Spec.PoolSpec Gen.GenPoolReset Model.PoolReset.
Import ListNotations.
Local Open Scope Z_scope.

(* ---------------------------------------------------------------- the table of this tree *)
(* every field of every pooled struct that some function reads before writing it is a constant of
   the object, or reset by every Get path, or zeroed by every Put path, or a reviewed exception whose
   readers and writers are exactly the reviewed ones *)
Lemma pool_table_disciplined : pr_failures pool_reset_table = [].
Proof.
  first [ vm_compute; reflexivity
        | let t := eval vm_compute in (pr_show_pairs (pr_failures pool_reset_table)) in
          fail 1 "RESET DISCIPLINE OF POOLED OBJECTS BROKEN: the table regenerated from the source (Gen/GenPoolReset.v) has (pool, field) pairs" t
                 "that a function reads before writing while no Get path resets them to a value independent of the previous user, no Put path zeroes them and no reviewed exception (Model/PoolReset.pr_exceptions, pinned to the reviewed readers and writers) matches: state of one user of the pooled object survives into the next" ].
Qed.

Lemma pool_table_complete : pr_missing_pools pool_reset_table = [].
Proof.
  first [ vm_compute; reflexivity
        | fail 1 "a sync.Pool of the library is missing from the regenerated table Gen/GenPoolReset.v (extraction failed or the pool was renamed): Model/PoolReset.pr_expected_pools" ].
Qed.

Lemma pool_exceptions_current : pr_stale_exceptions pool_reset_table = [].
Proof.
  first [ vm_compute; reflexivity
        | let t := eval vm_compute in (pr_show_pairs (pr_stale_exceptions pool_reset_table)) in
          fail 1 "a reviewed exception of Model/PoolReset.pr_exceptions matches no row of the regenerated table any more (the field's readers / writers / uses changed):" t ].
Qed.

(* ---------------------------------------------------------------- what the discipline means *)
Section CleanP.
  Context {F V A B : Type}.
  Variable reset : A -> F -> option V.
  Variable L : F -> Prop.
  Variable use : obj F V -> A -> obj F V * B.
  Hypothesis Hd : disciplined reset L.
  Hypothesis Hr : respects L use.

  Lemma get_reset_agree o o' a : agree L (get_reset reset o a) (get_reset reset o' a).
  Proof.
    intros f Hf. unfold get_reset. specialize (Hd a f Hf). destruct (reset a f); [reflexivity|congruence].
  Qed.

  (* one user: what it computes does not depend on the state of the object it drew *)
  Theorem clean_get o o' a : snd (use (get_reset reset o a) a) = snd (use (get_reset reset o' a) a).
  Proof. apply Hr, get_reset_agree. Qed.

  (* a whole history of users: their results do not depend on which objects the pool handed out
     (scheduler, garbage collector) nor on what the pool held at the start *)
  Theorem clean_users : forall args choice choice' pool pool',
    run_users reset use choice pool args = run_users reset use choice' pool' args.
  Proof.
    induction args as [|a rest IH]; intros choice choice' pool pool'; [reflexivity|]. cbn [run_users].
    pose proof (clean_get (choice pool) (choice' pool') a) as E.
    destruct (use (get_reset reset (choice pool) a) a) as [o1 b1].
    destruct (use (get_reset reset (choice' pool') a) a) as [o2 b2]. cbn [snd] in E. subst b2.
    f_equal. apply IH.
  Qed.
End CleanP.
