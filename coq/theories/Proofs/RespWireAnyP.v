(* C10, server side, WITHOUT the handler discipline: what the response object
   (InboundCallResponse: arg writers, Flush, Close, SendSystemError, doneSending) guarantees for
   ANY sequence of handler API calls on a call -- one handler or several handed the same call.

   Once doneSending has run for a call (the response was completed, or a system error was sent)
   no call res / call res continue frame is ever enqueued for its id again: the context is
   cancelled, so every flushFragment / newFragment fails at mex.checkError.  The only thing
   that still gets through is SendSystemError (guarded by response.err only): each such call
   may enqueue one more error frame.  Hence for every run and every id requested at most once:

       frames for the id  =  w ++ [Err; ...; Err]     with w a prefix of an accepted word,

   and the tail is empty unless the id is in [misused] (a SendSystemError got past its guard
   after doneSending).  The grammar itself therefore rests on "exactly one responder, which
   completes the response or sends one system error" (Proofs/DispatchP.v). *)
From Coq Require Import ZArith List Bool Lia.
From Verif Require Import Base.Wire Spec.WireOk Proofs.WireOkP Model.RespWire Proofs.RespWireP.
Import ListNotations.
Local Open Scope Z_scope.

Definition doneJ (c : call) : Prop :=
  g_dones c = true /\ notlive c /\ (forall f, h_pc c <> PFlushSel f).

Lemma doneJ_wsame c c' : wsame c c' -> doneJ c -> doneJ c'.
Proof.
  unfold wsame, doneJ. intros (_ & _ & _ & _ & E5 & E6 & E7) (A & B & C).
  rewrite E5, E6. auto.
Qed.

Definition errs_only (a b : list kind) : Prop := b = a \/ b = a ++ [Err].

Definition Post (st st' : state) (id : Z) : Prop :=
  (exists c', get id (calls st') = Some c' /\ doneJ c') /\
  errs_only (proj id (sent st)) (proj id (sent st')).

Lemma post_commit st id c' chk : doneJ c' -> Post st (commit st id c' chk) id.
Proof.
  intros D. split; [exists c'; split; [apply get_commit_same | exact D]|].
  left. rewrite sent_commit. reflexivity.
Qed.

Ltac dj :=
  unfold doneJ, notlive in *; fields;
  repeat match goal with
         | W : wsame _ _ |- _ => unfold wsame, notlive in W; fields
         | H : _ /\ _ |- _ => destruct H
         end;
  repeat split; try congruence; try discriminate; auto;
  try (intros ?f; try congruence; try discriminate); try solve [intuition congruence].

Lemma post_flush1 st id c final : doneJ c -> Post st (flush1 st id c final) id.
Proof.
  intros D. unfold flush1. destruct (w_err c).
  - destruct final; apply post_commit; dj.
  - destruct (check_error c) eqn:Ce.
    + destruct (failed_call c) as [c1 chk] eqn:Fc. apply wsame_failed in Fc.
      destruct final; apply post_commit; dj.
    + apply check_error_false in Ce. exfalso. unfold doneJ, notlive in D. tauto.
Qed.

Lemma post_arg_writer st id c k : doneJ c -> Post st (arg_writer st id c k) id.
Proof.
  intros D. unfold arg_writer.
  repeat match goal with
         | |- Post _ (commit _ _ _ _) _ => apply post_commit; dj
         | |- Post _ (let '(_, _) := failed_call ?x in _) _ =>
             let E := fresh "E" in destruct (failed_call x) eqn:E; apply wsame_failed in E
         | |- Post _ (if ?b then _ else _) _ => destruct b eqn:?
         | |- Post _ (match ?x with _ => _ end) _ => destruct x eqn:?
         end.
Qed.

Lemma hclose_done st id c fullfrag st' :
  doneJ c -> hclose st id c fullfrag = Some st' -> Post st st' id.
Proof.
  intros D H. unfold hclose in H.
    destruct (f_err c).
    { apply Some_inj in H; subst st'. apply post_commit; dj. }
    destruct (f_state c).
    + apply Some_inj in H; subst st'. apply post_commit; dj.
    + destruct (negb fullfrag).
      * apply Some_inj in H; subst st'. apply post_commit; dj.
      * destruct (negb (f_cur (upd_f c FWaiting false (f_cur c) (f_first c)))); [discriminate|].
        apply Some_inj in H; subst st'. apply post_flush1; dj.
    + destruct (negb (f_cur c)); [discriminate|].
      apply Some_inj in H; subst st'. apply post_flush1; dj.
    + apply Some_inj in H; subst st'. apply post_commit; dj.
    + apply Some_inj in H; subst st'. apply post_commit; dj.
Qed.

Lemma hstep_done st id c l st' :
  get id (calls st) = Some c -> doneJ c -> hstep st id c l = Some st' -> Post st st' id.
Proof.
  intros Hg D H. unfold hstep in H.
  destruct l; destruct (h_pc c) eqn:Hpc; try discriminate;
    try (exfalso; destruct D as (_ & _ & D3); eapply D3; exact Hpc).
  - (* HStart *)
    destruct ok.
    + apply Some_inj in H; subst st'. apply post_commit; dj.
    + destruct (shut_call c) as [c1 chk] eqn:E. apply wsame_shut in E.
      apply Some_inj in H; subst st'. apply post_commit; dj.
  - (* HResp *)
    apply Some_inj in H; subst st'. destruct (rd_err c); apply post_commit; dj.
  - (* HReadFail *)
    destruct (rd_err c).
    + apply Some_inj in H; subst st'. split; [exists c; split; [exact Hg | exact D] | left; reflexivity].
    + destruct shut.
      * destruct (shut_call c) as [c1 chk] eqn:E. apply wsame_shut in E.
        apply Some_inj in H; subst st'. apply post_commit; dj.
      * apply Some_inj in H; subst st'. apply post_commit; dj.
  - (* HArgWriter *)
    apply Some_inj in H; subst st'. apply post_arg_writer; exact D.
  - (* HFlush *)
    destruct (viaWrite && f_err c).
    { apply Some_inj in H; subst st'. apply post_commit; dj. }
    destruct (viaWrite && negb (writing (f_state c))).
    { apply Some_inj in H; subst st'. apply post_commit; dj. }
    destruct (negb (f_cur c)); [discriminate|].
    apply Some_inj in H; subst st'. apply post_flush1; exact D.
  - (* HNewFrag *)
    destruct (check_error c).
    + destruct (failed_call c) as [c1 chk] eqn:Fc. apply wsame_failed in Fc.
      apply Some_inj in H; subst st'. apply post_commit; dj.
    + apply Some_inj in H; subst st'. apply post_commit; dj.
  - (* HClose *)
    eapply hclose_done; eassumption.
  - (* HDone *)
    destruct (done_sending c) as [c1 chk] eqn:Ds. apply done_sending_spec in Ds.
    apply Some_inj in H; subst st'. apply post_commit; dj.
  - (* HSysErr *)
    destruct (w_err c).
    { apply Some_inj in H; subst st'. apply post_commit; dj. }
    set (st0 := if g_dones c then add_misused st id else st) in *.
    destruct (conn_send_syserr st0 id full) as [st1 ok] eqn:Cs.
    destruct (done_sending (upd_w c false WComplete (rd_err c))) as [c1 chk] eqn:Ds.
    apply done_sending_spec in Ds. fields.
    apply Some_inj in H; subst st'.
    pose proof (send_syserr_fields st0 id full) as (_ & _ & _ & _ & S).
    rewrite Cs in S. cbn [fst] in S.
    assert (S0 : sent st0 = sent st) by (unfold st0; destruct (g_dones c); reflexivity).
    split.
    + eexists. split; [apply get_commit_same|]. dj.
    + rewrite sent_commit. destruct S as [-> | ->]; rewrite S0.
      * left; reflexivity.
      * right. apply proj_snoc_same.
  - (* HSetAppErr *)
    destruct (w_state c);
      try (apply Some_inj in H; subst st'; apply post_commit; dj);
      destruct (failed_call c) as [c1 chk] eqn:Fc; apply wsame_failed in Fc;
      apply Some_inj in H; subst st'; apply post_commit; dj.
  - (* HBlackhole *)
    apply Some_inj in H; subst st'. apply post_commit.
    eapply doneJ_wsame; [apply wsame_cancel | exact D].
  - (* HHelperWrite *)
    rewrite helper_closes_eq in H. destruct ok.
    + eapply hclose_done; eassumption.
    + apply Some_inj in H; subst st'. apply post_commit; dj.
Qed.

(* ---- every step keeps a done call done, and adds at most one error frame for its id ---------- *)

Definition donek (st : state) (id : Z) : Prop :=
  exists c, get id (calls st) = Some c /\ doneJ c.

Lemma post_frame lid st st' id :
  frame_eq lid st st' -> id <> lid -> donek st id -> Post st st' id /\ rd_pc st' = rd_pc st.
Proof.
  intros (F1 & _ & _ & F4) N (c & G & D). destruct (F4 id N) as [E1 E2].
  split; [|exact F1]. split; [exists c; rewrite E1; auto | left; exact E2].
Qed.

Lemma donek_get_eq st st' id :
  get id (calls st') = get id (calls st) -> donek st id -> donek st' id.
Proof. intros E (c & G & D). exists c. rewrite E. auto. Qed.

Lemma errs_syserr st x full id :
  errs_only (proj id (sent st)) (proj id (sent (fst (conn_send_syserr st x full)))).
Proof.
  destruct (send_syserr_fields st x full) as (_ & _ & _ & _ & [-> | ->]); [left; reflexivity|].
  destruct (Z.eq_dec id x) as [->|N]; [right; apply proj_snoc_same | left; apply proj_snoc_other; exact N].
Qed.

Lemma post_same_commit st id c c' chk :
  get id (calls st) = Some c -> doneJ c' -> Post st (commit st id c' chk) id /\ rd_pc (commit st id c' chk) = rd_pc st.
Proof. intros _ D. split; [apply post_commit; exact D | apply rd_commit]. Qed.

(* a commit on call [lid]: the call [id] stays done when the new record of [lid] is as done as the old one *)
Lemma post_any_commit st lid c0 c' chk id :
  get lid (calls st) = Some c0 -> (doneJ c0 -> doneJ c') -> donek st id ->
  Post st (commit st lid c' chk) id /\ rd_pc (commit st lid c' chk) = rd_pc st.
Proof.
  intros G0 W K. destruct (Z.eq_dec id lid) as [->|N].
  - destruct K as (c & G & D). rewrite G0 in G. inversion G; subst c0.
    apply (post_same_commit st lid c c' chk G0 (W D)).
  - apply (post_frame lid); [apply frame_commit | exact N | exact K].
Qed.

Lemma step_done st l st' id :
  step st l = Some st' -> donek st id -> rd_pc st <> RChecked id ->
  (forall f, l <> RdCallReq1 id f) ->
  Post st st' id /\ rd_pc st' <> RChecked id.
Proof.
  intros H K Hrd Hl.
  assert (keep : forall s, Post st s id /\ rd_pc s = rd_pc st -> Post st s id /\ rd_pc s <> RChecked id).
  { intros s [P E]. split; [exact P | rewrite E; exact Hrd]. }
  destruct (handler_label l) eqn:HL.
  - (* a handler API call of some call lid *)
    assert (X : exists lid c, get lid (calls st) = Some c /\ hstep st lid c l = Some st').
    { destruct l; try discriminate HL; cbn [step] in H; unfold with_call in H;
        (destruct (get id0 (calls st)) as [c|] eqn:Hg; [|discriminate]); eauto. }
    destruct X as (lid & c0 & G0 & Hs). apply keep.
    pose proof (frame_hstep _ _ _ _ _ Hs) as F.
    destruct (Z.eq_dec id lid) as [->|N].
    + destruct K as (c & G & D). rewrite G0 in G. inversion G; subst c0.
      split; [eapply hstep_done; eassumption | destruct F as (F1 & _); exact F1].
    + apply (post_frame lid); assumption.
  - destruct l; try discriminate HL; cbn [step] in H.
    + (* RdCallReq1 *)
      assert (N : id <> id0) by (intros ->; eapply Hl; reflexivity).
      destruct (rd_pc st) eqn:Erd; try discriminate.
      destruct (cst (add_requested st id0)); apply Some_inj in H; subst st';
        try (split; [split; [exact K | left; reflexivity] | cbn; congruence]);
        (split; [split; [eapply donek_get_eq; [|exact K];
                         destruct (send_syserr_fields (add_requested st id0) id0 full) as (S1 & _); rewrite S1; reflexivity
                        | apply (errs_syserr (add_requested st id0) id0 full id)]
                |destruct (send_syserr_fields (add_requested st id0) id0 full) as (_ & _ & _ & S4 & _); rewrite S4; cbn; congruence]).
    + (* RdCallReq2 *)
      destruct (rd_pc st) as [|rid| | |] eqn:Erd; try discriminate.
      assert (N : id <> rid) by congruence.
      destruct (negb ok); [apply Some_inj in H; subst st'; split; [split; [exact K | left; reflexivity] | cbn; discriminate]|].
      destruct (mexset_shut st || _); apply Some_inj in H; subst st'.
      * split; [|cbn; discriminate]. split.
        -- eapply donek_get_eq; [|exact K]. cbn [calls set_rd].
           destruct (send_syserr_fields st rid full) as (S1 & _); rewrite S1; reflexivity.
        -- apply (errs_syserr st rid full id).
      * split; [|cbn; congruence]. split; [|left; reflexivity].
        eapply donek_get_eq; [|exact K]. cbn [calls set_rd set_calls]. apply get_put_other; exact N.
    + (* RdCallReq3 *)
      destruct (rd_pc st) as [| |rid| |] eqn:Erd; try discriminate. unfold with_call in H.
      destruct (get rid (calls st)) as [c0|] eqn:G0; [|discriminate].
      destruct (cst st).
      * apply Some_inj in H; subst st'.
        destruct (post_any_commit st rid c0 (upd_pc c0 PNotStarted) false id G0) as [P _]; [intros D; dj | exact K|].
        split; [exact P | cbn; discriminate].
      * destruct (shut_call c0) as [c1 chk] eqn:E. apply wsame_shut in E.
        apply Some_inj in H; subst st'. split; [|cbn; discriminate].
        set (st1 := fst (conn_send_syserr st rid full)) in *.
        destruct (send_syserr_fields st rid full) as (S1 & _). fold st1 in S1.
        assert (K1 : donek st1 id) by (eapply donek_get_eq; [rewrite S1; reflexivity | exact K]).
        assert (G1 : get rid (calls st1) = Some c0) by (rewrite S1; exact G0).
        destruct (post_any_commit st1 rid c0 (upd_pc c1 PDead) chk id G1) as [[P1 P2] _]; [intros D; dj | exact K1|].
        split; [exact P1|]. cbn [sent set_rd]. destruct P2 as [P2 | P2]; rewrite P2.
        -- apply (errs_syserr st rid full id).
        -- exfalso. rewrite sent_commit in P2.
           assert (L : length (proj id (sent st1)) = length (proj id (sent st1) ++ [Err])) by (rewrite <- P2; reflexivity).
           rewrite app_length in L. cbn in L. lia.
      * destruct (shut_call c0) as [c1 chk] eqn:E. apply wsame_shut in E.
        apply Some_inj in H; subst st'. split; [|cbn; discriminate].
        set (st1 := fst (conn_send_syserr st rid full)) in *.
        destruct (send_syserr_fields st rid full) as (S1 & _). fold st1 in S1.
        assert (K1 : donek st1 id) by (eapply donek_get_eq; [rewrite S1; reflexivity | exact K]).
        assert (G1 : get rid (calls st1) = Some c0) by (rewrite S1; exact G0).
        destruct (post_any_commit st1 rid c0 (upd_pc c1 PDead) chk id G1) as [[P1 P2] _]; [intros D; dj | exact K1|].
        split; [exact P1|]. cbn [sent set_rd]. destruct P2 as [P2 | P2]; rewrite P2.
        -- apply (errs_syserr st rid full id).
        -- exfalso. rewrite sent_commit in P2.
           assert (L : length (proj id (sent st1)) = length (proj id (sent st1) ++ [Err])) by (rewrite <- P2; reflexivity).
           rewrite app_length in L. cbn in L. lia.
      * destruct (shut_call c0) as [c1 chk] eqn:E. apply wsame_shut in E.
        apply Some_inj in H; subst st'. split; [|cbn; discriminate].
        set (st1 := fst (conn_send_syserr st rid full)) in *.
        destruct (send_syserr_fields st rid full) as (S1 & _). fold st1 in S1.
        assert (K1 : donek st1 id) by (eapply donek_get_eq; [rewrite S1; reflexivity | exact K]).
        assert (G1 : get rid (calls st1) = Some c0) by (rewrite S1; exact G0).
        destruct (post_any_commit st1 rid c0 (upd_pc c1 PDead) chk id G1) as [[P1 P2] _]; [intros D; dj | exact K1|].
        split; [exact P1|]. cbn [sent set_rd]. destruct P2 as [P2 | P2]; rewrite P2.
        -- apply (errs_syserr st rid full id).
        -- exfalso. rewrite sent_commit in P2.
           assert (L : length (proj id (sent st1)) = length (proj id (sent st1) ++ [Err])) by (rewrite <- P2; reflexivity).
           rewrite app_length in L. cbn in L. lia.
    + (* RdProtoClose *)
      destruct (rd_pc st); try discriminate. apply Some_inj in H; subst st'.
      destruct (close_fields st) as (A & B & _). split; [|cbn; discriminate].
      split; [eapply donek_get_eq; [cbn [calls set_rd]; rewrite A; reflexivity | exact K] | left; cbn [sent set_rd]; rewrite B; reflexivity].
    + (* RdProtoStop *)
      destruct (rd_pc st); try discriminate. apply Some_inj in H; subst st'.
      destruct (stop_fields st) as (B & _). split; [|cbn; discriminate].
      split; [|left; cbn [sent set_rd]; rewrite B; reflexivity].
      destruct K as (c & G & D). pose proof (csame_stop st id) as CS. rewrite G in CS. unfold csame in CS.
      cbn [calls set_rd]. destruct (get id (calls (conn_stop st))) as [c'|]; [|contradiction].
      exists c'. split; [reflexivity | eapply doneJ_wsame; eassumption].
    + (* RdCancel *)
      destruct (rd_pc st) eqn:Erd; try discriminate.
      assert (same : Post st st id /\ rd_pc st <> RChecked id)
        by (split; [split; [exact K | left; reflexivity] | rewrite Erd; exact Hrd]).
      destruct (propagate st); [|apply Some_inj in H; subst st'; exact same].
      destruct (get id0 (calls st)) as [c0|] eqn:G0; [|apply Some_inj in H; subst st'; exact same].
      destruct (in_ex c0); apply Some_inj in H; subst st'; [|exact same].
      destruct (post_any_commit st id0 c0 (cancel_call c0) false id G0) as [P E];
        [apply doneJ_wsame, wsame_cancel | exact K|].
      split; [exact P | rewrite E, Erd; exact Hrd].
    + (* Deadline *)
      unfold with_call in H. destruct (get id0 (calls st)) as [c0|] eqn:G0; [|discriminate].
      destruct (m_ctx c0) eqn:Ectx; try discriminate. apply Some_inj in H; subst st'. apply keep.
      apply (post_any_commit st id0 c0 _ false id G0); [|exact K].
      intros (_ & NL & _). exfalso. apply NL. exact Ectx.
    + (* ExpireCtx *)
      unfold with_call in H. destruct (get id0 (calls st)) as [c0|] eqn:G0; [|discriminate].
      destruct (e_pc c0); try discriminate. pose proof (wsame_expire c0) as W.
      destruct (m_ctx c0) eqn:Ectx; try discriminate; apply Some_inj in H; subst st'; apply keep;
        (apply (post_any_commit st id0 c0 _ true id G0); [intros D; dj | exact K]).
    + (* ExpireErr *)
      unfold with_call in H. destruct (get id0 (calls st)) as [c0|] eqn:G0; [|discriminate].
      destruct (e_pc c0); try discriminate. destruct (m_errch c0); try discriminate.
      apply Some_inj in H; subst st'. apply keep.
      pose proof (wsame_trans _ _ _ (wsame_cancel c0) (wsame_expire (cancel_call c0))) as W.
      apply (post_any_commit st id0 c0 _ true id G0); [intros D; dj | exact K].
    + (* CClose *)
      apply Some_inj in H; subst st'. destruct (close_fields st) as (A & B & _ & C & _).
      split; [|rewrite C; exact Hrd].
      split; [eapply donek_get_eq; [rewrite A; reflexivity | exact K] | left; rewrite B; reflexivity].
    + (* CStop *)
      apply Some_inj in H; subst st'. destruct (stop_fields st) as (B & _ & C & _).
      split; [|rewrite C; exact Hrd]. split; [|left; rewrite B; reflexivity].
      destruct K as (c & G & D). pose proof (csame_stop st id) as CS. rewrite G in CS. unfold csame in CS.
      destruct (get id (calls (conn_stop st))) as [c'|] eqn:G'; [|contradiction].
      exists c'. split; [reflexivity | eapply doneJ_wsame; eassumption].
    + (* CCheck *)
      apply Some_inj in H; subst st'. split; [split; [exact K | left; reflexivity] | exact Hrd].
    + apply Some_inj in H; subst st'. split; [split; [exact K | left; reflexivity] | exact Hrd].
    + destruct (0 <? n_out st); [|discriminate]. apply Some_inj in H; subst st'.
      split; [split; [exact K | left; reflexivity] | exact Hrd].
Qed.

(* ---- the first misuse: SendSystemError on a call whose doneSending has run -------------------- *)

Lemma step_misused_new st l st' id :
  step st l = Some st' -> ~ In id (misused st) -> In id (misused st') ->
  exists full c, l = HSysErr id full /\ get id (calls st) = Some c /\ g_dones c = true /\ h_pc c = PIdle.
Proof.
  intros H N I. destruct (handler_label l) eqn:HL.
  - destruct l; try discriminate HL; cbn [step] in H; unfold with_call in H;
      (destruct (get id0 (calls st)) as [c|] eqn:Hg; [|discriminate]);
      pose proof (hstep_mis _ _ _ _ _ H) as M; cbn beta iota in M;
      try (rewrite M in I; contradiction).
    destruct M as [M | [Dc M]]; [rewrite M in I; contradiction|].
    rewrite M in I. apply in_app_or in I as [I | [I | []]]; [contradiction|]. subst id0.
    exists full, c. split; [reflexivity|]. split; [exact Hg|]. split; [exact Dc|].
    unfold hstep in H. destruct (h_pc c); try discriminate. reflexivity.
  - destruct (step_other st l st' id new_call HL H) as [M _]. rewrite M in I. contradiction.
Qed.

Lemma step_req_count st l st' id :
  step st l = Some st' ->
  count_req id (requested st') = (count_req id (requested st) + req_count id [l])%nat.
Proof.
  intros H. apply (requested_count [l] st st' id). cbn [run_from]. rewrite H. reflexivity.
Qed.

Lemma repeat_snoc {A} (a : A) n : repeat a n ++ [a] = repeat a (S n).
Proof. cbn [repeat]. symmetry. apply repeat_cons. Qed.

Definition tail_errs (l : list kind) : Prop :=
  exists w n, l = w ++ repeat Err n /\ wire_prefix_ok w = true.

Lemma tail_errs_step a b : tail_errs a -> errs_only a b -> tail_errs b.
Proof.
  intros (w & n & E & P) [-> | ->]; [exists w, n; auto|].
  exists w, (S n). split; [|exact P]. rewrite E, <- app_assoc, repeat_snoc. reflexivity.
Qed.

Definition mis_ok (st : state) (id : Z) : Prop :=
  donek st id /\ rd_pc st <> RChecked id /\ (1 <= count_req id (requested st))%nat /\
  tail_errs (proj id (sent st)).

Definition AnyInv (st : state) : Prop :=
  Inv st /\
  forall id, (count_req id (requested st) <= 1)%nat -> In id (misused st) -> mis_ok st id.

Lemma any_step st l st' : AnyInv st -> step st l = Some st' -> AnyInv st'.
Proof.
  intros [I M] H. split; [eapply step_inv; eassumption|].
  intros id Hc Hm.
  pose proof (step_req_count st l st' id H) as RC.
  assert (Hc0 : (count_req id (requested st) <= 1)%nat) by lia.
  assert (core : donek st id -> rd_pc st <> RChecked id -> (1 <= count_req id (requested st))%nat ->
                 tail_errs (proj id (sent st)) -> mis_ok st' id).
  { intros K Hrd C1 T.
    assert (Hl : forall f, l <> RdCallReq1 id f).
    { intros f ->. cbn [req_count] in RC. rewrite Z.eqb_refl in RC. lia. }
    destruct (step_done st l st' id H K Hrd Hl) as [[K' E] Hrd'].
    split; [exact K'|]. split; [exact Hrd'|]. split; [lia|]. eapply tail_errs_step; eassumption. }
  destruct (in_dec Z.eq_dec id (misused st)) as [Hm0 | Hm0].
  - destruct (M id Hc0 Hm0) as (K & Hrd & C1 & T). apply core; assumption.
  - (* the step is the first misuse of id *)
    destruct (step_misused_new st l st' id H Hm0 Hm) as (full & c & -> & G & Dc & Hpc).
    pose proof (I id Hc0 Hm0) as Gd. unfold good in Gd. rewrite G in Gd.
    destruct Gd as (Hrd & _ & C1 & q & Hq & HR).
    apply core; [|exact Hrd | exact C1|].
    + exists c. split; [exact G|]. unfold R in HR. destruct HR as (_ & _ & NL & _).
      split; [exact Dc|]. split; [apply NL; exact Dc|]. intros f. rewrite Hpc. discriminate.
    + exists (proj id (sent st)), O. split; [cbn [repeat]; rewrite app_nil_r; reflexivity|].
      apply wire_prefix_ok_run. eauto.
Qed.

Lemma any_init prop : AnyInv (init_state prop).
Proof. split; [apply inv_init | intros id _ []]. Qed.

Lemma any_run ls : forall st st', AnyInv st -> run_from st ls = Some st' -> AnyInv st'.
Proof.
  induction ls as [|l r IH]; intros st st' A H; cbn [run_from] in H.
  - apply Some_inj in H; subst; exact A.
  - destruct (step st l) as [st1|] eqn:E; [|discriminate].
    eapply IH; [eapply any_step; eassumption | exact H].
Qed.

(* THE ROBUSTNESS STATEMENT.  For every run, whatever the handlers do (any number of handlers
   handed the same call, any order of arg writers / Flush / Close / SendSystemError / ...),
   for every id requested at most once:
     (1) the frames enqueued for the id are  w ++ n error frames,  w a prefix of an accepted word;
     (2) n = 0 unless SendSystemError got past its guard after doneSending ([misused]);
     (3) so nothing but error frames ever follows a terminal frame: a completed (or failed)
         response is never followed by response fragments. *)
Theorem respwire_any_handler prop ls st :
  run prop ls = Some st ->
  forall id, (count_req id (requested st) <= 1)%nat ->
    (exists w n, proj id (sent st) = w ++ repeat Err n /\ wire_prefix_ok w = true /\
                 (~ In id (misused st) -> n = O)) /\
    (forall l1 k l2, proj id (sent st) = l1 ++ k :: l2 -> terminal k = true ->
                     forall x, In x l2 -> x = Err).
Proof.
  intros Hrun id Hc.
  assert (A : AnyInv st) by (eapply any_run; [apply any_init | exact Hrun]).
  assert (D : exists w n, proj id (sent st) = w ++ repeat Err n /\ wire_prefix_ok w = true /\
                          (~ In id (misused st) -> n = O)).
  { destruct (in_dec Z.eq_dec id (misused st)) as [Hm | Hm].
    - destruct A as [_ M]. destruct (M id Hc Hm) as (_ & _ & _ & w & n & E & P).
      exists w, n. split; [exact E|]. split; [exact P|]. intros X; contradiction.
    - destruct (respwire_grammar prop ls st Hrun id Hc Hm) as (P & _).
      exists (proj id (sent st)), O. split; [cbn [repeat]; rewrite app_nil_r; reflexivity|]. auto. }
  split; [exact D|].
  destruct D as (w & n & E & P & _). intros l1 k l2 E2 T x Hx. rewrite E in E2.
  (* where does k sit: inside w (then it is the last frame of w) or inside the error tail *)
  assert (S : forall (a b c d : list kind) y, a ++ b = c ++ y :: d ->
              (exists b1, c = a ++ b1 /\ b = b1 ++ y :: d) \/ (exists a2, a = c ++ y :: a2 /\ d = a2 ++ b)).
  { induction a as [|z a IH]; intros b c d y Hab.
    - left. exists c. auto.
    - destruct c as [|z' c]; cbn in Hab; inversion Hab; subst.
      + right. exists a. auto.
      + destruct (IH _ _ _ _ H1) as [(b1 & -> & ->) | (a2 & -> & ->)].
        * left. exists b1. auto.
        * right. exists a2. auto. }
  destruct (S _ _ _ _ _ E2) as [(b1 & _ & Eb) | (a2 & Ew & ->)].
  - assert (In x (repeat Err n)) by (rewrite Eb; apply in_or_app; right; right; exact Hx).
    eapply repeat_spec; eassumption.
  - rewrite Ew in P. rewrite (prefix_ok_terminal_last _ _ _ P T) in Hx. cbn [app] in Hx.
    eapply repeat_spec; eassumption.
Qed.
