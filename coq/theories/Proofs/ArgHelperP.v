(* C10 -- helper layers above the arg writers that could complete a response on an error path.

   (1) TIE: the trace functions regenerated from the Go source (Gen/GenArgHelper.v, go2v
       Target.CallTrace: arguments.go ArgWriteHelper.write / ArgReadHelper.read, handlers.go
       ErrorHandlerFunc.Handle, raw/handler.go WriteResponse, json/handler.go handler.Handle (tail),
       thrift/server.go Server.handle (tail)) are equal, for every input, to the hand models of
       Model/ArgHelper.v.  An edit that closes the writer on the failed path, closes it AND sends a
       system error, or sends a system error without an error changes the generated function and
       these lemmas stop compiling.
   (2) CONTRACT, read off the generated functions: ArgWriteHelper.write closes its writer exactly
       when f() succeeded, after f(), once, and then returns Close's own error; every failure it
       reports otherwise leaves the writer open.  The thrift handler never both sends the system
       error and closes the writer.  ErrorHandlerFunc sends one system error exactly when the
       handler function returned an error.
   (3) MODEL: the handler action [HHelperWrite id ok fullfrag] of Model/RespWire.v takes its
       decision from the same model function ([helper_closes]); with ok it IS the Close step, with
       a failed f() it changes nothing but the recorded result -- so (with C10_syserr_delivered) a
       handler whose helper write failed above the transport and that answers with one system
       error gives the caller exactly one error frame, for every continuation.  The discipline is
       necessary: the labels of a helper that closes on the failed path give [Res[last]; Err]. *)
From Coq Require Import ZArith List Bool Lia.
From Verif Require Import Base.Wire Spec.WireOk Proofs.WireOkP Model.ArgHelper Gen.GenArgHelper Gen.GenHelperCensus
  Model.RespWire Proofs.RespWireP Proofs.RespWireDrainP.
Import ListNotations.
Local Open Scope Z_scope.

(* ---- (1) generated = model ------------------------------------------------------------------ *)

Lemma arg_write_helper_tie werr ferr cerr tr :
  argWriteHelperWrite werr ferr cerr tr = helper_write werr ferr cerr tr.
Proof.
  unfold argWriteHelperWrite, helper_write, mk_f, mk_close.
  destruct werr, ferr; cbn [app]; rewrite <- ?app_assoc; reflexivity.
Qed.

Lemma arg_read_helper_tie rerr ferr eerr cerr tr :
  argReadHelperRead rerr ferr eerr cerr tr = helper_read rerr ferr eerr cerr tr.
Proof.
  unfold argReadHelperRead, helper_read.
  destruct rerr, ferr, eerr; cbn [app]; rewrite <- ?app_assoc; reflexivity.
Qed.

Lemma error_handler_func_tie herr tr : errorHandlerFuncHandle herr tr = efh_handle herr tr.
Proof.
  unfold errorHandlerFuncHandle, efh_handle, mk_handler, mk_syserr.
  destruct herr; cbn [app]; rewrite <- ?app_assoc; reflexivity.
Qed.

Lemma raw_write_response_tie has_sys is_err serr aerr e2 e3 tr :
  rawWriteResponse has_sys is_err serr aerr e2 e3 tr = raw_write_response has_sys is_err serr aerr e2 e3 tr.
Proof.
  unfold rawWriteResponse, raw_write_response.
  destruct has_sys, is_err, aerr, e2; cbn [app]; rewrite <- ?app_assoc; reflexivity.
Qed.

Lemma json_write_tail_tie e2 e3 tr : jsonHandleWriteTail e2 e3 tr = json_write_tail e2 e3 tr.
Proof.
  unfold jsonHandleWriteTail, json_write_tail.
  destruct e2; cbn [app]; rewrite <- ?app_assoc; reflexivity.
Qed.

Lemma thrift_write_tail_tie serr cerr tr : thriftHandleWriteTail serr cerr tr = thrift_write_tail serr cerr tr.
Proof.
  unfold thriftHandleWriteTail, thrift_write_tail.
  destruct serr; cbn [app]; rewrite <- ?app_assoc; reflexivity.
Qed.

(* no Close() / SendSystemError() / Flush() call anywhere in the helper layers beyond those counted *)
Lemma helper_census_ok : helper_census = helper_census_expected.
Proof. reflexivity. Qed.

(* the decision of the model's HHelperWrite step is the generated function's *)
Lemma helper_closes_gen ok :
  helper_closes ok = existsb (Z.eqb 2) (fst (argWriteHelperWrite false (negb ok) false [])).
Proof. rewrite arg_write_helper_tie. reflexivity. Qed.

(* ---- (2) the contract, on the generated functions ----------------------------------------- *)

Definition has (m : Z) (t : list Z) : bool := existsb (Z.eqb m) t.
Fixpoint occ (m : Z) (t : list Z) : nat :=
  match t with [] => O | x :: r => if x =? m then S (occ m r) else occ m r end.

(* ArgWriteHelper.write, trace from scratch: the writer is closed iff neither the sticky error
   nor f() failed; never more than once; f() runs first; a closed writer means the result is
   Close's own; an open writer means an error is reported *)
Lemma arg_write_helper_contract werr ferr cerr :
  let (t, e) := argWriteHelperWrite werr ferr cerr [] in
  has 2 t = negb (werr || ferr) /\ (occ 2 t <= 1)%nat /\
  (has 2 t = true -> t = [1; 2] /\ e = cerr) /\
  (has 2 t = false -> e = true) /\
  has 1 t = negb werr.
Proof.
  rewrite arg_write_helper_tie.
  destruct werr, ferr, cerr; cbn; repeat split; try lia; try discriminate; auto.
Qed.

(* whatever trace came before, the helper only appends to it *)
Lemma arg_write_helper_appends werr ferr cerr tr :
  fst (argWriteHelperWrite werr ferr cerr tr) = tr ++ fst (argWriteHelperWrite werr ferr cerr []) /\
  snd (argWriteHelperWrite werr ferr cerr tr) = snd (argWriteHelperWrite werr ferr cerr []).
Proof.
  rewrite !arg_write_helper_tie. unfold helper_write.
  destruct werr, ferr; cbn [fst snd app]; rewrite ?app_nil_r; auto.
Qed.

(* ArgReadHelper.read: f, then the emptiness check, then Close -- each only after the previous
   one succeeded; the reader is closed iff nothing failed before *)
Lemma arg_read_helper_contract rerr ferr eerr cerr :
  let (t, e) := argReadHelperRead rerr ferr eerr cerr [] in
  has 3 t = negb (rerr || ferr || eerr) /\
  (has 3 t = true -> t = [1; 2; 3] /\ e = cerr) /\
  (has 3 t = false -> e = true).
Proof.
  rewrite arg_read_helper_tie.
  destruct rerr, ferr, eerr, cerr; cbn; repeat split; try discriminate; auto.
Qed.

(* ErrorHandlerFunc.Handle: the function runs once; one SendSystemError iff it returned an error *)
Lemma error_handler_func_contract herr :
  occ 1 (errorHandlerFuncHandle herr []) = 1%nat /\
  occ 2 (errorHandlerFuncHandle herr []) = (if herr then 1 else 0)%nat.
Proof. rewrite error_handler_func_tie. destruct herr; cbn; auto. Qed.

(* thrift Server.handle: a result that cannot be serialized is answered with one system error and
   the writer is NOT closed; otherwise the writer is closed and no system error is sent *)
Lemma thrift_write_tail_contract serr cerr :
  let (t, e) := thriftHandleWriteTail serr cerr [] in
  has 2 t = serr /\ has 3 t = negb serr /\ (occ 2 t <= 1)%nat /\ (occ 3 t <= 1)%nat /\
  (serr = true -> e = true).
Proof.
  rewrite thrift_write_tail_tie. destruct serr, cerr; cbn; repeat split; try lia; auto.
Qed.

(* raw.WriteResponse: a system error excludes every arg write; arg3 is written only after arg2
   was written successfully; an error is reported as soon as a step fails *)
Lemma raw_write_response_contract has_sys is_err serr aerr e2 e3 :
  let (t, e) := rawWriteResponse has_sys is_err serr aerr e2 e3 [] in
  (has 9 t = true -> has 2 t = false /\ has 3 t = false /\ has 8 t = false) /\
  has 9 t = has_sys /\
  (has 3 t = true -> has 2 t = true /\ e2 = false /\ e = e3) /\
  (has_sys = false -> has 3 t = false -> e = true).
Proof.
  rewrite raw_write_response_tie.
  destruct has_sys, is_err, serr, aerr, e2, e3; cbn; repeat split; try discriminate; auto.
Qed.

Lemma json_write_tail_contract e2 e3 :
  let (t, e) := jsonHandleWriteTail e2 e3 [] in
  has 3 t = negb e2 /\ (has 3 t = true -> e = e3) /\ (has 3 t = false -> e = true).
Proof.
  rewrite json_write_tail_tie. destruct e2, e3; cbn; repeat split; try discriminate; auto.
Qed.

(* ---- (3) the model step ---------------------------------------------------------------------- *)

(* with a successful f() the helper step is the Close step *)
Lemma helper_ok_is_close st id ff : step st (HHelperWrite id true ff) = step st (HClose id ff).
Proof.
  cbn [step]. unfold with_call. destruct (get id (calls st)) as [c|]; [|reflexivity].
  unfold hstep. destruct (h_pc c); try reflexivity.
Qed.

(* with a failed f() the response is not touched: only the result is recorded *)
Lemma helper_fail_step st id c ff :
  get id (calls st) = Some c -> h_pc c = PIdle ->
  step st (HHelperWrite id false ff) = Some (commit st id (ret c 1) false).
Proof.
  intros G Hpc. cbn [step]. unfold with_call. rewrite G. unfold hstep. rewrite Hpc. reflexivity.
Qed.

Theorem helper_fail_untouched prop ls st id c ff :
  run prop ls = Some st -> get id (calls st) = Some c -> h_pc c = PIdle ->
  exists st', run prop (ls ++ [HHelperWrite id false ff]) = Some st' /\
    sent st' = sent st /\ cst st' = cst st /\ stopped st' = stopped st /\
    get id (calls st') = Some (ret c 1) /\
    (* the record of the call differs in the recorded results only *)
    g_rets (ret c 1) = g_rets c ++ [1] /\ h_pc (ret c 1) = h_pc c /\ w_err (ret c 1) = w_err c /\
    w_state (ret c 1) = w_state c /\ f_state (ret c 1) = f_state c /\ f_err (ret c 1) = f_err c /\
    f_cur (ret c 1) = f_cur c /\ g_dones (ret c 1) = g_dones c /\ in_ex (ret c 1) = in_ex c.
Proof.
  intros H G Hpc. exists (commit st id (ret c 1) false).
  unfold run in *. rewrite run_from_app, H. cbn [run_from]. rewrite (helper_fail_step _ _ _ ff G Hpc).
  split; [reflexivity|]. rewrite sent_commit, get_commit_same.
  repeat split; try reflexivity. cbn [h_pc ret]. symmetry; exact Hpc.
Qed.

(* "a handler error is reported as an error frame, not as an empty success": the helper write of a
   dispatched call fails above the transport (nothing is closed), the handler answers with ONE
   system error: for every continuation the caller gets the frames sent before followed by
   exactly one error frame *)
Theorem helper_fail_syserr_delivered prop ls1 st1 id c ff ls2 st :
  run prop ls1 = Some st1 -> stopped st1 = false ->
  get id (calls st1) = Some c -> h_pc c = PIdle -> in_ex c = true -> w_err c = false ->
  run prop (ls1 ++ HHelperWrite id false ff :: HSysErr id false :: ls2) = Some st ->
  (req_count id (ls1 ++ HHelperWrite id false ff :: HSysErr id false :: ls2) <= 1)%nat ->
  handler_ok id false (ls1 ++ HHelperWrite id false ff :: HSysErr id false :: ls2) = true ->
    proj id (sent st) = proj id (sent st1) ++ [Err] /\
    wire_ok (proj id (sent st)) = true /\
    filter terminal (proj id (sent st)) = [Err].
Proof.
  intros H1 Hs G Hpc E We Hrun Hc Hok.
  destruct (helper_fail_untouched prop ls1 st1 id c ff H1 G Hpc)
    as (st1' & H1' & Sent & _ & Stop & G' & _ & Hpc' & We' & _ & _ & _ & _ & _ & E').
  assert (L : ls1 ++ HHelperWrite id false ff :: HSysErr id false :: ls2 =
              (ls1 ++ [HHelperWrite id false ff]) ++ HSysErr id false :: ls2)
    by (rewrite <- app_assoc; reflexivity).
  rewrite L in Hrun, Hc, Hok.
  rewrite <- Sent.
  eapply (respwire_syserr_delivered prop _ st1' id (ret c 1) ls2 st); try eassumption; congruence.
Qed.

(* the discipline is necessary.  Call 7: arg2 written with the helper, the helper write of arg3
   fails in f().  As the helper is (writer left open) the handler's system error is the only
   frame; a helper that closes its writer on that path all the same (the Close step, its flush,
   doneSending) has completed an EMPTY response, and the same system error follows it *)
Definition helper_prelude : list label :=
  [RdCallReq1 7 false; RdCallReq2 true false; RdCallReq3 false; HStart 7 true; HResp 7;
   HArgWriter 7 1; HClose 7 false; HArgWriter 7 2; HHelperWrite 7 true false; HArgWriter 7 3].
Definition helper_as_is : list label := [HHelperWrite 7 false false; HSysErr 7 false].
Definition helper_closing_on_error : list label :=
  [HClose 7 false; HFlushSel 7 true; HDone 7; HSysErr 7 false].

Lemma helper_close_on_error_refuted :
  (handler_ok 7 false (helper_prelude ++ helper_as_is) = true /\
   exists st, run false (helper_prelude ++ helper_as_is) = Some st /\ proj 7 (sent st) = [Err] /\
              wire_ok (proj 7 (sent st)) = true /\
              exists c, get 7 (calls st) = Some c /\ g_rets c = [0; 0; 0; 0; 0; 1; 0]) /\
  (handler_ok 7 false (helper_prelude ++ helper_closing_on_error) = false /\
   exists st, run false (helper_prelude ++ helper_closing_on_error) = Some st /\
              proj 7 (sent st) = [Res false; Err] /\ wire_prefix_ok (proj 7 (sent st)) = false /\
              In 7 (misused st)).
Proof.
  split.
  - split; [reflexivity|]. eexists. split; [vm_compute; reflexivity|].
    split; [vm_compute; reflexivity|]. split; [vm_compute; reflexivity|].
    eexists. split; vm_compute; reflexivity.
  - split; [reflexivity|]. eexists. split; [vm_compute; reflexivity|].
    split; [vm_compute; reflexivity|]. split; [vm_compute; reflexivity|].
    vm_compute. left; reflexivity.
Qed.
