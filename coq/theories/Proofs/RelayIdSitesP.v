(* C08 clauses (b)/(c): the id tables go2v regenerates from the relay files on every run
   (Gen/GenRelayIdSites.v, go2v/relayidsites.go) obey the id-space discipline of
   Model/RelayIdSites.v, the three site tables that are instructions of the model are the model's
   copy, and the model's instructions behave as the rows say: an item is failed under the id the
   frame was READ with (own space), the frame travels on under the id of the other connection.
   An edit that makes an error / clean-up path use the rewritten header id, the remapID or the
   destination's fresh id (or the other relayer's table) changes a generated table and breaks a
   proof of this file. *)
From Coq Require Import ZArith List Bool Lia String.
From Verif Require Import Base.Wrap Gen.GenConsts Gen.GenFrame Gen.GenRelayIdSites Model.RelayItems Model.RelaySites
  Model.RelayIdSites.
Import ListNotations.
Local Open Scope Z_scope.

(* ---------------------------------------------------------------- the generated tables *)

Lemma gen_id_discipline :
  id_discipline relay_id_args relay_id_stores relay_frame_args relay_fail_sites relay_syserr_sites
                relay_fragsender_lit relay_funcval_sites = true.
Proof. vm_compute. reflexivity. Qed.

Lemma gen_fail_sites : relay_fail_sites = ri_fail_rows.
Proof. vm_compute. reflexivity. Qed.
Lemma gen_syserr_sites : relay_syserr_sites = ri_syserr_rows.
Proof. vm_compute. reflexivity. Qed.
Lemma gen_fragsender_lit : relay_fragsender_lit = ri_lit_rows.
Proof. vm_compute. reflexivity. Qed.

Definition gen_space (fn id : list Z) : idsp := space_of relay_id_args relay_id_stores relay_frame_args fn id.

(* row by row: the id of every fail site and of every SendSystemError site is an id of the
   relayer's OWN connection; every frame a Receive gets carries the receiving relayer's id *)
Lemma gen_fail_own :
  forallb (fun row => let '(fn, callee, _, id, _) := row in idsp_eqb (adj callee (gen_space fn id)) SpOwn) relay_fail_sites = true.
Proof. vm_compute. reflexivity. Qed.
Lemma gen_syserr_own :
  forallb (fun row => let '(fn, rcv, id) := row in bytes_eqb rcv (s2z "r.conn") && idsp_eqb (gen_space fn id) SpOwn) relay_syserr_sites = true.
Proof. vm_compute. reflexivity. Qed.
Lemma gen_receive_own : frame_space relay_frame_args 10 (s2z "Relayer.Receive") = SpOwn.
Proof. vm_compute. reflexivity. Qed.
(* the header of a forwarded frame is rewritten to the id of the other connection, and the frame
   reaches the fragment sender only after that *)
Lemma gen_sender_remote : frame_space relay_frame_args 10 (s2z "Relayer.newFragmentSender") = SpRemote.
Proof. vm_compute. reflexivity. Qed.

(* ---------------------------------------------------------------- the checker is not vacuous *)

Definition set_store (f v : list Z) (tbl : list (list Z * list Z * list Z)) :=
  map (fun row => let '(fn, f', v') := row in if bytes_eqb f' f then (fn, f', v) else row) tbl.
Definition set_fail_id (fn id : list Z) (tbl : list (list Z * list Z * list Z * list Z * list Z)) :=
  map (fun row => let '(fn', c, it, id', r) := row in if bytes_eqb fn' fn then (fn', c, it, id, r) else row) tbl.
Definition set_arg (callee p arg : list Z) (tbl : list (list Z * list Z * list Z * list Z)) :=
  map (fun row => let '(fn, c, p', a) := row in if bytes_eqb c callee && bytes_eqb p' p then (fn, c, p', arg) else row) tbl.

(* the fragment sender records the header id of the call req it is built with (already rewritten) *)
Example discipline_rejects_sender_hdr :
  id_discipline relay_id_args (set_store (s2z "relayFragmentSender.origID") (s2z "cr.Header.ID@pre") relay_id_stores)
    relay_frame_args relay_fail_sites relay_syserr_sites relay_fragsender_lit relay_funcval_sites = false.
Proof. vm_compute. reflexivity. Qed.
(* handleCallReq / handleNonCallReq fail their item under the header id after the rewrite *)
Example discipline_rejects_post_hdr :
  id_discipline relay_id_args relay_id_stores relay_frame_args
    (set_fail_id (s2z "Relayer.handleCallReq") (s2z "f.Header.ID@post") relay_fail_sites)
    relay_syserr_sites relay_fragsender_lit relay_funcval_sites = false /\
  id_discipline relay_id_args relay_id_stores relay_frame_args
    (set_fail_id (s2z "Relayer.handleNonCallReq") (s2z "f.Header.ID@post") relay_fail_sites)
    relay_syserr_sites relay_fragsender_lit relay_funcval_sites = false.
Proof. split; vm_compute; reflexivity. Qed.
(* the relay timer is started with the id of the other connection: the timeout error and the Entomb
   of timeoutRelayItem would use it *)
Example discipline_rejects_timer_remap :
  id_discipline (set_arg (s2z "item.timeout.Start") (s2z "id") (s2z "param:remapID") relay_id_args)
    relay_id_stores relay_frame_args relay_fail_sites relay_syserr_sites relay_fragsender_lit relay_funcval_sites = false.
Proof. vm_compute. reflexivity. Qed.
(* the frame is handed to the destination's Receive before its header is rewritten *)
Example discipline_rejects_unrewritten_frame :
  id_discipline relay_id_args relay_id_stores
    (map (fun row => let '(fn, c, a) := row in
       if bytes_eqb c (s2z "item.destination.Receive") then (fn, c, s2z "f@pre") else row) relay_frame_args)
    relay_fail_sites relay_syserr_sites relay_fragsender_lit relay_funcval_sites = false.
Proof. vm_compute. reflexivity. Qed.

(* ---------------------------------------------------------------- the rows as instructions of the model *)

(* own space = the id the frame was read with; remote space = the id on the other connection *)
Lemma site_key_own : forall k dir id rid, site_key SpOwn k dir id rid = Some (k, dir, id).
Proof. reflexivity. Qed.

Lemma fail_sites_model : forall cf st,
  (* row 1, Relayer.Receive: the receiving relayer fails ITS item of the frame (key rk), then answers
     not-sent and the caller fails its own *)
  (forall r rk lk, exists reason,
     exec cf st (IRcvEnq r rk lk) false = (st, [IFailGet rk reason; IFailGet (r_own r) reason])) /\
  (* row 2, handleCallReq: fragmentingSend failed before the first fragment *)
  (forall k f e c d did, e_mode e <? 0 = true -> exists st1,
     exec cf st (IAddOrig k f e c d did) true = (st1, [IFailGet (k, 0, f_id f) reason_arg2_modify])) /\
  (* rows 3 and 5, handleCallReq / flushFragment: the call req (first fragment) is sent under the
     destination id did; the item to fail is filed under the id read, f_id f *)
  (forall k f e c d did, e_mode e <? 0 = false -> exists st1 r,
     exec cf st (IAddOrig k f e c d did) true = (st1, [ICb c CbSent; IRcvGet r]) /\
     r_own r = (k, 0, f_id f) /\ f_id (r_f r) = did /\ r_d r = d) /\
  (* row 4, handleNonCallReq: the frame is sent under the item's remapID; the item to fail is the
     reader's own *)
  (forall k f ft own it stopped, it_tomb it || (fin_of f && negb stopped) = false -> exists pre r,
     exec cf st (INcChk k f ft own (Some (it, stopped))) true = (st, pre ++ [IRcvGet r]) /\
     r_own r = own /\ f_id (r_f r) = it_remap it /\ r_d r = it_dest it) /\
  (* row 5, flushFragment: every further fragment keeps the own item and the destination id *)
  (forall r r', In (IRcvGet r') (after_sent r) ->
     r_own r' = r_own r /\ f_id (r_f r') = f_id (r_f r) /\ r_d r' = r_d r) /\
  (* the not-sent answer of Receive: the caller fails its own item *)
  (forall r reason, after_unsent r reason = [IFailGet (r_own r) reason]).
Proof.
  intros cf st. repeat split.
  - intros r rk lk. eexists. cbn. reflexivity.
  - intros k f e c d did Hm. unfold exec, timer_new. cbn [fst snd]. rewrite Hm. eexists. reflexivity.
  - intros k f e c d did Hm. unfold exec, timer_new. cbn [fst snd]. rewrite Hm. eexists. eexists. split; [reflexivity|].
    cbn. repeat split; reflexivity.
  - intros k f ft own it stopped Hg. cbn [exec]. rewrite Hg.
    eexists ((if (f_mt f =? c_messageTypeCallRes) && f_wf f then [ICb (it_call it) CbResp] else []) ++
             [ICb (it_call it) (if ft =? c_requestFrame then CbSent else CbRecv)]).
    eexists. split; [rewrite <- app_assoc; reflexivity|]. cbn. repeat split; reflexivity.
  - unfold after_sent in H. apply in_app_or in H. destruct H as [H|H].
    + destruct (fin_of (r_f r)); [|contradiction]. destruct H as [H|[]]. discriminate.
    + destruct (0 <? r_more r); [|contradiction]. destruct H as [H|[H|[]]]; [discriminate|]. inversion H. reflexivity.
  - unfold after_sent in H. apply in_app_or in H. destruct H as [H|H].
    + destruct (fin_of (r_f r)); [|contradiction]. destruct H as [H|[]]. discriminate.
    + destruct (0 <? r_more r); [|contradiction]. destruct H as [H|[H|[]]]; [discriminate|]. inversion H. reflexivity.
  - unfold after_sent in H. apply in_app_or in H. destruct H as [H|H].
    + destruct (fin_of (r_f r)); [|contradiction]. destruct H as [H|[]]. discriminate.
    + destruct (0 <? r_more r); [|contradiction]. destruct H as [H|[H|[]]]; [discriminate|]. inversion H. reflexivity.
Qed.

(* rows 6 and 7 of the SendSystemError table: the error frames of timeoutRelayItem / failRelayItem
   carry the connection and id of the key that was entombed *)
Lemma syserr_sites_model : forall k id c s j,
  In j (orig_tail k id c s) -> forall k' id' code, j = ISendErr k' id' code -> k' = k /\ id' = id.
Proof.
  intros k id c s j Hj k' id' code ->. unfold orig_tail in Hj. destruct s as [reason|o].
  - apply in_app_or in Hj. destruct Hj as [Hj|Hj].
    + destruct (reason =? reason_source_slow); [contradiction|]. destruct Hj as [Hj|[]]. inversion Hj. split; reflexivity.
    + destruct Hj as [Hj|[Hj|[]]]; discriminate.
  - destruct Hj as [Hj|[Hj|[Hj|[]]]]; try discriminate. inversion Hj. split; reflexivity.
Qed.
