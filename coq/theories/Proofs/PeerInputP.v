(* No-panic facts about the per-frame path (C03). *)
From Coq Require Import ZArith List Bool Lia ZifyBool.
From Verif Require Import Base.Wrap Base.Bytes Gen.GenConsts Gen.GenFrame Model.TypedBuf Model.Messages
  Model.Crc Model.Frag Model.FragWire Proofs.CodecP Proofs.CodecsP.
Import ListNotations.
Local Open Scope Z_scope.

Lemma skipn_skipn' {A} (a b : nat) (l : list A) : skipn b (skipn a l) = skipn (a + b) l.
Proof.
  revert l. induction a as [|a IH]; intros l; [reflexivity|]. destruct l as [|x l]; [destruct b; reflexivity|]. cbn [skipn Nat.add]. apply IH.
Qed.

(* every reader leaves a suffix of what it was given *)
Definition rsuffix {A} (rd : rbuf -> A * rbuf) : Prop := forall r, exists k, rrem (snd (rd r)) = skipn k (rrem r).

Lemma suffix_ret {A} (v : A) : rsuffix (retR v).
Proof. intros r. exists 0%nat. reflexivity. Qed.
Lemma suffix_bytes n : rsuffix (r_bytes n).
Proof.
  intros r. unfold r_bytes. destruct (rerr r); [exists 0%nat; reflexivity|].
  destruct (length (rrem r) <? n)%nat; [exists 0%nat; reflexivity|]. exists n. reflexivity.
Qed.
Lemma suffix_bind {A B} (m : rbuf -> A * rbuf) (k : A -> rbuf -> B * rbuf) :
  rsuffix m -> (forall x, rsuffix (k x)) -> rsuffix (bindR m k).
Proof.
  intros Hm Hk r. unfold bindR. destruct (Hm r) as [a Ha]. destruct (m r) as [x r1]. cbn [snd] in Ha.
  destruct (Hk x r1) as [b Hb]. exists (a + b)%nat. rewrite Hb, Ha. rewrite skipn_skipn'. reflexivity.
Qed.

Ltac suffix_tac :=
  intros; repeat first [ apply suffix_ret | apply suffix_bytes | (apply suffix_bind; [|intros]) ].

Lemma suffix_uint n : rsuffix (r_uint n).
Proof. unfold r_uint. apply suffix_bind; [apply suffix_bytes|]. intros b r. exists 0%nat. reflexivity. Qed.
Lemma suffix_len8 : rsuffix r_len8.
Proof. unfold r_len8, r_string. apply suffix_bind; [apply suffix_uint|intros; apply suffix_bytes]. Qed.
Lemma suffix_span : rsuffix r_span.
Proof. unfold r_span. repeat (apply suffix_bind; [apply suffix_uint|intros]). apply suffix_ret. Qed.
Lemma suffix_kv8s n : rsuffix (r_kv8s n).
Proof.
  induction n as [|n IH]; cbn [r_kv8s]; [apply suffix_ret|].
  apply suffix_bind; [apply suffix_len8|intros]. apply suffix_bind; [apply suffix_len8|intros].
  apply suffix_bind; [apply IH|intros]. apply suffix_ret.
Qed.
Lemma suffix_headers : rsuffix r_headers.
Proof. unfold r_headers. apply suffix_bind; [apply suffix_uint|intros; apply suffix_kv8s]. Qed.
Lemma suffix_callreq : rsuffix r_callreq.
Proof.
  unfold r_callreq. apply suffix_bind; [apply suffix_uint|intros]. apply suffix_bind; [apply suffix_span|intros].
  apply suffix_bind; [apply suffix_len8|intros]. apply suffix_bind; [apply suffix_headers|intros]. apply suffix_ret.
Qed.
Lemma suffix_callres : rsuffix r_callres.
Proof.
  unfold r_callres. apply suffix_bind; [apply suffix_uint|intros]. apply suffix_bind; [apply suffix_span|intros].
  apply suffix_bind; [apply suffix_headers|intros]. apply suffix_ret.
Qed.

Lemma suffix_bytes_ok {A} (rd : rbuf -> A * rbuf) r : rsuffix rd -> bytes_ok (rrem r) = true -> bytes_ok (rrem (snd (rd r))) = true.
Proof. intros H Hb. destruct (H r) as [k Hk]. rewrite Hk. apply bytes_ok_skipn, Hb. Qed.

(* a byte read from a byte buffer is a byte *)
Lemma r_u8_range r v r1 : bytes_ok (rrem r) = true -> r_u8 r = (v, r1) -> 0 <= v < 256.
Proof.
  intros Hb E. unfold r_u8, r_uint, bindR in E. destruct (r_bytes 1 r) as [b r'] eqn:E3.
  injection E as Ev Er. destruct (rerr r'); [lia|]. subst v.
  unfold r_bytes in E3. destruct (rerr r); [injection E3 as Eb _; subst b; cbn; lia|].
  destruct (length (rrem r) <? 1)%nat; injection E3 as Eb _; subst b; [cbn; lia|].
  pose proof (unbe_range (firstn 1 (rrem r)) (bytes_ok_firstn 1 _ Hb)) as R.
  assert (L : (length (firstn 1 (rrem r)) <= 1)%nat) by (rewrite firstn_length; lia).
  assert (256 ^ Z.of_nat (length (firstn 1 (rrem r))) <= 256).
  { destruct (length (firstn 1 (rrem r))) as [|[|n]]; [cbn; lia|cbn; lia|lia]. }
  change (match rrem r with [] => [] | a :: _ => [a] end) with (firstn 1 (rrem r)). lia.
Qed.

(* MAIN: for ALL payload bytes and message types, a fragment accepted by the parser carries a
   known checksum type, so ChecksumType.New() (pool index lookup) cannot panic *)
Theorem parsed_ctype_known mt payload f : bytes_ok payload = true ->
  parse_frag_payload mt payload = (0, f) -> 0 <= f_ctype f < c_checksumCount /\ ck_new (f_ctype f) <> None.
Proof.
  intros Hb. unfold parse_frag_payload. destruct (r_u8 (rb payload)) as [flags r0] eqn:E0.
  assert (B0 : bytes_ok (rrem r0) = true).
  { pose proof (suffix_bytes_ok r_u8 (rb payload) (suffix_uint 1) Hb) as X. rewrite E0 in X. exact X. }
  set (r1 := if mt =? c_messageTypeCallReq then snd (r_callreq r0) else if mt =? c_messageTypeCallRes then snd (r_callres r0) else r0).
  assert (B1 : bytes_ok (rrem r1) = true).
  { unfold r1. destruct (mt =? c_messageTypeCallReq); [apply (suffix_bytes_ok r_callreq r0 suffix_callreq B0)|].
    destruct (mt =? c_messageTypeCallRes); [apply (suffix_bytes_ok r_callres r0 suffix_callres B0)|exact B0]. }
  destruct (rerr r1); [discriminate|].
  unfold parse_frag_tail. destruct (r_u8 r1) as [ct r2] eqn:E1.
  pose proof (r_u8_range _ _ _ B1 E1) as Rct.
  destruct ((ct >=? c_checksumCount) && negb (rerr r2)) eqn:G; [discriminate|].
  destruct (r_bytes (Z.to_nat (ChecksumSize ct)) r2) as [ck r3] eqn:E2.
  destruct (rerr r3) eqn:R3; [discriminate|].
  destruct (parse_chunks (length (rrem r3)) r3 []) as [code cs]. intros H. inversion H; subst. cbn [f_ctype].
  assert (R2 : rerr r2 = false).
  { unfold r_bytes in E2. destruct (rerr r2) eqn:R2; [|reflexivity]. inversion E2; subst. congruence. }
  rewrite R2 in G. cbn [negb] in G. rewrite andb_true_r in G.
  assert (C : 0 <= ct < c_checksumCount) by lia. split; [exact C|].
  unfold ck_new. replace ((ct <? 0) || (ct >=? c_checksumCount)) with false by lia.
  destruct (ct =? c_ChecksumTypeCrc32); [discriminate|]. destruct (ct =? c_ChecksumTypeCrc32C); discriminate.
Qed.

(* ... and receiving that fragment as the first of a message does not panic either: it is
   accepted, or fails with a checksum mismatch (8) or "no chunks" (13) *)
Theorem parsed_fragment_no_panic mt payload f : bytes_ok payload = true ->
  parse_frag_payload mt payload = (0, f) ->
  exists c st, r_recv (r_init [f]) = Some (c, st) /\ (c = 0 \/ c = 8 \/ c = 13).
Proof.
  intros Hb Hp. destruct (parsed_ctype_known _ _ _ Hb Hp) as [_ Hn].
  unfold r_recv, r_init. cbn [rs_err rs_in rs_ck rs_got rs_rel Z.eqb negb].
  destruct (ck_new (f_ctype f)) as [c|] eqn:E; [|congruence].
  cbn [andb negb]. rewrite andb_false_r.
  destruct (bytes_eqb (f_ck f) (ck_sum (fold_left ck_add (f_chunks f) c))); cbn [negb].
  - destruct (f_chunks f); eexists; eexists; (split; [reflexivity|]); auto.
  - eexists; eexists; (split; [reflexivity|]); auto.
Qed.

(* relay connections: of all 256 message type bytes, Relayer.Relay (which calls frameTypeFor,
   a function that panics on unknown types) is reached only with types frameTypeFor accepts *)
Theorem relay_route_safe : forall mt pc, 0 <= mt < 256 -> relayRoute mt pc = 1 -> frameTypeFor mt <> None.
Proof.
  intros mt pc _ H. unfold relayRoute in H. unfold frameTypeFor.
  destruct ((mt =? c_messageTypeCancel) && negb pc); [discriminate|].
  cbv zeta in H.
  destruct ((mt =? c_messageTypeCallReq) || (mt =? c_messageTypeCallReqContinue) || (mt =? c_messageTypeCallRes)
            || (mt =? c_messageTypeCallResContinue) || (mt =? c_messageTypeError) || (mt =? c_messageTypeCancel)) eqn:G; [|discriminate].
  cbv zeta.
  destruct ((mt =? c_messageTypeCallRes) || (mt =? c_messageTypeCallResContinue) || (mt =? c_messageTypeError) || (mt =? c_messageTypePingRes)) eqn:A; [discriminate|].
  destruct ((mt =? c_messageTypeCallReq) || (mt =? c_messageTypeCallReqContinue) || (mt =? c_messageTypePingReq) || (mt =? c_messageTypeCancel)) eqn:B; [discriminate|].
  exfalso. lia.
Qed.
