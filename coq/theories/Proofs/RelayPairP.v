(* Relay model: invariants of runs WITHOUT OVERLAP (RelayCalmP.no_overlap) used by the C10 grammar
   theorem:
   - the two items of a relayed call point at each other (pairing), ids of destination items
     are allocated before use;
   - a reader that holds a looked-up live copy of a destination item keeps that item live and
     unchanged until it is done with the frame (nobody else may act on the call);
   - a fired timer whose item is still live holds the call, hence a Get that has to stop a
     timer never loses against the timer in such a run. *)
From Coq Require Import ZArith List Bool Lia.
From Verif Require Import Base.Wrap Gen.GenConsts Gen.GenFrame Model.RelayItems Spec.WireOk
  Proofs.RelayAssocP Proofs.RelayCoreP Proofs.RelayInv9P Proofs.RelayTimerP Proofs.RelayThmP Proofs.RelaySilentP
  Proofs.RelayWireP Proofs.RelayCalmP.
Import ListNotations.
Local Open Scope Z_scope.

(* ---------------------------------------------------------------- more facts about one instruction *)

(* admission instructions are only pushed by the previous admission instruction of the same request *)
Lemma pushed_adm : forall cf st i room st1 pushed j k f, exec cf st i room = (st1, pushed) ->
  In j pushed -> adm_kf j = Some (k, f) ->
  adm_kf i = Some (k, f) /\
  (forall k' f' e c d did, j = IAddOrig k' f' e c d did -> i = IAddDest k' f' e c d /\ did = c_nextid (get_conn st d)) /\
  (forall k' f' e c d did, i <> IAddOrig k' f' e c d did).
Proof.
  intros cf st i room st1 pushed j k f H Hj Ha. destruct i; cbn [exec] in H.
  - destruct (e_start e =? 0); inversion H; subst; clear H.
    + destruct Hj as [<-|[]]. cbn in Ha. split; [exact Ha|]. split; intros; discriminate.
    + in_cases Hj; discriminate.
  - destruct (c_state (get_conn st k0) =? c_connectionActive); inversion H; subst; clear H; in_cases Hj; try discriminate.
    cbn in Ha. split; [exact Ha|]. split; intros; discriminate.
  - destruct (klookup (k0, 0, f_id f0) (items st)); [|destruct (e_dest e =? -1); [|destruct (e_dest e <? 0)]];
      inversion H; subst; clear H; in_cases Hj; try discriminate.
    cbn in Ha. split; [exact Ha|]. split; intros; discriminate.
  - destruct (c_state (get_conn st d) =? c_connectionActive); inversion H; subst; clear H; in_cases Hj; try discriminate.
    cbn in Ha. split; [exact Ha|]. split; intros; discriminate.
  - unfold timer_new in H. cbn [fst snd] in H. inversion H; subst; clear H. destruct Hj as [<-|[]].
    cbn in Ha. split; [exact Ha|]. split; [|intros; discriminate]. intros k' f' e' c' d' did' Heq. inversion Heq. subst. split; reflexivity.
  - unfold timer_new in H. cbn [fst snd] in H. inversion H; subst; clear H. in_cases Hj; discriminate.
  - inversion H; subst. contradiction.
  - inversion H; subst. contradiction.
  - destruct ((c_state (get_conn st k0) =? c_connectionClosed) || negb room); inversion H; subst; contradiction.
  - destruct (c_state (get_conn st k0) =? c_connectionActive); inversion H; subst; contradiction.
  - destruct (frameTypeFor (f_mt f0)); [|inversion H; subst; contradiction].
    match type of H with context [items_get ?a ?b ?cc] => destruct (items_get a b cc) as [st' g] end.
    inversion H; subst. destruct Hj as [<-|[]]. discriminate.
  - destruct g as [[it stopped]|]; [|inversion H; subst; contradiction].
    destruct (it_tomb it || (fin_of f0 && negb stopped)); inversion H; subst; [contradiction|]. in_cases Hj; discriminate.
  - match type of H with context [items_get ?a ?b ?cc] => destruct (items_get a b cc) as [st' g] end.
    inversion H; subst. destruct Hj as [<-|[]]. discriminate.
  - destruct g as [[it stopped]|].
    + destruct (it_tomb it || (fin_of (r_f r) && negb stopped)); inversion H; subst; clear H.
      * destruct (after_sent_shape _ _ Hj) as (_&_&Hn&_). congruence.
      * apply in_app_or in Hj. destruct Hj as [Hj|[<-|[]]]; [in_cases Hj; discriminate|discriminate].
    + inversion H; subst. in_cases Hj. discriminate.
  - destruct room; inversion H; subst; clear H.
    + apply in_app_or in Hj. destruct Hj as [Hj|Hj]; [in_cases Hj; discriminate|].
      destruct (after_sent_shape _ _ Hj) as (_&_&Hn&_). congruence.
    + in_cases Hj; discriminate.
  - destruct (items_get st t true) as [st' g]. destruct g as [[it [|]]|]; inversion H; subst; try contradiction.
    destruct Hj as [<-|[]]. discriminate.
  - destruct (items_entomb cf st t) as [st' g]. destruct g as [[it [|]]|]; inversion H; subst; try contradiction.
    apply in_app_or in Hj. destruct Hj as [Hj|[<-|[]]]; [|discriminate].
    destruct (match s with FromFail _ => it_orig it | FromTimeout o => o end); [|contradiction].
    unfold orig_tail in Hj. destruct s; in_cases Hj; discriminate.
  - destruct (items_delete st t) as [st' g]. destruct g as [[it [|]]|]; inversion H; subst; try contradiction.
    in_cases Hj; discriminate.
  - destruct (zlookup tm (timers st)) as [x|]; [|inversion H; subst; contradiction].
    destruct (tm_released x); inversion H; subst; try contradiction. destruct Hj as [<-|[]]. discriminate.
Qed.

(* an item stays in the table, unchanged, unless the instruction is the Entomb / Delete of its
   key (or an Add of the same key, which the freshness of keys excludes) *)
Lemma exec_items_keep : forall cf st i room st1 pushed t it, exec cf st i room = (st1, pushed) ->
  klookup t (items st) = Some it ->
  klookup t (items st1) = Some it \/ (exists s, i = IEntomb t s) \/ i = IDelete t \/
  (exists k f e c d, i = IAddDest k f e c d /\ t = (d, 1, c_nextid (get_conn st d))) \/
  (exists k f e c d did, i = IAddOrig k f e c d did /\ t = (k, 0, f_id f)).
Proof.
  intros cf st i room st1 pushed t it H Hl.
  assert (Hsame : items st1 = items st -> klookup t (items st1) = Some it \/ (exists s, i = IEntomb t s) \/ i = IDelete t \/
            (exists k f e c d, i = IAddDest k f e c d /\ t = (d, 1, c_nextid (get_conn st d))) \/
            (exists k f e c d did, i = IAddOrig k f e c d did /\ t = (k, 0, f_id f))).
  { intro He. left. rewrite He. exact Hl. }
  destruct i; cbn [exec] in H.
  - apply Hsame. destruct (e_start e =? 0); [inversion H; reflexivity|].
    destruct ((e_start e =? 1) || (e_start e =? 3)); inversion H; reflexivity.
  - apply Hsame. destruct (c_state (get_conn st k) =? c_connectionActive); inversion H; reflexivity.
  - apply Hsame. destruct (klookup (k, 0, f_id f) (items st)); [inversion H; reflexivity|].
    destruct (e_dest e =? -1); [inversion H; reflexivity|]. destruct (e_dest e <? 0); inversion H; reflexivity.
  - apply Hsame. destruct (c_state (get_conn st d) =? c_connectionActive); inversion H; reflexivity.
  - unfold timer_new in H. cbn [fst snd] in H. inversion H. subst st1 pushed. cbn [set_items items set_next_tm set_timers put_conn set_conns].
    destruct (eqb_dec key_eqb key_eqb_ok t (d, 1, c_nextid (get_conn st d))) as [->|Hn].
    + right. right. right. left. exists k, f, e, c, d. split; reflexivity.
    + left. rewrite (lookup_insert_neq key_eqb key_eqb_ok) by exact Hn. exact Hl.
  - unfold timer_new in H. cbn [fst snd] in H. inversion H. subst st1 pushed. cbn [set_items items set_next_tm set_timers].
    destruct (eqb_dec key_eqb key_eqb_ok t (k, 0, f_id f)) as [->|Hn].
    + right. right. right. right. exists k, f, e, c, d, did. split; reflexivity.
    + left. rewrite (lookup_insert_neq key_eqb key_eqb_ok) by exact Hn. exact Hl.
  - apply Hsame. inversion H. reflexivity.
  - apply Hsame. inversion H. reflexivity.
  - apply Hsame. destruct ((c_state (get_conn st k) =? c_connectionClosed) || negb room); inversion H; reflexivity.
  - apply Hsame. destruct (c_state (get_conn st k) =? c_connectionActive); inversion H; reflexivity.
  - apply Hsame. destruct (frameTypeFor (f_mt f)); [|inversion H; reflexivity].
    match type of H with context [items_get ?a ?b ?cc] => destruct (items_get a b cc) as [st' g] eqn:E end.
    inversion H; subst. apply items_get_spec in E. destruct E as [(_&A&_) _]. exact A.
  - apply Hsame. destruct g as [[it0 stopped]|]; [|inversion H; reflexivity].
    destruct (it_tomb it0 || (fin_of f && negb stopped)); inversion H; reflexivity.
  - apply Hsame. match type of H with context [items_get ?a ?b ?cc] => destruct (items_get a b cc) as [st' g] eqn:E end.
    inversion H; subst. apply items_get_spec in E. destruct E as [(_&A&_) _]. exact A.
  - apply Hsame. destruct g as [[it0 stopped]|]; [|inversion H; reflexivity].
    destruct (it_tomb it0 || (fin_of (r_f r) && negb stopped)); inversion H; reflexivity.
  - apply Hsame. destruct room; inversion H; reflexivity.
  - apply Hsame. destruct (items_get st t0 true) as [st' g] eqn:E. apply items_get_spec in E. destruct E as [(_&A&_) _].
    destruct g as [[it0 [|]]|]; inversion H; subst; exact A.
  - destruct (eqb_dec key_eqb key_eqb_ok t t0) as [->|Hn]; [right; left; exists s; reflexivity|left].
    destruct (items_entomb cf st t0) as [st' g] eqn:E. apply items_entomb_spec in E. destruct E as (_&_&_&_&_&_&E).
    assert (Hst : items st1 = items st').
    { destruct g as [[it0 [|]]|]; inversion H; reflexivity. }
    rewrite Hst. destruct (klookup t0 (items st)) as [it0|] eqn:El.
    + destruct E as [(_&Hi&_)|[(_&_&Hi&_)|(_&_&Hi&_)]]; rewrite Hi.
      * rewrite (lookup_remove_neq key_eqb key_eqb_ok) by exact Hn. exact Hl.
      * exact Hl.
      * rewrite (lookup_insert_neq key_eqb key_eqb_ok) by exact Hn. exact Hl.
    + destruct E as (_&Hi&_). rewrite Hi. exact Hl.
  - destruct (eqb_dec key_eqb key_eqb_ok t t0) as [->|Hn]; [right; right; left; reflexivity|left].
    destruct (items_delete st t0) as [st' g] eqn:E. apply items_delete_spec in E. destruct E as (_&_&_&_&_&_&_&E).
    assert (Hst : items st1 = items st').
    { destruct g as [[it0 [|]]|]; inversion H; reflexivity. }
    rewrite Hst. destruct (klookup t0 (items st)) as [it0|].
    + destruct E as [_ Hi]. rewrite Hi. rewrite (lookup_remove_neq key_eqb key_eqb_ok) by exact Hn. exact Hl.
    + destruct E as [_ Hi]. rewrite Hi. exact Hl.
  - apply Hsame. destruct (zlookup tm (timers st)) as [x|]; [|inversion H; reflexivity].
    destruct (tm_released x); inversion H; reflexivity.
Qed.

Lemma exec_nextid : forall cf st i room st1 pushed, exec cf st i room = (st1, pushed) -> forall k0,
  c_nextid (getc (conns st1) k0) =
  c_nextid (getc (conns st) k0) + match i with IAddDest _ _ _ _ d => b2z (k0 =? d) | _ => 0 end.
Proof.
  intros cf st i room st1 pushed H k0.
  assert (Hsame : forall s p, (s, p) = (st1, pushed) -> conns s = conns st ->
                  c_nextid (getc (conns st1) k0) = c_nextid (getc (conns st) k0) + 0).
  { intros s p Hs He. inversion Hs. subst. rewrite He. lia. }
  assert (Hput : forall k cn p, (put_conn st k cn, p) = (st1, pushed) -> c_nextid cn = c_nextid (get_conn st k) ->
                 c_nextid (getc (conns st1) k0) = c_nextid (getc (conns st) k0) + 0).
  { intros k cn p Hs He. inversion Hs. subst. cbn [put_conn set_conns conns]. rewrite getc_insert.
    destruct (k0 =? k) eqn:E; [|lia]. apply Z.eqb_eq in E. subst. rewrite He, get_conn_getc. lia. }
  destruct i; cbn [exec] in H.
  - destruct (e_start e =? 0); [eapply Hsame; [exact H|reflexivity]|].
    destruct ((e_start e =? 1) || (e_start e =? 3)); eapply Hsame; try exact H; reflexivity.
  - destruct (c_state (get_conn st k) =? c_connectionActive); [eapply Hput; [exact H|reflexivity]|eapply Hsame; [exact H|reflexivity]].
  - destruct (klookup (k, 0, f_id f) (items st)); [eapply Hsame; [exact H|reflexivity]|].
    destruct (e_dest e =? -1); [eapply Hsame; [exact H|reflexivity]|].
    destruct (e_dest e <? 0); eapply Hsame; try exact H; reflexivity.
  - destruct (c_state (get_conn st d) =? c_connectionActive); [eapply Hput; [exact H|reflexivity]|eapply Hsame; [exact H|reflexivity]].
  - unfold timer_new in H. cbn [fst snd] in H. inversion H. subst st1 pushed.
    cbn [set_items items set_next_tm set_timers put_conn set_conns conns]. rewrite getc_insert.
    destruct (k0 =? d) eqn:E; [|cbn; lia]. apply Z.eqb_eq in E. subst. cbn. rewrite get_conn_getc. lia.
  - unfold timer_new in H. cbn [fst snd] in H. inversion H. subst st1 pushed. cbn. lia.
  - eapply Hsame; [exact H|reflexivity].
  - eapply Hput; [exact H|reflexivity].
  - destruct ((c_state (get_conn st k) =? c_connectionClosed) || negb room); eapply Hsame; try exact H; reflexivity.
  - destruct (c_state (get_conn st k) =? c_connectionActive); [eapply Hput; [exact H|reflexivity]|eapply Hsame; [exact H|reflexivity]].
  - destruct (frameTypeFor (f_mt f)); [|eapply Hsame; [exact H|reflexivity]].
    match type of H with context [items_get ?a ?b ?cc] => destruct (items_get a b cc) as [st' g] eqn:E end.
    apply items_get_spec in E. destruct E as [(A&_) _]. eapply Hsame; [exact H|exact A].
  - destruct g as [[it0 stopped]|]; [|eapply Hsame; [exact H|reflexivity]].
    destruct (it_tomb it0 || (fin_of f && negb stopped)); eapply Hsame; try exact H; reflexivity.
  - match type of H with context [items_get ?a ?b ?cc] => destruct (items_get a b cc) as [st' g] eqn:E end.
    apply items_get_spec in E. destruct E as [(A&_) _]. eapply Hsame; [exact H|exact A].
  - destruct g as [[it0 stopped]|]; [|eapply Hsame; [exact H|reflexivity]].
    destruct (it_tomb it0 || (fin_of (r_f r) && negb stopped)); eapply Hsame; try exact H; reflexivity.
  - destruct room; eapply Hsame; try exact H; reflexivity.
  - destruct (items_get st t true) as [st' g] eqn:E. apply items_get_spec in E. destruct E as [(A&_) _].
    destruct g as [[it0 [|]]|]; eapply Hsame; try exact H; exact A.
  - destruct (items_entomb cf st t) as [st' g] eqn:E. apply items_entomb_spec in E. destruct E as (A&_).
    destruct g as [[it0 [|]]|]; eapply Hsame; try exact H; exact A.
  - destruct (items_delete st t) as [st' g] eqn:E. apply items_delete_spec in E. destruct E as (A&_).
    destruct g as [[it0 [|]]|]; eapply Hsame; try exact H; exact A.
  - destruct (zlookup tm (timers st)) as [x|]; [|eapply Hsame; [exact H|reflexivity]].
    destruct (tm_released x); eapply Hsame; try exact H; reflexivity.
Qed.

(* ---------------------------------------------------------------- response frames in flight *)

(* a reader instruction holding a live copy of a destination item / acting for it:
   (key of the destination item, caller connection, caller id, call) *)
Definition flight (j : instr) : option (key * Z * Z * Z) :=
  match j with
  | INcChk _ _ ft own (Some (it, _)) =>
      if (ft =? c_responseFrame) && negb (it_tomb it) then Some (own, it_dest it, it_remap it, it_call it) else None
  | IRcvGet r | IRcvChk r _ _ | IRcvEnq r _ =>
      if r_ft r =? c_responseFrame then Some (r_own r, r_d r, f_id (r_f r), r_call r) else None
  | _ => None
  end.

Lemma flight_oncall : forall j own tk ti c, flight j = Some (own, tk, ti, c) -> oncall c j = true.
Proof.
  intros j own tk ti c H. destruct j; cbn in *; try discriminate.
  - destruct g as [[it s]|]; [|discriminate]. destruct ((ft =? c_responseFrame) && negb (it_tomb it)) eqn:E; [|discriminate].
    inversion H. subst. apply andb_true_iff in E. destruct E as [_ E]. rewrite E, Z.eqb_refl. reflexivity.
  - destruct (r_ft r =? c_responseFrame); inversion H. apply Z.eqb_refl.
  - destruct (r_ft r =? c_responseFrame); inversion H. rewrite Z.eqb_refl. reflexivity.
  - destruct (r_ft r =? c_responseFrame); inversion H. apply Z.eqb_refl.
Qed.

Lemma quiet_flight : forall j, quiet j = true -> flight j = None.
Proof. intros j H. destruct j; cbn in *; try discriminate; reflexivity. Qed.

Lemma after_sent_flight : forall r j x, In j (after_sent r) -> flight j = Some x ->
  r_ft r = c_responseFrame /\ x = (r_own r, r_d r, f_id (r_f r), r_call r).
Proof.
  intros r j x Hj Hf. unfold after_sent in Hj. apply in_app_or in Hj. destruct Hj as [Hj|Hj].
  - destruct (fin_of (r_f r)); [|contradiction]. destruct Hj as [<-|[]]. discriminate.
  - destruct (0 <? r_more r); [|contradiction]. destruct Hj as [<-|[<-|[]]]; [discriminate|].
    cbn in Hf. destruct (r_ft r =? c_responseFrame) eqn:E; [|discriminate]. inversion Hf. apply Z.eqb_eq in E. split; [exact E|reflexivity].
Qed.

(* a flight instruction is pushed by a flight instruction with the same data, or by the Get of
   handleNonCallReq that found the live destination item *)
Lemma pushed_flight : forall cf st i room st1 pushed j x, exec cf st i room = (st1, pushed) ->
  In j pushed -> flight j = Some x ->
  flight i = Some x \/
  (exists k f it, i = INcGet k f /\ frameTypeFor (f_mt f) = Some c_responseFrame /\
     klookup (k, 1, f_id f) (items st) = Some it /\ it_tomb it = false /\
     x = ((k, 1, f_id f), it_dest it, it_remap it, it_call it)).
Proof.
  intros cf st i room st1 pushed j x H Hj Hf. destruct i; cbn [exec] in H.
  - destruct (e_start e =? 0); inversion H; subst; clear H; in_cases Hj; discriminate.
  - destruct (c_state (get_conn st k) =? c_connectionActive); inversion H; subst; clear H; in_cases Hj; discriminate.
  - destruct (klookup (k, 0, f_id f) (items st)); [|destruct (e_dest e =? -1); [|destruct (e_dest e <? 0)]];
      inversion H; subst; clear H; in_cases Hj; discriminate.
  - destruct (c_state (get_conn st d) =? c_connectionActive); inversion H; subst; clear H; in_cases Hj; discriminate.
  - unfold timer_new in H. cbn [fst snd] in H. inversion H; subst; clear H. in_cases Hj; discriminate.
  - unfold timer_new in H. cbn [fst snd] in H. inversion H; subst; clear H. in_cases Hj; discriminate.
  - inversion H; subst. contradiction.
  - inversion H; subst. contradiction.
  - destruct ((c_state (get_conn st k) =? c_connectionClosed) || negb room); inversion H; subst; contradiction.
  - destruct (c_state (get_conn st k) =? c_connectionActive); inversion H; subst; contradiction.
  - right. destruct (frameTypeFor (f_mt f)) as [ft|] eqn:Eft; [|inversion H; subst; contradiction].
    match type of H with context [items_get ?a ?b ?cc] => destruct (items_get a b cc) as [st' g] eqn:E end.
    inversion H; subst; clear H. destruct Hj as [<-|[]]. cbn in Hf.
    apply items_get_spec in E. destruct E as [_ Em].
    destruct g as [[it s]|]; [|discriminate]. destruct ((ft =? c_responseFrame) && negb (it_tomb it)) eqn:Eb; [|discriminate].
    apply andb_true_iff in Eb. destruct Eb as [E1 E2]. apply Z.eqb_eq in E1. subst ft. rewrite Z.eqb_refl in *.
    destruct (klookup (k, 1, f_id f) (items st)) as [it0|] eqn:El; [|discriminate]. destruct Em as [b Hg]. inversion Hg. subst it0 s.
    exists k, f, it. apply negb_true_iff in E2. inversion Hf. repeat split; assumption.
  - left. destruct g as [[it stopped]|]; [|inversion H; subst; contradiction].
    destruct (it_tomb it || (fin_of f && negb stopped)) eqn:Echk; inversion H; subst; clear H; [contradiction|].
    apply orb_false_iff in Echk. destruct Echk as [Et _]. cbn. rewrite Et, andb_true_r.
    in_cases Hj; try discriminate. cbn in Hf. exact Hf.
  - left. match type of H with context [items_get ?a ?b ?cc] => destruct (items_get a b cc) as [st' g] end.
    inversion H; subst. destruct Hj as [<-|[]]. exact Hf.
  - left. cbn. destruct g as [[it stopped]|].
    + destruct (it_tomb it || (fin_of (r_f r) && negb stopped)); inversion H; subst; clear H.
      * destruct (after_sent_flight _ _ _ Hj Hf) as [Hr ->]. rewrite Hr, Z.eqb_refl. reflexivity.
      * apply in_app_or in Hj. destruct Hj as [Hj|[<-|[]]]; [in_cases Hj; discriminate|exact Hf].
    + inversion H; subst. in_cases Hj. discriminate.
  - left. cbn. destruct room; inversion H; subst; clear H.
    + apply in_app_or in Hj. destruct Hj as [Hj|Hj]; [in_cases Hj; discriminate|].
      destruct (after_sent_flight _ _ _ Hj Hf) as [Hr ->]. rewrite Hr, Z.eqb_refl. reflexivity.
    + in_cases Hj; discriminate.
  - destruct (items_get st t true) as [st' g]. destruct g as [[it [|]]|]; inversion H; subst; try contradiction.
    destruct Hj as [<-|[]]. discriminate.
  - destruct (items_entomb cf st t) as [st' g]. destruct g as [[it [|]]|]; inversion H; subst; try contradiction.
    apply in_app_or in Hj. destruct Hj as [Hj|[<-|[]]]; [|discriminate].
    destruct (match s with FromFail _ => it_orig it | FromTimeout o => o end); [|contradiction].
    unfold orig_tail in Hj. destruct s; in_cases Hj; discriminate.
  - destruct (items_delete st t) as [st' g]. destruct g as [[it [|]]|]; inversion H; subst; try contradiction.
    in_cases Hj; discriminate.
  - destruct (zlookup tm (timers st)) as [x0|]; [|inversion H; subst; contradiction].
    destruct (tm_released x0); inversion H; subst; try contradiction. destruct Hj as [<-|[]]. discriminate.
Qed.

(* ---------------------------------------------------------------- pairing of the two items of a call *)

Record TPair (st : state) : Prop := {
  tp1 : forall t1 it1 th code i f, In (t1, it1) (items st) -> key_dir t1 = 1 ->
          In (th, code) (threads st) -> In i code -> adm_kf i = Some (it_dest it1, f) -> f_id f = it_remap it1 ->
          exists e, i = IAddOrig (it_dest it1) f e (it_call it1) (key_conn t1) (key_id t1);
  tp2 : forall t1 it1 it0, In (t1, it1) (items st) -> key_dir t1 = 1 ->
          klookup (it_dest it1, 0, it_remap it1) (items st) = Some it0 -> it_dest it0 = key_conn t1 /\ it_remap it0 = key_id t1;
  tp3 : forall t0 it0 it1, In (t0, it0) (items st) -> key_dir t0 = 0 ->
          klookup (it_dest it0, 1, it_remap it0) (items st) = Some it1 -> it_dest it1 = key_conn t0 /\ it_remap it1 = key_id t0;
  tp_alloc : forall t0 it0, In (t0, it0) (items st) -> key_dir t0 = 0 -> it_remap it0 < c_nextid (getc (conns st) (it_dest it0));
  tp_addorig : forall th code k f e c d did, In (th, code) (threads st) -> In (IAddOrig k f e c d did) code ->
          did < c_nextid (getc (conns st) d) /\
          forall it1, klookup (d, 1, did) (items st) = Some it1 -> it_dest it1 = k /\ it_remap it1 = f_id f /\ it_call it1 = c
}.

Lemma key_eta : forall t : key, t = (key_conn t, key_dir t, key_id t).
Proof. intros [[a b] c]. reflexivity. Qed.

Lemma TPair_init : TPair init.
Proof. constructor; cbn; intros; try contradiction; discriminate. Qed.

(* a state that differs from st only in fields irrelevant to TPair *)
Lemma TPair_ext : forall st st', TPair st -> items st' = items st -> threads st' = threads st ->
  (forall k, c_nextid (getc (conns st') k) = c_nextid (getc (conns st) k)) -> TPair st'.
Proof.
  intros st st' HP Hi Ht Hc. constructor; rewrite ?Hi, ?Ht.
  - apply (tp1 _ HP).
  - apply (tp2 _ HP).
  - apply (tp3 _ HP).
  - intros t0 it0 Hin Hd. rewrite Hc. eapply (tp_alloc _ HP); eassumption.
  - intros th code k f e c d did Hin Hj. rewrite Hc. eapply (tp_addorig _ HP); eassumption.
Qed.

Lemma nextid_put_same : forall st k cn, c_nextid cn = c_nextid (get_conn st k) ->
  forall k0, c_nextid (getc (conns (put_conn st k cn)) k0) = c_nextid (getc (conns st) k0).
Proof.
  intros st k cn H k0. cbn [put_conn set_conns conns]. rewrite getc_insert.
  destruct (k0 =? k) eqn:E; [|reflexivity]. apply Z.eqb_eq in E. subst. rewrite H. reflexivity.
Qed.

Lemma step_tpair_LStep : forall cf st th i rest room st1 pushed, Inv st -> WInv st -> TPair st ->
  lookup tid_eqb th (threads st) = Some (i :: rest) -> exec cf st i room = (st1, pushed) ->
  TPair (set_thread st1 th (pushed ++ rest)).
Proof.
  intros cf st th i rest room st1 pushed HI HW HP El E.
  pose proof (lookup_in tid_eqb tid_eqb_ok _ _ _ El) as Hin0.
  pose proof (exec_threads _ _ _ _ _ _ E) as Hth.
  pose proof (exec_nextid _ _ _ _ _ _ E) as Hnid.
  destruct (inv_code _ HI _ _ Hin0) as [Hf Hsing]. inversion Hf as [|? ? Hiok _]. subst.
  assert (Hmono : forall k0, c_nextid (getc (conns st) k0) <= c_nextid (getc (conns st1) k0)).
  { intro k0. rewrite Hnid. destruct i; try lia. pose proof (b2z_nonneg (k0 =? d)). lia. }
  (* items of st1 *)
  assert (Hitems : forall t it, In (t, it) (items st1) ->
     (exists it0, In (t, it0) (items st) /\ it_call it = it_call it0 /\ it_dest it = it_dest it0 /\ it_remap it = it_remap it0) \/
     (exists k f e c d, i = IAddDest k f e c d /\ t = (d, 1, c_nextid (get_conn st d)) /\ it_call it = c /\ it_dest it = k /\ it_remap it = f_id f) \/
     (exists k f e c d did, i = IAddOrig k f e c d did /\ t = (k, 0, f_id f) /\ it_call it = c /\ it_dest it = d /\ it_remap it = did)).
  { intros t it Hin. destruct (exec_items_fields _ _ _ _ _ _ _ _ E Hin) as [(it0&A&B&C&D&_)|[(k&f&e&c&d&A&B&C&D&F&_)|(k&f&e&c&d&did&A&B&C&D&F&_)]].
    - left. exists it0. repeat split; assumption.
    - right. left. exists k, f, e, c, d. repeat split; assumption.
    - right. right. exists k, f, e, c, d, did. repeat split; assumption. }
  assert (Hlk : forall t it, klookup t (items st1) = Some it -> In (t, it) (items st1)).
  { intros t it Hl. eapply (lookup_in key_eqb key_eqb_ok). exact Hl. }
  assert (Hold : forall t it, In (t, it) (items st) -> klookup t (items st) = Some it).
  { intros t it Hin. apply (in_lookup key_eqb key_eqb_ok); [apply (inv_items_nd _ HI)|exact Hin]. }
  (* instructions of the new state *)
  assert (Hcode : forall th' code' j, In (th', code') (threads (set_thread st1 th (pushed ++ rest))) -> In j code' ->
     (th' = th /\ In j pushed) \/ (exists code0, In (th', code0) (threads st) /\ In j code0)).
  { intros th' code' j Hin Hj. apply set_thread_in in Hin. destruct Hin as [[-> ->]|[_ Hin]].
    - apply in_app_or in Hj. destruct Hj as [Hj|Hj]; [left; split; [reflexivity|exact Hj]|].
      right. exists (i :: rest). split; [exact Hin0|right; exact Hj].
    - right. rewrite Hth in Hin. exists code'. split; assumption. }
  constructor; cbn [set_thread set_threads items conns].
  - (* tp1 *)
    intros t1 it1 th' code' j f Hit Hd Hin Hj Ha Hfid. fold (threads (set_thread st1 th (pushed ++ rest))) in Hin.
    destruct (Hitems _ _ Hit) as [(it0&Hi0&Hc&Hde&Hr)|[(k&f0&e0&c0&d0&Hi&Ht&Hc&Hde&Hr)|(k&f0&e0&c0&d0&did0&Hi&Ht&_)]].
    + rewrite Hc, Hde in *. rewrite Hr in Hfid.
      destruct (Hcode _ _ _ Hin Hj) as [[-> Hp]|(code0&Hin1&Hj1)].
      * destruct (pushed_adm _ _ _ _ _ _ _ _ _ E Hp Ha) as (Hai&_&Hno).
        destruct (tp1 _ HP _ _ _ _ _ _ Hi0 Hd Hin0 (or_introl eq_refl) Hai Hfid) as [e He]. exfalso. eapply Hno. exact He.
      * eapply (tp1 _ HP); eassumption.
    + subst i t1. cbn [key_conn key_id fst snd]. rewrite Hc, Hde in *. rewrite Hr in Hfid.
      destruct (iok_adm _ _ _ _ (IAddDest k f0 e0 c0 d0) k f0 eq_refl Hiok) as [Hthk _].
      assert (Hrest : rest = []).
      { pose proof (Hsing _ (or_introl eq_refl) eq_refl) as Hs. inversion Hs. reflexivity. }
      apply set_thread_in in Hin. destruct Hin as [[-> ->]|[Hne Hin]].
      * rewrite Hrest, app_nil_r in Hj.
        cbn [exec] in E. unfold timer_new in E. cbn [fst snd] in E. inversion E. subst pushed. destruct Hj as [<-|[]].
        cbn in Ha. inversion Ha. subst f. exists e0. reflexivity.
      * exfalso. rewrite Hth in Hin. destruct (inv_code _ HI _ _ Hin) as [Hf1 _]. rewrite Forall_forall in Hf1.
        destruct (iok_adm _ _ _ _ _ _ _ Ha (Hf1 _ Hj)) as [Hth1 _]. apply Hne. congruence.
    + subst t1. cbn in Hd. discriminate.
  - (* tp2 *)
    intros t1 it1 it0 Hit Hd Hl. apply Hlk in Hl.
    destruct (Hitems _ _ Hit) as [(it1'&Hi1&Hc1&Hde1&Hr1)|[(k&f0&e0&c0&d0&Hi&Ht&Hc1&Hde1&Hr1)|(k&f0&e0&c0&d0&did0&Hi&Ht&_)]].
    + rewrite Hde1, Hr1 in *.
      destruct (Hitems _ _ Hl) as [(it0'&Hi0&_&Hde0&Hr0)|[(k&f0&e0&c0&d0&Hi&Ht&_)|(k&f0&e0&c0&d0&did0&Hi&Ht&_&Hde0&Hr0)]].
      * rewrite Hde0, Hr0. eapply (tp2 _ HP); [exact Hi1|exact Hd|apply Hold; exact Hi0].
      * inversion Ht.
      * inversion Ht. subst i. rewrite Hde0, Hr0.
        destruct (tp1 _ HP _ _ _ _ _ f0 Hi1 Hd Hin0 (or_introl eq_refl)) as [e He].
        { cbn. congruence. }
        { congruence. }
        inversion He. split; reflexivity.
    + subst i t1. rewrite Hde1, Hr1 in *. exfalso.
      destruct (iok_adm _ _ _ _ (IAddDest k f0 e0 c0 d0) k f0 eq_refl Hiok) as [_ (_&Hfree&_)].
      destruct (Hitems _ _ Hl) as [(it0'&Hi0&_)|[(k1&f1&e1&c1&d1&Hi&Ht&_)|(k1&f1&e1&c1&d1&did1&Hi&_)]].
      * apply Hold in Hi0. congruence.
      * inversion Ht.
      * discriminate.
    + subst t1. cbn in Hd. discriminate.
  - (* tp3 *)
    intros t0 it0 it1 Hit Hd Hl. apply Hlk in Hl.
    destruct (Hitems _ _ Hit) as [(it0'&Hi0&_&Hde0&Hr0)|[(k&f0&e0&c0&d0&Hi&Ht&_)|(k&f0&e0&c0&d0&did0&Hi&Ht&_&Hde0&Hr0)]].
    + rewrite Hde0, Hr0 in *.
      destruct (Hitems _ _ Hl) as [(it1'&Hi1&_&Hde1&Hr1)|[(k&f0&e0&c0&d0&Hi&Ht&_)|(k&f0&e0&c0&d0&did0&Hi&Ht&_)]].
      * rewrite Hde1, Hr1. eapply (tp3 _ HP); [exact Hi0|exact Hd|apply Hold; exact Hi1].
      * exfalso. inversion Ht. pose proof (tp_alloc _ HP _ _ Hi0 Hd) as Ha. rewrite get_conn_getc in *. rewrite <- H0 in *. lia.
      * inversion Ht.
    + subst t0. cbn in Hd. discriminate.
    + subst i t0. rewrite Hde0, Hr0 in *. cbn [key_conn key_id fst snd].
      destruct (tp_addorig _ HP _ _ _ _ _ _ _ _ Hin0 (or_introl eq_refl)) as [_ Hao].
      destruct (Hitems _ _ Hl) as [(it1'&Hi1&_&Hde1&Hr1)|[(k1&f1&e1&c1&d1&Hi&_)|(k1&f1&e1&c1&d1&did1&_&Ht&_)]].
      * rewrite Hde1, Hr1. destruct (Hao _ (Hold _ _ Hi1)) as (A&B&_). split; assumption.
      * discriminate.
      * inversion Ht.
  - (* tp_alloc *)
    intros t0 it0 Hit Hd.
    destruct (Hitems _ _ Hit) as [(it0'&Hi0&_&Hde0&Hr0)|[(k&f0&e0&c0&d0&Hi&Ht&_)|(k&f0&e0&c0&d0&did0&Hi&Ht&_&Hde0&Hr0)]].
    + rewrite Hde0, Hr0. pose proof (tp_alloc _ HP _ _ Hi0 Hd). specialize (Hmono (it_dest it0')). lia.
    + subst t0. cbn in Hd. discriminate.
    + subst i. rewrite Hde0, Hr0. destruct (tp_addorig _ HP _ _ _ _ _ _ _ _ Hin0 (or_introl eq_refl)) as [Hlt _].
      specialize (Hmono d0). lia.
  - (* tp_addorig *)
    intros th' code' k f e c d did Hin Hj. fold (threads (set_thread st1 th (pushed ++ rest))) in Hin.
    destruct (Hcode _ _ _ Hin Hj) as [[-> Hp]|(code0&Hin1&Hj1)].
    + destruct (pushed_adm _ _ _ _ _ _ _ k f E Hp eq_refl) as (_&Hao&_). destruct (Hao _ _ _ _ _ _ eq_refl) as [Hi Hdid]. subst i.
      split.
      * rewrite Hnid, Z.eqb_refl. rewrite get_conn_getc in Hdid. cbn. lia.
      * intros it1 Hl. apply Hlk in Hl.
        destruct (Hitems _ _ Hl) as [(it1'&Hi1&_)|[(k1&f1&e1&c1&d1&Hi&Ht&Hc1&Hde1&Hr1)|(k1&f1&e1&c1&d1&did1&Hi&_)]].
        -- exfalso. destruct (inv_keys _ HI (d, 1, did)) as [[Hz _]|[_ Hlt]].
           { left. apply (in_map fst) in Hi1. exact Hi1. }
           { cbn in Hz. discriminate. }
           { cbn in Hlt. rewrite get_conn_getc in Hdid. lia. }
        -- inversion Hi. subst. repeat split; assumption.
        -- discriminate.
    + destruct (tp_addorig _ HP _ _ _ _ _ _ _ _ Hin1 Hj1) as [Hlt Hao]. split; [specialize (Hmono d); lia|].
      intros it1 Hl. apply Hlk in Hl.
      destruct (Hitems _ _ Hl) as [(it1'&Hi1&Hc1&Hde1&Hr1)|[(k1&f1&e1&c1&d1&Hi&Ht&_)|(k1&f1&e1&c1&d1&did1&Hi&Ht&_)]].
      * rewrite Hc1, Hde1, Hr1. apply Hao. apply Hold. exact Hi1.
      * exfalso. inversion Ht. rewrite get_conn_getc in *. subst. lia.
      * inversion Ht.
Qed.

Lemma step_tpair : forall cf st l st', Inv st -> WInv st -> TPair st -> fresh_label st l = true ->
  step cf st l = Some st' -> TPair st'.
Proof.
  intros cf st l st' HI HW HP Hfresh H. unfold step in H. destruct (negb (panicked st =? 0)); [discriminate|].
  destruct l as [k f e|th room|tm|t|k|k|k].
  - (* LArrive *)
    destruct (lookup tid_eqb (TR k) (threads st)); [discriminate|].
    destruct (relayRoute (f_mt f) (cf_cancel cf) =? 1); [|inversion H; subst; exact HP].
    destruct (f_mt f =? c_messageTypeCallReq) eqn:Emt; inversion H; subst; clear H.
    + constructor; cbn [set_thread set_threads set_seen items conns]; try apply HP.
      * intros t1 it1 th code i f0 Hit Hd Hin Hj Ha Hfid. fold (threads (set_thread (set_seen st ((k, f_id f) :: seen st)) (TR k) [IStart k f e])) in Hin.
        apply set_thread_in in Hin. destruct Hin as [[-> ->]|[_ Hin]]; [|eapply (tp1 _ HP); eassumption].
        exfalso. destruct Hj as [<-|[]]. cbn in Ha. inversion Ha. subst f0.
        pose proof (w_items _ HW _ _ Hit Hd) as Hs. rewrite <- H0, <- Hfid in Hs.
        cbn [fresh_label] in Hfresh. rewrite Emt in Hfresh. cbn [andb] in Hfresh. apply negb_true_iff in Hfresh.
        assert (Hex : existsb (fun p => (fst p =? k) && (snd p =? f_id f)) (seen st) = true).
        { apply existsb_exists. exists (k, f_id f). split; [exact Hs|]. cbn. rewrite !Z.eqb_refl. reflexivity. }
        congruence.
      * intros th code k0 f0 e0 c d did Hin Hj. fold (threads (set_thread (set_seen st ((k, f_id f) :: seen st)) (TR k) [IStart k f e])) in Hin.
        apply set_thread_in in Hin. destruct Hin as [[-> ->]|[_ Hin]]; [destruct Hj as [Hj|[]]; discriminate|].
        eapply (tp_addorig _ HP); eassumption.
    + constructor; cbn [set_thread set_threads items conns]; try apply HP.
      * intros t1 it1 th code i f0 Hit Hd Hin Hj Ha Hfid. fold (threads (set_thread st (TR k) [INcGet k f])) in Hin.
        apply set_thread_in in Hin. destruct Hin as [[-> ->]|[_ Hin]]; [destruct Hj as [<-|[]]; discriminate|eapply (tp1 _ HP); eassumption].
      * intros th code k0 f0 e0 c d did Hin Hj. fold (threads (set_thread st (TR k) [INcGet k f])) in Hin.
        apply set_thread_in in Hin. destruct Hin as [[-> ->]|[_ Hin]]; [destruct Hj as [Hj|[]]; discriminate|].
        eapply (tp_addorig _ HP); eassumption.
  - destruct (lookup tid_eqb th (threads st)) as [[|i rest]|] eqn:El; try discriminate.
    destruct (exec cf st i room) as [st1 pushed] eqn:E. inversion H. subst st'.
    eapply step_tpair_LStep; eassumption.
  - (* LFire *)
    destruct (zlookup tm (timers st)) as [x|]; [|discriminate].
    destruct (tm_armed x && match lookup tid_eqb (TT tm) (threads st) with None => true | Some _ => false end); [|discriminate].
    inversion H. subst st'. clear H.
    constructor; cbn [set_thread set_threads set_timers items conns]; try apply HP.
    + intros t1 it1 th code i f0 Hit Hd Hin Hj Ha Hfid. fold (threads (set_thread (set_timers st (zinsert tm {| tm_armed := false; tm_active := tm_active x; tm_stopped := tm_stopped x; tm_released := tm_released x; tm_key := tm_key x; tm_orig := tm_orig x |} (timers st))) (TT tm) [ITimerRun tm])) in Hin.
      apply set_thread_in in Hin. destruct Hin as [[-> ->]|[_ Hin]]; [destruct Hj as [<-|[]]; discriminate|eapply (tp1 _ HP); eassumption].
    + intros th code k0 f0 e0 c d did Hin Hj. fold (threads (set_thread (set_timers st (zinsert tm {| tm_armed := false; tm_active := tm_active x; tm_stopped := tm_stopped x; tm_released := tm_released x; tm_key := tm_key x; tm_orig := tm_orig x |} (timers st))) (TT tm) [ITimerRun tm])) in Hin.
      apply set_thread_in in Hin. destruct Hin as [[-> ->]|[_ Hin]]; [destruct Hj as [Hj|[]]; discriminate|].
      eapply (tp_addorig _ HP); eassumption.
  - (* LGc *)
    destruct (mem_key t (gcs st)); [|discriminate]. inversion H. subst.
    destruct (items_delete (set_gcs st (remove_one t (gcs st))) t) as [st' g] eqn:E. cbn [fst].
    apply items_delete_spec in E. cbn [set_gcs conns gcs threads cblog sent seen next_call items] in E.
    destruct E as (Hc&_&A&_&_&_&_&D).
    assert (Hsub : forall t0 it, In (t0, it) (items st') -> In (t0, it) (items st)).
    { intros t0 it Hin. destruct (klookup t (items st)); destruct D as [_ Hi]; rewrite Hi in Hin; [|exact Hin].
      apply (in_remove key_eqb key_eqb_ok) in Hin. tauto. }
    assert (Hlk : forall t0 it, klookup t0 (items st') = Some it -> klookup t0 (items st) = Some it).
    { intros t0 it Hl. apply (in_lookup key_eqb key_eqb_ok); [apply (inv_items_nd _ HI)|]. apply Hsub. eapply (lookup_in key_eqb key_eqb_ok). exact Hl. }
    constructor; rewrite ?A, ?Hc.
    + intros t1 it1 th code i f0 Hit. apply Hsub in Hit. eapply (tp1 _ HP). exact Hit.
    + intros t1 it1 it0 Hit Hd Hl. eapply (tp2 _ HP); [apply Hsub; exact Hit|exact Hd|apply Hlk; exact Hl].
    + intros t0 it0 it1 Hit Hd Hl. eapply (tp3 _ HP); [apply Hsub; exact Hit|exact Hd|apply Hlk; exact Hl].
    + intros t0 it0 Hit. apply Hsub in Hit. eapply (tp_alloc _ HP). exact Hit.
    + intros th code k f e c d did Hin Hj. destruct (tp_addorig _ HP _ _ _ _ _ _ _ _ Hin Hj) as [Hlt Hao]. split; [exact Hlt|].
      intros it1 Hl. apply Hao. apply Hlk. exact Hl.
  - destruct (c_state (get_conn st k) =? c_connectionActive); [|discriminate]. inversion H. subst.
    eapply TPair_ext; [exact HP|reflexivity|reflexivity|]. apply nextid_put_same. reflexivity.
  - inversion H. subst. eapply TPair_ext; [exact HP|reflexivity|reflexivity|]. apply nextid_put_same. reflexivity.
  - match type of H with (if ?b then _ else _) = _ => destruct b end; [|discriminate]. inversion H. subst.
    eapply TPair_ext; [exact HP|reflexivity|reflexivity|]. apply nextid_put_same. reflexivity.
Qed.

Lemma reach_tpair : forall cf ls st, run_fresh cf init ls = Some st -> TPair st.
Proof.
  intros cf ls. assert (G : forall st0 st, Inv st0 -> WInv st0 -> TPair st0 -> run_fresh cf st0 ls = Some st -> TPair st).
  { induction ls as [|l r IH]; intros st0 st HI HW HP H; cbn in H.
    - inversion H. subst. exact HP.
    - destruct (fresh_label st0 l) eqn:Ef; [|discriminate]. destruct (step cf st0 l) as [st1|] eqn:Es; [|discriminate].
      eapply IH; [eapply step_inv; eassumption|eapply step_winv; eassumption|eapply step_tpair; eassumption|exact H]. }
  intros st H. eapply G; [apply Inv_init|apply WInv_init|apply TPair_init|exact H].
Qed.
