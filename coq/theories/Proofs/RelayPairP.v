(* Relay model: invariants of runs WITHOUT OVERLAP (RelayCalmP.no_overlap) used by the C10 grammar
   theorem:
   - the two items of a relayed call point at each other (pairing), ids of destination items
     are allocated before use;
   - a reader that holds a looked-up live copy of a destination item keeps that item live and
     unchanged until it is done with the frame (nobody else may act on the call);
   - a fired timer whose item is still live holds the call, hence a Get that has to stop a
     timer never loses against the timer in such a run. *)
From Coq Require Import ZArith List Bool Lia.
From Verif Require Import Base.Wrap Gen.GenConsts Gen.GenFrame Model.RelayItems Model.RelayCalm Spec.WireOk
  Proofs.RelayAssocP Proofs.RelayCoreP Proofs.RelayInv9P Proofs.RelayTimerP Proofs.RelayThmP Proofs.RelaySilentP
  Proofs.RelayWireP Proofs.RelayCalmP.
Import ListNotations.
Local Open Scope Z_scope.

(* ---------------------------------------------------------------- more facts about one instruction *)

(* admission instructions are only pushed by the previous admission instruction of the same request *)
Lemma pushed_adm : forall cf st i room st1 pushed j k f, exec cf st i room = (st1, pushed) ->
  In j pushed -> adm_kf j = Some (k, f) ->
  adm_kf i = Some (k, f) /\
  (forall k' f' e c d did, j = IAddOrig k' f' e c d did -> i = IAddDest k' f' e c d /\ did = c_nextid (get_conn st d)) /\
  (forall k' f' e c d did, i <> IAddOrig k' f' e c d did).
Proof.
  intros cf st i room st1 pushed j k f H Hj Ha. destruct i; cbn [exec] in H.
  - destruct (e_start e =? 0); inversion H; subst; clear H.
    + destruct Hj as [<-|[]]. cbn in Ha. split; [exact Ha|]. split; intros; discriminate.
    + in_cases Hj; discriminate.
  - destruct (c_state (get_conn st k0) =? c_connectionActive); inversion H; subst; clear H; in_cases Hj; try discriminate.
    cbn in Ha. split; [exact Ha|]. split; intros; discriminate.
  - destruct (klookup (k0, 0, f_id f0) (items st)); [|destruct (e_dest e =? -1); [|destruct (e_dest e <? 0)]];
      inversion H; subst; clear H; in_cases Hj; try discriminate.
    cbn in Ha. split; [exact Ha|]. split; intros; discriminate.
  - destruct (c_state (get_conn st d) =? c_connectionActive); inversion H; subst; clear H; in_cases Hj; try discriminate.
    cbn in Ha. split; [exact Ha|]. split; intros; discriminate.
  - unfold timer_new in H. cbn [fst snd] in H. inversion H; subst; clear H. destruct Hj as [<-|[]].
    cbn in Ha. split; [exact Ha|]. split; [|intros; discriminate]. intros k' f' e' c' d' did' Heq. inversion Heq. subst. split; reflexivity.
  - unfold timer_new in H. cbn [fst snd] in H. inversion H; subst; clear H. in_cases Hj; discriminate.
  - inversion H; subst. contradiction.
  - inversion H; subst. destruct Hj as [<-|[]]; first [discriminate | reflexivity].
  - match type of H with (if ?b then _ else _) = _ => destruct b end; inversion H; subst; contradiction.
  - destruct ((c_state (get_conn st k0) =? c_connectionClosed) || negb room); inversion H; subst; contradiction.
  - destruct (c_state (get_conn st k0) =? c_connectionActive); inversion H; subst; contradiction.
  - destruct (frameTypeFor (f_mt f0)); [|inversion H; subst; contradiction].
    match type of H with context [items_get ?a ?b ?cc] => destruct (items_get a b cc) as [st' g] end.
    inversion H; subst. destruct Hj as [<-|[]]. discriminate.
  - destruct g as [[it stopped]|]; [|inversion H; subst; contradiction].
    destruct (it_tomb it || (fin_of f0 && negb stopped)); inversion H; subst; [contradiction|]. in_cases Hj; discriminate.
  - match type of H with context [items_get ?a ?b ?cc] => destruct (items_get a b cc) as [st' g] end.
    inversion H; subst. destruct Hj as [<-|[]]. discriminate.
  - destruct g as [[it stopped]|].
    + destruct (it_tomb it || (fin_of (r_f r) && negb stopped)); inversion H; subst; clear H.
      * destruct (after_sent_shape _ _ Hj) as (_&_&Hn&_). congruence.
      * apply in_app_or in Hj. destruct Hj as [Hj|[<-|[]]]; [in_cases Hj; discriminate|discriminate].
    + inversion H; subst. in_cases Hj. discriminate.
  - destruct room; inversion H; subst; clear H.
    + apply in_app_or in Hj. destruct Hj as [Hj|Hj]; [in_cases Hj; discriminate|].
      destruct (after_sent_shape _ _ Hj) as (_&_&Hn&_). congruence.
    + in_cases Hj; discriminate.
  - destruct (items_get st t true) as [st' g]. destruct g as [[it [|]]|]; inversion H; subst; try contradiction.
    destruct Hj as [<-|[]]. discriminate.
  - destruct (items_entomb cf st t) as [st' g]. destruct g as [[it [|]]|]; inversion H; subst; try contradiction.
    apply in_app_or in Hj. destruct Hj as [Hj|[<-|[]]]; [|discriminate].
    destruct (match s with FromFail _ => it_orig it | FromTimeout o => o end); [|contradiction].
    unfold orig_tail in Hj. destruct s; in_cases Hj; discriminate.
  - destruct (items_delete_call st t lk) as [st' g]. destruct g as [[it [|]]|]; inversion H; subst; try contradiction.
    in_cases Hj; discriminate.
  - destruct (zlookup tm (timers st)) as [x|]; [|inversion H; subst; contradiction].
    destruct (tm_released x); inversion H; subst; try contradiction. destruct Hj as [<-|[]]. discriminate.
Qed.

(* an item stays in the table, unchanged, unless the instruction is the Entomb / Delete of its
   key (or an Add of the same key, which the freshness of keys excludes) *)
Lemma exec_items_keep : forall cf st i room st1 pushed t it, exec cf st i room = (st1, pushed) ->
  klookup t (items st) = Some it ->
  klookup t (items st1) = Some it \/ (exists s, i = IEntomb t s) \/ (exists lk, i = IDelete t lk) \/
  (exists k f e c d, i = IAddDest k f e c d /\ t = (d, 1, c_nextid (get_conn st d))) \/
  (exists k f e c d did, i = IAddOrig k f e c d did /\ t = (k, 0, f_id f)).
Proof.
  intros cf st i room st1 pushed t it H Hl.
  assert (Hsame : items st1 = items st -> klookup t (items st1) = Some it \/ (exists s, i = IEntomb t s) \/ (exists lk, i = IDelete t lk) \/
            (exists k f e c d, i = IAddDest k f e c d /\ t = (d, 1, c_nextid (get_conn st d))) \/
            (exists k f e c d did, i = IAddOrig k f e c d did /\ t = (k, 0, f_id f))).
  { intro He. left. rewrite He. exact Hl. }
  destruct i; cbn [exec] in H.
  - apply Hsame. destruct (e_start e =? 0); [inversion H; reflexivity|].
    destruct ((e_start e =? 1) || (e_start e =? 3)); inversion H; reflexivity.
  - apply Hsame. destruct (c_state (get_conn st k) =? c_connectionActive); inversion H; reflexivity.
  - apply Hsame. destruct (klookup (k, 0, f_id f) (items st)); [inversion H; reflexivity|].
    destruct (e_dest e =? -1); [inversion H; reflexivity|]. destruct (e_dest e <? 0); inversion H; reflexivity.
  - apply Hsame. destruct (c_state (get_conn st d) =? c_connectionActive); inversion H; reflexivity.
  - unfold timer_new in H. cbn [fst snd] in H. inversion H. subst st1 pushed. cbn [set_items items set_next_tm set_timers put_conn set_conns].
    destruct (eqb_dec key_eqb key_eqb_ok t (d, 1, c_nextid (get_conn st d))) as [->|Hn].
    + right. right. right. left. exists k, f, e, c, d. split; reflexivity.
    + left. rewrite (lookup_insert_neq key_eqb key_eqb_ok) by exact Hn. exact Hl.
  - unfold timer_new in H. cbn [fst snd] in H. inversion H. subst st1 pushed. cbn [set_items items set_next_tm set_timers].
    destruct (eqb_dec key_eqb key_eqb_ok t (k, 0, f_id f)) as [->|Hn].
    + right. right. right. right. exists k, f, e, c, d, did. split; reflexivity.
    + left. rewrite (lookup_insert_neq key_eqb key_eqb_ok) by exact Hn. exact Hl.
  - apply Hsame. inversion H. reflexivity.
  - apply Hsame. inversion H. reflexivity.
  - apply Hsame. match type of H with (if ?b then _ else _) = _ => destruct b end; inversion H; reflexivity.
  - apply Hsame. destruct ((c_state (get_conn st k) =? c_connectionClosed) || negb room); inversion H; reflexivity.
  - apply Hsame. destruct (c_state (get_conn st k) =? c_connectionActive); inversion H; reflexivity.
  - apply Hsame. destruct (frameTypeFor (f_mt f)); [|inversion H; reflexivity].
    match type of H with context [items_get ?a ?b ?cc] => destruct (items_get a b cc) as [st' g] eqn:E end.
    inversion H; subst. apply items_get_spec in E. destruct E as [(_&A&_) _]. exact A.
  - apply Hsame. destruct g as [[it0 stopped]|]; [|inversion H; reflexivity].
    destruct (it_tomb it0 || (fin_of f && negb stopped)); inversion H; reflexivity.
  - apply Hsame. match type of H with context [items_get ?a ?b ?cc] => destruct (items_get a b cc) as [st' g] eqn:E end.
    inversion H; subst. apply items_get_spec in E. destruct E as [(_&A&_) _]. exact A.
  - apply Hsame. destruct g as [[it0 stopped]|]; [|inversion H; reflexivity].
    destruct (it_tomb it0 || (fin_of (r_f r) && negb stopped)); inversion H; reflexivity.
  - apply Hsame. destruct room; inversion H; reflexivity.
  - apply Hsame. destruct (items_get st t0 true) as [st' g] eqn:E. apply items_get_spec in E. destruct E as [(_&A&_) _].
    destruct g as [[it0 [|]]|]; inversion H; subst; exact A.
  - destruct (eqb_dec key_eqb key_eqb_ok t t0) as [->|Hn]; [right; left; exists s; reflexivity|left].
    destruct (items_entomb cf st t0) as [st' g] eqn:E. apply items_entomb_spec in E. destruct E as (_&_&_&_&_&_&E).
    assert (Hst : items st1 = items st').
    { destruct g as [[it0 [|]]|]; inversion H; reflexivity. }
    rewrite Hst. destruct (klookup t0 (items st)) as [it0|] eqn:El.
    + destruct E as [(_&Hi&_)|[(_&_&Hi&_)|(_&_&Hi&_)]]; rewrite Hi.
      * rewrite (lookup_remove_neq key_eqb key_eqb_ok) by exact Hn. exact Hl.
      * exact Hl.
      * rewrite (lookup_insert_neq key_eqb key_eqb_ok) by exact Hn. exact Hl.
    + destruct E as (_&Hi&_). rewrite Hi. exact Hl.
  - destruct (eqb_dec key_eqb key_eqb_ok t t0) as [->|Hn]; [right; right; left; exists lk; reflexivity|left].
    destruct (items_delete_call_cases st t0 lk) as [Ec|[Ec _]]; rewrite Ec in H; [|inversion H; subst; exact Hl].
    destruct (items_delete st t0) as [st' g] eqn:E. apply items_delete_spec in E. destruct E as (_&_&_&_&_&_&_&E).
    assert (Hst : items st1 = items st').
    { destruct g as [[it0 [|]]|]; inversion H; reflexivity. }
    rewrite Hst. destruct (klookup t0 (items st)) as [it0|].
    + destruct E as [_ Hi]. rewrite Hi. rewrite (lookup_remove_neq key_eqb key_eqb_ok) by exact Hn. exact Hl.
    + destruct E as [_ Hi]. rewrite Hi. exact Hl.
  - apply Hsame. destruct (zlookup tm (timers st)) as [x|]; [|inversion H; reflexivity].
    destruct (tm_released x); inversion H; reflexivity.
Qed.

Lemma exec_nextid : forall cf st i room st1 pushed, exec cf st i room = (st1, pushed) -> forall k0,
  c_nextid (getc (conns st1) k0) =
  c_nextid (getc (conns st) k0) + match i with IAddDest _ _ _ _ d => b2z (k0 =? d) | _ => 0 end.
Proof.
  intros cf st i room st1 pushed H k0.
  assert (Hsame : forall s p, (s, p) = (st1, pushed) -> conns s = conns st ->
                  c_nextid (getc (conns st1) k0) = c_nextid (getc (conns st) k0) + 0).
  { intros s p Hs He. inversion Hs. subst. rewrite He. lia. }
  assert (Hput : forall k cn p, (put_conn st k cn, p) = (st1, pushed) -> c_nextid cn = c_nextid (get_conn st k) ->
                 c_nextid (getc (conns st1) k0) = c_nextid (getc (conns st) k0) + 0).
  { intros k cn p Hs He. inversion Hs. subst. cbn [put_conn set_conns conns]. rewrite getc_insert.
    destruct (k0 =? k) eqn:E; [|lia]. apply Z.eqb_eq in E. subst. rewrite He, get_conn_getc. lia. }
  destruct i; cbn [exec] in H.
  - destruct (e_start e =? 0); [eapply Hsame; [exact H|reflexivity]|].
    destruct ((e_start e =? 1) || (e_start e =? 3)); eapply Hsame; try exact H; reflexivity.
  - destruct (c_state (get_conn st k) =? c_connectionActive); [eapply Hput; [exact H|reflexivity]|eapply Hsame; [exact H|reflexivity]].
  - destruct (klookup (k, 0, f_id f) (items st)); [eapply Hsame; [exact H|reflexivity]|].
    destruct (e_dest e =? -1); [eapply Hsame; [exact H|reflexivity]|].
    destruct (e_dest e <? 0); eapply Hsame; try exact H; reflexivity.
  - destruct (c_state (get_conn st d) =? c_connectionActive); [eapply Hput; [exact H|reflexivity]|eapply Hsame; [exact H|reflexivity]].
  - unfold timer_new in H. cbn [fst snd] in H. inversion H. subst st1 pushed.
    cbn [set_items items set_next_tm set_timers put_conn set_conns conns]. rewrite getc_insert.
    destruct (k0 =? d) eqn:E; [|cbn; lia]. apply Z.eqb_eq in E. subst. cbn. rewrite get_conn_getc. lia.
  - unfold timer_new in H. cbn [fst snd] in H. inversion H. subst st1 pushed. cbn. lia.
  - eapply Hsame; [exact H|reflexivity].
  - eapply Hput; [exact H|reflexivity].
  - match type of H with (if ?b then _ else _) = _ => destruct b end; [eapply Hput; [exact H|reflexivity]|eapply Hsame; [exact H|reflexivity]].
  - destruct ((c_state (get_conn st k) =? c_connectionClosed) || negb room); eapply Hsame; try exact H; reflexivity.
  - destruct (c_state (get_conn st k) =? c_connectionActive); [eapply Hput; [exact H|reflexivity]|eapply Hsame; [exact H|reflexivity]].
  - destruct (frameTypeFor (f_mt f)); [|eapply Hsame; [exact H|reflexivity]].
    match type of H with context [items_get ?a ?b ?cc] => destruct (items_get a b cc) as [st' g] eqn:E end.
    apply items_get_spec in E. destruct E as [(A&_) _]. eapply Hsame; [exact H|exact A].
  - destruct g as [[it0 stopped]|]; [|eapply Hsame; [exact H|reflexivity]].
    destruct (it_tomb it0 || (fin_of f && negb stopped)); eapply Hsame; try exact H; reflexivity.
  - match type of H with context [items_get ?a ?b ?cc] => destruct (items_get a b cc) as [st' g] eqn:E end.
    apply items_get_spec in E. destruct E as [(A&_) _]. eapply Hsame; [exact H|exact A].
  - destruct g as [[it0 stopped]|]; [|eapply Hsame; [exact H|reflexivity]].
    destruct (it_tomb it0 || (fin_of (r_f r) && negb stopped)); eapply Hsame; try exact H; reflexivity.
  - destruct room; eapply Hsame; try exact H; reflexivity.
  - destruct (items_get st t true) as [st' g] eqn:E. apply items_get_spec in E. destruct E as [(A&_) _].
    destruct g as [[it0 [|]]|]; eapply Hsame; try exact H; exact A.
  - destruct (items_entomb cf st t) as [st' g] eqn:E. apply items_entomb_spec in E. destruct E as (A&_).
    destruct g as [[it0 [|]]|]; eapply Hsame; try exact H; exact A.
  - destruct (items_delete_call st t lk) as [st' g] eqn:E. apply items_delete_call_spec in E. destruct E as (A&_).
    destruct g as [[it0 [|]]|]; eapply Hsame; try exact H; exact A.
  - destruct (zlookup tm (timers st)) as [x|]; [|eapply Hsame; [exact H|reflexivity]].
    destruct (tm_released x); eapply Hsame; try exact H; reflexivity.
Qed.

(* ---------------------------------------------------------------- response frames in flight *)

(* a reader instruction holding a live copy of a destination item / acting for it:
   (key of the destination item, caller connection, caller id, call) *)
Definition flight (j : instr) : option (key * Z * Z * Z) :=
  match j with
  | INcChk _ _ ft own (Some (it, _)) =>
      if (ft =? c_responseFrame) && negb (it_tomb it) then Some (own, it_dest it, it_remap it, it_call it) else None
  | IRcvGet r | IRcvChk r _ _ | IRcvEnq r _ _ =>
      if r_ft r =? c_responseFrame then Some (r_own r, r_d r, f_id (r_f r), r_call r) else None
  | _ => None
  end.

Lemma flight_oncall : forall j own tk ti c, flight j = Some (own, tk, ti, c) -> oncall c j = true.
Proof.
  intros j own tk ti c H. destruct j; cbn in *; try discriminate.
  - destruct g as [[it s]|]; [|discriminate]. destruct ((ft =? c_responseFrame) && negb (it_tomb it)) eqn:E; [|discriminate].
    inversion H. subst. apply andb_true_iff in E. destruct E as [_ E]. rewrite E, Z.eqb_refl. reflexivity.
  - destruct (r_ft r =? c_responseFrame); inversion H. apply Z.eqb_refl.
  - destruct (r_ft r =? c_responseFrame); inversion H. rewrite Z.eqb_refl. reflexivity.
  - destruct (r_ft r =? c_responseFrame); inversion H. apply Z.eqb_refl.
Qed.

Lemma quiet_flight : forall j, quiet j = true -> flight j = None.
Proof. intros j H. destruct j; cbn in *; try discriminate; reflexivity. Qed.

Lemma after_sent_flight : forall r j x, In j (after_sent r) -> flight j = Some x ->
  r_ft r = c_responseFrame /\ x = (r_own r, r_d r, f_id (r_f r), r_call r).
Proof.
  intros r j x Hj Hf. unfold after_sent in Hj. apply in_app_or in Hj. destruct Hj as [Hj|Hj].
  - destruct (fin_of (r_f r)); [|contradiction]. destruct Hj as [<-|[]]. discriminate.
  - destruct (0 <? r_more r); [|contradiction]. destruct Hj as [<-|[<-|[]]]; [discriminate|].
    cbn in Hf. destruct (r_ft r =? c_responseFrame) eqn:E; [|discriminate]. inversion Hf. apply Z.eqb_eq in E. split; [exact E|reflexivity].
Qed.

(* a flight instruction is pushed by a flight instruction with the same data, or by the Get of
   handleNonCallReq that found the live destination item *)
Lemma pushed_flight : forall cf st i room st1 pushed j x, exec cf st i room = (st1, pushed) ->
  In j pushed -> flight j = Some x ->
  flight i = Some x \/
  (exists k f it, i = INcGet k f /\ frameTypeFor (f_mt f) = Some c_responseFrame /\
     klookup (k, 1, f_id f) (items st) = Some it /\ it_tomb it = false /\
     x = ((k, 1, f_id f), it_dest it, it_remap it, it_call it)).
Proof.
  intros cf st i room st1 pushed j x H Hj Hf. destruct i; cbn [exec] in H.
  - destruct (e_start e =? 0); inversion H; subst; clear H; in_cases Hj; discriminate.
  - destruct (c_state (get_conn st k) =? c_connectionActive); inversion H; subst; clear H; in_cases Hj; discriminate.
  - destruct (klookup (k, 0, f_id f) (items st)); [|destruct (e_dest e =? -1); [|destruct (e_dest e <? 0)]];
      inversion H; subst; clear H; in_cases Hj; discriminate.
  - destruct (c_state (get_conn st d) =? c_connectionActive); inversion H; subst; clear H; in_cases Hj; discriminate.
  - unfold timer_new in H. cbn [fst snd] in H. inversion H; subst; clear H. in_cases Hj; discriminate.
  - unfold timer_new in H. cbn [fst snd] in H. inversion H; subst; clear H. in_cases Hj; discriminate.
  - inversion H; subst. contradiction.
  - inversion H; subst. destruct Hj as [<-|[]]; first [discriminate | reflexivity].
  - match type of H with (if ?b then _ else _) = _ => destruct b end; inversion H; subst; contradiction.
  - destruct ((c_state (get_conn st k) =? c_connectionClosed) || negb room); inversion H; subst; contradiction.
  - destruct (c_state (get_conn st k) =? c_connectionActive); inversion H; subst; contradiction.
  - right. destruct (frameTypeFor (f_mt f)) as [ft|] eqn:Eft; [|inversion H; subst; contradiction].
    match type of H with context [items_get ?a ?b ?cc] => destruct (items_get a b cc) as [st' g] eqn:E end.
    inversion H; subst; clear H. destruct Hj as [<-|[]]. cbn in Hf.
    apply items_get_spec in E. destruct E as [_ Em].
    destruct g as [[it s]|]; [|discriminate]. destruct ((ft =? c_responseFrame) && negb (it_tomb it)) eqn:Eb; [|discriminate].
    apply andb_true_iff in Eb. destruct Eb as [E1 E2]. apply Z.eqb_eq in E1. subst ft. rewrite Z.eqb_refl in *.
    destruct (klookup (k, 1, f_id f) (items st)) as [it0|] eqn:El; [|discriminate]. destruct Em as [b Hg]. inversion Hg. subst it0 s.
    exists k, f, it. apply negb_true_iff in E2. inversion Hf. repeat split; assumption.
  - left. destruct g as [[it stopped]|]; [|inversion H; subst; contradiction].
    destruct (it_tomb it || (fin_of f && negb stopped)) eqn:Echk; inversion H; subst; clear H; [contradiction|].
    apply orb_false_iff in Echk. destruct Echk as [Et _]. cbn. rewrite Et, andb_true_r.
    in_cases Hj; try discriminate. cbn in Hf. exact Hf.
  - left. match type of H with context [items_get ?a ?b ?cc] => destruct (items_get a b cc) as [st' g] end.
    inversion H; subst. destruct Hj as [<-|[]]. exact Hf.
  - left. cbn. destruct g as [[it stopped]|].
    + destruct (it_tomb it || (fin_of (r_f r) && negb stopped)); inversion H; subst; clear H.
      * destruct (after_sent_flight _ _ _ Hj Hf) as [Hr ->]. rewrite Hr, Z.eqb_refl. reflexivity.
      * apply in_app_or in Hj. destruct Hj as [Hj|[<-|[]]]; [in_cases Hj; discriminate|exact Hf].
    + inversion H; subst. in_cases Hj. discriminate.
  - left. cbn. destruct room; inversion H; subst; clear H.
    + apply in_app_or in Hj. destruct Hj as [Hj|Hj]; [in_cases Hj; discriminate|].
      destruct (after_sent_flight _ _ _ Hj Hf) as [Hr ->]. rewrite Hr, Z.eqb_refl. reflexivity.
    + in_cases Hj; discriminate.
  - destruct (items_get st t true) as [st' g]. destruct g as [[it [|]]|]; inversion H; subst; try contradiction.
    destruct Hj as [<-|[]]. discriminate.
  - destruct (items_entomb cf st t) as [st' g]. destruct g as [[it [|]]|]; inversion H; subst; try contradiction.
    apply in_app_or in Hj. destruct Hj as [Hj|[<-|[]]]; [|discriminate].
    destruct (match s with FromFail _ => it_orig it | FromTimeout o => o end); [|contradiction].
    unfold orig_tail in Hj. destruct s; in_cases Hj; discriminate.
  - destruct (items_delete_call st t lk) as [st' g]. destruct g as [[it [|]]|]; inversion H; subst; try contradiction.
    in_cases Hj; discriminate.
  - destruct (zlookup tm (timers st)) as [x0|]; [|inversion H; subst; contradiction].
    destruct (tm_released x0); inversion H; subst; try contradiction. destruct Hj as [<-|[]]. discriminate.
Qed.

(* ---------------------------------------------------------------- pairing of the two items of a call *)

Record TPair (st : state) : Prop := {
  tp1 : forall t1 it1 th code i f, In (t1, it1) (items st) -> key_dir t1 = 1 ->
          In (th, code) (threads st) -> In i code -> adm_kf i = Some (it_dest it1, f) -> f_id f = it_remap it1 ->
          exists e, i = IAddOrig (it_dest it1) f e (it_call it1) (key_conn t1) (key_id t1);
  tp2 : forall t1 it1 it0, In (t1, it1) (items st) -> key_dir t1 = 1 ->
          klookup (it_dest it1, 0, it_remap it1) (items st) = Some it0 -> it_dest it0 = key_conn t1 /\ it_remap it0 = key_id t1;
  tp3 : forall t0 it0 it1, In (t0, it0) (items st) -> key_dir t0 = 0 ->
          klookup (it_dest it0, 1, it_remap it0) (items st) = Some it1 -> it_dest it1 = key_conn t0 /\ it_remap it1 = key_id t0;
  tp_alloc : forall t0 it0, In (t0, it0) (items st) -> key_dir t0 = 0 -> it_remap it0 < c_nextid (getc (conns st) (it_dest it0));
  tp_addorig : forall th code k f e c d did, In (th, code) (threads st) -> In (IAddOrig k f e c d did) code ->
          did < c_nextid (getc (conns st) d) /\
          forall it1, klookup (d, 1, did) (items st) = Some it1 -> it_dest it1 = k /\ it_remap it1 = f_id f /\ it_call it1 = c
}.

Lemma key_eta : forall t : key, t = (key_conn t, key_dir t, key_id t).
Proof. intros [[a b] c]. reflexivity. Qed.

Lemma TPair_init : TPair init.
Proof. constructor; cbn; intros; try contradiction; discriminate. Qed.

(* a state that differs from st only in fields irrelevant to TPair *)
Lemma TPair_ext : forall st st', TPair st -> items st' = items st -> threads st' = threads st ->
  (forall k, c_nextid (getc (conns st') k) = c_nextid (getc (conns st) k)) -> TPair st'.
Proof.
  intros st st' HP Hi Ht Hc. constructor; rewrite ?Hi, ?Ht.
  - apply (tp1 _ HP).
  - apply (tp2 _ HP).
  - apply (tp3 _ HP).
  - intros t0 it0 Hin Hd. rewrite Hc. eapply (tp_alloc _ HP); eassumption.
  - intros th code k f e c d did Hin Hj. rewrite Hc. eapply (tp_addorig _ HP); eassumption.
Qed.

Lemma nextid_put_same : forall st k cn, c_nextid cn = c_nextid (get_conn st k) ->
  forall k0, c_nextid (getc (conns (put_conn st k cn)) k0) = c_nextid (getc (conns st) k0).
Proof.
  intros st k cn H k0. cbn [put_conn set_conns conns]. rewrite getc_insert.
  destruct (k0 =? k) eqn:E; [|reflexivity]. apply Z.eqb_eq in E. subst. rewrite H. reflexivity.
Qed.

Lemma step_tpair_LStep : forall cf st th i rest room st1 pushed, Inv st -> WInv st -> TPair st ->
  lookup tid_eqb th (threads st) = Some (i :: rest) -> exec cf st i room = (st1, pushed) ->
  TPair (set_thread st1 th (pushed ++ rest)).
Proof.
  intros cf st th i rest room st1 pushed HI HW HP El E.
  pose proof (lookup_in tid_eqb tid_eqb_ok _ _ _ El) as Hin0.
  pose proof (exec_threads _ _ _ _ _ _ E) as Hth.
  pose proof (exec_nextid _ _ _ _ _ _ E) as Hnid.
  destruct (inv_code _ HI _ _ Hin0) as [Hf Hsing]. inversion Hf as [|? ? Hiok _]. subst.
  assert (Hmono : forall k0, c_nextid (getc (conns st) k0) <= c_nextid (getc (conns st1) k0)).
  { intro k0. rewrite Hnid. destruct i; try lia. pose proof (b2z_nonneg (k0 =? d)). lia. }
  (* items of st1 *)
  assert (Hitems : forall t it, In (t, it) (items st1) ->
     (exists it0, In (t, it0) (items st) /\ it_call it = it_call it0 /\ it_dest it = it_dest it0 /\ it_remap it = it_remap it0) \/
     (exists k f e c d, i = IAddDest k f e c d /\ t = (d, 1, c_nextid (get_conn st d)) /\ it_call it = c /\ it_dest it = k /\ it_remap it = f_id f) \/
     (exists k f e c d did, i = IAddOrig k f e c d did /\ t = (k, 0, f_id f) /\ it_call it = c /\ it_dest it = d /\ it_remap it = did)).
  { intros t it Hin. destruct (exec_items_fields _ _ _ _ _ _ _ _ E Hin) as [(it0&A&B&C&D&_)|[(k&f&e&c&d&A&B&C&D&F&_)|(k&f&e&c&d&did&A&B&C&D&F&_)]].
    - left. exists it0. repeat split; assumption.
    - right. left. exists k, f, e, c, d. repeat split; assumption.
    - right. right. exists k, f, e, c, d, did. repeat split; assumption. }
  assert (Hlk : forall t it, klookup t (items st1) = Some it -> In (t, it) (items st1)).
  { intros t it Hl. eapply (lookup_in key_eqb key_eqb_ok). exact Hl. }
  assert (Hold : forall t it, In (t, it) (items st) -> klookup t (items st) = Some it).
  { intros t it Hin. apply (in_lookup key_eqb key_eqb_ok); [apply (inv_items_nd _ HI)|exact Hin]. }
  (* instructions of the new state *)
  assert (Hcode : forall th' code' j, In (th', code') (threads (set_thread st1 th (pushed ++ rest))) -> In j code' ->
     (th' = th /\ In j pushed) \/ (exists code0, In (th', code0) (threads st) /\ In j code0)).
  { intros th' code' j Hin Hj. apply set_thread_in in Hin. destruct Hin as [[-> ->]|[_ Hin]].
    - apply in_app_or in Hj. destruct Hj as [Hj|Hj]; [left; split; [reflexivity|exact Hj]|].
      right. exists (i :: rest). split; [exact Hin0|right; exact Hj].
    - right. rewrite Hth in Hin. exists code'. split; assumption. }
  constructor; cbn [set_thread set_threads items conns].
  - (* tp1 *)
    intros t1 it1 th' code' j f Hit Hd Hin Hj Ha Hfid. fold (threads (set_thread st1 th (pushed ++ rest))) in Hin.
    destruct (Hitems _ _ Hit) as [(it0&Hi0&Hc&Hde&Hr)|[(k&f0&e0&c0&d0&Hi&Ht&Hc&Hde&Hr)|(k&f0&e0&c0&d0&did0&Hi&Ht&_)]].
    + rewrite Hc, Hde in *. rewrite Hr in Hfid.
      destruct (Hcode _ _ _ Hin Hj) as [[-> Hp]|(code0&Hin1&Hj1)].
      * destruct (pushed_adm _ _ _ _ _ _ _ _ _ E Hp Ha) as (Hai&_&Hno).
        destruct (tp1 _ HP _ _ _ _ _ _ Hi0 Hd Hin0 (or_introl eq_refl) Hai Hfid) as [e He]. exfalso. eapply Hno. exact He.
      * eapply (tp1 _ HP); eassumption.
    + subst i t1. cbn [key_conn key_id fst snd]. rewrite Hc, Hde in *. rewrite Hr in Hfid.
      destruct (iok_adm _ _ _ _ (IAddDest k f0 e0 c0 d0) k f0 eq_refl Hiok) as [Hthk _].
      assert (Hrest : rest = []).
      { pose proof (Hsing _ (or_introl eq_refl) eq_refl) as Hs. inversion Hs. reflexivity. }
      apply set_thread_in in Hin. destruct Hin as [[-> ->]|[Hne Hin]].
      * rewrite Hrest, app_nil_r in Hj.
        cbn [exec] in E. unfold timer_new in E. cbn [fst snd] in E. inversion E. subst pushed. destruct Hj as [<-|[]].
        cbn in Ha. inversion Ha. subst f. exists e0. reflexivity.
      * exfalso. rewrite Hth in Hin. destruct (inv_code _ HI _ _ Hin) as [Hf1 _]. rewrite Forall_forall in Hf1.
        destruct (iok_adm _ _ _ _ _ _ _ Ha (Hf1 _ Hj)) as [Hth1 _]. apply Hne. congruence.
    + subst t1. cbn in Hd. discriminate.
  - (* tp2 *)
    intros t1 it1 it0 Hit Hd Hl. apply Hlk in Hl.
    destruct (Hitems _ _ Hit) as [(it1'&Hi1&Hc1&Hde1&Hr1)|[(k&f0&e0&c0&d0&Hi&Ht&Hc1&Hde1&Hr1)|(k&f0&e0&c0&d0&did0&Hi&Ht&_)]].
    + rewrite Hde1, Hr1 in *.
      destruct (Hitems _ _ Hl) as [(it0'&Hi0&_&Hde0&Hr0)|[(k&f0&e0&c0&d0&Hi&Ht&_)|(k&f0&e0&c0&d0&did0&Hi&Ht&_&Hde0&Hr0)]].
      * rewrite Hde0, Hr0. eapply (tp2 _ HP); [exact Hi1|exact Hd|apply Hold; exact Hi0].
      * inversion Ht.
      * inversion Ht. subst i. rewrite Hde0, Hr0.
        destruct (tp1 _ HP _ _ _ _ _ f0 Hi1 Hd Hin0 (or_introl eq_refl)) as [e He].
        { cbn. congruence. }
        { congruence. }
        inversion He. split; reflexivity.
    + subst i t1. rewrite Hde1, Hr1 in *. exfalso.
      destruct (iok_adm _ _ _ _ (IAddDest k f0 e0 c0 d0) k f0 eq_refl Hiok) as [_ (_&Hfree&_)].
      destruct (Hitems _ _ Hl) as [(it0'&Hi0&_)|[(k1&f1&e1&c1&d1&Hi&Ht&_)|(k1&f1&e1&c1&d1&did1&Hi&_)]].
      * apply Hold in Hi0. congruence.
      * inversion Ht.
      * discriminate.
    + subst t1. cbn in Hd. discriminate.
  - (* tp3 *)
    intros t0 it0 it1 Hit Hd Hl. apply Hlk in Hl.
    destruct (Hitems _ _ Hit) as [(it0'&Hi0&_&Hde0&Hr0)|[(k&f0&e0&c0&d0&Hi&Ht&_)|(k&f0&e0&c0&d0&did0&Hi&Ht&_&Hde0&Hr0)]].
    + rewrite Hde0, Hr0 in *.
      destruct (Hitems _ _ Hl) as [(it1'&Hi1&_&Hde1&Hr1)|[(k&f0&e0&c0&d0&Hi&Ht&_)|(k&f0&e0&c0&d0&did0&Hi&Ht&_)]].
      * rewrite Hde1, Hr1. eapply (tp3 _ HP); [exact Hi0|exact Hd|apply Hold; exact Hi1].
      * exfalso. inversion Ht. pose proof (tp_alloc _ HP _ _ Hi0 Hd) as Ha. rewrite get_conn_getc in *. rewrite <- H0 in *. lia.
      * inversion Ht.
    + subst t0. cbn in Hd. discriminate.
    + subst i t0. rewrite Hde0, Hr0 in *. cbn [key_conn key_id fst snd].
      destruct (tp_addorig _ HP _ _ _ _ _ _ _ _ Hin0 (or_introl eq_refl)) as [_ Hao].
      destruct (Hitems _ _ Hl) as [(it1'&Hi1&_&Hde1&Hr1)|[(k1&f1&e1&c1&d1&Hi&_)|(k1&f1&e1&c1&d1&did1&_&Ht&_)]].
      * rewrite Hde1, Hr1. destruct (Hao _ (Hold _ _ Hi1)) as (A&B&_). split; assumption.
      * discriminate.
      * inversion Ht.
  - (* tp_alloc *)
    intros t0 it0 Hit Hd.
    destruct (Hitems _ _ Hit) as [(it0'&Hi0&_&Hde0&Hr0)|[(k&f0&e0&c0&d0&Hi&Ht&_)|(k&f0&e0&c0&d0&did0&Hi&Ht&_&Hde0&Hr0)]].
    + rewrite Hde0, Hr0. pose proof (tp_alloc _ HP _ _ Hi0 Hd). specialize (Hmono (it_dest it0')). lia.
    + subst t0. cbn in Hd. discriminate.
    + subst i. rewrite Hde0, Hr0. destruct (tp_addorig _ HP _ _ _ _ _ _ _ _ Hin0 (or_introl eq_refl)) as [Hlt _].
      specialize (Hmono d0). lia.
  - (* tp_addorig *)
    intros th' code' k f e c d did Hin Hj. fold (threads (set_thread st1 th (pushed ++ rest))) in Hin.
    destruct (Hcode _ _ _ Hin Hj) as [[-> Hp]|(code0&Hin1&Hj1)].
    + destruct (pushed_adm _ _ _ _ _ _ _ k f E Hp eq_refl) as (_&Hao&_). destruct (Hao _ _ _ _ _ _ eq_refl) as [Hi Hdid]. subst i.
      split.
      * rewrite Hnid, Z.eqb_refl. rewrite get_conn_getc in Hdid. cbn. lia.
      * intros it1 Hl. apply Hlk in Hl.
        destruct (Hitems _ _ Hl) as [(it1'&Hi1&_)|[(k1&f1&e1&c1&d1&Hi&Ht&Hc1&Hde1&Hr1)|(k1&f1&e1&c1&d1&did1&Hi&_)]].
        -- exfalso. destruct (inv_keys _ HI (d, 1, did)) as [[Hz _]|[_ Hlt]].
           { left. apply (in_map fst) in Hi1. exact Hi1. }
           { cbn in Hz. discriminate. }
           { cbn in Hlt. rewrite get_conn_getc in Hdid. lia. }
        -- inversion Hi. subst. repeat split; assumption.
        -- discriminate.
    + destruct (tp_addorig _ HP _ _ _ _ _ _ _ _ Hin1 Hj1) as [Hlt Hao]. split; [specialize (Hmono d); lia|].
      intros it1 Hl. apply Hlk in Hl.
      destruct (Hitems _ _ Hl) as [(it1'&Hi1&Hc1&Hde1&Hr1)|[(k1&f1&e1&c1&d1&Hi&Ht&_)|(k1&f1&e1&c1&d1&did1&Hi&Ht&_)]].
      * rewrite Hc1, Hde1, Hr1. apply Hao. apply Hold. exact Hi1.
      * exfalso. inversion Ht. rewrite get_conn_getc in *. subst. lia.
      * inversion Ht.
Qed.

Lemma step_tpair : forall cf st l st', Inv st -> WInv st -> TPair st -> fresh_label st l = true ->
  step cf st l = Some st' -> TPair st'.
Proof.
  intros cf st l st' HI HW HP Hfresh H. unfold step in H. destruct (negb (panicked st =? 0)); [discriminate|].
  destruct l as [k f e|th room|tm|t|k|k|k].
  - (* LArrive *)
    destruct (lookup tid_eqb (TR k) (threads st)); [discriminate|].
    destruct (relayRoute (f_mt f) (cf_cancel cf) =? 1); [|inversion H; subst; exact HP].
    destruct (f_mt f =? c_messageTypeCallReq) eqn:Emt; inversion H; subst; clear H.
    + constructor; cbn [set_thread set_threads set_seen items conns]; try apply HP.
      * intros t1 it1 th code i f0 Hit Hd Hin Hj Ha Hfid. fold (threads (set_thread (set_seen st ((k, f_id f) :: seen st)) (TR k) [IStart k f e])) in Hin.
        apply set_thread_in in Hin. destruct Hin as [[-> ->]|[_ Hin]]; [|eapply (tp1 _ HP); eassumption].
        exfalso. destruct Hj as [<-|[]]. cbn in Ha. inversion Ha. subst f0.
        pose proof (w_items _ HW _ _ Hit Hd) as Hs. rewrite <- H0, <- Hfid in Hs.
        cbn [fresh_label] in Hfresh. rewrite Emt in Hfresh. cbn [andb] in Hfresh. apply negb_true_iff in Hfresh.
        assert (Hex : existsb (fun p => (fst p =? k) && (snd p =? f_id f)) (seen st) = true).
        { apply existsb_exists. exists (k, f_id f). split; [exact Hs|]. cbn. rewrite !Z.eqb_refl. reflexivity. }
        congruence.
      * intros th code k0 f0 e0 c d did Hin Hj. fold (threads (set_thread (set_seen st ((k, f_id f) :: seen st)) (TR k) [IStart k f e])) in Hin.
        apply set_thread_in in Hin. destruct Hin as [[-> ->]|[_ Hin]]; [destruct Hj as [Hj|[]]; discriminate|].
        eapply (tp_addorig _ HP); eassumption.
    + constructor; cbn [set_thread set_threads items conns]; try apply HP.
      * intros t1 it1 th code i f0 Hit Hd Hin Hj Ha Hfid. fold (threads (set_thread st (TR k) [INcGet k f])) in Hin.
        apply set_thread_in in Hin. destruct Hin as [[-> ->]|[_ Hin]]; [destruct Hj as [<-|[]]; discriminate|eapply (tp1 _ HP); eassumption].
      * intros th code k0 f0 e0 c d did Hin Hj. fold (threads (set_thread st (TR k) [INcGet k f])) in Hin.
        apply set_thread_in in Hin. destruct Hin as [[-> ->]|[_ Hin]]; [destruct Hj as [Hj|[]]; discriminate|].
        eapply (tp_addorig _ HP); eassumption.
  - destruct (lookup tid_eqb th (threads st)) as [[|i rest]|] eqn:El; try discriminate.
    destruct (exec cf st i room) as [st1 pushed] eqn:E. inversion H. subst st'.
    eapply step_tpair_LStep; eassumption.
  - (* LFire *)
    destruct (zlookup tm (timers st)) as [x|]; [|discriminate].
    destruct (tm_armed x && match lookup tid_eqb (TT tm) (threads st) with None => true | Some _ => false end); [|discriminate].
    inversion H. subst st'. clear H.
    constructor; cbn [set_thread set_threads set_timers items conns]; try apply HP.
    + intros t1 it1 th code i f0 Hit Hd Hin Hj Ha Hfid. fold (threads (set_thread (set_timers st (zinsert tm {| tm_armed := false; tm_active := tm_active x; tm_stopped := tm_stopped x; tm_released := tm_released x; tm_key := tm_key x; tm_orig := tm_orig x |} (timers st))) (TT tm) [ITimerRun tm])) in Hin.
      apply set_thread_in in Hin. destruct Hin as [[-> ->]|[_ Hin]]; [destruct Hj as [<-|[]]; discriminate|eapply (tp1 _ HP); eassumption].
    + intros th code k0 f0 e0 c d did Hin Hj. fold (threads (set_thread (set_timers st (zinsert tm {| tm_armed := false; tm_active := tm_active x; tm_stopped := tm_stopped x; tm_released := tm_released x; tm_key := tm_key x; tm_orig := tm_orig x |} (timers st))) (TT tm) [ITimerRun tm])) in Hin.
      apply set_thread_in in Hin. destruct Hin as [[-> ->]|[_ Hin]]; [destruct Hj as [Hj|[]]; discriminate|].
      eapply (tp_addorig _ HP); eassumption.
  - (* LGc *)
    destruct (mem_key t (gcs st)) eqn:Emem; [|discriminate]. inversion H. subst.
    gc_delete HI.
    destruct (items_delete (set_gcs st (remove_one t (gcs st))) t) as [st' g] eqn:E. cbn [fst].
    apply items_delete_spec in E. cbn [set_gcs conns gcs threads cblog sent seen next_call items] in E.
    destruct E as (Hc&_&A&_&_&_&_&D).
    assert (Hsub : forall t0 it, In (t0, it) (items st') -> In (t0, it) (items st)).
    { intros t0 it Hin. destruct (klookup t (items st)); destruct D as [_ Hi]; rewrite Hi in Hin; [|exact Hin].
      apply (in_remove key_eqb key_eqb_ok) in Hin. tauto. }
    assert (Hlk : forall t0 it, klookup t0 (items st') = Some it -> klookup t0 (items st) = Some it).
    { intros t0 it Hl. apply (in_lookup key_eqb key_eqb_ok); [apply (inv_items_nd _ HI)|]. apply Hsub. eapply (lookup_in key_eqb key_eqb_ok). exact Hl. }
    constructor; rewrite ?A, ?Hc.
    + intros t1 it1 th code i f0 Hit. apply Hsub in Hit. eapply (tp1 _ HP). exact Hit.
    + intros t1 it1 it0 Hit Hd Hl. eapply (tp2 _ HP); [apply Hsub; exact Hit|exact Hd|apply Hlk; exact Hl].
    + intros t0 it0 it1 Hit Hd Hl. eapply (tp3 _ HP); [apply Hsub; exact Hit|exact Hd|apply Hlk; exact Hl].
    + intros t0 it0 Hit. apply Hsub in Hit. eapply (tp_alloc _ HP). exact Hit.
    + intros th code k f e c d did Hin Hj. destruct (tp_addorig _ HP _ _ _ _ _ _ _ _ Hin Hj) as [Hlt Hao]. split; [exact Hlt|].
      intros it1 Hl. apply Hao. apply Hlk. exact Hl.
  - destruct (c_state (get_conn st k) =? c_connectionActive); [|discriminate]. inversion H. subst.
    eapply TPair_ext; [exact HP|reflexivity|reflexivity|]. apply nextid_put_same. reflexivity.
  - inversion H. subst. eapply TPair_ext; [exact HP|reflexivity|reflexivity|]. apply nextid_put_same. reflexivity.
  - match type of H with (if ?b then _ else _) = _ => destruct b end; [|discriminate]. inversion H. subst.
    eapply TPair_ext; [exact HP|reflexivity|reflexivity|]. apply nextid_put_same. reflexivity.
Qed.

Lemma reach_tpair : forall cf ls st, run_fresh cf init ls = Some st -> TPair st.
Proof.
  intros cf ls. assert (G : forall st0 st, Inv st0 -> WInv st0 -> TPair st0 -> run_fresh cf st0 ls = Some st -> TPair st).
  { induction ls as [|l r IH]; intros st0 st HI HW HP H; cbn in H.
    - inversion H. subst. exact HP.
    - destruct (fresh_label st0 l) eqn:Ef; [|discriminate]. destruct (step cf st0 l) as [st1|] eqn:Es; [|discriminate].
      eapply IH; [eapply step_inv; eassumption|eapply step_winv; eassumption|eapply step_tpair; eassumption|exact H]. }
  intros st H. eapply G; [apply Inv_init|apply WInv_init|apply TPair_init|exact H].
Qed.

(* ---------------------------------------------------------------- which goroutine runs what *)

Definition thr_ok (th : tid) (j : instr) : Prop :=
  match j with
  | INcGet k _ => th = TR k
  | INcChk k f ft own _ => th = TR k /\ own = (k, (if ft =? c_responseFrame then 1 else 0), f_id f)
  | IRcvGet r => r_ft r = c_responseFrame -> th = TR (key_conn (r_own r)) /\ key_dir (r_own r) = 1
  | IRcvChk r rk _ | IRcvEnq r rk _ =>
      rk = rcv_key r /\ (r_ft r = c_responseFrame -> th = TR (key_conn (r_own r)) /\ key_dir (r_own r) = 1)
  | _ => True
  end.

Lemma after_sent_thr : forall th r j, (r_ft r = c_responseFrame -> th = TR (key_conn (r_own r)) /\ key_dir (r_own r) = 1) ->
  In j (after_sent r) -> thr_ok th j.
Proof.
  intros th r j H Hj. unfold after_sent in Hj. apply in_app_or in Hj. destruct Hj as [Hj|Hj].
  - destruct (fin_of (r_f r)); [|contradiction]. destruct Hj as [<-|[]]. exact I.
  - destruct (0 <? r_more r); [|contradiction]. destruct Hj as [<-|[<-|[]]]; [exact I|]. cbn. exact H.
Qed.

Definition kinds_ok (i j : instr) : Prop :=
  (forall k f, j <> INcGet k f) /\ is_trun j = false /\
  (is_tent j = true -> exists tm, i = ITimerRun tm) /\
  (forall k f ft own g, j = INcChk k f ft own g -> i = INcGet k f) /\
  (forall r rk g, j = IRcvChk r rk g -> i = IRcvGet r).

Lemma kinds_triv : forall i j, is_trun j = false -> is_tent j = false ->
  (forall k f, j <> INcGet k f) -> (forall k f ft own g, j <> INcChk k f ft own g) -> (forall r rk g, j <> IRcvChk r rk g) ->
  kinds_ok i j.
Proof.
  intros i j B C D F G. unfold kinds_ok. repeat split; try assumption.
  - intro X. rewrite C in X. discriminate.
  - intros k f ft own g X. exfalso. eapply F. exact X.
  - intros r rk g X. exfalso. eapply G. exact X.
Qed.

Lemma after_sent_kinds : forall i r j, In j (after_sent r) -> kinds_ok i j.
Proof.
  intros i r j Hj. unfold after_sent in Hj. apply in_app_or in Hj. destruct Hj as [Hj|Hj].
  - destruct (fin_of (r_f r)); [|contradiction]. destruct Hj as [<-|[]]. apply kinds_triv; intros; try reflexivity; discriminate.
  - destruct (0 <? r_more r); [|contradiction]. destruct Hj as [<-|[<-|[]]]; apply kinds_triv; intros; try reflexivity; discriminate.
Qed.

Ltac kt := apply kinds_triv; intros; try reflexivity; discriminate.

Lemma pushed_kinds : forall cf st i room st1 pushed j, exec cf st i room = (st1, pushed) -> In j pushed -> kinds_ok i j.
Proof.
  intros cf st i room st1 pushed j H Hj. destruct i; cbn [exec] in H.
  - destruct (e_start e =? 0); inversion H; subst; clear H; in_cases Hj; kt.
  - destruct (c_state (get_conn st k) =? c_connectionActive); inversion H; subst; clear H; in_cases Hj; kt.
  - destruct (klookup (k, 0, f_id f) (items st)); [|destruct (e_dest e =? -1); [|destruct (e_dest e <? 0)]];
      inversion H; subst; clear H; in_cases Hj; kt.
  - destruct (c_state (get_conn st d) =? c_connectionActive); inversion H; subst; clear H; in_cases Hj; kt.
  - unfold timer_new in H. cbn [fst snd] in H. inversion H; subst; clear H. in_cases Hj; kt.
  - unfold timer_new in H. cbn [fst snd] in H. inversion H; subst; clear H. in_cases Hj; kt.
  - inversion H; subst. contradiction.
  - inversion H; subst. destruct Hj as [<-|[]]. kt.
  - match type of H with (if ?b then _ else _) = _ => destruct b end; inversion H; subst; contradiction.
  - destruct ((c_state (get_conn st k) =? c_connectionClosed) || negb room); inversion H; subst; contradiction.
  - destruct (c_state (get_conn st k) =? c_connectionActive); inversion H; subst; contradiction.
  - destruct (frameTypeFor (f_mt f)); [|inversion H; subst; contradiction].
    match type of H with context [items_get ?a ?b ?cc] => destruct (items_get a b cc) as [st' g] end.
    inversion H; subst. destruct Hj as [<-|[]]. unfold kinds_ok. repeat split; try (intros; discriminate).
    intros k0 f0 ft0 own0 g0 X. inversion X. reflexivity.
  - destruct g as [[it stopped]|]; [|inversion H; subst; contradiction].
    destruct (it_tomb it || (fin_of f && negb stopped)); inversion H; subst; [contradiction|]. in_cases Hj; kt.
  - match type of H with context [items_get ?a ?b ?cc] => destruct (items_get a b cc) as [st' g] end.
    inversion H; subst. destruct Hj as [<-|[]]. unfold kinds_ok. repeat split; try (intros; discriminate).
    intros r0 rk0 g0 X. inversion X. reflexivity.
  - destruct g as [[it stopped]|].
    + destruct (it_tomb it || (fin_of (r_f r) && negb stopped)); inversion H; subst; clear H.
      * eapply after_sent_kinds. exact Hj.
      * apply in_app_or in Hj. destruct Hj as [Hj|[<-|[]]]; [in_cases Hj; kt|kt].
    + inversion H; subst. in_cases Hj. kt.
  - destruct room; inversion H; subst; clear H.
    + apply in_app_or in Hj. destruct Hj as [Hj|Hj]; [in_cases Hj; kt|eapply after_sent_kinds; exact Hj].
    + in_cases Hj; kt.
  - destruct (items_get st t true) as [st' g]. destruct g as [[it [|]]|]; inversion H; subst; try contradiction.
    destruct Hj as [<-|[]]. kt.
  - destruct (items_entomb cf st t) as [st' g]. destruct g as [[it [|]]|]; inversion H; subst; try contradiction.
    apply in_app_or in Hj. destruct Hj as [Hj|[<-|[]]]; [|kt].
    destruct (match s with FromFail _ => it_orig it | FromTimeout o => o end); [|contradiction].
    unfold orig_tail in Hj. destruct s; in_cases Hj; kt.
  - destruct (items_delete_call st t lk) as [st' g]. destruct g as [[it [|]]|]; inversion H; subst; try contradiction.
    in_cases Hj; kt.
  - destruct (zlookup tm (timers st)) as [x0|]; [|inversion H; subst; contradiction].
    destruct (tm_released x0); inversion H; subst; try contradiction. destruct Hj as [<-|[]].
    unfold kinds_ok. repeat split; try (intros; discriminate). intros _. exists tm. reflexivity.
Qed.

Lemma pushed_thr : forall cf st th i room st1 pushed j, exec cf st i room = (st1, pushed) -> thr_ok th i ->
  In j pushed -> thr_ok th j.
Proof.
  intros cf st th i room st1 pushed j H Hi Hj. destruct i; cbn [exec] in H.
  - destruct (e_start e =? 0); inversion H; subst; clear H; in_cases Hj; exact I.
  - destruct (c_state (get_conn st k) =? c_connectionActive); inversion H; subst; clear H; in_cases Hj; exact I.
  - destruct (klookup (k, 0, f_id f) (items st)); [|destruct (e_dest e =? -1); [|destruct (e_dest e <? 0)]];
      inversion H; subst; clear H; in_cases Hj; exact I.
  - destruct (c_state (get_conn st d) =? c_connectionActive); inversion H; subst; clear H; in_cases Hj; exact I.
  - unfold timer_new in H. cbn [fst snd] in H. inversion H; subst; clear H. in_cases Hj; exact I.
  - unfold timer_new in H. cbn [fst snd] in H. inversion H; subst; clear H. in_cases Hj; try exact I.
    cbn. intro X. discriminate.
  - inversion H; subst. contradiction.
  - inversion H; subst. destruct Hj as [<-|[]]; first [discriminate | reflexivity].
  - match type of H with (if ?b then _ else _) = _ => destruct b end; inversion H; subst; contradiction.
  - destruct ((c_state (get_conn st k) =? c_connectionClosed) || negb room); inversion H; subst; contradiction.
  - destruct (c_state (get_conn st k) =? c_connectionActive); inversion H; subst; contradiction.
  - destruct (frameTypeFor (f_mt f)); [|inversion H; subst; contradiction].
    match type of H with context [items_get ?a ?b ?cc] => destruct (items_get a b cc) as [st' g] end.
    inversion H; subst. destruct Hj as [<-|[]]. cbn in *. split; [exact Hi|reflexivity].
  - destruct g as [[it stopped]|]; [|inversion H; subst; contradiction].
    destruct (it_tomb it || (fin_of f && negb stopped)); inversion H; subst; [contradiction|]. cbn in Hi. destruct Hi as [-> ->].
    in_cases Hj; try exact I. cbn. intros ->. rewrite Z.eqb_refl. cbn. split; reflexivity.
  - match type of H with context [items_get ?a ?b ?cc] => destruct (items_get a b cc) as [st' g] end.
    inversion H; subst. destruct Hj as [<-|[]]. cbn in *. split; [reflexivity|exact Hi].
  - cbn in Hi. destruct Hi as [Hrk Hi]. destruct g as [[it stopped]|].
    + destruct (it_tomb it || (fin_of (r_f r) && negb stopped)); inversion H; subst; clear H.
      * eapply after_sent_thr; eassumption.
      * apply in_app_or in Hj. destruct Hj as [Hj|[<-|[]]]; [in_cases Hj; exact I|]. cbn. split; [reflexivity|exact Hi].
    + inversion H; subst. in_cases Hj. exact I.
  - cbn in Hi. destruct Hi as [_ Hi]. destruct room; inversion H; subst; clear H.
    + apply in_app_or in Hj. destruct Hj as [Hj|Hj]; [in_cases Hj; exact I|eapply after_sent_thr; eassumption].
    + in_cases Hj; exact I.
  - destruct (items_get st t true) as [st' g]. destruct g as [[it [|]]|]; inversion H; subst; try contradiction.
    destruct Hj as [<-|[]]. exact I.
  - destruct (items_entomb cf st t) as [st' g]. destruct g as [[it [|]]|]; inversion H; subst; try contradiction.
    apply in_app_or in Hj. destruct Hj as [Hj|[<-|[]]]; [|exact I].
    destruct (match s with FromFail _ => it_orig it | FromTimeout o => o end); [|contradiction].
    unfold orig_tail in Hj. destruct s; in_cases Hj; exact I.
  - destruct (items_delete_call st t lk) as [st' g]. destruct g as [[it [|]]|]; inversion H; subst; try contradiction.
    in_cases Hj; exact I.
  - destruct (zlookup tm (timers st)) as [x0|]; [|inversion H; subst; contradiction].
    destruct (tm_released x0); inversion H; subst; try contradiction. destruct Hj as [<-|[]]. exact I.
Qed.

(* ---------------------------------------------------------------- readers in flight, fired timers *)

Definition commit_ok (j : instr) : Prop :=
  match j with
  | INcChk _ f _ _ (Some (it, s)) => it_tomb it = false -> fin_of f = true -> s = true
  | IRcvChk r _ (Some (it, s)) => it_tomb it = false -> fin_of (r_f r) = true -> s = true
  | _ => True
  end.

Record FInv (st : state) (h : held) : Prop := {
  f_thr : forall th code j, In (th, code) (threads st) -> In j code -> thr_ok th j;
  f_fired : forall code t it, In (TT (it_tm it), code) (threads st) -> tt_pending code (it_tm it) t ->
              In (t, it) (items st) -> it_tomb it = false -> In (TT (it_tm it), it_call it) h;
  f_commit : forall th code j, In (th, code) (threads st) -> In j code -> commit_ok j;
  f_own : forall th code j own tk ti c, In (th, code) (threads st) -> In j code -> flight j = Some (own, tk, ti, c) ->
            exists it1, klookup own (items st) = Some it1 /\ it_tomb it1 = false /\ it_call it1 = c /\ it_dest it1 = tk /\ it_remap it1 = ti;
  f_noadm : forall th code j own tk ti c, In (th, code) (threads st) -> In j code -> flight j = Some (own, tk, ti, c) ->
            forall th2 code2 i f, In (th2, code2) (threads st) -> In i code2 -> adm_kf i = Some (tk, f) -> f_id f <> ti;
  f_ncget : forall th code k f, In (th, code) (threads st) -> In (INcGet k f) code -> kind_of f <> None ->
            f_id f < c_nextid (getc (conns st) k)
}.

Lemma FInv_init : FInv init [].
Proof. constructor; cbn; intros; contradiction. Qed.

Definition is_get (i : instr) : bool := match i with INcGet _ _ | IRcvGet _ => true | _ => false end.

(* in a run without overlap a Get that has to stop the timer of a live item does stop it *)
Lemma get_wins : forall st h th i rest t st2 it, Inv st -> TInv st -> HInv st h -> FInv st h ->
  lookup tid_eqb th (threads st) = Some (i :: rest) -> is_get i = true ->
  (forall c, In c (live_call st t) -> others_hold h th c = false) ->
  items_get st t true = (st2, Some (it, false)) -> it_tomb it = false -> False.
Proof.
  intros st h th i rest t st2 it HI HT HH HF El Hg Hto E Hlive.
  destruct (items_get_tspec _ _ _ _ _ HT E) as (_&_&_&Hm).
  destruct (klookup t (items st)) as [it0|] eqn:Hl; [|destruct Hm as [Hm _]; discriminate].
  destruct Hm as (x&Hx&Hk&[(Hs&_)|[(_&Hgg&_)|[(_&Hgg&_)|(_&Hgg&Hns&Hna&_)]]]); try discriminate.
  inversion Hgg. subst it0.
  pose proof (lookup_in key_eqb key_eqb_ok _ _ _ Hl) as Hin.
  destruct (t_oblig _ HT _ _ Hin Hlive) as (y&Hy&[A|[(code&Hc&Hp)|(S&_)]]); rewrite Hx in Hy; inversion Hy; subst y.
  - congruence.
  - pose proof (f_fired _ _ HF _ _ _ Hc Hp Hin Hlive) as Hh.
    assert (Hth : TT (it_tm it) = th).
    { eapply others_hold_false; [|exact Hh]. apply Hto. apply live_call_in; assumption. }
    subst th. pose proof (in_lookup tid_eqb tid_eqb_ok _ _ _ (inv_threads_nd _ HI) Hc) as Hl2. rewrite El in Hl2. inversion Hl2. subst code.
    destruct Hp as [Hp|(o&r'&Hp)]; inversion Hp; subst i; discriminate.
  - congruence.
Qed.

Lemma tt_pending_head : forall code tm t, tt_pending code tm t ->
  exists j, In j code /\ (j = ITimerRun tm \/ exists o, j = IEntomb t (FromTimeout o)) /\ code <> [] /\
            (j = ITimerRun tm -> code = [ITimerRun tm]).
Proof.
  intros code tm t [->|(o&r&->)].
  - exists (ITimerRun tm). split; [left; reflexivity|]. split; [left; reflexivity|]. split; [discriminate|reflexivity].
  - exists (IEntomb t (FromTimeout o)). split; [left; reflexivity|]. split; [right; exists o; reflexivity|]. split; [discriminate|discriminate].
Qed.

Lemma step_finv_LStep : forall cf st h th i rest room st1 pushed,
  Inv st -> TInv st -> WInv st -> HInv st h -> Shape st -> TPair st -> FInv st h ->
  lookup tid_eqb th (threads st) = Some (i :: rest) -> exec cf st i room = (st1, pushed) ->
  no_overlap_step st h (LStep th room) = true ->
  FInv (set_thread st1 th (pushed ++ rest)) (held_next st (LStep th room) (set_thread st1 th (pushed ++ rest)) h).
Proof.
  intros cf st h th i rest room st1 pushed HI HT HW HH HS HP HF El E Hno.
  pose proof (lookup_in tid_eqb tid_eqb_ok _ _ _ El) as Hin0.
  pose proof (exec_threads _ _ _ _ _ _ E) as Hth.
  pose proof (exec_nextid _ _ _ _ _ _ E) as Hnid.
  destruct (inv_code _ HI _ _ Hin0) as [Hfo Hsing]. inversion Hfo as [|? ? Hiok _]. subst.
  assert (Hmono : forall k0, c_nextid (getc (conns st) k0) <= c_nextid (getc (conns st1) k0)).
  { intro k0. rewrite Hnid. destruct i; try lia. pose proof (b2z_nonneg (k0 =? d)). lia. }
  assert (Hhead : head_of st th = Some i) by (unfold head_of; rewrite El; reflexivity).
  assert (Htouch : forall c, In c (touches_i st i) -> others_hold h th c = false).
  { intros c Hc. unfold no_overlap_step in Hno. cbn [actor touches] in Hno. rewrite Hhead in Hno.
    rewrite forallb_forall in Hno. apply negb_true_iff. apply Hno. exact Hc. }
  assert (Hold : forall t it, In (t, it) (items st) -> klookup t (items st) = Some it).
  { intros t it Hin. apply (in_lookup key_eqb key_eqb_ok); [apply (inv_items_nd _ HI)|exact Hin]. }
  set (st' := set_thread st1 th (pushed ++ rest)).
  assert (Hcode : forall th' code' j, In (th', code') (threads st') -> In j code' ->
     (th' = th /\ code' = pushed ++ rest /\ In j pushed) \/ (exists code0, In (th', code0) (threads st) /\ In j code0 /\ (th' = th -> In j rest))).
  { intros th' code' j Hin Hj. apply set_thread_in in Hin. destruct Hin as [[-> ->]|[Hne Hin]].
    - apply in_app_or in Hj. destruct Hj as [Hj|Hj]; [left; repeat split; assumption|].
      right. exists (i :: rest). split; [exact Hin0|]. split; [right; exact Hj|intros _; exact Hj].
    - right. rewrite Hth in Hin. exists code'. split; [exact Hin|]. split; [exact Hj|]. intro Heq. contradiction. }
  assert (Hkeep : forall th' c code', In (th', code') (threads st') -> code' <> [] -> In (th', c) h ->
            In (th', c) (held_next st (LStep th room) st' h)).
  { intros th' c code' Hin Hne Hh. destruct (eqb_dec tid_eqb tid_eqb_ok th' th) as [->|Hn].
    - apply set_thread_in in Hin. destruct Hin as [[_ ->]|[Hx _]]; [|contradiction].
      apply (held_next_self _ _ _ _ _ _ (pushed ++ rest)); [reflexivity| |left; exact Hh].
      unfold st'. rewrite lookup_set_thread_self. destruct (pushed ++ rest); [contradiction|reflexivity].
    - apply held_next_other; [exact Hh|cbn; congruence]. }
  assert (Hholds : forall th' code0 j c, In (th', code0) (threads st) -> In j code0 -> oncall c j = true -> In (th', c) h).
  { intros. eapply (h_code _ _ HH); eassumption. }
  constructor.
  - (* f_thr *)
    intros th' code' j Hin Hj. destruct (Hcode _ _ _ Hin Hj) as [(->&_&Hp)|(code0&Hin1&Hj1&_)].
    + eapply pushed_thr; [exact E| |exact Hp]. eapply (f_thr _ _ HF); [exact Hin0|left; reflexivity].
    + eapply (f_thr _ _ HF); eassumption.
  - (* f_fired *)
    intros code' t it Hin Hp Hit Hlive. cbn [st' set_thread set_threads items] in Hit.
    destruct (tt_pending_head _ _ _ Hp) as (j&Hj&Hjk&Hne&Hsingle).
    destruct (exec_items_fields _ _ _ _ _ _ _ _ E Hit) as [(it0&Hi0&Hc&_&_&_&Htm&Htomb)|[(k&f&e&c&d&Hi&_&_&_&_&_&_&Htm)|(k&f&e&c&d&did&Hi&_&_&_&_&_&_&Htm)]].
    + assert (Hl0 : it_tomb it0 = false) by (destruct (it_tomb it0); [rewrite Htomb in Hlive by reflexivity; discriminate|reflexivity]).
      rewrite Hc, Htm in *.
      destruct (Hcode _ _ _ Hin Hj) as [(Heq&Hc'&Hpj)|(code0&Hin1&Hj1&Hrest)].
      * (* the timer goroutine itself stepped *)
        destruct (pushed_kinds _ _ _ _ _ _ _ E Hpj) as (_&Htr&Hte&_).
        destruct Hjk as [->|(o&->)]; [discriminate|]. destruct (Hte eq_refl) as [tm1 ->].
        pose proof (t_code _ HT _ _ Hin0) as Htc. cbn in Htc. destruct Htc as (_&Hthq&Hr&_). subst rest.
        rewrite <- Heq in Hthq. inversion Hthq. subst tm1.
        eapply Hkeep; [exact Hin|exact Hne|].
        eapply (f_fired _ _ HF); [rewrite Heq; exact Hin0|left; reflexivity|exact Hi0|exact Hl0].
      * destruct (eqb_dec tid_eqb tid_eqb_ok (TT (it_tm it0)) th) as [Heq|Hn].
        -- exfalso. specialize (Hrest Heq). pose proof (t_code _ HT _ _ Hin0) as Htc. cbn in Htc. destruct Htc as [Hr _].
           destruct (Hr _ Hrest) as [A B]. destruct Hjk as [->|(o&->)]; discriminate.
        -- assert (Hc0 : code0 = code').
           { apply set_thread_in in Hin. destruct Hin as [[Hx _]|[_ Hin]]; [contradiction|]. rewrite Hth in Hin.
             pose proof (in_lookup tid_eqb tid_eqb_ok _ _ _ (inv_threads_nd _ HI) Hin) as L1.
             pose proof (in_lookup tid_eqb tid_eqb_ok _ _ _ (inv_threads_nd _ HI) Hin1) as L2. congruence. }
           subst code0. eapply Hkeep; [exact Hin|exact Hne|]. eapply (f_fired _ _ HF); eassumption.
    + (* a freshly added item: its timer is new, no goroutine of it exists *)
      exfalso. subst i. rewrite Htm in *.
      destruct (Hcode _ _ _ Hin Hj) as [(Heq&_&_)|(code0&Hin1&Hj1&_)].
      * destruct (iok_adm _ _ _ _ (IAddDest k f e c d) k f eq_refl Hiok) as [Hk _]. congruence.
      * pose proof (t_code _ HT _ _ Hin1) as Htc. destruct code0 as [|a r]; [contradiction|]. cbn in Htc. destruct Htc as [Hr Hm].
        assert (Hbound : forall tm x, zlookup tm (timers st) = Some x -> tm < next_tm st) by (intros tm x Hx; apply (t_alloc _ HT _ _ Hx)).
        destruct Hj1 as [->|Hj1].
        -- destruct Hjk as [->|(o&->)].
           ++ destruct Hm as (Hq&_&x&Hx&_). inversion Hq. pose proof (Hbound _ _ Hx). lia.
           ++ destruct Hm as (tm0&x&Hq&Hx&_). inversion Hq. pose proof (Hbound _ _ Hx). lia.
        -- destruct (Hr _ Hj1) as [A B]. destruct Hjk as [->|(o&->)]; discriminate.
    + exfalso. subst i. rewrite Htm in *.
      destruct (Hcode _ _ _ Hin Hj) as [(Heq&_&_)|(code0&Hin1&Hj1&_)].
      * destruct (iok_adm _ _ _ _ (IAddOrig k f e c d did) k f eq_refl Hiok) as [Hk _]. congruence.
      * pose proof (t_code _ HT _ _ Hin1) as Htc. destruct code0 as [|a r]; [contradiction|]. cbn in Htc. destruct Htc as [Hr Hm].
        assert (Hbound : forall tm x, zlookup tm (timers st) = Some x -> tm < next_tm st) by (intros tm x Hx; apply (t_alloc _ HT _ _ Hx)).
        destruct Hj1 as [->|Hj1].
        -- destruct Hjk as [->|(o&->)].
           ++ destruct Hm as (Hq&_&x&Hx&_). inversion Hq. pose proof (Hbound _ _ Hx). lia.
           ++ destruct Hm as (tm0&x&Hq&Hx&_). inversion Hq. pose proof (Hbound _ _ Hx). lia.
        -- destruct (Hr _ Hj1) as [A B]. destruct Hjk as [->|(o&->)]; discriminate.
  - (* f_commit *)
    intros th' code' j Hin Hj. destruct (Hcode _ _ _ Hin Hj) as [(->&_&Hp)|(code0&Hin1&Hj1&_)]; [|eapply (f_commit _ _ HF); eassumption].
    destruct (pushed_kinds _ _ _ _ _ _ _ E Hp) as (_&_&_&Hnc&Hrc).
    destruct j; try exact I.
    + destruct g as [[it s]|]; [|exact I]. cbn. intros Hlive Hfin. specialize (Hnc _ _ _ _ _ eq_refl). subst i.
      cbn [exec] in E. destruct (frameTypeFor (f_mt f)) as [ft0|] eqn:Eft; [|inversion E; subst; contradiction].
      rewrite Hfin in E.
      match type of E with context [items_get ?a ?b ?cc] => destruct (items_get a b cc) as [st2 g2] eqn:Eg end.
      inversion E. subst st1 pushed. destruct Hp as [Hp|[]]. inversion Hp. subst ft0 own g2.
      destruct s; [reflexivity|]. exfalso.
      eapply (get_wins st h th); try eassumption; [reflexivity|].
      intros c Hc. apply Htouch. cbn [touches_i gets_i]. unfold nc_key. rewrite Eft. exact Hc.
    + destruct g as [[it s]|]; [|exact I]. cbn. intros Hlive Hfin. specialize (Hrc _ _ _ eq_refl). subst i.
      cbn [exec] in E. rewrite Hfin in E.
      match type of E with context [items_get ?a ?b ?cc] => destruct (items_get a b cc) as [st2 g2] eqn:Eg end.
      inversion E. subst st1 pushed. destruct Hp as [Hp|[]]. inversion Hp. subst rk g2.
      destruct s; [reflexivity|]. exfalso.
      eapply (get_wins st h th); try eassumption; reflexivity.
  - (* f_own *)
    intros th' code' j own tk ti c Hin Hj Hfl. cbn [st' set_thread set_threads items].
    assert (Hpersist : forall it1, klookup own (items st) = Some it1 -> it_tomb it1 = false -> it_call it1 = c ->
              (forall thj code0, In (thj, code0) (threads st) -> In j code0 -> (thj = th -> In j rest) -> True) ->
              (exists thj code0, In (thj, code0) (threads st) /\ In j code0 /\ (thj = th -> In j rest)) \/ flight i <> None ->
              klookup own (items st1) = Some it1).
    { intros it1 Hl1 Hlive1 Hcall1 _ Hwho.
      destruct (exec_items_keep _ _ _ _ _ _ _ _ E Hl1) as [Hk|[(s&Hi)|[(lk0&Hi)|[(k&f&e&c0&d&Hi&Ht)|(k&f&e&c0&d&did&Hi&Ht)]]]]; [exact Hk| | | |].
      - exfalso. subst i. destruct Hwho as [(thj&code0&Hinj&Hjj&Hrest)|Hfi]; [|apply Hfi; reflexivity].
        assert (Hhj : In (thj, c) h) by (eapply Hholds; [exact Hinj|exact Hjj|eapply flight_oncall; exact Hfl]).
        assert (Heq : thj = th).
        { eapply others_hold_false; [|exact Hhj]. apply Htouch. cbn [touches_i]. rewrite <- Hcall1. apply live_call_in; assumption. }
        destruct (shape_head _ _ (HS _ _ Hin0)) as (_&_&Hq). specialize (Hq eq_refl). rewrite forallb_forall in Hq.
        rewrite (quiet_flight _ (Hq _ (Hrest Heq))) in Hfl. discriminate.
      - exfalso. subst i. destruct Hwho as [(thj&code0&Hinj&Hjj&Hrest)|Hfi]; [|apply Hfi; reflexivity].
        assert (Hhj : In (thj, c) h) by (eapply Hholds; [exact Hinj|exact Hjj|eapply flight_oncall; exact Hfl]).
        assert (Heq : thj = th).
        { eapply others_hold_false; [|exact Hhj]. apply Htouch. cbn [touches_i]. rewrite <- Hcall1. apply live_call_in; assumption. }
        destruct (shape_head _ _ (HS _ _ Hin0)) as (_&_&Hq). specialize (Hq eq_refl). rewrite forallb_forall in Hq.
        rewrite (quiet_flight _ (Hq _ (Hrest Heq))) in Hfl. discriminate.
      - exfalso. subst own. destruct (inv_keys _ HI (d, 1, c_nextid (get_conn st d))) as [[Hz _]|[_ Hlt]].
        + left. apply (lookup_in key_eqb key_eqb_ok) in Hl1. apply (in_map fst) in Hl1. exact Hl1.
        + cbn in Hz. discriminate.
        + cbn in Hlt. rewrite get_conn_getc in Hlt. lia.
      - exfalso. subst i own. destruct (iok_adm _ _ _ _ (IAddOrig k f e c0 d did) k f eq_refl Hiok) as [_ (_&Hfree&_)]. congruence. }
    destruct (Hcode _ _ _ Hin Hj) as [(->&_&Hp)|(code0&Hin1&Hj1&Hrest)].
    + destruct (pushed_flight _ _ _ _ _ _ _ _ E Hp Hfl) as [Hfi|(k&f&it&Hi&Hft&Hl&Hlive&Hx)].
      * destruct (f_own _ _ HF _ _ _ _ _ _ _ Hin0 (or_introl eq_refl) Hfi) as (it1&Hl1&A&B&C&D).
        exists it1. split; [|repeat split; assumption]. apply Hpersist; try assumption; [intros; exact I|]. right. congruence.
      * inversion Hx. subst own tk ti c. exists it. split; [|repeat split; assumption].
        destruct (exec_items_keep _ _ _ _ _ _ _ _ E Hl) as [Hk|[(s&Hi2)|[(lk0&Hi2)|[(k2&f2&e2&c2&d2&Hi2&_)|(k2&f2&e2&c2&d2&did2&Hi2&_)]]]]; [exact Hk| | | |]; subst i; discriminate.
    + destruct (f_own _ _ HF _ _ _ _ _ _ _ Hin1 Hj1 Hfl) as (it1&Hl1&A&B&C&D).
      exists it1. split; [|repeat split; assumption]. apply Hpersist; try assumption; [intros; exact I|]. left. exists th', code0. repeat split; assumption.
  - (* f_noadm *)
    intros th' code' j own tk ti c Hin Hj Hfl th2 code2 i2 f2 Hin2 Hj2 Ha Hfid.
    assert (Hadm_old : exists thx codex, In (thx, codex) (threads st) /\ exists ix, In ix codex /\ adm_kf ix = Some (tk, f2)).
    { destruct (Hcode _ _ _ Hin2 Hj2) as [(->&_&Hp2)|(code0&Hin1&Hj1&_)].
      - destruct (pushed_adm _ _ _ _ _ _ _ _ _ E Hp2 Ha) as (Hai&_). exists th, (i :: rest). split; [exact Hin0|]. exists i. split; [left; reflexivity|exact Hai].
      - exists th2, code0. split; [exact Hin1|]. exists i2. split; assumption. }
    destruct Hadm_old as (thx&codex&Hinx&ix&Hjx&Hax).
    destruct (Hcode _ _ _ Hin Hj) as [(->&_&Hp)|(code0&Hin1&Hj1&_)].
    + destruct (pushed_flight _ _ _ _ _ _ _ _ E Hp Hfl) as [Hfi|(k&f&it&Hi&Hft&Hl&Hlive&Hx)].
      * exact (f_noadm _ _ HF _ _ _ _ _ _ _ Hin0 (or_introl eq_refl) Hfi _ _ _ _ Hinx Hjx Hax Hfid).
      * assert (Hfid' : f_id f2 = it_remap it) by (inversion Hx; congruence).
        assert (Htk' : tk = it_dest it) by (inversion Hx; congruence).
        subst i tk.
        pose proof (lookup_in key_eqb key_eqb_ok _ _ _ Hl) as Hit.
        destruct (tp1 _ HP _ _ _ _ _ _ Hit eq_refl Hinx Hjx Hax Hfid') as [e He]. subst ix.
        assert (Hhx : In (thx, it_call it) h) by (eapply Hholds; [exact Hinx|exact Hjx|cbn; apply Z.eqb_refl]).
        assert (Heq : thx = th).
        { eapply others_hold_false; [|exact Hhx]. apply Htouch. cbn [touches_i gets_i]. unfold nc_key. rewrite Hft, Z.eqb_refl.
          apply live_call_in; assumption. }
        subst thx. pose proof (in_lookup tid_eqb tid_eqb_ok _ _ _ (inv_threads_nd _ HI) Hinx) as Lx. rewrite El in Lx. inversion Lx. subst codex.
        pose proof (Hsing _ Hjx eq_refl) as Hs. inversion Hs.
    + exact (f_noadm _ _ HF _ _ _ _ _ _ _ Hin1 Hj1 Hfl _ _ _ _ Hinx Hjx Hax Hfid).
  - (* f_ncget *)
    intros th' code' k f Hin Hj Hk. cbn [st' set_thread set_threads conns].
    destruct (Hcode _ _ _ Hin Hj) as [(->&_&Hp)|(code0&Hin1&Hj1&_)].
    + destruct (pushed_kinds _ _ _ _ _ _ _ E Hp) as (Hn&_). exfalso. eapply Hn. reflexivity.
    + pose proof (f_ncget _ _ HF _ _ _ _ Hin1 Hj1 Hk). specialize (Hmono k). lia.
Qed.

Lemma FInv_ext : forall st st' h, FInv st h -> items st' = items st -> threads st' = threads st ->
  (forall k, c_nextid (getc (conns st') k) = c_nextid (getc (conns st) k)) -> FInv st' h.
Proof.
  intros st st' h HF Hi Ht Hc. constructor; rewrite ?Hi, ?Ht.
  - apply (f_thr _ _ HF).
  - apply (f_fired _ _ HF).
  - apply (f_commit _ _ HF).
  - apply (f_own _ _ HF).
  - apply (f_noadm _ _ HF).
  - intros th code k f Hin Hj Hk. rewrite Hc. eapply (f_ncget _ _ HF); eassumption.
Qed.

Lemma flight_seen : forall st th code j own tk ti c, WInv st -> In (th, code) (threads st) -> In j code ->
  flight j = Some (own, tk, ti, c) -> In (tk, ti) (seen st).
Proof.
  intros st th code j own tk ti c HW Hin Hj Hfl. pose proof (w_code _ HW _ _ _ Hin Hj) as Hw.
  destruct j; cbn in Hfl; try discriminate.
  - destruct g as [[it s]|]; [|discriminate]. destruct ((ft =? c_responseFrame) && negb (it_tomb it)) eqn:Eb; [|discriminate].
    apply andb_true_iff in Eb. destruct Eb as [E1 _]. apply Z.eqb_eq in E1. inversion Hfl. subst. cbn in Hw. destruct Hw as [_ Hw]. apply Hw. reflexivity.
  - destruct (r_ft r =? c_responseFrame) eqn:E1; [|discriminate]. apply Z.eqb_eq in E1. inversion Hfl. subst. cbn in Hw. destruct Hw as (_&Hw&_). apply Hw. exact E1.
  - destruct (r_ft r =? c_responseFrame) eqn:E1; [|discriminate]. apply Z.eqb_eq in E1. inversion Hfl. subst. cbn in Hw. destruct Hw as (_&Hw&_). apply Hw. exact E1.
  - destruct (r_ft r =? c_responseFrame) eqn:E1; [|discriminate]. apply Z.eqb_eq in E1. inversion Hfl. subst. cbn in Hw. destruct Hw as (_&Hw&_). apply Hw. exact E1.
Qed.

Lemma step_finv : forall cf st h l st', Inv st -> TInv st -> WInv st -> HInv st h -> Shape st -> TPair st -> FInv st h ->
  fresh_label st l = true -> no_overlap_step st h l = true -> causal_step st l = true ->
  step cf st l = Some st' -> FInv st' (held_next st l st' h).
Proof.
  intros cf st h l st' HI HT HW HH HS HP HF Hfresh Hno Hcau H. pose proof H as Hstep. unfold step in H.
  destruct (negb (panicked st =? 0)); [discriminate|].
  destruct l as [k f e|th room|tm|t|k|k|k].
  - (* LArrive *)
    unfold held_next. cbn [actor].
    destruct (lookup tid_eqb (TR k) (threads st)); [discriminate|].
    destruct (relayRoute (f_mt f) (cf_cancel cf) =? 1); [|inversion H; subst; exact HF].
    assert (G : forall st0 code0, items st0 = items st -> conns st0 = conns st -> threads st0 = threads st ->
              (code0 = [INcGet k f] \/ (exists e0, code0 = [IStart k f e0] /\ ~ In (k, f_id f) (seen st))) ->
              FInv (set_thread st0 (TR k) code0) h).
    { intros st0 code0 Hi Hc Ht Hcode0.
      assert (Hnew : forall th code j, In (th, code) (threads (set_thread st0 (TR k) code0)) -> In j code ->
                (th = TR k /\ (j = INcGet k f \/ exists e0, j = IStart k f e0 /\ ~ In (k, f_id f) (seen st))) \/ (In (th, code) (threads st))).
      { intros th code j Hin Hj. apply set_thread_in in Hin. destruct Hin as [[-> ->]|[_ Hin]]; [left|right; rewrite <- Ht; exact Hin].
        split; [reflexivity|]. destruct Hcode0 as [->|(e0&->&Hns)]; destruct Hj as [<-|[]]; [left; reflexivity|right; exists e0; split; [reflexivity|exact Hns]]. }
      constructor; cbn [set_thread set_threads items conns]; rewrite ?Hi, ?Hc.
      - intros th code j Hin Hj. destruct (Hnew _ _ _ Hin Hj) as [(->&[->|(e0&->&_)])|Hold]; [reflexivity|exact I|eapply (f_thr _ _ HF); eassumption].
      - intros code t it Hin Hp Hit Hlive. fold (threads (set_thread st0 (TR k) code0)) in Hin.
        apply set_thread_in in Hin. destruct Hin as [[Hq _]|[_ Hin]]; [discriminate|]. rewrite Ht in Hin. eapply (f_fired _ _ HF); eassumption.
      - intros th code j Hin Hj. destruct (Hnew _ _ _ Hin Hj) as [(->&[->|(e0&->&_)])|Hold]; [exact I|exact I|eapply (f_commit _ _ HF); eassumption].
      - intros th code j own tk ti c Hin Hj Hfl. destruct (Hnew _ _ _ Hin Hj) as [(->&[->|(e0&->&_)])|Hold]; [discriminate|discriminate|eapply (f_own _ _ HF); eassumption].
      - intros th code j own tk ti c Hin Hj Hfl th2 code2 i2 f2 Hin2 Hj2 Ha Hfid.
        destruct (Hnew _ _ _ Hin Hj) as [(->&[->|(e0&->&_)])|Hold]; [discriminate|discriminate|].
        destruct (Hnew _ _ _ Hin2 Hj2) as [(->&[->|(e0&->&Hns)])|Hold2]; [discriminate| |].
        + assert (Hs : In (tk, ti) (seen st)) by (eapply flight_seen; eassumption).
          cbn in Ha. inversion Ha. subst. apply Hns. exact Hs.
        + exact (f_noadm _ _ HF _ _ _ _ _ _ _ Hold Hj Hfl _ _ _ _ Hold2 Hj2 Ha Hfid).
      - intros th code k0 f0 Hin Hj Hk. destruct (Hnew _ _ _ Hin Hj) as [(->&[Heq|(e0&Heq&_)])|Hold]; [|discriminate|eapply (f_ncget _ _ HF); eassumption].
        inversion Heq. subst k0 f0. cbn [causal_step] in Hcau. destruct (kind_of f); [|contradiction Hk; reflexivity].
        apply Z.ltb_lt in Hcau. exact Hcau. }
    destruct (f_mt f =? c_messageTypeCallReq) eqn:Emt; inversion H; subst; clear H.
    + apply G; try reflexivity. right. exists e. split; [reflexivity|].
      cbn [fresh_label] in Hfresh. rewrite Emt in Hfresh. cbn [andb] in Hfresh. apply negb_true_iff in Hfresh.
      intro Hs. assert (Hex : existsb (fun p => (fst p =? k) && (snd p =? f_id f)) (seen st) = true).
      { apply existsb_exists. exists (k, f_id f). split; [exact Hs|]. cbn. rewrite !Z.eqb_refl. reflexivity. }
      congruence.
    + apply G; try reflexivity. left. reflexivity.
  - destruct (lookup tid_eqb th (threads st)) as [[|i rest]|] eqn:El; try discriminate.
    destruct (exec cf st i room) as [st1 pushed] eqn:E. inversion H. subst st'.
    eapply step_finv_LStep; eassumption.
  - (* LFire *)
    destruct (zlookup tm (timers st)) as [x|] eqn:Ex; [|discriminate].
    destruct (tm_armed x && match lookup tid_eqb (TT tm) (threads st) with None => true | Some _ => false end); [|discriminate].
    inversion H. subst st'. clear H.
    match goal with |- FInv ?s _ => set (st' := s) end.
    assert (Hacq : acquires st (LFire tm) = live_call st (tm_key x)).
    { unfold acquires, touches. rewrite Ex. apply app_nil_r. }
    assert (Hnew : forall th code j, In (th, code) (threads st') -> In j code ->
              (th = TT tm /\ code = [ITimerRun tm] /\ j = ITimerRun tm) \/ (th <> TT tm /\ In (th, code) (threads st))).
    { intros th code j Hin Hj. apply set_thread_in in Hin. destruct Hin as [[-> ->]|[Hne Hin]]; [left|right; split; assumption].
      destruct Hj as [<-|[]]. repeat split. }
    constructor; cbn [st' set_thread set_threads set_timers items conns].
    + intros th code j Hin Hj. destruct (Hnew _ _ _ Hin Hj) as [(->&->&->)|[_ Hold]]; [exact I|eapply (f_thr _ _ HF); eassumption].
    + intros code t it Hin Hp Hit Hlive. fold (threads st') in Hin.
      destruct (tt_pending_head _ _ _ Hp) as (j&Hj&_&Hne&_).
      destruct (Hnew _ _ _ Hin Hj) as [(Hq&->&->)|[Hne' Hold]].
      * assert (Htm : it_tm it = tm) by (inversion Hq; reflexivity). clear Hq. rewrite Htm.
        apply (held_next_self _ _ _ _ _ _ [ITimerRun tm]); [reflexivity| |].
        { unfold st'. rewrite lookup_set_thread_self. reflexivity. }
        right. rewrite Hacq. destruct (t_item _ HT _ _ Hit) as (y&Hy&Hk&_). rewrite Htm, Ex in Hy. inversion Hy. subst y.
        rewrite Hk. apply live_call_in; [|exact Hlive]. apply (in_lookup key_eqb key_eqb_ok); [apply (inv_items_nd _ HI)|exact Hit].
      * apply held_next_other; [|cbn; congruence]. eapply (f_fired _ _ HF); eassumption.
    + intros th code j Hin Hj. destruct (Hnew _ _ _ Hin Hj) as [(->&->&->)|[_ Hold]]; [exact I|eapply (f_commit _ _ HF); eassumption].
    + intros th code j own tk ti c Hin Hj Hfl. destruct (Hnew _ _ _ Hin Hj) as [(->&->&->)|[_ Hold]]; [discriminate|eapply (f_own _ _ HF); eassumption].
    + intros th code j own tk ti c Hin Hj Hfl th2 code2 i2 f2 Hin2 Hj2 Ha Hfid.
      destruct (Hnew _ _ _ Hin Hj) as [(->&->&->)|[_ Hold]]; [discriminate|].
      destruct (Hnew _ _ _ Hin2 Hj2) as [(->&->&->)|[_ Hold2]]; [discriminate|].
      exact (f_noadm _ _ HF _ _ _ _ _ _ _ Hold Hj Hfl _ _ _ _ Hold2 Hj2 Ha Hfid).
    + intros th code k f Hin Hj Hk. destruct (Hnew _ _ _ Hin Hj) as [(->&->&Hq)|[_ Hold]]; [discriminate|eapply (f_ncget _ _ HF); eassumption].
  - (* LGc *)
    unfold held_next. cbn [actor].
    destruct (mem_key t (gcs st)) eqn:Emem; [|discriminate]. inversion H. subst.
    gc_delete HI.
    destruct (items_delete (set_gcs st (remove_one t (gcs st))) t) as [st' g] eqn:E. cbn [fst].
    apply items_delete_spec in E. cbn [set_gcs conns gcs threads cblog sent seen next_call items] in E.
    destruct E as (Hc&_&A&_&_&_&_&D).
    assert (Hsub : forall t0 it, In (t0, it) (items st') -> In (t0, it) (items st)).
    { intros t0 it Hin. destruct (klookup t (items st)); destruct D as [_ Hi]; rewrite Hi in Hin; [|exact Hin].
      apply (in_remove key_eqb key_eqb_ok) in Hin. tauto. }
    constructor; rewrite ?A, ?Hc.
    + apply (f_thr _ _ HF).
    + intros code t0 it Hin Hp Hit. apply Hsub in Hit. eapply (f_fired _ _ HF); eassumption.
    + apply (f_commit _ _ HF).
    + intros th code j own tk ti c Hin Hj Hfl. destruct (f_own _ _ HF _ _ _ _ _ _ _ Hin Hj Hfl) as (it1&Hl1&Hlive&Rest).
      exists it1. split; [|split; assumption].
      assert (Hne : own <> t).
      { intro Heq. subst own. unfold mem_key in Emem. apply existsb_exists in Emem. destruct Emem as (t'&Hin'&Heq). apply key_eqb_ok in Heq. subst t'.
        rewrite (inv_gcs _ HI _ _ Hin' Hl1) in Hlive. discriminate. }
      destruct (klookup t (items st)); destruct D as [_ Hi]; rewrite Hi; [|exact Hl1].
      rewrite (lookup_remove_neq key_eqb key_eqb_ok) by exact Hne. exact Hl1.
    + apply (f_noadm _ _ HF).
    + apply (f_ncget _ _ HF).
  - unfold held_next. cbn [actor]. destruct (c_state (get_conn st k) =? c_connectionActive); [|discriminate]. inversion H. subst.
    eapply FInv_ext; [exact HF|reflexivity|reflexivity|]. apply nextid_put_same. reflexivity.
  - unfold held_next. cbn [actor]. inversion H. subst. eapply FInv_ext; [exact HF|reflexivity|reflexivity|]. apply nextid_put_same. reflexivity.
  - unfold held_next. cbn [actor]. match type of H with (if ?b then _ else _) = _ => destruct b end; [|discriminate]. inversion H. subst.
    eapply FInv_ext; [exact HF|reflexivity|reflexivity|]. apply nextid_put_same. reflexivity.
Qed.

(* ---------------------------------------------------------------- all invariants of runs without overlap *)

Record AllInv (st : state) (h : held) : Prop := {
  a_inv : Inv st; a_tinv : TInv st; a_winv : WInv st; a_hinv : HInv st h; a_shape : Shape st;
  a_tpair : TPair st; a_finv : FInv st h; a_linv : LInv st
}.

Lemma AllInv_init : AllInv init [].
Proof.
  constructor; [apply Inv_init|apply TInv_init|apply WInv_init|apply HInv_init|apply Shape_init|apply TPair_init|apply FInv_init|apply LInv_init].
Qed.

Lemma step_all : forall cf st h l st', AllInv st h -> fresh_label st l = true -> no_overlap_step st h l = true ->
  causal_step st l = true -> step cf st l = Some st' -> AllInv st' (held_next st l st' h).
Proof.
  intros cf st h l st' [HI HT HW HH HS HP HF HL] Hf Hno Hc Hs. constructor.
  - eapply step_inv; eassumption.
  - eapply step_tinv; eassumption.
  - eapply step_winv; eassumption.
  - eapply step_hinv; eassumption.
  - eapply step_shape; eassumption.
  - eapply step_tpair; eassumption.
  - eapply step_finv; eassumption.
  - eapply LInv_step; eassumption.
Qed.
