(* Kernel-checked counterexamples:
   - the unrepaired window (known finding c16:peer-collected-during-add): runs of the model of
     the code AS IT IS that reach a quiescent state violating the property;
   - the repaired check-then-append race of Peer.addConnection: a run of the pre-repair step
     function (recheck = false) reaching a quiescent state with a closed connection listed. *)
From Coq Require Import ZArith List Bool Lia.
From Verif Require Import Base.Wrap Gen.GenConsts Model.PeerBook Spec.PeerBookSpec Proofs.PeerBookL Proofs.PeerBookP Proofs.PeerBookS.
Import ListNotations.
Local Open Scope Z_scope.

Definition is_some (p : option pc) : bool := match p with Some _ => true | None => false end.

Lemma quiescent_check s :
  inv_fresh s -> any_thread is_some (s_thr s) (Z.to_nat (s_next s)) = false -> quiescent s.
Proof.
  intros (Hpos & Hthr & _) H t.
  destruct (s_thr s t) as [p|] eqn:E; [|reflexivity]. exfalso.
  assert (Hb : 0 <= t < s_next s) by (apply Hthr; congruence).
  pose proof (any_thread_false _ _ _ H t) as Hn. rewrite E in Hn.
  assert (0 <= t < Z.of_nat (Z.to_nat (s_next s))) by lia. specialize (Hn H0). discriminate Hn.
Qed.

Definition final (recheck : bool) (ls : list label) : st :=
  match run_gen recheck init ls with Some s => s | None => init end.

Definition ran (recheck : bool) (ls : list label) : bool :=
  match run_gen recheck init ls with Some _ => true | None => false end.

Lemma final_run recheck ls : ran recheck ls = true -> run_gen recheck init ls = Some (final recheck ls).
Proof. unfold ran, final. destruct (run_gen recheck init ls); [reflexivity|discriminate]. Qed.

Definition steps (t : Z) (n : nat) : list label := repeat (LStep t) n.

(* ---- W1: the peer is collected while a second connection is being added to it ---- *)
Definition w1 : list label :=
  [LNew c_outbound 11 11] ++ steps 2 5 ++            (* connection 1 to host:port 11, listed under peer 3 *)
  [LNew c_outbound 11 11] ++ steps 5 3 ++            (* connection 4: GetOrAdd returned peer 3; parked before the append *)
  [LChange 1 c_connectionClosed] ++ steps 6 7 ++     (* connection 1 closes: removed, peer 3 judged removable, deleted *)
  steps 5 2.                                          (* connection 4 is appended to the orphan peer 3 *)

Theorem w1_refutes :
  exists ls s, run init ls = Some s /\ quiescent s /\ ~ all_listed s.
Proof.
  exists w1, (final true w1).
  assert (Hrun : run init w1 = Some (final true w1)) by (apply final_run; vm_compute; reflexivity).
  split; [exact Hrun|]. split.
  - apply quiescent_check; [apply (inv0_reach _ _ Hrun)|vm_compute; reflexivity].
  - intros H. destruct (H 4) as [Hr _]; [vm_compute; reflexivity|]. apply Hr. vm_compute. reflexivity.
Qed.

(* ---- W2: the peer is collected between RootPeerList.Add and addSC in PeerList.Add ---- *)
Definition w2 : list label :=
  [LNew c_outbound 11 11] ++ steps 2 5 ++            (* connection 1, peer 3 *)
  [LListAdd 0 11] ++                                  (* PeerList.Add(11): parent.Add returned peer 3 (goroutine 4) *)
  [LChange 1 c_connectionClosed] ++ steps 5 7 ++     (* connection 1 closes, peer 3 is deleted from the root list *)
  steps 4 1.                                          (* addSC on the orphan; the list now references it *)

Theorem w2_refutes :
  exists ls s, run init ls = Some s /\ quiescent s /\ ~ refs_rooted s.
Proof.
  exists w2, (final true w2).
  assert (Hrun : run init w2 = Some (final true w2)) by (apply final_run; vm_compute; reflexivity).
  split; [exact Hrun|]. split.
  - apply quiescent_check; [apply (inv0_reach _ _ Hrun)|vm_compute; reflexivity].
  - intros H. specialize (H 0 11 3). assert (Hin : In (0, 11, 3) (s_lists (final true w2))) by (vm_compute; now left).
    specialize (H Hin). vm_compute in H. discriminate H.
Qed.

(* both are excluded by run_safe *)
Lemma w1_unsafe : run_safe init w1 = None. Proof. vm_compute. reflexivity. Qed.
Lemma w2_unsafe : run_safe init w2 = None. Proof. vm_compute. reflexivity. Qed.

(* ---- W3: the code before the repair (no re-check under the peer lock) ---- *)
Definition w3 : list label :=
  [LNew c_inbound 12 0] ++ steps 2 3 ++              (* inbound connection 1: state check passed, parked before the append *)
  [LChange 1 c_connectionClosed] ++ steps 4 4 ++     (* Channel.Close / idle sweep drive it to Closed; callbacks find nothing *)
  steps 2 2.                                          (* the append *)

Theorem w3_unrepaired_refutes :
  exists ls s, run_gen false init ls = Some s /\ quiescent s /\ run_safe init ls <> None /\
    exists hp pid c, s_root s hp = Some pid /\ In c (p_in (s_peer s pid)) /\ ~ active s c.
Proof.
  exists w3, (final false w3).
  assert (Hrun : run_gen false init w3 = Some (final false w3)) by (apply final_run; vm_compute; reflexivity).
  split; [exact Hrun|]. split; [|split].
  - intros t. vm_compute. destruct t as [|q|q]; [reflexivity| |reflexivity].
    repeat (destruct q as [q|q|]; try reflexivity).
  - vm_compute. discriminate.
  - exists 12, 3, 1. split; [vm_compute; reflexivity|]. split; [vm_compute; now left|].
    vm_compute. discriminate.
Qed.

(* the same schedule on the repaired code leaves the peer's lists empty *)
Lemma w3_repaired : p_in (s_peer (final true w3) 3) = [] /\ p_out (s_peer (final true w3) 3) = [].
Proof. vm_compute. split; reflexivity. Qed.

(* ---- non-vacuity: concrete safe runs ---- *)
(* Non-vacuity: a safe run reaching a quiescent state with an outbound connection whose peer
   announced host:port 11 while 21 was dialled (listed under both), one peer-list reference,
   two status callbacks ... *)
Definition ex1 : list label :=
  [LNew c_outbound 11 21] ++ steps 2 8 ++ [LListAdd 0 21] ++ steps 5 1.
Lemma example_listed :
  exists s, run_safe init ex1 = Some s /\ quiescent s /\
    s_root s 11 = Some 3 /\ p_out (s_peer s 3) = [1] /\
    s_root s 21 = Some 4 /\ p_out (s_peer s 4) = [1] /\ p_sc (s_peer s 4) = 1 /\
    s_inch s 1 = true /\ s_log s = [11; 21].
Proof.
  exists (final true ex1).
  assert (Hs : run_safe init ex1 = Some (final true ex1)).
  { assert (H : run_safe init ex1 <> None) by (intros Hn; vm_compute in Hn; discriminate Hn).
    destruct (run_safe init ex1) as [s|] eqn:E; [|now contradiction H].
    pose proof (run_safe_is_run _ _ _ E) as Hr. unfold final. now rewrite Hr. }
  split; [exact Hs|]. split.
  - apply quiescent_check; [apply (inv0_reach ex1), run_safe_is_run, Hs|vm_compute; reflexivity].
  - vm_compute. repeat split; reflexivity.
Qed.

(* ... and one where the connection then closes: both peers are collected, four callbacks. *)
Definition ex2 : list label :=
  [LNew c_outbound 11 21] ++ steps 2 8 ++ [LChange 1 c_connectionClosed] ++ steps 5 12.
Lemma example_collected :
  exists s, run_safe init ex2 = Some s /\ quiescent s /\
    s_root s 11 = None /\ s_root s 21 = None /\ s_inch s 1 = false /\ s_log s = [11; 21; 11; 21].
Proof.
  exists (final true ex2).
  assert (Hs : run_safe init ex2 = Some (final true ex2)).
  { assert (H : run_safe init ex2 <> None) by (intros Hn; vm_compute in Hn; discriminate Hn).
    destruct (run_safe init ex2) as [s|] eqn:E; [|now contradiction H].
    pose proof (run_safe_is_run _ _ _ E) as Hr. unfold final. now rewrite Hr. }
  split; [exact Hs|]. split.
  - apply quiescent_check; [apply (inv0_reach ex2), run_safe_is_run, Hs|vm_compute; reflexivity].
  - vm_compute. repeat split; reflexivity.
Qed.
