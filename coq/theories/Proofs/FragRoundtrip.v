(* Writer followed by reader: the end-to-end statement of C01. *)
From Coq Require Import ZArith List Bool Lia.
From Verif Require Import Base.Wrap Base.Bytes Gen.GenConsts Model.Crc Model.Frag Spec.FragSpec Spec.FragOk
  Proofs.FragWP Proofs.FragRP.
Import ListNotations.
Local Open Scope Z_scope.

(* the checksum objects the library can hand out: none, crc32, crc32c *)
Definition ck_fresh (kind : Z) : ckst := mkCk kind 0.
Definition kind_ok (kind : Z) : Prop := kind = 0 \/ kind = 1 \/ kind = 3.

Lemma ck_new_kind kind : kind_ok kind -> ck_new kind = Some (ck_fresh kind).
Proof. intros [-> | [-> | ->]]; reflexivity. Qed.

Lemma first_ctype_chain c fs : fs <> [] -> ck_chain c fs -> first_ctype fs = ck_typecode c.
Proof. destruct fs as [|f fs]; [congruence|]. cbn [ck_chain first_ctype]. tauto. Qed.

(* premises of the reader theorems hold for everything the writer emits *)
Lemma writer_output_ok capf kind a1 a2 a3 :
  3 <= capf true -> 5 <= capf false -> kind_ok kind ->
  exists codes st,
    w_run capf (script3 a1 a2 a3) (w_init (ck_fresh kind)) [] = Some (codes, st) /\
    wf (ws_out st) /\ ck_new (first_ctype (ws_out st)) = Some (ck_fresh kind) /\
    ck_chain (ck_fresh kind) (ws_out st) /\
    denote (chunks_of (ws_out st)) = [arg_bytes a1; arg_bytes a2; arg_bytes a3].
Proof.
  intros H1 H2 Hk.
  destruct (writer_correct capf (ck_fresh kind) a1 a2 a3 H1 H2) as [codes [st [R [_ [_ [_ [D [F C]]]]]]]].
  exists codes, st. split; [exact R|]. split; [exists capf; exact F|]. split; [|split; [exact C|exact D]].
  destruct F as [Fne _]. rewrite (first_ctype_chain _ _ Fne C). unfold ck_typecode, ck_fresh. cbn [ck_kind].
  apply ck_new_kind, Hk.
Qed.

(* ROUND TRIP: any three arguments written with any write sizes and flushes, for any fragment
   capacities and every checksum type, are read back exactly, however the reader sizes its
   reads (any positive sizes, continued until end-of-stream), and every fragment is released *)
Theorem roundtrip_eof : forall capf kind a1 a2 a3,
  3 <= capf true -> 5 <= capf false -> kind_ok kind ->
  exists codes st, w_run capf (script3 a1 a2 a3) (w_init (ck_fresh kind)) [] = Some (codes, st) /\
  forall ns1 ns2 ns3,
  Forall (fun n => 0 < n) ns1 -> Forall (fun n => 0 < n) ns2 -> Forall (fun n => 0 < n) ns3 ->
  zsum ns1 > zlen (arg_bytes a1) -> zsum ns2 > zlen (arg_bytes a2) -> zsum ns3 > zlen (arg_bytes a3) ->
  exists l1 st1 l2 st2 l3 st3,
    arg_read false ns1 (r_init (ws_out st)) = Some (0, l1, 0, st1) /\
    arg_read false ns2 st1 = Some (0, l2, 0, st2) /\
    arg_read true ns3 st2 = Some (0, l3, 0, st3) /\
    data_of l1 = arg_bytes a1 /\ data_of l2 = arg_bytes a2 /\ data_of l3 = arg_bytes a3 /\
    r_final (Z.of_nat (length (ws_out st))) st3.
Proof.
  intros capf kind a1 a2 a3 H1 H2 Hk.
  destruct (writer_output_ok capf kind a1 a2 a3 H1 H2 Hk) as [codes [st [R [W [N [C D]]]]]].
  exists codes, st. split; [exact R|]. intros ns1 ns2 ns3 P1 P2 P3 S1 S2 S3.
  destruct (reader_eof _ _ _ _ _ W N C D ns1 ns2 ns3 P1 P2 P3 S1 S2 S3)
    as [l1 [st1 [l2 [st2 [l3 [st3 [A1 [A2 [A3 [_ [_ [_ [D1 [D2 [D3 [F1 [F2 [F3 F4]]]]]]]]]]]]]]]]]].
  exists l1, st1, l2, st2, l3, st3. unfold r_final. tauto.
Qed.

Theorem roundtrip_helper : forall capf kind a1 a2 a3,
  3 <= capf true -> 5 <= capf false -> kind_ok kind ->
  exists codes st, w_run capf (script3 a1 a2 a3) (w_init (ck_fresh kind)) [] = Some (codes, st) /\
  forall n1 n2 n3, 0 < n1 -> 0 < n2 -> 0 < n3 ->
  exists st1 st2 st3,
    arg_helper false n1 (r_init (ws_out st)) = Some (0, arg_bytes a1, 0, st1) /\
    arg_helper false n2 st1 = Some (0, arg_bytes a2, 0, st2) /\
    arg_helper true n3 st2 = Some (0, arg_bytes a3, 0, st3) /\
    r_final (Z.of_nat (length (ws_out st))) st3.
Proof.
  intros capf kind a1 a2 a3 H1 H2 Hk.
  destruct (writer_output_ok capf kind a1 a2 a3 H1 H2 Hk) as [codes [st [R [W [N [C D]]]]]].
  exists codes, st. split; [exact R|]. intros n1 n2 n3 P1 P2 P3.
  destruct (reader_helper _ _ _ _ _ W N C D n1 n2 n3 P1 P2 P3) as [st1 [st2 [st3 [A1 [A2 [A3 [F1 [F2 [F3 F4]]]]]]]]].
  exists st1, st2, st3. unfold r_final. tauto.
Qed.

(* ANY read pattern (exact-length reads, reads of size 0, early Close ...): never a panic;
   an argument whose Begin, reads and Close all succeed was read exactly; what was read is
   always a prefix of the right argument; errors are sticky *)
Theorem roundtrip_safe : forall capf kind a1 a2 a3,
  3 <= capf true -> 5 <= capf false -> kind_ok kind ->
  exists codes st, w_run capf (script3 a1 a2 a3) (w_init (ck_fresh kind)) [] = Some (codes, st) /\
  forall ns1 ns2 ns3,
  Forall (fun n => 0 <= n) ns1 -> Forall (fun n => 0 <= n) ns2 -> Forall (fun n => 0 <= n) ns3 ->
  exists cb1 l1 cc1 st1 cb2 l2 cc2 st2 cb3 l3 cc3 st3,
    arg_read false ns1 (r_init (ws_out st)) = Some (cb1, l1, cc1, st1) /\
    arg_read false ns2 st1 = Some (cb2, l2, cc2, st2) /\
    arg_read true ns3 st2 = Some (cb3, l3, cc3, st3) /\
    (arg_ok cb1 l1 cc1 -> data_of l1 = arg_bytes a1) /\
    (arg_ok cb2 l2 cc2 -> data_of l2 = arg_bytes a2) /\
    (arg_ok cb3 l3 cc3 -> data_of l3 = arg_bytes a3) /\
    (exists r1, arg_bytes a1 = data_of l1 ++ r1) /\ (exists r2, arg_bytes a2 = data_of l2 ++ r2) /\
    (exists r3, arg_bytes a3 = data_of l3 ++ r3) /\
    sticky (ops_of cb1 l1 cc1 ++ ops_of cb2 l2 cc2 ++ ops_of cb3 l3 cc3).
Proof.
  intros capf kind a1 a2 a3 H1 H2 Hk.
  destruct (writer_output_ok capf kind a1 a2 a3 H1 H2 Hk) as [codes [st [R [W [N [C D]]]]]].
  exists codes, st. split; [exact R|]. intros ns1 ns2 ns3 P1 P2 P3.
  destruct (reader_safe _ _ _ _ _ W N C D ns1 ns2 ns3 P1 P2 P3)
    as [cb1 [l1 [cc1 [st1 [cb2 [l2 [cc2 [st2 [cb3 [l3 [cc3 [st3 [A1 [A2 [A3 [B1 [B2 [B3 [E1 [E2 [E3 [S _]]]]]]]]]]]]]]]]]]]]]].
  exists cb1, l1, cc1, st1, cb2, l2, cc2, st2, cb3, l3, cc3, st3. tauto.
Qed.
