(* Lemmas about canonical string-keyed maps (Base/GoStrMap.v, Base/Wire.v map_insert / canon_map):
   bytes_cmp is a strict total order, `ksorted` (strictly ascending keys) is what canon_map
   produces and is a fixpoint of it, map_insert / filter / hm_get / hm_del on sorted maps. *)
From Coq Require Import ZArith List Bool Lia Permutation.
From Verif Require Import Base.Wrap Base.Wire Base.GoStrMap.
Import ListNotations.
Local Open Scope Z_scope.

(* ---------------- bytes_cmp ---------------- *)
Lemma bytes_cmp_refl a : bytes_cmp a a = Eq.
Proof. induction a as [|x a IH]; cbn [bytes_cmp]; [reflexivity|]. rewrite Z.compare_refl. exact IH. Qed.

Lemma bytes_cmp_eq a : forall b, bytes_cmp a b = Eq -> a = b.
Proof.
  induction a as [|x a IH]; intros [|y b] H; cbn [bytes_cmp] in H; try discriminate; [reflexivity|].
  destruct (x ?= y) eqn:E; try discriminate.
  apply Z.compare_eq in E. subst y. f_equal. apply IH, H.
Qed.

Lemma bytes_cmp_antisym a : forall b, bytes_cmp b a = CompOpp (bytes_cmp a b).
Proof.
  induction a as [|x a IH]; intros [|y b]; cbn [bytes_cmp CompOpp]; try reflexivity.
  rewrite (Z.compare_antisym x y). destruct (x ?= y); cbn [CompOpp]; try reflexivity. apply IH.
Qed.

Lemma bytes_cmp_gt_lt a b : bytes_cmp a b = Gt -> bytes_cmp b a = Lt.
Proof. intros H. rewrite bytes_cmp_antisym, H. reflexivity. Qed.

Lemma bytes_cmp_lt_trans a : forall b c, bytes_cmp a b = Lt -> bytes_cmp b c = Lt -> bytes_cmp a c = Lt.
Proof.
  induction a as [|x a IH]; intros [|y b] [|z c] H1 H2; cbn [bytes_cmp] in *; try discriminate; try reflexivity.
  destruct (x ?= y) eqn:E1; try discriminate.
  - apply Z.compare_eq in E1. subst y. destruct (x ?= z) eqn:E2; try discriminate; [|reflexivity].
    eapply IH; eassumption.
  - destruct (y ?= z) eqn:E2; try discriminate.
    + apply Z.compare_eq in E2. subst z. rewrite E1. reflexivity.
    + pose proof (proj1 (Z.compare_lt_iff _ _) E1) as L1. pose proof (proj1 (Z.compare_lt_iff _ _) E2) as L2.
      assert (E3 : (x ?= z) = Lt) by (apply Z.compare_lt_iff; lia).
      rewrite E3. reflexivity.
Qed.

Lemma bytes_eqb_cmp a b : bytes_eqb a b = match bytes_cmp a b with Eq => true | _ => false end.
Proof.
  destruct (bytes_cmp a b) eqn:E.
  - apply bytes_cmp_eq in E. subst b. apply bytes_eqb_eq. reflexivity.
  - destruct (bytes_eqb a b) eqn:B; [|reflexivity]. apply bytes_eqb_eq in B. subst b.
    rewrite bytes_cmp_refl in E. discriminate.
  - destruct (bytes_eqb a b) eqn:B; [|reflexivity]. apply bytes_eqb_eq in B. subst b.
    rewrite bytes_cmp_refl in E. discriminate.
Qed.

Lemma bytes_eqb_refl a : bytes_eqb a a = true.
Proof. apply bytes_eqb_eq. reflexivity. Qed.

Lemma bytes_eqb_neq a b : a <> b -> bytes_eqb a b = false.
Proof. intros H. destruct (bytes_eqb a b) eqn:E; [|reflexivity]. apply bytes_eqb_eq in E. contradiction. Qed.

(* ---------------- sorted maps ---------------- *)
(* k is below every key of l *)
Fixpoint lt_all (k : list Z) (l : smap) : Prop :=
  match l with
  | [] => True
  | (k', _) :: r => bytes_cmp k k' = Lt /\ lt_all k r
  end.
(* strictly ascending keys *)
Fixpoint ksorted (l : smap) : Prop :=
  match l with
  | [] => True
  | (k, _) :: r => lt_all k r /\ ksorted r
  end.
(* every key of l is below k *)
Definition all_lt (l : smap) (k : list Z) : Prop := Forall (fun kv => bytes_cmp (fst kv) k = Lt) l.

Lemma lt_all_trans k k' l : bytes_cmp k k' = Lt -> lt_all k' l -> lt_all k l.
Proof.
  intros Hk. induction l as [|[k2 v2] r IH]; cbn [lt_all]; [auto|].
  intros [H1 H2]. split; [eapply bytes_cmp_lt_trans; eassumption | apply IH, H2].
Qed.

Lemma lt_all_filter k P l : lt_all k l -> lt_all k (filter P l).
Proof.
  induction l as [|[k2 v2] r IH]; cbn [lt_all filter]; [auto|].
  intros [H1 H2]. destruct (P (k2, v2)); cbn [lt_all]; auto.
Qed.

Lemma ksorted_filter P l : ksorted l -> ksorted (filter P l).
Proof.
  induction l as [|[k v] r IH]; cbn [ksorted filter]; [auto|].
  intros [H1 H2]. destruct (P (k, v)); cbn [ksorted]; [split; [apply lt_all_filter, H1 | apply IH, H2] | apply IH, H2].
Qed.

Lemma lt_all_insert k k' v l : bytes_cmp k k' = Lt -> lt_all k l -> lt_all k (map_insert k' v l).
Proof.
  intros Hk. induction l as [|[k2 v2] r IH]; cbn [lt_all map_insert]; [intros _; cbn [lt_all]; auto|].
  intros [H1 H2]. destruct (bytes_cmp k' k2); cbn [lt_all]; auto.
Qed.

Lemma map_insert_sorted k v l : ksorted l -> ksorted (map_insert k v l).
Proof.
  induction l as [|[k2 v2] r IH]; cbn [ksorted map_insert]; [auto|].
  intros [H1 H2]. destruct (bytes_cmp k k2) eqn:E; cbn [ksorted].
  - apply bytes_cmp_eq in E. subst k2. auto.
  - split; [cbn [lt_all]; split; [exact E | eapply lt_all_trans; eassumption] | auto].
  - split; [apply lt_all_insert; [apply bytes_cmp_gt_lt, E | exact H1] | apply IH, H2].
Qed.

(* inserting a key above all keys appends *)
Lemma map_insert_above k v l : all_lt l k -> map_insert k v l = l ++ [(k, v)].
Proof.
  induction 1 as [|[k2 v2] r H1 H2 IH]; cbn [map_insert app]; [reflexivity|].
  cbn [fst] in H1. rewrite (bytes_cmp_antisym k2 k), H1. cbn [CompOpp]. rewrite IH. reflexivity.
Qed.

Lemma all_lt_snoc l k v k' : all_lt l k -> bytes_cmp k k' = Lt -> all_lt (l ++ [(k, v)]) k'.
Proof.
  unfold all_lt. intros H Hk. apply Forall_app. split.
  - eapply Forall_impl; [|exact H]. intros kv Hkv. exact (bytes_cmp_lt_trans _ _ _ Hkv Hk).
  - constructor; [exact Hk | constructor].
Qed.

Lemma canon_fold_sorted l : forall acc, ksorted acc ->
  ksorted (fold_left (fun acc kv => map_insert (fst kv) (snd kv) acc) l acc).
Proof.
  induction l as [|kv r IH]; intros acc H; cbn [fold_left]; [exact H|]. apply IH, map_insert_sorted, H.
Qed.

Lemma canon_map_sorted l : ksorted (canon_map l).
Proof. apply canon_fold_sorted. exact I. Qed.

Lemma canon_fold_above l : forall acc, ksorted l -> (forall kv, In kv l -> all_lt acc (fst kv)) ->
  fold_left (fun acc kv => map_insert (fst kv) (snd kv) acc) l acc = acc ++ l.
Proof.
  induction l as [|[k v] r IH]; intros acc Hs Hall; cbn [fold_left]; [rewrite app_nil_r; reflexivity|].
  cbn [fst snd]. cbn [ksorted] in Hs. destruct Hs as [H1 H2].
  rewrite (map_insert_above k v acc (Hall (k, v) (or_introl eq_refl))).
  rewrite IH; [rewrite <- app_assoc; reflexivity | exact H2 |].
  intros [k2 v2] Hin. cbn [fst]. apply all_lt_snoc; [exact (Hall (k, v) (or_introl eq_refl))|].
  clear - H1 Hin. induction r as [|[k3 v3] r IH]; [destruct Hin|]. cbn [lt_all] in H1. destruct H1 as [Ha Hb].
  destruct Hin as [E|Hin]; [inversion E; subst; exact Ha | apply IH; assumption].
Qed.

(* the canonical maps are exactly the sorted ones *)
Theorem canon_map_fix l : ksorted l -> canon_map l = l.
Proof.
  intros H. unfold canon_map. rewrite canon_fold_above; [reflexivity | exact H | intros; constructor].
Qed.
Theorem canon_fix_sorted l : canon_map l = l -> ksorted l.
Proof. intros H. rewrite <- H. apply canon_map_sorted. Qed.

(* ---------------- look-up ---------------- *)
Lemma hm_get_lt_all k l : lt_all k l -> hm_get l k = ([], false).
Proof.
  induction l as [|[k2 v2] r IH]; cbn [lt_all hm_get]; [reflexivity|].
  intros [H1 H2]. rewrite bytes_eqb_cmp, H1. apply IH, H2.
Qed.

Lemma hm_get_insert k v l k' :
  hm_get (map_insert k v l) k' = if bytes_eqb k' k then (v, true) else hm_get l k'.
Proof.
  induction l as [|[k2 v2] r IH]; cbn [map_insert hm_get]; [reflexivity|].
  destruct (bytes_cmp k k2) eqn:E; cbn [hm_get].
  - apply bytes_cmp_eq in E. subst k2. destruct (bytes_eqb k' k); reflexivity.
  - reflexivity.
  - rewrite IH. destruct (bytes_eqb k' k2) eqn:E2; [|reflexivity].
    apply bytes_eqb_eq in E2. subst k2. rewrite bytes_eqb_neq; [reflexivity|].
    intros ->. rewrite bytes_cmp_refl in E. discriminate.
Qed.

Lemma hm_mem_all_lt l k : all_lt l k -> hm_mem l k = false.
Proof.
  unfold hm_mem. induction 1 as [|[k2 v2] r H1 H2 IH]; cbn [hm_get snd]; [reflexivity|].
  cbn [fst] in H1. rewrite bytes_eqb_cmp, (bytes_cmp_antisym k2 k), H1. cbn [CompOpp]. exact IH.
Qed.

(* a key-predicate filter commutes with an insertion into a sorted map *)
Lemma filter_insert (p : list Z -> bool) k v l : ksorted l ->
  filter (fun kv => p (fst kv)) (map_insert k v l) =
  if p k then map_insert k v (filter (fun kv => p (fst kv)) l) else filter (fun kv => p (fst kv)) l.
Proof.
  induction l as [|[k2 v2] r IH]; cbn [ksorted map_insert filter fst].
  - intros _. destruct (p k); reflexivity.
  - intros [H1 H2]. destruct (bytes_cmp k k2) eqn:E; cbn [filter fst].
    + apply bytes_cmp_eq in E. subst k2. destruct (p k); [|reflexivity].
      cbn [map_insert]. rewrite bytes_cmp_refl. reflexivity.
    + destruct (p k) eqn:Pk.
      * assert (Hlt : lt_all k (filter (fun kv => p (fst kv)) ((k2, v2) :: r))).
        { apply lt_all_filter. cbn [lt_all]. split; [exact E | eapply lt_all_trans; eassumption]. }
        cbn [filter fst] in Hlt.
        destruct (filter (fun kv => p (fst kv)) r) as [|[k3 v3] r3] eqn:F.
        -- destruct (p k2); cbn [map_insert]; [rewrite E|]; reflexivity.
        -- destruct (p k2); cbn [map_insert].
           ++ rewrite E. reflexivity.
           ++ cbn [lt_all] in Hlt. destruct Hlt as [Hlt _]. rewrite Hlt. reflexivity.
      * reflexivity.
    + rewrite (IH H2). destruct (p k); [|reflexivity].
      destruct (p k2); [|reflexivity]. cbn [map_insert]. rewrite E. reflexivity.
Qed.

(* membership of a key that satisfies the predicate survives the filter *)
Lemma hm_get_filter (p : list Z -> bool) l k : p k = true ->
  hm_get (filter (fun kv => p (fst kv)) l) k = hm_get l k.
Proof.
  intros Pk. induction l as [|[k2 v2] r IH]; cbn [filter hm_get fst]; [reflexivity|].
  destruct (bytes_eqb k k2) eqn:E.
  - apply bytes_eqb_eq in E. subst k2. rewrite Pk. cbn [hm_get]. rewrite bytes_eqb_refl. reflexivity.
  - destruct (p k2); cbn [hm_get]; [rewrite E|]; exact IH.
Qed.

(* ---------------- strings ---------------- *)
Lemma str_has_prefix_app p s : str_has_prefix (p ++ s) p = true.
Proof. induction p as [|x p IH]; cbn [app str_has_prefix]; [destruct s; reflexivity|]. rewrite Z.eqb_refl. exact IH. Qed.

Lemma str_from_app p s : str_from (p ++ s) (zlen p) = Some s.
Proof.
  unfold str_from, zlen. rewrite app_length, Nat2Z.inj_add.
  assert (H1 : (Z.of_nat (length p) <? 0) = false) by (apply Z.ltb_ge; lia).
  assert (H2 : (Z.of_nat (length p) + Z.of_nat (length s) <? Z.of_nat (length p)) = false) by (apply Z.ltb_ge; lia).
  rewrite H1, H2. cbn [orb]. rewrite Nat2Z.id. f_equal. clear H1 H2.
  induction p as [|x p IH]; [reflexivity | exact IH].
Qed.

Lemma str_has_prefix_split p : forall s, str_has_prefix s p = true -> exists r, s = p ++ r.
Proof.
  induction p as [|y p IH]; intros s H; [exists s; reflexivity|].
  destruct s as [|x s]; cbn [str_has_prefix] in H; [discriminate|].
  apply andb_true_iff in H. destruct H as [H1 H2]. apply Z.eqb_eq in H1. subst y.
  destruct (IH s H2) as [r ->]. exists r. reflexivity.
Qed.

(* ---------------- look-up characterises a sorted map ---------------- *)
Lemma hm_get_head k v l : hm_get ((k, v) :: l) k = (v, true).
Proof. cbn [hm_get]. rewrite bytes_eqb_refl. reflexivity. Qed.

Lemma hm_get_tail k v l k' : k' <> k -> hm_get ((k, v) :: l) k' = hm_get l k'.
Proof. intros H. cbn [hm_get]. rewrite (bytes_eqb_neq k' k H). reflexivity. Qed.

Lemma lt_all_neq k l k' v' : lt_all k l -> In (k', v') l -> k' <> k.
Proof.
  induction l as [|[k2 v2] r IH]; cbn [lt_all In]; [tauto|].
  intros [H1 H2] [E|Hin]; [|apply IH; assumption].
  inversion E; subst. intros ->. rewrite bytes_cmp_refl in H1. discriminate.
Qed.

Theorem ksorted_ext a : forall b, ksorted a -> ksorted b ->
  (forall k, hm_get a k = hm_get b k) -> a = b.
Proof.
  induction a as [|[k1 v1] a IH]; intros [|[k2 v2] b] Ha Hb Hext.
  - reflexivity.
  - specialize (Hext k2). rewrite hm_get_head in Hext. discriminate.
  - specialize (Hext k1). rewrite hm_get_head in Hext. discriminate.
  - cbn [ksorted] in Ha, Hb. destruct Ha as [Ha1 Ha2]. destruct Hb as [Hb1 Hb2].
    assert (Ek : k1 = k2).
    { destruct (bytes_cmp k1 k2) eqn:E.
      - apply bytes_cmp_eq, E.
      - pose proof (Hext k1) as H. rewrite hm_get_head in H.
        rewrite hm_get_lt_all in H; [discriminate|].
        cbn [lt_all]. split; [exact E | eapply lt_all_trans; eassumption].
      - pose proof (Hext k2) as H. rewrite hm_get_head in H.
        rewrite hm_get_lt_all in H; [discriminate|].
        cbn [lt_all]. split; [apply bytes_cmp_gt_lt, E | eapply lt_all_trans; [apply bytes_cmp_gt_lt, E | exact Ha1]]. }
    subst k2.
    assert (Ev : v1 = v2).
    { pose proof (Hext k1) as H. rewrite !hm_get_head in H. inversion H. reflexivity. }
    subst v2. f_equal. apply IH; [exact Ha2 | exact Hb2|].
    intros k. destruct (bytes_eqb k k1) eqn:E.
    + apply bytes_eqb_eq in E. subst k. rewrite (hm_get_lt_all k1 a Ha1), (hm_get_lt_all k1 b Hb1). reflexivity.
    + assert (Hn : k <> k1) by (intros ->; rewrite bytes_eqb_refl in E; discriminate).
      pose proof (Hext k) as H. rewrite !(hm_get_tail _ _ _ _ Hn) in H. exact H.
Qed.

(* a sorted map has distinct keys; look-up finds exactly its entries *)
Lemma ksorted_nodup l : ksorted l -> NoDup (map fst l).
Proof.
  induction l as [|[k v] r IH]; cbn [ksorted map fst]; [constructor|].
  intros [H1 H2]. constructor; [|apply IH, H2].
  intros Hin. apply in_map_iff in Hin. destruct Hin as [[k' v'] [E Hin]]. cbn [fst] in E. subst k'.
  exact (lt_all_neq k r k v' H1 Hin eq_refl).
Qed.

Lemma hm_get_in l : forall k v, NoDup (map fst l) -> In (k, v) l -> hm_get l k = (v, true).
Proof.
  induction l as [|[k2 v2] r IH]; intros k v Hnd Hin; [destruct Hin|].
  cbn [map fst] in Hnd. inversion Hnd as [|? ? Hni Hnd']; subst.
  destruct Hin as [E|Hin].
  - inversion E; subst. apply hm_get_head.
  - rewrite hm_get_tail; [apply IH; assumption|].
    intros ->. apply Hni. apply in_map_iff. exists (k2, v). split; [reflexivity | exact Hin].
Qed.

Lemma hm_get_notin l k : ~ In k (map fst l) -> hm_get l k = ([], false).
Proof.
  induction l as [|[k2 v2] r IH]; cbn [map fst In]; [reflexivity|].
  intros H. rewrite hm_get_tail; [apply IH; tauto | intros ->; tauto].
Qed.

(* look-up does not depend on the order in which distinct keys are listed *)
Lemma hm_get_perm l l' k : NoDup (map fst l) -> Permutation.Permutation l' l -> hm_get l' k = hm_get l k.
Proof.
  intros Hnd Hp.
  assert (Hnd' : NoDup (map fst l')).
  { eapply Permutation.Permutation_NoDup; [|exact Hnd]. apply Permutation.Permutation_map, Permutation.Permutation_sym, Hp. }
  destruct (in_dec (list_eq_dec Z.eq_dec) k (map fst l)) as [Hin|Hni].
  - apply in_map_iff in Hin. destruct Hin as [[k' v] [E Hin]]. cbn [fst] in E. subst k'.
    rewrite (hm_get_in l k v Hnd Hin).
    apply hm_get_in; [exact Hnd'|]. eapply Permutation.Permutation_in; [apply Permutation.Permutation_sym, Hp | exact Hin].
  - rewrite (hm_get_notin l k Hni). apply hm_get_notin. intros Hin. apply Hni.
    eapply Permutation.Permutation_in; [apply Permutation.Permutation_map, Hp | exact Hin].
Qed.
