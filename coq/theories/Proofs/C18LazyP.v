(* C18: the relay's lazy parsers never offer a RelayHost anything outside the frame they were
   given.  Proofs about Model/RelayLazy.v lazy_callreq and Model/C18LazyFrame.v (hand models;
   tie to the source: Proofs/C18LazyGenP.v).
   Main facts:
     c18_lazy_offsets      an ACCEPTED call req payload has all its offsets inside the sized payload
                           (31 <= ctoff < arg2 start <= arg2 end <= len, arg3 start = arg2 end + 2 <= len
                           or arg2 ends exactly at the end of the payload when it is fragmented)
     c18_lazy_arg2_sized   hence Arg2Iterator / arg2() / arg3() do not panic and read ONLY the sized
                           payload: bytes behind it in the pooled frame's array cannot show
     c18_lazy_iter_sound   the pairs the iterator yields are literally inside the sized payload
     c18_lazyres_arg2      the same for newLazyCallRes: arg2 is a piece of the sized payload *)
From Coq Require Import ZArith List Bool Lia ZifyBool.
From Verif Require Import Base.Wrap Base.Bytes Base.Wire Gen.GenConsts Gen.GenFrame Gen.GenRelayFwd
  Model.TypedBuf Model.Messages Model.Codecs Model.RelayLazy Model.C18LazyFrame
  Spec.Protocol Proofs.CodecP Proofs.CodecsP.
Import ListNotations.
Local Open Scope Z_scope.

(* ---------------- the read buffer: errors are sticky, reads only consume ---------------- *)
(* [c18_rle r' r]: if r' is error free then so was r, and r' has no more bytes left than r *)
Definition c18_rle (r' r : rbuf) : Prop :=
  rerr r' = false -> rerr r = false /\ (length (rrem r') <= length (rrem r))%nat.

Lemma c18_rle_refl r : c18_rle r r.
Proof. intros H. split; [exact H|lia]. Qed.

Lemma c18_rle_trans r2 r1 r0 : c18_rle r2 r1 -> c18_rle r1 r0 -> c18_rle r2 r0.
Proof. intros A B H. destruct (A H) as [A1 A2]. destruct (B A1) as [B1 B2]. split; [exact B1|lia]. Qed.

Lemma c18_r_bytes_ok n r : rerr (snd (r_bytes n r)) = false ->
  rerr r = false /\ (n <= length (rrem r))%nat /\ rrem (snd (r_bytes n r)) = skipn n (rrem r) /\
  fst (r_bytes n r) = firstn n (rrem r).
Proof.
  unfold r_bytes. destruct (rerr r) eqn:E; cbn [snd]; [intros H; congruence|].
  destruct (length (rrem r) <? n)%nat eqn:L; cbn [fst snd rerr rrem]; [discriminate|].
  intros _. apply Nat.ltb_ge in L. repeat split; try reflexivity. exact L.
Qed.

Lemma c18_r_bytes_rle n r : c18_rle (snd (r_bytes n r)) r.
Proof.
  intros H. destruct (c18_r_bytes_ok n r H) as [A [B [C _]]]. split; [exact A|].
  rewrite C, skipn_length. lia.
Qed.

Lemma c18_r_uint_snd n r : snd (r_uint n r) = snd (r_bytes n r).
Proof. unfold r_uint, bindR. destruct (r_bytes n r) as [b r']. reflexivity. Qed.

Lemma c18_r_uint_rle n r : c18_rle (snd (r_uint n r)) r.
Proof. rewrite c18_r_uint_snd. apply c18_r_bytes_rle. Qed.

Lemma c18_r_len8_rle r : c18_rle (snd (r_len8 r)) r.
Proof.
  unfold r_len8, bindR, r_string.
  pose proof (c18_r_uint_rle 1 r) as A. unfold r_u8. destruct (r_uint 1 r) as [n r1]. cbn [snd] in A.
  eapply c18_rle_trans; [apply c18_r_bytes_rle|exact A].
Qed.

Lemma c18_lazy_hdrs_rle : forall n a r, c18_rle (snd (lazy_hdrs n a r)) r.
Proof.
  induction n as [|n IH]; intros a r; cbn [lazy_hdrs].
  - unfold retR. cbn [snd]. apply c18_rle_refl.
  - unfold bindR.
    pose proof (c18_r_len8_rle r) as A. destruct (r_len8 r) as [k r1]. cbn [snd] in A.
    pose proof (c18_r_len8_rle r1) as B. destruct (r_len8 r1) as [v r2]. cbn [snd] in B.
    eapply c18_rle_trans; [apply IH|]. eapply c18_rle_trans; [exact B|exact A].
Qed.

Lemma c18_lazyres_hdrs_rle : forall n a r, c18_rle (snd (lazyres_hdrs n a r)) r.
Proof.
  induction n as [|n IH]; intros a r; cbn [lazyres_hdrs].
  - unfold retR. cbn [snd]. apply c18_rle_refl.
  - unfold bindR.
    pose proof (c18_r_len8_rle r) as A. destruct (r_len8 r) as [k r1]. cbn [snd] in A.
    pose proof (c18_r_len8_rle r1) as B. destruct (r_len8 r1) as [v r2]. cbn [snd] in B.
    eapply c18_rle_trans; [apply IH|]. eapply c18_rle_trans; [exact B|exact A].
Qed.

(* a 16-bit read that succeeded returns a 16-bit value *)
Lemma c18_r_u16_val r : bytes_ok (rrem r) = true -> 0 <= fst (r_u16 r) < 65536.
Proof.
  intros B. unfold r_u16, r_uint, bindR.
  destruct (r_bytes 2 r) as [b r'] eqn:E. cbn [fst]. destruct (rerr r'); [lia|].
  assert (Hb : b = fst (r_bytes 2 r)) by (rewrite E; reflexivity).
  unfold r_bytes in Hb. destruct (rerr r); cbn [fst] in Hb; [subst b; cbn; lia|].
  destruct (length (rrem r) <? 2)%nat; cbn [fst] in Hb; [subst b; cbn; lia|].
  subst b. pose proof (unbe_range (firstn 2 (rrem r))) as U.
  assert (Hok : bytes_ok (firstn 2 (rrem r)) = true).
  { rewrite <- (firstn_skipn 2 (rrem r)) in B. rewrite bytes_ok_app in B. apply andb_true_iff in B. tauto. }
  specialize (U Hok). assert (Hl : (length (firstn 2 (rrem r)) <= 2)%nat) by apply firstn_le_length.
  assert (256 ^ Z.of_nat (length (firstn 2 (rrem r))) <= 256 ^ 2) by (apply Z.pow_le_mono_r; lia).
  change (256 ^ 2) with 65536 in *. lia.
Qed.

(* ---------------- the unread bytes stay bytes ---------------- *)
Lemma c18_bok_skipn k (l : list Z) : bytes_ok l = true -> bytes_ok (skipn k l) = true.
Proof.
  intros H. rewrite <- (firstn_skipn k l) in H. rewrite bytes_ok_app in H. apply andb_true_iff in H. tauto.
Qed.
Lemma c18_bok_firstn k (l : list Z) : bytes_ok l = true -> bytes_ok (firstn k l) = true.
Proof.
  intros H. rewrite <- (firstn_skipn k l) in H. rewrite bytes_ok_app in H. apply andb_true_iff in H. tauto.
Qed.
Lemma c18_bok_bytes n r : bytes_ok (rrem r) = true -> bytes_ok (rrem (snd (r_bytes n r))) = true.
Proof.
  intros H. unfold r_bytes. destruct (rerr r); [exact H|]. destruct (length (rrem r) <? n)%nat; cbn; [exact H|].
  apply c18_bok_skipn, H.
Qed.
Lemma c18_bok_uint n r : bytes_ok (rrem r) = true -> bytes_ok (rrem (snd (r_uint n r))) = true.
Proof. rewrite c18_r_uint_snd. apply c18_bok_bytes. Qed.
Lemma c18_bok_len8 r : bytes_ok (rrem r) = true -> bytes_ok (rrem (snd (r_len8 r))) = true.
Proof.
  intros H. unfold r_len8, bindR, r_string, r_u8.
  pose proof (c18_bok_uint 1 r H) as A. destruct (r_uint 1 r) as [n r1]. cbn [snd] in A.
  apply c18_bok_bytes, A.
Qed.
Lemma c18_bok_lazy_hdrs : forall n a r, bytes_ok (rrem r) = true -> bytes_ok (rrem (snd (lazy_hdrs n a r))) = true.
Proof.
  induction n as [|n IH]; intros a r H; cbn [lazy_hdrs]; [exact H|].
  unfold bindR. pose proof (c18_bok_len8 r H) as A. destruct (r_len8 r) as [k r1]. cbn [snd] in A.
  pose proof (c18_bok_len8 r1 A) as B. destruct (r_len8 r1) as [v r2]. cbn [snd] in B.
  apply IH, B.
Qed.
Lemma c18_bok_lazyres_hdrs : forall n a r, bytes_ok (rrem r) = true -> bytes_ok (rrem (snd (lazyres_hdrs n a r))) = true.
Proof.
  induction n as [|n IH]; intros a r H; cbn [lazyres_hdrs]; [exact H|].
  unfold bindR. pose proof (c18_bok_len8 r H) as A. destruct (r_len8 r) as [k r1]. cbn [snd] in A.
  pose proof (c18_bok_len8 r1 A) as B. destruct (r_len8 r1) as [v r2]. cbn [snd] in B.
  apply IH, B.
Qed.

(* one successful read of n bytes: the exact step *)
Lemma c18_step n r : rerr (snd (r_bytes n r)) = false ->
  rerr r = false /\ (length (rrem (snd (r_bytes n r))) + n = length (rrem r))%nat.
Proof.
  intros H. destruct (c18_r_bytes_ok n r H) as [A [B [C _]]]. split; [exact A|].
  rewrite C, skipn_length. lia.
Qed.
Lemma c18_step_uint n r : rerr (snd (r_uint n r)) = false ->
  rerr r = false /\ (length (rrem (snd (r_uint n r))) + n = length (rrem r))%nat.
Proof. rewrite c18_r_uint_snd. apply c18_step. Qed.

(* ---------------- an accepted call req: every offset lies inside the sized payload ---------------- *)
Theorem c18_lazy_offsets p lz : bytes_ok p = true -> zlen p <= 65535 -> lazy_callreq p = (0, lz) ->
  31 <= lz_ctoff lz /\ lz_ctoff lz + 5 <= lz_a2start lz /\
  lz_a2start lz <= lz_a2end lz <= zlen p /\
  (lz_a2frag lz = true -> lz_a2end lz = zlen p /\ lz_a3start lz = 0) /\
  (lz_a2frag lz = false -> lz_a3start lz = lz_a2end lz + 2 /\ lz_a3start lz <= zlen p).
Proof.
  unfold lazy_callreq. intros Hb Hl H.
  assert (B0 : bytes_ok (rrem (rb p)) = true) by exact Hb.
  pose proof (c18_step (Z.to_nat c_u_serviceLenIndex) (rb p)) as A1.
  pose proof (c18_bok_bytes (Z.to_nat c_u_serviceLenIndex) (rb p) B0) as B1.
  destruct (r_bytes (Z.to_nat c_u_serviceLenIndex) (rb p)) as [x0 r1]. cbn [snd] in A1, B1.
  unfold r_u8, r_u16 in H.
  pose proof (c18_step_uint 1 r1) as A2. pose proof (c18_bok_uint 1 r1 B1) as B2.
  destruct (r_uint 1 r1) as [sl r2]. cbn [snd] in A2, B2.
  pose proof (c18_r_bytes_rle (Z.to_nat sl) r2) as A3. pose proof (c18_bok_bytes (Z.to_nat sl) r2 B2) as B3.
  destruct (r_bytes (Z.to_nat sl) r2) as [x2 r3]. cbn [snd] in A3, B3.
  pose proof (c18_step_uint 1 r3) as A4. pose proof (c18_bok_uint 1 r3 B3) as B4.
  destruct (r_uint 1 r3) as [nh r4]. cbn [snd] in A4, B4.
  pose proof (c18_lazy_hdrs_rle (Z.to_nat nh) (mkHsel [] [] [] []) r4) as A5.
  pose proof (c18_bok_lazy_hdrs (Z.to_nat nh) (mkHsel [] [] [] []) r4 B4) as B5.
  destruct (lazy_hdrs (Z.to_nat nh) (mkHsel [] [] [] []) r4) as [hs r5]. cbn [snd] in A5, B5.
  pose proof (c18_step_uint 1 r5) as A6. pose proof (c18_bok_uint 1 r5 B5) as B6.
  destruct (r_uint 1 r5) as [ct r6]. cbn [snd] in A6, B6.
  destruct (ct >=? c_checksumCount); [discriminate H|].
  pose proof (c18_step (Z.to_nat (ChecksumSize ct)) r6) as A7.
  pose proof (c18_bok_bytes (Z.to_nat (ChecksumSize ct)) r6 B6) as B7.
  destruct (r_bytes (Z.to_nat (ChecksumSize ct)) r6) as [x6 r7]. cbn [snd] in A7, B7.
  pose proof (c18_step_uint 2 r7) as A8. pose proof (c18_bok_uint 2 r7 B7) as B8.
  destruct (r_uint 2 r7) as [a1len r8]. cbn [snd] in A8, B8.
  pose proof (c18_step (Z.to_nat a1len) r8) as A9. pose proof (c18_bok_bytes (Z.to_nat a1len) r8 B8) as B9.
  destruct (r_bytes (Z.to_nat a1len) r8) as [method r9]. cbn [snd] in A9, B9.
  pose proof (c18_step_uint 2 r9) as A10. pose proof (c18_r_u16_val r9 B9) as V10. unfold r_u16 in V10.
  destruct (r_uint 2 r9) as [a2len r10]. cbn [fst snd] in A10, V10.
  pose proof (c18_step (Z.to_nat a2len) r10) as A11.
  destruct (r_bytes (Z.to_nat a2len) r10) as [x10 r11]. cbn [snd] in A11.
  set (frag := (zlen (rrem r11) =? 0) && hasMoreFragments (nth 0 p 0)) in H.
  pose proof (c18_step 2 r11) as A12.
  destruct (r_bytes 2 r11) as [x11 r12']. cbn [snd] in A12.
  assert (E11 : rerr r11 = false /\
     (frag = true -> fst (if frag then (0, r11) else (wrapU 16 (bytes_read p r12'), r12')) = 0) /\
     (frag = false -> rerr r12' = false)).
  { destruct frag; cbn [fst snd] in H |- *.
    - destruct (rerr r11); [discriminate H|]. repeat split; congruence.
    - destruct (rerr r12') eqn:E; [discriminate H|]. destruct (A12 eq_refl) as [E11 _]. repeat split; congruence. }
  destruct E11 as [E11 [F1 F0]].
  destruct (A11 E11) as [E10 L11]. destruct (A10 E10) as [E9 L10]. destruct (A9 E9) as [E8 L9].
  destruct (A8 E8) as [E7 L8]. destruct (A7 E7) as [E6 L7]. destruct (A6 E6) as [E5 L6].
  destruct (A5 E5) as [E4 L5]. destruct (A4 E4) as [E3 L4]. destruct (A3 E3) as [E2 L3].
  destruct (A2 E2) as [E1 L2]. destruct (A1 E1) as [_ L1]. cbn [rb rrem] in L1.
  change (Z.to_nat c_u_serviceLenIndex) with 30%nat in *.
  assert (Hres : lz = mkLazy (wrapU 16 (bytes_read p r5)) ct method (wrapU 16 (bytes_read p r10))
                   (wrapU 16 (wrapU 16 (bytes_read p r10) + a2len)) frag
                   (fst (if frag then (0, r11) else (wrapU 16 (bytes_read p r12'), r12')))
                   (hs_as hs) (hs_cn hs) (hs_rd hs) (hs_rk hs)).
  { destruct frag; cbn [fst snd] in H |- *.
    - rewrite E11 in H. inversion H. reflexivity.
    - rewrite (F0 eq_refl) in H. inversion H. reflexivity. }
  subst lz. cbn [lz_ctoff lz_a2start lz_a2end lz_a2frag lz_a3start].
  unfold bytes_read, zlen in *.
  assert (N5 : (length (rrem r5) + 31 <= length p)%nat) by (clear - L1 L2 L3 L4 L5; lia).
  assert (N10 : (length (rrem r10) + 5 <= length (rrem r5))%nat) by (clear - L6 L7 L8 L9 L10; lia).
  assert (Ha2 : Z.of_nat (Z.to_nat a2len) = a2len) by (clear - V10; lia).
  assert (N11 : Z.of_nat (length (rrem r11)) + a2len = Z.of_nat (length (rrem r10))) by (clear - L11 Ha2; lia).
  assert (P5 : wrapU 16 (Z.of_nat (length p) - Z.of_nat (length (rrem r5))) = Z.of_nat (length p) - Z.of_nat (length (rrem r5))).
  { apply wrapU_id; [clear; lia|]. change (2 ^ 16) with 65536. clear - Hl N5. lia. }
  assert (P10 : wrapU 16 (Z.of_nat (length p) - Z.of_nat (length (rrem r10))) = Z.of_nat (length p) - Z.of_nat (length (rrem r10))).
  { apply wrapU_id; [clear; lia|]. change (2 ^ 16) with 65536. clear - Hl N5 N10. lia. }
  rewrite P5, P10.
  assert (P11 : wrapU 16 (Z.of_nat (length p) - Z.of_nat (length (rrem r10)) + a2len) =
                Z.of_nat (length p) - Z.of_nat (length (rrem r11))).
  { rewrite wrapU_id; [clear - N11; lia|clear; lia|]. change (2 ^ 16) with 65536. clear - Hl N5 N10 N11 V10. lia. }
  rewrite P11.
  split; [clear - N5; lia|]. split; [clear - N10; lia|]. split; [clear - N5 N10 N11 V10; lia|]. split.
  - intros Fr. split; [|exact (F1 Fr)].
    unfold frag in Fr. apply andb_true_iff in Fr as [Fr _]. apply Z.eqb_eq in Fr. clear - Fr. lia.
  - intros Fr. rewrite Fr. cbn [fst]. destruct (A12 (F0 Fr)) as [_ L12].
    rewrite wrapU_id; [clear - L12 N11; lia|clear; lia|]. change (2 ^ 16) with 65536. clear - Hl N5 N10 N11 V10 L12. lia.
Qed.

(* ---------------- slices of an array whose prefix is the sized payload ---------------- *)
Lemma c18_slice_prefix (a b : list Z) lo hi : 0 <= lo <= hi -> hi <= zlen a ->
  slice (a ++ b) lo hi = slice a lo hi.
Proof.
  intros H1 H2. unfold slice, zlen in *.
  rewrite skipn_app. rewrite firstn_app.
  replace (Z.to_nat (hi - lo) - length (skipn (Z.to_nat lo) a))%nat with 0%nat by (rewrite skipn_length; lia).
  cbn [firstn]. rewrite app_nil_r. reflexivity.
Qed.

Lemma c18_go_slice_prefix (arr : list Z) n lo hi : 0 <= n <= zlen arr -> 0 <= lo <= hi -> hi <= n ->
  go_slice arr lo hi = Some (slice (firstn (Z.to_nat n) arr) lo hi).
Proof.
  intros Hn H1 H2. unfold go_slice.
  destruct ((lo <? 0) || (hi <? lo) || (zlen arr <? hi)) eqn:E; [lia|].
  rewrite <- (firstn_skipn (Z.to_nat n) arr) at 1.
  rewrite c18_slice_prefix; [reflexivity|exact H1|].
  unfold zlen in *. rewrite firstn_length. lia.
Qed.

Lemma c18_zlen_firstn (arr : list Z) n : 0 <= n <= zlen arr -> zlen (firstn (Z.to_nat n) arr) = n.
Proof. intros H. unfold zlen in *. rewrite firstn_length. lia. Qed.

(* what the relay host gets from an ACCEPTED call req frame: the slices do not panic and are
   slices of the SIZED payload -- for every content of the array behind it *)
Theorem c18_lazy_arg2_sized arr n lz : bytes_ok arr = true -> 0 <= n <= zlen arr -> n <= 65535 ->
  lazy_callreq (firstn (Z.to_nat n) arr) = (0, lz) ->
  lazy_arg2_arr arr lz = Some (lz_arg2 (firstn (Z.to_nat n) arr) lz) /\
  lazy_arg3_sized (firstn (Z.to_nat n) arr) lz = Some (lz_arg3 (firstn (Z.to_nat n) arr) lz) /\
  lazy_arg2_iter arr lz <> A2Panic.
Proof.
  intros Hb Hn Hl H. set (p := firstn (Z.to_nat n) arr) in *.
  assert (Lp : zlen p = n) by (apply c18_zlen_firstn, Hn).
  destruct (c18_lazy_offsets p lz (c18_bok_firstn _ _ Hb) ltac:(lia) H) as (O1 & O2 & O3 & O4 & O5).
  assert (E2 : go_slice arr (lz_a2start lz) (lz_a2end lz) = Some (lz_arg2 p lz)).
  { unfold lz_arg2, p. apply c18_go_slice_prefix; lia. }
  split; [exact E2|]. split.
  - unfold lazy_arg3_sized, lz_arg3, go_slice.
    assert (R : 0 <= lz_a3start lz <= zlen p).
    { destruct (lz_a2frag lz); [destruct (O4 eq_refl) as [_ ->]; lia|destruct (O5 eq_refl); lia]. }
    destruct ((lz_a3start lz <? 0) || (zlen p <? lz_a3start lz) || (zlen p <? zlen p)) eqn:E; [lia|].
    f_equal. unfold slice. apply firstn_all2. unfold zlen. rewrite skipn_length. lia.
  - unfold lazy_arg2_iter. destruct (negb (bytes_eqb (lz_as lz) c_Thrift)); [discriminate|].
    rewrite E2. destruct (kv_iter (lz_arg2 p lz)). discriminate.
Qed.

(* ... hence two frames with the same sized payload offer the same, whatever the bytes behind it *)
Theorem c18_lazy_stale_independent arr arr' n lz : bytes_ok arr = true -> bytes_ok arr' = true ->
  0 <= n <= zlen arr -> 0 <= n <= zlen arr' -> n <= 65535 ->
  firstn (Z.to_nat n) arr = firstn (Z.to_nat n) arr' ->
  lazy_callreq (firstn (Z.to_nat n) arr) = (0, lz) ->
  lazy_arg2_iter arr lz = lazy_arg2_iter arr' lz /\ lazy_arg2_arr arr lz = lazy_arg2_arr arr' lz.
Proof.
  intros Hb Hb' Hn Hn' Hl E H.
  destruct (c18_lazy_arg2_sized arr n lz Hb Hn Hl H) as (A & _ & _).
  rewrite E in H. destruct (c18_lazy_arg2_sized arr' n lz Hb' Hn' Hl H) as (A' & _ & _).
  rewrite E in A. split; [|congruence].
  unfold lazy_arg2_iter. unfold lazy_arg2_arr in A, A'. rewrite A, A'. reflexivity.
Qed.

(* the pairs the iterator yields are literally inside the arg2 region of the SIZED payload,
   in order, at most the announced count and exactly the count when it ends with io.EOF *)
Theorem c18_lazy_iter_sound arr n lz ps fin : bytes_ok arr = true -> 0 <= n <= zlen arr -> n <= 65535 ->
  lazy_callreq (firstn (Z.to_nat n) arr) = (0, lz) ->
  lazy_arg2_iter arr lz = A2Pairs ps fin ->
  let a2 := lz_arg2 (firstn (Z.to_nat n) arr) lz in
  (ps = [] /\ (length a2 < 2)%nat) \/
  exists count rest, 0 <= count <= 65535 /\ a2 = be 2 count ++ flat_map s_pair ps ++ rest /\
    zlen ps <= count /\ (fin = true -> zlen ps = count).
Proof.
  intros Hb Hn Hl H Hi a2.
  destruct (c18_lazy_arg2_sized arr n lz Hb Hn Hl H) as (A & _ & _).
  unfold lazy_arg2_iter in Hi. destruct (negb (bytes_eqb (lz_as lz) c_Thrift)); [discriminate|].
  unfold lazy_arg2_arr in A. rewrite A in Hi. fold a2 in Hi.
  destruct (kv_iter a2) as [ps' fin'] eqn:K. inversion Hi; subst ps' fin'.
  apply (kv_iter_sound a2 ps fin); [|exact K].
  unfold a2, lz_arg2, slice. apply c18_bok_firstn, c18_bok_skipn, c18_bok_firstn, Hb.
Qed.

(* ---------------- call res: arg2 is a piece of the sized payload ---------------- *)
(* [c18_suf p r]: an error-free buffer over p holds a suffix of p *)
Definition c18_suf (p : list Z) (r : rbuf) : Prop :=
  rerr r = false -> exists k, (k <= length p)%nat /\ rrem r = skipn k p.

Lemma c18_skipn_skipn {A} (x y : nat) (l : list A) : skipn x (skipn y l) = skipn (y + x) l.
Proof.
  revert l. induction y as [|y IH]; intros l; [reflexivity|].
  destruct l as [|a l]; [cbn; destruct x; reflexivity|]. cbn [skipn Nat.add]. apply IH.
Qed.

Lemma c18_suf_bytes p n r : c18_suf p r -> c18_suf p (snd (r_bytes n r)).
Proof.
  intros S H. destruct (c18_r_bytes_ok n r H) as (E & L & R & _).
  destruct (S E) as (k & K1 & K2). exists (k + n)%nat. rewrite R, K2, c18_skipn_skipn.
  rewrite K2, skipn_length in L. split; [lia|reflexivity].
Qed.
Lemma c18_suf_uint p n r : c18_suf p r -> c18_suf p (snd (r_uint n r)).
Proof. rewrite c18_r_uint_snd. apply c18_suf_bytes. Qed.
Lemma c18_suf_len8 p r : c18_suf p r -> c18_suf p (snd (r_len8 r)).
Proof.
  intros S. unfold r_len8, bindR, r_string, r_u8.
  pose proof (c18_suf_uint p 1 r S) as A. destruct (r_uint 1 r) as [n r1]. cbn [snd] in A.
  apply c18_suf_bytes, A.
Qed.
Lemma c18_suf_lazyres_hdrs p : forall n a r, c18_suf p r -> c18_suf p (snd (lazyres_hdrs n a r)).
Proof.
  induction n as [|n IH]; intros a r S; cbn [lazyres_hdrs]; [exact S|].
  unfold bindR. pose proof (c18_suf_len8 p r S) as A. destruct (r_len8 r) as [k r1]. cbn [snd] in A.
  pose proof (c18_suf_len8 p r1 A) as B. destruct (r_len8 r1) as [v r2]. cbn [snd] in B.
  apply IH, B.
Qed.

Theorem c18_lazyres_arg2 fl p lr : lazy_callres fl p = (0, lr) ->
  exists off, 0 <= off /\ off + zlen (lr_arg2 lr) <= zlen p /\
    lr_arg2 lr = slice p off (off + zlen (lr_arg2 lr)) /\
    (lr_a2frag lr = true -> off + zlen (lr_arg2 lr) = zlen p).
Proof.
  unfold lazy_callres. intros H.
  assert (S0 : c18_suf p (rb p)) by (intros _; exists 0%nat; split; [lia|reflexivity]).
  pose proof (c18_suf_bytes p 1 (rb p) S0) as S1. destruct (r_bytes 1 (rb p)) as [x0 r1]. cbn [snd] in S1.
  pose proof (c18_suf_bytes p 1 r1 S1) as S2. destruct (r_bytes 1 r1) as [x1 r2]. cbn [snd] in S2.
  pose proof (c18_suf_bytes p (Z.to_nat c_u_spanLength) r2 S2) as S3.
  destruct (r_bytes (Z.to_nat c_u_spanLength) r2) as [x2 r3]. cbn [snd] in S3.
  unfold r_u8, r_u16 in H.
  pose proof (c18_suf_uint p 1 r3 S3) as S4. destruct (r_uint 1 r3) as [nh r4]. cbn [snd] in S4.
  pose proof (c18_suf_lazyres_hdrs p (Z.to_nat nh) [] r4 S4) as S5.
  destruct (lazyres_hdrs (Z.to_nat nh) [] r4) as [as_ r5]. cbn [snd] in S5.
  pose proof (c18_suf_uint p 1 r5 S5) as S6. destruct (r_uint 1 r5) as [ct r6]. cbn [snd] in S6.
  pose proof (c18_suf_bytes p (Z.to_nat (ChecksumSize ct)) r6 S6) as S7.
  destruct (r_bytes (Z.to_nat (ChecksumSize ct)) r6) as [x6 r7]. cbn [snd] in S7.
  pose proof (c18_suf_uint p 2 r7 S7) as S8. destruct (r_uint 2 r7) as [n1 r8]. cbn [snd] in S8.
  pose proof (c18_suf_bytes p (Z.to_nat n1) r8 S8) as S9. destruct (r_bytes (Z.to_nat n1) r8) as [x8 r9]. cbn [snd] in S9.
  pose proof (c18_suf_uint p 2 r9 S9) as S10. destruct (r_uint 2 r9) as [n2 r10]. cbn [snd] in S10.
  pose proof (c18_r_bytes_ok (Z.to_nat n2) r10) as A11.
  destruct (r_bytes (Z.to_nat n2) r10) as [a2 r11]. cbn [fst snd] in A11.
  destruct (rerr r11) eqn:E11; [discriminate H|]. inversion H; subst lr; clear H. cbn [lr_arg2 lr_a2frag].
  destruct (A11 eq_refl) as (E10 & L11 & R11 & F11).
  destruct (S10 E10) as (k & K1 & K2). rewrite K2 in *. rewrite skipn_length in L11.
  assert (La2 : zlen a2 = Z.of_nat (Z.to_nat n2)).
  { rewrite F11. unfold zlen. rewrite firstn_length, skipn_length. lia. }
  exists (Z.of_nat k). unfold zlen in *. split; [lia|]. split; [lia|]. split.
  - rewrite F11 at 1. unfold slice. rewrite Nat2Z.id. f_equal. lia.
  - intros Fr. apply andb_true_iff in Fr as [Fr _]. apply Z.eqb_eq in Fr.
    rewrite R11, skipn_length, skipn_length in Fr. lia.
Qed.
