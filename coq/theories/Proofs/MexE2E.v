(* C04 end to end: shared-FIFO interleaving (C04_shuffle) o exchange-set demultiplexing
   (C04_demux / C04_no_gap) o fragment round trip (C01). *)
From Coq Require Import ZArith List Bool Lia.
From Verif Require Import Base.Wrap Base.Bytes Gen.GenConsts Model.Crc Model.Frag Spec.FragSpec Spec.FragOk
  Proofs.FragWP Proofs.FragRP Proofs.FragRoundtrip Spec.Demux Model.Mex Proofs.MexP.
Import ListNotations.
Local Open Scope Z_scope.

Lemma Forall2_nth {A B} (R : A -> B -> Prop) l1 l2 k a b :
  Forall2 R l1 l2 -> nth_error l1 k = Some a -> nth_error l2 k = Some b -> R a b.
Proof.
  intros H. revert k. induction H as [|x y l1 l2 Hxy _ IH]; intros [|k] Ha Hb; cbn in *; try discriminate.
  - inversion Ha; inversion Hb; subst. exact Hxy.
  - exact (IH _ Ha Hb).
Qed.

(* the frames an exchange sees when it is registered before the first frame arrives and
   is still registered: exactly its own call's sequence, whatever the interleaving *)
Lemma window_of_interleaving : forall e w ids seqs k S,
  interleaving seqs w -> NoDup ids -> tagged ids seqs ->
  nth_error ids k = Some (m_id e) -> nth_error seqs k = Some S ->
  g_from (m_g e) = O -> g_to (m_g e) = None ->
  window e w = S.
Proof.
  intros e w ids seqs k S Hi Hnd Ht Hk HS Hf Hto.
  unfold window, seg. rewrite Hf, Hto. cbn [skipn].
  exact (Forall2_nth _ _ _ _ _ _ (shuffle_gen _ _ Hi _ Hnd Ht) Hk HS).
Qed.

Theorem end_to_end : forall ls s r e (payload : Z -> frag) ids seqs k S capf kind a1 a2 a3 codes wst,
  run ls = Some s -> nth_error (s_mexes s) r = Some e ->
  (* the wire is any interleaving of per-call frame sequences with pairwise distinct ids *)
  interleaving seqs (s_wire s) -> NoDup ids -> tagged ids seqs ->
  nth_error ids k = Some (m_id e) -> nth_error seqs k = Some S ->
  (* the exchange was registered before the first frame and still is *)
  g_from (m_g e) = O -> g_to (m_g e) = None ->
  (* its call's sequence carries the fragments the sender's writer produced for a1 a2 a3 *)
  3 <= capf true -> 5 <= capf false -> kind_ok kind ->
  w_run capf (script3 a1 a2 a3) (w_init (ck_fresh kind)) [] = Some (codes, wst) ->
  map payload (map f_tag S) = ws_out wst ->
  (* the consumer has received as many frames as were sent *)
  length (g_received (m_g e)) = length S ->
  forall n1 n2 n3, 0 < n1 -> 0 < n2 -> 0 < n3 ->
  exists st1 st2 st3,
    arg_helper false n1 (r_init (map payload (map f_tag (g_received (m_g e))))) = Some (0, arg_bytes a1, 0, st1) /\
    arg_helper false n2 st1 = Some (0, arg_bytes a2, 0, st2) /\
    arg_helper true n3 st2 = Some (0, arg_bytes a3, 0, st3).
Proof.
  intros ls s r e payload ids seqs k S capf kind a1 a2 a3 codes wst Hrun He Hi Hnd Ht Hk HS Hf Hto
    Hc1 Hc2 Hkind Hw Hp Hlen n1 n2 n3 P1 P2 P3.
  pose proof (window_of_interleaving _ _ _ _ _ _ Hi Hnd Ht Hk HS Hf Hto) as Hwin.
  destruct (no_gap _ _ _ _ Hrun He) as [_ Heq]. rewrite Hwin in Heq. rewrite (Heq Hlen), Hp.
  destruct (roundtrip_helper capf kind a1 a2 a3 Hc1 Hc2 Hkind) as (codes' & wst' & Hw' & Hr).
  rewrite Hw in Hw'. inversion Hw'; subst.
  destruct (Hr n1 n2 n3 P1 P2 P3) as (st1 & st2 & st3 & A1 & A2 & A3 & _).
  exists st1, st2, st3. auto.
Qed.
