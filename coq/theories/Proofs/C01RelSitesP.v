(* C01 -- proofs about Model/C01RelSites.v and the tie to the regenerated site table. *)
From Coq Require Import ZArith List Bool String Ascii Lia.
From Verif Require Import Base.Wrap Model.C01RelSites Gen.GenC01RelSites.
Import ListNotations.
Local Open Scope Z_scope.

(* ---- the tie: the table regenerated from the source is the one the model knows *)

Lemma c01r_sites_exact : c01_release_sites = map fst c01r_known.
Proof.
  first [ vm_compute; reflexivity
        | fail 1 "the table of calls that can give back the frame a reader is parsed into, regenerated from the source (Gen/GenC01RelSites.c01_release_sites), differs from the model's (Model/C01RelSites.c01r_known): a call of readableFragment.done / reqResReader.releasePreviousFragment / a wrapper of them was added, removed, moved to another function or re-guarded" ].
Qed.

Lemma c01r_sites_ok : c01r_table_ok c01_release_sites = true.
Proof.
  first [ vm_compute; reflexivity
        | fail 1 "a function outside the reader and outside the paths that fail a call can give back the frame the request reader is parsed into (Gen/GenC01RelSites.c01_release_sites has a site Model/C01RelSites.c01r_known does not have)" ].
Qed.

Lemma c01r_functions_ok_holds : c01r_functions_ok c01_releasing_functions = true.
Proof.
  first [ vm_compute; reflexivity
        | fail 1 "a further function reaches a release of the frame a reader is parsed into (Gen/GenC01RelSites.c01_releasing_functions)" ].
Qed.

(* ---- the world *)

Lemma c01r_ok_no_release : forall tbl, c01r_table_ok tbl = true -> c01r_releases_on_complete tbl = false.
Proof.
  intros tbl. unfold c01r_table_ok, c01r_releases_on_complete.
  induction tbl as [|r tbl IH]; cbn [forallb existsb]; intros H.
  - reflexivity.
  - apply andb_true_iff in H. destruct H as [Hr Ht].
    apply negb_true_iff in Hr. rewrite Hr. cbn [orb]. exact (IH Ht).
Qed.

Definition c01r_inv (s : c01r_st) : Prop := rs_held s = true /\ rs_mem s = rs_own s.

Lemma c01r_run_own : forall tbl, c01r_releases_on_complete tbl = false ->
  forall evs s, c01r_inv s -> forallb (fun e => negb (c01r_is_fail e)) evs = true ->
  Forall (fun p => fst p = snd p) (c01r_run tbl s evs).
Proof.
  intros tbl Htbl evs. induction evs as [|e evs IH]; intros s [Hh Hm] Hnf.
  - constructor.
  - cbn [forallb] in Hnf. apply andb_true_iff in Hnf. destruct Hnf as [He Hnf].
    destruct e as [n|next| | |bs]; cbn [c01r_run c01r_step].
    + constructor.
      * cbn [fst snd]. rewrite Hm. reflexivity.
      * apply IH; [split; cbn; assumption | exact Hnf].
    + apply IH; [split; reflexivity | exact Hnf].
    + apply IH; [ | exact Hnf]. split; cbn [rs_held rs_mem rs_own].
      * rewrite Hh, Htbl. reflexivity.
      * exact Hm.
    + discriminate He.
    + rewrite Hh. apply IH; [split; assumption | exact Hnf].
Qed.

(* a handler of a call that is not failed reads, at every position of the fragment its reader is
   parsed into, the bytes its caller sent -- whenever it completes its response, whatever the pool
   does with the frames it was given back -- for every site table that has only known sites *)
Theorem c01r_early_answer_any_table : forall tbl own evs,
  c01r_table_ok tbl = true ->
  forallb (fun e => negb (c01r_is_fail e)) evs = true ->
  Forall (fun p => fst p = snd p) (c01r_run tbl (c01r_init own) evs).
Proof.
  intros tbl own evs Hok Hnf.
  apply c01r_run_own; [exact (c01r_ok_no_release tbl Hok) | split; reflexivity | exact Hnf].
Qed.

(* ... in particular for the table regenerated from the source of this run *)
Theorem c01r_early_answer : forall own evs,
  forallb (fun e => negb (c01r_is_fail e)) evs = true ->
  Forall (fun p => fst p = snd p) (c01r_run c01_release_sites (c01r_init own) evs).
Proof. intros own evs. exact (c01r_early_answer_any_table c01_release_sites own evs c01r_sites_ok). Qed.

(* the table with a release in doneSending is refused, and in its world a handler that answers first
   reads the bytes of another frame with no error *)
Lemma c01r_doneSending_refused : c01r_table_ok c01r_table_with_doneSending = false.
Proof. vm_compute. reflexivity. Qed.

Lemma c01r_doneSending_foreign :
  c01r_run c01r_table_with_doneSending (c01r_init [1; 2; 3; 4; 5])
    [RvRead 2; RvRespComplete; RvReuse [9; 9; 9; 9; 9]; RvRead 3]
  = [([1; 2], [1; 2]); ([9; 9; 9], [3; 4; 5])].
Proof. vm_compute. reflexivity. Qed.

(* the same trace in the world of this run's table *)
Lemma c01r_example_own :
  c01r_run c01_release_sites (c01r_init [1; 2; 3; 4; 5])
    [RvRead 2; RvRespComplete; RvReuse [9; 9; 9; 9; 9]; RvRead 3]
  = [([1; 2], [1; 2]); ([3; 4; 5], [3; 4; 5])].
Proof. vm_compute. reflexivity. Qed.

(* the pinned tree: a call that was FAILED (SendSystemError) has given its request frame back while
   the reader stays parsed into it -- a handler that reads on obtains the bytes of the frame that was
   read into the reused memory (known finding c01:read-after-syserr) *)
Lemma c01r_read_after_fail_refuted :
  exists own evs, ~ Forall (fun p => fst p = snd p) (c01r_run c01_release_sites (c01r_init own) evs).
Proof.
  exists [1; 2; 3], [RvFail; RvReuse [9; 9; 9]; RvRead 3].
  intros H. vm_compute in H. inversion H as [|p l Hp Hl]; subst. discriminate Hp.
Qed.
