(* Agreement of the REGENERATED typed-buffer code (Gen/GenTypedBuf.v, translated from
   typed/buffer.go on every run) with the hand-written model Model/TypedBuf.v that the C06 /
   C18 / C01 ... theorems are about.

   The generated code works on the Go state itself (ReadBuffer = remaining []byte + err;
   WriteBuffer = backing array + `remaining` as offset/length into it + err) and returns
   None where the Go code would panic.  The model state is a view of it:
     absR g = (bytes of g.remaining, g.err != nil)
     absW g = (bytes written = buffer[0 : len(buffer)-len(remaining)], len(remaining), error code)
   Each lemma says: the generated function does not panic and its result, seen through the
   view, is exactly the model function applied to the view of the initial state. *)
From Coq Require Import ZArith List Bool Lia.
From Verif Require Import Base.Wrap Base.Bytes Base.GoSem Gen.GenConsts Gen.GenTypedBuf Model.TypedBuf.
Import ListNotations.
Local Open Scope Z_scope.

(* ================= views ================= *)
Definition absR (g : ReadBuffer) : rbuf :=
  mkR (bs_list (ReadBuffer_remaining g)) (negb (ReadBuffer_err g =? 0)).

Definition viewR {A B} (f : A -> B) (o : option (A * ReadBuffer)) : option (B * rbuf) :=
  match o with Some (a, g) => Some (f a, absR g) | None => None end.

(* error codes of the write buffer: model 1 = ErrBufferFull, 2 = errStringTooLong *)
Definition abs_werr (e : Z) : Z :=
  if e =? e_typed_ErrBufferFull then 1 else if e =? e_typed_errStringTooLong then 2 else e.

Definition w_off (g : WriteBuffer) : Z :=
  match WriteBuffer_remaining g with Some s => sr_off s | None => 0 end.

Definition absW (g : WriteBuffer) : wbuf :=
  mkW (firstn (Z.to_nat (w_off g)) (bs_list (WriteBuffer_buffer g)))
      (rs_len (WriteBuffer_remaining g)) (abs_werr (WriteBuffer_err g)).

(* well-formed write buffer: `remaining` is a suffix of `buffer` (established by
   NewWriteBuffer / Wrap / Reset and kept by every method, see the lemmas), the error is nil
   or one of the two errors the package sets *)
Definition wfW (g : WriteBuffer) : Prop :=
  match WriteBuffer_buffer g, WriteBuffer_remaining g with
  | None, None => True
  | Some l, Some s => 0 <= sr_off s /\ 0 <= sr_len s /\ sr_off s + sr_len s = zlen l
  | _, _ => False
  end /\
  (WriteBuffer_err g = 0 \/ WriteBuffer_err g = e_typed_ErrBufferFull \/ WriteBuffer_err g = e_typed_errStringTooLong).

(* gen: result of a generated method; the new state is well-formed and its view is [m] of
   the old view *)
Definition stepW (gen : option WriteBuffer) (g : WriteBuffer) (m : wbuf -> wbuf) : Prop :=
  exists g', gen = Some g' /\ wfW g' /\ absW g' = m (absW g).

(* ================= list facts ================= *)
Lemma zlen_firstn {A} (l : list A) n : 0 <= n <= zlen l -> zlen (firstn (Z.to_nat n) l) = n.
Proof. intros H. unfold zlen in *. rewrite firstn_length. lia. Qed.

Lemma zlen_skipn {A} (l : list A) n : 0 <= n <= zlen l -> zlen (skipn (Z.to_nat n) l) = zlen l - n.
Proof. intros H. unfold zlen in *. rewrite skipn_length. lia. Qed.

Lemma zlen_firstn_nat {A} (l : list A) k : (k <= length l)%nat -> zlen (firstn k l) = Z.of_nat k.
Proof. intros H. unfold zlen. rewrite firstn_length. lia. Qed.

Lemma firstn_all_z {A} (l : list A) n : zlen l <= n -> firstn (Z.to_nat n) l = l.
Proof. intros H. apply firstn_all2. unfold zlen in H. lia. Qed.

(* ================= ReadBuffer ================= *)
Definition rd_take (s : bslice) (n : Z) : bslice :=
  match s with None => None | Some l => Some (firstn (Z.to_nat n) l) end.
Definition rd_drop (s : bslice) (n : Z) : bslice :=
  match s with None => None | Some l => Some (skipn (Z.to_nat n) l) end.

Lemma bs_slice_take s n : 0 <= n <= bs_len s -> bs_slice s 0 n = Some (rd_take s n).
Proof.
  intros H. unfold bs_slice.
  destruct (0 <? 0) eqn:A; [lia|]. destruct (n <? 0) eqn:B; [lia|]. destruct (bs_len s <? n) eqn:C; [lia|].
  cbn. destruct s as [l|]; cbn; [|reflexivity]. rewrite Z.sub_0_r. reflexivity.
Qed.

Lemma bs_slice_drop s n : 0 <= n <= bs_len s -> bs_slice s n (bs_len s) = Some (rd_drop s n).
Proof.
  intros H. unfold bs_slice.
  destruct (n <? 0) eqn:A; [lia|]. destruct (bs_len s <? n) eqn:B; [lia|]. destruct (bs_len s <? bs_len s) eqn:C; [lia|].
  cbn. destruct s as [l|]; cbn; [|reflexivity]. f_equal. f_equal.
  apply firstn_all_z. unfold bs_len in *. cbn in *. rewrite zlen_skipn by lia. lia.
Qed.

(* the generated ReadBytes, case by case *)
Lemma ReadBytes_cases g n :
  ReadBuffer_ReadBytes g n =
    if negb (ReadBuffer_err g =? 0) then Some (None, g)
    else if (n <? 0) || (bs_len (ReadBuffer_remaining g) <? n) then Some (None, set_ReadBuffer_err e_typed_ErrEOF g)
    else Some (rd_take (ReadBuffer_remaining g) n, set_ReadBuffer_remaining (rd_drop (ReadBuffer_remaining g) n) g).
Proof.
  unfold ReadBuffer_ReadBytes.
  destruct (negb (ReadBuffer_err g =? 0)); [reflexivity|].
  destruct ((n <? 0) || (bs_len (ReadBuffer_remaining g) <? n)) eqn:E; [reflexivity|].
  apply orb_false_iff in E as [E1 E2]. apply Z.ltb_ge in E1. apply Z.ltb_ge in E2.
  rewrite bs_slice_take by lia. rewrite bs_slice_drop by lia. reflexivity.
Qed.

(* ReadBytes never panics, whatever the int *)
Lemma ReadBytes_total g n : ReadBuffer_ReadBytes g n <> None.
Proof.
  rewrite ReadBytes_cases. destruct (negb _); [discriminate|]. destruct (_ || _); discriminate.
Qed.

Lemma bs_len_list s : bs_len s = zlen (bs_list s).
Proof. reflexivity. Qed.

Lemma ltb_nat_z (a : list Z) n : 0 <= n -> (length a <? Z.to_nat n)%nat = (zlen a <? n).
Proof.
  intros H. unfold zlen. destruct (Nat.ltb_spec (length a) (Z.to_nat n)); destruct (Z.ltb_spec (Z.of_nat (length a)) n); try reflexivity; lia.
Qed.

Lemma ReadBytes_agrees g n : 0 <= n ->
  viewR bs_list (ReadBuffer_ReadBytes g n) = Some (r_bytes (Z.to_nat n) (absR g)).
Proof.
  intros Hn. rewrite ReadBytes_cases. unfold r_bytes, absR. cbn [rerr rrem].
  destruct (negb (ReadBuffer_err g =? 0)) eqn:E; [cbn; unfold absR; rewrite E; reflexivity|].
  rewrite ltb_nat_z by exact Hn. rewrite <- bs_len_list.
  destruct (n <? 0) eqn:N; [lia|]. cbn [orb].
  destruct (bs_len (ReadBuffer_remaining g) <? n) eqn:L.
  - cbn. reflexivity.
  - cbn. unfold absR. cbn. rewrite E. destruct (ReadBuffer_remaining g); cbn; rewrite ?firstn_nil, ?skipn_nil; reflexivity.
Qed.

(* a negative length is an error (ErrEOF), not a panic and not a read *)
Lemma ReadBytes_negative g n : n < 0 -> ReadBuffer_err g = 0 ->
  viewR bs_list (ReadBuffer_ReadBytes g n) = Some ([], mkR (rrem (absR g)) true).
Proof.
  intros Hn He. rewrite ReadBytes_cases. rewrite He. cbn.
  destruct (n <? 0) eqn:N; [|lia]. cbn. reflexivity.
Qed.

(* nil result <=> the buffer is (now) in error *)
Lemma ReadBytes_nil g n b g' : 0 <= n -> ReadBuffer_ReadBytes g n = Some (b, g') ->
  bs_isnil b = rerr (absR g') \/ (n = 0 /\ ReadBuffer_remaining g = None /\ bs_list b = []).
Proof.
  intros Hn. rewrite ReadBytes_cases.
  destruct (negb (ReadBuffer_err g =? 0)) eqn:E.
  - intros H; inversion H; subst. left. cbn. rewrite E. reflexivity.
  - destruct (n <? 0) eqn:N; [lia|]. cbn [orb]. destruct (bs_len (ReadBuffer_remaining g) <? n) eqn:L.
    + intros H; inversion H; subst. left. reflexivity.
    + intros H; inversion H; subst. cbn. rewrite E. destruct (ReadBuffer_remaining g) eqn:R; cbn; [left; reflexivity|].
      right. unfold bs_len in L. cbn in L. apply Z.ltb_ge in L. unfold zlen in L. cbn in L. split; [lia|]. split; reflexivity.
Qed.

(* ---- ReadString: the bytes of ReadBytes, "" for nil ---- *)
Lemma ReadString_as_ReadBytes g n :
  ReadBuffer_ReadString g n = match ReadBuffer_ReadBytes g n with Some (b, g') => Some (bs_list b, g') | None => None end.
Proof.
  unfold ReadBuffer_ReadString. destruct (ReadBuffer_ReadBytes g n) as [[b g']|]; [|reflexivity].
  destruct b; reflexivity.
Qed.

Lemma ReadString_agrees g n : 0 <= n ->
  viewR (fun s => s) (ReadBuffer_ReadString g n) = Some (r_string n (absR g)).
Proof.
  intros Hn. rewrite ReadString_as_ReadBytes. unfold r_string. rewrite <- (ReadBytes_agrees g n Hn).
  destruct (ReadBuffer_ReadBytes g n) as [[b g']|]; reflexivity.
Qed.

Lemma viewR_some {A B} (f : A -> B) o m : viewR f o = Some m ->
  exists a g', o = Some (a, g') /\ f a = fst m /\ absR g' = snd m.
Proof.
  destruct o as [[a g']|]; cbn; [|discriminate]. intros H. inversion H. exists a, g'. auto.
Qed.

Lemma SkipBytes_agrees g n : 0 <= n ->
  option_map absR (ReadBuffer_SkipBytes g n) = Some (snd (r_bytes (Z.to_nat n) (absR g))).
Proof.
  intros Hn. pose proof (ReadBytes_agrees g n Hn) as H.
  apply viewR_some in H as (b & g' & H & _ & H2). rewrite <- H2. clear H2.
  rewrite ReadBytes_cases in H. unfold ReadBuffer_SkipBytes.
  destruct (negb (ReadBuffer_err g =? 0)); [inversion H; reflexivity|].
  destruct ((n <? 0) || (bs_len (ReadBuffer_remaining g) <? n)) eqn:E; [inversion H; reflexivity|].
  apply orb_false_iff in E as [E1 E2]. apply Z.ltb_ge in E1. apply Z.ltb_ge in E2.
  rewrite bs_slice_drop by lia. inversion H; reflexivity.
Qed.

(* ---- fixed-width integers ---- *)
Definition rd_uint_body (k : nat) (g : ReadBuffer) : option (Z * ReadBuffer) :=
  match ReadBuffer_ReadBytes g (Z.of_nat k) with
  | None => None
  | Some (x1, x2) =>
      if negb (bs_isnil x1) then match be_get k x1 with None => None | Some x3 => Some (x3, x2) end
      else Some (0, x2)
  end.

Lemma rd_uint_body_agrees k g : (0 < k)%nat ->
  viewR (fun v => v) (rd_uint_body k g) = Some (r_uint k (absR g)).
Proof.
  intros Hk. unfold rd_uint_body, r_uint, bindR.
  pose proof (ReadBytes_agrees g (Z.of_nat k) ltac:(lia)) as H. rewrite Nat2Z.id in H.
  apply viewR_some in H as (b & g' & H & H1 & H2). rewrite H.
  destruct (r_bytes k (absR g)) as [l r1] eqn:RB. cbn in H1, H2. subst l r1.
  rewrite ReadBytes_cases in H.
  destruct (negb (ReadBuffer_err g =? 0)) eqn:E.
  { inversion H; subst. cbn. rewrite E. reflexivity. }
  destruct ((Z.of_nat k <? 0) || (bs_len (ReadBuffer_remaining g) <? Z.of_nat k)) eqn:L.
  { inversion H; subst. cbn. reflexivity. }
  apply orb_false_iff in L as [_ L]. apply Z.ltb_ge in L.
  inversion H; subst. clear H.
  destruct (ReadBuffer_remaining g) as [l|] eqn:R.
  - cbn. unfold be_get. cbn. unfold bs_len in *. cbn in L. cbn [bs_list].
    rewrite !Nat2Z.id. rewrite zlen_firstn_nat by (unfold zlen in *; lia).
    rewrite Z.ltb_irrefl. cbn. rewrite E. rewrite firstn_firstn, Nat.min_id. reflexivity.
  - unfold bs_len in L. cbn in L. unfold zlen in L. cbn in L. lia.
Qed.

Lemma ReadUint16_agrees g : viewR (fun v => v) (ReadBuffer_ReadUint16 g) = Some (r_u16 (absR g)).
Proof. exact (rd_uint_body_agrees 2 g ltac:(lia)). Qed.
Lemma ReadUint32_agrees g : viewR (fun v => v) (ReadBuffer_ReadUint32 g) = Some (r_u32 (absR g)).
Proof. exact (rd_uint_body_agrees 4 g ltac:(lia)). Qed.
Lemma ReadUint64_agrees g : viewR (fun v => v) (ReadBuffer_ReadUint64 g) = Some (r_u64 (absR g)).
Proof. exact (rd_uint_body_agrees 8 g ltac:(lia)). Qed.

(* ---- single byte: ReadByte (value, error, buffer) and ReadSingleByte ---- *)
Lemma ReadByte_cases g :
  ReadBuffer_ReadByte g =
    if negb (ReadBuffer_err g =? 0) then Some (0, ReadBuffer_err g, g)
    else match bs_list (ReadBuffer_remaining g) with
         | [] => Some (0, e_typed_ErrEOF, set_ReadBuffer_err e_typed_ErrEOF g)
         | x :: l' => Some (x, 0, set_ReadBuffer_remaining (Some l') g)
         end.
Proof.
  unfold ReadBuffer_ReadByte. destruct (negb (ReadBuffer_err g =? 0)); [reflexivity|].
  destruct (ReadBuffer_remaining g) as [[|x l']|] eqn:R; [reflexivity| |reflexivity].
  unfold bs_index, bs_len. cbn [bs_list].
  assert (Z1 : (zlen (x :: l') <? 1) = false) by (apply Z.ltb_ge; unfold zlen; cbn [length]; lia).
  assert (Z2 : (zlen (x :: l') <=? 0) = false) by (apply Z.leb_gt; unfold zlen; cbn [length]; lia).
  rewrite Z1, Z2. change (0 <? 0) with false. cbn [orb nth Z.to_nat].
  pose proof (bs_slice_drop (Some (x :: l')) 1) as D. unfold bs_len in D. cbn [bs_list] in D.
  rewrite D by (unfold zlen; cbn [length]; lia). reflexivity.
Qed.

Lemma ReadSingleByte_agrees g : viewR (fun v => v) (ReadBuffer_ReadSingleByte g) = Some (r_u8 (absR g)).
Proof.
  unfold ReadBuffer_ReadSingleByte. rewrite ReadByte_cases.
  unfold r_u8, r_uint, bindR, r_bytes, absR. cbn [rerr rrem].
  destruct (negb (ReadBuffer_err g =? 0)) eqn:E; [cbn; unfold absR; rewrite ?E; reflexivity|].
  destruct (ReadBuffer_remaining g) as [[|x l']|] eqn:R; cbn; unfold absR; cbn; rewrite ?E, ?R; try reflexivity.
Qed.

(* the error value ReadByte returns is the buffer's error *)
Lemma ReadByte_err g v e g' : ReadBuffer_ReadByte g = Some (v, e, g') -> e = ReadBuffer_err g' \/ (e = 0 /\ ReadBuffer_err g' = 0).
Proof.
  rewrite ReadByte_cases. destruct (negb (ReadBuffer_err g =? 0)) eqn:E.
  - intros H; inversion H; subst. left; reflexivity.
  - destruct (bs_list (ReadBuffer_remaining g)); intros H; inversion H; subst; cbn.
    + left; reflexivity.
    + right. split; [reflexivity|]. apply negb_false_iff, Z.eqb_eq in E. exact E.
Qed.

(* ---- length-prefixed strings ---- *)
Lemma r_uint_range k r : bytes_ok (rrem r) = true -> 0 <= fst (r_uint k r) < 256 ^ Z.of_nat k.
Proof.
  intros H. unfold r_uint, bindR, r_bytes.
  assert (P : 0 < 256 ^ Z.of_nat k) by (apply Z.pow_pos_nonneg; lia).
  destruct (rerr r) eqn:E; [cbn [fst]; rewrite E; cbn [fst]; lia|].
  destruct (length (rrem r) <? k)%nat eqn:L; cbn [fst rerr]; [lia|].
  apply Nat.ltb_ge in L.
  assert (B : bytes_ok (firstn k (rrem r)) = true).
  { rewrite <- (firstn_skipn k (rrem r)) in H. rewrite bytes_ok_app in H. apply andb_true_iff in H. tauto. }
  pose proof (unbe_range _ B) as U. rewrite firstn_length, Nat.min_l in U by lia. exact U.
Qed.

Lemma bytes_ok_r_uint_rest k r : bytes_ok (rrem r) = true -> bytes_ok (rrem (snd (r_uint k r))) = true.
Proof.
  intros H. unfold r_uint, bindR, r_bytes.
  destruct (rerr r); [exact H|]. destruct (length (rrem r) <? k)%nat; cbn; [exact H|].
  rewrite <- (firstn_skipn k (rrem r)) in H. rewrite bytes_ok_app in H. apply andb_true_iff in H. tauto.
Qed.

Lemma ReadLen8String_agrees g : bytes_ok (bs_list (ReadBuffer_remaining g)) = true ->
  viewR (fun s => s) (ReadBuffer_ReadLen8String g) = Some (r_len8 (absR g)).
Proof.
  intros B. unfold ReadBuffer_ReadLen8String, r_len8, bindR.
  pose proof (ReadSingleByte_agrees g) as H. apply viewR_some in H as (n & g1 & H & H1 & H2). rewrite H.
  pose proof (r_uint_range 1 (absR g) B) as Rg. fold r_u8 in Rg.
  destruct (r_u8 (absR g)) as [n' r1]. cbn in H1, H2, Rg. subst n' r1.
  rewrite wrapS_id by (cbn in *; lia).
  pose proof (ReadString_agrees g1 n ltac:(lia)) as S.
  destruct (ReadBuffer_ReadString g1 n) as [[s g2]|]; cbn in S |- *; [exact S|discriminate].
Qed.

Lemma ReadLen16String_agrees g : bytes_ok (bs_list (ReadBuffer_remaining g)) = true ->
  viewR (fun s => s) (ReadBuffer_ReadLen16String g) = Some (r_len16 (absR g)).
Proof.
  intros B. unfold ReadBuffer_ReadLen16String, r_len16, bindR.
  pose proof (ReadUint16_agrees g) as H. apply viewR_some in H as (n & g1 & H & H1 & H2). rewrite H.
  pose proof (r_uint_range 2 (absR g) B) as Rg. fold r_u16 in Rg.
  destruct (r_u16 (absR g)) as [n' r1]. cbn in H1, H2, Rg. subst n' r1.
  rewrite wrapS_id by (cbn in *; lia).
  pose proof (ReadString_agrees g1 n ltac:(lia)) as S.
  destruct (ReadBuffer_ReadString g1 n) as [[s g2]|]; cbn in S |- *; [exact S|discriminate].
Qed.

(* ---- observers ---- *)
Lemma Remaining_agrees g : option_map bs_list (ReadBuffer_Remaining g) = Some (rrem (absR g)).
Proof. reflexivity. Qed.
Lemma BytesRemaining_agrees g : ReadBuffer_BytesRemaining g = Some (zlen (rrem (absR g))).
Proof. reflexivity. Qed.
Lemma Err_agrees g : option_map (fun e => negb (e =? 0)) (ReadBuffer_Err g) = Some (rerr (absR g)).
Proof. reflexivity. Qed.

(* ================= WriteBuffer ================= *)
Lemma splice_length l off bs : 0 <= off -> off + zlen bs <= zlen l -> zlen (splice l off bs) = zlen l.
Proof.
  intros H1 H2. unfold splice, zlen in *. rewrite !app_length, firstn_length, skipn_length. lia.
Qed.

Lemma firstn_splice l off bs : 0 <= off -> off + zlen bs <= zlen l ->
  firstn (Z.to_nat (off + zlen bs)) (splice l off bs) = firstn (Z.to_nat off) l ++ bs.
Proof.
  intros H1 H2. unfold splice. rewrite app_assoc. unfold zlen in *.
  rewrite firstn_app.
  assert (L : length (firstn (Z.to_nat off) l ++ bs) = Z.to_nat (off + Z.of_nat (length bs))).
  { rewrite app_length, firstn_length. lia. }
  rewrite L, Nat.sub_diag. cbn [firstn]. rewrite app_nil_r. apply firstn_all2. lia.
Qed.

Lemma abs_werr_0 : abs_werr 0 = 0.
Proof. reflexivity. Qed.

Lemma abs_werr_nz e : e = 0 \/ e = e_typed_ErrBufferFull \/ e = e_typed_errStringTooLong ->
  (abs_werr e =? 0) = (e =? 0).
Proof. intros [H|[H|H]]; subst; reflexivity. Qed.

Definition w_ref (g : WriteBuffer) (n : Z) : rslice :=
  match WriteBuffer_remaining g with Some s => Some (mkSref (sr_off s) n) | None => None end.
Definition w_adv (g : WriteBuffer) (n : Z) : WriteBuffer :=
  set_WriteBuffer_remaining
    (match WriteBuffer_remaining g with Some s => Some (mkSref (sr_off s + n) (sr_len s - n)) | None => None end) g.

Lemma setErr_cases g e :
  WriteBuffer_setErr g e = Some (if negb (WriteBuffer_err g =? 0) then g else set_WriteBuffer_err e g).
Proof. unfold WriteBuffer_setErr. destruct (negb _); reflexivity. Qed.

(* reserve(n): the only panic is a negative n that passes the room test *)
Lemma reserve_cases g n :
  WriteBuffer_reserve g n =
    if negb (WriteBuffer_err g =? 0) then Some (None, g)
    else if rs_len (WriteBuffer_remaining g) <? n then Some (None, set_WriteBuffer_err e_typed_ErrBufferFull g)
    else if n <? 0 then None
    else Some (w_ref g n, w_adv g n).
Proof.
  unfold WriteBuffer_reserve. rewrite setErr_cases.
  destruct (negb (WriteBuffer_err g =? 0)) eqn:E; [reflexivity|].
  destruct (rs_len (WriteBuffer_remaining g) <? n) eqn:L; [reflexivity|].
  apply Z.ltb_ge in L. unfold rs_slice, w_ref, w_adv.
  destruct (n <? 0) eqn:N.
  - change (0 <? 0) with false. cbn [orb]. reflexivity.
  - apply Z.ltb_ge in N. change (0 <? 0) with false. cbn [orb].
    destruct (rs_len (WriteBuffer_remaining g) <? n) eqn:L2; [lia|].
    destruct (rs_len (WriteBuffer_remaining g) <? rs_len (WriteBuffer_remaining g)) eqn:L3; [lia|].
    cbn [orb]. destruct (WriteBuffer_remaining g) as [s|]; [|reflexivity].
    rewrite Z.add_0_r, Z.sub_0_r. reflexivity.
Qed.

(* the state after n = |bs| bytes bs were put at the cursor *)
Lemma absW_put g bs l s :
  wfW g -> WriteBuffer_err g = 0 -> WriteBuffer_buffer g = Some l -> WriteBuffer_remaining g = Some s ->
  zlen bs <= sr_len s ->
  let g' := set_WriteBuffer_buffer (Some (splice l (sr_off s) bs)) (w_adv g (zlen bs)) in
  wfW g' /\ absW g' = mkW (wout (absW g) ++ bs) (wroom (absW g) - zlen bs) 0.
Proof.
  intros [W1 W2] E B R L. rewrite B, R in W1. destruct W1 as (O1 & O2 & O3).
  pose proof (zlen_nonneg bs) as NB.
  cbn zeta. split.
  - split.
    + unfold w_adv. rewrite R. cbn. rewrite splice_length by lia. lia.
    + unfold w_adv. cbn. rewrite E. left; reflexivity.
  - unfold absW, w_off, w_adv. rewrite R, B, E. cbn.
    rewrite firstn_splice by lia. rewrite E. reflexivity.
Qed.

(* the common shape of WriteBytes / WriteString / WriteUint16/32/64:
   reserve(n), then write into the reserved slice when it is not nil *)
Definition wr_body (g : WriteBuffer) (n : Z) (wr : bslice -> rslice -> option bslice) : option WriteBuffer :=
  match WriteBuffer_reserve g n with
  | None => None
  | Some (b, w) =>
      if negb (rs_isnil b)
      then match wr (WriteBuffer_buffer w) b with None => None | Some x => Some (set_WriteBuffer_buffer x w) end
      else Some w
  end.

Lemma wfW_room_nonneg g : wfW g -> 0 <= rs_len (WriteBuffer_remaining g).
Proof.
  intros [W _]. destruct (WriteBuffer_buffer g), (WriteBuffer_remaining g); cbn in *; try lia; tauto.
Qed.

Lemma wr_body_agrees g bs wr :
  wfW g ->
  (forall l off, 0 <= off -> off + zlen bs <= zlen l ->
     wr (Some l) (Some (mkSref off (zlen bs))) = Some (Some (splice l off bs))) ->
  stepW (wr_body g (zlen bs) wr) g (w_bytes bs).
Proof.
  intros W Hwr. pose proof W as [W1 W2]. pose proof (zlen_nonneg bs) as NB.
  unfold wr_body, stepW. rewrite reserve_cases. unfold w_bytes.
  replace (werr (absW g) =? 0) with (WriteBuffer_err g =? 0) by (symmetry; apply abs_werr_nz, W2).
  destruct (negb (WriteBuffer_err g =? 0)) eqn:E.
  { exists g. cbn. auto. }
  apply negb_false_iff, Z.eqb_eq in E.
  change (wroom (absW g)) with (rs_len (WriteBuffer_remaining g)).
  destruct (rs_len (WriteBuffer_remaining g) <? zlen bs) eqn:L.
  { eexists. cbn. split; [reflexivity|]. split.
    - split; [exact W1|]. cbn. right; left; reflexivity.
    - unfold w_seterr, absW. cbn. rewrite E. cbn. reflexivity. }
  apply Z.ltb_ge in L. destruct (zlen bs <? 0) eqn:N; [lia|].
  destruct (WriteBuffer_buffer g) as [l|] eqn:B, (WriteBuffer_remaining g) as [s|] eqn:R; cbn in W1; try tauto.
  - unfold w_ref. rewrite R. cbn [rs_isnil negb]. unfold w_adv at 1. cbn [WriteBuffer_buffer set_WriteBuffer_remaining].
    rewrite B. cbn in L. destruct W1 as (O1 & O2 & O3).
    rewrite Hwr by lia.
    destruct (absW_put g bs l s W E B R L) as [P1 P2].
    eexists. split; [reflexivity|]. split; [exact P1|]. rewrite P2. unfold absW. cbn [wroom]. rewrite R. reflexivity.
  - (* nil buffer: only the empty write fits *)
    cbn in L. assert (Z0 : zlen bs = 0) by lia. unfold w_ref. rewrite R. cbn [rs_isnil negb].
    exists (w_adv g (zlen bs)). split; [reflexivity|].
    assert (Ebs : bs = []) by (destruct bs; [reflexivity|unfold zlen in Z0; cbn in Z0; lia]).
    subst bs. split.
    + split; [unfold w_adv; rewrite R; cbn; rewrite B; exact I|exact W2].
    + unfold absW, w_adv, w_off. rewrite R. cbn. rewrite E. reflexivity.
Qed.

Lemma WriteBytes_agrees g b : wfW g -> stepW (WriteBuffer_WriteBytes g b) g (w_bytes (bs_list b)).
Proof.
  intros W. change (WriteBuffer_WriteBytes g b) with (wr_body g (zlen (bs_list b)) (fun m r => Some (mem_copy m r (bs_list b)))).
  apply wr_body_agrees; [exact W|]. intros l off H1 H2. cbn. rewrite Z.min_id. rewrite firstn_all_z by lia. reflexivity.
Qed.

Lemma WriteString_agrees g s : wfW g -> stepW (WriteBuffer_WriteString g s) g (w_bytes s).
Proof.
  intros W. change (WriteBuffer_WriteString g s) with (wr_body g (zlen s) (fun m r => Some (mem_copy m r s))).
  apply wr_body_agrees; [exact W|]. intros l off H1 H2. cbn. rewrite Z.min_id. rewrite firstn_all_z by lia. reflexivity.
Qed.

Lemma wr_uint_agrees k v g : wfW g -> stepW (wr_body g (Z.of_nat k) (fun m r => mem_put m r k v)) g (w_uint k v).
Proof.
  intros W. rewrite <- (zlen_be k v). apply wr_body_agrees; [exact W|].
  intros l off H1 H2. unfold mem_put. cbn [rs_len sr_len]. rewrite zlen_be, Z.ltb_irrefl. reflexivity.
Qed.

Lemma WriteUint16_agrees g v : wfW g -> stepW (WriteBuffer_WriteUint16 g v) g (w_u16 v).
Proof. exact (wr_uint_agrees 2 v g). Qed.
Lemma WriteUint32_agrees g v : wfW g -> stepW (WriteBuffer_WriteUint32 g v) g (w_u32 v).
Proof. exact (wr_uint_agrees 4 v g). Qed.
Lemma WriteUint64_agrees g v : wfW g -> stepW (WriteBuffer_WriteUint64 g v) g (w_u64 v).
Proof. exact (wr_uint_agrees 8 v g). Qed.

(* ---- single byte (no reserve: direct index + reslice) ---- *)
Lemma WriteSingleByte_agrees g v : wfW g -> 0 <= v < 256 -> stepW (WriteBuffer_WriteSingleByte g v) g (w_u8 v).
Proof.
  intros W Hv. pose proof W as [W1 W2]. unfold WriteBuffer_WriteSingleByte, stepW, w_u8, w_bytes.
  rewrite setErr_cases. rewrite Z.mod_small by lia.
  replace (werr (absW g) =? 0) with (WriteBuffer_err g =? 0) by (symmetry; apply abs_werr_nz, W2).
  destruct (negb (WriteBuffer_err g =? 0)) eqn:E.
  { exists g. auto. }
  apply negb_false_iff, Z.eqb_eq in E.
  change (wroom (absW g)) with (rs_len (WriteBuffer_remaining g)).
  pose proof (wfW_room_nonneg g W) as RN.
  change (zlen [v]) with 1.
  destruct (rs_len (WriteBuffer_remaining g) =? 0) eqn:L.
  { apply Z.eqb_eq in L. rewrite L. cbn [Z.ltb Z.compare].
    eexists. split; [reflexivity|]. split.
    - split; [exact W1|]. cbn. right; left; reflexivity.
    - unfold w_seterr, absW. cbn. rewrite E. cbn. reflexivity. }
  apply Z.eqb_neq in L. destruct (rs_len (WriteBuffer_remaining g) <? 1) eqn:L1; [lia|].
  destruct (WriteBuffer_buffer g) as [l|] eqn:B, (WriteBuffer_remaining g) as [s|] eqn:R; cbn in W1; try tauto; try (cbn in L; lia).
  destruct W1 as (O1 & O2 & O3). cbn in L, RN.
  unfold mem_set. cbn [rs_len]. change (0 <? 0) with false. destruct (sr_len s <=? 0) eqn:L2; [lia|]. cbn [orb].
  cbn [WriteBuffer_remaining set_WriteBuffer_buffer]. rewrite R.
  unfold rs_slice. cbn [rs_len]. change (1 <? 0) with false. destruct (sr_len s <? 1) eqn:L3; [lia|].
  rewrite Z.ltb_irrefl. cbn [orb].
  assert (L4 : zlen [v] <= sr_len s) by (change (zlen [v]) with 1; lia).
  destruct (absW_put g [v] l s W E B R L4) as [P1 P2]. change (zlen [v]) with 1 in *.
  rewrite Z.add_0_r.
  eexists. split; [reflexivity|].
  unfold w_adv in P1, P2. rewrite R in P1, P2. split; [exact P1|].
  etransitivity; [exact P2|]. unfold absW. cbn [wroom]. rewrite R. reflexivity.
Qed.

(* ---- length-prefixed strings ---- *)
Lemma stepW_seq g g1 gen2 m1 m2 :
  (exists w1, g1 = Some w1 /\ wfW w1 /\ absW w1 = m1 (absW g) /\ stepW (gen2 w1) w1 m2) ->
  stepW (match g1 with None => None | Some w1 => gen2 w1 end) g (seqW m1 m2).
Proof.
  intros (w1 & -> & W1 & A1 & (w2 & H2 & W2 & A2)). exists w2. split; [exact H2|]. split; [exact W2|].
  unfold seqW. rewrite <- A1. exact A2.
Qed.

Lemma check_len_agrees g bits n : wfW g -> 0 <= bits -> 0 <= wrapU bits n < 2 ^ 63 ->
  stepW (if negb (wrapS 64 (wrapU bits n) =? n)
         then WriteBuffer_setErr g e_typed_errStringTooLong else Some g) g
        (fun w => if wrapU bits n =? n then w else w_seterr 2 w).
Proof.
  intros W Hb Hr. pose proof W as [W1 W2]. rewrite wrapS_id by (cbn; lia).
  destruct (wrapU bits n =? n); cbn [negb].
  - exists g. auto.
  - rewrite setErr_cases. eexists. split; [reflexivity|]. unfold w_seterr.
    replace (werr (absW g) =? 0) with (WriteBuffer_err g =? 0) by (symmetry; apply abs_werr_nz, W2).
    destruct (negb (WriteBuffer_err g =? 0)) eqn:E.
    + apply negb_true_iff in E. rewrite E. auto.
    + apply negb_false_iff in E. rewrite E. split.
      * split; [exact W1|]. cbn. right; right; reflexivity.
      * reflexivity.
Qed.

Lemma mod_mul_256 v M : 0 < M -> v mod (256 * M) = 256 * ((v / 256) mod M) + v mod 256.
Proof.
  intros HM. symmetry. apply Z.mod_unique with (q := (v / 256) / M).
  - left. pose proof (Z.mod_pos_bound (v / 256) M HM). pose proof (Z.mod_pos_bound v 256 ltac:(lia)). lia.
  - pose proof (Z.div_mod v 256 ltac:(lia)). pose proof (Z.div_mod (v / 256) M ltac:(lia)). nia.
Qed.

Lemma be_wrapU k v : be k (wrapU (8 * Z.of_nat k) v) = be k v.
Proof.
  unfold wrapU. replace (2 ^ (8 * Z.of_nat k)) with (256 ^ Z.of_nat k).
  2:{ rewrite Z.pow_mul_r by lia. reflexivity. }
  revert v. induction k as [|k IH]; intros v; [reflexivity|].
  cbn [be]. rewrite Nat2Z.inj_succ, Z.pow_succ_r by lia.
  assert (P : 0 < 256 ^ Z.of_nat k) by (apply Z.pow_pos_nonneg; lia).
  rewrite mod_mul_256 by exact P.
  replace ((256 * ((v / 256) mod 256 ^ Z.of_nat k) + v mod 256) / 256) with ((v / 256) mod 256 ^ Z.of_nat k).
  2:{ symmetry. rewrite Z.mul_comm, Z.div_add_l by lia. rewrite (Z.div_small (v mod 256)) by (apply Z.mod_pos_bound; lia). lia. }
  replace ((256 * ((v / 256) mod 256 ^ Z.of_nat k) + v mod 256) mod 256) with (v mod 256).
  2:{ symmetry. rewrite Z.add_comm, Z.mul_comm, Z.mod_add by lia. apply Z.mod_mod. lia. }
  rewrite IH. reflexivity.
Qed.

Lemma WriteLen8String_agrees g s : wfW g -> stepW (WriteBuffer_WriteLen8String g s) g (w_len8 s).
Proof.
  intros W. unfold w_len8, w_check_len.
  pose proof (wrapU_range 8 (zlen s) ltac:(lia)) as U.
  assert (U2 : 0 <= wrapU 8 (zlen s) < 256) by (cbn in U; lia).
  assert (U3 : 0 <= wrapU 8 (zlen s) < 2 ^ 63) by (cbn; lia).
  pose proof (check_len_agrees g 8 (zlen s) W ltac:(lia) U3) as (g1 & H1 & W1 & A1).
  assert (S1 : forall w, wfW w -> stepW (match WriteBuffer_WriteSingleByte w (wrapU 8 (zlen s)) with None => None | Some w2 => WriteBuffer_WriteString w2 s end) w (w_u8 (zlen s) >> w_bytes s)).
  { intros w Ww. apply stepW_seq.
    destruct (WriteSingleByte_agrees w (wrapU 8 (zlen s)) Ww U2) as (w2 & H2 & W2 & A2).
    exists w2. split; [exact H2|]. split; [exact W2|]. split.
    - rewrite A2. unfold w_u8, wrapU. change (2 ^ 8) with 256. rewrite Z.mod_mod by lia. reflexivity.
    - apply WriteString_agrees, W2. }
  unfold WriteBuffer_WriteLen8String.
  destruct (negb (wrapS 64 (wrapU 8 (zlen s)) =? zlen s)) eqn:C.
  - rewrite H1. specialize (S1 g1 W1). destruct S1 as (g3 & H3 & W3 & A3).
    exists g3. split.
    + destruct (WriteBuffer_WriteSingleByte g1 (wrapU 8 (zlen s))) as [w2|]; [|discriminate].
      destruct (WriteBuffer_WriteString w2 s); [exact H3|discriminate].
    + split; [exact W3|]. unfold seqW at 1. rewrite <- A1. exact A3.
  - inversion H1; subst g1. specialize (S1 g W). destruct S1 as (g3 & H3 & W3 & A3).
    exists g3. split.
    + destruct (WriteBuffer_WriteSingleByte g (wrapU 8 (zlen s))) as [w2|]; [|discriminate].
      destruct (WriteBuffer_WriteString w2 s); [exact H3|discriminate].
    + split; [exact W3|]. unfold seqW at 1. rewrite <- A1. exact A3.
Qed.

Lemma WriteLen16String_agrees g s : wfW g -> stepW (WriteBuffer_WriteLen16String g s) g (w_len16 s).
Proof.
  intros W. unfold w_len16, w_check_len.
  pose proof (wrapU_range 16 (zlen s) ltac:(lia)) as U.
  assert (U3 : 0 <= wrapU 16 (zlen s) < 2 ^ 63) by (cbn in U |- *; lia).
  pose proof (check_len_agrees g 16 (zlen s) W ltac:(lia) U3) as (g1 & H1 & W1 & A1).
  assert (S1 : forall w, wfW w -> stepW (match WriteBuffer_WriteUint16 w (wrapU 16 (zlen s)) with None => None | Some w2 => WriteBuffer_WriteString w2 s end) w (w_u16 (zlen s) >> w_bytes s)).
  { intros w Ww. apply stepW_seq.
    destruct (WriteUint16_agrees w (wrapU 16 (zlen s)) Ww) as (w2 & H2 & W2 & A2).
    exists w2. split; [exact H2|]. split; [exact W2|]. split.
    - rewrite A2. unfold w_u16, w_uint. rewrite (be_wrapU 2). reflexivity.
    - apply WriteString_agrees, W2. }
  unfold WriteBuffer_WriteLen16String.
  destruct (negb (wrapS 64 (wrapU 16 (zlen s)) =? zlen s)) eqn:C.
  - rewrite H1. specialize (S1 g1 W1). destruct S1 as (g3 & H3 & W3 & A3).
    exists g3. split.
    + destruct (WriteBuffer_WriteUint16 g1 (wrapU 16 (zlen s))) as [w2|]; [|discriminate].
      destruct (WriteBuffer_WriteString w2 s); [exact H3|discriminate].
    + split; [exact W3|]. unfold seqW at 1. rewrite <- A1. exact A3.
  - inversion H1; subst g1. specialize (S1 g W). destruct S1 as (g3 & H3 & W3 & A3).
    exists g3. split.
    + destruct (WriteBuffer_WriteUint16 g (wrapU 16 (zlen s))) as [w2|]; [|discriminate].
      destruct (WriteBuffer_WriteString w2 s); [exact H3|discriminate].
    + split; [exact W3|]. unfold seqW at 1. rewrite <- A1. exact A3.
Qed.

(* ---- deferred references: reserve + zero fill = writing zeros; the reference is the
        reserved region (offset = bytes written so far) ---- *)
Lemma set_buffer_same g : set_WriteBuffer_buffer (WriteBuffer_buffer g) g = g.
Proof. destruct g; reflexivity. Qed.

Lemma zlen_repeat {A} (x : A) n : 0 <= n -> zlen (repeat x (Z.to_nat n)) = n.
Proof. intros H. unfold zlen. rewrite repeat_length. lia. Qed.

Definition deferred_ref (g : WriteBuffer) (n : Z) : rslice :=
  if (WriteBuffer_err g =? 0) && (n <=? rs_len (WriteBuffer_remaining g)) then w_ref g n else None.

Lemma deferred_agrees g n : wfW g -> 0 <= n ->
  exists g', WriteBuffer_deferred g n = Some (deferred_ref g n, g') /\ wfW g' /\
             absW g' = w_bytes (repeat 0 (Z.to_nat n)) (absW g).
Proof.
  intros W Hn. pose proof W as [W1 W2]. unfold WriteBuffer_deferred, deferred_ref, w_bytes.
  rewrite reserve_cases. rewrite zlen_repeat by exact Hn.
  replace (werr (absW g) =? 0) with (WriteBuffer_err g =? 0) by (symmetry; apply abs_werr_nz, W2).
  destruct (WriteBuffer_err g =? 0) eqn:E; cbn [negb andb].
  2:{ exists g. cbn [mem_fill]. rewrite set_buffer_same. auto. }
  apply Z.eqb_eq in E.
  change (wroom (absW g)) with (rs_len (WriteBuffer_remaining g)).
  destruct (rs_len (WriteBuffer_remaining g) <? n) eqn:L.
  { replace (n <=? rs_len (WriteBuffer_remaining g)) with false by (symmetry; apply Z.leb_gt; lia).
    eexists. cbn [mem_fill]. rewrite set_buffer_same. split; [reflexivity|]. split.
    - split; [exact W1|]. cbn. right; left; reflexivity.
    - unfold w_seterr, absW. cbn. rewrite E. cbn. reflexivity. }
  apply Z.ltb_ge in L. replace (n <=? rs_len (WriteBuffer_remaining g)) with true by (symmetry; apply Z.leb_le; lia).
  destruct (n <? 0) eqn:N; [lia|].
  destruct (WriteBuffer_buffer g) as [l|] eqn:B, (WriteBuffer_remaining g) as [s|] eqn:R; cbn in W1; try tauto.
  - change (WriteBuffer_buffer (w_adv g n)) with (WriteBuffer_buffer g). unfold w_ref. rewrite R, B.
    cbn [mem_fill sr_off sr_len]. cbn in L.
    assert (L' : zlen (repeat 0 (Z.to_nat n)) <= sr_len s) by (rewrite zlen_repeat; lia).
    destruct (absW_put g (repeat 0 (Z.to_nat n)) l s W E B R L') as [P1 P2]. rewrite zlen_repeat in * by lia.
    eexists. split; [reflexivity|]. split; [exact P1|]. rewrite P2. unfold absW. cbn [wroom]. rewrite R. reflexivity.
  - cbn in L. assert (n = 0) by lia. subst n. unfold w_ref. rewrite R. cbn [mem_fill].
    exists (w_adv g 0). change (WriteBuffer_buffer (w_adv g 0)) with (WriteBuffer_buffer g). rewrite B.
    replace (set_WriteBuffer_buffer None (w_adv g 0)) with (w_adv g 0) by (unfold w_adv; rewrite R; destruct g; cbn in *; subst; reflexivity).
    split; [reflexivity|]. split.
    + split; [unfold w_adv; rewrite R; cbn; rewrite B; exact I|exact W2].
    + unfold absW, w_adv, w_off. rewrite R. cbn. rewrite E. reflexivity.
Qed.

Lemma DeferUint16_is g : WriteBuffer_DeferUint16 g = WriteBuffer_deferred g 2.
Proof. unfold WriteBuffer_DeferUint16. destruct (WriteBuffer_deferred g 2) as [[a b]|]; reflexivity. Qed.
Lemma DeferUint32_is g : WriteBuffer_DeferUint32 g = WriteBuffer_deferred g 4.
Proof. unfold WriteBuffer_DeferUint32. destruct (WriteBuffer_deferred g 4) as [[a b]|]; reflexivity. Qed.
Lemma DeferUint64_is g : WriteBuffer_DeferUint64 g = WriteBuffer_deferred g 8.
Proof. unfold WriteBuffer_DeferUint64. destruct (WriteBuffer_deferred g 8) as [[a b]|]; reflexivity. Qed.
Lemma DeferBytes_is g n : WriteBuffer_DeferBytes g n = WriteBuffer_deferred g n.
Proof. unfold WriteBuffer_DeferBytes. destruct (WriteBuffer_deferred g n) as [[a b]|]; reflexivity. Qed.

(* DeferBytes(n) with a negative n that passes the room test panics (slice bounds) *)
Lemma DeferBytes_negative_panics g n : n < 0 -> WriteBuffer_err g = 0 -> 0 <= rs_len (WriteBuffer_remaining g) ->
  WriteBuffer_DeferBytes g n = None.
Proof.
  intros Hn E R. rewrite DeferBytes_is. unfold WriteBuffer_deferred. rewrite reserve_cases. rewrite E. cbn [Z.eqb negb].
  destruct (rs_len (WriteBuffer_remaining g) <? n) eqn:L; [lia|]. destruct (n <? 0) eqn:N; [reflexivity|lia].
Qed.

(* DeferByte: one zero byte; the reference is the whole remaining slice (w.remaining[0:]).
   Unlike every other write it does NOT look at the sticky error (hypothesis err = nil). *)
Lemma DeferByte_agrees g : wfW g -> WriteBuffer_err g = 0 ->
  exists r g', WriteBuffer_DeferByte g = Some (r, g') /\ wfW g' /\ absW g' = w_bytes [0] (absW g) /\
               r = (if rs_len (WriteBuffer_remaining g) =? 0 then None else WriteBuffer_remaining g).
Proof.
  intros W E. pose proof W as [W1 W2]. unfold WriteBuffer_DeferByte, w_bytes.
  rewrite setErr_cases. rewrite E. cbn [Z.eqb negb].
  replace (werr (absW g) =? 0) with true by (unfold absW; cbn; rewrite E; reflexivity). cbn [negb].
  change (wroom (absW g)) with (rs_len (WriteBuffer_remaining g)). change (zlen [0]) with 1.
  pose proof (wfW_room_nonneg g W) as RN.
  destruct (rs_len (WriteBuffer_remaining g) =? 0) eqn:L.
  { apply Z.eqb_eq in L. rewrite L. cbn [Z.ltb Z.compare].
    eexists _, _. split; [reflexivity|]. split; [|split; [|reflexivity]].
    - split; [exact W1|]. cbn. right; left; reflexivity.
    - unfold w_seterr, absW. cbn. rewrite E. cbn. reflexivity. }
  apply Z.eqb_neq in L. destruct (rs_len (WriteBuffer_remaining g) <? 1) eqn:L1; [lia|].
  destruct (WriteBuffer_buffer g) as [l|] eqn:B, (WriteBuffer_remaining g) as [s|] eqn:R; cbn in W1; try tauto; try (cbn in L; lia).
  destruct W1 as (O1 & O2 & O3). cbn in L, RN.
  unfold mem_set. cbn [rs_len]. change (0 <? 0) with false. destruct (sr_len s <=? 0) eqn:L2; [lia|]. cbn [orb].
  cbn [WriteBuffer_remaining set_WriteBuffer_buffer]. rewrite R.
  unfold rs_slice. cbn [rs_len]. change (1 <? 0) with false. change (0 <? 0) with false.
  destruct (sr_len s <? 1) eqn:L3; [lia|]. destruct (sr_len s <? 0) eqn:L5; [lia|].
  rewrite Z.ltb_irrefl. cbn [orb].
  assert (L4 : zlen [0] <= sr_len s) by (change (zlen [0]) with 1; lia).
  destruct (absW_put g [0] l s W E B R L4) as [P1 P2]. change (zlen [0]) with 1 in *.
  rewrite !Z.add_0_r, Z.sub_0_r.
  eexists _, _. split; [reflexivity|].
  unfold w_adv in P1, P2. rewrite R in P1, P2. split; [exact P1|]. split.
  - etransitivity; [exact P2|]. unfold absW. cbn [wroom]. rewrite R. reflexivity.
  - destruct s; reflexivity.
Qed.

(* the witness that DeferByte is not sticky: an errored buffer with one byte of room still
   advances (the model's w_bytes [0] would leave it alone) *)
Lemma DeferByte_ignores_error :
  let g := mk_WriteBuffer (Some [7]) (Some (mkSref 0 1)) e_typed_errStringTooLong in
  wfW g /\ option_map (fun p => absW (snd p)) (WriteBuffer_DeferByte g) = Some (mkW [0] 0 2) /\
  w_bytes [0] (absW g) = mkW [] 1 2.
Proof. cbv zeta. split; [|split; reflexivity]. split; cbn; [lia|]. right; right; reflexivity. Qed.

(* ---- observers, Reset, Wrap, setErr ---- *)
Lemma W_BytesRemaining_agrees g : WriteBuffer_BytesRemaining g = Some (wroom (absW g)).
Proof. reflexivity. Qed.

Lemma BytesWritten_agrees g : wfW g -> bs_len (WriteBuffer_buffer g) < 2 ^ 63 ->
  WriteBuffer_BytesWritten g = Some (zlen (wout (absW g))).
Proof.
  intros [W1 _] Hb. unfold WriteBuffer_BytesWritten, absW, w_off. cbn [wout].
  destruct (WriteBuffer_buffer g) as [l|] eqn:B, (WriteBuffer_remaining g) as [s|] eqn:R; cbn in W1; try tauto.
  destruct W1 as (O1 & O2 & O3). unfold bs_len in *. cbn [bs_list rs_len] in *.
  rewrite zlen_firstn by lia. rewrite wrapS_id by (cbn; lia). f_equal. lia.
Qed.

Lemma W_Err_agrees g : option_map abs_werr (WriteBuffer_Err g) = Some (werr (absW g)).
Proof. reflexivity. Qed.

Lemma rs_whole_wf m e : (e = 0 \/ e = e_typed_ErrBufferFull \/ e = e_typed_errStringTooLong) ->
  wfW (mk_WriteBuffer m (rs_whole m) e) /\ absW (mk_WriteBuffer m (rs_whole m) e) = mkW [] (bs_len m) (abs_werr e).
Proof.
  intros He. destruct m as [l|]; cbn.
  - split; [split; [|exact He]|reflexivity]. pose proof (zlen_nonneg l). cbn. lia.
  - split; [split; [exact I|exact He]|reflexivity].
Qed.

Lemma Reset_agrees g : exists g', WriteBuffer_Reset g = Some g' /\ wfW g' /\ absW g' = wb (bs_len (WriteBuffer_buffer g)).
Proof.
  eexists. split; [reflexivity|]. cbn. apply (rs_whole_wf (WriteBuffer_buffer g) 0). left; reflexivity.
Qed.

(* Wrap keeps the error field: on a fresh (zero) WriteBuffer it gives the empty buffer over b *)
Lemma Wrap_agrees g b : (WriteBuffer_err g = 0 \/ WriteBuffer_err g = e_typed_ErrBufferFull \/ WriteBuffer_err g = e_typed_errStringTooLong) ->
  exists g', WriteBuffer_Wrap g b = Some g' /\ wfW g' /\ absW g' = mkW [] (bs_len b) (abs_werr (WriteBuffer_err g)).
Proof.
  intros He. eexists. split; [reflexivity|]. cbn. apply (rs_whole_wf b (WriteBuffer_err g) He).
Qed.

Lemma setErr_agrees g e : wfW g -> e = e_typed_ErrBufferFull \/ e = e_typed_errStringTooLong ->
  stepW (WriteBuffer_setErr g e) g (w_seterr (abs_werr e)).
Proof.
  intros [W1 W2] He. rewrite setErr_cases. eexists. split; [reflexivity|]. unfold w_seterr.
  replace (werr (absW g) =? 0) with (WriteBuffer_err g =? 0) by (symmetry; apply abs_werr_nz, W2).
  destruct (WriteBuffer_err g =? 0) eqn:E; cbn [negb].
  - split; [split; [exact W1|cbn; right; exact He]|reflexivity].
  - split; [split; [exact W1|exact W2]|reflexivity].
Qed.

(* ---- Update through a reference: the patch formulas the models use ---- *)
Lemma Uint16Ref_Update_patch l pos n : 0 <= pos -> pos + 2 <= zlen l ->
  Uint16Ref_Update (Some l) (Some (mkSref pos 2)) n
    = Some (Some (firstn (Z.to_nat pos) l ++ be 2 n ++ skipn (Z.to_nat pos + 2) l)).
Proof. intros H1 H2. reflexivity. Qed.
Lemma Uint32Ref_Update_patch l pos n : 0 <= pos -> pos + 4 <= zlen l ->
  Uint32Ref_Update (Some l) (Some (mkSref pos 4)) n
    = Some (Some (firstn (Z.to_nat pos) l ++ be 4 n ++ skipn (Z.to_nat pos + 4) l)).
Proof. intros H1 H2. reflexivity. Qed.
Lemma Uint64Ref_Update_patch l pos n : 0 <= pos -> pos + 8 <= zlen l ->
  Uint64Ref_Update (Some l) (Some (mkSref pos 8)) n
    = Some (Some (firstn (Z.to_nat pos) l ++ be 8 n ++ skipn (Z.to_nat pos + 8) l)).
Proof. intros H1 H2. reflexivity. Qed.
Lemma ByteRef_Update_patch l pos len b : 0 < len ->
  ByteRef_Update (Some l) (Some (mkSref pos len)) b
    = Some (Some (firstn (Z.to_nat pos) l ++ [b] ++ skipn (Z.to_nat pos + 1) l)).
Proof.
  intros H. unfold ByteRef_Update, mem_set. cbn [rs_isnil negb rs_len sr_len].
  change (0 <? 0) with false. destruct (len <=? 0) eqn:L; [lia|]. cbn [orb sr_off]. rewrite Z.add_0_r. reflexivity.
Qed.
Lemma BytesRef_Update_patch l pos len b : zlen (bs_list b) = len ->
  BytesRef_Update (Some l) (Some (mkSref pos len)) b
    = Some (Some (firstn (Z.to_nat pos) l ++ bs_list b ++ skipn (Z.to_nat pos + length (bs_list b)) l)).
Proof.
  intros H. unfold BytesRef_Update, mem_copy. cbn [rs_isnil negb sr_len sr_off]. rewrite H, Z.min_id.
  rewrite firstn_all_z by lia. reflexivity.
Qed.
Lemma Update_nil m v : ByteRef_Update m None v = Some m /\ Uint16Ref_Update m None v = Some m /\
  Uint32Ref_Update m None v = Some m /\ Uint64Ref_Update m None v = Some m.
Proof. repeat split. Qed.

(* ================= the conjunction stated in Props/C06.v ================= *)
Lemma typedbuf_generated :
  (* ---- ReadBuffer (typed/buffer.go) ---- *)
  (forall g n, 0 <= n -> viewR bs_list (ReadBuffer_ReadBytes g n) = Some (r_bytes (Z.to_nat n) (absR g))) /\
  (forall g n, n < 0 -> ReadBuffer_err g = 0 ->
     viewR bs_list (ReadBuffer_ReadBytes g n) = Some ([], mkR (rrem (absR g)) true)) /\
  (forall g n, ReadBuffer_ReadBytes g n <> None) /\
  (forall g n, 0 <= n -> option_map absR (ReadBuffer_SkipBytes g n) = Some (snd (r_bytes (Z.to_nat n) (absR g)))) /\
  (forall g n, 0 <= n -> viewR (fun s => s) (ReadBuffer_ReadString g n) = Some (r_string n (absR g))) /\
  (forall g, viewR (fun v => v) (ReadBuffer_ReadSingleByte g) = Some (r_u8 (absR g))) /\
  (forall g, viewR (fun v => v) (ReadBuffer_ReadUint16 g) = Some (r_u16 (absR g))) /\
  (forall g, viewR (fun v => v) (ReadBuffer_ReadUint32 g) = Some (r_u32 (absR g))) /\
  (forall g, viewR (fun v => v) (ReadBuffer_ReadUint64 g) = Some (r_u64 (absR g))) /\
  (forall g, bytes_ok (bs_list (ReadBuffer_remaining g)) = true ->
     viewR (fun s => s) (ReadBuffer_ReadLen8String g) = Some (r_len8 (absR g))) /\
  (forall g, bytes_ok (bs_list (ReadBuffer_remaining g)) = true ->
     viewR (fun s => s) (ReadBuffer_ReadLen16String g) = Some (r_len16 (absR g))) /\
  (forall g, ReadBuffer_BytesRemaining g = Some (zlen (rrem (absR g)))) /\
  (forall g, option_map (fun e => negb (e =? 0)) (ReadBuffer_Err g) = Some (rerr (absR g))) /\
  (* ---- WriteBuffer ---- *)
  (forall g v, wfW g -> 0 <= v < 256 -> stepW (WriteBuffer_WriteSingleByte g v) g (w_u8 v)) /\
  (forall g b, wfW g -> stepW (WriteBuffer_WriteBytes g b) g (w_bytes (bs_list b))) /\
  (forall g s, wfW g -> stepW (WriteBuffer_WriteString g s) g (w_bytes s)) /\
  (forall g v, wfW g -> stepW (WriteBuffer_WriteUint16 g v) g (w_u16 v)) /\
  (forall g v, wfW g -> stepW (WriteBuffer_WriteUint32 g v) g (w_u32 v)) /\
  (forall g v, wfW g -> stepW (WriteBuffer_WriteUint64 g v) g (w_u64 v)) /\
  (forall g s, wfW g -> stepW (WriteBuffer_WriteLen8String g s) g (w_len8 s)) /\
  (forall g s, wfW g -> stepW (WriteBuffer_WriteLen16String g s) g (w_len16 s)) /\
  (forall g e, wfW g -> e = e_typed_ErrBufferFull \/ e = e_typed_errStringTooLong ->
     stepW (WriteBuffer_setErr g e) g (w_seterr (abs_werr e))) /\
  (forall g n, wfW g -> 0 <= n ->
     exists g', WriteBuffer_DeferBytes g n = Some (deferred_ref g n, g') /\ wfW g' /\
                absW g' = w_bytes (repeat 0 (Z.to_nat n)) (absW g)) /\
  (forall g, WriteBuffer_DeferUint16 g = WriteBuffer_DeferBytes g 2 /\ WriteBuffer_DeferUint32 g = WriteBuffer_DeferBytes g 4 /\
             WriteBuffer_DeferUint64 g = WriteBuffer_DeferBytes g 8) /\
  (forall g, wfW g -> WriteBuffer_err g = 0 ->
     exists r g', WriteBuffer_DeferByte g = Some (r, g') /\ wfW g' /\ absW g' = w_bytes [0] (absW g) /\
                  r = (if rs_len (WriteBuffer_remaining g) =? 0 then None else WriteBuffer_remaining g)) /\
  (forall g, WriteBuffer_BytesRemaining g = Some (wroom (absW g))) /\
  (forall g, wfW g -> bs_len (WriteBuffer_buffer g) < 2 ^ 63 -> WriteBuffer_BytesWritten g = Some (zlen (wout (absW g)))) /\
  (forall g, option_map abs_werr (WriteBuffer_Err g) = Some (werr (absW g))) /\
  (forall g, exists g', WriteBuffer_Reset g = Some g' /\ wfW g' /\ absW g' = wb (bs_len (WriteBuffer_buffer g))) /\
  (forall b, exists g', WriteBuffer_Wrap (mk_WriteBuffer None None 0) b = Some g' /\ wfW g' /\ absW g' = wb (bs_len b)) /\
  (* ---- deferred references: Update = patching the bytes written ---- *)
  (forall l pos n, 0 <= pos -> pos + 2 <= zlen l ->
     Uint16Ref_Update (Some l) (Some (mkSref pos 2)) n
       = Some (Some (firstn (Z.to_nat pos) l ++ be 2 n ++ skipn (Z.to_nat pos + 2) l))) /\
  (forall l pos len b, 0 < len ->
     ByteRef_Update (Some l) (Some (mkSref pos len)) b
       = Some (Some (firstn (Z.to_nat pos) l ++ [b] ++ skipn (Z.to_nat pos + 1) l))) /\
  (forall l pos len b, zlen (bs_list b) = len ->
     BytesRef_Update (Some l) (Some (mkSref pos len)) b
       = Some (Some (firstn (Z.to_nat pos) l ++ bs_list b ++ skipn (Z.to_nat pos + length (bs_list b)) l))) /\
  (forall m v, ByteRef_Update m None v = Some m /\ Uint16Ref_Update m None v = Some m).
Proof.
  repeat (split; [first
    [ exact ReadBytes_agrees | exact ReadBytes_negative | exact ReadBytes_total | exact SkipBytes_agrees
    | exact ReadString_agrees | exact ReadSingleByte_agrees | exact ReadUint16_agrees | exact ReadUint32_agrees
    | exact ReadUint64_agrees | exact ReadLen8String_agrees | exact ReadLen16String_agrees | exact BytesRemaining_agrees
    | exact Err_agrees | exact WriteSingleByte_agrees | exact WriteBytes_agrees | exact WriteString_agrees
    | exact WriteUint16_agrees | exact WriteUint32_agrees | exact WriteUint64_agrees | exact WriteLen8String_agrees
    | exact WriteLen16String_agrees | exact setErr_agrees
    | (intros g n W Hn; rewrite DeferBytes_is; exact (deferred_agrees g n W Hn))
    | (intros g; rewrite !DeferBytes_is; exact (conj (DeferUint16_is g) (conj (DeferUint32_is g) (DeferUint64_is g))))
    | exact DeferByte_agrees | exact W_BytesRemaining_agrees | exact BytesWritten_agrees | exact W_Err_agrees
    | exact Reset_agrees
    | (intros b; exact (Wrap_agrees (mk_WriteBuffer None None 0) b (or_introl eq_refl)))
    | exact Uint16Ref_Update_patch | exact ByteRef_Update_patch | exact BytesRef_Update_patch ]|]).
  intros m v. split; reflexivity.
Qed.
