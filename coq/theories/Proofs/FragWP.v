(* Proofs about the fragmenting WRITER model (Model/Frag.v, section Writer): section
   "W. Writer" of TARGETS_frag.md.  Main theorem: [writer_correct]. *)
From Coq Require Import ZArith List Bool Lia ZifyBool.
From Verif Require Import Base.Wrap Base.Bytes Gen.GenConsts Model.Crc Model.Frag Spec.FragSpec Spec.FragOk.
Import ListNotations.
Local Open Scope Z_scope.

(* ------------------------------------------------------------------ *)
(* denote_events facts                                                 *)
(* ------------------------------------------------------------------ *)

Lemma denote_events_app e1 e2 : denote_events (e1 ++ e2) = fold_left ev_step e2 (denote_events e1).
Proof. unfold denote_events. apply fold_left_app. Qed.

Lemma ev_step_cont_nil acc : ev_step acc (Cont []) = acc.
Proof. destruct acc as [cl cu]. cbn [ev_step fst snd]. rewrite app_nil_r. reflexivity. Qed.

(* the three facts of TARGETS_frag.md in terms of [denote_events] alone *)
Lemma denote_events_cont_nil evs : denote_events (evs ++ [Cont []]) = denote_events evs.
Proof. rewrite denote_events_app. cbn [fold_left]. apply ev_step_cont_nil. Qed.

Lemma denote_events_new_nil evs :
  denote_events (evs ++ [New []]) = (fst (denote_events evs) ++ [snd (denote_events evs)], []).
Proof. rewrite denote_events_app. reflexivity. Qed.

Lemma denote_events_last_app evs K x now : K = Cont \/ K = New ->
  denote_events (evs ++ [K (x ++ now)]) =
  (fst (denote_events (evs ++ [K x])), snd (denote_events (evs ++ [K x])) ++ now).
Proof.
  intros HK. rewrite !denote_events_app. cbn [fold_left].
  destruct HK as [-> | ->]; cbn [ev_step fst snd]; [rewrite app_assoc|]; reflexivity.
Qed.

(* the events of a fragment whose last chunk is [x]: all but the last event do not depend on
   [x], the last one is [Cont x] or [New x] *)
Lemma frag_events_snoc pre : exists evs K, (K = Cont \/ K = New) /\
  forall x, frag_events (pre ++ [x]) = evs ++ [K x].
Proof.
  destruct pre as [|c0 cs].
  - exists [], Cont. split; [left; reflexivity|]. intros x. reflexivity.
  - exists (Cont c0 :: map New cs), New. split; [right; reflexivity|]. intros x.
    cbn [app frag_events]. rewrite map_app. reflexivity.
Qed.

(* appending bytes to the payload of the last event appends them to [cur] *)
Lemma events_app_last acc pre open now closed cur :
  fold_left ev_step (frag_events (pre ++ [open])) acc = (closed, cur) ->
  fold_left ev_step (frag_events (pre ++ [open ++ now])) acc = (closed, cur ++ now).
Proof.
  destruct (frag_events_snoc pre) as (evs & K & HK & E). rewrite !E, !fold_left_app.
  cbn [fold_left]. set (a := fold_left ev_step evs acc). intros H.
  destruct HK as [-> | ->]; cbn [ev_step] in *.
  - inversion H; subst. rewrite app_assoc. reflexivity.
  - inversion H; subst. reflexivity.
Qed.

(* a further chunk in the same fragment closes [cur] *)
Lemma frag_events_new pre open x :
  frag_events ((pre ++ [open]) ++ [x]) = frag_events (pre ++ [open]) ++ [New x].
Proof.
  destruct pre as [|c0 cs]; cbn [app frag_events map]; [reflexivity|].
  rewrite !map_app. reflexivity.
Qed.

Lemma chunks_of_app a b : chunks_of (a ++ b) = chunks_of a ++ chunks_of b.
Proof. unfold chunks_of. apply map_app. Qed.

(* the events of [out] followed by one more fragment *)
Lemma events_snoc out f :
  denote_events (flat_map frag_events (chunks_of (out ++ [f]))) =
  fold_left ev_step (frag_events (f_chunks f)) (denote_events (flat_map frag_events (chunks_of out))).
Proof.
  rewrite chunks_of_app, flat_map_app, denote_events_app. cbn [chunks_of map flat_map].
  rewrite app_nil_r. reflexivity.
Qed.

(* ------------------------------------------------------------------ *)
(* chunks_size                                                          *)
(* ------------------------------------------------------------------ *)

Lemma chunks_size_app a b : chunks_size (a ++ b) = chunks_size a + chunks_size b.
Proof.
  induction a as [|c a IH]; cbn [app chunks_size fold_right]; [reflexivity|].
  unfold chunks_size in IH. rewrite IH. unfold chunks_size. lia.
Qed.

Lemma chunks_size_one c : chunks_size [c] = 2 + zlen c.
Proof. unfold chunks_size. cbn [fold_right]. lia. Qed.

Lemma app_last_snoc pre open now : app_last (pre ++ [open]) now = pre ++ [open ++ now].
Proof.
  induction pre as [|c pre IH]; [reflexivity|].
  cbn [app]. cbn [app_last]. rewrite IH. destruct (pre ++ [open]) eqn:E; [|reflexivity].
  destruct pre; discriminate.
Qed.

(* ------------------------------------------------------------------ *)
(* checksum chain                                                       *)
(* ------------------------------------------------------------------ *)

Lemma lxor_cancel x m : Z.lxor (Z.lxor x m) m = x.
Proof. rewrite Z.lxor_assoc, Z.lxor_nilpotent, Z.lxor_0_r. reflexivity. Qed.

Lemma crc32_update_app_w P c a b :
  crc32_update P (crc32_update P c a) b = crc32_update P c (a ++ b).
Proof.
  unfold crc32_update. rewrite lxor_cancel. unfold crc_raw. rewrite fold_left_app. reflexivity.
Qed.

Lemma crc32_update_nil P c : crc32_update P c [] = c.
Proof. unfold crc32_update, crc_raw. cbn [fold_left]. apply lxor_cancel. Qed.

Lemma ck_add_app c a b : ck_add (ck_add c a) b = ck_add c (a ++ b).
Proof.
  unfold ck_add. destruct (ck_kind c =? 1) eqn:E1.
  - cbn [ck_kind ck_val]. cbn [Z.eqb Pos.eqb]. rewrite crc32_update_app_w. reflexivity.
  - destruct (ck_kind c =? 3) eqn:E3.
    + cbn [ck_kind ck_val]. cbn [Z.eqb Pos.eqb]. rewrite crc32_update_app_w. reflexivity.
    + rewrite E1, E3. reflexivity.
Qed.

Lemma ck_add_nil c : ck_add c [] = c.
Proof.
  unfold ck_add. destruct c as [k v]. cbn [ck_kind ck_val]. rewrite !crc32_update_nil.
  destruct (k =? 1) eqn:E1; [f_equal; lia|]. destruct (k =? 3) eqn:E3; [f_equal; lia|]. reflexivity.
Qed.

Lemma ck_add_typecode c bs : ck_typecode (ck_add c bs) = ck_typecode c.
Proof.
  unfold ck_add, ck_typecode. destruct (ck_kind c =? 1) eqn:E1; [cbn [ck_kind]; lia|].
  destruct (ck_kind c =? 3) eqn:E3; [cbn [ck_kind]; lia|]. reflexivity.
Qed.

Lemma ck_fold_typecode cs c : ck_typecode (fold_left ck_add cs c) = ck_typecode c.
Proof.
  revert c; induction cs as [|x cs IH]; intros c; cbn [fold_left]; [reflexivity|].
  rewrite IH. apply ck_add_typecode.
Qed.

(* the checksum state after all chunks of the fragments [fs] *)
Definition ck_end (c : ckst) (fs : list frag) : ckst :=
  fold_left (fun c f => fold_left ck_add (f_chunks f) c) fs c.

Lemma ck_end_typecode fs c : ck_typecode (ck_end c fs) = ck_typecode c.
Proof.
  revert c; induction fs as [|f fs IH]; intros c; [reflexivity|].
  unfold ck_end in *. cbn [fold_left]. rewrite IH. apply ck_fold_typecode.
Qed.

Lemma ck_end_snoc c fs f : ck_end c (fs ++ [f]) = fold_left ck_add (f_chunks f) (ck_end c fs).
Proof. unfold ck_end. rewrite fold_left_app. reflexivity. Qed.

Lemma ck_chain_snoc fs : forall c f,
  ck_chain c fs ->
  f_ck f = ck_sum (fold_left ck_add (f_chunks f) (ck_end c fs)) ->
  f_ctype f = ck_typecode (ck_end c fs) ->
  ck_chain c (fs ++ [f]).
Proof.
  induction fs as [|g fs IH]; intros c f Hc Hs Ht.
  - cbn [app ck_chain]. auto.
  - cbn [app ck_chain] in *. destruct Hc as (A & B & C). split; [exact A|]. split; [exact B|].
    apply IH; assumption.
Qed.

Lemma ck_fold_snoc cs x c : fold_left ck_add (cs ++ [x]) c = ck_add (fold_left ck_add cs c) x.
Proof. rewrite fold_left_app. reflexivity. Qed.

(* ------------------------------------------------------------------ *)
(* shape of the fragments already emitted                               *)
(* ------------------------------------------------------------------ *)

Definition isnil {A} (l : list A) : bool := match l with [] => true | _ => false end.

(* fragments that are followed by a further one *)
Fixpoint pre_ok (capf : bool -> Z) (first : bool) (fs : list frag) : Prop :=
  match fs with
  | [] => True
  | f :: r => f_chunks f <> [] /\ chunks_size (f_chunks f) <= capf first /\ f_more f = true /\
              pre_ok capf false r
  end.

Lemma pre_ok_snoc capf fs : forall first f,
  pre_ok capf first fs -> f_chunks f <> [] -> chunks_size (f_chunks f) <= capf (first && isnil fs) ->
  f_more f = true -> pre_ok capf first (fs ++ [f]).
Proof.
  induction fs as [|g fs IH]; intros first f H Hc Hs Hm.
  - cbn [app pre_ok isnil] in *. rewrite andb_true_r in Hs. auto.
  - cbn [app pre_ok isnil] in *. destruct H as (A & B & C & D). rewrite andb_false_r in Hs.
    split; [exact A|]. split; [exact B|]. split; [exact C|]. apply IH; auto.
Qed.

Lemma pre_ok_final capf fs : forall first f,
  pre_ok capf first fs -> f_chunks f <> [] -> chunks_size (f_chunks f) <= capf (first && isnil fs) ->
  f_more f = false -> frames_ok_from capf first (fs ++ [f]).
Proof.
  induction fs as [|g fs IH]; intros first f H Hc Hs Hm.
  - cbn [app frames_ok_from isnil] in *. rewrite andb_true_r in Hs.
    split; [exact Hc|]. split; [exact Hs|]. split; [|exact I].
    rewrite Hm. split; [discriminate|congruence].
  - cbn [app frames_ok_from pre_ok isnil] in *. destruct H as (A & B & C & D). rewrite andb_false_r in Hs.
    split; [exact A|]. split; [exact B|]. split.
    + rewrite C. split; [intros _; destruct fs; discriminate|reflexivity].
    + apply IH; auto.
Qed.

(* ------------------------------------------------------------------ *)
(* the invariant                                                        *)
(* ------------------------------------------------------------------ *)

Section Inv.
  Variable capf : bool -> Z.
  Variable ck0 : ckst.
  Hypothesis Hcap1 : 3 <= capf true.
  Hypothesis Hcap2 : 5 <= capf false.

  (* there is a current fragment; [closed] = arguments closed so far, [cur] = bytes of the
     argument in progress (between arguments: of the last closed one) *)
  Record common (st : wst) (closed : list (list Z)) (cur : list Z) : Prop := {
    cm_err : ws_err st = 0;
    cm_has : ws_has st = true;
    cm_done : ws_done st = false;
    cm_ev : exists pre open, ws_chunks st = pre ++ [open] /\
            fold_left ev_step (frag_events (pre ++ [open]))
              (denote_events (flat_map frag_events (chunks_of (ws_out st)))) = (closed, cur);
    cm_room0 : 0 <= ws_room st;
    cm_room : ws_room st + chunks_size (ws_chunks st) = capf (isnil (ws_out st));
    cm_out : pre_ok capf true (ws_out st);
    cm_chain : ck_chain ck0 (ws_out st);
    cm_ck : ws_ck st = fold_left ck_add (ws_chunks st) (ck_end ck0 (ws_out st))
  }.

  Definition arg_state (last : bool) : Z :=
    if last then c_fragmentingWriteInLastArgument else c_fragmentingWriteInArgument.

  Definition in_arg (st : wst) (closed : list (list Z)) (cur : list Z) (last : bool) : Prop :=
    ws_state st = arg_state last /\ common st closed cur.

  (* between arguments: [args] = the arguments written so far *)
  Definition between (st : wst) (args : list (list Z)) : Prop :=
    (st = w_init ck0 /\ args = []) \/
    (ws_state st = c_fragmentingWriteWaitingForArgument /\ 2 < ws_room st /\
     exists closed cur, common st closed cur /\ args = closed ++ [cur]).

  Definition final (st : wst) (args : list (list Z)) : Prop :=
    ws_state st = c_fragmentingWriteComplete /\ ws_done st = true /\
    denote (chunks_of (ws_out st)) = args /\ frames_ok capf (ws_out st) /\ ck_chain ck0 (ws_out st).

  Lemma arg_state_writing last : is_writing (arg_state last) = true.
  Proof. destruct last; reflexivity. Qed.

  Lemma common_chunks_ne st closed cur : common st closed cur -> ws_chunks st <> [].
  Proof. intros H. destruct (cm_ev _ _ _ H) as (pre & open & E & _). rewrite E. destruct pre; discriminate. Qed.

  (* finish(more=true) + a fresh continuation fragment with one empty chunk *)
  Lemma emit_common st closed cur s :
    common st closed cur ->
    common (mkWst s 0 (emit st true) true [[]] (capf false - 2) (ws_ck st) (ws_done st)) closed cur.
  Proof.
    intros H. pose proof (common_chunks_ne _ _ _ H) as Hne. destruct H as [He Hh Hd Hev Hr0 Hr Ho Hc Hk].
    destruct Hev as (pre & open & E & Hev).
    unfold emit. constructor; cbn [ws_err ws_has ws_done ws_chunks ws_out ws_room ws_ck].
    - reflexivity.
    - reflexivity.
    - exact Hd.
    - exists [], []. split; [reflexivity|]. rewrite events_snoc. cbn [f_chunks app frag_events map fold_left].
      rewrite ev_step_cont_nil. rewrite E. exact Hev.
    - lia.
    - rewrite chunks_size_one. replace (isnil (ws_out st ++ _)) with false by (destruct (ws_out st); reflexivity).
      change (zlen (@nil Z)) with 0. lia.
    - apply pre_ok_snoc; cbn [f_chunks f_more]; [exact Ho|exact Hne| |reflexivity].
      cbn [andb]. pose proof (zlen_nonneg (ws_chunks st)). lia.
    - apply ck_chain_snoc; cbn [f_chunks f_ck f_ctype]; [exact Hc| |].
      + rewrite Hk. reflexivity.
      + rewrite Hk, ck_fold_typecode. reflexivity.
    - rewrite ck_end_snoc. cbn [f_chunks fold_left]. rewrite ck_add_nil. exact Hk.
  Qed.

  (* ---- Begin ---- *)
  Lemma begin_ok st args last : between st args ->
    exists st', w_begin capf last st = Some (0, st') /\ in_arg st' args [] last.
  Proof.
    intros [[-> ->] | (Hs & Hr & closed & cur & H & ->)].
    - unfold w_begin, w_init. cbn [ws_err ws_state ws_has ws_chunks ws_room ws_out ws_ck ws_done].
      change (0 =? 0) with true. cbn [negb]. change (c_fragmentingWriteStart =? c_fragmentingWriteComplete) with false.
      change (is_writing c_fragmentingWriteStart) with false. change (c_fragmentingWriteStart =? c_fragmentingWriteStart) with true.
      cbv iota beta. change c_chunkHeaderSize with 2.
      replace (capf true <=? 2) with false by lia.
      eexists. split; [reflexivity|]. split; [reflexivity|].
      constructor; cbn [ws_err ws_has ws_done ws_chunks ws_out ws_room ws_ck]; try reflexivity.
      + exists [], []. split; reflexivity.
      + lia.
      + cbn [app isnil]. rewrite chunks_size_one. change (zlen (@nil Z)) with 0. lia.
      + cbn [app fold_left ck_end]. rewrite ck_add_nil. reflexivity.
    - pose proof (common_chunks_ne _ _ _ H) as Hne. destruct H as [He Hh Hd Hev Hr0 Hrm Ho Hc Hk].
      destruct Hev as (pre & open & E & Hev).
      unfold w_begin. rewrite He, Hs, Hh. change (0 =? 0) with true. cbn [negb].
      change (c_fragmentingWriteWaitingForArgument =? c_fragmentingWriteComplete) with false.
      change (is_writing c_fragmentingWriteWaitingForArgument) with false.
      cbv iota beta. change c_chunkHeaderSize with 2.
      replace (ws_room st <=? 2) with false by lia.
      eexists. split; [reflexivity|]. split; [reflexivity|].
      constructor; cbn [ws_err ws_has ws_done ws_chunks ws_out ws_room ws_ck]; try reflexivity; try assumption.
      + exists (pre ++ [open]), []. rewrite E. split; [reflexivity|].
        rewrite frag_events_new, fold_left_app, Hev. reflexivity.
      + lia.
      + rewrite chunks_size_app, chunks_size_one. change (zlen (@nil Z)) with 0. lia.
      + rewrite ck_fold_snoc, ck_add_nil. exact Hk.
  Qed.

  (* ---- Flush ---- *)
  Lemma flush_raw_ok st closed cur last : in_arg st closed cur last -> in_arg (w_flush_raw capf st) closed cur last.
  Proof.
    intros [Hs H]. split; [exact Hs|]. unfold w_flush_raw. change c_chunkHeaderSize with 2.
    apply emit_common. exact H.
  Qed.

  Lemma flush_ok st closed cur last : in_arg st closed cur last ->
    exists st', w_flush capf st = Some (0, st') /\ in_arg st' closed cur last.
  Proof.
    intros H. unfold w_flush. destruct H as [Hs H]. rewrite Hs, arg_state_writing.
    eexists. split; [reflexivity|]. apply flush_raw_ok. split; assumption.
  Qed.

  (* ---- Write ---- *)
  (* the non-flushing part of one loop iteration *)
  Lemma write_now_ok st closed cur last now :
    in_arg st closed cur last -> zlen now <= ws_room st ->
    in_arg (mkWst (ws_state st) 0 (ws_out st) true (app_last (ws_chunks st) now) (ws_room st - zlen now)
                  (ck_add (ws_ck st) now) (ws_done st)) closed (cur ++ now) last.
  Proof.
    intros [Hs H] Hn. split; [exact Hs|]. destruct H as [He Hh Hd Hev Hr0 Hrm Ho Hc Hk].
    destruct Hev as (pre & open & E & Hev).
    constructor; cbn [ws_err ws_has ws_done ws_chunks ws_out ws_room ws_ck]; try reflexivity; try assumption.
    - exists pre, (open ++ now). rewrite E, app_last_snoc. split; [reflexivity|].
      apply events_app_last. exact Hev.
    - lia.
    - rewrite E, app_last_snoc, chunks_size_app, chunks_size_one, zlen_app.
      rewrite E, chunks_size_app, chunks_size_one in Hrm. lia.
    - rewrite Hk, E, app_last_snoc, !ck_fold_snoc, ck_add_app. reflexivity.
  Qed.

  Lemma firstn_all_z {A} (b : list A) : firstn (Z.to_nat (zlen b)) b = b.
  Proof. unfold zlen. rewrite Nat2Z.id. apply firstn_all. Qed.

  Lemma zlen_firstn {A} (b : list A) n : 0 <= n <= zlen b -> zlen (firstn (Z.to_nat n) b) = n.
  Proof. intros H. unfold zlen in *. rewrite firstn_length. lia. Qed.

  Lemma write_loop_ok fuel : forall b st closed cur last,
    in_arg st closed cur last ->
    (0 < ws_room st -> (length b <= fuel)%nat) ->
    (ws_room st = 0 -> (length b < fuel)%nat) ->
    in_arg (w_write_loop capf fuel b st) closed (cur ++ b) last.
  Proof.
    induction fuel as [|f IH]; intros b st closed cur last H F1 F2.
    - (* no fuel: then b = [] *)
      pose proof (cm_room0 _ _ _ (proj2 H)) as Hr0.
      assert (Hb : b = []).
      { destruct b; [reflexivity|]. cbn [length] in *. lia. }
      subst b. cbn [w_write_loop]. change (zlen (@nil Z)) with 0.
      replace (Z.min 0 (Z.max (ws_room st) 0)) with 0 by lia. change (0 =? 0) with true. cbv iota.
      cbn [Z.to_nat firstn].
      pose proof (write_now_ok st closed cur last [] H) as W. change (zlen (@nil Z)) with 0 in W.
      apply W. lia.
    - pose proof (cm_room0 _ _ _ (proj2 H)) as Hr0. pose proof (zlen_nonneg b) as Hb0.
      cbn [w_write_loop]. set (n := Z.min (zlen b) (Z.max (ws_room st) 0)).
      assert (Hn : 0 <= n <= zlen b /\ n <= ws_room st) by lia.
      set (now := firstn (Z.to_nat n) b).
      assert (Hln : zlen now = n) by (apply zlen_firstn; lia).
      pose proof (write_now_ok st closed cur last now H ltac:(lia)) as W. rewrite Hln in W.
      destruct (n =? zlen b) eqn:En.
      + assert (Enb : now = b).
        { subst now. replace n with (zlen b) by lia. apply firstn_all_z. }
        rewrite Enb in W |- *. exact W.
      + apply flush_raw_ok in W.
        replace (cur ++ b) with ((cur ++ now) ++ skipn (Z.to_nat n) b).
        2:{ rewrite <- app_assoc. subst now. rewrite firstn_skipn. reflexivity. }
        apply IH; [exact W| |].
        * intros _. rewrite skipn_length. unfold zlen in *.
          destruct (Z.eq_dec (ws_room st) 0) as [Z0|NZ]; [specialize (F2 Z0); lia|].
          assert (0 < ws_room st) as P by lia. specialize (F1 P). lia.
        * unfold w_flush_raw. cbn [ws_room]. change c_chunkHeaderSize with 2. lia.
  Qed.

  Lemma write_ok st closed cur last b : in_arg st closed cur last ->
    exists st', w_write capf b st = Some (0, st') /\ in_arg st' closed (cur ++ b) last.
  Proof.
    intros H. unfold w_write. rewrite (cm_err _ _ _ (proj2 H)), (proj1 H), arg_state_writing.
    change (0 =? 0) with true. cbn [negb]. eexists. split; [reflexivity|].
    apply write_loop_ok; [exact H| |]; intros _; lia.
  Qed.

  (* ---- Close ---- *)
  Lemma close_ok st closed cur : in_arg st closed cur false ->
    exists st', w_close capf st = Some (0, st') /\ between st' (closed ++ [cur]).
  Proof.
    intros [Hs H]. unfold w_close. rewrite (cm_err _ _ _ H), Hs.
    change (0 =? 0) with true. cbn [arg_state negb].
    change (is_writing c_fragmentingWriteInArgument) with true.
    change (c_fragmentingWriteInArgument =? c_fragmentingWriteInLastArgument) with false. cbn [negb].
    change c_chunkHeaderSize with 2.
    destruct (ws_room st >? 2) eqn:Er.
    - eexists. split; [reflexivity|]. right. cbn [ws_state ws_room]. split; [reflexivity|]. split; [lia|].
      exists closed, cur. split; [|reflexivity]. destruct H as [He Hh Hd Hev Hr0 Hrm Ho Hc Hk].
      constructor; cbn [ws_err ws_has ws_done ws_chunks ws_out ws_room ws_ck]; try reflexivity; assumption.
    - eexists. split; [reflexivity|]. right. cbn [ws_state ws_room]. split; [reflexivity|]. split; [lia|].
      exists closed, cur. split; [|reflexivity]. apply emit_common. exact H.
  Qed.

  Lemma close_last_ok st closed cur : in_arg st closed cur true ->
    exists st', w_close capf st = Some (0, st') /\ final st' (closed ++ [cur]).
  Proof.
    intros [Hs H]. unfold w_close. rewrite (cm_err _ _ _ H), Hs.
    change (0 =? 0) with true. cbn [arg_state negb].
    change (is_writing c_fragmentingWriteInLastArgument) with true.
    change (c_fragmentingWriteInLastArgument =? c_fragmentingWriteInLastArgument) with true. cbn [negb].
    eexists. split; [reflexivity|].
    pose proof (common_chunks_ne _ _ _ H) as Hne. destruct H as [He Hh Hd Hev Hr0 Hrm Ho Hc Hk].
    destruct Hev as (pre & open & E & Hev).
    unfold final, emit. cbn [ws_state ws_done ws_out].
    split; [reflexivity|]. split; [reflexivity|]. split; [|split].
    - unfold denote. rewrite events_snoc. cbn [f_chunks]. rewrite E, Hev. reflexivity.
    - split; [destruct (ws_out st); discriminate|].
      apply pre_ok_final; cbn [f_chunks f_more]; [exact Ho|exact Hne| |reflexivity].
      cbn [andb]. lia.
    - apply ck_chain_snoc; cbn [f_chunks f_ck f_ctype]; [exact Hc| |].
      + rewrite Hk. reflexivity.
      + rewrite Hk, ck_fold_typecode. reflexivity.
  Qed.

  (* ---- scripts ---- *)
  Definition all0 (codes : list Z) : Prop := Forall (fun c => c = 0) codes.

  Lemma all0_snoc codes : all0 codes -> all0 (codes ++ [0]).
  Proof. intros H. apply Forall_app. split; [exact H|]. constructor; [reflexivity|constructor]. Qed.

  Lemma w_run_app ops1 : forall ops2 st codes,
    w_run capf (ops1 ++ ops2) st codes =
    match w_run capf ops1 st codes with
    | None => None
    | Some (codes', st') => w_run capf ops2 st' codes'
    end.
  Proof.
    induction ops1 as [|o ops1 IH]; intros ops2 st codes; [reflexivity|].
    cbn [app w_run]. destruct (w_step capf st o) as [[c st']|]; [apply IH|reflexivity].
  Qed.

  Lemma items_ok items : forall st closed cur last codes,
    in_arg st closed cur last -> all0 codes ->
    exists codes' st', w_run capf (map item_op items) st codes = Some (codes', st') /\
      all0 codes' /\ in_arg st' closed (cur ++ arg_bytes items) last.
  Proof.
    induction items as [|i items IH]; intros st closed cur last codes H Hc.
    - exists codes, st. cbn [map w_run arg_bytes flat_map]. rewrite app_nil_r. auto.
    - cbn [map w_run]. destruct i as [b|]; cbn [item_op w_step].
      + destruct (write_ok st closed cur last b H) as (st1 & E & H1). rewrite E.
        destruct (IH st1 closed (cur ++ b) last (codes ++ [0]) H1 (all0_snoc _ Hc)) as (codes' & st' & R & A & I').
        exists codes', st'. split; [exact R|]. split; [exact A|].
        unfold arg_bytes in *. cbn [flat_map]. rewrite app_assoc. exact I'.
      + destruct (flush_ok st closed cur last H) as (st1 & E & H1). rewrite E.
        destruct (IH st1 closed cur last (codes ++ [0]) H1 (all0_snoc _ Hc)) as (codes' & st' & R & A & I').
        exists codes', st'. split; [exact R|]. split; [exact A|].
        unfold arg_bytes in *. cbn [flat_map app]. exact I'.
  Qed.

  (* Begin; items; up to (not including) Close *)
  Lemma arg_body_ok items st args last codes :
    between st args -> all0 codes ->
    exists codes' st', w_run capf (WBegin last :: map item_op items) st codes = Some (codes', st') /\
      all0 codes' /\ in_arg st' args (arg_bytes items) last.
  Proof.
    intros H Hc. cbn [w_run w_step].
    destruct (begin_ok st args last H) as (st1 & E & H1). rewrite E.
    destruct (items_ok items st1 args [] last (codes ++ [0]) H1 (all0_snoc _ Hc)) as (codes' & st' & R & A & I').
    exists codes', st'. auto.
  Qed.

  Lemma arg_ok items st args codes :
    between st args -> all0 codes ->
    exists codes' st', w_run capf (arg_ops false items) st codes = Some (codes', st') /\
      all0 codes' /\ between st' (args ++ [arg_bytes items]).
  Proof.
    intros H Hc. unfold arg_ops. rewrite app_comm_cons, w_run_app.
    destruct (arg_body_ok items st args false codes H Hc) as (codes1 & st1 & R & A & I1). rewrite R.
    cbn [w_run w_step]. destruct (close_ok st1 args _ I1) as (st2 & E & B). rewrite E.
    exists (codes1 ++ [0]), st2. split; [reflexivity|]. split; [apply all0_snoc, A|exact B].
  Qed.

  Lemma last_arg_ok items st args codes :
    between st args -> all0 codes ->
    exists codes' st', w_run capf (arg_ops true items) st codes = Some (codes', st') /\
      all0 codes' /\ final st' (args ++ [arg_bytes items]).
  Proof.
    intros H Hc. unfold arg_ops. rewrite app_comm_cons, w_run_app.
    destruct (arg_body_ok items st args true codes H Hc) as (codes1 & st1 & R & A & I1). rewrite R.
    cbn [w_run w_step]. destruct (close_last_ok st1 args _ I1) as (st2 & E & B). rewrite E.
    exists (codes1 ++ [0]), st2. split; [reflexivity|]. split; [apply all0_snoc, A|exact B].
  Qed.

  (* any number of non-last arguments followed by the last one *)
  Definition script (args : list (list witem)) (lastarg : list witem) : list wop :=
    flat_map (arg_ops false) args ++ arg_ops true lastarg.

  Lemma args_ok args : forall st done codes,
    between st done -> all0 codes ->
    exists codes' st', w_run capf (flat_map (arg_ops false) args) st codes = Some (codes', st') /\
      all0 codes' /\ between st' (done ++ map arg_bytes args).
  Proof.
    induction args as [|a args IH]; intros st done codes H Hc.
    - exists codes, st. cbn [flat_map w_run map]. rewrite app_nil_r. auto.
    - cbn [flat_map map]. rewrite w_run_app.
      destruct (arg_ok a st done codes H Hc) as (codes1 & st1 & R & A & B). rewrite R.
      destruct (IH st1 _ codes1 B A) as (codes2 & st2 & R2 & A2 & B2).
      exists codes2, st2. split; [exact R2|]. split; [exact A2|].
      rewrite <- app_assoc in B2. exact B2.
  Qed.

  Theorem writer_correct_n args lastarg :
    exists codes st,
      w_run capf (script args lastarg) (w_init ck0) [] = Some (codes, st) /\
      Forall (fun c => c = 0) codes /\
      ws_state st = c_fragmentingWriteComplete /\ ws_done st = true /\
      denote (chunks_of (ws_out st)) = map arg_bytes args ++ [arg_bytes lastarg] /\
      frames_ok capf (ws_out st) /\
      ck_chain ck0 (ws_out st).
  Proof.
    unfold script. rewrite w_run_app.
    destruct (args_ok args (w_init ck0) [] [] (or_introl (conj eq_refl eq_refl)) (Forall_nil _))
      as (codes1 & st1 & R & A & B). rewrite R.
    destruct (last_arg_ok lastarg st1 _ codes1 B A) as (codes2 & st2 & R2 & A2 & (F1 & F2 & F3 & F4 & F5)).
    exists codes2, st2. cbn [app] in F3. auto 10.
  Qed.
End Inv.

(* ------------------------------------------------------------------ *)
(* main theorem                                                         *)
(* ------------------------------------------------------------------ *)

Theorem writer_correct : forall (capf : bool -> Z) ck a1 a2 a3,
  3 <= capf true -> 5 <= capf false ->
  exists codes st,
    w_run capf (script3 a1 a2 a3) (w_init ck) [] = Some (codes, st) /\      (* no panic *)
    Forall (fun c => c = 0) codes /\                                          (* every op returns nil *)
    ws_state st = c_fragmentingWriteComplete /\ ws_done st = true /\
    denote (chunks_of (ws_out st)) = [arg_bytes a1; arg_bytes a2; arg_bytes a3] /\
    frames_ok capf (ws_out st) /\
    ck_chain ck (ws_out st).
Proof.
  intros capf ck a1 a2 a3 H1 H2.
  destruct (writer_correct_n capf ck H1 H2 [a1; a2] a3) as (codes & st & R & H).
  exists codes, st. split; [|exact H].
  rewrite <- R. unfold script, script3. cbn [flat_map]. rewrite app_nil_r, <- app_assoc. reflexivity.
Qed.

(* non-vacuity: the smallest admissible capacities force fragmentation; flushes, empty
   writes and empty arguments included *)
Example writer_correct_instance :
  let capf := fun first : bool => if first then 3 else 5 in
  let a1 := [IWrite [1;2;3;4;5;6;7]; IFlush; IWrite []; IFlush; IFlush; IWrite [8]] in
  let a3 := [IWrite [9;10;11]; IWrite [12;13;14;15]] in
  3 <= capf true /\ 5 <= capf false /\
  option_map (fun p => (map f_chunks (ws_out (snd p)), denote (chunks_of (ws_out (snd p)))))
             (w_run capf (script3 a1 [] a3) (w_init (mkCk 1 0)) []) =
  Some ([[[1]]; [[2;3;4]]; [[5;6;7]]; [[]]; [[]]; [[8]]; [[];[]]; [[];[9]]; [[10;11;12]]; [[13;14;15]]],
        [[1;2;3;4;5;6;7;8]; []; [9;10;11;12;13;14;15]]).
Proof. vm_compute. split; [discriminate|]. split; [discriminate|reflexivity]. Qed.

(* the capacity bounds are needed: below them Begin panics *)
Example writer_small_initial_panics :
  w_run (fun first : bool => if first then 2 else 5) (script3 [] [] []) (w_init (mkCk 0 0)) [] = None.
Proof. reflexivity. Qed.
Example writer_small_continuation_panics :
  w_run (fun first : bool => if first then 3 else 4) (script3 [IWrite [1]] [] []) (w_init (mkCk 0 0)) [] = None.
Proof. reflexivity. Qed.

Print Assumptions writer_correct.
Print Assumptions writer_correct_n.
