(* Proofs about Model/IdleSweepFine.v: the idle sweep as a thread of atomic actions interleaved
   with the events of the other goroutines.
     - the generated decision functions are the ones of the hand model (Model/Idle.v);
     - activity stamps = last call activity of the history, along every interleaving;
     - a connection no other goroutine touches during a sweep gets exactly what the atomic
       sweep of C19_sweep_iff gives it (if and only if), whatever happens to the others;
     - the weakest correct "only if" for a connection that IS touched: what held at which
       instant when the sweep closes it; with the re-check of the fix: no call frame between
       now - MaxIdleTime and the re-check instant, and the statement's condition in full at
       that instant when no call started on the connection while the sweep tested it;
     - without the re-check (fx = false) the "only if" fails at every instant of the sweep. *)
From Coq Require Import ZArith List Bool Lia ZifyBool.
From Verif Require Import Base.Wrap Base.Wire Gen.GenConsts Gen.GenFrame Gen.GenHealthIdle
  Spec.IdleHealthSpec Model.Health Model.Idle Model.IdleHealthSys Model.IdleSweepFine
  Proofs.IdleP Proofs.HealthP.
Import ListNotations.
Local Open Scope Z_scope.

(* ---- the generated decisions are those of the hand model -------------------------------- *)
Lemma gen_last_activity c : lastActivityTime (k_lr c) (k_lw c) = last_activity c.
Proof. reflexivity. Qed.

Lemma gen_fine_idle now mi c : fine_idle now mi c = idle_candidate now mi c.
Proof. reflexivity. Qed.

Lemma gen_is_active c : connIsActive (k_state c) = is_active c.
Proof. reflexivity. Qed.

Lemma gen_relay_can_close c : relayCanClose (relay_is_nil c) (relay_pending c) = relay_can_close c.
Proof. unfold relayCanClose, relay_is_nil, relay_pending, relay_can_close. destruct (k_relay c); reflexivity. Qed.

Lemma gen_has_pending_calls c :
  hasPendingCalls (k_inb c) (k_outb c) (relayCanClose (relay_is_nil c) (relay_pending c)) = has_pending_calls c.
Proof. rewrite gen_relay_can_close. reflexivity. Qed.

(* ---- runs ----------------------------------------------------------------------------------- *)
Lemma frun_app fx cf : forall l1 l2 st,
  frun fx cf st (l1 ++ l2) = match frun fx cf st l1 with Some st1 => frun fx cf st1 l2 | None => None end.
Proof.
  induction l1 as [|a r IH]; intros l2 st; [reflexivity|]. cbn [app frun].
  destruct (fstep fx cf st a); [apply IH|reflexivity].
Qed.

Lemma frun_snoc fx cf ls a st st' :
  frun fx cf st (ls ++ [a]) = Some st' <->
  exists st1, frun fx cf st ls = Some st1 /\ fstep fx cf st1 a = Some st'.
Proof.
  rewrite frun_app. destruct (frun fx cf st ls) as [st1|]; cbn [frun].
  - split.
    + intros H. exists st1. split; [reflexivity|]. destruct (fstep fx cf st1 a); [exact H|discriminate].
    + intros (st2 & E & H). injection E as <-. now rewrite H.
  - split; [discriminate|]. intros (st1 & E & _). discriminate.
Qed.

Definition is_env (a : flab) : bool := match a with FEv _ => true | _ => false end.
Definition env_only (l : list flab) : Prop := forall a, In a l -> is_env a = true.

(* an event of another goroutine: the channel takes the step of Model/IdleHealthSys.v and the
   poller's program counter stays *)
Lemma fstep_env fx cf st e st' : fstep fx cf st (FEv e) = Some st' ->
  f_ch st' = step cf (f_ch st) e /\ f_pc st' = f_pc st /\ e <> ETick.
Proof.
  intros H. destruct e; cbn [fstep] in H; try discriminate;
    try (injection H as <-; cbn [f_ch f_pc]; repeat split; discriminate).
  destruct (holds_lock (f_pc st)); [discriminate|]. injection H as <-. cbn [f_ch f_pc]. repeat split; discriminate.
Qed.

Lemma frun_env_pc fx cf : forall l st st', env_only l -> frun fx cf st l = Some st' -> f_pc st' = f_pc st.
Proof.
  induction l as [|a r IH]; intros st st' Hl H; cbn [frun] in H; [injection H as <-; reflexivity|].
  destruct (fstep fx cf st a) as [st1|] eqn:E; [|discriminate].
  assert (Ha : is_env a = true) by (apply Hl; now left). destruct a; try discriminate.
  apply fstep_env in E as (_ & Hp & _). rewrite <- Hp. apply (IH st1); [|exact H].
  intros x Hx. apply Hl. now right.
Qed.

(* a step of the poller changes the channel only by closing one connection *)
Lemma fstep_sweep_ch fx cf st a st' : is_env a = false -> fstep fx cf st a = Some st' ->
  f_ch st' = f_ch st \/
  exists now id rest c, f_pc st = SClose now id rest /\ lookup id (ch_conns (f_ch st)) = Some c /\
    f_ch st' = {| ch_now := ch_now (f_ch st); ch_conns := update id (conn_close c) (ch_conns (f_ch st)) |}.
Proof.
  intros Ha H. destruct a; try discriminate; cbn [fstep] in H.
  - destruct (f_pc st); try discriminate. destruct (sweep_enabled cf); [|discriminate]. injection H as <-. now left.
  - destruct (f_pc st); try discriminate. injection H as <-. now left.
  - destruct (f_pc st); try discriminate. destruct (mem_id id todo); [|discriminate].
    destruct (lookup id (ch_conns (f_ch st))); injection H as <-; now left.
  - destruct (f_pc st) as [|now|now todo acc|now cands|now id rest|now id rest|now id rest|now id rest|now id rest];
      try discriminate.
    + destruct todo; [|discriminate]. injection H as <-. now left.
    + destruct cands as [|id rest]; [injection H as <-; now left|].
      destruct (lookup id (ch_conns (f_ch st))); [|injection H as <-; now left].
      destruct (negb _); injection H as <-; now left.
    + destruct (lookup id (ch_conns (f_ch st))); [|injection H as <-; now left].
      destruct (_ >? _); injection H as <-; now left.
    + destruct (lookup id (ch_conns (f_ch st))); [|injection H as <-; now left].
      destruct (_ >? _); injection H as <-; now left.
    + destruct (lookup id (ch_conns (f_ch st))); [|injection H as <-; now left].
      destruct (negb _); injection H as <-; now left.
    + destruct (lookup id (ch_conns (f_ch st))); [|injection H as <-; now left].
      destruct (_ && _); injection H as <-; now left.
    + destruct (lookup id (ch_conns (f_ch st))) as [c|] eqn:L; [|injection H as <-; now left].
      injection H as <-. right. exists now, id, rest, c. cbn [f_ch]. auto.
Qed.

Lemma update_lookup id i c l : lookup id (update i c l) =
  if i =? id then match lookup id l with Some _ => Some c | None => None end else lookup id l.
Proof.
  destruct (i =? id) eqn:E.
  - assert (i = id) by lia. subst i. destruct (lookup id l) as [c0|] eqn:L.
    + now apply lookup_update_same with (c0 := c0).
    + induction l as [|[j cj] r IH]; [reflexivity|]. cbn [lookup update] in *.
      destruct (j =? id) eqn:Ej; [discriminate|]. cbn [lookup]. rewrite Ej. now apply IH.
  - apply lookup_update_other. lia.
Qed.

Lemma fstep_wf fx cf st a st' : chan_wf (f_ch st) -> fstep fx cf st a = Some st' -> chan_wf (f_ch st').
Proof.
  intros W H. destruct (is_env a) eqn:Ea.
  - destruct a; try discriminate. apply fstep_env in H as (-> & _ & _). apply wf_step, W.
  - destruct (fstep_sweep_ch fx cf st a st' Ea H) as [->|(now & id & rest & c & _ & L & ->)]; [exact W|].
    destruct W as [Hnd Hall]. split; cbn [ch_conns].
    + rewrite update_keys. exact Hnd.
    + intros i ci Li. rewrite update_lookup in Li. destruct (id =? i) eqn:E.
      * assert (id = i) by lia. subst i. rewrite L in Li. injection Li as <-. apply wf_close. now apply (Hall id).
      * now apply (Hall i).
Qed.

Lemma frun_wf fx cf : forall l st st', chan_wf (f_ch st) -> frun fx cf st l = Some st' -> chan_wf (f_ch st').
Proof.
  induction l as [|a r IH]; intros st st' W H; cbn [frun] in H; [injection H as <-; exact W|].
  destruct (fstep fx cf st a) as [st1|] eqn:E; [|discriminate].
  apply (IH st1); [eapply fstep_wf; eassumption|exact H].
Qed.

Lemma finit_wf t0 : chan_wf (f_ch (finit t0)).
Proof. split; [constructor|]. intros i c L. discriminate. Qed.

(* ---- clock and stamps along every interleaving ----------------------------------------------- *)
Lemma fstep_now fx cf st a st' : fstep fx cf st a = Some st' ->
  ch_now (f_ch st') = clock (ch_now (f_ch st)) (evs_of [a]).
Proof.
  intros H. destruct (is_env a) eqn:Ea.
  - destruct a; try discriminate. apply fstep_env in H as (-> & _ & _). cbn [evs_of].
    apply (now_fold cf [e] (f_ch st)).
  - destruct (fstep_sweep_ch fx cf st a st' Ea H) as [->|(now & id & rest & c & _ & _ & ->)];
      destruct a; try discriminate; reflexivity.
Qed.

Lemma evs_of_app l1 l2 : evs_of (l1 ++ l2) = evs_of l1 ++ evs_of l2.
Proof. induction l1 as [|a r IH]; [reflexivity|]. destruct a; cbn [app evs_of]; rewrite IH; reflexivity. Qed.

Lemma clock_app : forall h1 h2 t, clock t (h1 ++ h2) = clock (clock t h1) h2.
Proof. induction h1 as [|e r IH]; intros h2 t; [reflexivity|]. destruct e; cbn [app clock]; apply IH. Qed.

Lemma frun_now fx cf : forall l st st', frun fx cf st l = Some st' ->
  ch_now (f_ch st') = clock (ch_now (f_ch st)) (evs_of l).
Proof.
  induction l as [|a r IH]; intros st st' H; cbn [frun] in H; [injection H as <-; reflexivity|].
  destruct (fstep fx cf st a) as [st1|] eqn:E; [|discriminate].
  rewrite (IH st1 st' H), (fstep_now fx cf st a st1 E).
  change (a :: r) with ([a] ++ r). rewrite evs_of_app, clock_app. reflexivity.
Qed.

Lemma clock_ok_app : forall h1 h2 t, clock_ok t (h1 ++ h2) <-> clock_ok t h1 /\ clock_ok (clock t h1) h2.
Proof.
  induction h1 as [|e r IH]; intros h2 t; cbn [app clock clock_ok].
  - split; [intros H; split; [|exact H]|tauto]. destruct h2 as [|e2 r2]; cbn [clock_ok] in *; [tauto|].
    destruct e2; tauto.
  - destruct e; rewrite ?IH; tauto.
Qed.

Lemma lca_app id : forall h1 h2 t cur,
  last_call_activity id t cur (h1 ++ h2) = last_call_activity id (clock t h1) (last_call_activity id t cur h1) h2.
Proof. induction h1 as [|e r IH]; intros h2 t cur; [reflexivity|]. destruct e; cbn [app clock last_call_activity]; apply IH. Qed.

Lemma fstep_stamp_rel fx cf id st a st' cur :
  clock_ok (ch_now (f_ch st)) (evs_of [a]) -> stamp_rel id (f_ch st) cur -> fstep fx cf st a = Some st' ->
  stamp_rel id (f_ch st') (last_call_activity id (ch_now (f_ch st)) cur (evs_of [a])).
Proof.
  intros Hc Hr H. destruct (is_env a) eqn:Ea.
  - destruct a; try discriminate. apply fstep_env in H as (-> & _ & _). cbn [evs_of] in *.
    exact (stamp_gen cf id [e] (f_ch st) cur Hc Hr).
  - assert (Hev : evs_of [a] = []) by (destruct a; try discriminate; reflexivity). rewrite Hev. cbn [last_call_activity].
    destruct (fstep_sweep_ch fx cf st a st' Ea H) as [->|(now & i & rest & c & _ & L & ->)]; [exact Hr|].
    apply (stamp_rel_ext id (f_ch st)); [reflexivity| |exact Hr]. cbn [ch_conns].
    rewrite update_lookup. destruct (i =? id) eqn:E; [|reflexivity].
    assert (i = id) by lia. subst i. rewrite L. cbn [option_map]. now rewrite stamps_close.
Qed.

Lemma frun_stamp_rel fx cf id : forall l st st' cur,
  clock_ok (ch_now (f_ch st)) (evs_of l) -> stamp_rel id (f_ch st) cur -> frun fx cf st l = Some st' ->
  stamp_rel id (f_ch st') (last_call_activity id (ch_now (f_ch st)) cur (evs_of l)).
Proof.
  induction l as [|a r IH]; intros st st' cur Hc Hr H; cbn [frun] in H; [injection H as <-; exact Hr|].
  destruct (fstep fx cf st a) as [st1|] eqn:E; [|discriminate].
  change (a :: r) with ([a] ++ r) in *. rewrite evs_of_app in *. apply clock_ok_app in Hc as [Hc1 Hc2].
  rewrite lca_app. rewrite <- (fstep_now fx cf st a st1 E) in *.
  apply (IH st1); [exact Hc2| |exact H]. now apply (fstep_stamp_rel fx cf id st a st1).
Qed.

(* C19_stamp along every interleaving of the sweep's actions with the other events *)
Theorem fine_stamp fx cf t0 ls st id : clock_ok t0 (evs_of ls) ->
  frun fx cf (finit t0) ls = Some st ->
  match lookup id (ch_conns (f_ch st)) with
  | Some c => last_call_activity id t0 None (evs_of ls) = Some (Z.max (k_lr c) (k_lw c))
  | None => last_call_activity id t0 None (evs_of ls) = None
  end.
Proof.
  intros Hc H. pose proof (frun_stamp_rel fx cf id ls (finit t0) st None Hc I H) as R.
  unfold stamp_rel in R. cbn [finit f_ch init_chan ch_now] in R.
  destruct (lookup id (ch_conns (f_ch st))); destruct (last_call_activity id t0 None (evs_of ls)); try tauto.
  destruct R as [-> _]. reflexivity.
Qed.

(* ---- a connection that no other goroutine touches during a sweep ------------------------------ *)
Lemma mem_id_in id l : mem_id id l = true <-> In id l.
Proof. exact (mem_in id l). Qed.

Lemma mem_id_remove_same id l : mem_id id (remove_id id l) = false.
Proof.
  destruct (mem_id id (remove_id id l)) eqn:E; [|reflexivity]. apply mem_id_in in E.
  unfold remove_id in E. apply filter_In in E as [_ E]. rewrite Z.eqb_refl in E. discriminate.
Qed.

Lemma mem_id_remove_other id i l : i <> id -> mem_id id (remove_id i l) = mem_id id l.
Proof.
  intros Hne. destruct (mem_id id l) eqn:E.
  - apply mem_id_in. apply mem_id_in in E. unfold remove_id. apply filter_In. split; [exact E|]. lia.
  - destruct (mem_id id (remove_id i l)) eqn:E'; [|reflexivity]. apply mem_id_in in E'.
    unfold remove_id in E'. apply filter_In in E' as [E' _]. apply mem_id_in in E'. congruence.
Qed.

Lemma mem_id_snoc id i l : mem_id id (l ++ [i]) = mem_id id l || (id =? i).
Proof. unfold mem_id. rewrite existsb_app. cbn [existsb]. now rewrite orb_false_r. Qed.

Lemma mem_id_cons id i l : mem_id id (i :: l) = (id =? i) || mem_id id l.
Proof. reflexivity. Qed.

Lemma tracked_ids_mem s id c : NoDup (map fst (ch_conns s)) -> lookup id (ch_conns s) = Some c ->
  mem_id id (tracked_ids s) = k_tracked c.
Proof. intros Hnd L. unfold tracked_ids, mem_id. exact (filter_keys_mem _ id _ c Hnd L). Qed.

Definition sweep_result (now mi : Z) (c : conn) : conn :=
  if k_tracked c && idle_candidate now mi c then close_if_ok c else c.

(* the facts the poller has established about connection id when it is at (i, rest) of the second loop *)
Definition q_at (id : Z) (c : conn) (now0 mi : Z) (cur : option conn) (i : Z) (rest : list Z) (extra : Prop) : Prop :=
  let cand := k_tracked c && idle_candidate now0 mi c in
  if i =? id then cur = Some c /\ cand = true /\ is_active c = true /\ extra
  else if mem_id id rest then cur = Some c /\ cand = true else cur = Some (sweep_result now0 mi c).

Definition qinv (id : Z) (c : conn) (now0 mi : Z) (st : fstate) : Prop :=
  let cur := lookup id (ch_conns (f_ch st)) in
  let cand := k_tracked c && idle_candidate now0 mi c in
  chan_wf (f_ch st) /\
  match f_pc st with
  | SIdle => cur = Some (sweep_result now0 mi c)
  | SStart now => now = now0 /\ cur = Some c
  | SCollect now todo acc =>
      now = now0 /\ cur = Some c /\ NoDup acc /\ (forall x, In x acc -> ~ In x todo) /\
      (if mem_id id todo then k_tracked c = true else mem_id id acc = cand)
  | SLoop2 now cands =>
      now = now0 /\ NoDup cands /\
      (if mem_id id cands then cur = Some c /\ cand = true else cur = Some (sweep_result now0 mi c))
  | SInb now i rest => now = now0 /\ NoDup (i :: rest) /\ q_at id c now0 mi cur i rest True
  | SOutb now i rest => now = now0 /\ NoDup (i :: rest) /\ q_at id c now0 mi cur i rest ((k_inb c >? 0) = false)
  | SRelay now i rest => now = now0 /\ NoDup (i :: rest) /\
      q_at id c now0 mi cur i rest ((k_inb c >? 0) = false /\ (k_outb c >? 0) = false)
  | SRecheck now i rest => now = now0 /\ NoDup (i :: rest) /\
      q_at id c now0 mi cur i rest ((k_inb c >? 0) = false /\ (k_outb c >? 0) = false /\ relay_can_close c = true)
  | SClose now i rest => now = now0 /\ NoDup (i :: rest) /\
      q_at id c now0 mi cur i rest ((k_inb c >? 0) = false /\ (k_outb c >? 0) = false /\ relay_can_close c = true)
  end.

(* leaving (i, rest) for the rest of the second loop *)
Lemma q_next id c now0 mi cur i rest extra :
  NoDup (i :: rest) -> q_at id c now0 mi cur i rest extra ->
  (i = id -> cur = Some (sweep_result now0 mi c)) ->
  if mem_id id rest then cur = Some c /\ k_tracked c && idle_candidate now0 mi c = true
  else cur = Some (sweep_result now0 mi c).
Proof.
  intros Hnd Hq Hdone. unfold q_at in Hq. destruct (i =? id) eqn:E.
  - assert (i = id) by lia. subst i. inversion Hnd as [|? ? Hni _]; subst.
    destruct (mem_id id rest) eqn:M; [apply mem_id_in in M; contradiction|]. now apply Hdone.
  - exact Hq.
Qed.

Lemma q_other id c now0 mi cur i rest extra extra' :
  i <> id -> q_at id c now0 mi cur i rest extra -> q_at id c now0 mi cur i rest extra'.
Proof. intros Hne. unfold q_at. destruct (i =? id) eqn:E; [lia|auto]. Qed.

Lemma close_if_ok_inactive c : is_active c = false -> close_if_ok c = c.
Proof. intros H. unfold close_if_ok. now rewrite H. Qed.
Lemma close_if_ok_pending c : has_pending_calls c = true -> close_if_ok c = c.
Proof. intros H. unfold close_if_ok. rewrite H. destruct (negb _); reflexivity. Qed.
Lemma close_if_ok_close c : is_active c = true -> (k_inb c >? 0) = false -> (k_outb c >? 0) = false ->
  relay_can_close c = true -> close_if_ok c = conn_close c.
Proof. intros H1 H2 H3 H4. unfold close_if_ok, has_pending_calls. now rewrite H1, H2, H3, H4. Qed.

Lemma env_untouched cf s e id : ev_conn e <> Some id -> e <> ETick ->
  lookup id (ch_conns (step cf s e)) = lookup id (ch_conns s).
Proof.
  intros Hc Ht. destruct e; cbn [ev_conn] in Hc; cbn [step]; try reflexivity;
    try (rewrite on_conn_lookup; destruct (_ =? id) eqn:E; [exfalso; apply Hc; f_equal; lia|reflexivity]).
  - destruct (lookup id0 (ch_conns s)) eqn:L; [reflexivity|]. cbn [ch_conns]. apply lookup_app_other.
    intros ->. now apply Hc.
  - now contradiction Ht.
Qed.

Lemma qinv_step fx cf id c now0 st a st' :
  let mi := cf_max_idle cf in
  a <> FBegin -> (forall e, a = FEv e -> ev_conn e <> Some id) ->
  qinv id c now0 mi st -> fstep fx cf st a = Some st' ->
  qinv id c now0 mi st'.
Proof.
  intros mi Hnb Hq [W I] H. subst mi. split; [eapply fstep_wf; eassumption|].
  destruct a as [e| | |i|].
  - (* another goroutine, not on id *)
    apply fstep_env in H as (Hch & Hpc & Ht). rewrite Hpc, Hch.
    rewrite (env_untouched cf (f_ch st) e id (Hq e eq_refl) Ht). exact I.
  - contradiction.
  - (* lock *)
    cbn [fstep] in H. destruct (f_pc st) eqn:P; try discriminate. injection H as <-. cbn [f_pc f_ch].
    destruct I as [-> L]. split; [reflexivity|]. split; [exact L|]. split; [constructor|]. split; [intros x []|].
    destruct W as [Hnd _]. rewrite (tracked_ids_mem _ id c Hnd L).
    destruct (k_tracked c); reflexivity.
  - (* look *)
    cbn [fstep] in H. destruct (f_pc st) as [| |now todo acc| | | | | |] eqn:P; try discriminate.
    destruct (mem_id i todo) eqn:Mi; [|discriminate]. destruct I as (-> & L & Hnd & Hdis & Hm).
    assert (Hni : ~ In i acc). { intros Hin. apply (Hdis i Hin). now apply mem_id_in. }
    assert (Hdis' : forall acc', (forall x, In x acc' -> In x acc \/ x = i) -> forall x, In x acc' -> ~ In x (remove_id i todo)).
    { intros acc' Hsub x Hx Hr. unfold remove_id in Hr. apply filter_In in Hr as [Hr1 Hr2].
      destruct (Hsub x Hx) as [Hx'|Hxi]; [exact (Hdis x Hx' Hr1)|]. subst x. rewrite Z.eqb_refl in Hr2. discriminate. }
    destruct (Z.eq_dec i id) as [->|Hne].
    + rewrite L in H. rewrite Mi in Hm. injection H as <-. cbn [f_pc f_ch].
      split; [reflexivity|]. split; [exact L|]. rewrite gen_fine_idle. rewrite mem_id_remove_same.
      destruct (idle_candidate now0 (cf_max_idle cf) c) eqn:Ei.
      * split; [apply NoDup_app_one; assumption|]. split; [apply Hdis'; intros x Hx; apply in_app_iff in Hx as [Hx|[->|[]]]; auto|].
        rewrite mem_id_snoc, Z.eqb_refl, orb_true_r, Hm. reflexivity.
      * split; [exact Hnd|]. split; [apply Hdis'; auto|]. rewrite Hm. cbn [andb].
        destruct (mem_id id acc) eqn:E; [apply mem_id_in in E; contradiction|reflexivity].
    + assert (Hm' : forall acc', mem_id id acc' = mem_id id acc ->
                if mem_id id (remove_id i todo) then k_tracked c = true
                else mem_id id acc' = k_tracked c && idle_candidate now0 (cf_max_idle cf) c).
      { intros acc' Ea. rewrite mem_id_remove_other by exact Hne. rewrite Ea. exact Hm. }
      destruct (lookup i (ch_conns (f_ch st))) as [ci|]; injection H as <-; cbn [f_pc f_ch].
      * split; [reflexivity|]. split; [exact L|]. destruct (fine_idle now0 (cf_max_idle cf) ci).
        -- split; [apply NoDup_app_one; assumption|]. split; [apply Hdis'; intros x Hx; apply in_app_iff in Hx as [Hx|[->|[]]]; auto|].
           apply Hm'. rewrite mem_id_snoc. destruct (id =? i) eqn:E; [lia|apply orb_false_r].
        -- split; [exact Hnd|]. split; [apply Hdis'; auto|]. now apply Hm'.
      * split; [reflexivity|]. split; [exact L|]. split; [exact Hnd|]. split; [apply Hdis'; auto|]. now apply Hm'.
  - (* the next action of the poller *)
    cbn [fstep] in H.
    destruct (f_pc st) as [|now|now todo acc|now cands|now i rest|now i rest|now i rest|now i rest|now i rest] eqn:P.
    + discriminate.
    + discriminate.
    + destruct todo; [|discriminate]. injection H as <-. cbn [f_pc f_ch].
      destruct I as (-> & L & Hnd & _ & Hm). cbn [mem_id existsb] in Hm.
      split; [reflexivity|]. split; [exact Hnd|]. rewrite Hm.
      destruct (k_tracked c && idle_candidate now0 (cf_max_idle cf) c) eqn:Ec; [auto|].
      unfold sweep_result. rewrite Ec. exact L.
    + destruct I as (-> & Hnd & Hm). destruct cands as [|i rest].
      * injection H as <-. cbn [f_pc f_ch]. exact Hm.
      * assert (Hnd' : NoDup rest) by (inversion Hnd; assumption).
        assert (Hskip : (i = id -> lookup id (ch_conns (f_ch st)) = Some (sweep_result now0 (cf_max_idle cf) c)) ->
                  if mem_id id rest then lookup id (ch_conns (f_ch st)) = Some c /\ k_tracked c && idle_candidate now0 (cf_max_idle cf) c = true
                  else lookup id (ch_conns (f_ch st)) = Some (sweep_result now0 (cf_max_idle cf) c)).
        { intros Hdone. rewrite mem_id_cons in Hm. destruct (id =? i) eqn:E.
          - assert (i = id) by lia. subst i. inversion Hnd as [|? ? Hni _]; subst.
            destruct (mem_id id rest) eqn:M; [apply mem_id_in in M; contradiction|]. now apply Hdone.
          - exact Hm. }
        destruct (lookup i (ch_conns (f_ch st))) as [ci|] eqn:Li.
        -- rewrite gen_is_active in H. destruct (is_active ci) eqn:Ea; cbn [negb] in H; injection H as <-; cbn [f_pc f_ch].
           ++ split; [reflexivity|]. split; [exact Hnd|]. unfold q_at. rewrite mem_id_cons in Hm.
              destruct (i =? id) eqn:E.
              ** assert (i = id) by lia. subst i. rewrite Z.eqb_refl in Hm. destruct Hm as [L Hc].
                 rewrite L in Li. injection Li as <-. auto.
              ** rewrite (Z.eqb_sym id i), E in Hm. exact Hm.
           ++ split; [reflexivity|]. split; [exact Hnd'|]. apply Hskip. intros ->.
              rewrite mem_id_cons, Z.eqb_refl in Hm. destruct Hm as [L Hc]. rewrite L in Li. injection Li as <-.
              unfold sweep_result. rewrite Hc, close_if_ok_inactive by exact Ea. exact L.
        -- injection H as <-. cbn [f_pc f_ch]. split; [reflexivity|]. split; [exact Hnd'|]. apply Hskip. intros ->.
           rewrite mem_id_cons, Z.eqb_refl in Hm. destruct Hm as [L _]. congruence.
    + (* inbound count *)
      destruct I as (-> & Hnd & Hq'). assert (Hnd' : NoDup rest) by (inversion Hnd; assumption).
      destruct (lookup i (ch_conns (f_ch st))) as [ci|] eqn:Li.
      * destruct (k_inb ci >? 0) eqn:Eg; injection H as <-; cbn [f_pc f_ch].
        -- split; [reflexivity|]. split; [exact Hnd'|]. apply (q_next id c now0 (cf_max_idle cf) _ i rest _ Hnd Hq'). intros ->.
           unfold q_at in Hq'. rewrite Z.eqb_refl in Hq'. destruct Hq' as (L & Hc & Ha & _). rewrite L in Li. injection Li as <-.
           unfold sweep_result. rewrite Hc, close_if_ok_pending; [exact L|]. unfold has_pending_calls. now rewrite Eg.
        -- split; [reflexivity|]. split; [exact Hnd|]. unfold q_at in *. destruct (i =? id) eqn:E; [|exact Hq'].
           assert (i = id) by lia. subst i. destruct Hq' as (L & Hc & Ha & _). rewrite L in Li. injection Li as <-. auto.
      * injection H as <-. cbn [f_pc f_ch]. split; [reflexivity|]. split; [exact Hnd'|].
        apply (q_next id c now0 (cf_max_idle cf) _ i rest _ Hnd Hq'). intros ->.
        unfold q_at in Hq'. rewrite Z.eqb_refl in Hq'. destruct Hq' as (L & _). congruence.
    + (* outbound count *)
      destruct I as (-> & Hnd & Hq'). assert (Hnd' : NoDup rest) by (inversion Hnd; assumption).
      destruct (lookup i (ch_conns (f_ch st))) as [ci|] eqn:Li.
      * destruct (k_outb ci >? 0) eqn:Eg; injection H as <-; cbn [f_pc f_ch].
        -- split; [reflexivity|]. split; [exact Hnd'|]. apply (q_next id c now0 (cf_max_idle cf) _ i rest _ Hnd Hq'). intros ->.
           unfold q_at in Hq'. rewrite Z.eqb_refl in Hq'. destruct Hq' as (L & Hc & Ha & _). rewrite L in Li. injection Li as <-.
           unfold sweep_result. rewrite Hc, close_if_ok_pending; [exact L|]. unfold has_pending_calls. rewrite Eg, orb_true_r. reflexivity.
        -- split; [reflexivity|]. split; [exact Hnd|]. unfold q_at in *. destruct (i =? id) eqn:E; [|exact Hq'].
           assert (i = id) by lia. subst i. destruct Hq' as (L & Hc & Ha & Hi). rewrite L in Li. injection Li as <-. auto.
      * injection H as <-. cbn [f_pc f_ch]. split; [reflexivity|]. split; [exact Hnd'|].
        apply (q_next id c now0 (cf_max_idle cf) _ i rest _ Hnd Hq'). intros ->.
        unfold q_at in Hq'. rewrite Z.eqb_refl in Hq'. destruct Hq' as (L & _). congruence.
    + (* relay *)
      destruct I as (-> & Hnd & Hq'). assert (Hnd' : NoDup rest) by (inversion Hnd; assumption).
      destruct (lookup i (ch_conns (f_ch st))) as [ci|] eqn:Li.
      * rewrite gen_relay_can_close in H. destruct (relay_can_close ci) eqn:Eg; cbn [negb] in H; injection H as <-; cbn [f_pc f_ch].
        -- split; [reflexivity|]. split; [exact Hnd|]. unfold q_at in *. destruct (i =? id) eqn:E; [|exact Hq'].
           assert (i = id) by lia. subst i. destruct Hq' as (L & Hc & Ha & Hi & Ho). rewrite L in Li. injection Li as <-. repeat split; assumption.
        -- split; [reflexivity|]. split; [exact Hnd'|]. apply (q_next id c now0 (cf_max_idle cf) _ i rest _ Hnd Hq'). intros ->.
           unfold q_at in Hq'. rewrite Z.eqb_refl in Hq'. destruct Hq' as (L & Hc & Ha & Hi & Ho). rewrite L in Li. injection Li as <-.
           unfold sweep_result. rewrite Hc, close_if_ok_pending; [exact L|]. unfold has_pending_calls. now rewrite Hi, Ho, Eg.
      * injection H as <-. cbn [f_pc f_ch]. split; [reflexivity|]. split; [exact Hnd'|].
        apply (q_next id c now0 (cf_max_idle cf) _ i rest _ Hnd Hq'). intros ->.
        unfold q_at in Hq'. rewrite Z.eqb_refl in Hq'. destruct Hq' as (L & _). congruence.
    + (* re-check *)
      destruct I as (-> & Hnd & Hq'). assert (Hnd' : NoDup rest) by (inversion Hnd; assumption).
      destruct (lookup i (ch_conns (f_ch st))) as [ci|] eqn:Li.
      * rewrite gen_fine_idle in H. destruct (fx && negb (idle_candidate now0 (cf_max_idle cf) ci)) eqn:Eg; injection H as <-; cbn [f_pc f_ch].
        -- split; [reflexivity|]. split; [exact Hnd'|]. apply (q_next id c now0 (cf_max_idle cf) _ i rest _ Hnd Hq'). intros ->. exfalso.
           unfold q_at in Hq'. rewrite Z.eqb_refl in Hq'. destruct Hq' as (L & Hc & _). rewrite L in Li. injection Li as <-.
           apply andb_true_iff in Hc as [_ Hc]. rewrite Hc in Eg. now rewrite andb_false_r in Eg.
        -- split; [reflexivity|]. split; [exact Hnd|]. exact Hq'.
      * injection H as <-. cbn [f_pc f_ch]. split; [reflexivity|]. split; [exact Hnd'|].
        apply (q_next id c now0 (cf_max_idle cf) _ i rest _ Hnd Hq'). intros ->.
        unfold q_at in Hq'. rewrite Z.eqb_refl in Hq'. destruct Hq' as (L & _). congruence.
    + (* close *)
      destruct I as (-> & Hnd & Hq'). assert (Hnd' : NoDup rest) by (inversion Hnd; assumption).
      destruct (lookup i (ch_conns (f_ch st))) as [ci|] eqn:Li.
      * injection H as <-. cbn [f_pc f_ch ch_conns]. split; [reflexivity|]. split; [exact Hnd'|].
        rewrite update_lookup. unfold q_at in Hq'. destruct (i =? id) eqn:E.
        -- assert (i = id) by lia. subst i. inversion Hnd as [|? ? Hni _]; subst.
           destruct (mem_id id rest) eqn:M; [apply mem_id_in in M; contradiction|].
           destruct Hq' as (L & Hc & Ha & Hi & Ho & Hr). rewrite L in Li |- *. injection Li as <-.
           unfold sweep_result. rewrite Hc, close_if_ok_close by assumption. reflexivity.
        -- exact Hq'.
      * injection H as <-. cbn [f_pc f_ch]. split; [reflexivity|]. split; [exact Hnd'|].
        apply (q_next id c now0 (cf_max_idle cf) _ i rest _ Hnd Hq'). intros ->.
        unfold q_at in Hq'. rewrite Z.eqb_refl in Hq'. destruct Hq' as (L & _). congruence.
Qed.

Lemma qinv_run fx cf id c now0 : forall seg st st',
  ~ In FBegin seg -> (forall e, In (FEv e) seg -> ev_conn e <> Some id) ->
  qinv id c now0 (cf_max_idle cf) st -> frun fx cf st seg = Some st' ->
  qinv id c now0 (cf_max_idle cf) st'.
Proof.
  induction seg as [|a r IH]; intros st st' Hnb Hq I H; cbn [frun] in H; [injection H as <-; exact I|].
  destruct (fstep fx cf st a) as [st1|] eqn:E; [|discriminate].
  apply (IH st1); [intros Hin; apply Hnb; now right|intros e He; apply Hq; now right| |exact H].
  apply (qinv_step fx cf id c now0 st a st1); [intros ->; apply Hnb; now left| |exact I|exact E].
  intros e ->. apply Hq. now left.
Qed.

(* One whole sweep, from the tick to the return of checkIdleConnections, interleaved in any way
   with events of other goroutines of which none is on connection id (and with any clock
   advances): connection id ends exactly as the atomic sweep of Model/Idle.v leaves it, so
   C19_sweep_iff holds for it with the clock value the sweep read at its start. *)
Theorem fine_quiescent fx cf st0 seg st id c :
  f_pc st0 = SIdle -> chan_wf (f_ch st0) -> lookup id (ch_conns (f_ch st0)) = Some c ->
  ~ In FBegin seg -> (forall e, In (FEv e) seg -> ev_conn e <> Some id) ->
  frun fx cf st0 (FBegin :: seg) = Some st -> f_pc st = SIdle ->
  lookup id (ch_conns (f_ch st)) = lookup id (ch_conns (sweep (cf_max_idle cf) (f_ch st0))).
Proof.
  intros P0 W L Hnb Hq H P. cbn [frun] in H.
  destruct (fstep fx cf st0 FBegin) as [st1|] eqn:E; [|discriminate].
  cbn [fstep] in E. rewrite P0 in E. destruct (sweep_enabled cf); [|discriminate]. injection E as <-.
  assert (I1 : qinv id c (ch_now (f_ch st0)) (cf_max_idle cf) {| f_ch := f_ch st0; f_pc := SStart (ch_now (f_ch st0)) |}).
  { split; [exact W|]. cbn [f_pc f_ch]. auto. }
  pose proof (qinv_run fx cf id c _ seg _ st Hnb Hq I1 H) as [_ I]. rewrite P in I.
  rewrite I. destruct W as [Hnd _]. rewrite (sweep_lookup _ _ id c Hnd L). reflexivity.
Qed.

(* with no event of another goroutine at all, the fine sweep IS the atomic sweep *)
Corollary fine_atomic_refines fx cf st0 seg st :
  f_pc st0 = SIdle -> chan_wf (f_ch st0) -> ~ In FBegin seg -> (forall e, ~ In (FEv e) seg) ->
  frun fx cf st0 (FBegin :: seg) = Some st -> f_pc st = SIdle ->
  forall id, lookup id (ch_conns (f_ch st)) = lookup id (ch_conns (sweep (cf_max_idle cf) (f_ch st0))).
Proof.
  intros P0 W Hnb Hne H P id.
  destruct (lookup id (ch_conns (f_ch st0))) as [c|] eqn:L.
  - apply (fine_quiescent fx cf st0 seg st id c); auto. intros e He. exfalso. exact (Hne e He).
  - (* a connection that does not exist is not created by a sweep *)
    unfold sweep. cbn [ch_conns]. rewrite sweep_fold_lookup, L.
    assert (Hnone : forall l st1 st2, (forall e, ~ In (FEv e) l) -> lookup id (ch_conns (f_ch st1)) = None ->
              frun fx cf st1 l = Some st2 -> lookup id (ch_conns (f_ch st2)) = None).
    { induction l as [|a r IH]; intros st1 st2 Hl L1 H1; cbn [frun] in H1; [injection H1 as <-; exact L1|].
      destruct (fstep fx cf st1 a) as [st1'|] eqn:E1; [|discriminate].
      apply (IH st1' st2); [intros e He; apply (Hl e); now right| |exact H1].
      assert (Ha : is_env a = false). { destruct a; try reflexivity. exfalso. apply (Hl e). now left. }
      destruct (fstep_sweep_ch fx cf st1 a st1' Ha E1) as [->|(now & i & rest & ci & _ & Li & ->)]; [exact L1|].
      cbn [ch_conns]. rewrite update_lookup. destruct (i =? id); [now rewrite L1|exact L1]. }
    rewrite (Hnone (FBegin :: seg) st0 st); [destruct (mem id _); reflexivity| |exact L|exact H].
    intros e [He|He]; [discriminate|exact (Hne e He)].
Qed.

(* ---- where the program counter of the poller comes from -------------------------------------- *)
Lemma env_only_app l1 l2 : env_only l1 -> env_only l2 -> env_only (l1 ++ l2).
Proof. intros H1 H2 a Ha. apply in_app_iff in Ha as [Ha|Ha]; auto. Qed.

Lemma last_sweep_step fx cf st0 : forall ls st, frun fx cf st0 ls = Some st ->
  (env_only ls /\ f_pc st = f_pc st0) \/
  exists pre a envs st1 st2, ls = pre ++ a :: envs /\ is_env a = false /\ env_only envs /\
     frun fx cf st0 pre = Some st1 /\ fstep fx cf st1 a = Some st2 /\ frun fx cf st2 envs = Some st /\
     f_pc st = f_pc st2.
Proof.
  induction ls as [|b ls IH] using rev_ind; intros st H.
  - cbn [frun] in H. injection H as <-. left. split; [intros a []|reflexivity].
  - apply frun_snoc in H as (st1 & H1 & Hb). destruct (is_env b) eqn:Eb.
    + assert (Hpc : f_pc st = f_pc st1).
      { destruct b; try discriminate. now apply fstep_env in Hb as (_ & Hp & _). }
      assert (Hb1 : env_only [b]). { intros a [<-|[]]. exact Eb. }
      destruct (IH st1 H1) as [[He Hp]|(pre & a & envs & sa & sb & -> & Ha & He & Hpre & Hst & Hen & Hp)].
      * left. split; [apply env_only_app; assumption|congruence].
      * right. exists pre, a, (envs ++ [b]), sa, sb. rewrite <- app_assoc. cbn [app].
        split; [reflexivity|]. split; [exact Ha|]. split; [apply env_only_app; assumption|].
        split; [exact Hpre|]. split; [exact Hst|]. split; [|congruence].
        apply frun_snoc. exists st1. auto.
    + right. exists ls, b, [], st1, st. split; [reflexivity|]. split; [exact Eb|]. split; [intros a []|].
      split; [exact H1|]. split; [exact Hb|]. split; reflexivity.
Qed.

Ltac finv H :=
  cbn [fstep] in H;
  repeat (match type of H with
          | context [match ?x with _ => _ end] => destruct x eqn:?
          end);
  try discriminate H; try (injection H as <-).

(* the step that brought the poller to each of its second-loop positions *)
Lemma to_SClose fx cf st a st' now id rest : is_env a = false ->
  fstep fx cf st a = Some st' -> f_pc st' = SClose now id rest ->
  a = FStep /\ f_pc st = SRecheck now id rest /\ f_ch st' = f_ch st /\
  exists c, lookup id (ch_conns (f_ch st)) = Some c /\ fx && negb (idle_candidate now (cf_max_idle cf) c) = false.
Proof.
  intros Ha H P. destruct a; try discriminate Ha; finv H; cbn [f_pc f_ch] in *; try discriminate P.
  injection P as <- <- <-. split; [reflexivity|]. split; [reflexivity|]. split; [reflexivity|]. eexists. split; [eassumption|assumption].
Qed.

Lemma to_SRecheck fx cf st a st' now id rest : is_env a = false ->
  fstep fx cf st a = Some st' -> f_pc st' = SRecheck now id rest ->
  a = FStep /\ f_pc st = SRelay now id rest /\ f_ch st' = f_ch st /\
  exists c, lookup id (ch_conns (f_ch st)) = Some c /\ relay_can_close c = true.
Proof.
  intros Ha H P. destruct a; try discriminate Ha; finv H; cbn [f_pc f_ch] in *; try discriminate P.
  injection P as <- <- <-. split; [reflexivity|]. split; [reflexivity|]. split; [reflexivity|]. eexists. split; [eassumption|].
  rewrite <- gen_relay_can_close. match goal with E : negb _ = false |- _ => now apply negb_false_iff in E end.
Qed.

Lemma to_SRelay fx cf st a st' now id rest : is_env a = false ->
  fstep fx cf st a = Some st' -> f_pc st' = SRelay now id rest ->
  a = FStep /\ f_pc st = SOutb now id rest /\ f_ch st' = f_ch st /\
  exists c, lookup id (ch_conns (f_ch st)) = Some c /\ (k_outb c >? 0) = false.
Proof.
  intros Ha H P. destruct a; try discriminate Ha; finv H; cbn [f_pc f_ch] in *; try discriminate P.
  injection P as <- <- <-. split; [reflexivity|]. split; [reflexivity|]. split; [reflexivity|]. eexists. split; eassumption.
Qed.

Lemma to_SOutb fx cf st a st' now id rest : is_env a = false ->
  fstep fx cf st a = Some st' -> f_pc st' = SOutb now id rest ->
  a = FStep /\ f_pc st = SInb now id rest /\ f_ch st' = f_ch st /\
  exists c, lookup id (ch_conns (f_ch st)) = Some c /\ (k_inb c >? 0) = false.
Proof.
  intros Ha H P. destruct a; try discriminate Ha; finv H; cbn [f_pc f_ch] in *; try discriminate P.
  injection P as <- <- <-. split; [reflexivity|]. split; [reflexivity|]. split; [reflexivity|]. eexists. split; eassumption.
Qed.

Lemma to_SInb fx cf st a st' now id rest : is_env a = false ->
  fstep fx cf st a = Some st' -> f_pc st' = SInb now id rest ->
  a = FStep /\ f_pc st = SLoop2 now (id :: rest) /\ f_ch st' = f_ch st /\
  exists c, lookup id (ch_conns (f_ch st)) = Some c /\ is_active c = true.
Proof.
  intros Ha H P. destruct a; try discriminate Ha; finv H; cbn [f_pc f_ch] in *; try discriminate P.
  injection P as <- <- <-. split; [reflexivity|]. split; [reflexivity|]. split; [reflexivity|]. eexists. split; [eassumption|].
  rewrite <- gen_is_active. match goal with E : negb _ = false |- _ => now apply negb_false_iff in E end.
Qed.

Lemma back_step fx cf t0 ls st : frun fx cf (finit t0) ls = Some st -> f_pc st <> SIdle ->
  exists pre a envs st1 st2, ls = pre ++ a :: envs /\ is_env a = false /\ env_only envs /\
    frun fx cf (finit t0) pre = Some st1 /\ fstep fx cf st1 a = Some st2 /\ f_pc st2 = f_pc st.
Proof.
  intros H Hp. destruct (last_sweep_step fx cf (finit t0) ls st H) as [[_ E]|(pre & a & envs & s1 & s2 & Hl & Ha & He & H1 & H2 & _ & E)].
  - exfalso. apply Hp. rewrite E. reflexivity.
  - exists pre, a, envs, s1, s2. repeat split; try assumption. symmetry. exact E.
Qed.

(* the clock value a sweep works with is the clock at its FBegin, and no later sweep has begun *)
Definition pc_now (p : spc) : option Z :=
  match p with
  | SIdle => None
  | SStart now | SCollect now _ _ | SLoop2 now _ | SInb now _ _ | SOutb now _ _ | SRelay now _ _
  | SRecheck now _ _ | SClose now _ _ => Some now
  end.

Lemma fstep_pc_now fx cf st a st' now : a <> FBegin -> fstep fx cf st a = Some st' ->
  pc_now (f_pc st') = Some now -> pc_now (f_pc st) = Some now.
Proof.
  intros Hnb H P. destruct a as [e| | |i|].
  - apply fstep_env in H as (_ & Hp & _). congruence.
  - contradiction.
  - finv H; cbn [f_pc pc_now] in *; congruence.
  - finv H; cbn [f_pc pc_now] in *; congruence.
  - finv H; cbn [f_pc pc_now] in *; congruence.
Qed.

Lemma flab_begin_dec (b : flab) : {b = FBegin} + {b <> FBegin}.
Proof. destruct b; [right|left|right|right|right]; try reflexivity; discriminate. Qed.

Lemma now_prov fx cf t0 : forall ls st now, frun fx cf (finit t0) ls = Some st -> pc_now (f_pc st) = Some now ->
  exists pb tl, ls = pb ++ FBegin :: tl /\ ~ In FBegin tl /\ now = clock t0 (evs_of pb).
Proof.
  induction ls as [|b ls IH] using rev_ind; intros st now H P.
  - cbn [frun] in H. injection H as <-. discriminate P.
  - apply frun_snoc in H as (st1 & H1 & Hb).
    destruct (flab_begin_dec b) as [->|Hnb].
    + finv Hb. cbn [f_pc pc_now] in P. injection P as <-.
      exists ls, []. split; [reflexivity|]. split; [intros []|].
      pose proof (frun_now fx cf ls (finit t0) st1 H1) as Hn. exact Hn.
    + assert (P1 : pc_now (f_pc st1) = Some now) by (eapply fstep_pc_now; [exact Hnb|exact Hb|exact P]).
      destruct (IH st1 now H1 P1) as (pb & tl & -> & Hn & Hc).
      exists pb, (tl ++ [b]). rewrite <- app_assoc. cbn [app]. split; [reflexivity|]. split; [|exact Hc].
      intros Hin. apply in_app_iff in Hin as [Hin|[Hin|[]]]; [exact (Hn Hin)|]. apply Hnb. now symmetry.
Qed.

(* "after the interleaving pre, connection id satisfied P" *)
Definition conn_at (fx : bool) (cf : config) (t0 : Z) (pre : list flab) (id : Z) (P : conn -> Prop) : Prop :=
  exists s c, frun fx cf (finit t0) pre = Some s /\ lookup id (ch_conns (f_ch s)) = Some c /\ P c.

(* The weakest correct "only if": when the poller is about to call close on connection id, the
   interleaving so far is
       pb ++ FBegin :: tl ++ FStep :: e1 ++ FStep :: e2 ++ FStep :: e3 ++ FStep :: e4 ++ FStep :: e5
   where no sweep began after pb, e1..e5 are events of other goroutines only, and
     - the sweep's clock value is the clock at pb;
     - just before e1 (IsActive)                the connection was Active;
     - just before e2 (inbound.countCalls)      it had no inbound call;
     - just before e3 (outbound.countCalls)     it had no outbound call;
     - just before e4 (relay.canClose)          it had no relayed call;
     - just before e5 (the re-check, if fx)     it was idle: now - max(stamps) >= MaxIdleTime (saturating). *)
Theorem fine_close_chain fx cf t0 ls st now id rest :
  frun fx cf (finit t0) ls = Some st -> f_pc st = SClose now id rest ->
  exists pb tl e1 e2 e3 e4 e5,
    let p1 := pb ++ FBegin :: tl in
    let p2 := p1 ++ FStep :: e1 in
    let p3 := p2 ++ FStep :: e2 in
    let p4 := p3 ++ FStep :: e3 in
    let p5 := p4 ++ FStep :: e4 in
    ls = p5 ++ FStep :: e5 /\ ~ In FBegin tl /\ now = clock t0 (evs_of pb) /\
    env_only e1 /\ env_only e2 /\ env_only e3 /\ env_only e4 /\ env_only e5 /\
    conn_at fx cf t0 p1 id (fun c => is_active c = true) /\
    conn_at fx cf t0 p2 id (fun c => (k_inb c >? 0) = false) /\
    conn_at fx cf t0 p3 id (fun c => (k_outb c >? 0) = false) /\
    conn_at fx cf t0 p4 id (fun c => relay_can_close c = true) /\
    conn_at fx cf t0 p5 id (fun c => fx = true -> idle_candidate now (cf_max_idle cf) c = true).
Proof.
  intros H P.
  destruct (back_step fx cf t0 ls st H) as (p5 & a5 & e5 & s5 & s5' & -> & A5 & E5 & H5 & F5 & Q5); [rewrite P; discriminate|].
  rewrite P in Q5. destruct (to_SClose fx cf s5 a5 s5' now id rest A5 F5 Q5) as (-> & P5 & _ & c5 & L5 & C5).
  destruct (back_step fx cf t0 p5 s5 H5) as (p4 & a4 & e4 & s4 & s4' & -> & A4 & E4 & H4 & F4 & Q4); [rewrite P5; discriminate|].
  rewrite P5 in Q4. destruct (to_SRecheck fx cf s4 a4 s4' now id rest A4 F4 Q4) as (-> & P4 & _ & c4 & L4 & C4).
  destruct (back_step fx cf t0 p4 s4 H4) as (p3 & a3 & e3 & s3 & s3' & -> & A3 & E3 & H3 & F3 & Q3); [rewrite P4; discriminate|].
  rewrite P4 in Q3. destruct (to_SRelay fx cf s3 a3 s3' now id rest A3 F3 Q3) as (-> & P3 & _ & c3 & L3 & C3).
  destruct (back_step fx cf t0 p3 s3 H3) as (p2 & a2 & e2 & s2 & s2' & -> & A2 & E2 & H2 & F2 & Q2); [rewrite P3; discriminate|].
  rewrite P3 in Q2. destruct (to_SOutb fx cf s2 a2 s2' now id rest A2 F2 Q2) as (-> & P2 & _ & c2 & L2 & C2).
  destruct (back_step fx cf t0 p2 s2 H2) as (p1 & a1 & e1 & s1 & s1' & -> & A1 & E1 & H1 & F1 & Q1); [rewrite P2; discriminate|].
  rewrite P2 in Q1. destruct (to_SInb fx cf s1 a1 s1' now id rest A1 F1 Q1) as (-> & P1 & _ & c1 & L1 & C1).
  destruct (now_prov fx cf t0 p1 s1 now H1) as (pb & tl & -> & Hnb & Hnow); [rewrite P1; reflexivity|].
  exists pb, tl, e1, e2, e3, e4, e5. cbv zeta.
  split; [reflexivity|]. split; [exact Hnb|]. split; [exact Hnow|].
  repeat (split; [assumption|]).
  split; [exists s1, c1; auto|]. split; [exists s2, c2; auto|]. split; [exists s3, c3; auto|]. split; [exists s4, c4; auto|].
  exists s5, c5. split; [exact H5|]. split; [exact L5|]. intros ->. cbn [andb] in C5. now apply negb_false_iff in C5.
Qed.

Lemma idle_candidate_ge now mi c : min_duration < mi <= max_duration ->
  idle_candidate now mi c = true -> now - Z.max (k_lr c) (k_lw c) >= mi.
Proof.
  intros Hmi H. unfold idle_candidate in H. rewrite time_sub_ge in H by exact Hmi. unfold last_activity in H.
  destruct (k_lr c <? k_lw c) eqn:E; lia.
Qed.

(* the same in terms of the history: with the re-check (fx = true), when the poller is about to
   close connection id there was no call frame on it between (start of the sweep - MaxIdleTime)
   and the instant of the re-check -- frames that arrived DURING the sweep included *)
Theorem fine_close_history cf t0 ls st now id rest :
  clock_ok t0 (evs_of ls) -> min_duration < cf_max_idle cf <= max_duration ->
  frun true cf (finit t0) ls = Some st -> f_pc st = SClose now id rest ->
  exists pb mid e5,
    ls = pb ++ FBegin :: mid ++ FStep :: e5 /\ ~ In FBegin mid /\ env_only e5 /\
    now = clock t0 (evs_of pb) /\
    exists la, last_call_activity id t0 None (evs_of (pb ++ FBegin :: mid)) = Some la /\ now - la >= cf_max_idle cf.
Proof.
  intros Hc Hmi H P.
  destruct (fine_close_chain true cf t0 ls st now id rest H P)
    as (pb & tl & e1 & e2 & e3 & e4 & e5 & Hls & Hnb & Hnow & E1 & E2 & E3 & E4 & E5 & _ & _ & _ & _ & (s5 & c5 & H5 & L5 & C5)).
  cbv zeta in *.
  set (mid := tl ++ FStep :: e1 ++ FStep :: e2 ++ FStep :: e3 ++ FStep :: e4).
  assert (Hp5 : (((pb ++ FBegin :: tl) ++ FStep :: e1) ++ FStep :: e2) ++ FStep :: e3 ++ FStep :: e4 = pb ++ FBegin :: mid).
  { unfold mid. repeat (rewrite <- app_assoc; cbn [app]). reflexivity. }
  assert (Hp5' : ((((pb ++ FBegin :: tl) ++ FStep :: e1) ++ FStep :: e2) ++ FStep :: e3) ++ FStep :: e4 = pb ++ FBegin :: mid).
  { unfold mid. repeat (rewrite <- app_assoc; cbn [app]). reflexivity. }
  rewrite Hp5' in *.
  exists pb, mid, e5. split; [rewrite Hls, <- app_assoc; reflexivity|]. split.
  { assert (Hne : forall e, env_only e -> ~ In FBegin e).
    { intros e He Hin. specialize (He _ Hin). discriminate He. }
    pose proof (Hne _ E1) as N1. pose proof (Hne _ E2) as N2. pose proof (Hne _ E3) as N3. pose proof (Hne _ E4) as N4.
    unfold mid. intros Hin. repeat (rewrite in_app_iff in Hin; cbn [In] in Hin).
    intuition discriminate. }
  split; [exact E5|]. split; [exact Hnow|].
  assert (Hc5 : clock_ok t0 (evs_of (pb ++ FBegin :: mid))).
  { rewrite Hls, evs_of_app in Hc. apply clock_ok_app in Hc as [Hc _]. exact Hc. }
  pose proof (fine_stamp true cf t0 _ s5 id Hc5 H5) as Hst. rewrite L5 in Hst.
  exists (Z.max (k_lr c5) (k_lw c5)). split; [exact Hst|]. apply idle_candidate_ge; [exact Hmi|]. now apply C5.
Qed.

(* ---- without the re-check the "only if" fails at every instant of the sweep -------------------- *)
Definition should_close_b (now mi : Z) (c : conn) : bool :=
  k_tracked c && (k_state c =? c_connectionActive) && (k_inb c =? 0) && (k_outb c =? 0) &&
  (match k_relay c with None => true | Some n => n =? 0 end) && (now - Z.max (k_lr c) (k_lw c) >=? mi).

Lemma should_close_b_spec now mi c : should_close_b now mi c = true <-> should_close now mi c.
Proof.
  unfold should_close_b, should_close, relay_idle, c_connectionActive.
  destruct (k_relay c) as [n|]; destruct (k_tracked c); cbn [andb]; split; intros H; try discriminate; try lia;
    try (destruct H as [H0 _]; discriminate H0).
Qed.

(* an outbound call is in flight on an otherwise idle connection when the sweep collects it;
   its response arrives between the two loops; the sweep closes the connection *)
Definition refute_cf : config :=
  {| cf_idle_interval := 30; cf_max_idle := 180;
     cf_health := ho_with_defaults {| ho_interval := 0; ho_timeout := 0; ho_failures := 0 |} |}.
Definition refute_pre : list flab :=
  [FEv (ENewConn 0 false); FEv (EPend 0 1 1); FEv (EWrite 0 3); FEv (EAdvance 200)].
Definition refute_sweep : list flab :=
  [FLock; FLook 0; FStep; FEv (ERead 0 4); FEv (EPend 0 1 (-1)); FStep; FStep; FStep; FStep; FStep; FStep; FStep].

Definition conn_sat (fx : bool) (cf : config) (t0 : Z) (ls : list flab) (id : Z) (p : conn -> bool) : bool :=
  match frun fx cf (finit t0) ls with
  | Some s => match lookup id (ch_conns (f_ch s)) with Some c => p c | None => false end
  | None => false
  end.

Theorem fine_unpatched_refuted :
  let ls := refute_pre ++ FBegin :: refute_sweep in
  clock_ok 0 (evs_of ls) /\
  (* the sweep ran to completion and closed connection 0, which was Active when it began *)
  conn_sat false refute_cf 0 refute_pre 0 is_active = true /\
  conn_sat false refute_cf 0 ls 0 (fun c => negb (is_active c)) = true /\
  (exists st, frun false refute_cf (finit 0) ls = Some st /\ f_pc st = SIdle) /\
  (* ... although at no instant from its begin to its end the condition of the statement held *)
  forall k s c, (k <= length refute_sweep)%nat ->
    frun false refute_cf (finit 0) (refute_pre ++ FBegin :: firstn k refute_sweep) = Some s ->
    lookup 0 (ch_conns (f_ch s)) = Some c ->
    ~ should_close (clock 0 (evs_of refute_pre)) (cf_max_idle refute_cf) c.
Proof.
  cbv zeta. split; [vm_compute; repeat split; discriminate|]. split; [vm_compute; reflexivity|].
  split; [vm_compute; reflexivity|]. split; [eexists; split; vm_compute; reflexivity|].
  assert (Hall : forallb (fun k => conn_sat false refute_cf 0 (refute_pre ++ FBegin :: firstn k refute_sweep) 0
                            (fun c => negb (should_close_b (clock 0 (evs_of refute_pre)) (cf_max_idle refute_cf) c)))
                   (seq 0 (S (length refute_sweep))) = true) by (vm_compute; reflexivity).
  intros k s c Hk H L Hs. rewrite forallb_forall in Hall.
  assert (Hin : In k (seq 0 (S (length refute_sweep)))) by (apply in_seq; lia).
  specialize (Hall k Hin). unfold conn_sat in Hall. rewrite H, L in Hall.
  apply should_close_b_spec in Hs. rewrite Hs in Hall. discriminate.
Qed.

(* with the re-check the same interleaving leaves the connection open *)
Lemma fine_patched_example :
  let ls := refute_pre ++ FBegin :: [FLock; FLook 0; FStep; FEv (ERead 0 4); FEv (EPend 0 1 (-1)); FStep; FStep; FStep; FStep; FStep; FStep] in
  conn_sat true refute_cf 0 ls 0 is_active = true /\
  exists st, frun true refute_cf (finit 0) ls = Some st /\ f_pc st = SIdle.
Proof. cbv zeta. split; [vm_compute; reflexivity|]. eexists. split; vm_compute; reflexivity. Qed.

(* ---- one instant at which the whole condition of the statement holds ---------------------------- *)
(* Active is never re-entered; the pending counters of a connection grow only when a call starts *)
Definition act_mono (c c' : conn) : Prop := is_active c' = true -> is_active c = true.
Definition cnt_le (c c' : conn) : Prop :=
  k_inb c' <= k_inb c /\ k_outb c' <= k_outb c /\
  match k_relay c, k_relay c' with
  | None, None => True
  | Some n, Some n' => n' <= n
  | _, _ => False
  end.
Definition cmono (c c' : conn) : Prop := act_mono c c' /\ cnt_le c c'.

Lemma cmono_refl c : cmono c c.
Proof. split; [intros H; exact H|]. unfold cnt_le. destruct (k_relay c); lia. Qed.

Lemma cmono_trans c1 c2 c3 : cmono c1 c2 -> cmono c2 c3 -> cmono c1 c3.
Proof.
  intros [A1 (I1 & O1 & R1)] [A2 (I2 & O2 & R2)]. split; [intros H; auto|]. unfold cnt_le in *.
  split; [lia|]. split; [lia|].
  destruct (k_relay c1), (k_relay c2), (k_relay c3); try contradiction; try exact I; lia.
Qed.

Lemma cmono_same c c' : (is_active c' = true -> is_active c = true) ->
  k_inb c' = k_inb c -> k_outb c' = k_outb c -> k_relay c' = k_relay c -> cmono c c'.
Proof. intros A I O R. split; [exact A|]. unfold cnt_le. rewrite I, O, R. destruct (k_relay c); lia. Qed.

Lemma cmono_check c : cmono c (check_exchanges c).
Proof.
  apply cmono_same; try (unfold check_exchanges; destruct (_ && _); reflexivity).
  unfold is_active, check_exchanges. intros H.
  assert (Hs : check_exchanges_state c = c_connectionActive).
  { destruct (_ && _) in H; cbn [set_tracked_h set_state k_state] in H; lia. }
  destruct (k_state c =? c_connectionActive) eqn:E; [reflexivity|]. exfalso. apply (ces_not_active c); [lia|exact Hs].
Qed.

Lemma cmono_close c : cmono c (conn_close c).
Proof.
  unfold conn_close. destruct (k_state c =? c_connectionActive) eqn:E; [|apply cmono_refl].
  eapply cmono_trans; [|apply cmono_check].
  apply cmono_same; try reflexivity. intros _. unfold is_active. exact E.
Qed.

Lemma cmono_pings p c : cmono c (set_counts (k_inb c) (k_outb c) p (k_relay c) c).
Proof. apply cmono_same; try reflexivity. intros H; exact H. Qed.

Lemma cmono_set_health hs l c : cmono c (set_health hs l c).
Proof. apply cmono_same; try reflexivity. intros H; exact H. Qed.

Lemma cmono_error c : cmono c (conn_error c).
Proof.
  unfold conn_error. eapply cmono_trans; [apply cmono_close|]. eapply cmono_trans; [|apply cmono_check].
  apply cmono_same; try reflexivity. intros H; exact H.
Qed.

Lemma cmono_after_ping F o c : cmono c (after_ping F o c).
Proof.
  unfold after_ping. destruct (health_iter F o (k_health c)) as [l closed].
  set (c1 := set_health (if hl_running l then 1 else 3) l c).
  assert (H1 : cmono c c1) by apply cmono_set_health.
  assert (H2 : cmono c (if closed then conn_close c1 else c1)).
  { destruct closed; [eapply cmono_trans; [exact H1|apply cmono_close]|exact H1]. }
  destruct (_ =? _); [eapply cmono_trans; [exact H2|apply cmono_set_health]|exact H2].
Qed.

Lemma cmono_ping_start F sent c : cmono c (ping_start F sent c).
Proof.
  unfold ping_start. destruct (negb _); [apply cmono_refl|]. destruct sent.
  - eapply cmono_trans; [apply cmono_pings|apply cmono_set_health].
  - cbv zeta. eapply cmono_trans; [|apply cmono_set_health]. eapply cmono_trans; [|apply cmono_after_ping].
    eapply cmono_trans; [|apply cmono_check]. eapply cmono_trans; [|apply cmono_pings].
    eapply cmono_trans; [apply cmono_pings|apply cmono_error].
Qed.

Lemma cmono_ping_end F o c : cmono c (ping_end F o c).
Proof.
  unfold ping_end. destruct (negb _); [apply cmono_refl|]. cbv zeta.
  eapply cmono_trans; [|apply cmono_after_ping]. eapply cmono_trans; [apply cmono_pings|apply cmono_check].
Qed.

Lemma cmono_stamps lr lw c : cmono c (set_stamps lr lw c).
Proof. apply cmono_same; try reflexivity. intros H; exact H. Qed.

Lemma cmono_pend w d c : (d >? 0) = false -> cmono c (pend w d c).
Proof.
  intros Hd. unfold pend. rewrite Hd.
  assert (Hdec : forall a b r, a <= k_inb c -> b <= k_outb c ->
            match k_relay c, r with None, None => True | Some n, Some n' => n' <= n | _, _ => False end ->
            cmono c (check_exchanges (set_counts a b (k_pings c) r c))).
  { intros a b r Ha Hb Hr. eapply cmono_trans; [|apply cmono_check]. split; [intros H; exact H|].
    unfold cnt_le. cbn [set_counts k_inb k_outb k_relay]. auto. }
  destruct (w =? 0).
  - destruct (k_inb c <=? 0); [apply cmono_refl|]. apply Hdec; try lia. destruct (k_relay c); [lia|exact I].
  - destruct (w =? 1).
    + destruct (k_outb c <=? 0); [apply cmono_refl|]. apply Hdec; try lia. destruct (k_relay c); [lia|exact I].
    + destruct (k_relay c) as [n|] eqn:R; [|apply cmono_refl].
      destruct (n <=? 0); [apply cmono_refl|]. apply Hdec; lia.
Qed.

Definition call_start_on (id : Z) (a : flab) : bool :=
  match a with FEv (EPend i _ d) => (i =? id) && (d >? 0) | _ => false end.

Lemma fstep_cmono fx cf st a st' id c : call_start_on id a = false ->
  fstep fx cf st a = Some st' -> lookup id (ch_conns (f_ch st)) = Some c ->
  exists c', lookup id (ch_conns (f_ch st')) = Some c' /\ cmono c c'.
Proof.
  intros Hs H L. destruct (is_env a) eqn:Ea.
  - destruct a as [e| | | |]; try discriminate. apply fstep_env in H as (-> & _ & Hnt).
    assert (Hon : forall i f, (i = id -> forall x, cmono x (f x)) ->
              exists c', lookup id (ch_conns (on_conn i f (f_ch st))) = Some c' /\ cmono c c').
    { intros i f Hf. rewrite on_conn_lookup, L. destruct (i =? id) eqn:E; cbn [option_map].
      - eexists. split; [reflexivity|]. apply Hf. lia.
      - exists c. split; [reflexivity|apply cmono_refl]. }
    destruct e as [dt|i rl|i mt|i mt|i w d|i| |i sent|i o]; cbn [step].
    + exists c. split; [exact L|apply cmono_refl].
    + exists c. split; [|apply cmono_refl]. destruct (lookup i (ch_conns (f_ch st))) eqn:Li; [exact L|].
      cbn [ch_conns]. rewrite lookup_app_other; [exact L|]. intros ->. congruence.
    + apply Hon. intros _ x. unfold update_read. destruct (isMessageTypeCall mt); [apply cmono_stamps|apply cmono_refl].
    + apply Hon. intros _ x. unfold update_write. destruct (isMessageTypeCall mt); [apply cmono_stamps|apply cmono_refl].
    + apply Hon. intros -> x. apply cmono_pend. cbn [call_start_on] in Hs. rewrite Z.eqb_refl in Hs. exact Hs.
    + apply Hon. intros _ x. apply cmono_close.
    + exfalso. apply Hnt. reflexivity.
    + apply Hon. intros _ x. apply cmono_ping_start.
    + apply Hon. intros _ x. apply cmono_ping_end.
  - destruct (fstep_sweep_ch fx cf st a st' Ea H) as [->|(now & i & rest & ci & _ & Li & ->)].
    + exists c. split; [exact L|apply cmono_refl].
    + cbn [ch_conns]. rewrite update_lookup, L. destruct (i =? id) eqn:E.
      * assert (i = id) by lia. subst i. rewrite L in Li. injection Li as <-. eexists. split; [reflexivity|apply cmono_close].
      * exists c. split; [reflexivity|apply cmono_refl].
Qed.

Lemma frun_cmono fx cf id : forall l st st' c,
  (forall a, In a l -> call_start_on id a = false) ->
  frun fx cf st l = Some st' -> lookup id (ch_conns (f_ch st)) = Some c ->
  exists c', lookup id (ch_conns (f_ch st')) = Some c' /\ cmono c c'.
Proof.
  induction l as [|a r IH]; intros st st' c Hl H L; cbn [frun] in H.
  - injection H as <-. exists c. split; [exact L|apply cmono_refl].
  - destruct (fstep fx cf st a) as [st1|] eqn:E; [|discriminate].
    destruct (fstep_cmono fx cf st a st1 id c (Hl a (or_introl eq_refl)) E L) as (c1 & L1 & M1).
    destruct (IH st1 st' c1 (fun x Hx => Hl x (or_intror Hx)) H L1) as (c' & L' & M').
    exists c'. split; [exact L'|eapply cmono_trans; eassumption].
Qed.

(* Active at the end => Active all along (no proviso) *)
Lemma fstep_act_mono fx cf st a st' id c c' :
  fstep fx cf st a = Some st' -> lookup id (ch_conns (f_ch st)) = Some c ->
  lookup id (ch_conns (f_ch st')) = Some c' -> is_active c' = true -> is_active c = true.
Proof.
  intros H L L' A. destruct (call_start_on id a) eqn:Es.
  - (* a call start: counters change, the state does not *)
    destruct a as [e| | | |]; try discriminate Es. destruct e; try discriminate Es.
    apply fstep_env in H as (Hch & _ & _). rewrite Hch in L'. cbn [step] in L'. rewrite on_conn_lookup, L in L'.
    destruct (id0 =? id); cbn [option_map] in L'; injection L' as <-; [|exact A].
    revert A. unfold pend.
    repeat match goal with
    | |- is_active (if ?b then _ else _) = true -> _ => destruct b
    | |- is_active (match ?x with Some _ => _ | None => _ end) = true -> _ => destruct x
    | |- is_active c = true -> _ => intros A; exact A
    | |- is_active (set_counts _ _ _ _ c) = true -> _ => intros A; exact A
    | |- is_active (check_exchanges ?x) = true -> _ => intros A; apply (proj1 (cmono_check x)) in A; exact A
    end.
  - destruct (fstep_cmono fx cf st a st' id c Es H L) as (c1 & L1 & [M _]). rewrite L' in L1. injection L1 as <-. now apply M.
Qed.

Lemma frun_act_mono fx cf id : forall l st st' c c',
  frun fx cf st l = Some st' -> lookup id (ch_conns (f_ch st)) = Some c ->
  lookup id (ch_conns (f_ch st')) = Some c' -> is_active c' = true -> is_active c = true.
Proof.
  induction l as [|a r IH]; intros st st' c c' H L L' A; cbn [frun] in H.
  - injection H as <-. rewrite L in L'. injection L' as <-. exact A.
  - destruct (fstep fx cf st a) as [st1|] eqn:E; [|discriminate].
    destruct (lookup id (ch_conns (f_ch st1))) as [c1|] eqn:L1.
    + apply (fstep_act_mono fx cf st a st1 id c c1 E L L1). apply (IH st1 st' c1 c' H L1 L' A).
    + exfalso. destruct (call_start_on id a) eqn:Es.
      * destruct a as [e| | | |]; try discriminate Es. destruct e; try discriminate Es.
        apply fstep_env in E as (Hch & _ & _). rewrite Hch in L1. cbn [step] in L1. rewrite on_conn_lookup, L in L1.
        destruct (_ =? id); discriminate L1.
      * destruct (fstep_cmono fx cf st a st1 id c Es E L) as (c1 & L1' & _). congruence.
Qed.

(* The statement's condition in full at ONE instant of the sweep: with the re-check, if the
   poller closes connection id (it is about to call close and the connection is still Active)
   and no call started on id between the poller's read of the inbound count and its re-check,
   then at the instant of the re-check the connection was tracked, Active, without pending
   inbound / outbound / relayed call, and now - max(stamps) >= MaxIdleTime for the clock value
   the sweep started with. *)
Theorem fine_close_instant cf t0 ls st now id rest c :
  min_duration < cf_max_idle cf <= max_duration ->
  frun true cf (finit t0) ls = Some st -> f_pc st = SClose now id rest ->
  lookup id (ch_conns (f_ch st)) = Some c -> is_active c = true ->
  exists pb tl e1 e2 e3 e4 e5,
    let p2 := (pb ++ FBegin :: tl ++ FStep :: e1) in
    let p5 := p2 ++ FStep :: e2 ++ FStep :: e3 ++ FStep :: e4 in
    ls = p5 ++ FStep :: e5 /\ ~ In FBegin tl /\ now = clock t0 (evs_of pb) /\
    env_only e1 /\ env_only e2 /\ env_only e3 /\ env_only e4 /\ env_only e5 /\
    ((forall a, In a (e2 ++ e3 ++ e4) -> call_start_on id a = false) ->
     conn_at true cf t0 p5 id (fun c5 => should_close now (cf_max_idle cf) c5)).
Proof.
  intros Hmi H P L A.
  destruct (fine_close_chain true cf t0 ls st now id rest H P)
    as (pb & tl & e1 & e2 & e3 & e4 & e5 & Hls & Hnb & Hnow & E1 & E2 & E3 & E4 & E5 & _ &
        (s2 & c2 & H2 & L2 & C2) & (s3 & c3 & H3 & L3 & C3) & (s4 & c4 & H4 & L4 & C4) & (s5 & c5 & H5 & L5 & C5)).
  cbv zeta in *. exists pb, tl, e1, e2, e3, e4, e5.
  assert (Ep2 : (pb ++ FBegin :: tl) ++ FStep :: e1 = pb ++ FBegin :: tl ++ FStep :: e1) by (rewrite <- app_assoc; reflexivity).
  rewrite Ep2 in *.
  set (p2 := pb ++ FBegin :: tl ++ FStep :: e1) in *.
  assert (Ep5 : ((p2 ++ FStep :: e2) ++ FStep :: e3) ++ FStep :: e4 = p2 ++ FStep :: e2 ++ FStep :: e3 ++ FStep :: e4).
  { repeat (rewrite <- app_assoc; cbn [app]). reflexivity. }
  rewrite Ep5 in *.
  split; [exact Hls|]. split; [exact Hnb|]. split; [exact Hnow|]. repeat (split; [assumption|]).
  intros Hns. exists s5, c5. split; [exact H5|]. split; [exact L5|].
  (* well-formedness at the instant of the re-check *)
  pose proof (frun_wf true cf _ _ _ (finit_wf t0) H5) as [_ Hall5]. destruct (Hall5 id c5 L5) as [(Ci & Co & Cr) Ht5].
  (* Active at the end => Active at the re-check *)
  assert (A5 : is_active c5 = true).
  { rewrite Hls, frun_app, H5 in H. apply (frun_act_mono true cf id _ s5 st c5 c H L5 L A). }
  (* the counters did not grow between their reads and the re-check *)
  assert (Hs34 : forall a, In a (FStep :: e3 ++ FStep :: e4) -> call_start_on id a = false).
  { intros a [<-|Ha]; [reflexivity|]. apply in_app_iff in Ha as [Ha|[<-|Ha]]; [|reflexivity|];
      apply Hns; rewrite !in_app_iff; auto. }
  assert (Hs234 : forall a, In a (FStep :: e2 ++ FStep :: e3 ++ FStep :: e4) -> call_start_on id a = false).
  { intros a [<-|Ha]; [reflexivity|]. apply in_app_iff in Ha as [Ha|Ha]; [apply Hns; rewrite !in_app_iff; auto|]. now apply Hs34. }
  assert (Hs4 : forall a, In a (FStep :: e4) -> call_start_on id a = false).
  { intros a [<-|Ha]; [reflexivity|]. apply Hns; rewrite !in_app_iff; auto. }
  assert (M2 : cmono c2 c5).
  { rewrite frun_app, H2 in H5. destruct (frun_cmono true cf id _ s2 s5 c2 Hs234 H5 L2) as (x & Lx & M). congruence. }
  assert (M3 : cmono c3 c5).
  { replace (p2 ++ FStep :: e2 ++ FStep :: e3 ++ FStep :: e4) with ((p2 ++ FStep :: e2) ++ FStep :: e3 ++ FStep :: e4) in H5
      by (rewrite <- app_assoc; reflexivity).
    rewrite frun_app, H3 in H5. destruct (frun_cmono true cf id _ s3 s5 c3 Hs34 H5 L3) as (x & Lx & M). congruence. }
  assert (M4 : cmono c4 c5).
  { replace (p2 ++ FStep :: e2 ++ FStep :: e3 ++ FStep :: e4) with (((p2 ++ FStep :: e2) ++ FStep :: e3) ++ FStep :: e4) in H5
      by (repeat (rewrite <- app_assoc; cbn [app]); reflexivity).
    rewrite frun_app, H4 in H5. destruct (frun_cmono true cf id _ s4 s5 c4 Hs4 H5 L4) as (x & Lx & M). congruence. }
  destruct M2 as [_ (I2 & _ & _)]. destruct M3 as [_ (_ & O3 & _)]. destruct M4 as [_ (_ & _ & R4)].
  pose proof (idle_candidate_ge now _ c5 Hmi (C5 eq_refl)) as Hidle.
  unfold should_close. unfold is_active in A5.
  split. { rewrite Ht5. destruct (k_state c5 =? c_connectionClosed) eqn:E; [|reflexivity].
           exfalso. clear - A5 E. unfold c_connectionActive, c_connectionClosed in *. lia. }
  split; [clear - A5; lia|]. split; [clear - C2 I2 Ci; lia|]. split; [clear - C3 O3 Co; lia|]. split; [|exact Hidle].
  unfold relay_idle. unfold relay_can_close in C4.
  destruct (k_relay c4) as [n4|], (k_relay c5) as [n5|]; try contradiction; [|exact I]. clear - C4 R4 Cr. lia.
Qed.

(* fine_quiescent in the form of C19_sweep_iff *)
Theorem fine_quiescent_iff fx cf st0 seg st id c :
  f_pc st0 = SIdle -> chan_wf (f_ch st0) -> min_duration < cf_max_idle cf <= max_duration ->
  lookup id (ch_conns (f_ch st0)) = Some c ->
  ~ In FBegin seg -> (forall e, In (FEv e) seg -> ev_conn e <> Some id) ->
  frun fx cf st0 (FBegin :: seg) = Some st -> f_pc st = SIdle ->
  let now := ch_now (f_ch st0) in
  exists c', lookup id (ch_conns (f_ch st)) = Some c' /\
    ((is_active c = true /\ is_active c' = false) <-> should_close now (cf_max_idle cf) c) /\
    (should_close now (cf_max_idle cf) c -> c' = conn_close c) /\
    (~ should_close now (cf_max_idle cf) c -> c' = c).
Proof.
  intros P0 W Hmi L Hnb Hq H P now.
  rewrite (fine_quiescent fx cf st0 seg st id c P0 W L Hnb Hq H P).
  destruct W as [Hnd Hall]. destruct (Hall id c L) as [Hc _].
  exact (sweep_iff (cf_max_idle cf) (f_ch st0) id c Hnd Hmi L Hc).
Qed.

(* ---- every candidate of the second loop was found idle by the first loop ------------------------ *)
Definition cand_list (p : spc) : list Z :=
  match p with
  | SCollect _ _ acc => acc
  | SLoop2 _ cands => cands
  | SInb _ id rest | SOutb _ id rest | SRelay _ id rest | SRecheck _ id rest | SClose _ id rest => id :: rest
  | _ => []
  end.

Lemma fstep_cands_step fx cf st st' x : fstep fx cf st FStep = Some st' ->
  In x (cand_list (f_pc st')) -> In x (cand_list (f_pc st)) /\ pc_now (f_pc st') = pc_now (f_pc st).
Proof.
  intros H Hx. finv H; cbn [f_pc cand_list pc_now In] in *; try contradiction; auto; try tauto.
Qed.

Definition looked (fx : bool) (cf : config) (t0 : Z) (ls : list flab) (now x : Z) : Prop :=
  exists pb tl0 tl1, ls = pb ++ FBegin :: tl0 ++ FLook x :: tl1 /\ ~ In FBegin tl0 /\ ~ In FBegin tl1 /\
    now = clock t0 (evs_of pb) /\
    conn_at fx cf t0 (pb ++ FBegin :: tl0) x (fun c => idle_candidate now (cf_max_idle cf) c = true).

Lemma looked_snoc fx cf t0 ls now x b : b <> FBegin -> looked fx cf t0 ls now x -> looked fx cf t0 (ls ++ [b]) now x.
Proof.
  intros Hb (pb & tl0 & tl1 & -> & N0 & N1 & Hn & Hc). exists pb, tl0, (tl1 ++ [b]).
  split; [repeat (rewrite <- app_assoc; cbn [app]); reflexivity|]. split; [exact N0|]. split; [|auto].
  intros Hin. apply in_app_iff in Hin as [Hin|[Hin|[]]]; [exact (N1 Hin)|]. apply Hb. now symmetry.
Qed.

Lemma cands_looked fx cf t0 : forall ls st now x, frun fx cf (finit t0) ls = Some st ->
  pc_now (f_pc st) = Some now -> In x (cand_list (f_pc st)) -> looked fx cf t0 ls now x.
Proof.
  induction ls as [|b ls IH] using rev_ind; intros st now x H P Hx.
  - cbn [frun] in H. injection H as <-. discriminate P.
  - apply frun_snoc in H as (st1 & H1 & Hb). destruct b as [e| | |i|].
    + (* an event of another goroutine *)
      pose proof Hb as Hb'. apply fstep_env in Hb' as (_ & Hp & _). rewrite Hp in *.
      apply looked_snoc; [discriminate|]. now apply (IH st1).
    + finv Hb. cbn [f_pc cand_list] in Hx. contradiction.
    + finv Hb. cbn [f_pc cand_list] in Hx. contradiction.
    + (* a look: either an older candidate or the one found idle just now *)
      assert (P1 : pc_now (f_pc st1) = Some now) by (eapply fstep_pc_now; [|exact Hb|exact P]; discriminate).
      assert (Hnew : forall c, lookup i (ch_conns (f_ch st1)) = Some c -> idle_candidate now (cf_max_idle cf) c = true ->
                looked fx cf t0 (ls ++ [FLook i]) now i).
      { intros c L Hi. destruct (now_prov fx cf t0 ls st1 now H1 P1) as (pb & tl & -> & Hn & Hc).
        exists pb, tl, []. rewrite <- app_assoc. cbn [app]. split; [reflexivity|]. split; [exact Hn|]. split; [intros []|].
        split; [exact Hc|]. exists st1, c. auto. }
      assert (Hold : In x (cand_list (f_pc st1)) -> looked fx cf t0 (ls ++ [FLook i]) now x).
      { intros Hin. apply looked_snoc; [discriminate|]. now apply (IH st1). }
      finv Hb; cbn [f_pc cand_list pc_now] in *; injection P as <-; try (now apply Hold).
      apply in_app_iff in Hx as [Hx|[<-|[]]]; [now apply Hold|].
      apply (Hnew c eq_refl). rewrite <- gen_fine_idle. assumption.
    + destruct (fstep_cands_step fx cf st1 st x Hb Hx) as [Hx1 Hp]. rewrite Hp in P.
      apply looked_snoc; [discriminate|]. now apply (IH st1).
Qed.

(* ... in particular the connection the poller is about to close: it was collected by a FLook
   of this same sweep, at which it was idle for MaxIdleTime against the sweep's clock value
   (both code versions; without the re-check this is the only thing known about its idleness) *)
Theorem fine_close_looked fx cf t0 ls st now id rest :
  frun fx cf (finit t0) ls = Some st -> f_pc st = SClose now id rest -> looked fx cf t0 ls now id.
Proof.
  intros H P. apply (cands_looked fx cf t0 ls st now id H); rewrite P; [reflexivity|now left].
Qed.
