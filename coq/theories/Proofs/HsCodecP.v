(* Soundness (inversion) of the typed-buffer readers used by the handshake: what a
   successful read says about the bytes that were read.  Complements the completeness
   lemmas ([consumes]) of Proofs/CodecP.v. *)
From Coq Require Import ZArith List Bool Lia ZifyBool.
From Verif Require Import Base.Wrap Base.Bytes Gen.GenConsts Gen.GenFrame Model.TypedBuf Model.Messages
  Spec.Protocol Spec.HandshakeSpec Proofs.CodecP Proofs.FrameP.
Import ListNotations.
Local Open Scope Z_scope.

Lemma bind_inv {A B} (m : rbuf -> A * rbuf) (k : A -> rbuf -> B * rbuf) r0 y r2 :
  bindR m k r0 = (y, r2) -> exists x r1, m r0 = (x, r1) /\ k x r1 = (y, r2).
Proof. unfold bindR. destruct (m r0) as [x r1]. intros H. exists x, r1. auto. Qed.

Lemma sticky_ok {A} (rd : rbuf -> A * rbuf) r x r' :
  rsticky rd -> rd r = (x, r') -> rerr r' = false -> rerr r = false.
Proof.
  intros S E H. destruct (rerr r) eqn:R; [|reflexivity].
  specialize (S r R). rewrite E in S. cbn in S. congruence.
Qed.

Lemma r_bytes_inv n r0 b r1 :
  r_bytes n r0 = (b, r1) -> rerr r1 = false ->
  rerr r0 = false /\ rrem r0 = b ++ rrem r1 /\ length b = n.
Proof.
  unfold r_bytes. destruct (rerr r0) eqn:R.
  - intros E H. inversion E; subst. congruence.
  - destruct (Nat.ltb_spec (length (rrem r0)) n) as [L|L]; intros E H; inversion E; subst; cbn in *; [discriminate|].
    split; [reflexivity|]. split; [symmetry; apply firstn_skipn|]. apply firstn_length_le, L.
Qed.

Lemma bytes_ok_split a b : bytes_ok (a ++ b) = true -> bytes_ok a = true /\ bytes_ok b = true.
Proof. rewrite bytes_ok_app. apply andb_true_iff. Qed.

Lemma r_uint_inv n r0 v r1 :
  r_uint n r0 = (v, r1) -> rerr r1 = false -> bytes_ok (rrem r0) = true ->
  rerr r0 = false /\ rrem r0 = be n v ++ rrem r1 /\ u_ok n v /\ bytes_ok (rrem r1) = true.
Proof.
  unfold r_uint. intros E H B. apply bind_inv in E as [b [r' [E1 E2]]]. inversion E2; subst r1.
  rewrite H in *. subst v.
  destruct (r_bytes_inv _ _ _ _ E1 H) as [R0 [Eq L]].
  rewrite Eq in B. apply bytes_ok_split in B as [Bb Br].
  split; [exact R0|]. split; [|split; [|exact Br]].
  - rewrite <- L at 1. rewrite (be_unbe b Bb). exact Eq.
  - unfold u_ok. rewrite <- L. apply unbe_range, Bb.
Qed.

(* whatever happens, an n-byte integer read from bytes is within range *)
Lemma r_uint_range n r0 : bytes_ok (rrem r0) = true -> u_ok n (fst (r_uint n r0)).
Proof.
  intros B. unfold r_uint, bindR. destruct (r_bytes n r0) as [b r'] eqn:E. cbn [fst].
  destruct (rerr r') eqn:R.
  - unfold u_ok. split; [lia|]. apply Z.pow_pos_nonneg; lia.
  - destruct (r_bytes_inv _ _ _ _ E R) as [_ [Eq L]]. rewrite Eq in B. apply bytes_ok_split in B as [Bb _].
    unfold u_ok. rewrite <- L. apply unbe_range, Bb.
Qed.

Lemma be1_small v : 0 <= v < 256 -> be 1 v = [v].
Proof. intros H. rewrite be1, Z.mod_small by lia. reflexivity. Qed.

Lemma r_len16_inv r0 s r1 :
  r_len16 r0 = (s, r1) -> rerr r1 = false -> bytes_ok (rrem r0) = true ->
  rerr r0 = false /\ rrem r0 = s_str2 s ++ rrem r1 /\ str2_ok s /\ bytes_ok (rrem r1) = true.
Proof.
  unfold r_len16. intros E H B. apply bind_inv in E as [n [ra [E1 E2]]].
  unfold r_string in E2.
  destruct (r_bytes_inv _ _ _ _ E2 H) as [Ra [Eq L]].
  destruct (r_uint_inv _ _ _ _ E1 Ra B) as [R0 [Eq0 [[N0 N1] Ba]]].
  rewrite Eq in Ba. apply bytes_ok_split in Ba as [Bs Br].
  assert (Z : slen s = n). { unfold slen. rewrite L. apply Z2Nat.id. exact N0. }
  split; [exact R0|]. split; [|split; [|exact Br]].
  - unfold s_str2. rewrite Z, Eq0, Eq, <- app_assoc. reflexivity.
  - split; [|exact Bs]. rewrite Z. change (256 ^ Z.of_nat 2) with 65536 in N1. lia.
Qed.

Definition kv16_enc (kv : list Z * list Z) : list Z := s_str2 (fst kv) ++ s_str2 (snd kv).

Lemma r_kv16s_inv n : forall r0 p r1,
  r_kv16s n r0 = (p, r1) -> rerr r1 = false -> bytes_ok (rrem r0) = true ->
  rerr r0 = false /\ rrem r0 = flat_map kv16_enc p ++ rrem r1 /\ length p = n /\
  Forall (fun kv => str2_ok (fst kv) /\ str2_ok (snd kv)) p /\ bytes_ok (rrem r1) = true.
Proof.
  induction n as [|n IH]; intros r0 p r1 E H B; cbn [r_kv16s] in E.
  - unfold retR in E. inversion E; subst. cbn. auto.
  - apply bind_inv in E as [k [ra [E1 E2]]].
    apply bind_inv in E2 as [v [rb' [E2 E3]]].
    apply bind_inv in E3 as [rest [rc [E3 E4]]].
    unfold retR in E4. inversion E4; subst p r1. clear E4.
    assert (Rb : rerr rb' = false) by (eapply sticky_ok; [apply r_kv16s_sticky|exact E3|exact H]).
    assert (Ra : rerr ra = false) by (eapply sticky_ok; [apply r_len16_sticky|exact E2|exact Rb]).
    destruct (r_len16_inv _ _ _ E1 Ra B) as [R0 [Eq0 [Sk Ba]]].
    destruct (r_len16_inv _ _ _ E2 Rb Ba) as [_ [Eqa [Sv Bb]]].
    destruct (IH _ _ _ E3 H Bb) as [_ [Eqb [L [F Bc]]]].
    split; [exact R0|]. split; [|split; [|split; [|exact Bc]]].
    + cbn [flat_map]. unfold kv16_enc at 1. cbn [fst snd]. rewrite Eq0, Eqa, Eqb, <- !app_assoc. reflexivity.
    + cbn [length]. rewrite L. reflexivity.
    + constructor; [cbn [fst snd]; auto|exact F].
Qed.

Lemma flat_map_kv16 p : flat_map (fun kv => s_str2 (fst kv) ++ s_str2 (snd kv)) p = flat_map kv16_enc p.
Proof. reflexivity. Qed.

Lemma r_init_inv r0 m r1 :
  r_init r0 = (m, r1) -> rerr r1 = false -> bytes_ok (rrem r0) = true ->
  rrem r0 = s_init (im_version m) (im_params m) ++ rrem r1 /\
  0 <= im_version m < 65536 /\ params_ok (im_params m) /\ bytes_ok (rrem r1) = true.
Proof.
  unfold r_init. intros E H B.
  apply bind_inv in E as [v [ra [E1 E2]]].
  apply bind_inv in E2 as [n [rb' [E2 E3]]].
  apply bind_inv in E3 as [p [rc [E3 E4]]].
  unfold retR in E4. inversion E4; subst m r1. clear E4. cbn [im_version im_params].
  assert (Rb : rerr rb' = false) by (eapply sticky_ok; [apply r_kv16s_sticky|exact E3|exact H]).
  assert (Ra : rerr ra = false) by (eapply sticky_ok; [apply r_uint_sticky|exact E2|exact Rb]).
  destruct (r_uint_inv _ _ _ _ E1 Ra B) as [_ [Eq0 [Uv Ba]]].
  destruct (r_uint_inv _ _ _ _ E2 Rb Ba) as [_ [Eqa [[N0 N1] Bb]]].
  destruct (r_kv16s_inv _ _ _ _ E3 H Bb) as [_ [Eqb [L [F Bc]]]].
  assert (Z : slen p = n). { unfold slen. rewrite L. apply Z2Nat.id. exact N0. }
  change (256 ^ Z.of_nat 2) with 65536 in *.
  split; [|split; [exact Uv|split; [|exact Bc]]].
  - unfold s_init. rewrite flat_map_kv16, Z, Eq0, Eqa, Eqb, <- !app_assoc. reflexivity.
  - split; [rewrite Z; lia|exact F].
Qed.

(* completeness with trailing bytes: the spec encoding followed by anything decodes *)
Lemma params_ok_kvs16 p : params_ok p -> kvs16_ok p.
Proof. intros [A F]. split; [exact A|]. eapply Forall_impl; [|exact F]. intros kv [[a b] [c d]]. repeat split; assumption. Qed.

Lemma r_init_spec v p junk : 0 <= v < 65536 -> params_ok p ->
  r_init (rb (s_init v p ++ junk)) = (mkInit v p, rb junk).
Proof.
  intros Hv Hp. destruct (r_init_consumes (mkInit v p)) as [C _].
  - split; [apply u_ok_2; exact Hv|apply params_ok_kvs16, Hp].
  - apply C.
Qed.

(* ---------------- frames with arbitrary reserved bytes ---------------- *)

Lemma frame_bytes_split t r1 id res8 p :
  frame_bytes t r1 id res8 p = (be 2 (16 + zlen p) ++ [t] ++ [r1] ++ be 4 id ++ res8) ++ p.
Proof. unfold frame_bytes. rewrite <- !app_assoc. reflexivity. Qed.

Lemma hdr_length_gen t r1 id res8 n : length res8 = 8%nat ->
  length (be 2 n ++ [t] ++ [r1] ++ be 4 id ++ res8) = 16%nat.
Proof. intros L. rewrite !app_length, !be_length, L. reflexivity. Qed.

Lemma frame_read_in_frame t r1 id res8 p rest :
  0 <= t < 256 -> 0 <= r1 < 256 -> 0 <= id < 2 ^ 32 -> length res8 = 8%nat -> zlen p <= 65519 ->
  frame_read_in (frame_bytes t r1 id res8 p ++ rest) = (0, mkFH (16 + zlen p) t r1 id, p, rest).
Proof.
  intros A A1 B L8 H. pose proof (zlen_nonneg p) as Hp. unfold frame_read_in.
  rewrite frame_bytes_split. set (hd := be 2 (16 + zlen p) ++ [t] ++ [r1] ++ be 4 id ++ res8).
  assert (L : length hd = 16%nat) by (apply hdr_length_gen, L8).
  rewrite <- app_assoc.
  assert (Z1 : (zlen (hd ++ p ++ rest) <? c_FrameHeaderSize) = false).
  { apply Z.ltb_ge. rewrite zlen_app. unfold zlen at 1. rewrite L. pose proof (zlen_nonneg (p ++ rest)). unfold c_FrameHeaderSize. lia. }
  rewrite Z1. destruct (firstn_skipn_exact hd (p ++ rest) 16 L) as [F1 F2]. rewrite F1, F2.
  unfold frame_read_body.
  assert (U4 : u_ok 4 id) by exact B.
  destruct (r_fheader_consumes (mkFH (16 + zlen p) t r1 id) ltac:(apply u_ok_2; cbn [fh_size]; lia) ltac:(apply u_ok_1; exact A)
              ltac:(apply u_ok_1; exact A1) U4 res8 L8) as [C _].
  specialize (C []). rewrite app_nil_r in C. cbn [fh_size fh_type fh_res1 fh_id] in C. fold hd in C. rewrite C. cbn [rerr rb fh_size].
  destruct (payload_size_classify (16 + zlen p) ltac:(lia)) as [P1 P2]. rewrite P1, P2 by lia.
  replace (16 + zlen p <? 16) with false by (symmetry; apply Z.ltb_ge; lia).
  replace (16 + zlen p - 16) with (zlen p) by lia.
  destruct (zlen p >? 0) eqn:G.
  - rewrite zlen_app. replace (zlen p + zlen rest <? zlen p) with false.
    2:{ symmetry. apply Z.ltb_ge. pose proof (zlen_nonneg rest). lia. }
    unfold zlen. rewrite Nat2Z.id. rewrite firstn_app, Nat.sub_diag, firstn_all, skipn_app, Nat.sub_diag, skipn_all.
    cbn. rewrite app_nil_r. reflexivity.
  - assert (p = []). { destruct p; [reflexivity|]. unfold zlen in G. cbn [length] in G. lia. }
    subst p. reflexivity.
Qed.

(* every strict prefix of a frame is a short read *)
Lemma frame_read_in_cut t r1 id res8 p pre :
  0 <= t < 256 -> 0 <= r1 < 256 -> 0 <= id < 2 ^ 32 -> length res8 = 8%nat -> zlen p <= 65519 ->
  strict_prefix pre (frame_bytes t r1 id res8 p) -> fst (fst (fst (frame_read_in pre))) = 2.
Proof.
  intros A A1 B L8 H [q [Hq E]]. pose proof (zlen_nonneg p) as Hp. unfold frame_read_in.
  destruct (zlen pre <? c_FrameHeaderSize) eqn:Z1; [reflexivity|].
  apply Z.ltb_ge in Z1. unfold c_FrameHeaderSize in Z1.
  rewrite frame_bytes_split in E. set (hd := be 2 (16 + zlen p) ++ [t] ++ [r1] ++ be 4 id ++ res8) in *.
  assert (L : length hd = 16%nat) by (apply hdr_length_gen, L8).
  assert (P : exists p1, pre = hd ++ p1 /\ p = p1 ++ q).
  { apply app_eq_prefix; [exact E|]. rewrite L. unfold zlen in Z1. lia. }
  destruct P as [p1 [-> Ep]].
  destruct (firstn_skipn_exact hd p1 16 L) as [F1 F2]. rewrite F1, F2.
  unfold frame_read_body.
  assert (U4 : u_ok 4 id) by exact B.
  destruct (r_fheader_consumes (mkFH (16 + zlen p) t r1 id) ltac:(apply u_ok_2; cbn [fh_size]; lia) ltac:(apply u_ok_1; exact A)
              ltac:(apply u_ok_1; exact A1) U4 res8 L8) as [C _].
  specialize (C []). rewrite app_nil_r in C. cbn [fh_size fh_type fh_res1 fh_id] in C. fold hd in C. rewrite C. cbn [rerr rb fh_size].
  destruct (payload_size_classify (16 + zlen p) ltac:(lia)) as [P1 P2]. rewrite P1, P2 by lia.
  replace (16 + zlen p <? 16) with false by (symmetry; apply Z.ltb_ge; lia).
  replace (16 + zlen p - 16) with (zlen p) by lia.
  assert (Lq : 0 < zlen q). { destruct q; [congruence|]. unfold zlen. cbn [length]. lia. }
  assert (Lp : zlen p = zlen p1 + zlen q) by (rewrite Ep; apply zlen_app).
  pose proof (zlen_nonneg p1) as Hp1.
  destruct (zlen p >? 0) eqn:G; [|lia].
  replace (zlen p1 <? zlen p) with true by (symmetry; apply Z.ltb_lt; lia). reflexivity.
Qed.

Lemma r_fheader_inv hdr h r1 :
  r_fheader (rb hdr) = (h, r1) -> rerr r1 = false -> bytes_ok hdr = true ->
  exists res8, hdr = be 2 (fh_size h) ++ [fh_type h] ++ [fh_res1 h] ++ be 4 (fh_id h) ++ res8 ++ rrem r1 /\
    length res8 = 8%nat /\ 0 <= fh_size h < 65536 /\ 0 <= fh_type h < 256 /\ 0 <= fh_res1 h < 256 /\ 0 <= fh_id h < 2 ^ 32.
Proof.
  unfold r_fheader. intros E H B.
  apply bind_inv in E as [s [ra [E1 E2]]].
  apply bind_inv in E2 as [t [rb' [E2 E3]]].
  apply bind_inv in E3 as [x1 [rc [E3 E4]]].
  apply bind_inv in E4 as [i [rd [E4 E5]]].
  apply bind_inv in E5 as [r8 [re [E5 E6]]].
  unfold retR in E6. inversion E6; subst h r1. clear E6. cbn [fh_size fh_type fh_res1 fh_id].
  destruct (r_bytes_inv _ _ _ _ E5 H) as [Rd [Eq5 L8]].
  assert (Rc : rerr rc = false) by (eapply sticky_ok; [apply r_uint_sticky|exact E4|exact Rd]).
  assert (Rb : rerr rb' = false) by (eapply sticky_ok; [apply r_uint_sticky|exact E3|exact Rc]).
  assert (Ra : rerr ra = false) by (eapply sticky_ok; [apply r_uint_sticky|exact E2|exact Rb]).
  cbn [rrem rb] in *.
  destruct (r_uint_inv _ _ _ _ E1 Ra B) as [_ [Eq1 [U1 B1]]].
  destruct (r_uint_inv _ _ _ _ E2 Rb B1) as [_ [Eq2 [U2 B2]]].
  destruct (r_uint_inv _ _ _ _ E3 Rc B2) as [_ [Eq3 [U3 B3]]].
  destruct (r_uint_inv _ _ _ _ E4 Rd B3) as [_ [Eq4 [U4 B4]]].
  unfold u_ok in *. change (256 ^ Z.of_nat 2) with 65536 in *. change (256 ^ Z.of_nat 1) with 256 in *.
  change (256 ^ Z.of_nat 4) with (2 ^ 32) in *.
  rewrite be1_small in Eq2, Eq3 by assumption.
  exists r8. split; [|auto 10].
  cbn [rrem rb] in Eq1. rewrite Eq1, Eq2, Eq3, Eq4, Eq5. cbn [app].
  reflexivity.
Qed.

(* a successful ReadIn: the stream does start with that frame *)
Lemma frame_read_in_inv stream h payload rest :
  frame_read_in stream = (0, h, payload, rest) -> bytes_ok stream = true ->
  exists res8,
    stream = frame_bytes (fh_type h) (fh_res1 h) (fh_id h) res8 payload ++ rest /\
    length res8 = 8%nat /\ 0 <= fh_type h < 256 /\ 0 <= fh_res1 h < 256 /\ 0 <= fh_id h < 2 ^ 32 /\
    zlen payload <= 65519 /\ fh_size h = 16 + zlen payload /\ bytes_ok payload = true.
Proof.
  unfold frame_read_in. intros E B.
  destruct (zlen stream <? c_FrameHeaderSize) eqn:Z1; [inversion E|].
  apply Z.ltb_ge in Z1. unfold c_FrameHeaderSize in Z1.
  unfold frame_read_body in E.
  destruct (r_fheader (rb (firstn 16 stream))) as [h' r] eqn:EH.
  destruct (rerr r) eqn:R; [inversion E|].
  assert (S : stream = firstn 16 stream ++ skipn 16 stream) by (symmetry; apply firstn_skipn).
  assert (B' := B). rewrite S in B'. apply bytes_ok_split in B' as [Bh Bs].
  destruct (r_fheader_inv _ _ _ EH R Bh) as [res8 [Eq [L8 [Us [Ut [Ur Ui]]]]]].
  assert (L16 : length (firstn 16 stream) = 16%nat).
  { apply firstn_length_le. unfold zlen in Z1. lia. }
  assert (Rn : rrem r = []).
  { apply (f_equal (@length Z)) in Eq. rewrite L16, !app_length, !be_length, L8 in Eq. cbn [length] in Eq.
    destruct (rrem r); [reflexivity|cbn [length] in Eq; lia]. }
  rewrite Rn, app_nil_r in Eq.
  destruct (payload_size_classify (fh_size h') Us) as [P1 P2].
  destruct (PayloadSize (fh_size h') >? c_MaxFramePayloadSize) eqn:G1; [inversion E|].
  assert (S16 : 16 <= fh_size h') by lia. specialize (P2 S16).
  set (tail := skipn 16 stream) in *.
  assert (Fin : forall pl rs, tail = pl ++ rs -> zlen pl = fh_size h' - 16 -> h = h' -> payload = pl -> rest = rs ->
    exists res8, stream = frame_bytes (fh_type h) (fh_res1 h) (fh_id h) res8 payload ++ rest /\
      length res8 = 8%nat /\ 0 <= fh_type h < 256 /\ 0 <= fh_res1 h < 256 /\ 0 <= fh_id h < 2 ^ 32 /\
      zlen payload <= 65519 /\ fh_size h = 16 + zlen payload /\ bytes_ok payload = true).
  { intros pl rs Et Lp -> -> ->. exists res8.
    rewrite Et in Bs. apply bytes_ok_split in Bs as [Bp _].
    split; [|repeat split; try assumption; try lia].
    rewrite S at 1. rewrite Eq, Et. unfold frame_bytes. unfold slen. fold (zlen pl).
    replace (16 + zlen pl) with (fh_size h') by lia. rewrite <- !app_assoc. reflexivity. }
  destruct (PayloadSize (fh_size h') >? 0) eqn:G2.
  - destruct (zlen tail <? PayloadSize (fh_size h')) eqn:G3; [inversion E|].
    injection E as Eh Ep Er.
    apply (Fin (firstn (Z.to_nat (PayloadSize (fh_size h'))) tail) (skipn (Z.to_nat (PayloadSize (fh_size h'))) tail)); auto.
    + symmetry. apply firstn_skipn.
    + unfold zlen. rewrite firstn_length_le; [rewrite Z2Nat.id; lia|]. unfold zlen in G3. lia.
  - injection E as Eh Ep Er. apply (Fin [] tail); auto. unfold zlen. cbn. lia.
Qed.
