(* Proofs about Model/AttemptCtx.v (property C14: the deadline of ONE ATTEMPT of a retried call
   reaches the call primitive) and the tie to the source: Gen/GenCtxFlow.ctxflow_sites. *)
From Coq Require Import ZArith List Bool Lia ZifyBool.
From Verif Require Import Base.Wrap Base.Wire Gen.GenConsts Gen.GenTTL Gen.GenCtxFlow Spec.CtxFlowSpec
  Model.Messages Model.TTL Model.AttemptCtx Proofs.TTLP.
Import ListNotations.
Local Open Scope Z_scope.

(* ------------------------------------------------------------------ the tie to the source *)

(* Channel.RunWithRetry hands the attempt function the caller's context when TimeoutPerAttempt
   is 0 and context.WithTimeout(runCtx, opts.TimeoutPerAttempt) otherwise: the rows of the core
   package are exactly the rows [attempt_ctx] was written against. *)
Lemma core_rows_generated : rows_of_fn pkg_root fn_run_with_retry ctxflow_sites = core_ctx_rows.
Proof.
  first [ vm_compute; reflexivity
        | fail 1 "Channel.RunWithRetry no longer hands its attempt function runCtx (TimeoutPerAttempt == 0) / context.WithTimeout(runCtx, opts.TimeoutPerAttempt) (otherwise): the context rows regenerated from retry.go (Gen/GenCtxFlow.ctxflow_sites, package .) differ from Spec/CtxFlowSpec.core_ctx_rows" ].
Qed.

(* every hand-over of a context below RunWithRetry -- in the attempt functions of every package
   of the module and in the functions they call -- passes on the function's own context
   parameter or a context derived from it *)
Lemma ctx_discipline_generated : forallb row_forwards ctxflow_sites = true.
Proof.
  first [ vm_compute; reflexivity
        | fail 1 "a function below Channel.RunWithRetry hands a call primitive a context that is NOT its own context parameter (origin 2 = the enclosing function's context captured by the attempt function, 3 = some other context): see the rows of Gen/GenCtxFlow.ctxflow_sites with origin 2 or 3 -- the per-attempt deadline (RetryOptions.TimeoutPerAttempt) is dropped on this hop" ].
Qed.

(* inside the core package the context given to BeginCall is handed down, step by step, to the
   message exchange of the call (Channel / SubChannel.BeginCall -> Peer.BeginCall ->
   Connection.beginCall -> outbound.newExchange) *)
Lemma core_path_generated : forallb (path_step_present ctxflow_sites) core_call_path = true.
Proof.
  first [ vm_compute; reflexivity
        | fail 1 "the path of an outbound call inside the core package no longer hands its context parameter down: one of Channel.BeginCall -> p.BeginCall, SubChannel.BeginCall -> peer.BeginCall, Peer.BeginCall -> conn.beginCall, Connection.beginCall -> c.outbound.newExchange is missing from Gen/GenCtxFlow.ctxflow_sites or has origin 2 / 3" ].
Qed.

(* every attempt function handed to RunWithRetry does hand a context on, its package reaches a
   BeginCall, and the clients the model knows are among them *)
Lemma ctx_coverage_generated :
  forallb (attempt_fn_covered ctxflow_sites) retry_attempt_fns = true /\
  forallb (fun pf => reaches_begin (fst pf) ctxflow_sites) retry_attempt_fns = true /\
  forallb (fun k => existsb (fun pf => lz_eqb (fst pf) (fst k) && lz_eqb (snd pf) (snd k)) retry_attempt_fns) known_attempt_fns = true /\
  forallb (fun p => existsb (fun pf => lz_eqb (fst pf) p) retry_attempt_fns) (client_pkgs ctxflow_sites) = true.
Proof.
  first [ vm_compute; repeat split; reflexivity
        | fail 1 "the attempt functions handed to Channel.RunWithRetry (Gen/GenCtxFlow.retry_attempt_fns) and the context rows below them do not cover each other: an attempt function hands no context on, never reaches a BeginCall, or the thrift / json client no longer calls RunWithRetry with a function literal" ].
Qed.

(* the source of the context BeginCall receives in package [pkg], read off the generated rows *)
Definition gen_client_src (pkg : list Z) : ctx_src := path_src (map cr_origin (rows_of pkg ctxflow_sites)).

Lemma path_src_attempt os : forallb (fun o => (o =? 0) || (o =? 1)) os = true -> path_src os = SrcAttempt.
Proof.
  induction os as [|o r IH]; intros H; [reflexivity|].
  cbn [forallb] in H. apply andb_prop in H. destruct H as [H1 H2].
  cbn [path_src fold_right]. unfold src_of_origin. rewrite H1. cbn [src_join]. apply IH, H2.
Qed.

Lemma path_src_rows (rows : list ctx_row) pkg :
  forallb row_forwards rows = true -> path_src (map cr_origin (rows_of pkg rows)) = SrcAttempt.
Proof.
  intros D. apply path_src_attempt.
  rewrite forallb_forall. intros o Ho. apply in_map_iff in Ho. destruct Ho as [r [E Hr]]. subst o.
  unfold rows_of in Hr. apply filter_In in Hr. destruct Hr as [Hr _].
  rewrite forallb_forall in D. exact (D r Hr).
Qed.

Lemma gen_client_src_attempt pkg : gen_client_src pkg = SrcAttempt.
Proof. unfold gen_client_src. apply path_src_rows. exact ctx_discipline_generated. Qed.

(* ------------------------------------------------------------------ the attempt's context *)

Lemma attempt_ctx_spec odl start tpa :
  attempt_ctx (Some odl) start tpa = Some (if tpa =? 0 then odl else Z.min odl (start + tpa)).
Proof.
  unfold attempt_ctx. destruct (tpa =? 0); [reflexivity|].
  rewrite with_timeout_spec. reflexivity.
Qed.

Lemma attempt_remaining_spec odl start tpa now :
  (if tpa =? 0 then odl else Z.min odl (start + tpa)) - now = attempt_remaining odl start tpa now.
Proof. unfold attempt_remaining. destruct (tpa =? 0); lia. Qed.

(* The statements are proved for an arbitrary source [src] that IS the attempt's context and then
   instantiated with the source read off the generated rows (no conversion ever has to unfold
   the generated table). *)

(* clause (a) for an attempt: the field never exceeds the time the ATTEMPT has left *)
Lemma attempt_wire_ttl_src src : src = SrcAttempt -> forall odl start tpa now cerr ttl,
  client_begin src (Some odl) start tpa now cerr = BcOk ttl ->
  is_u32 (wire_ttl_ms ttl) /\
  wire_ttl_ms ttl * ms_ns <= attempt_remaining odl start tpa now /\
  wire_ttl_ms ttl * ms_ns <= odl - now /\
  (tpa <> 0 -> wire_ttl_ms ttl * ms_ns <= start + tpa - now) /\
  (attempt_remaining odl start tpa now < 2 ^ 32 * ms_ns ->
     1 <= wire_ttl_ms ttl /\ wire_ttl_ms ttl = attempt_remaining odl start tpa now / ms_ns).
Proof.
  intros E odl start tpa now cerr ttl. subst src. unfold client_begin, client_ctx. rewrite attempt_ctx_spec.
  intros H. apply wire_ttl_sound in H. rewrite attempt_remaining_spec in H.
  destruct H as [U [L X]]. split; [exact U|]. split; [exact L|].
  unfold attempt_remaining in *. destruct (tpa =? 0) eqn:T.
  - split; [lia|]. split; [intros N; lia|exact X].
  - split; [lia|]. split; [intros _; lia|exact X].
Qed.

Lemma attempt_wire_ttl pkg : forall odl start tpa now cerr ttl,
  client_begin (gen_client_src pkg) (Some odl) start tpa now cerr = BcOk ttl ->
  is_u32 (wire_ttl_ms ttl) /\
  wire_ttl_ms ttl * ms_ns <= attempt_remaining odl start tpa now /\
  wire_ttl_ms ttl * ms_ns <= odl - now /\
  (tpa <> 0 -> wire_ttl_ms ttl * ms_ns <= start + tpa - now) /\
  (attempt_remaining odl start tpa now < 2 ^ 32 * ms_ns ->
     1 <= wire_ttl_ms ttl /\ wire_ttl_ms ttl = attempt_remaining odl start tpa now / ms_ns).
Proof. exact (attempt_wire_ttl_src (gen_client_src pkg) (gen_client_src_attempt pkg)). Qed.

(* an attempt with under a millisecond left fails locally with a timeout *)
Lemma attempt_sub_ms_src src : src = SrcAttempt -> forall odl start tpa now cerr,
  attempt_remaining odl start tpa now < ms_ns ->
  client_begin src (Some odl) start tpa now cerr = BcErr c_ErrCodeTimeout.
Proof.
  intros E odl start tpa now cerr. subst src. unfold client_begin, client_ctx. rewrite attempt_ctx_spec.
  intros H. apply begin_call_sub_ms. rewrite attempt_remaining_spec. exact H.
Qed.

Lemma attempt_sub_ms pkg : forall odl start tpa now cerr,
  attempt_remaining odl start tpa now < ms_ns ->
  client_begin (gen_client_src pkg) (Some odl) start tpa now cerr = BcErr c_ErrCodeTimeout.
Proof. exact (attempt_sub_ms_src (gen_client_src pkg) (gen_client_src_attempt pkg)). Qed.

(* the context of the message exchange -- every wait of the caller ends with it -- is the
   attempt's: it expires at the overall deadline or TimeoutPerAttempt after the attempt's start,
   whichever is earlier *)
Lemma attempt_wait_deadline_src src : src = SrcAttempt -> forall odl start tpa,
  client_ctx src (Some odl) start tpa = Some (if tpa =? 0 then odl else Z.min odl (start + tpa)).
Proof. intros E odl start tpa. subst src. cbn [client_ctx]. apply attempt_ctx_spec. Qed.

Lemma attempt_wait_deadline pkg : forall odl start tpa,
  client_ctx (gen_client_src pkg) (Some odl) start tpa = Some (if tpa =? 0 then odl else Z.min odl (start + tpa)).
Proof. exact (attempt_wait_deadline_src (gen_client_src pkg) (gen_client_src_attempt pkg)). Qed.

(* caller -> relays -> handler for an attempt: the field that arrives and the handler's deadline
   are bounded by the attempt's remaining time and by every relay maximum *)
Lemma attempt_end_to_end_src src : src = SrcAttempt -> forall odl start tpa now maxes base arrival f,
  Forall is_duration maxes ->
  attempt_field src odl start tpa now maxes = Some f ->
  is_u32 f /\ f * ms_ns <= attempt_remaining odl start tpa now /\
  Forall (fun cfg => f * ms_ns <= relay_max cfg) maxes /\
  exists d, incoming_ctx base arrival (recv_ttl_ns f) = Some d /\
            d <= arrival + f * ms_ns /\ d <= arrival + attempt_remaining odl start tpa now.
Proof.
  intros E odl start tpa now maxes base arrival f D. unfold attempt_field.
  destruct (client_begin src (Some odl) start tpa now 0) as [e|ttl] eqn:B; [discriminate|].
  intros H. inversion H; subst f; clear H.
  destruct (attempt_wire_ttl_src src E _ _ _ _ _ _ B) as [U [L _]].
  destruct (hops_ttl_spec maxes (wire_ttl_ms ttl) D U) as [A [Le F]].
  destruct (handler_deadline base arrival (hops_ttl maxes (wire_ttl_ms ttl)) A) as [d [Ed [Ld _]]].
  split; [exact A|].
  assert (Q : hops_ttl maxes (wire_ttl_ms ttl) * ms_ns <= attempt_remaining odl start tpa now).
  { unfold is_u32 in *. rewrite ms_pos in *. nia. }
  split; [exact Q|]. split; [exact F|].
  exists d. split; [exact Ed|]. split; [exact Ld|]. lia.
Qed.

Lemma attempt_end_to_end pkg : forall odl start tpa now maxes base arrival f,
  Forall is_duration maxes ->
  attempt_field (gen_client_src pkg) odl start tpa now maxes = Some f ->
  is_u32 f /\ f * ms_ns <= attempt_remaining odl start tpa now /\
  Forall (fun cfg => f * ms_ns <= relay_max cfg) maxes /\
  exists d, incoming_ctx base arrival (recv_ttl_ns f) = Some d /\
            d <= arrival + f * ms_ns /\ d <= arrival + attempt_remaining odl start tpa now.
Proof. exact (attempt_end_to_end_src (gen_client_src pkg) (gen_client_src_attempt pkg)). Qed.

(* why the tie matters: an attempt function that hands on the ENCLOSING function's context sends
   the whole remaining time of the call -- 3 s instead of the 200 ms of the attempt *)
Lemma overall_ctx_exceeds_attempt :
  exists odl start tpa now ttl,
    client_begin SrcOverall (Some odl) start tpa now 0 = BcOk ttl /\
    attempt_remaining odl start tpa now < wire_ttl_ms ttl * ms_ns.
Proof. exists 3000000000, 0, 200000000, 0, 3000000000. vm_compute. split; reflexivity. Qed.

(* ------------------------------------------------------------------ the harness entry point *)

(* what run_ttl_attempt prints is a bound every correct attempt respects: an attempt of package
   [pkg] that starts at or after [start_lb] and begins its call at [now] delivers a field that is
   at most attempt_bound .. start_lb *)
Lemma time_sub_mono a b now : a <= b -> time_sub a now <= time_sub b now.
Proof. intros H. rewrite !time_sub_spec. lia. Qed.

Lemma wire_ttl_mono a b : 0 <= a <= b -> b < 2 ^ 32 * ms_ns -> wire_ttl_ms a <= wire_ttl_ms b.
Proof.
  intros H B.
  destruct (wire_ttl_exact a ltac:(lia)) as [Ea _]. destruct (wire_ttl_exact b ltac:(lia)) as [Eb _].
  rewrite Ea, Eb. apply Z.div_le_mono; [rewrite ms_pos; lia|lia].
Qed.

Lemma relay_ttl_mono m f g :
  valid_max m -> is_u32 f -> is_u32 g -> f <= g -> snd (relay_ttl m f) <= snd (relay_ttl m g).
Proof.
  intros V Uf Ug Le.
  destruct (relay_ttl_spec m f V Uf) as [_ [Ef [_ [_ [Lf _]]]]].
  destruct (relay_ttl_spec m g V Ug) as [_ [Eg [_ [_ [Lg _]]]]].
  cbv zeta in *. rewrite Ef, Eg. rewrite ms_pos in *. unfold valid_max in V.
  destruct (f * 1000000 >? m) eqn:A; destruct (g * 1000000 >? m) eqn:B; try lia.
  apply Z.div_le_lower_bound; lia.
Qed.

Lemma hops_ttl_mono maxes : forall f g,
  Forall is_duration maxes -> is_u32 f -> is_u32 g -> f <= g -> hops_ttl maxes f <= hops_ttl maxes g.
Proof.
  induction maxes as [|cfg r IH]; intros f g D Uf Ug Le; cbn [hops_ttl]; [exact Le|].
  inversion D as [|? ? Dc Dr]; subst.
  pose proof (relay_max_valid cfg Dc) as V.
  destruct (relay_ttl_spec (relay_max cfg) f V Uf) as [_ [_ [Uf' _]]].
  destruct (relay_ttl_spec (relay_max cfg) g V Ug) as [_ [_ [Ug' _]]].
  apply IH; try assumption. apply relay_ttl_mono; assumption.
Qed.

Lemma attempt_bound_sound_src src : src = SrcAttempt -> forall odl tpa maxes start_lb start now f,
  Forall is_duration maxes ->
  0 <= tpa -> start_lb <= start <= now ->
  odl - start_lb < 2 ^ 32 * ms_ns -> tpa < 2 ^ 32 * ms_ns ->
  attempt_field src odl start tpa now maxes = Some f ->
  1 <= f \/ f = 0 -> f <= attempt_bound odl tpa maxes start_lb.
Proof.
  intros E odl tpa maxes start_lb start now f D T S B1 B2 H _. subst src. rewrite p32 in B1, B2.
  unfold attempt_field in H.
  unfold client_begin, client_ctx in H. rewrite attempt_ctx_spec in H.
  set (dl := if tpa =? 0 then odl else Z.min odl (start + tpa)) in H.
  destruct (begin_call c_connectionActive true dl now 0) as [e|ttl] eqn:B; [discriminate|].
  inversion H; subst f; clear H.
  apply begin_call_ok in B. destruct B as [_ [_ [_ [Et G]]]].
  unfold attempt_bound, attempt_field, client_begin, client_ctx. rewrite attempt_ctx_spec.
  set (dl0 := if tpa =? 0 then odl else Z.min odl (start_lb + tpa)).
  assert (R : ttl <= dl0 - start_lb).
  { subst ttl dl dl0. rewrite time_sub_spec in *. rewrite min_dur_val, max_dur_val, ms_pos in *.
    destruct (tpa =? 0); lia. }
  assert (R2 : dl0 - start_lb < 2 ^ 32 * ms_ns).
  { subst dl0. rewrite p32. destruct (tpa =? 0); lia. }
  destruct (begin_call_accepts dl0 start_lb ltac:(lia)) as [Acc [A1 A2]]. rewrite Acc.
  assert (Ets : time_sub dl0 start_lb = dl0 - start_lb).
  { rewrite time_sub_spec. rewrite min_dur_val, max_dur_val, p32, ms_pos in *. lia. }
  assert (W : wire_ttl_ms ttl <= wire_ttl_ms (time_sub dl0 start_lb)).
  { apply wire_ttl_mono; rewrite ?Ets; rewrite ?ms_pos in *; lia. }
  apply hops_ttl_mono; try assumption.
  - apply wire_ttl_bounds. rewrite ms_pos in *. lia.
  - apply wire_ttl_bounds. lia.
Qed.

Lemma attempt_bound_sound pkg : forall odl tpa maxes start_lb start now f,
  Forall is_duration maxes ->
  0 <= tpa -> start_lb <= start <= now ->
  odl - start_lb < 2 ^ 32 * ms_ns -> tpa < 2 ^ 32 * ms_ns ->
  attempt_field (gen_client_src pkg) odl start tpa now maxes = Some f ->
  1 <= f \/ f = 0 -> f <= attempt_bound odl tpa maxes start_lb.
Proof. exact (attempt_bound_sound_src (gen_client_src pkg) (gen_client_src_attempt pkg)). Qed.
