(* Proofs about Model/Cancel.v (property C14, clause d): which events end a handler's
   context, for every option combination and every interleaving of the model's steps. *)
From Coq Require Import ZArith List Bool Lia ZifyBool.
From Verif Require Import Base.Wrap Base.Wire Gen.GenConsts Gen.GenTTL Model.Cancel.
Import ListNotations.
Local Open Scope Z_scope.

Definition all_on (c : cfg) : bool := send_cancel c && all_true (hops c) && srv_prop c.

Lemma run_snoc c ls l : run c (ls ++ [l]) = step c (run c ls) l.
Proof. unfold run. rewrite fold_left_app. reflexivity. Qed.

Lemma in_snoc {A} (x y : A) ls : In x (ls ++ [y]) <-> In x ls \/ x = y.
Proof.
  rewrite in_app_iff. cbn. split; intros [H|H]; auto.
  - destruct H as [H|[]]; auto.
Qed.

Lemma direct_all_true c : direct c = true -> all_true (hops c) = true.
Proof. unfold direct, all_true. destruct (hops c); [reflexivity|discriminate]. Qed.

Lemma gce1 : GetContextError 1 = c_ErrCodeTimeout. Proof. reflexivity. Qed.
Lemma gce2 : GetContextError 2 = c_ErrCodeCancelled. Proof. reflexivity. Qed.

Ltac break_if :=
  match goal with
  | |- context [if ?b then _ else _] =>
      lazymatch b with
      | context [if _ then _ else _] => fail
      | _ => let E := fresh "E" in destruct b eqn:E
      end
  end.

(* one step, symbolically: the state is split into its fields first so that every test is
   an atomic condition on a field *)
Ltac step_cbn :=
  cbn [cctx cres begun req_sent req_closed cancel_notified cancels_sent resp_read
       relay_alive conn_failed resp_avail resp_final hstarted hctx mex_reg resp_failed
       resp_done requested honored dl_passed
       set_cctx set_cres set_begun set_req_sent set_req_closed set_cancel_notified
       set_cancels_sent set_resp_read set_relay_alive set_conn_failed set_resp_avail
       set_resp_final set_hstarted set_hctx set_mex_reg set_resp_failed set_resp_done
       set_requested set_honored set_dl_passed negb andb orb] in *.

Ltac step_cases s l :=
  destruct l;
  unfold step, caller_write, handler_write, caller_ctx_err, notify_cancel, travel_cancel,
         server_cancel, deliver_request, path_up, path_down;
  destruct s; step_cbn; repeat (break_if; step_cbn).

Ltac bool_norm :=
  repeat match goal with
  | H : _ && _ = true |- _ => apply andb_true_iff in H; destruct H
  | H : _ || _ = false |- _ => apply orb_false_iff in H; destruct H
  | H : negb _ = true |- _ => apply negb_true_iff in H
  | H : negb _ = false |- _ => apply negb_false_iff in H
  | H : (_ =? _) = true |- _ => apply Z.eqb_eq in H
  | H : (_ =? _) = false |- _ => apply Z.eqb_neq in H
  | H : (_ <? _) = true |- _ => apply Z.ltb_lt in H
  | H : (_ <? _) = false |- _ => apply Z.ltb_ge in H
  | H : match ?x with Some _ => false | None => true end = true |- _ => destruct x; [discriminate H|clear H]
  | H : match ?x with Some _ => false | None => true end = false |- _ => destruct x; [clear H|discriminate H]
  end.

Ltac bool_split :=
  repeat match goal with
  | H : _ && _ = false |- _ => apply andb_false_iff in H; destruct H
  | H : _ || _ = true |- _ => apply orb_true_iff in H; destruct H
  end.

Ltac clear_bools := repeat match goal with H : @eq bool _ _ |- _ => clear H end.
Ltac zlia := clear_bools; lia.
Ltac fin := try reflexivity; try congruence; try zlia.

(* ---- contexts never come back to life ------------------------------------------------ *)
Lemma ctx_sticky c s l :
  (hctx s <> 0 -> hctx (step c s l) = hctx s) /\ (cctx s <> 0 -> cctx (step c s l) = cctx s).
Proof.
  split; intros H; step_cases s l; try reflexivity; bool_norm; fin.
Qed.

(* ---- the reasons a context can have ended for ------------------------------------------- *)
Definition causes_ok (c : cfg) (ls : list label) (s : st) : Prop :=
  (hctx s = 0 \/ hctx s = 1 \/ hctx s = 2) /\
  (hctx s = 1 -> In LDeadline ls) /\
  (hctx s = 2 -> In LHClose ls \/ In LHBlackhole ls \/ In LConnFail ls \/ (In LCancel ls /\ all_on c = true)) /\
  (cctx s = 0 \/ cctx s = 1 \/ cctx s = 2) /\
  (cctx s = 1 -> In LDeadline ls) /\ (cctx s = 2 -> In LCancel ls) /\
  (cres s = Some c_ErrCodeTimeout -> In LDeadline ls) /\
  (cres s = Some c_ErrCodeCancelled -> In LCancel ls) /\
  (dl_passed s = true -> In LDeadline ls).

Lemma all_on_intro c : send_cancel c = true -> all_true (hops c) = true -> srv_prop c = true -> all_on c = true.
Proof. unfold all_on. intros -> -> ->. reflexivity. Qed.

Lemma all_on_elim c : all_on c = true -> send_cancel c = true /\ all_true (hops c) = true /\ srv_prop c = true.
Proof. unfold all_on. intros H. apply andb_true_iff in H as [H H3]. apply andb_true_iff in H as [H1 H2]. auto. Qed.

#[local] Hint Resolve all_on_intro direct_all_true : c14.

Lemma gce_cases x : x = 1 \/ x = 2 ->
  (GetContextError x = c_ErrCodeTimeout /\ x = 1) \/ (GetContextError x = c_ErrCodeCancelled /\ x = 2).
Proof. intros [->| ->]; [left|right]; split; reflexivity. Qed.

Lemma causes_step c ls s l : causes_ok c ls s -> causes_ok c (ls ++ [l]) (step c s l).
Proof.
  unfold causes_ok. intros [P1 [P2 [P3 [P4 [P5 [P6 [P7 [P8 P9]]]]]]]].
  step_cases s l; bool_norm;
    (repeat split; intros;
     rewrite ?in_snoc;
     try (match goal with K : Some (GetContextError ?x) = Some _ |- _ =>
            destruct (gce_cases x ltac:(zlia)) as [[G1 G2]|[G1 G2]]; rewrite G1 in K; try discriminate K; clear K G1 end);
     try (match goal with K : Some _ = Some _ |- _ => try discriminate K end);
     try solve [ assumption | auto 4 with c14 | congruence | zlia
               | intuition (auto with c14; try congruence; try discriminate; try zlia)]).
Qed.
