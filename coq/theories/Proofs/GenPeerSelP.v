(* Tie of the functions regenerated from retry.go / peer.go / mex.go (Gen/GenPeerSel.v) to the
   hand models of C15: the generated getHost is the specification's host function, the generated
   AddSelectedPeer / PrevSelectedPeers compute Model/Retry.v's accumulated set, the generated
   NumConnections / NumPendingOutbound compute Model/ReqSel.v's load of a peer.  An edit of the Go
   source that changes what these functions compute breaks a proof of this file. *)
From Coq Require Import ZArith List Bool Lia ZifyBool Arith.
From Verif Require Import Base.Wrap Base.Bytes Base.GoSem Base.GoSemColl Gen.GenPeerSel
  Spec.PeerSelect Model.Retry Model.PeerHeap Model.PeerList Model.ReqSel.
Import ListNotations.
Local Open Scope Z_scope.

(* ---------------------------------------------------------------- getHost *)

(* the loop of getHost: end = index of the last ':' seen so far *)
Definition gh_body (hp : list Z) : Z -> Z -> option Z :=
  fun i end_ =>
  match str_index hp i with None => None | Some x'1 =>
  if (x'1 =? 58) then let end_ := i in
  Some end_
  else Some end_
  end.

Lemma str_index_app pre c r : str_index (pre ++ c :: r) (zlen pre) = Some c.
Proof.
  unfold str_index, zlen. rewrite app_length. cbn [length].
  destruct (Z.of_nat (length pre) <? 0) eqn:E1; [lia|].
  destruct (Z.of_nat (length pre + S (length r)) <=? Z.of_nat (length pre)) eqn:E2; [lia|].
  cbn [orb]. rewrite Nat2Z.id, app_nth2 by lia. rewrite Nat.sub_diag. reflexivity.
Qed.

Lemma str_slice_prefix pre suf : str_slice (pre ++ suf) 0 (zlen pre) = Some pre.
Proof.
  unfold str_slice, zlen. rewrite app_length.
  destruct (0 <? 0) eqn:E0; [lia|].
  destruct (Z.of_nat (length pre) <? 0) eqn:E1; [lia|].
  destruct (Z.of_nat (length pre + length suf) <? Z.of_nat (length pre)) eqn:E2; [lia|].
  cbn [orb]. rewrite Z.sub_0_r, Nat2Z.id. cbn [Z.to_nat skipn].
  rewrite firstn_app, Nat.sub_diag, firstn_all. cbn [firstn]. now rewrite app_nil_r.
Qed.

(* after the loop over suf (entered with end = e): the index of the last ':' of suf if it has one *)
Lemma gh_loop suf : forall pre e,
  go_for_nat (length suf) (zlen pre) (gh_body (pre ++ suf)) e =
  Some (if has_colon suf then zlen pre + zlen (host_of suf) else e).
Proof.
  induction suf as [|c r IH]; intros pre e; cbn [length go_for_nat has_colon host_of]; [reflexivity|].
  unfold gh_body at 1. rewrite str_index_app.
  replace (pre ++ c :: r) with ((pre ++ [c]) ++ r) by now rewrite <- app_assoc.
  replace (zlen pre + 1) with (zlen (pre ++ [c])) by (unfold zlen; rewrite app_length; cbn [length]; lia).
  assert (L : zlen (pre ++ [c]) = zlen pre + 1) by (unfold zlen; rewrite app_length; cbn [length]; lia).
  destruct (c =? 58) eqn:E; cbn [orb]; rewrite IH, L.
  - destruct (has_colon r); f_equal; unfold zlen; cbn [length]; lia.
  - destruct (has_colon r); f_equal; unfold zlen; cbn [length]; lia.
Qed.

Lemma host_of_nocolon l : has_colon l = false -> host_of l = l.
Proof.
  induction l as [|c r IH]; cbn [has_colon host_of]; [reflexivity|].
  intros H. apply orb_false_iff in H as [H1 H2]. rewrite H1. now rewrite IH.
Qed.

(* the host is a prefix of the host:port *)
Lemma host_of_prefix l : exists suf, l = host_of l ++ suf.
Proof.
  induction l as [|c r (suf & IH)]; cbn [host_of]; [exists []; reflexivity|].
  destruct (c =? 58); [destruct (has_colon r)|].
  - exists suf. cbn [app]. now rewrite <- IH.
  - exists (c :: r). reflexivity.
  - exists suf. cbn [app]. now rewrite <- IH.
Qed.

(* the generated getHost never panics and is the specification's host function: the bytes
   before the LAST ':', the whole string when there is none *)
Lemma getHost_host_of hp : getHost hp = Some (host_of hp).
Proof.
  unfold getHost, go_for. change (fun (i : Z) (end_ : Z) => _) with (gh_body hp).
  replace (Z.to_nat (zlen hp)) with (length hp) by (unfold zlen; now rewrite Nat2Z.id).
  pose proof (gh_loop hp [] (zlen hp)) as H. cbn [app] in H. change (zlen []) with 0 in H. rewrite H.
  assert (E : (if has_colon hp then 0 + zlen (host_of hp) else zlen hp) = zlen (host_of hp)).
  { destruct (has_colon hp) eqn:C; [lia|]. now rewrite host_of_nocolon. }
  rewrite E. destruct (host_of_prefix hp) as (suf & P). rewrite P at 1. rewrite str_slice_prefix. reflexivity.
Qed.

Lemma getHost_get_host hp : getHost hp = Some (get_host hp).
Proof.
  rewrite getHost_host_of. reflexivity. (* the two hand-written host functions are the same fixpoint *)
Qed.

(* ---------------------------------------------------------------- the selected set *)

Lemma existsb_eqb_In k l : existsb (bytes_eqb k) l = true <-> In k l.
Proof.
  rewrite existsb_exists. split.
  - intros (x & Hx & E). apply bytes_eqb_eq in E. now subst.
  - intros H. exists k. split; [exact H|]. now apply bytes_eqb_eq.
Qed.

Lemma sset_mem_In m k : sset_mem m k = true <-> In k (sset_elems m).
Proof. unfold sset_mem. apply existsb_eqb_In. Qed.

Lemma sset_ins_In l k s : In s (if existsb (bytes_eqb k) l then l else l ++ [k]) <-> In s l \/ s = k.
Proof.
  destruct (existsb (bytes_eqb k) l) eqn:E.
  - apply existsb_eqb_In in E. split; [auto|]. intros [H| ->]; assumption.
  - rewrite in_app_iff. cbn [In]. split; [intros [H|[H|[]]]|intros [H|H]]; auto.
Qed.

Lemma sset_lit_from_In ks : forall l s, In s (sset_lit_from l ks) <-> In s l \/ In s ks.
Proof.
  induction ks as [|k r IH]; intros l s; cbn [sset_lit_from In]; [tauto|].
  rewrite IH, sset_ins_In. split; [intros [[H|H]|H]|intros [H|[H|H]]]; auto.
Qed.

(* PrevSelectedPeers returns the map as it is *)
Lemma prev_selected_gen rs : RequestState_PrevSelectedPeers rs = Some (RequestState_SelectedPeers rs).
Proof. reflexivity. Qed.

(* AddSelectedPeer never panics; afterwards the map is non-nil and holds exactly what it held
   before, the host:port and its host *)
Lemma add_selected_gen rs hp : exists rs',
  RequestState_AddSelectedPeer rs hp = Some rs' /\
  sset_isnil (RequestState_SelectedPeers rs') = false /\
  forall s, In s (sset_elems (RequestState_SelectedPeers rs')) <->
            In s (sset_elems (RequestState_SelectedPeers rs)) \/ s = hp \/ s = host_of hp.
Proof.
  unfold RequestState_AddSelectedPeer. rewrite getHost_host_of.
  destruct rs as [[l|]]; cbn [RequestState_SelectedPeers sset_isnil set_RequestState_SelectedPeers sset_add].
  - eexists. split; [reflexivity|].
    cbn [RequestState_SelectedPeers set_RequestState_SelectedPeers sset_isnil sset_elems]. split; [reflexivity|].
    intros s. rewrite !sset_ins_In. tauto.
  - eexists. split; [reflexivity|].
    cbn [RequestState_SelectedPeers set_RequestState_SelectedPeers sset_isnil sset_elems sset_lit]. split; [reflexivity|].
    intros s. rewrite sset_lit_from_In. cbn [In]. split; [intros [[]|[H|[H|[]]]]|intros [[]|[H|H]]]; auto.
Qed.

(* membership in the generated set = membership in the hand model's list (Model/Retry.v) *)
Lemma add_selected_model rs hp sel :
  (forall s, In s (sset_elems (RequestState_SelectedPeers rs)) <-> In s sel) ->
  exists rs', RequestState_AddSelectedPeer rs hp = Some rs' /\
    forall s, In s (sset_elems (RequestState_SelectedPeers rs')) <-> In s (add_selected sel hp).
Proof.
  intros H. destruct (add_selected_gen rs hp) as (rs' & E & _ & M). exists rs'. split; [exact E|].
  intros s. rewrite M, H. unfold add_selected. rewrite in_app_iff. cbn [In].
  change (get_host hp) with (host_of hp).
  split; [intros [A|[A|A]]|intros [A|[A|[A|[]]]]]; auto.
Qed.

(* ---------------------------------------------------------------- load of a peer *)

(* a generated Connection / Peer seen as the model's conn / peerconns *)
Definition conn_of (c : Connection) : conn :=
  mkConn (zlen (messageExchangeSet_exchanges (Connection_inbound c)))
         (zlen (messageExchangeSet_exchanges (Connection_outbound c))).
Definition peerconns_of (p : Peer) : peerconns :=
  mkPC (map conn_of (Peer_inboundConnections p)) (map conn_of (Peer_outboundConnections p)).

Definition count_body : Connection -> Z -> option Z :=
  fun c count =>
  match messageExchangeSet_count (Connection_outbound c) with None => None | Some x'1 =>
  let count := (wrapS 64 (count + x'1)) in
  Some count
  end.

Lemma zsum_nonneg l : (forall x, In x l -> 0 <= x) -> 0 <= zsum l.
Proof.
  induction l as [|x r IH]; cbn [zsum fold_right]; intros H; [lia|].
  pose proof (H x (or_introl eq_refl)). pose proof (IH (fun y Hy => H y (or_intror Hy))). fold (zsum r). lia.
Qed.

Lemma conn_out_nonneg cs x : In x (map cn_out (map conn_of cs)) -> 0 <= x.
Proof.
  rewrite map_map. intros H. apply in_map_iff in H as (c & <- & _). cbn [conn_of cn_out]. unfold zlen. lia.
Qed.

Lemma wrapS64_id x : - 2 ^ 63 <= x < 2 ^ 63 -> wrapS 64 x = x.
Proof. intros H. apply wrapS_id; [lia|]. exact H. Qed.

Lemma count_loop cs : forall acc, 0 <= acc -> acc + zsum (map cn_out (map conn_of cs)) < 2 ^ 63 ->
  go_range_list cs count_body acc = Some (acc + zsum (map cn_out (map conn_of cs))).
Proof.
  induction cs as [|c r IH]; intros acc H0 Hb; cbn [go_range_list map zsum fold_right]; [f_equal; lia|].
  cbn [map zsum fold_right] in Hb. fold (zsum (map cn_out (map conn_of r))) in *.
  assert (Hr : 0 <= zsum (map cn_out (map conn_of r))) by (apply zsum_nonneg, conn_out_nonneg).
  assert (Hc : 0 <= cn_out (conn_of c)) by (cbn [conn_of cn_out]; unfold zlen; lia).
  unfold count_body at 1. unfold messageExchangeSet_count.
  change (zlen (messageExchangeSet_exchanges (Connection_outbound c))) with (cn_out (conn_of c)).
  rewrite wrapS64_id by lia. rewrite IH by lia. f_equal. lia.
Qed.

(* NumConnections: the lengths of the two lists, inbound first *)
Lemma num_connections_gen p :
  Peer_NumConnections p = Some (zlen (pc_inbound (peerconns_of p)), zlen (pc_outbound (peerconns_of p))).
Proof. unfold Peer_NumConnections, peerconns_of, zlen. cbn [pc_inbound pc_outbound]. now rewrite !map_length. Qed.

(* NumPendingOutbound: our calls in flight over the outbound AND the inbound connections *)
Lemma num_pending_gen p : pending_calls (peerconns_of p) < 2 ^ 63 ->
  Peer_NumPendingOutbound p = Some (pending_calls (peerconns_of p)).
Proof.
  unfold pending_calls, peerconns_of. cbn [pc_inbound pc_outbound]. intros Hb.
  assert (Hi : 0 <= zsum (map cn_out (map conn_of (Peer_inboundConnections p)))) by (apply zsum_nonneg, conn_out_nonneg).
  assert (Ho : 0 <= zsum (map cn_out (map conn_of (Peer_outboundConnections p)))) by (apply zsum_nonneg, conn_out_nonneg).
  unfold Peer_NumPendingOutbound. change (fun (c : Connection) (count : Z) => _) with count_body.
  rewrite count_loop by lia. rewrite count_loop by lia. f_equal; lia.
Qed.
