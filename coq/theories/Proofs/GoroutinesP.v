(* Proofs about Model/Goroutines.v. *)
From Coq Require Import ZArith List Bool Lia ZifyBool.
From Verif Require Import Base.Wire Gen.GenConsts Gen.GenSites Model.MexDrain Model.Goroutines.
Import ListNotations.
Local Open Scope Z_scope.

(* ------------------------------------------------------------------ ledger vs generated go sites *)

Lemma zlist_eqb_eq a b : zlist_eqb a b = true <-> a = b.
Proof.
  revert b. induction a as [|x a IH]; intros [|y b]; cbn [zlist_eqb]; split; intros H;
    try reflexivity; try discriminate.
  - apply andb_true_iff in H as [H1 H2]. apply IH in H2. f_equal; [lia|exact H2].
  - injection H as -> ->. rewrite Z.eqb_refl. cbn. apply IH. reflexivity.
Qed.

Lemma ledger_covers_go_sites : ledger_covers go_sites = true.
Proof. vm_compute. reflexivity. Qed.

Lemma ledger_is_current_go_sites : ledger_is_current go_sites = true.
Proof. vm_compute. reflexivity. Qed.

(* every `go` statement of package tchannel (as regenerated from the source) has a ledger entry *)
Theorem ledger_covers_every_go_statement : forall site,
  In site go_sites ->
  exists e, In e ledger /\ g_is_go e = true /\ g_fn e = fst site /\ g_text e = snd site.
Proof.
  intros site Hin. pose proof ledger_covers_go_sites as H. unfold ledger_covers in H.
  rewrite forallb_forall in H. specialize (H site Hin). apply existsb_exists in H as (e & He & Hm).
  exists e. unfold entry_matches in Hm. apply andb_true_iff in Hm as [Hm H3]. apply andb_true_iff in Hm as [H1 H2].
  apply zlist_eqb_eq in H2, H3. auto.
Qed.

(* and every `go` entry of the ledger still exists in the source *)
Theorem ledger_has_no_stale_go_entry : forall e,
  In e ledger -> g_is_go e = true ->
  exists site, In site go_sites /\ g_fn e = fst site /\ g_text e = snd site.
Proof.
  intros e Hin Hgo. pose proof ledger_is_current_go_sites as H. unfold ledger_is_current in H.
  rewrite forallb_forall in H. specialize (H e Hin). rewrite Hgo in H. cbn [negb orb] in H.
  apply existsb_exists in H as (s & Hs & Hm). exists s. unfold entry_matches in Hm.
  apply andb_true_iff in Hm as [Hm H3]. apply andb_true_iff in Hm as [_ H2].
  apply zlist_eqb_eq in H2, H3. auto.
Qed.

(* ------------------------------------------------------------------ one connection *)

Record TInv (c : tconn) : Prop := {
  v_stop : t_stop c = (t_state c =? c_connectionClosed);
  v_wr2 : t_wr c = 2 -> t_sock c = true;
  v_wr1 : t_wr c = 1 -> t_sock c = true;
  v_sock : t_sock c = true -> t_cnc c = true /\ (t_health c = 0 \/ t_hquit c = true)
}.

(* the fields that checkExchanges / close / stoppedExchanges leave alone *)
Definition same_io (c c' : tconn) : Prop :=
  t_sock c' = t_sock c /\ t_cnc c' = t_cnc c /\ t_health c' = t_health c /\ t_hquit c' = t_hquit c /\
  t_wr c' = t_wr c /\ t_rd c' = t_rd c /\ t_rfail c' = t_rfail c /\ t_wfail c' = t_wfail c.

Lemma same_io_refl c : same_io c c.
Proof. unfold same_io. tauto. Qed.
Lemma same_io_trans a b c : same_io a b -> same_io b c -> same_io a c.
Proof. unfold same_io. intuition congruence. Qed.

Definition stop_ok (c : tconn) : Prop := t_stop c = (t_state c =? c_connectionClosed).

Lemma check_exchanges_io c : same_io c (check_exchanges c).
Proof.
  unfold check_exchanges.
  repeat match goal with |- context [if ?b then _ else _] => destruct b end;
    unfold same_io; cbn; tauto.
Qed.

Ltac lit := repeat match goal with
  | |- context [Z.eqb (Zpos ?a) (Zpos ?b)] =>
      let v := eval vm_compute in (Z.eqb (Zpos a) (Zpos b)) in change (Z.eqb (Zpos a) (Zpos b)) with v
  end.
Ltac red1 := cbn -[Z.eqb]; lit; cbn -[Z.eqb].

Lemma check_exchanges_stop c : stop_ok c -> stop_ok (check_exchanges c).
Proof.
  unfold stop_ok, check_exchanges. unfold c_connectionClosed, c_connectionStartClose, c_connectionInboundClosed.
  intros H.
  destruct (t_state c =? 4) eqn:E4; destruct (t_stopped_ex c) eqn:Esx; red1.
  all: destruct (t_state c =? 2) eqn:E2; destruct (t_relay c =? 0) eqn:Er; red1; try lia.
  all: destruct (t_inb c =? 0) eqn:Ei; red1; rewrite ?E2, ?E4; red1; try lia.
  all: destruct (t_state c =? 3) eqn:E3; destruct (t_outb c =? 0) eqn:Eo; red1; rewrite ?E2, ?E3, ?E4; red1; try lia.
Qed.

Lemma conn_close_io c : same_io c (conn_close c).
Proof.
  unfold conn_close. destruct (t_state c =? c_connectionActive); [|apply same_io_refl].
  eapply same_io_trans; [|apply check_exchanges_io]. unfold same_io. cbn. tauto.
Qed.

Lemma conn_close_stop c : stop_ok c -> stop_ok (conn_close c).
Proof.
  unfold conn_close. intros H. destruct (t_state c =? c_connectionActive) eqn:E; [|exact H].
  apply check_exchanges_stop. unfold stop_ok in *. cbn. rewrite H.
  unfold c_connectionActive, c_connectionClosed, c_connectionStartClose in *. lia.
Qed.

Lemma set_stopped_ex_io c : same_io c (set_stopped_ex c).
Proof. unfold same_io. cbn. tauto. Qed.

Lemma stop_health_fields c :
  let c' := stop_health c in
  t_sock c' = t_sock c /\ t_cnc c' = t_cnc c /\ t_health c' = t_health c /\ t_wr c' = t_wr c /\ t_rd c' = t_rd c /\
  t_state c' = t_state c /\ t_stop c' = t_stop c /\ (t_health c = 0 \/ t_hquit c' = true) /\ (t_hquit c = true -> t_hquit c' = true).
Proof.
  unfold stop_health. destruct (t_health c =? 0) eqn:E; cbn; repeat split; try tauto; try lia.
Qed.

(* a tactic-free summary of connection_error *)
Lemma connection_error_spec c : TInv c ->
  let c' := connection_error c in
  stop_ok c' /\ t_sock c' = t_sock c /\ t_cnc c' = t_cnc c /\ t_health c' = t_health c /\ t_wr c' = t_wr c /\
  t_rd c' = t_rd c /\ (t_health c = 0 \/ t_hquit c' = true) /\ (t_hquit c = true -> t_hquit c' = true).
Proof.
  intros [Hstop _ _ _]. unfold connection_error. cbn zeta.
  pose proof (stop_health_fields c) as (S1 & S2 & S3 & S4 & S5 & S6 & S7 & S8 & S9). cbn zeta in *.
  set (c1 := stop_health c) in *.
  assert (Hs1 : stop_ok c1) by (unfold stop_ok; rewrite S6, S7; exact Hstop).
  pose proof (conn_close_io c1) as I2. pose proof (conn_close_stop c1 Hs1) as Hs2.
  set (c2 := conn_close c1) in *.
  pose proof (set_stopped_ex_io c2) as I3.
  assert (Hs3 : stop_ok (set_stopped_ex c2)) by (unfold stop_ok in *; cbn; exact Hs2).
  set (c3 := set_stopped_ex c2) in *.
  pose proof (check_exchanges_io c3) as I4. pose proof (check_exchanges_stop c3 Hs3) as Hs4.
  unfold same_io in *. intuition congruence.
Qed.

Lemma TInv_init h : TInv (tconn_init h).
Proof. constructor; cbn; try discriminate; try reflexivity. Qed.

Lemma TInv_of_same_io c c' : TInv c -> same_io c c' -> stop_ok c' -> TInv c'.
Proof.
  intros [H1 H2 H3 H4] (S1 & S2 & S3 & S4 & S5 & _) Hs. constructor.
  - exact Hs.
  - rewrite S5, S1. exact H2.
  - rewrite S5, S1. exact H3.
  - rewrite S1, S2, S3, S4. exact H4.
Qed.

Lemma TInv_step c l c' : TInv c -> tstep true c l = Some c' -> TInv c'.
Proof.
  intros HI Hs. unfold tstep in Hs. destruct (negb (tenabled c l)) eqn:Hen; [discriminate|].
  injection Hs as <-. apply negb_false_iff in Hen.
  destruct l; cbn [tenabled] in Hen.
  - (* TClose *) apply (TInv_of_same_io c); [exact HI|apply conn_close_io|apply conn_close_stop; apply HI].
  - (* TPeerGone *) destruct HI as [H1 H2 H3 H4]. constructor; cbn; assumption.
  - (* TWriteFault *) destruct HI as [H1 H2 H3 H4]. constructor; cbn; assumption.
  - (* TReadDeadline *) destruct HI as [H1 H2 H3 H4]. constructor; cbn; assumption.
  - (* TReadErr *)
    destruct (t_cnc c) eqn:Ec.
    + destruct HI as [H1 H2 H3 H4]. constructor; cbn; assumption.
    + pose proof (connection_error_spec c HI) as (Q1 & Q2 & Q3 & Q4 & Q5 & Q6 & Q7 & Q8). cbn zeta in *.
      destruct HI as [H1 H2 H3 H4]. constructor; cbn [with_pcs t_stop t_state t_wr t_sock t_cnc t_health t_hquit].
      * exact Q1.
      * rewrite Q5, Q2. exact H2.
      * rewrite Q5, Q2. exact H3.
      * rewrite Q2, Q3, Q4. intros Hk. destruct (H4 Hk) as [A B]. split; [exact A|]. destruct B as [B|B]; [left; exact B|right; auto].
  - (* TWriteErr, repaired: connectionError then closeNetwork *)
    pose proof (connection_error_spec c HI) as (Q1 & Q2 & Q3 & Q4 & Q5 & Q6 & Q7 & Q8). cbn zeta in *.
    set (c1 := connection_error c) in *.
    pose proof (stop_health_fields c1) as (S1 & S2 & S3 & S4 & S5 & S6 & S7 & S8 & S9). cbn zeta in *.
    unfold close_network. cbn zeta. set (c2 := stop_health c1) in *.
    constructor; cbn [with_pcs t_stop t_state t_wr t_sock t_cnc t_health t_hquit].
    + rewrite S6, S7. exact Q1.
    + reflexivity.
    + reflexivity.
    + intros _. split; [reflexivity|]. rewrite S3. destruct S8 as [S8|S8]; [left; exact S8|right; exact S8].
  - (* TWriterStop *)
    pose proof (stop_health_fields c) as (S1 & S2 & S3 & S4 & S5 & S6 & S7 & S8 & S9). cbn zeta in *.
    unfold close_network. cbn zeta. set (c2 := stop_health c) in *. destruct HI as [H1 H2 H3 H4].
    constructor; cbn [with_pcs t_stop t_state t_wr t_sock t_cnc t_health t_hquit].
    + rewrite S6, S7. exact H1.
    + reflexivity.
    + reflexivity.
    + intros _. split; [reflexivity|]. rewrite S3. exact S8.
  - (* TWriterDeferred *)
    apply andb_true_iff in Hen as [Hw _]. destruct HI as [H1 H2 H3 H4].
    constructor; cbn [with_pcs t_stop t_state t_wr t_sock t_cnc t_health t_hquit]; try assumption.
    + intros _. apply H3. lia.
    + intros H. discriminate.
  - (* THealthExit *)
    destruct HI as [H1 H2 H3 H4].
    constructor; cbn [with_pcs t_stop t_state t_wr t_sock t_cnc t_health t_hquit]; try assumption.
    intros Hk. destruct (H4 Hk) as [A B]. apply andb_true_iff in Hen as [_ Hq]. split; [exact A|right; exact Hq].
  - (* THealthFail *)
    pose proof (conn_close_io c) as (S1 & S2 & S3 & S4 & S5 & _). pose proof (conn_close_stop c (v_stop c HI)) as Hs.
    destruct HI as [H1 H2 H3 H4].
    constructor; cbn [with_pcs t_stop t_state t_wr t_sock t_cnc t_health t_hquit].
    + exact Hs.
    + rewrite S5, S1. exact H2.
    + rewrite S5, S1. exact H3.
    + rewrite S1, S2, S4. intros Hk. destruct (H4 Hk) as [A B]. split; [exact A|].
      destruct B as [B|B]; [|right; exact B]. assert (t_health c = 1) by lia. lia.
  - (* TExAdd *)
    destruct HI as [H1 H2 H3 H4]. destruct inb; constructor; cbn; assumption.
  - (* TExDone *)
    destruct inb.
    + apply (TInv_of_same_io (with_counts c (t_inb c - 1) (t_outb c) (t_relay c))).
      * destruct HI as [H1 H2 H3 H4]. constructor; cbn; assumption.
      * apply check_exchanges_io.
      * apply check_exchanges_stop. unfold stop_ok. cbn. apply HI.
    + apply (TInv_of_same_io (with_counts c (t_inb c) (t_outb c - 1) (t_relay c))).
      * destruct HI as [H1 H2 H3 H4]. constructor; cbn; assumption.
      * apply check_exchanges_io.
      * apply check_exchanges_stop. unfold stop_ok. cbn. apply HI.
  - (* TRelayAdd *)
    destruct HI as [H1 H2 H3 H4]. constructor; cbn; assumption.
  - (* TRelayDone *)
    apply (TInv_of_same_io (with_counts c (t_inb c) (t_outb c) (t_relay c - 1))).
    + destruct HI as [H1 H2 H3 H4]. constructor; cbn; assumption.
    + apply check_exchanges_io.
    + apply check_exchanges_stop. unfold stop_ok. cbn. apply HI.
  - (* TProtocolError *)
    unfold protocol_error. apply (TInv_of_same_io c); [exact HI| |].
    + eapply same_io_trans; [apply conn_close_io|apply set_stopped_ex_io].
    + pose proof (conn_close_stop c (v_stop c HI)) as Hs. unfold stop_ok in *. cbn. exact Hs.
  - (* TConnError *)
    pose proof (connection_error_spec c HI) as (Q1 & Q2 & Q3 & Q4 & Q5 & Q6 & Q7 & Q8). cbn zeta in *.
    destruct HI as [H1 H2 H3 H4]. constructor.
    + exact Q1.
    + rewrite Q5, Q2. exact H2.
    + rewrite Q5, Q2. exact H3.
    + rewrite Q2, Q3, Q4. intros Hk. destruct (H4 Hk) as [A B]. split; [exact A|]. destruct B as [B|B]; [left; exact B|right; auto].
  - (* TWriteBlock *)
    destruct HI as [H1 H2 H3 H4].
    constructor; cbn [with_pcs t_stop t_state t_wr t_sock t_cnc t_health t_hquit]; try assumption; intros H; discriminate.
  - (* TWriteReturn *)
    destruct HI as [H1 H2 H3 H4].
    constructor; cbn [with_pcs t_stop t_state t_wr t_sock t_cnc t_health t_hquit]; try assumption; intros H; discriminate.
Qed.

Lemma TInv_run ls : forall c c', TInv c -> trun true c ls = Some c' -> TInv c'.
Proof.
  induction ls as [|l r IH]; intros c c' HI Hr; cbn [trun] in Hr.
  - injection Hr as <-. exact HI.
  - destruct (tstep true c l) as [c1|] eqn:Hs; [|discriminate]. eapply IH; [|exact Hr]. eapply TInv_step; eauto.
Qed.

Lemma settled_closed_exited c :
  TInv c -> t_state c = c_connectionClosed -> tconn_settled c = true ->
  0 <= t_wr c <= 3 -> t_wr c <> 3 -> 0 <= t_rd c <= 1 ->
  tconn_exited c = true /\ t_sock c = true.
Proof.
  intros [H1 H2 H3 H4] Hst Hset Hwr Hw3 Hrd.
  unfold tconn_settled, tenabled in Hset.
  rewrite Hst in H1. rewrite Z.eqb_refl in H1.
  apply andb_true_iff in Hset as [Hset Eh]. apply andb_true_iff in Hset as [Hset Ed].
  apply andb_true_iff in Hset as [Er Es]. rewrite H1 in *.
  assert (Hw2 : t_wr c = 2) by lia.
  pose proof (H2 Hw2) as Hsock. rewrite Hsock in *. cbn [orb] in Er.
  split; [|reflexivity]. unfold tconn_exited.
  destruct (H4 eq_refl) as [_ Hh].
  assert (t_rd c = 1) by lia.
  assert (t_health c <> 1) by (destruct Hh as [Hh|Hh]; [lia|rewrite Hh in Eh; lia]).
  lia.
Qed.

(* ranges of the program counters *)
Definition pcs_ok (c : tconn) : Prop := 0 <= t_wr c <= 3 /\ 0 <= t_rd c <= 1.

Lemma check_exchanges_pcs c : pcs_ok c -> pcs_ok (check_exchanges c).
Proof. pose proof (check_exchanges_io c) as (_ & _ & _ & _ & S5 & S6 & _). unfold pcs_ok. rewrite S5, S6. tauto. Qed.
Lemma conn_close_pcs c : pcs_ok c -> pcs_ok (conn_close c).
Proof. pose proof (conn_close_io c) as (_ & _ & _ & _ & S5 & S6 & _). unfold pcs_ok. rewrite S5, S6. tauto. Qed.
Lemma stop_health_pcs c : pcs_ok c -> pcs_ok (stop_health c).
Proof. unfold stop_health, pcs_ok. destruct (t_health c =? 0); cbn; tauto. Qed.
Lemma connection_error_pcs c : pcs_ok c -> pcs_ok (connection_error c).
Proof.
  intros H. unfold connection_error. apply check_exchanges_pcs.
  assert (H2 : pcs_ok (conn_close (stop_health c))) by (apply conn_close_pcs, stop_health_pcs, H).
  unfold pcs_ok in *. cbn. exact H2.
Qed.

Lemma pcs_step fixw c l c' : pcs_ok c -> tstep fixw c l = Some c' -> pcs_ok c'.
Proof.
  intros HP Hs. unfold tstep in Hs. destruct (negb (tenabled c l)); [discriminate|]. injection Hs as <-.
  destruct l.
  - apply conn_close_pcs, HP.
  - exact HP.
  - exact HP.
  - exact HP.
  - destruct (t_cnc c); [|pose proof (connection_error_pcs c HP) as H]; unfold pcs_ok in *; cbn; lia.
  - pose proof (connection_error_pcs c HP) as H. destruct fixw.
    + unfold close_network. cbn zeta. pose proof (stop_health_pcs _ H) as H2. unfold pcs_ok in *. cbn. lia.
    + unfold pcs_ok in *. cbn. lia.
  - unfold close_network. cbn zeta. pose proof (stop_health_pcs _ HP) as H2. unfold pcs_ok in *. cbn. lia.
  - unfold pcs_ok in *. cbn. lia.
  - unfold pcs_ok in *. cbn. lia.
  - pose proof (conn_close_pcs c HP) as H. unfold pcs_ok in *. cbn. lia.
  - destruct inb; exact HP.
  - destruct inb; apply check_exchanges_pcs; exact HP.
  - exact HP.
  - apply check_exchanges_pcs. exact HP.
  - unfold protocol_error. pose proof (conn_close_pcs c HP) as H. unfold pcs_ok in *. cbn. exact H.
  - apply connection_error_pcs, HP.
  - unfold pcs_ok in *. cbn. lia.
  - unfold pcs_ok in *. cbn. lia.
Qed.

Lemma pcs_run fixw ls : forall c c', pcs_ok c -> trun fixw c ls = Some c' -> pcs_ok c'.
Proof.
  induction ls as [|l r IH]; intros c c' HI Hr; cbn [trun] in Hr.
  - injection Hr as <-. exact HI.
  - destruct (tstep fixw c l) as [c1|] eqn:Hs; [|discriminate]. eapply IH; [|exact Hr]. eapply pcs_step; eauto.
Qed.

(* A connection of the repaired code that reached state Closed, whose frame writer is not held
   inside a Write by a peer that does not read, and whose goroutines have taken every exit step
   open to them: reader, writer and health checker have exited and the library has closed the
   socket -- after ANY history of closes, faults, errors and calls. *)
Theorem conn_goroutines_exit : forall health ls c,
  trun true (tconn_init health) ls = Some c ->
  t_state c = c_connectionClosed -> tconn_settled c = true ->
  t_wr c <> 3 ->
  tconn_exited c = true /\ t_sock c = true.
Proof.
  intros health ls c Hr Hst Hset Hw3.
  pose proof (TInv_run ls _ _ (TInv_init health) Hr) as HI.
  assert (HP0 : pcs_ok (tconn_init health)) by (unfold pcs_ok; cbn; lia).
  destruct (pcs_run true ls _ _ HP0 Hr) as [P1 P2].
  apply settled_closed_exited; assumption.
Qed.

(* The code before the repair: a write error while reads stay blocked leaves the connection
   Closed, nothing more can happen, the socket was never closed and the reader never exits. *)
Theorem conn_goroutines_exit_unrepaired_refuted :
  exists ls c, trun false (tconn_init false) ls = Some c /\
    t_state c = c_connectionClosed /\ tconn_settled c = true /\ t_rd c = 0 /\ t_sock c = false.
Proof.
  exists [TWriteFault; TWriteErr; TWriterDeferred].
  eexists. split; [vm_compute; reflexivity|]. vm_compute. repeat split; reflexivity.
Qed.

(* Without the hypothesis on the writer the statement is false also for the repaired code:
   a frame writer blocked in Write by a peer that stopped reading never sees stopCh; the
   connection is Closed, the socket stays open, reader and writer stay. *)
Theorem conn_goroutines_exit_stalled_writer_refuted :
  exists ls c, trun true (tconn_init false) ls = Some c /\
    t_state c = c_connectionClosed /\ tconn_settled c = true /\ t_wr c = 3 /\ t_rd c = 0 /\ t_sock c = false.
Proof.
  exists [TWriteBlock; TClose].
  eexists. split; [vm_compute; reflexivity|]. vm_compute. repeat split; reflexivity.
Qed.

(* ------------------------------------------------------------------ the world *)

Record WInv (w : world) : Prop := {
  wi_conns : Forall (fun c => TInv c /\ pcs_ok c) (w_conns w);
  wi_close : c_ChannelStartClose <= w_state w -> w_lclosed w = true /\ (w_sweep w = 0 \/ w_sweepstop w = true)
}.

Lemma Forall_upd_nth {A} (P : A -> Prop) n x l : Forall P l -> P x -> Forall P (upd_nth n x l).
Proof.
  revert n. induction l as [|y r IH]; intros n HF Hx.
  - destruct n; cbn [upd_nth]; constructor.
  - inversion HF; subst. destruct n; cbn [upd_nth]; constructor; auto.
Qed.

Lemma nth_z_In {A} (l : list A) i x : nth_z l i = Some x -> In x l.
Proof. unfold nth_z. destruct (i <? 0); [discriminate|]. apply nth_error_In. Qed.

Lemma WInv_init l s : WInv (world_init l s).
Proof.
  constructor; cbn; [constructor|]. unfold c_ChannelStartClose, c_ChannelListening, c_ChannelClient.
  destruct l; lia.
Qed.

Lemma WInv_step w l w' : WInv w -> wstep true w l = Some w' -> WInv w'.
Proof.
  intros [HC HK] Hs. destruct l; cbn [wstep] in Hs.
  - destruct (nth_z (w_conns w) i) as [c|] eqn:Hn; [|discriminate].
    destruct (tstep true c l) as [c'|] eqn:Ht; [|discriminate]. injection Hs as <-.
    constructor; cbn; [|exact HK]. apply Forall_upd_nth; [exact HC|].
    rewrite Forall_forall in HC. destruct (HC c (nth_z_In _ _ _ Hn)) as [A B].
    split; [eapply TInv_step; eauto|eapply pcs_step; eauto].
  - injection Hs as <-. constructor; cbn; [|exact HK]. apply Forall_app. split; [exact HC|].
    constructor; [|constructor]. split; [apply TInv_init|unfold pcs_ok; cbn; lia].
  - destruct (w_state w =? c_ChannelClosed); injection Hs as <-; [constructor; assumption|].
    constructor; cbn; [exact HC|]. intros _. split; [reflexivity|]. destruct (w_sweep w =? 0) eqn:E; [left; lia|right; reflexivity].
  - destruct ((c_ChannelStartClose <=? w_state w) && (w_state w <? st) && (st <=? c_ChannelClosed)) eqn:E; [|discriminate].
    injection Hs as <-. constructor; cbn; [exact HC|]. intros _. apply HK. lia.
  - destruct ((w_accept w =? 1) && w_lclosed w && (c_ChannelStartClose <=? w_state w)); [|discriminate].
    injection Hs as <-. constructor; cbn; assumption.
  - destruct ((w_sweep w =? 1) && w_sweepstop w) eqn:E; [|discriminate].
    injection Hs as <-. constructor; cbn; [exact HC|]. intros H. destruct (HK H) as [A B]. split; [exact A|]. right. lia.
  - injection Hs as <-. constructor; cbn; assumption.
  - destruct (nth_z (w_calls w) i); [|discriminate]. injection Hs as <-. constructor; cbn; assumption.
  - destruct (nth_z (w_calls w) i); [|discriminate]. injection Hs as <-. constructor; cbn; assumption.
  - destruct (nth_z (w_calls w) i); [|discriminate]. injection Hs as <-. constructor; cbn; assumption.
  - destruct (nth_z (w_calls w) i) as [k|]; [|discriminate]. destruct (call_watch_enabled k); [|discriminate].
    injection Hs as <-. constructor; cbn; assumption.
  - injection Hs as <-. constructor; cbn; assumption.
  - destruct (nth_z (w_hands w) i); [|discriminate]. injection Hs as <-. constructor; cbn; assumption.
  - destruct (nth_z (w_hands w) i); [|discriminate]. injection Hs as <-. constructor; cbn; assumption.
  - destruct (nth_z (w_hands w) i); [|discriminate]. injection Hs as <-. constructor; cbn; assumption.
  - destruct (nth_z (w_hands w) i) as [h|]; [|discriminate]. destruct (hand_exit_enabled h); [|discriminate].
    injection Hs as <-. constructor; cbn; assumption.
Qed.

Lemma WInv_run ls : forall w w', WInv w -> wrun true w ls = Some w' -> WInv w'.
Proof.
  induction ls as [|l r IH]; intros w w' HI Hr; cbn [wrun] in Hr.
  - injection Hr as <-. exact HI.
  - destruct (wstep true w l) as [w1|] eqn:Hs; [|discriminate]. eapply IH; [|exact Hr]. eapply WInv_step; eauto.
Qed.

(* Main theorem: in every state reachable by the repaired code in which the channel and all
   its connections are Closed, every call context is done and its handler returned, every
   init deadline has passed, and no goroutine has an exit step left to take: every goroutine
   of every kind in the ledger has exited, and every socket was closed by the library. *)
Theorem world_goroutines_exit : forall listening sweep ls w,
  wrun true (world_init listening sweep) ls = Some w ->
  world_quiescent w = true -> world_settled w = true ->
  (forall e, In e ledger -> kind_exited (g_kind e) w = true) /\
  forallb t_sock (w_conns w) = true.
Proof.
  intros listening sweep ls w Hr Hq Hs.
  destruct (WInv_run ls _ _ (WInv_init listening sweep) Hr) as [HC HK].
  unfold world_quiescent in Hq. apply andb_true_iff in Hq as [Hq Qh]. apply andb_true_iff in Hq as [Hq Qk].
  apply andb_true_iff in Hq as [Qs Qc].
  unfold world_settled in Hs. apply andb_true_iff in Hs as [Hs Sh]. apply andb_true_iff in Hs as [Hs Sk].
  apply andb_true_iff in Hs as [Hs Sc]. apply andb_true_iff in Hs as [Sa Sw].
  assert (Hstate : c_ChannelStartClose <= w_state w) by (unfold c_ChannelStartClose, c_ChannelClosed in *; lia).
  destruct (HK Hstate) as [Hl Hsw].
  assert (Hconn : forall c, In c (w_conns w) -> tconn_exited c = true /\ t_sock c = true).
  { intros c Hin. rewrite Forall_forall in HC. destruct (HC c Hin) as [HI [P1 P2]].
    rewrite forallb_forall in Qc, Sc. specialize (Qc c Hin). apply settled_closed_exited; auto; lia. }
  split.
  - intros e He. destruct (g_kind e); cbn [kind_exited].
    + rewrite Hl in Sa. lia.
    + apply forallb_forall. intros h Hin. rewrite forallb_forall in Qh, Sh.
      specialize (Qh h Hin). specialize (Sh h Hin). unfold hand_exit_enabled in Sh. rewrite Qh in Sh.
      rewrite orb_true_r in Sh. cbn [orb] in Sh. lia.
    + apply forallb_forall. intros c Hin. destruct (Hconn c Hin) as [Hx _]. unfold tconn_exited in Hx. lia.
    + apply forallb_forall. intros c Hin. destruct (Hconn c Hin) as [Hx _]. unfold tconn_exited in Hx. lia.
    + apply forallb_forall. intros c Hin. destruct (Hconn c Hin) as [Hx _]. unfold tconn_exited in Hx. lia.
    + destruct Hsw as [Hsw|Hsw]; [lia|]. rewrite Hsw in Sw. lia.
    + apply forallb_forall. intros k Hin. rewrite forallb_forall in Qk. specialize (Qk k Hin). lia.
    + apply forallb_forall. intros k Hin. rewrite forallb_forall in Qk, Sk.
      specialize (Qk k Hin). specialize (Sk k Hin). unfold call_watch_enabled in Sk.
      apply andb_true_iff in Qk as [Qk1 _]. rewrite Qk1 in Sk. cbn [orb] in Sk. lia.
    + reflexivity.
    + reflexivity.
  - apply forallb_forall. intros c Hin. apply Hconn. exact Hin.
Qed.
