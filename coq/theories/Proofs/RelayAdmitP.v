(* C03, id re-use on a relay connection (relay.go getDestination / relayItems.Entomb).

   1. The admission step of the relay model (Model/RelayItems.v, instruction IGetDest, the model
      used by C09/C10) IS the decision go2v regenerates from Relayer.getDestination on every
      run (Gen/GenRelayAdmit.v): a call req is refused as a duplicate exactly when the
      connection's outbound table holds ANY item for its id -- live or tombstone.
   2. Why that matters: the tombstone collection deletes BY ID; if it meets a live item (whose
      timer is active) the model reaches the Go panic of relayTimer.Release.
   3. A re-used id that finds an item is dropped without touching items, timers or collections. *)
From Coq Require Import ZArith List Bool Lia.
From Verif Require Import Base.Wrap Gen.GenConsts Gen.GenFrame Gen.GenRelayAdmit Model.RelayItems
  Proofs.RelayAssocP.
Import ListNotations.
Local Open Scope Z_scope.

(* what r.outbound.Get(id, false) returns for the id of a call req read on connection k *)
Definition out_found (st : state) (k id : Z) : bool :=
  match lookup key_eqb (k, 0, id) (items st) with Some _ => true | None => false end.
Definition out_tomb (st : state) (k id : Z) : bool :=
  match lookup key_eqb (k, 0, id) (items st) with Some it => it_tomb it | None => false end.

(* the model's getDestination step, written with the generated decision functions *)
Definition getdest_generated (st : state) (k : Z) (f : frame) (e : env) (c : Z) : state * list instr :=
  let found := out_found st k (f_id f) in
  let tomb := out_tomb st k (f_id f) in
  let dest_ok := negb (e_dest e =? -1) in
  let conn_ok := 0 <=? e_dest e in
  if relayGetDestOk found tomb dest_ok conn_ok then (st, [IRemoteCan k f e c (e_dest e)])
  else if relayGetDestErr found tomb dest_ok conn_ok =? 1 then
    (st, [ICb c (CbFailed reason_duplicate); IDec k; ICb c CbEnd])
  else if relayGetDestErr found tomb dest_ok conn_ok =? 2 then
    (st, [ICb c (CbFailed reason_bad_host); ISendErr k (f_id f) c_ErrCodeDeclined; IDec k; ICb c CbEnd])
  else (st, [ICb c (CbFailed reason_conn_failed); ISendErr k (f_id f) c_ErrCodeNetwork; IDec k; ICb c CbEnd]).

Lemma getdest_tie : forall cf st k f e c room,
  exec cf st (IGetDest k f e c) room = getdest_generated st k f e c.
Proof.
  intros cf st k f e c room. unfold getdest_generated, out_found, out_tomb. cbn [exec].
  destruct (lookup key_eqb (k, 0, f_id f) (items st)) as [it|].
  - destruct (it_tomb it), (negb (e_dest e =? -1)), (0 <=? e_dest e); reflexivity.
  - destruct (e_dest e =? -1) eqn:E1; cbn [negb].
    + destruct (0 <=? e_dest e); reflexivity.
    + destruct (e_dest e <? 0) eqn:E2.
      * assert (H : (0 <=? e_dest e) = false) by (apply Z.leb_gt; apply Z.ltb_lt; exact E2). rewrite H. reflexivity.
      * assert (H : (0 <=? e_dest e) = true) by (apply Z.leb_le; apply Z.ltb_ge; exact E2). rewrite H. reflexivity.
Qed.

(* the generated decision: admitted only if no item -- tombstone or not -- is present, and a
   present item always gives the duplicate refusal (no error frame, no destination lookup) *)
Lemma admit_needs_no_item : forall found tomb dest_ok conn_ok,
  relayGetDestOk found tomb dest_ok conn_ok = true -> found = false.
Proof. intros [] [] [] []; cbn; intro H; try reflexivity; discriminate. Qed.

Lemma present_is_duplicate : forall tomb dest_ok conn_ok,
  relayGetDestOk true tomb dest_ok conn_ok = false /\ relayGetDestErr true tomb dest_ok conn_ok = 1.
Proof. intros [] [] []; split; reflexivity. Qed.

(* ... hence in the model: a call req whose id has an item (live or tomb) is dropped, and the
   step changes nothing at all in the state *)
Lemma reuse_dropped : forall cf st k f e c room it,
  lookup key_eqb (k, 0, f_id f) (items st) = Some it ->
  exec cf st (IGetDest k f e c) room = (st, [ICb c (CbFailed reason_duplicate); IDec k; ICb c CbEnd]).
Proof. intros cf st k f e c room it H. cbn [exec]. rewrite H. reflexivity. Qed.

(* the scheduled tombstone collection (relayItems.deleteTomb, the code after the fix "the relay's
   tombstone collection deletes only the tombstone it was scheduled for") that meets a LIVE item
   leaves it -- and its active timer, and everything else -- alone: only the pending collection
   is consumed.  (Before the fix the collection was relayItems.Delete: the live item was deleted
   and the release of its active timer was the Go panic "only stopped or completed timers can be
   released".) *)
Lemma gc_of_live_item_noop : forall cf st t it,
  panicked st = 0 -> mem_key t (gcs st) = true ->
  lookup key_eqb t (items st) = Some it -> it_tomb it = false ->
  step cf st (LGc t) = Some (set_gcs st (remove_one t (gcs st))).
Proof.
  intros cf st t it Hp Hm Hi Ht. unfold step. rewrite Hp, Hm. cbn [Z.eqb negb].
  rewrite (items_delete_tomb_live _ t it); [reflexivity|exact Hi|exact Ht].
Qed.

(* ---------------------------------------------------------------- example schedule *)

Definition ex_cf : config := {| cf_maxtombs := 30000; cf_cancel := false |}.
Definition ex_env : env := {| e_start := 0; e_code := 0; e_dest := 1; e_mode := 0 |}.
Definition ex_req (id : Z) : frame := {| f_mt := c_messageTypeCallReq; f_id := id; f_flags := 0; f_code := 0; f_wf := true |}.

(* call req 7 on connection 0 is relayed to connection 1 (timers 1 = destination item, 2 =
   originating item); the originating timer fires: error frame, tombstone, collection scheduled *)
Definition ex_timed_out : list label :=
  [LArrive 0 (ex_req 7) ex_env] ++ repeat (LStep (TR 0) true) 10 ++ [LFire 2] ++ repeat (LStep (TT 2) true) 7.
(* ... the same id arrives again while the tombstone exists: the reader handles it completely *)
Definition ex_reuse : list label := [LArrive 0 (ex_req 7) ex_env] ++ repeat (LStep (TR 0) true) 7.
(* ... and the collection fires *)
Definition ex_collect : list label := [LGc (0, 0, 7)].

(* ---------------------------------------------------------------- the re-use guard is necessary

   1. The schedule that was the witness for the code BEFORE the fix (two reader goroutines race on
   one call: the reader of the destination connection has looked the originating item up for the
   FINAL call res -- relay.Receive.afterGet: timer stopped, item copy held --; the reader of the
   source connection forwards a non-final call req continue into a full send queue and fails the
   call: tombstone, collection scheduled; the first reader goes on and finishRelayItem DELETES THE
   TOMBSTONE while its collection is pending; the id is re-used and admitted; the stale collection
   fires).  With relayItems.deleteTomb the stale collection meets a live item and leaves it alone:
   no panic, the re-using call stays in flight with its timer armed. *)
Definition race_req_more : frame := {| f_mt := c_messageTypeCallReq; f_id := 7; f_flags := 1; f_code := 0; f_wf := true |}.
Definition race_req_cont : frame := {| f_mt := c_messageTypeCallReqContinue; f_id := 7; f_flags := 1; f_code := 0; f_wf := true |}.
Definition race_res_last : frame := {| f_mt := c_messageTypeCallRes; f_id := 1; f_flags := 0; f_code := 0; f_wf := true |}.
Definition ex_early_delete : list label :=
  [LArrive 0 race_req_more ex_env] ++ repeat (LStep (TR 0) true) 10 ++
  [LArrive 1 race_res_last ex_env] ++ repeat (LStep (TR 1) true) 5 ++          (* parked after Receive's Get *)
  [LArrive 0 race_req_cont ex_env] ++ repeat (LStep (TR 0) false) 17 ++        (* destination queue full: fail, entomb *)
  repeat (LStep (TR 1) true) 5 ++                                              (* resumes: deletes the tombstones *)
  [LArrive 0 (ex_req 7) ex_env] ++ repeat (LStep (TR 0) true) 10 ++            (* id 7 re-used: admitted *)
  [LGc (0, 0, 7)].                                                             (* the stale collection *)

Lemma stale_collection_harmless :
  exists st it x, run ex_cf init ex_early_delete = Some st /\ panicked st = 0 /\ gcs st = [(1, 1, 1)] /\
    lookup key_eqb (0, 0, 7) (items st) = Some it /\ it_tomb it = false /\
    lookup Z.eqb (it_tm it) (timers st) = Some x /\ tm_armed x = true.
Proof. do 3 eexists. vm_compute. repeat split; reflexivity. Qed.

(* 2. The schedule that refuted the unguarded statement before the fix "the relay finishes
   (deletes) a relay item only if it still belongs to the call the frame path looked up": the
   reader of the destination connection has looked the originating item up for the final call res
   (timer stopped, copy held); the caller cancels the call (cancel relayed: both items deleted,
   End) and re-uses the id at once: admitted, a live item with an armed timer under the same key;
   the first reader goes on with its stale copy: finishRelayItem -> relayItems.deleteCall finds an
   item of ANOTHER call (different destination-side id) and leaves it alone.  No panic; the
   re-using call keeps its items and its armed timer. *)
Definition cn_cf : config := {| cf_maxtombs := 30000; cf_cancel := true |}.
Definition race_cancel : frame := {| f_mt := c_messageTypeCancel; f_id := 7; f_flags := 0; f_code := 0; f_wf := true |}.
Definition ex_stale_finish : list label :=
  [LArrive 0 (ex_req 7) ex_env] ++ repeat (LStep (TR 0) true) 10 ++
  [LArrive 1 race_res_last ex_env] ++ repeat (LStep (TR 1) true) 5 ++          (* parked after Receive's Get *)
  [LArrive 0 race_cancel ex_env] ++ repeat (LStep (TR 0) true) 14 ++           (* cancel relayed: both items deleted, End *)
  [LArrive 0 (ex_req 7) ex_env] ++ repeat (LStep (TR 0) true) 10 ++            (* id 7 re-used: admitted *)
  repeat (LStep (TR 1) true) 4.                                                (* resumes: finishRelayItem with the stale copy *)

Lemma stale_finish_harmless :
  exists st it x, run cn_cf init ex_stale_finish = Some st /\ panicked st = 0 /\
    lookup key_eqb (0, 0, 7) (items st) = Some it /\ it_tomb it = false /\ it_call it = 2 /\
    lookup Z.eqb (it_tm it) (timers st) = Some x /\ tm_armed x = true /\ c_pending (get_conn st 0) = 1.
Proof. do 3 eexists. vm_compute. repeat split; reflexivity. Qed.

(* 3. The guard is STILL necessary: failRelayItem looks the item up (Get, timer stopped) and
   entombs BY ID in a second lock region, and with more than RelayMaxTombs tombstones Entomb
   deletes by id at once.  Witness (RelayMaxTombs = 1, two earlier calls timed out: two
   tombstones): the reader of the destination connection forwards a non-final call res into the
   caller's full send queue and fails the call: failRelayItem's Get has stopped the originating
   item's timer, its Entomb is still to come; the caller cancels the call (both items deleted,
   End) and re-uses the id at once (admitted, live item, armed timer); the first reader's Entomb
   finds too many tombstones and DELETES the live item of the new call: release of an active
   timer, Go panic "only stopped or completed timers can be released". *)
Definition tt_cf : config := {| cf_maxtombs := 1; cf_cancel := true |}.
Definition race_res_more : frame := {| f_mt := c_messageTypeCallRes; f_id := 3; f_flags := 1; f_code := 0; f_wf := true |}.
Definition ex_stale_fail : list label :=
  [LArrive 0 (ex_req 5) ex_env] ++ repeat (LStep (TR 0) true) 10 ++ [LFire 2] ++ repeat (LStep (TT 2) true) 7 ++   (* tombstone 1 *)
  [LArrive 0 (ex_req 6) ex_env] ++ repeat (LStep (TR 0) true) 10 ++ [LFire 4] ++ repeat (LStep (TT 4) true) 7 ++   (* tombstone 2 *)
  [LArrive 0 (ex_req 7) ex_env] ++ repeat (LStep (TR 0) true) 10 ++
  [LArrive 1 race_res_more ex_env] ++ repeat (LStep (TR 1) true) 7 ++
  [LStep (TR 1) false; LStep (TR 1) true] ++                                   (* caller's queue full; failRelayItem's Get done *)
  [LArrive 0 race_cancel ex_env] ++ repeat (LStep (TR 0) true) 14 ++           (* cancel relayed: both items deleted, End *)
  [LArrive 0 (ex_req 7) ex_env] ++ repeat (LStep (TR 0) true) 10 ++            (* id 7 re-used: admitted *)
  [LStep (TR 1) true].                                                         (* failRelayItem's Entomb: too many tombstones, Delete by id *)

Lemma reuse_unguarded_refuted :
  exists ls st, run tt_cf init ls = Some st /\ panicked st = panic_release_active.
Proof. exists ex_stale_fail. eexists. split; vm_compute; reflexivity. Qed.
