(* C09 for schedules with RE-USED request ids: every theorem of the fresh-id quantifier holds for
   the re-use schedules of [run_reuse] (Proofs/RelayReuseP.v): any interleaving in which a call req
   that re-uses an id meets, at its getDestination step, an item for that id -- the earlier call
   is IN FLIGHT (duplicate call req against a live item), timed out or failed (tombstone).  The
   duplicate is rejected without touching the item or its timer (RelaySitesP.duplicate_touches_nothing),
   so the call in flight is still ended exactly once -- by a frame, or by its timeout. *)
From Coq Require Import ZArith List Bool Lia.
From Verif Require Import Base.Wrap Gen.GenConsts Gen.GenFrame Model.RelayItems Spec.RelayAccount
  Proofs.RelayAssocP Proofs.RelayCoreP Proofs.RelayInv9P Proofs.RelayTimerP Proofs.RelayThmP Proofs.RelayReuseP.
Import ListNotations.
Local Open Scope Z_scope.

Lemma cbrel_count : forall l0 l c, cbrel l0 l -> count_end cb_is_end c l0 = count_end cb_is_end c l.
Proof.
  intros l0 l c H. induction H as [|[c0 x0] [c1 x1] l0 l [Hf Hs] H IH]; [reflexivity|].
  cbn in Hf, Hs. subst c1. cbn [count_end]. rewrite IH. f_equal.
  destruct Hs as [->|[-> ->]]; reflexivity.
Qed.

Lemma trel_nil : forall sn l0 l, RelayReuseP.trel sn l0 l -> l = [] -> l0 = [].
Proof. intros sn l0 l H E. subst. inversion H. reflexivity. Qed.

Lemma trel_in : forall sn l0 l t c, RelayReuseP.trel sn l0 l -> In (t, c) l -> exists c0, In (t, c0) l0 /\ code_rel sn c0 c.
Proof.
  intros sn l0 l t c H. induction H as [|[t0 c0] [t1 c1] l0 l [Hk Hc] H IH]; intro Hin; [contradiction|].
  cbn in Hk, Hc. subst t1. destruct Hin as [E|Hin].
  - inversion E. subst. exists c0. split; [left; reflexivity|exact Hc].
  - destruct (IH Hin) as (c2&A&B). exists c2. split; [right; exact A|exact B].
Qed.

Section Reuse.
  Variables (cf : config) (ls : list label) (st : state).
  Hypothesis H : run_reuse cf init ls = Some st.

  Lemma reuse_quiescent : forall st0, coreq st0 st -> RelayReuseP.trel (seen st) (threads st0) (threads st) ->
    quiescent st -> quiescent st0.
  Proof.
    intros st0 (_&_&Ht&_) Htr [Hth Harm]. split; [eapply trel_nil; eassumption|].
    intros tm x Hx. rewrite Ht in Hx. apply (Harm _ _ Hx).
  Qed.

  (* End at most once per call, in every reachable state of a re-use schedule *)
  Theorem reuse_end_at_most_once : end_at_most_once cb_is_end (cblog st).
  Proof.
    destruct (reuse_simulated_full cf ls st H) as (ls0&st0&R&Hc&Ht&Hl). intro c.
    rewrite <- (cbrel_count _ _ c Hl). apply (end_at_most_once_thm cf ls0 st0 R c).
  Qed.

  (* ... exactly once for every started call once nothing is left to run and no timeout is pending *)
  Theorem reuse_end_exactly_once : quiescent st -> forall c, 1 <= c < next_call st ->
    end_exactly_once cb_is_end c (cblog st).
  Proof.
    intros Hq c Hcr. destruct (reuse_simulated_full cf ls st H) as (ls0&st0&R&Hc&Ht&Hl).
    unfold end_exactly_once. rewrite <- (cbrel_count _ _ c Hl).
    apply (end_exactly_once_thm cf ls0 st0 R (reuse_quiescent st0 Hc Ht Hq) c).
    destruct Hc as (_&_&_&_&Hn&_). rewrite Hn. exact Hcr.
  Qed.

  (* ... and then, after the tombstone collections, nothing is left: no item, no pending count *)
  Theorem reuse_forgotten : quiescent st -> gcs st = [] ->
    items st = [] /\ forall k, c_pending (get_conn st k) = 0.
  Proof.
    intros Hq Hg. destruct (reuse_simulated_full cf ls st H) as (ls0&st0&R&Hc&Ht&Hl).
    pose proof (reuse_quiescent st0 Hc Ht Hq) as Hq0.
    destruct Hc as (C1&C2&C3&C4&C5&C6&C7).
    destruct (forgotten_thm cf ls0 st0 R Hq0 (eq_trans C6 Hg)) as [Hi Hp].
    split; [rewrite <- C2; exact Hi|]. intro k. unfold get_conn. rewrite <- C1. apply (Hp k).
  Qed.

  (* the timer protocol: no Go panic of relay_timer_pool.go, a stopped timer never fires, a
     released timer is inactive and belongs to no item *)
  Theorem reuse_timer_protocol :
    panicked st = 0 /\
    forall tm x, lookup Z.eqb tm (timers st) = Some x ->
      (tm_stopped x = true -> tm_armed x = false /\ tm_active x = false /\
         forall code, In (TT tm, code) (threads st) -> code <> [ITimerRun tm]) /\
      (tm_released x = true -> tm_active x = false /\ forall t it, In (t, it) (items st) -> it_tm it <> tm).
  Proof.
    destruct (reuse_simulated_full cf ls st H) as (ls0&st0&R&Hc&Ht&Hl).
    destruct Hc as (C1&C2&C3&C4&C5&C6&C7).
    destruct (timer_protocol_thm cf ls0 st0 R) as [Hp Hall]. split; [rewrite <- C7; exact Hp|].
    intros tm x Hx. rewrite <- C3 in Hx. destruct (Hall tm x Hx) as [A B]. split.
    - intro Hs. destruct (A Hs) as (A1&A2&A3). split; [exact A1|]. split; [exact A2|].
      intros code Hin Hcode. subst code. destruct (trel_in _ _ _ _ _ Ht Hin) as (c0&Hin0&Hcr).
      apply (A3 c0 Hin0). inversion Hcr as [a b HF E0 E1|]; subst.
      inversion HF as [|i0 i1 r0 r1 Hi Hr E0 E1]. subst. inversion Hr. subst. inversion Hi. reflexivity.
    - intro Hr. destruct (B Hr) as [B1 B2]. split; [exact B1|]. intros t it Hin. rewrite <- C2 in Hin. apply (B2 t it Hin).
  Qed.
End Reuse.

(* ---------------------------------------------------------------- non-vacuity *)

Definition dup_cf : config := {| cf_maxtombs := 30000; cf_cancel := true |}.
Definition dup_env : env := {| e_start := 0; e_code := 0; e_dest := 1; e_mode := 0 |}.
Definition dup_req : frame := {| f_mt := c_messageTypeCallReq; f_id := 7; f_flags := 0; f_code := 0; f_wf := true |}.

(* call req 7 is relayed (call 1; timers 1 = destination item, 2 = originating item); the SAME id
   arrives again while call 1 is in flight (call 2): rejected as a duplicate, End; the backend
   stays silent: the timeout of the originating item fires (End of call 1), then the one of the
   destination item; the tombstone collections run *)
Definition dup_live_run : list label :=
  [LArrive 0 dup_req dup_env] ++ repeat (LStep (TR 0) true) 10 ++
  [LArrive 0 dup_req dup_env] ++ repeat (LStep (TR 0) true) 7 ++
  [LFire 2] ++ repeat (LStep (TT 2) true) 7 ++
  [LFire 1] ++ repeat (LStep (TT 1) true) 4 ++
  [LGc (0, 0, 7); LGc (1, 1, 1)].

(* a rejected call races with a graceful close: the reader is between canHandleNewCall's
   increment and getDestination (the RelayHost offers no destination) when the connection is
   closed; the rejection's decrement is followed by the close check, which closes the connection *)
Definition rej_env : env := {| e_start := 0; e_code := 0; e_dest := -1; e_mode := 0 |}.
Definition close_vs_reject_run : list label :=
  [LArrive 0 dup_req rej_env; LStep (TR 0) true; LStep (TR 0) true; LClose 0] ++ repeat (LStep (TR 0) true) 6.

(* ---------------------------------------------------------------- finishRelayItem's identity check

   In fresh-id schedules the check of relayItems.deleteCall never fails for a finish that is
   about to run (invariant LInv of Proofs/RelayTimerP.v, preserved by EVERY step): whatever item
   is under the key has the destination relayer and the destination-side id the frame path looked
   up.  finishRelayItem is there the Delete it was before the fix. *)
Theorem finish_is_delete : forall cf ls st th t lk rest, run_fresh cf init ls = Some st ->
  lookup tid_eqb th (threads st) = Some (IDelete t lk :: rest) ->
  items_delete_call st t lk = items_delete st t.
Proof.
  intros cf ls st th t lk rest H Hl. destruct (reach_three cf ls st H) as (_&_&HL).
  eapply LInv_delete_is_delete; eassumption.
Qed.

(* an item of ANOTHER call under the id is left alone, with its timer and the counters *)
Theorem finish_leaves_other_call : forall cf st t lk it room,
  lookup key_eqb t (items st) = Some it -> (it_dest it =? fst lk) && (it_remap it =? snd lk) = false ->
  exec cf st (IDelete t lk) room = (st, []).
Proof.
  intros cf st t lk it room Hl Hm. cbn [exec]. unfold items_delete_call. rewrite Hl, Hm. reflexivity.
Qed.
