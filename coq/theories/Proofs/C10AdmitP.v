(* C10, strengthening V10 (part B): inbound.go handleCallReq -- every refusing branch returns.

   gen_admit_tie              Gen/GenC10Admit.v c10HandleCallReq (the whole function, regenerated from
                              the source) = Model/C10Admit.v admit_model, for all inputs.
   gen_admit_one_responder    on every path of the regenerated function at most one responder action
                              (error frame / protocol error / dispatch); the dispatch happens only as
                              the single action of the one path on which both state reads saw an
                              active connection and parsing and registration succeeded; mex.shutdown
                              only right after the declining error frame.
   reader_req1/2/3_generated  the reader steps of Model/RespWire.v do what the regenerated trace says:
                              in particular RdCallReq3 with a connection that is no longer active
                              declines (one error frame attempt, exchange shut down, h_pc = PDead: no
                              handler label is ever enabled for the call) and does NOT dispatch. *)
From Coq Require Import ZArith List Bool Lia.
From Verif Require Import Gen.GenConsts Gen.GenC10Admit Spec.WireOk Model.RespWire Model.C10Admit.
Import ListNotations.
Local Open Scope Z_scope.

Theorem gen_admit_tie : forall st1 p m st2 tr,
  c10HandleCallReq st1 p m st2 tr = admit_model st1 p m st2 tr.
Proof.
  intros st1 p m st2 tr. unfold c10HandleCallReq, admit_model, admit_path_of, c10CallReqAfterDispatch.
  destruct (st1 =? c_connectionActive).
  - destruct p; cbn [negb]; [|rewrite app_nil_r; reflexivity].
    destruct m; cbn [negb]; [|reflexivity].
    destruct (st2 =? c_connectionActive); cbn [negb path_trace fst snd]; [reflexivity|].
    rewrite <- app_assoc. reflexivity.
  - destruct ((st1 =? c_connectionStartClose) || (st1 =? c_connectionInboundClosed) || (st1 =? c_connectionClosed)); reflexivity.
Qed.

Lemma path_facts : forall pa,
  (length (filter is_responder (fst (path_trace pa))) <= 1)%nat /\
  (In 3 (fst (path_trace pa)) -> fst (path_trace pa) = [3] /\ snd (path_trace pa) = false /\ pa = ApDispatch) /\
  (In 2 (fst (path_trace pa)) -> fst (path_trace pa) = [1; 2] /\ snd (path_trace pa) = true) /\
  (snd (path_trace pa) = true -> ~ In 3 (fst (path_trace pa))).
Proof.
  destruct pa; cbn; repeat split; intros; try lia; try reflexivity;
    repeat match goal with
           | H : _ \/ _ |- _ => destruct H
           | H : False |- _ => destruct H
           | H : _ = _ |- _ => discriminate H
           | |- ~ _ => intro
           end.
Qed.

Lemma dispatch_path_inputs : forall st1 p m st2, admit_path_of st1 p m st2 = Some ApDispatch ->
  st1 = c_connectionActive /\ p = true /\ m = true /\ st2 = c_connectionActive.
Proof.
  intros st1 p m st2 H. unfold admit_path_of in H.
  destruct (st1 =? c_connectionActive) eqn:E1.
  - destruct p; cbn [negb] in H; [|discriminate]. destruct m; cbn [negb] in H; [|discriminate].
    destruct (st2 =? c_connectionActive) eqn:E2; cbn [negb] in H; [|discriminate].
    apply Z.eqb_eq in E1, E2. repeat split; assumption.
  - destruct ((st1 =? c_connectionStartClose) || (st1 =? c_connectionInboundClosed) || (st1 =? c_connectionClosed)); discriminate.
Qed.

Theorem gen_admit_one_responder : forall st1 p m st2 tr0 tr r,
  c10HandleCallReq st1 p m st2 tr0 = Some (tr, r) ->
  exists w, tr = tr0 ++ w /\
    (length (filter is_responder w) <= 1)%nat /\
    (In 3 w -> w = [3] /\ r = false /\ st1 = c_connectionActive /\ p = true /\ m = true /\ st2 = c_connectionActive) /\
    (In 2 w -> w = [1; 2] /\ r = true) /\
    (r = true -> ~ In 3 w).
Proof.
  intros st1 p m st2 tr0 tr r H. rewrite gen_admit_tie in H. unfold admit_model in H.
  destruct (admit_path_of st1 p m st2) as [pa|] eqn:E; [|discriminate]. inversion H. subst tr r. clear H.
  exists (fst (path_trace pa)). split; [reflexivity|].
  destruct (path_facts pa) as (F1 & F2 & F3 & F4).
  split; [exact F1|]. split; [|split; [exact F3|exact F4]].
  intro H3. destruct (F2 H3) as (A & B & C). subst pa. split; [exact A|]. split; [exact B|].
  apply (dispatch_path_inputs _ _ _ _ E).
Qed.

(* ---- the reader of Model/RespWire.v follows the regenerated function ------------------------- *)

Lemma cstate_go_active : forall s, (cstate_go s =? c_connectionActive) = match s with CActive => true | _ => false end.
Proof. destruct s; reflexivity. Qed.

(* first state check: an active connection lets the call req through to parsing, any other state
   answers it with one error frame (if the send buffer has room) and the reader is idle again *)
Theorem reader_req1_generated : forall st id full, rd_pc st = RIdle ->
  step st (RdCallReq1 id full) =
  match c10HandleCallReq (cstate_go (cst st)) true true c_connectionActive [] with
  | Some ([3], false) => Some (set_rd (add_requested st id) (RChecked id))
  | Some ([1], true) => Some (fst (conn_send_syserr (add_requested st id) id full))
  | _ => None
  end.
Proof.
  intros st id full Hr. cbn [step]. rewrite Hr. rewrite gen_admit_tie.
  change (cst (add_requested st id)) with (cst st). destruct (cst st); reflexivity.
Qed.

Theorem reader_req2_generated : forall st id ok full, rd_pc st = RChecked id ->
  step st (RdCallReq2 ok full) =
  match c10HandleCallReq c_connectionActive ok (negb (mex_refuses st id)) c_connectionActive [] with
  | Some ([], true) => Some (set_rd st RIdle)
  | Some ([4], true) => Some (set_rd (fst (conn_send_syserr st id full)) RProto1)
  | Some ([3], false) => Some (set_rd (set_calls st (put id new_call (calls st))) (RAdded id))
  | _ => None
  end.
Proof.
  intros st id ok full Hr. cbn [step]. rewrite Hr. rewrite gen_admit_tie. unfold mex_refuses.
  destruct ok; cbn [negb]; [|reflexivity].
  destruct (mexset_shut st || match get id (calls st) with Some c => in_ex c | None => false end); reflexivity.
Qed.

(* the re-check: dispatch iff the regenerated trace is [3]; otherwise the decline of the race with
   Close: error frame first, then the exchange is shut down, and the call's handler never runs *)
Theorem reader_req3_generated : forall st id full, rd_pc st = RAdded id ->
  step st (RdCallReq3 full) =
  with_call st id (fun c =>
    match c10HandleCallReq c_connectionActive true true (cstate_go (cst st)) [] with
    | Some ([3], false) => Some (set_rd (commit st id (upd_pc c PNotStarted) false) RIdle)
    | Some ([1; 2], true) =>
        let st1 := fst (conn_send_syserr st id full) in
        let '(c1, chk) := shut_call c in
        Some (set_rd (commit st1 id (upd_pc c1 PDead) chk) RIdle)
    | _ => None
    end).
Proof.
  intros st id full Hr. cbn [step]. rewrite Hr. unfold with_call. destruct (get id (calls st)) as [c|]; [|reflexivity].
  rewrite gen_admit_tie. destruct (cst st); reflexivity.
Qed.


(* ---- the declined call gets exactly one error frame, whatever happens afterwards ------------

   A run reaches [st1] with the reader between the registration of the exchange and the re-check
   (schedule point inbound.afterNewExchange) and the connection draining after Close (StartClose or
   InboundClosed: it can still send).  The re-check declines the call; the run goes on in any way.
   For an id inside C10's quantifier the frames of the id are then, for ever, those before (none)
   followed by EXACTLY ONE error frame.  (The step itself is tied to the regenerated handleCallReq
   by reader_req3_generated.) *)
From Verif Require Import Proofs.WireOkP Proofs.RespWireP Proofs.RespWireDrainP.

Theorem declined_exactly_one_err prop ls1 st1 id ls2 st :
  run prop ls1 = Some st1 -> rd_pc st1 = RAdded id ->
  cst st1 = CStartClose \/ cst st1 = CInboundClosed ->
  run prop (ls1 ++ RdCallReq3 false :: ls2) = Some st ->
  (req_count id (ls1 ++ RdCallReq3 false :: ls2) <= 1)%nat ->
  handler_ok id false (ls1 ++ RdCallReq3 false :: ls2) = true ->
    proj id (sent st) = proj id (sent st1) ++ [Err] /\
    filter terminal (proj id (sent st)) = [Err].
Proof.
  intros H1 Hr Hc Hrun Hq Hok.
  pose proof Hrun as Hrun'. unfold run in Hrun', H1. rewrite run_from_app, H1 in Hrun'. cbn [run_from] in Hrun'.
  destruct (step st1 (RdCallReq3 false)) as [st2|] eqn:Hstep; [|discriminate].
  assert (Hsent : sent st2 = sent st1 ++ [(id, Err)]).
  { cbn [step] in Hstep. rewrite Hr in Hstep. unfold with_call in Hstep.
    destruct (get id (calls st1)) as [c|] eqn:G; [|discriminate].
    assert (Hsend : conn_send_syserr st1 id false = (enqueue st1 id Err, true)).
    { unfold conn_send_syserr. destruct Hc as [-> | ->]; reflexivity. }
    destruct (cst st1) eqn:Ec; try (destruct Hc; discriminate);
      rewrite Hsend in Hstep; cbn [fst] in Hstep;
      destruct (shut_call c) as [c1 chk] eqn:Sh; inversion Hstep; subst st2;
      cbn [sent set_rd]; rewrite sent_commit; reflexivity. }
  destruct (run_from_ext _ _ _ Hrun') as [t Et].
  destruct (respwire_grammar_labels prop _ st Hrun id Hq Hok) as (P & Last & One & _).
  assert (Ep : proj id (sent st) = proj id (sent st1) ++ Err :: proj id t).
  { rewrite Et, Hsent, !proj_app. cbn [proj]. rewrite Z.eqb_refl, <- app_assoc. reflexivity. }
  pose proof (Last _ _ _ Ep eq_refl) as Nil. rewrite Nil in Ep.
  split; [exact Ep|].
  rewrite Ep in One |- *. rewrite filter_app in One |- *. cbn [filter terminal] in One |- *.
  rewrite app_length in One. cbn [length] in One.
  destruct (filter terminal (proj id (sent st1))) as [|x r]; [reflexivity | cbn [length] in One; lia].
Qed.

(* the declining step leaves the call without a handler: program counter PDead ... *)
Theorem decline_step_dead : forall st id full st', rd_pc st = RAdded id -> cst st <> CActive ->
  step st (RdCallReq3 full) = Some st' ->
  exists c', get id (calls st') = Some c' /\ h_pc c' = PDead.
Proof.
  intros st id full st' Hr Hc Hstep. cbn [step] in Hstep. rewrite Hr in Hstep. unfold with_call in Hstep.
  destruct (get id (calls st)) as [c|] eqn:G; [|discriminate].
  destruct (cst st) eqn:Ec; [congruence| | |];
    destruct (shut_call c) as [c1 chk] eqn:Sh; inversion Hstep; subst st';
    exists (upd_pc c1 PDead); (split; [cbn [calls set_rd]; apply get_commit_same|reflexivity]).
Qed.

(* ... and at PDead no handler action of the call is enabled *)
Definition handler_label_of (id : Z) (l : label) : bool :=
  match l with
  | HStart i _ | HResp i | HReadFail i _ | HArgWriter i _ | HFlush i _ | HFlushSel i _ | HNewFrag i
  | HClose i _ | HDone i | HSysErr i _ | HSetAppErr i | HBlackhole i | HHelperWrite i _ _ => i =? id
  | _ => false
  end.

Theorem dead_call_no_handler_step : forall st id c l, get id (calls st) = Some c -> h_pc c = PDead ->
  handler_label_of id l = true -> step st l = None.
Proof.
  intros st id c l G Hp Hl.
  destruct l; cbn [handler_label_of] in Hl; try discriminate; apply Z.eqb_eq in Hl; subst;
    cbn [step]; unfold with_call; rewrite G; unfold hstep; rewrite Hp; reflexivity.
Qed.
