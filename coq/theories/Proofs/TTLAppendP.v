(* Proofs about Model/TTLAppend.v: the ttl field of a relayed call req on both send paths of
   Relayer.handleCallReq (forward-as-is and arg2 append / re-fragmentation) is the clamped one
   of Model/TTL.v (C14 clause c). *)
From Coq Require Import ZArith List Bool Lia ZifyBool.
From Verif Require Import Base.Wrap Base.Bytes Base.Wire Gen.GenConsts Gen.GenFrame Gen.GenTTL
  Model.TypedBuf Model.Messages Model.Crc Model.Frag Model.FragWire Spec.FragOk Model.RelayLazy
  Model.Codecs Model.RelayAppend Model.TTL Model.TTLAppend Spec.Protocol Spec.FragSpec Spec.RelaySpec
  Proofs.CodecP Proofs.CodecsP Proofs.FragWP Proofs.RelayFwdP Proofs.RelayAppendP Proofs.TTLP.
Import ListNotations.
Local Open Scope Z_scope.

(* ---------------- the read buffer: errors are sticky, reads only consume ---------------- *)
(* [rle r' r]: if r' is error free then so was r, and r' has no more bytes left than r *)
Definition rle (r' r : rbuf) : Prop :=
  rerr r' = false -> rerr r = false /\ (length (rrem r') <= length (rrem r))%nat.

Lemma rle_refl r : rle r r.
Proof. intros H. split; [exact H|lia]. Qed.

Lemma rle_trans r2 r1 r0 : rle r2 r1 -> rle r1 r0 -> rle r2 r0.
Proof. intros A B H. destruct (A H) as [A1 A2]. destruct (B A1) as [B1 B2]. split; [exact B1|lia]. Qed.

Lemma r_bytes_ok n r : rerr (snd (r_bytes n r)) = false ->
  rerr r = false /\ (n <= length (rrem r))%nat /\ rrem (snd (r_bytes n r)) = skipn n (rrem r).
Proof.
  unfold r_bytes. destruct (rerr r) eqn:E; cbn [snd]; [intros H; congruence|].
  destruct (length (rrem r) <? n)%nat eqn:L; cbn [snd rerr rrem]; [discriminate|].
  intros _. apply Nat.ltb_ge in L. split; [reflexivity|]. split; [exact L|reflexivity].
Qed.

Lemma r_bytes_rle n r : rle (snd (r_bytes n r)) r.
Proof.
  intros H. destruct (r_bytes_ok n r H) as [A [B C]]. split; [exact A|].
  rewrite C, skipn_length. lia.
Qed.

Lemma r_uint_snd n r : snd (r_uint n r) = snd (r_bytes n r).
Proof. unfold r_uint, bindR. destruct (r_bytes n r) as [b r']. reflexivity. Qed.

Lemma r_uint_rle n r : rle (snd (r_uint n r)) r.
Proof. rewrite r_uint_snd. apply r_bytes_rle. Qed.

Lemma r_len8_rle r : rle (snd (r_len8 r)) r.
Proof.
  unfold r_len8, bindR, r_string.
  pose proof (r_uint_rle 1 r) as A. unfold r_u8. destruct (r_uint 1 r) as [n r1]. cbn [snd] in A.
  eapply rle_trans; [apply r_bytes_rle|exact A].
Qed.

Lemma lazy_hdrs_rle : forall n a r, rle (snd (lazy_hdrs n a r)) r.
Proof.
  induction n as [|n IH]; intros a r; cbn [lazy_hdrs].
  - unfold retR. cbn [snd]. apply rle_refl.
  - unfold bindR.
    pose proof (r_len8_rle r) as A. destruct (r_len8 r) as [k r1]. cbn [snd] in A.
    pose proof (r_len8_rle r1) as B. destruct (r_len8 r1) as [v r2]. cbn [snd] in B.
    eapply rle_trans; [apply IH|]. eapply rle_trans; [exact B|exact A].
Qed.

(* ---------------- a call req the lazy parser accepts: the checksum type lies beyond the ttl ---------------- *)
Lemma lazy_callreq_ctoff p lz : lazy_callreq p = (0, lz) -> zlen p <= 65535 ->
  31 <= lz_ctoff lz <= zlen p.
Proof.
  unfold lazy_callreq. intros H Hl.
  pose proof (r_bytes_ok (Z.to_nat c_u_serviceLenIndex) (rb p)) as A1.
  destruct (r_bytes (Z.to_nat c_u_serviceLenIndex) (rb p)) as [x0 r1]. cbn [snd] in A1.
  pose proof (r_uint_rle 1 r1) as A2. unfold r_u8 in H.
  destruct (r_uint 1 r1) as [sl r2]. cbn [snd] in A2.
  pose proof (r_bytes_rle (Z.to_nat sl) r2) as A3.
  destruct (r_bytes (Z.to_nat sl) r2) as [x2 r3]. cbn [snd] in A3.
  pose proof (r_uint_snd 1 r3) as A4. pose proof (r_bytes_ok 1 r3) as A4'.
  destruct (r_uint 1 r3) as [nh r4]. cbn [snd] in A4. rewrite <- A4 in A4'. clear A4.
  pose proof (lazy_hdrs_rle (Z.to_nat nh) (mkHsel [] [] [] []) r4) as A5.
  destruct (lazy_hdrs (Z.to_nat nh) (mkHsel [] [] [] []) r4) as [hs r5]. cbn [snd] in A5.
  pose proof (r_uint_rle 1 r5) as A6.
  destruct (r_uint 1 r5) as [ct r6]. cbn [snd] in A6.
  destruct (ct >=? c_checksumCount); [discriminate H|].
  pose proof (r_bytes_rle (Z.to_nat (ChecksumSize ct)) r6) as A7.
  destruct (r_bytes (Z.to_nat (ChecksumSize ct)) r6) as [x6 r7]. cbn [snd] in A7.
  pose proof (r_uint_rle 2 r7) as A8. unfold r_u16 in H.
  destruct (r_uint 2 r7) as [a1len r8]. cbn [snd] in A8.
  pose proof (r_bytes_rle (Z.to_nat a1len) r8) as A9.
  destruct (r_bytes (Z.to_nat a1len) r8) as [method r9]. cbn [snd] in A9.
  pose proof (r_uint_rle 2 r9) as A10.
  destruct (r_uint 2 r9) as [a2len r10]. cbn [snd] in A10.
  pose proof (r_bytes_rle (Z.to_nat a2len) r10) as A11.
  destruct (r_bytes (Z.to_nat a2len) r10) as [x10 r11]. cbn [snd] in A11.
  set (frag := (zlen (rrem r11) =? 0) && hasMoreFragments (nth 0 p 0)) in H.
  assert (A12 : forall a3 r12,
    (if frag then (0, r11) else let '(_, r) := r_bytes 2 r11 in (wrapU 16 (bytes_read p r), r)) = (a3, r12) ->
    rle r12 r11).
  { intros a3 r12 E. destruct frag.
    - inversion E. apply rle_refl.
    - pose proof (r_bytes_rle 2 r11) as B. destruct (r_bytes 2 r11) as [y r]. cbn [snd] in B.
      inversion E. subst r12. exact B. }
  destruct (if frag then (0, r11) else let '(_, r) := r_bytes 2 r11 in (wrapU 16 (bytes_read p r), r)) as [a3start r12] eqn:E12.
  specialize (A12 a3start r12 eq_refl).
  destruct (rerr r12) eqn:Er; [discriminate H|].
  inversion H; subst lz; clear H. cbn [lz_ctoff].
  (* chain the reads back to the first one *)
  assert (R5 : rle r5 r4).
  { exact A5. }
  assert (R12 : rle r12 r5).
  { eapply rle_trans; [exact A12|]. eapply rle_trans; [exact A11|]. eapply rle_trans; [exact A10|].
    eapply rle_trans; [exact A9|]. eapply rle_trans; [exact A8|]. eapply rle_trans; [exact A7|]. exact A6. }
  destruct (R12 Er) as [E5 _]. destruct (R5 E5) as [E4 L5].
  destruct (A4' E4) as [E3 [L3 S4]].
  destruct (A3 E3) as [E2 L3']. destruct (A2 E2) as [E1 L2].
  destruct (A1 E1) as [_ [L1 S1]]. cbn [rb rrem] in L1, S1.
  change (Z.to_nat c_u_serviceLenIndex) with 30%nat in *.
  unfold bytes_read. unfold zlen in *.
  assert (B5 : (length (rrem r5) + 31 <= length p)%nat).
  { rewrite S4, skipn_length in L5. rewrite S1, skipn_length in L2. lia. }
  rewrite wrapU_id; lia.
Qed.

(* ---------------- SetTTL in the frame = the clamp of Model/TTL.v ---------------- *)
Lemma valid_max_ok m : valid_max m -> max_ok m /\ Z.quot m ms_ns = m / ms_ns.
Proof.
  intros V. destruct (set_ttl_field_valid m V) as [_ [Q _]].
  unfold valid_max in V. rewrite ms_pos in V.
  assert (E : Z.quot m ms_ns = m / ms_ns) by (apply quot_ms_nonneg; lia).
  split; [|exact E]. unfold max_ok. rewrite E. rewrite p32 in Q. lia.
Qed.

Lemma clamp_is_relay_ttl m p : valid_max m -> bytes_ok p = true -> 5 <= zlen p ->
  lazy_ttl_ms (clamp_ttl m p) = snd (relay_ttl m (lazy_ttl_ms p)) /\
  is_u32 (lazy_ttl_ms p) /\
  zlen (clamp_ttl m p) = zlen p /\ bytes_ok (clamp_ttl m p) = true.
Proof.
  intros V Hb Hl. destruct (valid_max_ok m V) as [Mo Eq].
  pose proof (ttl_range p Hb Hl) as Ht. rewrite <- lazy_ttl_is_spec in Ht.
  assert (U : is_u32 (lazy_ttl_ms p)) by exact Ht.
  destruct (set_ttl_field_valid m V) as [_ [Q Lq]].
  rewrite (clamp_ttl_spec m p Mo Hb Hl), Eq.
  split.
  - rewrite lazy_ttl_is_spec, sp_clamp_ttl by (try assumption; lia).
    rewrite <- lazy_ttl_is_spec.
    destruct (relay_ttl_spec m (lazy_ttl_ms p) V U) as [_ [S _]]. rewrite S.
    pose proof (Z.mul_succ_div_gt m ms_ns ltac:(rewrite ms_pos; lia)) as G.
    rewrite ms_pos in *. unfold is_u32 in U.
    destruct (lazy_ttl_ms p * 1000000 >? m) eqn:C; nia.
  - split; [exact U|]. split; [apply sp_clamp_len, Hl|apply sp_clamp_bytes_ok, Hb].
Qed.

(* the ttl bytes of a payload that starts with a flags byte followed by a prefix of at least
   4 bytes are the first 4 bytes of that prefix *)
Lemma ttl_of_prefixed (x : Z) (pre rest : list Z) : (4 <= length pre)%nat ->
  lazy_ttl_ms ([x] ++ pre ++ rest) = unbe (firstn 4 pre).
Proof.
  intros L. rewrite lazy_ttl_is_spec. unfold sp_ttl. cbn [app skipn].
  rewrite firstn_app. replace (4 - length pre)%nat with 0%nat by lia.
  cbn [firstn]. rewrite app_nil_r. reflexivity.
Qed.

Lemma slice_ttl_prefix p hi : 5 <= hi <= zlen p -> firstn 4 (slice p 1 hi) = firstn 4 (skipn 1 p) /\ (4 <= length (slice p 1 hi))%nat.
Proof.
  intros H. unfold slice, zlen in *. change (Z.to_nat 1) with 1%nat.
  split.
  - rewrite firstn_firstn. replace (Init.Nat.min 4 (Z.to_nat (hi - 1))) with 4%nat by lia. reflexivity.
  - rewrite firstn_length, skipn_length. lia.
Qed.

(* relay_frag_payloads: only the head can be an initial frame *)
Lemma frag_payloads_cont fl pre fs : Forall (fun x => fst x = false) (relay_frag_payloads fl pre false fs).
Proof. induction fs as [|f r IH]; cbn [relay_frag_payloads]; constructor; [reflexivity|exact IH]. Qed.

Lemma frag_payloads_initial fl pre fs pl : In (true, pl) (relay_frag_payloads fl pre true fs) ->
  exists f r, fs = f :: r /\ pl = relay_frag_payload fl pre true f.
Proof.
  destruct fs as [|f r]; cbn [relay_frag_payloads]; [intros []|].
  intros [E|I].
  - inversion E. exists f, r. split; reflexivity.
  - exfalso. pose proof (frag_payloads_cont fl pre r) as F. rewrite Forall_forall in F.
    specialize (F _ I). discriminate F.
Qed.

(* fragmentingSend: a successful send yields the frames of relay_frag_payloads over the frame's own prefix *)
Lemma append_send_frames p lz appends ck frames ck' :
  append_send p lz appends ck = (0, frames, ck') ->
  exists fs, frames = relay_frag_payloads (nth 0 p 0) (slice p 1 (lz_ctoff lz)) true fs.
Proof.
  unfold append_send.
  destruct (lz_a2frag lz); [discriminate|].
  destruct (negb (bytes_eqb (lz_as lz) c_Thrift)); [discriminate|].
  destruct (relay_capf lz ck true - (c_chunkHeaderSize + zlen (lz_method lz)) <? 0); [discriminate|].
  destruct (relay_capf lz ck true - (c_chunkHeaderSize + zlen (lz_method lz)) <=? c_chunkHeaderSize); [discriminate|].
  destruct (zlen (lz_arg2 p lz) <? 2); [discriminate|].
  destruct (w_run _ _ _ _) as [[codes st]|]; [|discriminate].
  intros E. inversion E. exists (ws_out st). reflexivity.
Qed.

(* ---------------- the statement for both send paths ---------------- *)
Theorem tfwd_ttl_clamped : forall cfg p appends,
  is_duration cfg -> bytes_ok p = true -> zlen p <= c_MaxFramePayloadSize ->
  let m := relay_max cfg in
  let out := snd (tfwd_callreq m p appends) in
  (* every call req frame handed to the destination carries the clamped ttl ... *)
  (forall pl, In (true, pl) out ->
     lazy_ttl_ms pl = snd (relay_ttl m (lazy_ttl_ms p)) /\ is_u32 (lazy_ttl_ms p)) /\
  (* ... and only the first frame is a call req (continuations have no ttl field) *)
  (forall f rest, out = f :: rest -> Forall (fun x => fst x = false) rest).
Proof.
  intros cfg p appends D Hb Hl m out. subst out.
  pose proof (relay_max_valid cfg D) as V. fold m in V.
  unfold tfwd_callreq.
  destruct (lazy_callreq p) as [code lz] eqn:EL.
  destruct (code =? 0) eqn:Ec; cbn [negb snd].
  2:{ split; [intros pl []|intros f rest E; discriminate E]. }
  assert (code = 0) by lia. subst code.
  unfold c_MaxFramePayloadSize, c_MaxFrameSize, c_FrameHeaderSize in Hl.
  destruct (lazy_callreq_ctoff p lz EL ltac:(lia)) as [C1 C2].
  destruct (clamp_is_relay_ttl m p V Hb ltac:(lia)) as [T [U [Zl Bo]]].
  destruct appends as [|a appends].
  - cbn [snd]. split.
    + intros pl [E|[]]. inversion E. subst pl. split; [exact T|exact U].
    + intros f rest E. inversion E. constructor.
  - destruct (ck_new (lz_ctype lz)) as [ck|]; cbn [snd].
    2:{ split; [intros pl []|intros f rest E; discriminate E]. }
    destruct (append_send (clamp_ttl m p) lz (a :: appends) ck) as [[acode frames] ck'] eqn:EA.
    cbn [snd]. destruct (acode =? 0) eqn:Ea.
    2:{ split; [intros pl []|intros f rest E; discriminate E]. }
    assert (acode = 0) by lia. subst acode.
    destruct (append_send_frames _ _ _ _ _ _ EA) as [fs ->].
    destruct (slice_ttl_prefix (clamp_ttl m p) (lz_ctoff lz) ltac:(lia)) as [S1 S2].
    split.
    + intros pl I. destruct (frag_payloads_initial _ _ _ _ I) as (f & r & _ & ->).
      split; [|exact U].
      unfold relay_frag_payload. rewrite (ttl_of_prefixed _ _ _ S2), S1.
      rewrite <- T. rewrite lazy_ttl_is_spec. reflexivity.
    + intros f rest E. destruct fs as [|f0 r0]; cbn [relay_frag_payloads] in E; [discriminate E|].
      inversion E. apply frag_payloads_cont.
Qed.

(* ---------------- chains of relays, each with its own appends ---------------- *)
Lemma tfwd_first_in r pl : tfwd_first r = Some pl -> In (true, pl) (snd r).
Proof.
  unfold tfwd_first. destruct (snd r) as [|[[|] q] rest]; try discriminate.
  intros E. inversion E. left. reflexivity.
Qed.

Lemma tfwd_hops_core : forall hops p p',
  Forall (fun h => is_duration (fst h)) hops ->
  tfwd_hops hops p = Some p' ->
  lazy_ttl_ms p' = hops_ttl (map fst hops) (lazy_ttl_ms p) /\ (hops <> [] -> is_u32 (lazy_ttl_ms p)).
Proof.
  induction hops as [|[cfg app] r IH]; intros p p' D H; cbn [tfwd_hops map hops_ttl fst] in *.
  - inversion H. split; [reflexivity|]. intros N. exfalso. apply N. reflexivity.
  - inversion D as [|? ? Dc Dr]; subst. cbn [fst] in Dc.
    destruct (tfwd_frame_ok p) eqn:F; [|discriminate H].
    unfold tfwd_frame_ok in F. apply andb_true_iff in F as [Fb Fl].
    destruct (tfwd_first (tfwd_callreq (relay_max cfg) p app)) as [p1|] eqn:E1; [|discriminate H].
    destruct (tfwd_ttl_clamped cfg p app Dc Fb ltac:(lia)) as [T _].
    destruct (T p1 (tfwd_first_in _ _ E1)) as [T1 U].
    destruct (IH p1 p' Dr H) as [I1 _].
    split; [rewrite I1, T1; reflexivity|]. intros _. exact U.
Qed.

Theorem tfwd_hops_ttl : forall hops p p',
  Forall (fun h => is_duration (fst h)) hops -> hops <> [] ->
  tfwd_hops hops p = Some p' ->
  let f := lazy_ttl_ms p in
  is_u32 f /\ lazy_ttl_ms p' = hops_ttl (map fst hops) f /\
  lazy_ttl_ms p' <= f /\
  Forall (fun h => lazy_ttl_ms p' * ms_ns <= relay_max (fst h)) hops.
Proof.
  intros hops p p' D N H f. subst f.
  destruct (tfwd_hops_core hops p p' D H) as [E U]. specialize (U N).
  assert (D' : Forall is_duration (map fst hops)).
  { rewrite Forall_forall in *. intros x I. apply in_map_iff in I as [h [<- Ih]]. apply D, Ih. }
  destruct (hops_ttl_spec (map fst hops) (lazy_ttl_ms p) D' U) as [_ [Le F]].
  split; [exact U|]. split; [exact E|]. rewrite E. split; [exact Le|].
  rewrite Forall_forall in *. intros h Ih. apply F. apply in_map, Ih.
Qed.

(* ---------------- the append path does forward (canonical call reqs) ---------------- *)
Lemma lazy_callreq_sp_clamp x p : 30 <= zlen p -> lazy_callreq (sp_clamp x p) = lazy_callreq p.
Proof.
  intros Hl. set (p' := sp_clamp x p).
  assert (Zl : zlen p' = zlen p) by (apply sp_clamp_len; lia).
  assert (N0 : nth 0 p' 0 = nth 0 p 0).
  { subst p'. unfold sp_clamp. destruct p as [|f t]; [unfold zlen in Hl; cbn in Hl; lia|]. reflexivity. }
  assert (S30 : skipn 30 p' = skipn 30 p).
  { subst p'. unfold sp_clamp.
    assert (L1 : length (firstn 1 p) = 1%nat) by (unfold zlen in Hl; rewrite firstn_length; lia).
    change 30%nat with (1 + (4 + 25))%nat. rewrite <- !skipn_skipn_add.
    rewrite (skipn_app_exact (firstn 1 p) _ 1 L1).
    rewrite (skipn_app_exact (be 4 _) _ 4 (be_length 4 _)).
    rewrite !skipn_skipn_add. reflexivity. }
  assert (R : forall q, 30 <= zlen q -> r_bytes 30 (rb q) = (firstn 30 q, mkR (skipn 30 q) false)).
  { intros q Hq. unfold r_bytes, rb. cbn [rerr rrem].
    replace (length q <? 30)%nat with false; [reflexivity|]. symmetry. apply Nat.ltb_ge. unfold zlen in Hq. lia. }
  unfold lazy_callreq. change (Z.to_nat c_u_serviceLenIndex) with 30%nat.
  rewrite (R p' ltac:(lia)), (R p Hl), S30. unfold bytes_read. rewrite Zl, N0. reflexivity.
Qed.

Lemma sp_clamp_callreq_first x flags ttl tr service hdrs ct ckb a1 a2 a3 : 0 <= ttl < 2 ^ 32 ->
  sp_clamp x (callreq_first flags ttl tr service hdrs ct ckb a1 a2 a3)
  = callreq_first flags (Z.min ttl x) tr service hdrs ct ckb a1 a2 a3 /\
  sp_ttl (callreq_first flags ttl tr service hdrs ct ckb a1 a2 a3) = ttl.
Proof.
  intros U. unfold callreq_first, s_callreq. rewrite <- !app_assoc.
  set (rest := tr ++ _).
  change ([flags] ++ be 4 ttl ++ rest) with (flags :: be 4 ttl ++ rest).
  unfold sp_clamp, sp_ttl.
  change (skipn 1 (flags :: be 4 ttl ++ rest)) with (be 4 ttl ++ rest).
  change (firstn 1 (flags :: be 4 ttl ++ rest)) with [flags].
  change (skipn 5 (flags :: be 4 ttl ++ rest)) with (skipn 4 (be 4 ttl ++ rest)).
  rewrite (firstn_app_exact (be 4 ttl) rest 4 (be_length 4 ttl)).
  rewrite (skipn_app_exact (be 4 ttl) rest 4 (be_length 4 ttl)).
  rewrite unbe_be by (change (256 ^ Z.of_nat 4) with (2 ^ 32); exact U).
  split; reflexivity.
Qed.

Theorem tfwd_append_forwards : forall cfg flags ttl tr service hdrs ct ckb a1 h a3 a appends ck0,
  is_duration cfg -> is_u32 ttl ->
  first_ok tr service hdrs ct ckb a1 (s_theaders h) a3 ->
  let p := callreq_first flags ttl tr service hdrs ct ckb a1 (s_theaders h) a3 in
  bytes_ok p = true -> zlen p <= c_MaxFramePayloadSize ->
  hs_as (hsel_fold hdrs (mkHsel [] [] [] [])) = c_Thrift ->
  ck_new ct = Some ck0 ->
  kvs16_ok h -> kvs16_ok (a :: appends) -> zlen h + zlen (a :: appends) <= 65535 ->
  let m := relay_max cfg in
  exists pl rest,
    tfwd_callreq m p (a :: appends) = (0, (true, pl) :: rest) /\
    Forall (fun x => fst x = false) rest /\
    lazy_ttl_ms p = ttl /\
    lazy_ttl_ms pl = snd (relay_ttl m ttl) /\
    lazy_ttl_ms pl <= ttl /\ lazy_ttl_ms pl * ms_ns <= m.
Proof.
  intros cfg flags ttl tr service hdrs ct ckb a1 h a3 a appends ck0 D U Hf p Hb Hl Has Hck Hh Ha Hsum m.
  pose proof (relay_max_valid cfg D) as V. fold m in V.
  destruct (valid_max_ok m V) as [Mo Eq].
  destruct (sp_clamp_callreq_first (Z.quot m ms_ns) flags ttl tr service hdrs ct ckb a1 (s_theaders h) a3 U) as [Ec Et].
  fold p in Ec, Et.
  (* the payload is at least 30 bytes long *)
  destruct (lazy_callreq_layout flags ttl tr service hdrs ct ckb a1 (s_theaders h) a3 Hf Hl)
    as (lz0 & EL0 & Eoff0 & _). fold p in EL0.
  assert (H30 : 31 <= zlen p).
  { unfold c_MaxFramePayloadSize, c_MaxFrameSize, c_FrameHeaderSize in Hl.
    destruct (lazy_callreq_ctoff p lz0 EL0 ltac:(lia)). lia. }
  assert (Ecl : clamp_ttl m p = sp_clamp (Z.quot m ms_ns) p) by (apply clamp_ttl_spec; [exact Mo|exact Hb|lia]).
  set (ttl' := Z.min ttl (Z.quot m ms_ns)) in *.
  assert (Zl : zlen (clamp_ttl m p) = zlen p) by (rewrite Ecl; apply sp_clamp_len; lia).
  (* C08's theorem on the clamped frame *)
  destruct (relay_append_correct flags ttl' tr service hdrs ct ckb a1 h a3 (a :: appends) ck0 Hf
              ltac:(rewrite <- Ec, <- Ecl, Zl; exact Hl) Has Hck Hh Ha Hsum)
    as (lz & fs & EL & EA & Dn & _).
  rewrite <- Ec, <- Ecl in EL, EA.
  assert (ELp : lazy_callreq p = (0, lz)).
  { rewrite <- EL, Ecl. symmetry. apply lazy_callreq_sp_clamp. lia. }
  destruct (lazy_callreq_layout flags ttl tr service hdrs ct ckb a1 (s_theaders h) a3 Hf Hl)
    as (lz' & EL' & _ & Ect & _). fold p in EL'. rewrite ELp in EL'. inversion EL'; subst lz'.
  (* at least one frame *)
  destruct fs as [|f0 r0]; [vm_compute in Dn; discriminate Dn|].
  cbn [relay_frag_payloads] in EA.
  exists (relay_frag_payload flags (s_callreq ttl' tr service hdrs) true f0),
         (relay_frag_payloads flags (s_callreq ttl' tr service hdrs) false r0).
  assert (ET : tfwd_callreq m p (a :: appends)
               = (0, (true, relay_frag_payload flags (s_callreq ttl' tr service hdrs) true f0)
                     :: relay_frag_payloads flags (s_callreq ttl' tr service hdrs) false r0)).
  { unfold tfwd_callreq. rewrite ELp. cbn [negb Z.eqb]. rewrite Ect, Hck, EA. reflexivity. }
  split; [exact ET|]. split; [apply frag_payloads_cont|].
  split; [rewrite lazy_ttl_is_spec; exact Et|].
  destruct (tfwd_ttl_clamped cfg p (a :: appends) D Hb Hl) as [T _]. fold m in T.
  rewrite ET in T. cbn [snd] in T.
  destruct (T _ (or_introl eq_refl)) as [T1 _].
  rewrite (lazy_ttl_is_spec p), Et in T1.
  split; [exact T1|]. rewrite T1.
  destruct (relay_ttl_spec m ttl V U) as [_ [_ [_ [Le [Lm _]]]]].
  split; assumption.
Qed.

Print Assumptions tfwd_ttl_clamped.
Print Assumptions tfwd_hops_ttl.
Print Assumptions tfwd_append_forwards.

(* the statement of C14 (c) for every call req frame a relay hands on, whichever path it took *)
Theorem tfwd_ttl_statement : forall cfg p appends pl,
  is_duration cfg -> bytes_ok p = true -> zlen p <= c_MaxFramePayloadSize ->
  let m := relay_max cfg in
  In (true, pl) (snd (tfwd_callreq m p appends)) ->
  let f := lazy_ttl_ms p in
  is_u32 f /\ lazy_ttl_ms pl = snd (relay_ttl m f) /\
  lazy_ttl_ms pl <= f /\ lazy_ttl_ms pl * ms_ns <= m /\
  lazy_ttl_ms pl = (if f * ms_ns >? m then m / ms_ns else f).
Proof.
  intros cfg p appends pl D Hb Hl m I f.
  destruct (tfwd_ttl_clamped cfg p appends D Hb Hl) as [T _]. fold m in T.
  destruct (T pl I) as [T1 U]. fold f in T1, U.
  destruct (relay_ttl_spec m f (relay_max_valid cfg D) U) as [_ [S [_ [Le [Lm _]]]]].
  split; [exact U|]. split; [exact T1|]. rewrite T1. split; [exact Le|]. split; [exact Lm|exact S].
Qed.
Print Assumptions tfwd_ttl_statement.
