(* Invariants of the bookkeeping model that hold on EVERY run (no schedule hypothesis):
   freshness of ids, root-list well-formedness, channel map, callback log / gain-loss
   accounting, reference counts, peer collection. *)
From Coq Require Import ZArith List Bool Lia Permutation.
From Verif Require Import Base.Wrap Gen.GenConsts Model.PeerBook Spec.PeerBookSpec Proofs.PeerBookL.
Import ListNotations.
Local Open Scope Z_scope.

(* ---- case analysis of one step ---- *)
Ltac brk H :=
  repeat match type of H with
  | (if ?b then _ else _) = Some _ => let E := fresh "E" in destruct b eqn:E; try discriminate H
  | match ?x with _ => _ end = Some _ => let E := fresh "E" in destruct x eqn:E; try discriminate H
  | (let '(_, _) := ?x in _) = Some _ => let E := fresh "E" in destruct x eqn:E
  end.

Ltac brk_goal :=
  repeat match goal with
  | |- context [match swap_remove ?c ?l with _ => _ end] => let E := fresh "E" in destruct (swap_remove c l) eqn:E
  | |- context [match s_root ?s ?h with _ => _ end] => let E := fresh "E" in destruct (s_root s h) eqn:E
  | |- context [match ?x with [] => _ | _ :: _ => _ end] => is_var x; destruct x
  | |- context [if ?b then _ else _] => let E := fresh "E" in destruct b eqn:E
  end.

Lemma root_goa_cases s hp s1 pid :
  root_get_or_add s hp = (s1, pid) ->
  (s_root s hp = Some pid /\ s1 = s) \/
  (s_root s hp = None /\ pid = s_next s /\
   s1 = bump (set_root (set_peer s pid (mkPeer hp [] [] 0 0)) hp (Some pid))).
Proof.
  unfold root_get_or_add. destruct (s_root s hp) as [q|] eqn:E; intros H; inversion H; subst; auto.
Qed.

(* all the facts of a thread step, as one disjunction-free statement per pc is too long;
   proofs destruct the pc and use [brk_goal]. *)

(* ---- I0: ids below s_next; I1: root entries are well formed ---- *)
Definition pc_pid (p : pc) : option Z :=
  match p with
  | PChk _ q _ | PApp _ q _ | PCbRem _ q _ | PCol2 _ _ q _ | PAdd2 _ _ q => Some q
  | _ => None
  end.

Definition inv_fresh (s : st) : Prop :=
  0 < s_next s /\
  (forall x, s_thr s x <> None -> 0 <= x < s_next s) /\
  (forall x, s_next s <= x -> s_conn s x = no_conn /\ s_peer s x = no_peer) /\
  (forall hp pid, s_root s hp = Some pid -> pid < s_next s) /\
  (forall t p q, s_thr s t = Some p -> pc_pid p = Some q -> q < s_next s) /\
  (forall lid hp pid, In (lid, hp, pid) (s_lists s) -> pid < s_next s).

Definition inv_root (s : st) : Prop :=
  forall hp pid, s_root s hp = Some pid -> p_hp (s_peer s pid) = hp.

Ltac simp_st := cbn [s_conn s_inch s_acc s_peer s_root s_lists s_lk s_thr s_log s_gain s_loss s_next
                     set_conn set_inch set_accepting set_peer set_root set_lists set_lk set_thr
                     add_log add_gain add_loss bump spawn] in *.

Ltac upd_tac :=
  repeat match goal with
  | H : context [upd _ ?x _ ?y] |- _ =>
      first [ rewrite upd_same in H
            | rewrite upd_other in H by (first [assumption | lia | congruence]) ]
  | |- context [upd _ ?x _ ?y] =>
      first [ rewrite upd_same
            | rewrite upd_other by (first [assumption | lia | congruence]) ]
  end.

Ltac upd_split :=
  match goal with
  | H : context [upd _ ?x _ ?y] |- _ =>
      let E := fresh "E" in destruct (Z.eq_dec y x) as [E|E];
      [ try subst y; rewrite ?upd_same in * | rewrite ?(upd_other _ x _ y) in * by assumption ]
  | |- context [upd _ ?x _ ?y] =>
      let E := fresh "E" in destruct (Z.eq_dec y x) as [E|E];
      [ try subst y; rewrite ?upd_same in * | rewrite ?(upd_other _ x _ y) in * by assumption ]
  end.

Ltac goa_cases :=
  repeat match goal with
  | |- context [root_get_or_add ?s ?hp] =>
      let s1 := fresh "s1" in let pid := fresh "pid" in let E := fresh "Egoa" in
      destruct (root_get_or_add s hp) as [s1 pid] eqn:E;
      apply root_goa_cases in E; destruct E as [[? ->]|(? & -> & ->)]
  | E : root_get_or_add ?s ?hp = (_, _) |- _ =>
      apply root_goa_cases in E; destruct E as [[? ->]|(? & -> & ->)]
  end.

(* split [step s l = Some s'] into its cases; the new state is substituted in the goal *)
Ltac step_cases H :=
  unfold step, step_gen in H;
  match type of H with
  | match ?l with _ => _ end = Some _ => destruct l
  end;
  brk H;
  try (match type of H with Some _ = Some _ => inversion H; subst; clear H end);
  try (match goal with p : pc |- _ => destruct p; cbn [step_thread] end);
  brk_goal; goa_cases; brk_goal; cbn [fst snd].

Ltac upd_all :=
  unfold upd in *;
  repeat match goal with
  | H : context [if ?a =? ?b then _ else _] |- _ => destruct (Z.eqb_spec a b); try subst
  | |- context [if ?a =? ?b then _ else _] => destruct (Z.eqb_spec a b); try subst
  end.

Lemma with_st_st k s' : k_st (with_st k s') = s'. Proof. reflexivity. Qed.
Lemma with_acc_st k : k_st (with_acc k) = k_st k. Proof. reflexivity. Qed.

Lemma step_fresh s l s' : inv_fresh s -> step s l = Some s' -> inv_fresh s'.
Proof.
  intros Hf H. destruct Hf as (Hpos & Hthr & Hnew & Hroot & Hpc & Hls).
  assert (Hthr' : forall x p, s_thr s x = Some p -> 0 <= x < s_next s).
  { intros x p Hx. apply Hthr. congruence. }
  assert (Hc : forall c, k_st (s_conn s c) <> 0 -> c < s_next s).
  { intros c Hc. destruct (Z_lt_le_dec c (s_next s)) as [|Hge]; [assumption|].
    destruct (Hnew _ Hge) as [Hk _]. rewrite Hk in Hc. now cbn in Hc. }
  assert (Hact : forall c, is_active (s_conn s c) = true -> c < s_next s).
  { intros c Ha. apply Hc. unfold is_active in Ha. apply Z.eqb_eq in Ha. rewrite Ha. discriminate. }
  step_cases H; unfold inv_fresh; simp_st.
  all: try solve [repeat split; auto].
  all: split; [lia|split; [|split; [|split; [|split]]]].
  (* thread ids *)
  all: try solve [intros x Hx; upd_all; first [ lia | specialize (Hthr' _ _ E); lia | apply Hthr in Hx; lia ]].
  (* fresh slots *)
  all: try solve [intros x Hx; destruct (Hnew x ltac:(lia)) as [Hk Hpx]; split; auto].
  all: try solve [intros x Hx; destruct (Hnew x ltac:(lia)) as [Hk Hpx]; split; auto;
                  rewrite upd_other; auto;
                  first [ lia
                        | specialize (Hpc _ _ _ E eq_refl); lia
                        | match goal with Ha : is_active _ = true |- _ => specialize (Hact _ Ha); lia end ]].
  (* root pids *)
  all: try solve [intros h_ q_ Hq_; specialize (Hroot h_ q_); upd_all; first [ inversion Hq_; lia | discriminate | specialize (Hroot Hq_); lia ]].
  all: try solve [intros h_ q_ Hq_; apply Hroot in Hq_; lia].
  (* pids in program counters *)
  all: try solve [intros t_ p_ q_ Ht_ Hq_; upd_all;
                  first [ inversion Ht_; subst; cbn [pc_pid] in Hq_; first [discriminate | inversion Hq_; subst;
                             first [ lia | specialize (Hpc _ _ _ E eq_refl); lia
                                   | match goal with Hr : s_root _ _ = Some _ |- _ => apply Hroot in Hr; lia end ]]
                        | discriminate
                        | specialize (Hpc _ _ _ Ht_ Hq_); lia ]].
  (* list entries *)
  all: try solve [intros a_ b_ q_ Hq_; apply Hls in Hq_; lia].
  all: try solve [intros a_ b_ q_ Hq_; apply list_del_in in Hq_; apply Hls in Hq_; lia].
  all: try solve [intros a_ b_ q_ [Hq_|Hq_]; [inversion Hq_; subst; specialize (Hpc _ _ _ E eq_refl); lia | apply Hls in Hq_; lia]].
  - intros x Hx. destruct (Hnew x ltac:(lia)) as [Hk Hpx]. split; auto. rewrite upd_other; auto.
    apply andb_true_iff in E as [E _]. apply andb_true_iff in E as [E _].
    apply negb_true_iff, Z.eqb_neq in E. apply Hc in E. lia.
  - intros x Hx. destruct (Hnew x ltac:(lia)) as [Hk Hpx]. split; auto. rewrite upd_other; auto.
    apply list_find_in, Hls in E0. lia.
  - intros x Hx. destruct (Hnew x ltac:(lia)) as [Hk Hpx]. split; auto. rewrite upd_other; auto.
    apply andb_true_iff in E0 as [E0 _]. apply Hact in E0. lia.
Qed.

Lemma step_root s l s' : inv_fresh s -> inv_root s -> step s l = Some s' -> inv_root s'.
Proof.
  intros Hf Hr H. destruct Hf as (Hpos & Hthr & Hnew & Hroot & Hpc & Hls).
  step_cases H; unfold inv_root; simp_st; auto.
  all: intros h_ q_ Hq_.
  all: try solve [upd_all; cbn [p_hp p_with_in p_with_out p_with_sc]; auto;
                  first [ inversion Hq_; subst; auto; lia | discriminate | apply Hroot in Hq_; lia ]].
Qed.

(* ---- the channel's connection map ---- *)
Definition inv_chan (s : st) : Prop :=
  (forall c, s_inch s c = true -> k_acc (s_conn s c) = true) /\
  (forall c, k_acc (s_conn s c) = true -> k_st (s_conn s c) <> 0) /\
  (forall c, k_acc (s_conn s c) = true -> k_st (s_conn s c) <> c_connectionClosed -> s_inch s c = true) /\
  (forall c, s_inch s c = true -> k_st (s_conn s c) = c_connectionClosed -> exists t, s_thr s t = Some (PCb1 c)) /\
  (forall c, k_st (s_conn s c) = c_connectionActive -> k_acc (s_conn s c) = false -> exists t, s_thr s t = Some (PAct1 c)) /\
  (forall c, 0 <= k_st (s_conn s c) <= c_connectionClosed).

(* a witness goroutine survives a step of goroutine t unless it is t itself *)
Ltac keep_wit Hthr' :=
  let c_ := fresh "c_" in let t_ := fresh "t_" in let Hw_ := fresh "Hw_" in
  intros c_ t_ Hw_; pose proof (Hthr' _ _ Hw_);
  first
  [ match goal with E : s_thr ?s ?t = Some _ |- _ =>
      destruct (Z.eq_dec t_ t) as [->|?];
      [ rewrite E in Hw_; discriminate Hw_
      | exists t_; upd_tac; assumption ] end
  | exists t_; upd_tac; assumption ].

Ltac split6 := split; [|split; [|split; [|split; [|split]]]].

Lemma chan_frame s s' :
  s_conn s' = s_conn s -> s_inch s' = s_inch s ->
  (forall c t, s_thr s t = Some (PCb1 c) -> exists t', s_thr s' t' = Some (PCb1 c)) ->
  (forall c t, s_thr s t = Some (PAct1 c) -> exists t', s_thr s' t' = Some (PAct1 c)) ->
  inv_chan s -> inv_chan s'.
Proof.
  intros Ec Ei W1 W2 (Ha & Hb & Hcc & Hd & He & Hg). unfold inv_chan. rewrite Ec, Ei.
  split; [|split; [|split; [|split; [|split]]]]; auto.
  - intros c H1 H2. destruct (Hd c H1 H2) as [t Ht]. eauto.
  - intros c H1 H2. destruct (He c H1 H2) as [t Ht]. eauto.
Qed.

Lemma step_chan s l s' : inv_fresh s -> inv_chan s -> step s l = Some s' -> inv_chan s'.
Proof.
  intros Hf Hc H. destruct Hf as (Hpos & Hthr & Hnew & Hroot & Hpc & Hls).
  assert (Hthr' : forall x p, s_thr s x = Some p -> 0 <= x < s_next s).
  { intros x p Hx. apply Hthr. congruence. }
  step_cases H; try assumption.
  all: try solve [apply chan_frame with s; simp_st; [reflexivity|reflexivity|keep_wit Hthr'|keep_wit Hthr'|assumption]].
  all: destruct Hc as (Ha & Hb & Hcc & Hd & He & Hg); unfold inv_chan; simp_st.
  - (* LNew *)
    destruct (Hnew (s_next s) ltac:(lia)) as [Hk _].
    split6; intros c0; destruct (Z.eq_dec c0 (s_next s)) as [->|Hne]; upd_tac; cbn [k_acc k_st]; auto; try discriminate; try (pose proof (Hg c0); unfold c_connectionClosed, c_connectionActive in *; lia); try (unfold c_connectionClosed, c_connectionActive; lia).
    + intros Hi. apply Ha in Hi. rewrite Hk in Hi. discriminate.
    + intros Hi Hcl. destruct (Hd _ Hi Hcl) as [t0 Ht0]. exists t0. pose proof (Hthr' _ _ Ht0). upd_tac. assumption.
    + intros _ _. exists (s_next s + 1). now upd_tac.
    + intros H1 H2. destruct (He _ H1 H2) as [t0 Ht0]. exists t0. pose proof (Hthr' _ _ Ht0). upd_tac. assumption.
  - (* LChange *)
    apply andb_true_iff in E as [E E3]. apply andb_true_iff in E as [E1 E2].
    apply negb_true_iff, Z.eqb_neq in E1. apply Z.ltb_lt in E2. apply Z.leb_le in E3.
    pose proof (Hg c) as Hgc.
    split6; intros c0; destruct (Z.eq_dec c0 c) as [->|Hne]; upd_tac; cbn [k_acc k_st with_st]; auto;
      try apply Hg; try lia.
    + intros Hacc Hn. apply Hcc; [assumption|lia].
    + intros Hi Hcl. exists (s_next s). now upd_tac.
    + intros Hi Hcl. destruct (Hd _ Hi Hcl) as [t0 Ht0]. exists t0. pose proof (Hthr' _ _ Ht0). upd_tac. assumption.
    + unfold c_connectionActive in *. intros Hs. lia.
    + intros H1 H2. destruct (He _ H1 H2) as [t0 Ht0]. exists t0. pose proof (Hthr' _ _ Ht0). upd_tac. assumption.
  - (* PAct1 accepted *)
    apply andb_true_iff in E0 as [E0 E1]. unfold is_active in E0. apply Z.eqb_eq in E0.
    split6; intros c0; destruct (Z.eq_dec c0 c) as [->|Hne]; upd_tac; cbn [k_acc k_st with_acc]; auto; try apply Hg.
    + intros _. rewrite E0. discriminate.
    + intros _ Hcl. rewrite E0 in Hcl. discriminate.
    + intros Hi Hcl. destruct (Hd _ Hi Hcl) as [t0 Ht0].
      destruct (Z.eq_dec t0 t) as [->|?]; [rewrite E in Ht0; discriminate|]. exists t0. upd_tac. assumption.
    + discriminate.
    + intros H1 H2. destruct (He _ H1 H2) as [t0 Ht0].
      destruct (Z.eq_dec t0 t) as [->|?]; [rewrite E in Ht0; inversion Ht0; congruence|]. exists t0. upd_tac. assumption.
  - (* PAct1 refused, was active *)
    unfold is_active in E1. apply Z.eqb_eq in E1.
    split6; intros c0; destruct (Z.eq_dec c0 c) as [->|Hne]; upd_tac; cbn [k_acc k_st with_st]; auto; try apply Hg; try (unfold c_connectionClosed, c_connectionStartClose; lia).
    + intros Hacc _. apply Hcc; [assumption|]. rewrite E1. discriminate.
    + intros Hi Hcl. destruct (Hd _ Hi Hcl) as [t0 Ht0]. pose proof (Hthr' _ _ Ht0).
      destruct (Z.eq_dec t0 t) as [->|?]; [rewrite E in Ht0; discriminate|]. exists t0. upd_tac. assumption.
    + discriminate.
    + intros H1 H2. destruct (He _ H1 H2) as [t0 Ht0]. pose proof (Hthr' _ _ Ht0).
      destruct (Z.eq_dec t0 t) as [->|?]; [rewrite E in Ht0; inversion Ht0; congruence|]. exists t0. upd_tac. assumption.
  - (* PAct1 refused, was not active *)
    unfold is_active in E1. apply Z.eqb_neq in E1.
    split6; auto; intros c0 H1 H2.
    + destruct (Hd _ H1 H2) as [t0 Ht0].
      destruct (Z.eq_dec t0 t) as [->|?]; [rewrite E in Ht0; discriminate|]. exists t0. upd_tac. assumption.
    + destruct (He _ H1 H2) as [t0 Ht0].
      destruct (Z.eq_dec t0 t) as [->|?]; [rewrite E in Ht0; inversion Ht0; congruence|]. exists t0. upd_tac. assumption.
  - (* PCb1, closed *)
    unfold is_closed in E0. apply Z.eqb_eq in E0.
    split6; intros c0; destruct (Z.eq_dec c0 c) as [->|Hne]; upd_tac; auto; try discriminate; try apply Hg.
    + intros Hi Hcl. destruct (Hd _ Hi Hcl) as [t0 Ht0].
      destruct (Z.eq_dec t0 t) as [->|?]; [rewrite E in Ht0; inversion Ht0; congruence|]. exists t0. upd_tac. assumption.
    + intros H1. rewrite E0 in H1. discriminate.
    + intros H1 H2. destruct (He _ H1 H2) as [t0 Ht0].
      destruct (Z.eq_dec t0 t) as [->|?]; [rewrite E in Ht0; discriminate|]. exists t0. upd_tac. assumption.
  - (* PCb1, not closed *)
    unfold is_closed in E0. apply Z.eqb_neq in E0.
    split6; auto; intros c0 H1 H2.
    + destruct (Hd _ H1 H2) as [t0 Ht0].
      destruct (Z.eq_dec t0 t) as [->|?]; [rewrite E in Ht0; inversion Ht0; congruence|]. exists t0. upd_tac. assumption.
    + destruct (He _ H1 H2) as [t0 Ht0].
      destruct (Z.eq_dec t0 t) as [->|?]; [rewrite E in Ht0; discriminate|]. exists t0. upd_tac. assumption.
Qed.

(* ---- status callbacks = gains + losses; gains - losses = list contents ---- *)
Definition inv_cb (s : st) : Prop :=
  Permutation (s_log s) (map ev_hp (s_gain s ++ s_loss s)) /\
  (forall pid c,
     (cnt c (p_in (s_peer s pid) ++ p_out (s_peer s pid))
      + length (filter (ev_is pid c) (s_loss s)))%nat
     = length (filter (ev_is pid c) (s_gain s))).

Lemma cb_frame s s' :
  s_log s' = s_log s -> s_gain s' = s_gain s -> s_loss s' = s_loss s ->
  (forall pid, p_in (s_peer s' pid) = p_in (s_peer s pid) /\ p_out (s_peer s' pid) = p_out (s_peer s pid)) ->
  inv_cb s -> inv_cb s'.
Proof.
  intros E1 E2 E3 Hp [H1 H2]. unfold inv_cb. rewrite E1, E2, E3. split; [assumption|].
  intros pid c. destruct (Hp pid) as [-> ->]. apply H2.
Qed.

Lemma ev_is_self pid c hp : ev_is pid c (hp, pid, c) = true.
Proof. unfold ev_is. cbn [fst snd]. now rewrite !Z.eqb_refl. Qed.

Lemma ev_is_other pid c hp pid' c' : (pid' <> pid \/ c' <> c) -> ev_is pid' c' (hp, pid, c) = false.
Proof.
  intros H. unfold ev_is. cbn [fst snd]. apply andb_false_iff.
  destruct H as [H|H]; [left|right]; apply Z.eqb_neq; congruence.
Qed.

Lemma filter_ev_cons pid c e l :
  length (filter (ev_is pid c) (e :: l)) = ((if ev_is pid c e then 1 else 0) + length (filter (ev_is pid c) l))%nat.
Proof. cbn [filter]. destruct (ev_is pid c e); reflexivity. Qed.

Lemma step_cb s l s' : inv_fresh s -> inv_cb s -> step s l = Some s' -> inv_cb s'.
Proof.
  intros Hf Hc H. destruct Hf as (Hpos & Hthr & Hnew & Hroot & Hpc & Hls).
  step_cases H; try assumption.
  all: try solve [apply cb_frame with s; simp_st; try reflexivity; try assumption;
                  intros q_; upd_all; cbn [p_in p_out p_with_sc]; auto;
                  destruct (Hnew (s_next s) ltac:(lia)) as [_ Hq_]; rewrite Hq_; auto].
  all: destruct Hc as [H1 H2]; unfold inv_cb; simp_st.
  all: split;
    [ cbn [map app]; eapply perm_trans; [apply Permutation_sym, Permutation_cons_append|];
      first [ apply perm_skip; exact H1
            | (* loss: the new event sits in the middle *)
              rewrite map_app; cbn [map]; eapply perm_trans; [apply perm_skip; exact H1|];
              rewrite map_app; apply Permutation_middle ]
    | intros pid' c'; specialize (H2 pid' c'); rewrite ?filter_ev_cons;
      destruct (Z.eq_dec pid' pid) as [->|Hp];
      [ rewrite upd_same; cbn [p_in p_out p_with_in p_with_out];
        destruct (Z.eq_dec c' c) as [->|Hcc];
        [ rewrite ev_is_self | rewrite (ev_is_other pid c _ pid c') by auto ]
      | rewrite upd_other by assumption; rewrite (ev_is_other pid c _ pid' c') by auto; lia ] ].
  all: rewrite ?cnt_app in *; rewrite ?cnt_cons in *; cbn [cnt filter length] in *;
       rewrite ?Z.eqb_refl in *; try lia.
  all: try (destruct (Z.eqb_spec c' c); [contradiction|]; lia).
  all: match goal with Es : swap_remove _ _ = Some _ |- _ =>
         first [ pose proof (swap_remove_cnt _ _ _ c' Es) as Hs | pose proof (swap_remove_cnt _ _ _ c Es) as Hs ] end.
  all: rewrite ?Z.eqb_refl in Hs; try lia.
  all: destruct (Z.eqb_spec c' c); [contradiction|]; lia.
Qed.

(* ---- scCount = number of peer-list entries holding the Peer object ---- *)
Definition inv_refs (s : st) : Prop :=
  forall pid, p_sc (s_peer s pid) = Z.of_nat (length (filter (ent_pid pid) (s_lists s))).

Lemma refs_frame s s' :
  s_lists s' = s_lists s -> (forall pid, p_sc (s_peer s' pid) = p_sc (s_peer s pid)) ->
  inv_refs s -> inv_refs s'.
Proof. intros E1 E2 H pid. rewrite E1, E2. apply H. Qed.

Lemma step_refs s l s' : inv_fresh s -> inv_refs s -> step s l = Some s' -> inv_refs s'.
Proof.
  intros Hf Hc H. destruct Hf as (Hpos & Hthr & Hnew & Hroot & Hpc & Hls).
  step_cases H; try assumption.
  all: try solve [apply refs_frame with s; simp_st; try reflexivity; try assumption;
                  intros q_; upd_all; cbn [p_sc p_with_in p_with_out]; auto;
                  destruct (Hnew (s_next s) ltac:(lia)) as [_ Hq_]; rewrite Hq_; auto].
  all: unfold inv_refs in *; simp_st; intros q_; specialize (Hc q_).
  - pose proof (list_del_count _ _ _ _ q_ E0) as Hd.
    destruct (Z.eq_dec q_ z) as [->|Hne]; upd_tac; cbn [p_sc p_with_sc].
    + rewrite Z.eqb_refl in Hd. lia.
    + destruct (Z.eqb_spec q_ z); [contradiction|]. lia.
  - cbn [filter]. unfold ent_pid at 1. cbn [snd].
    destruct (Z.eq_dec q_ pid) as [->|Hne]; upd_tac; cbn [p_sc p_with_sc].
    + rewrite Z.eqb_refl. cbn [length]. lia.
    + destruct (Z.eqb_spec pid q_); [congruence|]. lia.
Qed.

(* ---- collection of a peer that lost its last connection ---- *)
Definition col_for (p : pc) (hp pid : Z) : Prop :=
  match p with
  | PCol1 _ h _ => h = hp
  | PCol2 _ h q _ => h = hp /\ q = pid
  | PCol3 _ h _ => h = hp
  | _ => False
  end.

Definition gc_due (s : st) (pid : Z) : Prop :=
  let P := s_peer s pid in p_in P = [] /\ p_out P = [] /\ p_sc P = 0 /\ p_last P = 2.

Definition inv_gc (s : st) : Prop :=
  forall hp pid, s_root s hp = Some pid -> gc_due s pid ->
    exists t p, s_thr s t = Some p /\ col_for p hp pid.

Lemma gc_frame s s' :
  (forall hp pid, s_root s' hp = Some pid -> gc_due s' pid -> s_root s hp = Some pid /\ gc_due s pid) ->
  (forall t p hp pid, s_thr s t = Some p -> col_for p hp pid -> s_root s' hp = Some pid -> gc_due s' pid ->
     exists t' p', s_thr s' t' = Some p' /\ col_for p' hp pid) ->
  inv_gc s -> inv_gc s'.
Proof.
  intros H1 H2 H hp pid Hr Hd. destruct (H1 _ _ Hr Hd) as [Hr0 Hd0].
  destruct (H _ _ Hr0 Hd0) as (t & p & Ht & Hc). eauto.
Qed.

Ltac keep_col Hthr' :=
  let t_ := fresh "t_" in let p_ := fresh "p_" in let h_ := fresh "h_" in let q_ := fresh "q_" in
  let Hw_ := fresh "Hw_" in let Hc_ := fresh "Hc_" in let Hr_ := fresh "Hr_" in let Hd_ := fresh "Hd_" in
  intros t_ p_ h_ q_ Hw_ Hc_ Hr_ Hd_; pose proof (Hthr' _ _ Hw_);
  first
  [ match goal with E : s_thr ?s ?t = Some _ |- _ =>
      destruct (Z.eq_dec t_ t) as [->|?];
      [ rewrite E in Hw_; inversion Hw_; subst p_; cbn [col_for] in Hc_; contradiction
      | exists t_, p_; split; [upd_tac; assumption|assumption] ] end
  | exists t_, p_; split; [upd_tac; assumption|assumption] ].

Lemma step_gc s l s' : inv_fresh s -> inv_root s -> inv_gc s -> step s l = Some s' -> inv_gc s'.
Proof.
  intros Hf Hrt Hc H. destruct Hf as (Hpos & Hthr & Hnew & Hroot & Hpc & Hls).
  assert (Hthr' : forall x p, s_thr s x = Some p -> 0 <= x < s_next s).
  { intros x p Hx. apply Hthr. congruence. }
  step_cases H; try assumption.
  all: try solve [apply gc_frame with s; simp_st; [intros; split; assumption | keep_col Hthr' | assumption]].
  (* peers created or modified with p_last <> 2 *)
  all: try solve [apply gc_frame with s; simp_st;
         [ intros h_ q_ Hr_ Hd_; unfold gc_due in *; simp_st; revert Hr_ Hd_; upd_all;
           cbn [p_in p_out p_sc p_last p_with_in p_with_out p_with_sc]; intros Hr_ Hd_;
           first [ split; assumption
                 | destruct Hd_ as (_ & _ & _ & Hd_); discriminate Hd_
                 | inversion Hr_; subst; first [ lia | destruct Hd_ as (_ & _ & _ & Hd_); discriminate Hd_ ]
                 | apply Hroot in Hr_; lia ]
         | keep_col Hthr' | assumption]].
  (* PCbRem removed the connection: the goroutine itself becomes the collector *)
  1, 2: intros h_ q_ Hr_ Hd_; simp_st;
    (destruct (Z.eq_dec q_ pid) as [->|Hne];
     [ exists t, (PCol1 c (p_hp (s_peer s pid)) todo); split; [now upd_tac|];
       cbn [col_for]; apply Hrt in Hr_; exact Hr_
     | assert (Hd0 : gc_due s q_) by (unfold gc_due in *; simp_st; rewrite upd_other in Hd_ by assumption; exact Hd_);
       destruct (Hc _ _ Hr_ Hd0) as (t0 & p0 & Ht0 & Hc0);
       destruct (Z.eq_dec t0 t) as [->|?];
       [ rewrite E in Ht0; inversion Ht0; subst p0; cbn [col_for] in Hc0; contradiction
       | exists t0, p0; split; [upd_tac; assumption|assumption] ] ]).
  - (* PCol1, peer found *)
    apply gc_frame with s; simp_st; [intros; split; assumption| |assumption].
    intros t_ p_ h_ q_ Hw_ Hc_ Hr_ Hd_.
    destruct (Z.eq_dec t_ t) as [->|?].
    + rewrite E in Hw_; inversion Hw_; subst p_. cbn [col_for] in Hc_. subst h_.
      rewrite E0 in Hr_. inversion Hr_; subst q_.
      exists t, (PCol2 c hp z todo). split; [now upd_tac|]. cbn [col_for]. auto.
    + exists t_, p_. split; [upd_tac; assumption|assumption].
  - (* PCol1, no peer *)
    apply gc_frame with s; simp_st; [intros; split; assumption| |assumption].
    intros t_ p_ h_ q_ Hw_ Hc_ Hr_ Hd_.
    destruct (Z.eq_dec t_ t) as [->|?].
    + rewrite E in Hw_; inversion Hw_; subst p_. cbn [col_for] in Hc_. subst h_. congruence.
    + exists t_, p_. split; [upd_tac; assumption|assumption].
  - (* PCol2, removable *)
    apply gc_frame with s; simp_st; [intros; split; assumption| |assumption].
    intros t_ p_ h_ q_ Hw_ Hc_ Hr_ Hd_.
    destruct (Z.eq_dec t_ t) as [->|?].
    + rewrite E in Hw_; inversion Hw_; subst p_. cbn [col_for] in Hc_. destruct Hc_ as [-> ->].
      exists t, (PCol3 c h_ todo). split; [now upd_tac|]. reflexivity.
    + exists t_, p_. split; [upd_tac; assumption|assumption].
  - (* PCol2, not removable *)
    apply gc_frame with s; simp_st; [intros; split; assumption| |assumption].
    intros t_ p_ h_ q_ Hw_ Hc_ Hr_ Hd_.
    destruct (Z.eq_dec t_ t) as [->|?].
    + rewrite E in Hw_; inversion Hw_; subst p_. cbn [col_for] in Hc_. destruct Hc_ as [-> ->].
      exfalso. unfold gc_due in Hd_. simp_st. destruct Hd_ as (Hi & Ho & Hs & _). unfold can_remove in E0. rewrite Hi, Ho, Hs in E0.
      discriminate E0.
    + exists t_, p_. split; [upd_tac; assumption|assumption].
  - (* PCol3: delete *)
    apply gc_frame with s; simp_st; [| |assumption].
    + intros h_ q_ Hr_ Hd_. split; [|exact Hd_]. revert Hr_. upd_all; [discriminate|auto].
    + intros t_ p_ h_ q_ Hw_ Hc_ Hr_ Hd_.
      destruct (Z.eq_dec t_ t) as [->|?].
      * rewrite E in Hw_; inversion Hw_; subst p_. cbn [col_for] in Hc_. subst h_.
        rewrite upd_same in Hr_. discriminate.
      * exists t_, p_. split; [upd_tac; assumption|assumption].
Qed.

(* ---- assembly ---- *)
Record Inv0 (s : st) : Prop := {
  i_fresh : inv_fresh s; i_root : inv_root s; i_chan : inv_chan s;
  i_cb : inv_cb s; i_refs : inv_refs s; i_gc : inv_gc s }.

Lemma inv0_init : Inv0 init.
Proof.
  split.
  - unfold inv_fresh, init; simp_st. repeat split; try lia; try discriminate; try contradiction;
      intros x H; now contradiction H.
  - intros hp pid H. discriminate H.
  - unfold inv_chan, init; simp_st. cbn [k_acc k_st no_conn]. unfold c_connectionClosed, c_connectionActive.
    split6; intros; try discriminate; try lia.
  - split; [constructor|]. intros pid c. reflexivity.
  - intros pid. reflexivity.
  - intros hp pid H. discriminate H.
Qed.

Lemma inv0_step s l s' : Inv0 s -> step s l = Some s' -> Inv0 s'.
Proof.
  intros [Hf Hr Hc Hb Hrf Hg] H. split.
  - eapply step_fresh; eauto.
  - eapply step_root; eauto.
  - eapply step_chan; eauto.
  - eapply step_cb; eauto.
  - eapply step_refs; eauto.
  - eapply step_gc; eauto.
Qed.

Lemma inv0_run ls : forall s s', Inv0 s -> run_gen true s ls = Some s' -> Inv0 s'.
Proof.
  induction ls as [|l r IH]; intros s s' Hi H; cbn [run_gen] in H.
  - inversion H; subst; assumption.
  - destruct (step_gen true s l) as [s1|] eqn:E; [|discriminate].
    eapply IH; [|exact H]. eapply inv0_step; eauto.
Qed.

Lemma inv0_reach ls s : run init ls = Some s -> Inv0 s.
Proof. intros H. eapply inv0_run; [apply inv0_init|exact H]. Qed.

Theorem channel_tracks_all ls s : run init ls = Some s -> quiescent s -> channel_tracks s.
Proof.
  intros Hr Hq. destruct (inv0_reach _ _ Hr) as [_ _ (Ha & Hb & Hc & Hd & He & Hg) _ _ _].
  split.
  - intros c. split.
    + intros Hi. split; [now apply Ha|]. intros Hcl. destruct (Hd c Hi Hcl) as [t Ht].
      rewrite Hq in Ht. discriminate.
    + intros [H1 H2]. now apply Hc.
  - intros c _ Hacc Hact. destruct (He c Hact Hacc) as [t Ht]. rewrite Hq in Ht. discriminate.
Qed.

Theorem callbacks_exact_all ls s : run init ls = Some s -> callbacks_exact s.
Proof. intros Hr. destruct (inv0_reach _ _ Hr) as [_ _ _ Hcb _ _]. exact Hcb. Qed.

Theorem peer_gc_all ls s : run init ls = Some s -> quiescent s -> peer_gc s.
Proof.
  intros Hr Hq. destruct (inv0_reach _ _ Hr) as [_ _ _ _ Hrf Hg]. split.
  - intros hp pid Hroot P Hi Ho Hrefs Hl.
    assert (Hd : gc_due s pid).
    { unfold gc_due. repeat split; auto. rewrite Hrf. exact Hrefs. }
    destruct (Hg _ _ Hroot Hd) as (t & p & Ht & _). rewrite Hq in Ht. discriminate.
  - exact Hrf.
Qed.
