(* Connection attempts over the bookkeeping model (Model/PeerDial.v):
   - every run with dial goroutines projects to a run of Model/PeerBook.v (an attempt touches the
     bookkeeping state only through GetOrAdd and, when its handshake completes, through LNew), so
     every theorem about quiescent states of PeerBook.v holds with attempts in flight, overlapping
     removals, and failing afterwards;
   - newConnLock: held iff exactly one dial goroutine is between lockNewConn and its unlock; all
     locks are free when no dial goroutine is left;
   - the VARIANT whose canRemove also requires a free newConnLock leaks a peer (witness run). *)
From Coq Require Import ZArith List Bool Lia.
From Verif Require Import Base.Wrap Gen.GenConsts Model.PeerBook Spec.PeerBookSpec
  Proofs.PeerBookL Proofs.PeerBookP Proofs.PeerBookW Model.PeerDial.
Import ListNotations.
Local Open Scope Z_scope.

(* "no goroutine inside a bookkeeping function and no connection attempt in flight" *)
Definition dquiescent (ds : dst) : Prop := quiescent (d_s ds) /\ forall d, d_thr ds d = None.

Lemma begin_on_s ds pid : d_s (begin_on ds pid) = d_s ds.
Proof. unfold begin_on. destruct (has_active (d_s ds) pid); reflexivity. Qed.

(* ---- projection: one step of the dial model is no step or one step of PeerBook.v ---- *)
Lemma dstep_sim ds l ds' :
  dstep ds l = Some ds' ->
  d_s ds' = d_s ds \/ exists l0, step (d_s ds) l0 = Some (d_s ds').
Proof.
  unfold dstep, dstep_gen. destruct l as [l0|hp|pid|d|d|d rhp].
  - destruct (step (d_s ds) l0) as [s'|] eqn:E; cbn [option_map]; intros H; inversion H; subst.
    right. exists l0. exact E.
  - destruct (hp =? 0) eqn:Eh; [discriminate|].
    destruct (root_get_or_add (d_s ds) hp) as [s1 pid] eqn:Eg. intros H; inversion H; subst.
    right. exists (LGetOrAdd hp). rewrite begin_on_s. cbn [d_s with_s].
    unfold step, step_gen. rewrite Eh, Eg. reflexivity.
  - destruct (p_hp (s_peer (d_s ds) pid) =? 0); [discriminate|]. intros H; inversion H; subst.
    left. apply begin_on_s.
  - destruct (d_thr ds d) as [[q|q|q|q t]|]; try discriminate.
    + destruct (d_lock ds q); [discriminate|]. intros H; inversion H; subst. left. reflexivity.
    + destruct (has_active (d_s ds) q); intros H; inversion H; subst; left; reflexivity.
    + destruct (s_thr (d_s ds) t); [discriminate|]. intros H; inversion H; subst. left. reflexivity.
  - destruct (d_thr ds d) as [[q|q|q|q t]|]; try discriminate; intros H; inversion H; subst; left; reflexivity.
  - destruct (d_thr ds d) as [[q|q|q|q t]|]; try discriminate.
    destruct (step (d_s ds) (LNew c_outbound rhp (p_hp (s_peer (d_s ds) q)))) as [s'|] eqn:E; [|discriminate].
    intros H; inversion H; subst. right. eexists. exact E.
Qed.

Lemma run_gen_app s l1 l2 s1 s2 :
  run_gen true s l1 = Some s1 -> run_gen true s1 l2 = Some s2 -> run_gen true s (l1 ++ l2) = Some s2.
Proof.
  revert s. induction l1 as [|l r IH]; intros s H1 H2; cbn [run_gen app] in *.
  - inversion H1; subst. exact H2.
  - destruct (step_gen true s l) as [s'|]; [|discriminate]. eapply IH; eauto.
Qed.

Lemma drun_sim ls : forall ds ds',
  drun ds ls = Some ds' -> exists ls', run_gen true (d_s ds) ls' = Some (d_s ds').
Proof.
  induction ls as [|l r IH]; intros ds ds' H; unfold drun in *; cbn [drun_gen] in H.
  - inversion H; subst. exists []. reflexivity.
  - destruct (dstep_gen false ds l) as [ds1|] eqn:E; [|discriminate].
    destruct (IH _ _ H) as [ls' Hr]. apply dstep_sim in E. destruct E as [E|[l0 E]].
    + exists ls'. rewrite <- E. exact Hr.
    + exists (l0 :: ls'). cbn [run_gen]. unfold step in E. rewrite E. exact Hr.
Qed.

Theorem dial_projects ls ds :
  drun dinit ls = Some ds -> exists ls', run init ls' = Some (d_s ds).
Proof. intros H. apply drun_sim in H. exact H. Qed.

(* ---- the theorems of PeerBook.v, with connection attempts in flight ---- *)
Theorem peer_gc_dial ls ds :
  drun dinit ls = Some ds -> quiescent (d_s ds) -> peer_gc (d_s ds).
Proof. intros H Hq. destruct (dial_projects _ _ H) as [ls' Hr]. eapply peer_gc_all; eauto. Qed.

Theorem channel_tracks_dial ls ds :
  drun dinit ls = Some ds -> quiescent (d_s ds) -> channel_tracks (d_s ds).
Proof. intros H Hq. destruct (dial_projects _ _ H) as [ls' Hr]. eapply channel_tracks_all; eauto. Qed.

Theorem callbacks_dial ls ds :
  drun dinit ls = Some ds -> callbacks_exact (d_s ds).
Proof. intros H. destruct (dial_projects _ _ H) as [ls' Hr]. eapply callbacks_exact_all; eauto. Qed.

(* the collection clause in the words of the property: after any history -- attempts to hp or to
   anything else started, hanging, failed, completed, in any overlap with the removals -- once
   nothing is in flight, a Peer object whose last change was losing a connection, with no
   connection and no reference left, is not what the root list holds for any host:port *)
Theorem collected_when_quiet ls ds :
  drun dinit ls = Some ds -> dquiescent ds ->
  forall hp pid, let P := s_peer (d_s ds) pid in
    p_in P = [] -> p_out P = [] -> refs (d_s ds) pid = 0 -> p_last P = 2 ->
    s_root (d_s ds) hp <> Some pid.
Proof.
  intros H [Hq _] hp pid P Hi Ho Hr Hl Hroot.
  destruct (peer_gc_dial _ _ H Hq) as [Hg _]. exact (Hg hp pid Hroot Hi Ho Hr Hl).
Qed.

(* ---- newConnLock ---- *)
Definition holds (p : option dpc) (pid : Z) : Prop :=
  match p with
  | Some (DCheck q) | Some (DConn q) | Some (DWait q _) => q = pid
  | _ => False
  end.

Definition lock_inv (ds : dst) : Prop :=
  0 <= d_next ds /\
  (forall d, d_thr ds d <> None -> 0 <= d < d_next ds) /\
  (forall pid, d_lock ds pid = true -> exists d, holds (d_thr ds d) pid) /\
  (forall d pid, holds (d_thr ds d) pid -> d_lock ds pid = true) /\
  (forall d1 d2 pid, holds (d_thr ds d1) pid -> holds (d_thr ds d2) pid -> d1 = d2).

Lemma lock_inv_init : lock_inv dinit.
Proof.
  unfold lock_inv, dinit; cbn [d_next d_thr d_lock d_s]. split; [lia|]. split; [|split; [|split]].
  - intros d H. now contradiction H.
  - intros pid H. discriminate H.
  - intros d pid H. contradiction.
  - intros d1 d2 pid H. contradiction.
Qed.

Lemma lock_inv_with_s ds s : lock_inv ds -> lock_inv (with_s ds s).
Proof. intros H. exact H. Qed.

Lemma lock_inv_spawn ds pid : lock_inv ds -> lock_inv (dspawn ds (DLock pid)).
Proof.
  intros (Hn & Hf & Hl & Hh & Hu). unfold lock_inv, dspawn; cbn [d_next d_thr d_lock d_s].
  assert (Hfree : d_thr ds (d_next ds) = None).
  { destruct (d_thr ds (d_next ds)) eqn:E; [|reflexivity]. assert (0 <= d_next ds < d_next ds) by (apply Hf; congruence). lia. }
  split; [lia|]. split; [|split; [|split]].
  - intros d Hd. destruct (Z.eq_dec d (d_next ds)) as [->|Hne]; [lia|].
    rewrite upd_other in Hd by assumption. apply Hf in Hd. lia.
  - intros q Hq. destruct (Hl q Hq) as [d Hd]. exists d.
    destruct (Z.eq_dec d (d_next ds)) as [->|Hne]; [rewrite Hfree in Hd; contradiction|].
    rewrite upd_other by assumption. exact Hd.
  - intros d q Hd. destruct (Z.eq_dec d (d_next ds)) as [->|Hne].
    + rewrite upd_same in Hd. contradiction.
    + rewrite upd_other in Hd by assumption. eauto.
  - intros d1 d2 q H1 H2.
    destruct (Z.eq_dec d1 (d_next ds)) as [->|Hn1]; [rewrite upd_same in H1; contradiction|].
    destruct (Z.eq_dec d2 (d_next ds)) as [->|Hn2]; [rewrite upd_same in H2; contradiction|].
    rewrite upd_other in H1, H2 by assumption. eauto.
Qed.

Lemma lock_inv_begin ds pid : lock_inv ds -> lock_inv (begin_on ds pid).
Proof. intros H. unfold begin_on. destruct (has_active (d_s ds) pid); [exact H|]. now apply lock_inv_spawn. Qed.

(* goroutine d, holder of pid's lock, moves to another holding pc *)
Lemma lock_inv_move ds d pid p' :
  lock_inv ds -> holds (d_thr ds d) pid -> holds (Some p') pid -> lock_inv (dset_thr ds d (Some p')).
Proof.
  intros (Hn & Hf & Hl & Hh & Hu) H0 H1. unfold lock_inv, dset_thr; cbn [d_next d_thr d_lock d_s].
  assert (Hd0 : d_thr ds d <> None) by (intros E; rewrite E in H0; contradiction).
  split; [lia|]. split; [|split; [|split]].
  - intros x Hx. destruct (Z.eq_dec x d) as [->|Hne]; [now apply Hf|]. rewrite upd_other in Hx by assumption. now apply Hf.
  - intros q Hq. destruct (Hl q Hq) as [x Hx]. destruct (Z.eq_dec x d) as [->|Hne].
    + exists d. rewrite upd_same. assert (q = pid).
      { destruct (d_thr ds d) as [[a|a|a|a b]|]; cbn [holds] in *; try contradiction; congruence. }
      subst q. exact H1.
    + exists x. rewrite upd_other by assumption. exact Hx.
  - intros x q Hx. destruct (Z.eq_dec x d) as [->|Hne].
    + rewrite upd_same in Hx. assert (q = pid).
      { destruct p' as [a|a|a|a b]; cbn [holds] in *; try contradiction; congruence. }
      subst q. eauto.
    + rewrite upd_other in Hx by assumption. eauto.
  - assert (Hpid : forall q, holds (Some p') q -> q = pid).
    { intros q Hq. destruct p' as [a|a|a|a b]; cbn [holds] in *; try contradiction; congruence. }
    intros x1 x2 q Hx1 Hx2.
    destruct (Z.eq_dec x1 d) as [->|Hn1]; destruct (Z.eq_dec x2 d) as [->|Hn2]; auto.
    + rewrite upd_same in Hx1. rewrite upd_other in Hx2 by assumption. apply Hpid in Hx1. subst q. symmetry. eauto.
    + rewrite upd_same in Hx2. rewrite upd_other in Hx1 by assumption. apply Hpid in Hx2. subst q. eauto.
    + rewrite upd_other in Hx1, Hx2 by assumption. eauto.
Qed.

(* goroutine d, holder of pid's lock, unlocks and ends *)
Lemma lock_inv_unlock ds d pid :
  lock_inv ds -> holds (d_thr ds d) pid -> lock_inv (dset_thr (dset_lock ds pid false) d None).
Proof.
  intros (Hn & Hf & Hl & Hh & Hu) H0. unfold lock_inv, dset_thr, dset_lock; cbn [d_next d_thr d_lock d_s].
  split; [lia|]. split; [|split; [|split]].
  - intros x Hx. destruct (Z.eq_dec x d) as [->|Hne]; [rewrite upd_same in Hx; now contradiction Hx|].
    rewrite upd_other in Hx by assumption. now apply Hf.
  - intros q Hq. destruct (Z.eq_dec q pid) as [->|Hne]; [rewrite upd_same in Hq; discriminate|].
    rewrite upd_other in Hq by assumption. destruct (Hl q Hq) as [x Hx]. exists x.
    destruct (Z.eq_dec x d) as [->|Hnx]; [|rewrite upd_other by assumption; exact Hx].
    exfalso. apply Hne. destruct (d_thr ds d) as [[a|a|a|a b]|]; cbn [holds] in *; try contradiction; congruence.
  - intros x q Hx. destruct (Z.eq_dec x d) as [->|Hnx]; [rewrite upd_same in Hx; contradiction|].
    rewrite upd_other in Hx by assumption. destruct (Z.eq_dec q pid) as [->|Hne].
    + exfalso. apply Hnx. eauto.
    + rewrite upd_other by assumption. eauto.
  - intros x1 x2 q Hx1 Hx2.
    destruct (Z.eq_dec x1 d) as [->|Hn1]; [rewrite upd_same in Hx1; contradiction|].
    destruct (Z.eq_dec x2 d) as [->|Hn2]; [rewrite upd_same in Hx2; contradiction|].
    rewrite upd_other in Hx1, Hx2 by assumption. eauto.
Qed.

(* goroutine d, waiting at DLock, ends without the lock *)
Lemma lock_inv_giveup ds d pid :
  lock_inv ds -> d_thr ds d = Some (DLock pid) -> lock_inv (dset_thr ds d None).
Proof.
  intros (Hn & Hf & Hl & Hh & Hu) H0. unfold lock_inv, dset_thr; cbn [d_next d_thr d_lock d_s].
  split; [lia|]. split; [|split; [|split]].
  - intros x Hx. destruct (Z.eq_dec x d) as [->|Hne]; [rewrite upd_same in Hx; now contradiction Hx|].
    rewrite upd_other in Hx by assumption. now apply Hf.
  - intros q Hq. destruct (Hl q Hq) as [x Hx]. exists x.
    destruct (Z.eq_dec x d) as [->|Hnx]; [rewrite H0 in Hx; contradiction|]. rewrite upd_other by assumption. exact Hx.
  - intros x q Hx. destruct (Z.eq_dec x d) as [->|Hnx]; [rewrite upd_same in Hx; contradiction|].
    rewrite upd_other in Hx by assumption. eauto.
  - intros x1 x2 q Hx1 Hx2.
    destruct (Z.eq_dec x1 d) as [->|Hn1]; [rewrite upd_same in Hx1; contradiction|].
    destruct (Z.eq_dec x2 d) as [->|Hn2]; [rewrite upd_same in Hx2; contradiction|].
    rewrite upd_other in Hx1, Hx2 by assumption. eauto.
Qed.

(* goroutine d, waiting at DLock, takes the free lock *)
Lemma lock_inv_take ds d pid :
  lock_inv ds -> d_thr ds d = Some (DLock pid) -> d_lock ds pid = false ->
  lock_inv (dset_thr (dset_lock ds pid true) d (Some (DCheck pid))).
Proof.
  intros (Hn & Hf & Hl & Hh & Hu) H0 Hfree. unfold lock_inv, dset_thr, dset_lock; cbn [d_next d_thr d_lock d_s].
  assert (Hno : forall x, ~ holds (d_thr ds x) pid).
  { intros x Hx. apply Hh in Hx. congruence. }
  split; [lia|]. split; [|split; [|split]].
  - intros x Hx. destruct (Z.eq_dec x d) as [->|Hne]; [apply Hf; congruence|].
    rewrite upd_other in Hx by assumption. now apply Hf.
  - intros q Hq. destruct (Z.eq_dec q pid) as [->|Hne].
    + exists d. rewrite upd_same. reflexivity.
    + rewrite upd_other in Hq by assumption. destruct (Hl q Hq) as [x Hx]. exists x.
      destruct (Z.eq_dec x d) as [->|Hnx]; [rewrite H0 in Hx; contradiction|]. rewrite upd_other by assumption. exact Hx.
  - intros x q Hx. destruct (Z.eq_dec x d) as [->|Hnx].
    + rewrite upd_same in Hx. cbn [holds] in Hx. subst q. apply upd_same.
    + rewrite upd_other in Hx by assumption. destruct (Z.eq_dec q pid) as [->|Hne]; [apply upd_same|].
      rewrite upd_other by assumption. eauto.
  - intros x1 x2 q Hx1 Hx2.
    destruct (Z.eq_dec x1 d) as [->|Hn1]; destruct (Z.eq_dec x2 d) as [->|Hn2]; auto.
    + rewrite upd_same in Hx1. cbn [holds] in Hx1. subst q. rewrite upd_other in Hx2 by assumption.
      exfalso. exact (Hno _ Hx2).
    + rewrite upd_same in Hx2. cbn [holds] in Hx2. subst q. rewrite upd_other in Hx1 by assumption.
      exfalso. exact (Hno _ Hx1).
    + rewrite upd_other in Hx1, Hx2 by assumption. eauto.
Qed.

Lemma gated_base_lock ds l ds' : lock_inv ds -> gated_base ds l = Some ds' -> lock_inv ds'.
Proof.
  intros Hi. unfold gated_base.
  assert (Hb : forall o, option_map (with_s ds) o = Some ds' -> lock_inv ds').
  { intros [s'|]; cbn [option_map]; intros H; inversion H; subst. exact Hi. }
  destruct l; try apply Hb.
  destruct (s_thr (d_s ds) t) as [[]|]; try apply Hb.
  destruct (d_lock ds q); [|apply Hb]. intros H; inversion H; subst. exact Hi.
Qed.

Lemma dstep_lock gate ds l ds' : lock_inv ds -> dstep_gen gate ds l = Some ds' -> lock_inv ds'.
Proof.
  intros Hi. unfold dstep_gen. destruct l as [l0|hp|pid|d|d|d rhp].
  - destruct gate; [apply gated_base_lock; exact Hi|].
    destruct (step (d_s ds) l0); cbn [option_map]; intros H; inversion H; subst. exact Hi.
  - destruct (hp =? 0); [discriminate|]. destruct (root_get_or_add (d_s ds) hp) as [s1 pid].
    intros H; inversion H; subst. apply lock_inv_begin. exact Hi.
  - destruct (p_hp (s_peer (d_s ds) pid) =? 0); [discriminate|]. intros H; inversion H; subst.
    apply lock_inv_begin. exact Hi.
  - destruct (d_thr ds d) as [[q|q|q|q t]|] eqn:E; try discriminate.
    + destruct (d_lock ds q) eqn:El; [discriminate|]. intros H; inversion H; subst. now apply lock_inv_take.
    + destruct (has_active (d_s ds) q); intros H; inversion H; subst.
      * apply lock_inv_unlock; [exact Hi|]. rewrite E. reflexivity.
      * apply lock_inv_move with q; [exact Hi|rewrite E; reflexivity|reflexivity].
    + destruct (s_thr (d_s ds) t); [discriminate|]. intros H; inversion H; subst.
      apply lock_inv_unlock; [exact Hi|]. rewrite E. reflexivity.
  - destruct (d_thr ds d) as [[q|q|q|q t]|] eqn:E; try discriminate; intros H; inversion H; subst.
    + eapply lock_inv_giveup; eauto.
    + apply lock_inv_unlock; [exact Hi|]. rewrite E. reflexivity.
  - destruct (d_thr ds d) as [[q|q|q|q t]|] eqn:E; try discriminate.
    destruct (step (d_s ds) (LNew c_outbound rhp (p_hp (s_peer (d_s ds) q)))) as [s'|]; [|discriminate].
    intros H; inversion H; subst.
    apply (lock_inv_move (with_s ds s') d q (DWait q (s_next (d_s ds) + 1))); [exact Hi| |reflexivity].
    cbn [with_s d_thr]. rewrite E. reflexivity.
Qed.

Lemma drun_lock gate ls : forall ds ds', lock_inv ds -> drun_gen gate ds ls = Some ds' -> lock_inv ds'.
Proof.
  induction ls as [|l r IH]; intros ds ds' Hi H; cbn [drun_gen] in H.
  - inversion H; subst; exact Hi.
  - destruct (dstep_gen gate ds l) as [ds1|] eqn:E; [|discriminate].
    eapply IH; [|exact H]. eapply dstep_lock; eauto.
Qed.

(* newConnLock of a Peer object is held iff a dial goroutine is between lockNewConn and its
   unlock for that object, and there is at most one such goroutine per object *)
Theorem newconn_lock_exclusive ls ds :
  drun dinit ls = Some ds ->
  (forall pid, d_lock ds pid = true <-> exists d, holds (d_thr ds d) pid) /\
  (forall d1 d2 pid, holds (d_thr ds d1) pid -> holds (d_thr ds d2) pid -> d1 = d2).
Proof.
  intros H. destruct (drun_lock _ _ _ _ lock_inv_init H) as (_ & _ & Hl & Hh & Hu).
  split; [|exact Hu]. intros pid. split; [apply Hl|]. intros [d Hd]. eauto.
Qed.

(* every attempt gave its lock back *)
Theorem newconn_lock_released ls ds :
  drun dinit ls = Some ds -> (forall d, d_thr ds d = None) -> forall pid, d_lock ds pid = false.
Proof.
  intros H Hq pid. destruct (drun_lock _ _ _ _ lock_inv_init H) as (_ & _ & Hl & _ & _).
  destruct (d_lock ds pid) eqn:E; [|reflexivity]. destruct (Hl pid E) as [d Hd]. rewrite Hq in Hd. contradiction.
Qed.

(* ---- freshness of the bookkeeping state along runs of either variant ---- *)
Lemma set_thr_fresh s t p p' :
  inv_fresh s -> s_thr s t = Some p -> pc_pid p' = None -> inv_fresh (set_thr s t (Some p')).
Proof.
  intros (Hpos & Hthr & Hnew & Hroot & Hpc & Hls) Ht Hp. unfold inv_fresh; simp_st.
  split; [exact Hpos|]. split; [|split; [|split; [|split]]]; auto.
  - intros x Hx. destruct (Z.eq_dec x t) as [->|Hne]; [apply Hthr; congruence|].
    rewrite upd_other in Hx by assumption. now apply Hthr.
  - intros x p0 q Hx Hq. destruct (Z.eq_dec x t) as [->|Hne].
    + rewrite upd_same in Hx. inversion Hx; subst. congruence.
    + rewrite upd_other in Hx by assumption. eauto.
Qed.

Lemma dstep_fresh gate ds l ds' : inv_fresh (d_s ds) -> dstep_gen gate ds l = Some ds' -> inv_fresh (d_s ds').
Proof.
  intros Hi. unfold dstep_gen. destruct l as [l0|hp|pid|d|d|d rhp].
  - assert (Hb : option_map (with_s ds) (step (d_s ds) l0) = Some ds' -> inv_fresh (d_s ds')).
    { destruct (step (d_s ds) l0) as [s'|] eqn:E; cbn [option_map]; intros H; inversion H; subst.
      cbn [d_s with_s]. eapply step_fresh; eauto. }
    destruct gate; [|exact Hb]. unfold gated_base.
    destruct l0; try exact Hb.
    destruct (s_thr (d_s ds) t) as [[]|] eqn:Et; try exact Hb.
    destruct (d_lock ds q); [|exact Hb]. intros H; inversion H; subst. cbn [d_s with_s].
    eapply set_thr_fresh; eauto.
  - destruct (hp =? 0) eqn:Eh; [discriminate|]. destruct (root_get_or_add (d_s ds) hp) as [s1 pid] eqn:Eg.
    intros H; inversion H; subst. rewrite begin_on_s. cbn [d_s with_s].
    apply (step_fresh (d_s ds) (LGetOrAdd hp)); [exact Hi|]. unfold step, step_gen. rewrite Eh, Eg. reflexivity.
  - destruct (p_hp (s_peer (d_s ds) pid) =? 0); [discriminate|]. intros H; inversion H; subst.
    rewrite begin_on_s. exact Hi.
  - destruct (d_thr ds d) as [[q|q|q|q t]|]; try discriminate.
    + destruct (d_lock ds q); [discriminate|]. intros H; inversion H; subst. exact Hi.
    + destruct (has_active (d_s ds) q); intros H; inversion H; subst; exact Hi.
    + destruct (s_thr (d_s ds) t); [discriminate|]. intros H; inversion H; subst. exact Hi.
  - destruct (d_thr ds d) as [[q|q|q|q t]|]; try discriminate; intros H; inversion H; subst; exact Hi.
  - destruct (d_thr ds d) as [[q|q|q|q t]|]; try discriminate.
    destruct (step (d_s ds) (LNew c_outbound rhp (p_hp (s_peer (d_s ds) q)))) as [s'|] eqn:E; [|discriminate].
    intros H; inversion H; subst. cbn [d_s dset_thr with_s]. eapply step_fresh; eauto.
Qed.

Lemma drun_fresh gate ls : forall ds ds', inv_fresh (d_s ds) -> drun_gen gate ds ls = Some ds' -> inv_fresh (d_s ds').
Proof.
  induction ls as [|l r IH]; intros ds ds' Hi H; cbn [drun_gen] in H.
  - inversion H; subst; exact Hi.
  - destruct (dstep_gen gate ds l) as [ds1|] eqn:E; [|discriminate].
    eapply IH; [|exact H]. eapply dstep_fresh; eauto.
Qed.

(* ---- witness runs ---- *)
Definition dfinal (gate : bool) (ls : list dlabel) : dst :=
  match drun_gen gate dinit ls with Some ds => ds | None => dinit end.
Definition dran (gate : bool) (ls : list dlabel) : bool :=
  match drun_gen gate dinit ls with Some _ => true | None => false end.
Lemma dfinal_run gate ls : dran gate ls = true -> drun_gen gate dinit ls = Some (dfinal gate ls).
Proof. unfold dran, dfinal. destruct (drun_gen gate dinit ls); [reflexivity|discriminate]. Qed.

Fixpoint any_dial (thr : Z -> option dpc) (n : nat) : bool :=
  match n with
  | O => false
  | S n' => (match thr (Z.of_nat n') with Some _ => true | None => false end) || any_dial thr n'
  end.

Lemma any_dial_false thr n : any_dial thr n = false -> forall d, 0 <= d < Z.of_nat n -> thr d = None.
Proof.
  induction n as [|n IH]; intros H d Hd; [lia|]. cbn [any_dial] in H. apply orb_false_iff in H as [H1 H2].
  destruct (Z.eq_dec d (Z.of_nat n)) as [->|Hne].
  - destruct (thr (Z.of_nat n)); [discriminate|reflexivity].
  - apply IH; [exact H2|lia].
Qed.

Lemma dquiescent_check ds :
  inv_fresh (d_s ds) -> lock_inv ds ->
  any_thread is_some (s_thr (d_s ds)) (Z.to_nat (s_next (d_s ds))) = false ->
  any_dial (d_thr ds) (Z.to_nat (d_next ds)) = false -> dquiescent ds.
Proof.
  intros Hf (Hn & Hd & _) H1 H2. split; [now apply quiescent_check|].
  intros d. destruct (d_thr ds d) eqn:E; [|reflexivity].
  assert (0 <= d < d_next ds) by (apply Hd; congruence).
  rewrite (any_dial_false _ _ H2 d) in E by lia. discriminate.
Qed.

Definition dsteps (t : Z) (n : nat) : list dlabel := repeat (DBase (LStep t)) n.

(* The remote host:port 7 restarts while a caller keeps calling it:
   a Ping(7) creates peer 1, takes its newConnLock and hangs in the dial (dial goroutine 0);
   meanwhile 7 connects to us (inbound connection 2, listed under peer 1) and closes it again;
   then the dial fails. *)
Definition wd_of (n : nat) : list dlabel :=
  [DBegin 7; DStep 0; DStep 0] ++
  [DBase (LNew c_inbound 7 0)] ++ dsteps 3 5 ++
  [DBase (LChange 2 c_connectionClosed)] ++ dsteps 4 n ++
  [DFail 0].
(* the close callback: removeClosedConn, Get, removal, collector (Get, canRemove, [delete]), end *)
Definition wd : list dlabel := wd_of 7.       (* the code as it is: with the delete *)
Definition wd_gate : list dlabel := wd_of 6.  (* the variant: canRemove says no *)

(* the code as it is: peer 1 has left the root list *)
Theorem wd_collected :
  exists ds, drun dinit wd = Some ds /\ dquiescent ds /\ s_root (d_s ds) 7 = None /\
             s_log (d_s ds) = [7; 7] /\ s_inch (d_s ds) 2 = false.
Proof.
  exists (dfinal false wd). unfold drun.
  assert (Hrun : drun_gen false dinit wd = Some (dfinal false wd)) by (apply dfinal_run; vm_compute; reflexivity).
  split; [exact Hrun|]. split; [|clear Hrun; vm_compute; repeat split; reflexivity].
  pose proof (drun_fresh false wd dinit (dfinal false wd) (i_fresh _ inv0_init) Hrun) as Hf.
  pose proof (drun_lock false wd dinit (dfinal false wd) lock_inv_init Hrun) as Hl.
  apply (dquiescent_check _ Hf Hl); vm_compute; reflexivity.
Qed.

(* the variant (canRemove also wants a free newConnLock): at the end nothing is in flight, peer 1
   has no connection, no reference, its last change was the loss of its connection -- and it is
   still in the root list, for good *)
Theorem wd_gate_refutes :
  exists ls ds, drun_gen true dinit ls = Some ds /\ dquiescent ds /\ ~ peer_gc (d_s ds).
Proof.
  exists wd_gate, (dfinal true wd_gate).
  assert (Hrun : drun_gen true dinit wd_gate = Some (dfinal true wd_gate)) by (apply dfinal_run; vm_compute; reflexivity).
  split; [exact Hrun|]. split.
  - pose proof (drun_fresh true wd_gate dinit (dfinal true wd_gate) (i_fresh _ inv0_init) Hrun) as Hf.
    pose proof (drun_lock true wd_gate dinit (dfinal true wd_gate) lock_inv_init Hrun) as Hl.
    apply (dquiescent_check _ Hf Hl); vm_compute; reflexivity.
  - clear Hrun. intros [H _]. apply (H 7 1); vm_compute; reflexivity.
Qed.
