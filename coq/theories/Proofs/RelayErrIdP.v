(* C08 clauses (b)/(c) over the interleaving model of the relay bookkeeping (Model/RelayItems.v):
   WHICH ID a relay-originated error carries and WHICH ITEM a failed send fails.

   reader_error_id   a reader goroutine calls SendSystemError only on the connection it reads from,
                     with the id of the request-direction frame it is handling (never an id of the
                     destination connection, never while handling a response-direction frame);
   reader_fail_key   the item a reader fails on the table it looked its frame up in is the one filed
                     under the id it read; every other item it fails sits in the OTHER table (the
                     receiving relayer's item of the same frame) and, for a response-direction frame,
                     with the reason relay-source-conn-slow (no error frame by design);
   timer_error_id    a timer goroutine sends only the timeout error, on the connection and with the id
                     its timer was started with (the key its item is filed under);
   fail_own_error    the failure path itself: failRelayItem on a live originating item whose timer it
                     stops entombs it and sends the error frame with the item's own connection and id.
   All for every reachable state of runs with fresh request ids, all interleavings. *)
From Coq Require Import ZArith List Bool Lia.
From Verif Require Import Base.Wrap Gen.GenConsts Gen.GenFrame Model.RelayItems Model.RelayErrId
  Proofs.RelayAssocP Proofs.RelayCoreP Proofs.RelayInv9P Proofs.RelayTimerP Proofs.RelayCalmP.
Import ListNotations.
Local Open Scope Z_scope.

(* ---------------------------------------------------------------- frame directions *)

Lemma frameTypeFor_cases : forall mt ft, frameTypeFor mt = Some ft -> ft = c_requestFrame \/ ft = c_responseFrame.
Proof.
  intros mt ft H. unfold frameTypeFor in H.
  destruct ((mt =? c_messageTypeCallRes) || (mt =? c_messageTypeCallResContinue) || (mt =? c_messageTypeError) || (mt =? c_messageTypePingRes));
    [inversion H; right; reflexivity|].
  destruct ((mt =? c_messageTypeCallReq) || (mt =? c_messageTypeCallReqContinue) || (mt =? c_messageTypePingReq) || (mt =? c_messageTypeCancel));
    [inversion H; left; reflexivity|discriminate].
Qed.

Lemma dir_callreq : forall f, f_mt f = c_messageTypeCallReq -> dir_of f = 0.
Proof. intros f H. unfold dir_of. rewrite H. reflexivity. Qed.

Lemma dir_of_ft : forall f ft, frameTypeFor (f_mt f) = Some ft -> dir_of f = (if ft =? c_responseFrame then 1 else 0).
Proof. intros f ft H. unfold dir_of. rewrite H. reflexivity. Qed.

Lemma dir_of_01 : forall f, dir_of f = 0 \/ dir_of f = 1.
Proof. intro f. unfold dir_of. destruct (frameTypeFor (f_mt f)) as [ft|]; [destruct (ft =? c_responseFrame)|]; auto. Qed.

Lemma dir0_request : forall f, frameTypeFor (f_mt f) <> None -> dir_of f = 0 -> frameTypeFor (f_mt f) = Some c_requestFrame.
Proof.
  intros f Hn H. unfold dir_of in H. destruct (frameTypeFor (f_mt f)) as [ft|] eqn:E; [|contradiction].
  destruct (frameTypeFor_cases _ _ E) as [->| ->]; [reflexivity|]. cbn in H. discriminate.
Qed.

(* ---------------------------------------------------------------- what a reader may hold *)

(* the instructions reader k may have on its stack while it handles frame f *)
Definition cur_ok (k : Z) (f : frame) (j : instr) : Prop :=
  match j with
  | IStart k' f' _ | ICanHandle k' f' _ _ | IGetDest k' f' _ _ | IRemoteCan k' f' _ _ _
  | IAddDest k' f' _ _ _ | IAddOrig k' f' _ _ _ _ => k' = k /\ f' = f /\ f_mt f = c_messageTypeCallReq
  | ISendErr k' id' _ => k' = k /\ id' = f_id f /\ dir_of f = 0 /\ frameTypeFor (f_mt f) <> None
  | INcGet k' f' => k' = k /\ f' = f
  | INcChk k' f' ft own _ => k' = k /\ f' = f /\ frameTypeFor (f_mt f) = Some ft /\ own = own_key k f
  | IRcvGet r =>
      r_own r = own_key k f /\ r_ft r = (if dir_of f =? 0 then c_requestFrame else c_responseFrame) /\ frameTypeFor (f_mt f) <> None
  | IRcvChk r rk _ | IRcvEnq r rk _ =>
      r_own r = own_key k f /\ r_ft r = (if dir_of f =? 0 then c_requestFrame else c_responseFrame) /\ frameTypeFor (f_mt f) <> None /\
      key_dir rk = 1 - dir_of f
  | IFailGet t reason | IEntomb t (FromFail reason) =>
      frameTypeFor (f_mt f) <> None /\
      (t = own_key k f \/ (key_dir t = 1 - dir_of f /\ (dir_of f = 1 -> reason = reason_source_slow)))
  | IEntomb _ (FromTimeout _) | ITimerRun _ => False
  | ICb _ _ | IDec _ | ICheck _ | IConnClose _ | IDelete _ _ => True
  end.

Lemma after_sent_cur : forall k f r j,
  r_own r = own_key k f -> r_ft r = (if dir_of f =? 0 then c_requestFrame else c_responseFrame) -> frameTypeFor (f_mt f) <> None ->
  In j (after_sent r) -> cur_ok k f j.
Proof.
  intros k f r j Ho Hf Hn Hj. unfold after_sent in Hj. apply in_app_or in Hj. destruct Hj as [Hj|Hj].
  - destruct (fin_of (r_f r)); [|contradiction]. destruct Hj as [<-|[]]. exact I.
  - destruct (0 <? r_more r); [|contradiction]. destruct Hj as [<-|[<-|[]]]; [exact I|].
    cbn. split; [exact Ho|split; [exact Hf|exact Hn]].
Qed.

(* every instruction an instruction of the reader pushes is again one the reader may hold *)
Lemma pushed_cur : forall cf st i room st1 pushed k f, orig_ok (items st) ->
  exec cf st i room = (st1, pushed) -> cur_ok k f i -> forall j, In j pushed -> cur_ok k f j.
Proof.
  intros cf st i room st1 pushed k f HO H Hi j Hj. destruct i; cbn [exec] in H; cbn [cur_ok] in Hi.
  - (* IStart *) destruct Hi as (->&->&Hm). pose proof (dir_callreq _ Hm) as Hd.
    assert (Hn : frameTypeFor (f_mt f) <> None) by (rewrite Hm; discriminate).
    destruct (e_start e =? 0); inversion H; subst; clear H; in_cases Hj; cbn; auto.
  - (* ICanHandle *) destruct Hi as (->&->&Hm). pose proof (dir_callreq _ Hm) as Hd.
    assert (Hn : frameTypeFor (f_mt f) <> None) by (rewrite Hm; discriminate).
    destruct (c_state (get_conn st k) =? c_connectionActive); inversion H; subst; clear H; in_cases Hj; cbn; auto.
  - (* IGetDest *) destruct Hi as (->&->&Hm). pose proof (dir_callreq _ Hm) as Hd.
    assert (Hn : frameTypeFor (f_mt f) <> None) by (rewrite Hm; discriminate).
    destruct (klookup (k, 0, f_id f) (items st)); [|destruct (e_dest e =? -1); [|destruct (e_dest e <? 0)]];
      inversion H; subst; clear H; in_cases Hj; cbn; auto.
  - (* IRemoteCan *) destruct Hi as (->&->&Hm). pose proof (dir_callreq _ Hm) as Hd.
    assert (Hn : frameTypeFor (f_mt f) <> None) by (rewrite Hm; discriminate).
    destruct (c_state (get_conn st d) =? c_connectionActive); inversion H; subst; clear H; in_cases Hj; cbn; auto.
  - (* IAddDest *) destruct Hi as (->&->&Hm).
    unfold timer_new in H. cbn [fst snd] in H. inversion H; subst; clear H. in_cases Hj. cbn. auto.
  - (* IAddOrig *) destruct Hi as (->&->&Hm). pose proof (dir_callreq _ Hm) as Hd.
    assert (Hn : frameTypeFor (f_mt f) <> None) by (rewrite Hm; discriminate).
    assert (Ho : (k, 0, f_id f) = own_key k f) by (unfold own_key; rewrite Hd; reflexivity).
    unfold timer_new in H. cbn [fst snd] in H. inversion H; subst; clear H. in_cases Hj; cbn; rewrite ?Hd; cbn; auto.
  - (* ICb *) inversion H; subst. contradiction.
  - (* IDec *) inversion H; subst. destruct Hj as [<-|[]]. exact I.
  - (* ICheck *) match type of H with (if ?b then _ else _) = _ => destruct b end; inversion H; subst; contradiction.
  - (* ISendErr *) destruct ((c_state (get_conn st k0) =? c_connectionClosed) || negb room); inversion H; subst; contradiction.
  - (* IConnClose *) destruct (c_state (get_conn st k0) =? c_connectionActive); inversion H; subst; contradiction.
  - (* INcGet *) destruct Hi as (->&->).
    destruct (frameTypeFor (f_mt f)) as [ft|] eqn:Eft; [|inversion H; subst; contradiction].
    match type of H with context [items_get ?a ?b ?cc] => destruct (items_get a b cc) as [st' g] end.
    inversion H; subst; clear H. destruct Hj as [<-|[]]. cbn. rewrite Eft.
    repeat split; try reflexivity. unfold own_key. rewrite (dir_of_ft _ _ Eft). reflexivity.
  - (* INcChk *) destruct Hi as (->&->&Eft&->).
    assert (Hn : frameTypeFor (f_mt f) <> None) by (rewrite Eft; discriminate).
    destruct g as [[it stopped]|]; [|inversion H; subst; contradiction].
    destruct (it_tomb it || (fin_of f && negb stopped)); inversion H; subst; clear H; [contradiction|].
    assert (Hft : ft = (if dir_of f =? 0 then c_requestFrame else c_responseFrame)).
    { rewrite (dir_of_ft _ _ Eft). destruct (frameTypeFor_cases _ _ Eft) as [->| ->]; reflexivity. }
    in_cases Hj; cbn; auto.
  - (* IRcvGet *) destruct Hi as (Ho&Hf&Hn).
    match type of H with context [items_get ?a ?b ?cc] => destruct (items_get a b cc) as [st' g] end.
    inversion H; subst; clear H. destruct Hj as [<-|[]]. cbn. repeat split; try assumption.
    rewrite Hf. destruct (dir_of_01 f) as [E|E]; rewrite E; reflexivity.
  - (* IRcvChk *) destruct Hi as (Ho&Hf&Hn&Hk). destruct g as [[it stopped]|].
    + destruct (it_tomb it || (fin_of (r_f r) && negb stopped)); inversion H; subst; clear H.
      * eapply after_sent_cur; eassumption.
      * apply in_app_or in Hj. destruct Hj as [Hj|[<-|[]]]; [in_cases Hj; exact I|]. cbn. auto.
    + inversion H; subst; clear H. in_cases Hj. cbn. split; [exact Hn|left; exact Ho].
  - (* IRcvEnq *) destruct Hi as (Ho&Hf&Hn&Hk). destruct room; inversion H; subst; clear H.
    + apply in_app_or in Hj. destruct Hj as [Hj|Hj]; [in_cases Hj; exact I|]. eapply after_sent_cur; eassumption.
    + in_cases Hj; cbn; (split; [exact Hn|]).
      * right. split; [exact Hk|]. intro E. rewrite Hf, E. reflexivity.
      * left. exact Ho.
  - (* IFailGet *) destruct (items_get st t true) as [st' g]. destruct g as [[it [|]]|]; inversion H; subst; try contradiction.
    destruct Hj as [<-|[]]. cbn. exact Hi.
  - (* IEntomb *) destruct s as [reason|o]; [|contradiction]. destruct Hi as (Hn&Hi).
    destruct (items_entomb cf st t) as [st' g] eqn:E. destruct g as [[it [|]]|]; inversion H; subst; try contradiction. clear H.
    apply in_app_or in Hj. destruct Hj as [Hj|[<-|[]]]; [|exact I].
    destruct (it_orig it) eqn:Eo; [|contradiction].
    (* the entombed item is an originating one: it sits in an outbound table *)
    assert (Hd : key_dir t = 0).
    { apply items_entomb_spec in E. destruct E as (_&_&_&_&_&_&E).
      destruct (klookup t (items st)) as [it0|] eqn:El; [|destruct E as [E _]; discriminate].
      pose proof (HO _ _ (lookup_in key_eqb key_eqb_ok _ _ _ El)) as Hor.
      assert (it_orig it0 = true).
      { destruct E as [(Eg&_)|[(_&Eg&_)|(_&Eg&_)]]; inversion Eg; subst; try exact Eo. }
      rewrite H in Hor. symmetry in Hor. apply Z.eqb_eq in Hor. exact Hor. }
    unfold orig_tail in Hj. destruct Hi as [->|[Hk Hs]].
    + cbn [own_key key_dir fst snd] in Hd. unfold own_key. cbn [key_conn key_id fst snd].
      in_cases Hj; cbn; auto.
    + assert (Ed : dir_of f = 1) by lia. rewrite (Hs Ed) in Hj. cbn in Hj. destruct Hj as [<-|[<-|[]]]; exact I.
  - (* IDelete *) destruct (items_delete_call st t lk) as [st' g]. destruct g as [[it [|]]|]; inversion H; subst; try contradiction.
    in_cases Hj; exact I.
  - (* ITimerRun *) contradiction.
Qed.

(* ---------------------------------------------------------------- what a timer goroutine may hold *)

Definition tt_ok (tms : list (Z * timer)) (tm : Z) (j : instr) : Prop :=
  match j with
  | ITimerRun tm' => tm' = tm
  | IEntomb t (FromTimeout o) => o = (key_dir t =? 0) /\ exists x, zlookup tm tms = Some x /\ tm_key x = t
  | ISendErr k id code => code = c_ErrCodeTimeout /\ exists x, zlookup tm tms = Some x /\ tm_key x = (k, 0, id)
  | ICb _ _ | IDec _ | ICheck _ => True
  | _ => False
  end.

Lemma tt_ok_kmono : forall a b tm j, kmono a b -> tt_ok a tm j -> tt_ok b tm j.
Proof.
  intros a b tm j Hk H. destruct j; cbn in *; try exact H.
  - destruct H as [Hc (x&Hx&Hkx)]. split; [exact Hc|]. destruct (Hk _ _ Hx) as (x'&Hx'&Hk'). exists x'. split; [exact Hx'|congruence].
  - destruct s; [exact H|]. destruct H as [Ho (x&Hx&Hkx)]. split; [exact Ho|].
    destruct (Hk _ _ Hx) as (x'&Hx'&Hk'). exists x'. split; [exact Hx'|congruence].
Qed.

Lemma pushed_tt : forall cf st i room st1 pushed tm, timers_ok (timers st) ->
  kmono (timers st) (timers st1) ->
  exec cf st i room = (st1, pushed) -> tt_ok (timers st) tm i -> forall j, In j pushed -> tt_ok (timers st1) tm j.
Proof.
  intros cf st i room st1 pushed tm HT Hkm H Hi j Hj. destruct i; cbn [tt_ok] in Hi; try contradiction; cbn [exec] in H.
  - inversion H; subst. contradiction.
  - inversion H; subst. destruct Hj as [<-|[]]. exact I.
  - match type of H with (if ?b then _ else _) = _ => destruct b end; inversion H; subst; contradiction.
  - destruct ((c_state (get_conn st k) =? c_connectionClosed) || negb room); inversion H; subst; contradiction.
  - (* IEntomb (FromTimeout o) *) destruct s as [reason|o]; [contradiction|]. destruct Hi as [Ho (x&Hx&Hkx)].
    destruct (items_entomb cf st t) as [st' g] eqn:E. destruct g as [[it [|]]|]; inversion H; subst; try contradiction. clear H.
    apply in_app_or in Hj. destruct Hj as [Hj|[<-|[]]]; [|exact I].
    destruct (key_dir (tm_key x) =? 0) eqn:Ed; [|contradiction]. apply Z.eqb_eq in Ed.
    in_cases Hj; try exact I. cbn. split; [reflexivity|].
    destruct (Hkm _ _ Hx) as (x'&Hx'&Hk'). exists x'. split; [exact Hx'|]. rewrite Hk'.
    destruct (tm_key x) as [[a b] c]. cbn in *. subst b. reflexivity.
  - (* ITimerRun *) subst tm0. destruct (zlookup tm (timers st)) as [x|] eqn:Ex; [|inversion H; subst; contradiction].
    destruct (tm_released x); inversion H; subst; clear H; [contradiction|]. destruct Hj as [<-|[]].
    cbn. split; [apply (HT _ _ Ex)|].
    rewrite Z.eqb_refl. eexists. split; [reflexivity|reflexivity].
Qed.

(* ---------------------------------------------------------------- the invariant *)

Definition arr_upd (cur : Z -> option frame) (l : label) : Z -> option frame :=
  match l with
  | LArrive k f _ => fun k' => if k' =? k then Some f else cur k'
  | _ => cur
  end.

Fixpoint arr_all (cur : Z -> option frame) (ls : list label) : Z -> option frame :=
  match ls with
  | [] => cur
  | l :: r => arr_all (arr_upd cur l) r
  end.

Lemma arr_all_last : forall ls cur k, arr_all cur ls k = last_arr k ls (cur k).
Proof.
  induction ls as [|l r IH]; intros cur k; cbn; [reflexivity|].
  rewrite IH. destruct l; cbn; try reflexivity. rewrite Z.eqb_sym. reflexivity.
Qed.

Record EInv (st : state) (cur : Z -> option frame) : Prop := {
  e_reader : forall k code, In (TR k, code) (threads st) ->
               exists f, cur k = Some f /\ forall j, In j code -> cur_ok k f j;
  e_timer : forall tm code, In (TT tm, code) (threads st) -> forall j, In j code -> tt_ok (timers st) tm j
}.

Lemma EInv_init : forall cur, EInv init cur.
Proof. intro cur. constructor; cbn; intros; contradiction. Qed.

Lemma EInv_ext : forall st st' cur, EInv st cur -> threads st' = threads st -> kmono (timers st) (timers st') -> EInv st' cur.
Proof.
  intros st st' cur [HR HT] Hth Hk. constructor.
  - intros k code Hin. rewrite Hth in Hin. exact (HR _ _ Hin).
  - intros tm code Hin j Hj. rewrite Hth in Hin. eapply tt_ok_kmono; [exact Hk|]. exact (HT _ _ Hin _ Hj).
Qed.

Lemma EInv_step : forall cf st cur l st', Inv st -> TInv st -> EInv st cur -> step cf st l = Some st' ->
  EInv st' (arr_upd cur l).
Proof.
  intros cf st cur l st' HI HT HE H. unfold step in H. rewrite (t_nopanic _ HT) in H. cbn [Z.eqb negb] in H.
  destruct l as [k f e|th room|tm|t|k|k|k]; cbn [arr_upd].
  - (* LArrive *)
    destruct (lookup tid_eqb (TR k) (threads st)) eqn:El; [discriminate|].
    destruct (relayRoute (f_mt f) (cf_cancel cf) =? 1).
    + assert (G : forall code, (forall j, In j code -> cur_ok k f j) ->
                  EInv (set_thread st (TR k) code) (fun k' => if k' =? k then Some f else cur k')).
      { intros code Hc. constructor.
        - intros k0 code0 Hin. apply set_thread_in in Hin. destruct Hin as [[Heq ->]|[Hne Hin]].
          + inversion Heq. subst k0. exists f. rewrite Z.eqb_refl. split; [reflexivity|exact Hc].
          + destruct (e_reader _ _ HE _ _ Hin) as (f0&Hc0&Hall). exists f0. split; [|exact Hall].
            destruct (k0 =? k) eqn:Ek; [|exact Hc0]. apply Z.eqb_eq in Ek. subst. exfalso. apply Hne. reflexivity.
        - intros tm code0 Hin j Hj. apply set_thread_in in Hin. destruct Hin as [[Heq _]|[_ Hin]]; [discriminate|].
          exact (e_timer _ _ HE _ _ Hin _ Hj). }
      destruct (f_mt f =? c_messageTypeCallReq) eqn:Em; inversion H; subst; clear H.
      * apply Z.eqb_eq in Em.
        assert (G' := G [IStart k f e]). cbn in G'.
        eapply EInv_ext; [apply G'|reflexivity|apply kmono_refl].
        intros j [<-|[]]. cbn. auto.
      * apply G. intros j [<-|[]]. cbn. auto.
    + inversion H. subst. clear H. constructor.
      * intros k0 code Hin. destruct (e_reader _ _ HE _ _ Hin) as (f0&Hc0&Hall). exists f0. split; [|exact Hall].
        destruct (k0 =? k) eqn:Ek; [|exact Hc0]. apply Z.eqb_eq in Ek. subst. exfalso.
        apply (lookup_none_notin tid_eqb tid_eqb_ok) in El. apply El. apply (in_map fst) in Hin. exact Hin.
      * exact (e_timer _ _ HE).
  - (* LStep *)
    destruct (lookup tid_eqb th (threads st)) as [[|i rest]|] eqn:El; try discriminate.
    destruct (exec cf st i room) as [st1 pushed] eqn:E. inversion H. subst st'. clear H.
    pose proof (lookup_in tid_eqb tid_eqb_ok _ _ _ El) as Hin0.
    assert (Hkm : kmono (timers st) (timers st1)).
    { eapply exec_kmono; [|exact E]. intros tm' x' Hx'. apply (t_alloc _ HT _ _ Hx'). }
    pose proof (exec_threads _ _ _ _ _ _ E) as Hth.
    constructor.
    + intros k code Hin. apply set_thread_in in Hin. destruct Hin as [[Heq ->]|[_ Hin]].
      * subst th. destruct (e_reader _ _ HE _ _ Hin0) as (f&Hc&Hall). exists f. split; [exact Hc|].
        intros j Hj. apply in_app_or in Hj. destruct Hj as [Hj|Hj].
        -- eapply pushed_cur; [exact (inv_orig _ HI)|exact E|apply Hall; left; reflexivity|exact Hj].
        -- apply Hall. right. exact Hj.
      * rewrite Hth in Hin. exact (e_reader _ _ HE _ _ Hin).
    + intros tm code Hin j Hj. change (tt_ok (timers st1) tm j).
      apply set_thread_in in Hin. destruct Hin as [[Heq ->]|[_ Hin]].
      * subst th. apply in_app_or in Hj. destruct Hj as [Hj|Hj].
        -- eapply pushed_tt; [exact (inv_timers _ HI)|exact Hkm|exact E| |exact Hj].
           apply (e_timer _ _ HE _ _ Hin0). left. reflexivity.
        -- eapply tt_ok_kmono; [exact Hkm|]. apply (e_timer _ _ HE _ _ Hin0). right. exact Hj.
      * rewrite Hth in Hin. eapply tt_ok_kmono; [exact Hkm|]. exact (e_timer _ _ HE _ _ Hin _ Hj).
  - (* LFire *)
    destruct (zlookup tm (timers st)) as [x|] eqn:Ex; [|discriminate].
    destruct (tm_armed x && match lookup tid_eqb (TT tm) (threads st) with None => true | Some _ => false end); [|discriminate].
    inversion H. subst. clear H.
    assert (Hkm : kmono (timers st) (zinsert tm {| tm_armed := false; tm_active := tm_active x; tm_stopped := tm_stopped x;
                     tm_released := tm_released x; tm_key := tm_key x; tm_orig := tm_orig x |} (timers st))).
    { eapply kmono_same; [exact Ex|reflexivity]. }
    constructor.
    + intros k code Hin. apply set_thread_in in Hin. destruct Hin as [[Heq _]|[_ Hin]]; [discriminate|].
      exact (e_reader _ _ HE _ _ Hin).
    + intros tm0 code Hin j Hj. apply set_thread_in in Hin. destruct Hin as [[Heq ->]|[_ Hin]].
      * inversion Heq. subst tm0. destruct Hj as [<-|[]]. reflexivity.
      * eapply tt_ok_kmono; [exact Hkm|]. exact (e_timer _ _ HE _ _ Hin _ Hj).
  - (* LGc *)
    destruct (mem_key t (gcs st)); [|discriminate]. inversion H. subst. clear H.
    destruct (items_delete_tomb_spec (set_gcs st (remove_one t (gcs st))) t) as (_&_&A&_).
    eapply EInv_ext; [exact HE|exact A|].
    unfold items_delete_tomb. cbn [set_gcs items]. destruct (klookup t (items st)) as [it|]; [|apply kmono_refl].
    destruct (it_tomb it); [|apply kmono_refl].
    apply (timer_release_kmono (set_items (set_gcs st (remove_one t (gcs st))) (kremove t (items st))) (it_tm it)).
  - destruct (c_state (get_conn st k) =? c_connectionActive); [|discriminate]. inversion H. subst.
    eapply EInv_ext; [exact HE|reflexivity|apply kmono_refl].
  - inversion H. subst. eapply EInv_ext; [exact HE|reflexivity|apply kmono_refl].
  - match type of H with (if ?b then _ else _) = _ => destruct b end; [|discriminate]. inversion H. subst.
    eapply EInv_ext; [exact HE|reflexivity|apply kmono_refl].
Qed.

Lemma run_fresh_einv : forall cf ls st0 cur st, Inv st0 -> TInv st0 -> LInv st0 -> EInv st0 cur ->
  run_fresh cf st0 ls = Some st -> EInv st (arr_all cur ls).
Proof.
  intros cf ls. induction ls as [|l r IH]; intros st0 cur st HI HT HL HE H; cbn in H |- *.
  - inversion H. subst. exact HE.
  - destruct (fresh_label st0 l) eqn:Ef; [|discriminate]. destruct (step cf st0 l) as [st1|] eqn:Es; [|discriminate].
    eapply IH; [eapply step_inv; eassumption|eapply step_tinv; eassumption|eapply LInv_step; eassumption| |exact H].
    eapply EInv_step; eassumption.
Qed.

Theorem reach_einv : forall cf ls st, run_fresh cf init ls = Some st -> EInv st (arr_all (fun _ => None) ls).
Proof.
  intros cf ls st H. eapply run_fresh_einv; [apply Inv_init|apply TInv_init|apply LInv_init|apply EInv_init|exact H].
Qed.

(* ---------------------------------------------------------------- the theorems *)

(* a SendSystemError call of a reader goroutine: on the connection it reads from, with the id of
   the request-direction frame it read last (the frame it is handling) *)
Theorem reader_error_id : forall cf ls st l k k' id' code,
  run_fresh cf init ls = Some st -> err_attempt st l = Some (TR k, k', id', code) ->
  exists f, last_arr k ls None = Some f /\ k' = k /\ id' = f_id f /\
            frameTypeFor (f_mt f) = Some c_requestFrame.
Proof.
  intros cf ls st l k k' id' code Hr Ha. pose proof (reach_einv _ _ _ Hr) as HE.
  destruct l as [| th room | | | | |]; cbn in Ha; try discriminate.
  destruct (lookup tid_eqb th (threads st)) as [[|i rest]|] eqn:El; try discriminate.
  destruct i; try discriminate. inversion Ha. subst. clear Ha.
  apply (lookup_in tid_eqb tid_eqb_ok) in El.
  destruct (e_reader _ _ HE _ _ El) as (f&Hc&Hall). rewrite arr_all_last in Hc.
  destruct (Hall _ (or_introl eq_refl)) as (->&->&Hd&Hn).
  exists f. repeat split; try assumption. apply dir0_request; assumption.
Qed.

(* a failRelayItem call of a reader goroutine handling frame f: the item filed under the id it read
   in the table of the frame's direction, or an item of the other table (the receiving relayer's) --
   which for a response-direction frame is failed with relay-source-conn-slow only *)
Theorem reader_fail_key : forall cf ls st l k t reason,
  run_fresh cf init ls = Some st -> fail_attempt st l = Some (TR k, t, reason) ->
  exists f, last_arr k ls None = Some f /\ frameTypeFor (f_mt f) <> None /\
    (t = own_key k f \/ (key_dir t = 1 - dir_of f /\ (dir_of f = 1 -> reason = reason_source_slow))).
Proof.
  intros cf ls st l k t reason Hr Ha. pose proof (reach_einv _ _ _ Hr) as HE.
  destruct l as [| th room | | | | |]; cbn in Ha; try discriminate.
  destruct (lookup tid_eqb th (threads st)) as [[|i rest]|] eqn:El; try discriminate.
  destruct i; try discriminate. inversion Ha. subst. clear Ha.
  apply (lookup_in tid_eqb tid_eqb_ok) in El.
  destruct (e_reader _ _ HE _ _ El) as (f&Hc&Hall). rewrite arr_all_last in Hc.
  destruct (Hall _ (or_introl eq_refl)) as (Hn&Hk).
  exists f. split; [exact Hc|split; [exact Hn|exact Hk]].
Qed.

(* in particular: an item a reader fails in an OUTBOUND table while it handles a request-direction
   frame is the one filed under the id it read on its own connection *)
Corollary reader_fail_outbound : forall cf ls st l k t reason,
  run_fresh cf init ls = Some st -> fail_attempt st l = Some (TR k, t, reason) -> key_dir t = 0 ->
  exists f, last_arr k ls None = Some f /\
    (dir_of f = 0 -> t = (k, 0, f_id f)) /\ (dir_of f = 1 -> reason = reason_source_slow).
Proof.
  intros cf ls st l k t reason Hr Ha Hd. destruct (reader_fail_key _ _ _ _ _ _ _ Hr Ha) as (f&Hl&Hn&Hk).
  exists f. split; [exact Hl|]. destruct Hk as [->|[Hk Hs]].
  - unfold own_key in *. cbn in Hd. split; [intros E; rewrite E; reflexivity|intro E; lia].
  - split; [intro E; lia|exact Hs].
Qed.

(* the send attempt of a reader: the item it will fail if the frame cannot be queued is its own *)
Theorem reader_send_own : forall cf ls st k r rk lk rest,
  run_fresh cf init ls = Some st -> lookup tid_eqb (TR k) (threads st) = Some (IRcvEnq r rk lk :: rest) ->
  exists f, last_arr k ls None = Some f /\ r_own r = own_key k f /\ key_dir rk = 1 - dir_of f /\
            r_ft r = (if dir_of f =? 0 then c_requestFrame else c_responseFrame).
Proof.
  intros cf ls st k r rk lk rest Hr El. pose proof (reach_einv _ _ _ Hr) as HE.
  apply (lookup_in tid_eqb tid_eqb_ok) in El.
  destruct (e_reader _ _ HE _ _ El) as (f&Hc&Hall). rewrite arr_all_last in Hc.
  destruct (Hall _ (or_introl eq_refl)) as (Ho&Hf&Hn&Hk).
  exists f. repeat split; assumption.
Qed.

(* a SendSystemError call of a timer goroutine: the timeout error, on the connection and with the id
   of the key its timer was started with; that key is the id of a call req read on that connection *)
Theorem timer_error_id : forall cf ls st l tm k' id' code,
  run_fresh cf init ls = Some st -> err_attempt st l = Some (TT tm, k', id', code) ->
  code = c_ErrCodeTimeout /\ In (k', id') (seen st) /\
  exists x, lookup Z.eqb tm (timers st) = Some x /\ tm_key x = (k', 0, id').
Proof.
  intros cf ls st l tm k' id' code Hr Ha. pose proof (reach_einv _ _ _ Hr) as HE.
  destruct (reach_both _ _ _ Hr) as [HI HT].
  destruct l as [| th room | | | | |]; cbn in Ha; try discriminate.
  destruct (lookup tid_eqb th (threads st)) as [[|i rest]|] eqn:El; try discriminate.
  destruct i; try discriminate. inversion Ha. subst. clear Ha.
  apply (lookup_in tid_eqb tid_eqb_ok) in El.
  destruct (e_timer _ _ HE _ _ El _ (or_introl eq_refl)) as (Hc&x&Hx&Hk).
  split; [exact Hc|]. split; [|exists x; split; assumption].
  destruct (t_alloc _ HT _ _ Hx) as [_ [[_ Hs]|[Hd _]]]; rewrite Hk in *; cbn in *; [exact Hs|discriminate].
Qed.

(* ---------------------------------------------------------------- the failure path itself *)

(* a request-direction frame that finds the destination's send queue full: the receiving relayer's
   item and then the reader's own item are failed with relay-dest-conn-slow *)
Lemma dest_slow_fails_own : forall cf st r rk lk, r_ft r = c_requestFrame ->
  exec cf st (IRcvEnq r rk lk) false = (st, [IFailGet rk reason_dest_slow; IFailGet (r_own r) reason_dest_slow]).
Proof. intros cf st r rk lk H. cbn. rewrite H. reflexivity. Qed.

(* failRelayItem on a live originating item whose timer it stops: the item is entombed and the error
   frame is handed to SendSystemError with the item's own connection and id, then Failed and End *)
Lemma fail_own_error : forall cf st t reason it st1 room1 room2,
  items_get st t true = (st1, Some (it, true)) -> it_tomb it = false -> it_orig it = true ->
  reason <> reason_source_slow -> (cf_maxtombs cf <? tomb_count st1 (key_conn t) (key_dir t)) = false ->
  exec cf st (IFailGet t reason) room1 = (st1, [IEntomb t (FromFail reason)]) /\
  exists st2, exec cf st1 (IEntomb t (FromFail reason)) room2 =
    (st2, [ISendErr (key_conn t) (key_id t) c_ErrCodeUnexpected; ICb (it_call it) (CbFailed reason);
           ICb (it_call it) CbEnd; IDec (key_conn t)]).
Proof.
  intros cf st t reason it st1 room1 room2 Hg Ht Ho Hr Hm. split.
  - cbn. rewrite Hg. reflexivity.
  - pose proof (items_get_spec _ _ _ _ _ Hg) as [Hc Hl].
    destruct (klookup t (items st)) as [it0|] eqn:El; [|discriminate]. destruct Hl as [b Hl]. inversion Hl. subst it0 b.
    destruct Hc as (_&Hi&_). cbn [exec]. unfold items_entomb. rewrite Hm, Hi, El, Ht. eexists.
    cbn [it_orig entomb_item it_call]. rewrite Ho. unfold orig_tail.
    destruct (reason =? reason_source_slow) eqn:E; [apply Z.eqb_eq in E; contradiction|]. reflexivity.
Qed.

(* ... and SendSystemError on an open connection whose send queue has room queues exactly that frame *)
Lemma send_err_queued : forall cf st k id code,
  (c_state (get_conn st k) =? c_connectionClosed) = false ->
  exec cf st (ISendErr k id code) true =
    (set_sent st ((k, {| f_mt := c_messageTypeError; f_id := id; f_flags := 0; f_code := code; f_wf := true |}) :: sent st), []).
Proof. intros cf st k id code H. cbn. rewrite H. reflexivity. Qed.
