(* History-level health theorems on the whole system (Model/IdleHealthSys.v): what the health
   checker of a connection does at a ping outcome, in terms of the pings THE HISTORY shows
   (Spec/IdleHealthHist.v), for every interleaving of sweeps, frames, calls, closes and pings
   over any number of connections; non-interference of ping traffic. *)
From Coq Require Import ZArith List Bool Lia ZifyBool.
From Verif Require Import Base.Wrap Gen.GenConsts Gen.GenFrame Gen.GenHealthIdle
  Spec.IdleHealthSpec Spec.IdleHealthHist Model.Health Model.Idle Model.IdleHealthSys Proofs.IdleP Proofs.HealthP.
Import ListNotations.
Local Open Scope Z_scope.

(* ---- transformations of a connection that do not involve its health goroutine, except that
   reaching Closed makes the goroutine exit --------------------------------------------------- *)
Definition passive (c c' : conn) : Prop :=
  k_health c' = k_health c /\
  (is_active c' = true -> is_active c = true) /\
  (k_stopped c' = k_stopped c) /\
  (k_state c = c_connectionClosed -> k_state c' = c_connectionClosed) /\
  (k_hstatus c' = k_hstatus c \/ (k_hstatus c' = 3 /\ is_active c' = false /\ k_hstatus c <> 0)).

Lemma passive_refl c : passive c c.
Proof. unfold passive. repeat split; auto. Qed.

Lemma passive_trans c1 c2 c3 : passive c1 c2 -> passive c2 c3 -> passive c1 c3.
Proof.
  intros (H1 & A1 & S1 & C1 & T1) (H2 & A2 & S2 & C2 & T2). unfold passive.
  split; [congruence|]. split; [auto|]. split; [congruence|]. split; [auto|].
  destruct T2 as [E2|(E2 & N2 & Z2)].
  - destruct T1 as [E1|(E1 & N1 & Z1)]; [left; congruence|].
    right. split; [congruence|]. split; [|exact Z1].
    destruct (is_active c3) eqn:E; [|reflexivity]. rewrite A2 in N1 by reflexivity. discriminate.
  - right. split; [exact E2|]. split; [exact N2|].
    destruct T1 as [E1|(E1 & N1 & Z1)]; [congruence|exact Z1].
Qed.

Lemma passive_check c : passive c (check_exchanges c).
Proof.
  unfold passive. split; [apply k_health_check|]. unfold check_exchanges, is_active.
  destruct ((check_exchanges_state c =? c_connectionClosed) && negb (k_state c =? c_connectionClosed)) eqn:E.
  - cbn [set_tracked_h set_state k_state k_hstatus k_stopped].
    apply andb_true_iff in E as [E1 E2].
    assert (Hc : check_exchanges_state c = c_connectionClosed) by lia.
    rewrite Hc.
    split; [unfold c_connectionClosed, c_connectionActive; intros H; lia|]. split; [reflexivity|].
    split; [reflexivity|].
    destruct (k_hstatus c =? 0) eqn:E0; [left; lia|right].
    split; [reflexivity|]. split; [unfold c_connectionClosed, c_connectionActive; lia|lia].
  - cbn [set_state k_state k_hstatus k_stopped].
    split; [|split; [reflexivity|split; [apply ces_closed_stays|left; reflexivity]]].
    intros H.
    destruct (k_state c =? c_connectionActive) eqn:Ea; [reflexivity|].
    exfalso. apply (ces_not_active c); lia.
Qed.

Lemma passive_set_state_closing c : k_state c = c_connectionActive ->
  passive c (set_state c_connectionStartClose c).
Proof.
  intros H. unfold passive. cbn [set_state k_health k_hstatus k_stopped]. split; [reflexivity|].
  split; [unfold is_active; rewrite H; intros _; apply Z.eqb_refl|].
  split; [reflexivity|]. split; [|left; reflexivity].
  rewrite H. unfold c_connectionActive, c_connectionClosed. lia.
Qed.

Lemma passive_close c : passive c (conn_close c).
Proof.
  unfold conn_close. destruct (k_state c =? c_connectionActive) eqn:E; [|apply passive_refl].
  eapply passive_trans; [apply passive_set_state_closing; lia|apply passive_check].
Qed.

Lemma passive_set_counts a b p r c : passive c (set_counts a b p r c).
Proof. unfold passive, is_active. cbn [set_counts k_health k_hstatus k_state k_stopped]. repeat split; auto. Qed.

Lemma passive_pend w d c : passive c (pend w d c).
Proof.
  unfold pend.
  repeat match goal with
  | |- passive _ (if ?b then _ else _) => destruct b
  | |- passive _ (match ?x with Some _ => _ | None => _ end) => destruct x
  | |- passive ?c ?c => apply passive_refl
  | |- passive _ (set_counts _ _ _ _ _) => apply passive_set_counts
  | |- passive _ (check_exchanges (set_counts _ _ _ _ _)) =>
      eapply passive_trans; [apply passive_set_counts|apply passive_check]
  end.
Qed.

Lemma passive_update_read now mt c : passive c (update_read now mt c).
Proof.
  unfold update_read. destruct (isMessageTypeCall mt); [|apply passive_refl].
  unfold passive, is_active. cbn [set_stamps k_health k_hstatus k_state k_stopped]. repeat split; auto.
Qed.
Lemma passive_update_write now mt c : passive c (update_write now mt c).
Proof.
  unfold update_write. destruct (isMessageTypeCall mt); [|apply passive_refl].
  unfold passive, is_active. cbn [set_stamps k_health k_hstatus k_state k_stopped]. repeat split; auto.
Qed.

Lemma passive_close_if_ok c : passive c (close_if_ok c).
Proof.
  unfold close_if_ok. destruct (negb (is_active c)); [apply passive_refl|].
  destruct (has_pending_calls c); [apply passive_refl|apply passive_close].
Qed.

(* ---- the invariant: the health goroutine of a connection and the pings of the history ----- *)
Definition loop_sync (F : Z) (outs : list outcome) (c : conn) : Prop :=
  health_loop F outs 0 hl_init = (k_health c, None) /\ hl_running (k_health c) = true.

Definition hinv (cf : config) (p : plog) (c : conn) : Prop :=
  let F := ho_failures (cf_health cf) in
  pl_created p = true /\
  (ho_enabled (cf_health cf) = false -> k_hstatus c = 0) /\
  (ho_enabled (cf_health cf) = true -> k_hstatus c = 1 \/ k_hstatus c = 2 \/ k_hstatus c = 3) /\
  (k_hstatus c = 1 -> pl_inflight p = false /\ loop_sync F (pl_outs p) c) /\
  (k_hstatus c = 2 -> pl_inflight p = true /\ loop_sync F (pl_outs p) c) /\
  (k_hstatus c = 3 -> is_active c = true -> In PStop (pl_outs p)) /\
  (k_stopped c = true -> k_state c = c_connectionClosed).

Lemma hinv_passive cf p c c' : passive c c' -> hinv cf p c -> hinv cf p c'.
Proof.
  intros (Hh & Ha & Hs & Hc & Ht) (I1 & I2 & I3 & I4 & I5 & I6 & I7). unfold hinv, loop_sync in *. rewrite Hh.
  split; [exact I1|].
  split. { intros E. specialize (I2 E). destruct Ht as [Ht|(_ & _ & Ht)]; lia. }
  split. { intros E. specialize (I3 E). destruct Ht as [Ht|(Ht & _)]; lia. }
  split. { intros E. destruct Ht as [Ht|(Ht & _)]; [|lia]. apply I4. lia. }
  split. { intros E. destruct Ht as [Ht|(Ht & _)]; [|lia]. apply I5. lia. }
  split. { intros E A. destruct Ht as [Ht|(_ & Ht & _)]; [|congruence]. apply I6; [lia|auto]. }
  intros E. rewrite Hs in E. auto.
Qed.

(* the loop over the outcomes so far, extended by one more outcome *)
Lemma health_loop_snoc F o : forall outs i l l1,
  health_loop F outs i l = (l1, None) -> hl_running l1 = true ->
  health_loop F (outs ++ [o]) i l =
    (fst (health_iter F o l1), if snd (health_iter F o l1) then Some (i + length outs)%nat else None).
Proof.
  induction outs as [|o1 r IH]; intros i l l1 H Hr; cbn [app health_loop length] in *.
  - injection H as <-. rewrite Hr. destruct (health_iter F o l) as [l' cl]. cbn [fst snd].
    destruct cl; [f_equal; f_equal; lia|reflexivity].
  - destruct (hl_running l) eqn:R.
    + destruct (health_iter F o1 l) as [l' cl] eqn:Ei. destruct cl; [discriminate|].
      rewrite (IH (S i) l' l1 H Hr). f_equal. destruct (snd _); [f_equal; lia|reflexivity].
    + injection H as <-. congruence.
Qed.

Lemma ces_active c : k_state c = c_connectionActive -> k_stopped c = false ->
  check_exchanges_state c = c_connectionActive.
Proof.
  intros H1 H2. unfold check_exchanges_state. rewrite H1, H2.
  unfold c_connectionActive, c_connectionClosed, c_connectionStartClose, c_connectionInboundClosed. cbn. reflexivity.
Qed.

Lemma check_active c : k_state c = c_connectionActive -> k_stopped c = false ->
  k_state (check_exchanges c) = c_connectionActive /\ k_hstatus (check_exchanges c) = k_hstatus c.
Proof.
  intros H1 H2. unfold check_exchanges. rewrite (ces_active c H1 H2).
  unfold c_connectionActive, c_connectionClosed. cbn. auto.
Qed.

Lemma hinv_new cf now rl :
  hinv cf {| pl_created := true; pl_inflight := false; pl_outs := [] |} (new_conn now rl (ho_enabled (cf_health cf))).
Proof.
  unfold hinv, loop_sync, new_conn. cbn [k_hstatus k_health k_stopped k_state pl_created pl_inflight pl_outs health_loop].
  destruct (ho_enabled (cf_health cf)).
  - repeat split; try (intros; lia); try discriminate; auto.
  - repeat split; try (intros; lia); try discriminate; auto.
Qed.

(* hinv does not depend on the tracker's in-flight flag / grows with its outcomes once the
   goroutine is gone *)
Lemma hinv_gone cf p p' c : (k_hstatus c = 0 \/ k_hstatus c = 3) ->
  pl_created p' = true -> (forall o, In o (pl_outs p) -> In o (pl_outs p')) ->
  hinv cf p c -> hinv cf p' c.
Proof.
  intros Hg Hc Hin (I1 & I2 & I3 & I4 & I5 & I6 & I7). unfold hinv.
  split; [exact Hc|]. split; [exact I2|]. split; [exact I3|].
  split; [intros E; lia|]. split; [intros E; lia|]. split; [|exact I7].
  intros E A. apply Hin. auto.
Qed.

Lemma hinv_ping_start cf id p c sent : conn_wf c -> hinv cf p c ->
  hinv cf (plog_step id p (EPingStart id sent)) (ping_start (ho_failures (cf_health cf)) sent c).
Proof.
  intros Hwf Hi. pose proof Hi as (I1 & I2 & I3 & I4 & I5 & I6 & I7).
  cbn [plog_step]. rewrite Z.eqb_refl, I1. cbn [andb].
  destruct (k_hstatus c =? 1) eqn:E1.
  - assert (H1 : k_hstatus c = 1) by lia. destruct (I4 H1) as [Hf Hs]. rewrite Hf. cbn [negb andb].
    destruct sent.
    + unfold ping_start. rewrite E1. cbn [negb].
      unfold hinv, loop_sync in *. cbn [set_health set_counts k_hstatus k_health k_stopped k_state is_active pl_created pl_inflight pl_outs].
      split; [reflexivity|]. split; [intros E; specialize (I2 E); lia|]. split; [auto|].
      split; [intros E; lia|]. split; [intros _; split; [reflexivity|exact Hs]|].
      split; [intros E; lia|exact I7].
    + pose proof (ping_not_sent (ho_failures (cf_health cf)) c H1 Hwf) as (P1 & P2 & P3 & P4). cbv zeta in *.
      set (c' := ping_start (ho_failures (cf_health cf)) false c) in *.
      unfold hinv. split; [exact I1|].
      split; [intros E; specialize (I2 E); lia|]. split; [intros _; lia|].
      split; [intros E; lia|]. split; [intros E; lia|].
      split; [|intros _; exact P1].
      intros _ A. unfold is_active in A. rewrite P1 in A. unfold c_connectionClosed, c_connectionActive in A. lia.
  - assert (Hc' : ping_start (ho_failures (cf_health cf)) sent c = c).
    { unfold ping_start. rewrite E1. reflexivity. }
    rewrite Hc'.
    destruct (k_hstatus c =? 2) eqn:E2.
    + assert (H2 : k_hstatus c = 2) by lia. destruct (I5 H2) as [Hf _]. rewrite Hf. cbn [negb andb]. exact Hi.
    + destruct (negb (pl_inflight p) && sent); [|exact Hi].
      apply (hinv_gone cf p); [|reflexivity|cbn [pl_outs]; auto|exact Hi].
      destruct (ho_enabled (cf_health cf)) eqn:En; [destruct (I3 eq_refl) as [H|[H|H]]; lia|left; auto].
Qed.

Lemma health_iter_props F o l0 l closed : health_iter F o l0 = (l, closed) ->
  (closed = true -> hl_running l = false) /\ (hl_running l = false -> closed = false -> o = PStop).
Proof.
  intros Ei. destruct o; cbn [health_iter] in Ei.
  - inversion Ei; subst. split; [discriminate|]. cbn. discriminate.
  - destruct (_ >=? _); inversion Ei; subst; cbn; split; try reflexivity; try discriminate.
  - inversion Ei; subst. split; [discriminate|reflexivity].
Qed.

Lemma after_ping_props F o c1 l closed : health_iter F o (k_health c1) = (l, closed) ->
  let c' := after_ping F o c1 in
  k_health c' = l /\ k_stopped c' = k_stopped c1 /\
  (k_state c1 = c_connectionClosed -> k_state c' = c_connectionClosed) /\
  (k_hstatus c' = 1 \/ k_hstatus c' = 3) /\
  (k_hstatus c' = 1 -> hl_running l = true /\ closed = false) /\
  (k_hstatus c' = 3 -> is_active c' = true -> hl_running l = false /\ closed = false).
Proof.
  intros Ei. cbv zeta. unfold after_ping. rewrite Ei.
  destruct (health_iter_props F o _ l closed Ei) as [Hrun _].
  set (c1' := set_health (if hl_running l then 1 else 3) l c1).
  set (c2 := if closed then conn_close c1' else c1').
  assert (P2 : passive c1' c2).
  { unfold c2. destruct closed; [apply passive_close|apply passive_refl]. }
  assert (Hact : closed = true -> is_active c2 = false).
  { intros ->. unfold c2. destruct (conn_close_not_active c1') as [N|[E N]]; [exact N|]. rewrite E. exact N. }
  destruct P2 as (Qh & Qa & Qs & Qc & Qt).
  assert (Hs1' : k_hstatus c1' = if hl_running l then 1 else 3) by reflexivity.
  destruct (k_state c2 =? c_connectionClosed) eqn:Ec.
  - cbn [set_health k_health k_stopped k_state k_hstatus]. rewrite Qh, Qs.
    split; [reflexivity|]. split; [reflexivity|]. split; [exact Qc|]. split; [right; reflexivity|].
    split; [intros E; discriminate E|].
    intros _ A. exfalso. unfold is_active in A. cbn [set_health k_state] in A.
    clear - A Ec. unfold c_connectionClosed, c_connectionActive in *. lia.
  - rewrite Qh, Qs. split; [reflexivity|]. split; [reflexivity|]. split; [exact Qc|].
    destruct closed.
    + specialize (Hrun eq_refl). specialize (Hact eq_refl).
      assert (H3 : k_hstatus c2 = 3).
      { destruct Qt as [Qt|(Qt & _)]; [|exact Qt]. rewrite Qt, Hs1', Hrun. reflexivity. }
      split; [right; exact H3|]. split; [intros E; clear - E H3; lia|].
      intros _ A. congruence.
    + unfold c2 in *. rewrite Hs1'. destruct (hl_running l).
      * split; [left; reflexivity|]. split; [auto|]. intros E; discriminate E.
      * split; [right; reflexivity|]. split; [intros E; discriminate E|auto].
Qed.

Lemma hinv_ping_end cf id p c o : hinv cf p c ->
  hinv cf (plog_step id p (EPingEnd id o)) (ping_end (ho_failures (cf_health cf)) o c).
Proof.
  intros Hi. pose proof Hi as (I1 & I2 & I3 & I4 & I5 & I6 & I7).
  cbn [plog_step]. rewrite Z.eqb_refl, I1. cbn [andb].
  set (F := ho_failures (cf_health cf)) in *.
  destruct (k_hstatus c =? 2) eqn:E2.
  - assert (H2 : k_hstatus c = 2) by (clear - E2; lia). destruct (I5 H2) as [Hf [Hs Hr]]. rewrite Hf.
    unfold ping_end. rewrite E2. cbn [negb]. cbv zeta.
    set (c1 := check_exchanges (set_counts (k_inb c) (k_outb c) (k_pings c - 1) (k_relay c) c)).
    assert (P1 : passive c c1).
    { unfold c1. eapply passive_trans; [apply passive_set_counts|apply passive_check]. }
    destruct P1 as (Ph & _ & Ps & Pc & _).
    pose proof (health_loop_snoc F o (pl_outs p) 0%nat hl_init (k_health c) Hs Hr) as Hsn.
    destruct (health_iter F o (k_health c)) as [l closed] eqn:Ei. cbn [fst snd] in Hsn.
    rewrite <- Ph in Ei.
    destruct (health_iter_props F o _ l closed Ei) as [_ Hstop].
    pose proof (after_ping_props F o c1 l closed Ei) as (A1 & A2 & A3 & A4 & A5 & A6). cbv zeta in *.
    set (c' := after_ping F o c1) in *.
    assert (Hen : ho_enabled (cf_health cf) = true).
    { destruct (ho_enabled (cf_health cf)) eqn:En; [reflexivity|]. specialize (I2 eq_refl). congruence. }
    unfold hinv, loop_sync. cbn [pl_created pl_inflight pl_outs]. fold F. rewrite A1.
    split; [reflexivity|]. split; [intros E; congruence|].
    split. { intros _. destruct A4 as [A4|A4]; auto. }
    split. { intros E. destruct (A5 E) as [R C]. subst closed. split; [reflexivity|]. split; [exact Hsn|exact R]. }
    split. { intros E. exfalso. clear - E A4. lia. }
    split. { intros E A. destruct (A6 E A) as [R C]. apply in_or_app. right. left. auto. }
    intros E. rewrite A2, Ps in E. auto.
  - assert (Hc' : ping_end F o c = c). { unfold ping_end. rewrite E2. reflexivity. }
    rewrite Hc'.
    destruct (k_hstatus c =? 1) eqn:E1.
    + assert (H1 : k_hstatus c = 1) by (clear - E1; lia). destruct (I4 H1) as [Hf _]. rewrite Hf. exact Hi.
    + destruct (pl_inflight p); [|exact Hi].
      apply (hinv_gone cf p); [|reflexivity|cbn [pl_outs]; intros x Hx; apply in_or_app; auto|exact Hi].
      destruct (ho_enabled (cf_health cf)) eqn:En; [destruct (I3 eq_refl) as [H|[H|H]]; clear - H E1 E2; lia|left; auto].
Qed.

(* ---- the invariant along every history ------------------------------------------------------ *)
Definition hrel (cf : config) (id : Z) (p : plog) (s : chan) : Prop :=
  match lookup id (ch_conns s) with
  | Some c => hinv cf p c
  | None => p = plog_init
  end.

Lemma hrel_on_conn_other cf id i f p s e :
  i <> id -> plog_step id p e = p -> hrel cf id p s -> hrel cf id (plog_step id p e) (on_conn i f s).
Proof.
  intros Hne Hp H. rewrite Hp. unfold hrel in *. rewrite on_conn_lookup.
  destruct (i =? id) eqn:E; [lia|exact H].
Qed.

Lemma hrel_on_conn_passive cf id i f p s :
  (forall c, passive c (f c)) -> hrel cf id p s -> hrel cf id p (on_conn i f s).
Proof.
  intros Hf H. unfold hrel in *. rewrite on_conn_lookup. destruct (i =? id); [|exact H].
  destruct (lookup id (ch_conns s)) as [c|]; cbn [option_map]; [|exact H].
  eapply hinv_passive; [apply Hf|exact H].
Qed.

Lemma hrel_step cf id p s e : chan_wf s -> hrel cf id p s -> hrel cf id (plog_step id p e) (step cf s e).
Proof.
  intros Hwf H. destruct e as [dt|i rl|i mt|i mt|i w d|i| |i sent|i o]; cbn [step].
  - exact H.
  - (* new connection *)
    cbn [plog_step]. unfold hrel in *. destruct (lookup i (ch_conns s)) eqn:L.
    + destruct (i =? id) eqn:E; cbn [andb]; [|exact H].
      assert (i = id) by lia. subst i. rewrite L in *. pose proof H as (I1 & _). rewrite I1. cbn [negb]. exact H.
    + cbn [ch_conns]. destruct (i =? id) eqn:E; cbn [andb].
      * assert (i = id) by lia. subst i. rewrite L in H. subst p. cbn [plog_init pl_created negb].
        rewrite lookup_app_fresh by exact L. apply hinv_new.
      * rewrite lookup_app_other by lia. exact H.
  - apply hrel_on_conn_passive; [intros c; apply passive_update_read|exact H].
  - apply hrel_on_conn_passive; [intros c; apply passive_update_write|exact H].
  - apply hrel_on_conn_passive; [intros c; apply passive_pend|exact H].
  - apply hrel_on_conn_passive; [intros c; apply passive_close|exact H].
  - (* sweep *)
    cbn [plog_step]. destruct (sweep_enabled cf); [|exact H].
    unfold hrel in *. unfold sweep. cbn [ch_conns]. rewrite sweep_fold_lookup.
    destruct (mem id _); [|exact H].
    destruct (lookup id (ch_conns s)) as [c|]; cbn [option_map]; [|exact H].
    eapply hinv_passive; [apply passive_close_if_ok|exact H].
  - (* ping start *)
    destruct (Z.eq_dec i id) as [->|Hne].
    + unfold hrel in *. rewrite on_conn_lookup, Z.eqb_refl.
      destruct (lookup id (ch_conns s)) as [c|] eqn:L; cbn [option_map].
      * apply hinv_ping_start; [|exact H]. destruct Hwf as [_ Hall]. exact (Hall id c L).
      * subst p. cbn [plog_step plog_init pl_created pl_inflight]. rewrite Z.eqb_refl. reflexivity.
    + apply hrel_on_conn_other; [exact Hne| |exact H]. cbn [plog_step].
      destruct (i =? id) eqn:E; [lia|reflexivity].
  - (* ping end *)
    destruct (Z.eq_dec i id) as [->|Hne].
    + unfold hrel in *. rewrite on_conn_lookup, Z.eqb_refl.
      destruct (lookup id (ch_conns s)) as [c|] eqn:L; cbn [option_map].
      * apply hinv_ping_end. exact H.
      * subst p. cbn [plog_step plog_init pl_created pl_inflight]. rewrite Z.eqb_refl. reflexivity.
    + apply hrel_on_conn_other; [exact Hne| |exact H]. cbn [plog_step].
      destruct (i =? id) eqn:E; [lia|reflexivity].
Qed.

Lemma hrel_fold cf id h : forall p s, chan_wf s -> hrel cf id p s ->
  hrel cf id (fold_left (plog_step id) h p) (fold_left (step cf) h s).
Proof.
  induction h as [|e r IH]; intros p s Hwf H; [exact H|]. cbn [fold_left].
  apply IH; [apply wf_step, Hwf|apply hrel_step; assumption].
Qed.

Lemma run_hrel cf t0 h id : hrel cf id (ping_log id h) (run cf t0 h).
Proof.
  unfold ping_log, run. apply hrel_fold.
  - split; [constructor|]. intros i c L. discriminate.
  - unfold hrel. reflexivity.
Qed.

Lemma run_hinv cf t0 h id c : lookup id (ch_conns (run cf t0 h)) = Some c -> hinv cf (ping_log id h) c.
Proof. intros L. pose proof (run_hrel cf t0 h id) as H. unfold hrel in H. now rewrite L in H. Qed.

(* ---- the health checker's decision at a ping outcome, in terms of the history --------------- *)
(* While the health goroutine of a connection is waiting for its ping: the loop body calls
   Connection.close at this outcome iff the outcome completes the F-th consecutive failure
   since the last success of the pings the history shows, with no stop outcome and no earlier
   such run. *)
Theorem sys_health_decision cf t0 h id c o :
  let F := ho_failures (cf_health cf) in
  1 <= F -> lookup id (ch_conns (run cf t0 h)) = Some c -> k_hstatus c = 2 ->
  ping_inflight id h = true /\
  (snd (health_iter F o (k_health c)) = true <-> health_closes_now (Z.to_nat F) (ping_outcomes id h) o).
Proof.
  intros F HF L H2. destruct (run_hinv cf t0 h id c L) as (_ & _ & _ & _ & I5 & _).
  destruct (I5 H2) as [Hf [Hs Hr]]. fold F in Hs. split; [exact Hf|].
  unfold health_closes_now, ping_outcomes.
  rewrite <- (health_loop_closes_iff F _ _ HF).
  rewrite (health_loop_snoc F o _ 0%nat hl_init (k_health c) Hs Hr). cbn [snd].
  destruct (snd (health_iter F o (k_health c))); split; intros H; try discriminate; try reflexivity.
Qed.

(* The observable form: an Active connection with health checks enabled leaves the Active state
   at a ping outcome iff a ping of it is in flight and the outcome completes the F-th consecutive
   failure (no stop before, never earlier); otherwise it stays Active. *)
Lemma after_ping_active F o c1 : k_state c1 = c_connectionActive ->
  is_active (after_ping F o c1) = negb (snd (health_iter F o (k_health c1))).
Proof.
  intros Hs1. unfold after_ping. destruct (health_iter F o (k_health c1)) as [l closed]. cbn [snd].
  set (c1' := set_health (if hl_running l then 1 else 3) l c1).
  assert (Hs1' : k_state c1' = c_connectionActive) by exact Hs1.
  assert (Hfin : forall cc, is_active (if k_state cc =? c_connectionClosed then set_health 3 (k_health cc) cc else cc) = is_active cc).
  { intros cc. destruct (_ =? _); reflexivity. }
  rewrite Hfin. destruct closed; cbn [negb].
  - destruct (conn_close_not_active c1') as [N|[_ N]]; [exact N|].
    unfold is_active in N. rewrite Hs1' in N. clear - N. unfold c_connectionActive in N. lia.
  - unfold is_active. rewrite Hs1'. apply Z.eqb_refl.
Qed.

Theorem sys_health_iff cf t0 h id c o :
  let F := ho_failures (cf_health cf) in
  1 <= F -> ho_enabled (cf_health cf) = true ->
  lookup id (ch_conns (run cf t0 h)) = Some c -> is_active c = true ->
  exists c', lookup id (ch_conns (step cf (run cf t0 h) (EPingEnd id o))) = Some c' /\
    (is_active c' = false <->
     ping_inflight id h = true /\ health_closes_now (Z.to_nat F) (ping_outcomes id h) o).
Proof.
  intros F HF Hen L Ha.
  pose proof (run_hinv cf t0 h id c L) as Hi. pose proof Hi as (I1 & I2 & I3 & I4 & I5 & I6 & I7).
  cbn [step]. rewrite on_conn_lookup, Z.eqb_refl, L. cbn [option_map]. eexists. split; [reflexivity|].
  fold F.
  assert (Hst : k_state c = c_connectionActive) by (unfold is_active in Ha; clear - Ha; lia).
  assert (Hns : k_stopped c = false).
  { destruct (k_stopped c) eqn:E; [|reflexivity]. specialize (I7 eq_refl).
    clear - I7 Hst. unfold c_connectionActive, c_connectionClosed in *. lia. }
  destruct (k_hstatus c =? 2) eqn:E2.
  - assert (H2 : k_hstatus c = 2) by (clear - E2; lia).
    destruct (sys_health_decision cf t0 h id c o HF L H2) as [Hf Hd]. fold F in Hd.
    unfold ping_end. rewrite E2. cbn [negb]. cbv zeta.
    set (c0 := set_counts (k_inb c) (k_outb c) (k_pings c - 1) (k_relay c) c).
    destruct (check_active c0 Hst Hns) as [Hs1 _].
    rewrite (after_ping_active F o _ Hs1), k_health_check. cbn [c0 set_counts k_health].
    destruct (snd (health_iter F o (k_health c))); cbn [negb].
    + split; [intros _; split; [exact Hf|apply Hd; reflexivity]|reflexivity].
    + split; [discriminate|]. intros [_ Hc]. apply Hd in Hc. discriminate.
  - assert (Hc' : ping_end F o c = c). { unfold ping_end. rewrite E2. reflexivity. }
    rewrite Hc'. split; [intros N; congruence|]. intros [Hf Hc]. exfalso.
    destruct (I3 Hen) as [H|[H|H]]; [|clear - H E2; lia|].
    + destruct (I4 H) as [Hf' _]. unfold ping_inflight in Hf. congruence.
    + specialize (I6 H Ha). unfold health_closes_now, ping_outcomes in Hc.
      destruct Hc as (_ & _ & _ & Hns').
      apply (In_nth _ _ POk) in I6 as (j & Hj & Hn).
      apply (Hns' j); [lia|]. rewrite app_nth1 by exact Hj. exact Hn.
Qed.

(* An Active connection leaves the Active state only at: a sweep, an application close, the end
   of one of its health-check pings, or a health-check ping that cannot be sent. *)
Theorem sys_active_left_only_by cf t0 h id c e :
  lookup id (ch_conns (run cf t0 h)) = Some c -> is_active c = true ->
  (forall c', lookup id (ch_conns (step cf (run cf t0 h) e)) = Some c' -> is_active c' = true) \/
  e = ETick \/ e = EClose id \/ (exists o, e = EPingEnd id o) \/ e = EPingStart id false.
Proof.
  intros L Ha.
  destruct (run_hinv cf t0 h id c L) as (_ & _ & _ & _ & _ & _ & I7).
  assert (Hst : k_state c = c_connectionActive) by (unfold is_active in Ha; clear - Ha; lia).
  assert (Hns : k_stopped c = false).
  { destruct (k_stopped c) eqn:E; [|reflexivity]. specialize (I7 eq_refl).
    clear - I7 Hst. unfold c_connectionActive, c_connectionClosed in *. lia. }
  assert (Hact : forall x, k_state x = c_connectionActive -> is_active x = true).
  { intros x Hx. unfold is_active. rewrite Hx. apply Z.eqb_refl. }
  assert (Hsc : forall a b p r, is_active (check_exchanges (set_counts a b p r c)) = true).
  { intros a b p r. apply Hact. apply (check_active (set_counts a b p r c)); assumption. }
  destruct e as [dt|i rl|i mt|i mt|i w d|i| |i sent|i o]; cbn [step].
  - left. intros c' L'. cbn [ch_conns] in L'. rewrite L in L'. injection L' as <-. exact Ha.
  - left. intros c' L'. destruct (lookup i (ch_conns (run cf t0 h))) eqn:Li.
    + rewrite L in L'. injection L' as <-. exact Ha.
    + cbn [ch_conns] in L'. destruct (Z.eq_dec i id) as [->|Hne]; [congruence|].
      rewrite lookup_app_other in L' by exact Hne. rewrite L in L'. injection L' as <-. exact Ha.
  - left. intros c' L'. rewrite on_conn_lookup, L in L'. destruct (i =? id); cbn [option_map] in L'; injection L' as <-; [|exact Ha].
    unfold update_read. destruct (isMessageTypeCall mt); [apply Hact; exact Hst|exact Ha].
  - left. intros c' L'. rewrite on_conn_lookup, L in L'. destruct (i =? id); cbn [option_map] in L'; injection L' as <-; [|exact Ha].
    unfold update_write. destruct (isMessageTypeCall mt); [apply Hact; exact Hst|exact Ha].
  - left. intros c' L'. rewrite on_conn_lookup, L in L'. destruct (i =? id); cbn [option_map] in L'; injection L' as <-; [|exact Ha].
    unfold pend.
    repeat match goal with
    | |- is_active (if ?b then _ else _) = true => destruct b
    | |- is_active (match ?x with Some _ => _ | None => _ end) = true => destruct x
    | |- is_active c = true => exact Ha
    | |- is_active (set_counts _ _ _ _ c) = true => apply Hact; exact Hst
    | |- is_active (check_exchanges (set_counts _ _ _ _ c)) = true => apply Hsc
    end.
  - destruct (Z.eq_dec i id) as [->|Hne]; [right; right; left; reflexivity|left].
    intros c' L'. rewrite on_conn_lookup, L in L'. destruct (i =? id) eqn:E; [clear - E Hne; lia|].
    injection L' as <-. exact Ha.
  - right. left. reflexivity.
  - destruct (Z.eq_dec i id) as [->|Hne].
    + destruct sent; [left|right; right; right; right; reflexivity].
      intros c' L'. rewrite on_conn_lookup, Z.eqb_refl, L in L'. cbn [option_map] in L'. injection L' as <-.
      unfold ping_start. destruct (negb _); [exact Ha|]. apply Hact. exact Hst.
    + left. intros c' L'. rewrite on_conn_lookup, L in L'. destruct (i =? id) eqn:E; [clear - E Hne; lia|].
      injection L' as <-. exact Ha.
  - destruct (Z.eq_dec i id) as [->|Hne]; [right; right; right; left; exists o; reflexivity|left].
    intros c' L'. rewrite on_conn_lookup, L in L'. destruct (i =? id) eqn:E; [clear - E Hne; lia|].
    injection L' as <-. exact Ha.
Qed.

(* ---- ping traffic never is call activity ------------------------------------------------------ *)
Lemma ping_frame_not_call mt : is_ping_frame mt = true -> is_call_frame mt = false.
Proof. unfold is_ping_frame, is_call_frame. lia. Qed.

Theorem erase_pings_clock : forall h t0, clock t0 (erase_pings h) = clock t0 h.
Proof.
  induction h as [|e r IH]; intros t0; [reflexivity|]. unfold erase_pings in *. cbn [filter].
  destruct e; cbn [is_ping_traffic negb clock]; try apply IH.
  - destruct (is_ping_frame mt); cbn [negb clock]; apply IH.
  - destruct (is_ping_frame mt); cbn [negb clock]; apply IH.
Qed.

Theorem erase_pings_lca id : forall h t cur,
  last_call_activity id t cur (erase_pings h) = last_call_activity id t cur h.
Proof.
  induction h as [|e r IH]; intros t cur; [reflexivity|]. unfold erase_pings in *. cbn [filter].
  destruct e; cbn [is_ping_traffic negb last_call_activity]; try apply IH.
  - destruct (is_ping_frame mt) eqn:E; cbn [negb last_call_activity]; [|apply IH].
    rewrite (ping_frame_not_call mt E), andb_false_r. rewrite IH. destruct cur; reflexivity.
  - destruct (is_ping_frame mt) eqn:E; cbn [negb last_call_activity]; [|apply IH].
    rewrite (ping_frame_not_call mt E), andb_false_r. rewrite IH. destruct cur; reflexivity.
Qed.

(* in the model: a ping-traffic event moves no activity stamp of any connection *)
Theorem ping_traffic_stamps cf s e id : is_ping_traffic e = true ->
  option_map stamps (lookup id (ch_conns (step cf s e))) = option_map stamps (lookup id (ch_conns s)).
Proof.
  intros H. destruct e; cbn [is_ping_traffic] in H; try discriminate; cbn [step].
  - apply on_conn_stamps. intros c. unfold update_read. rewrite is_call_frame_gen, (ping_frame_not_call mt H). reflexivity.
  - apply on_conn_stamps. intros c. unfold update_write. rewrite is_call_frame_gen, (ping_frame_not_call mt H). reflexivity.
  - apply on_conn_stamps. intros c. apply stamps_ping_start.
  - apply on_conn_stamps. intros c. apply stamps_ping_end.
Qed.

(* ---- the ping traffic of one connection never influences another connection ------------------ *)
Definition same_but (id' : Z) (s1 s2 : chan) : Prop :=
  ch_now s1 = ch_now s2 /\ chan_wf s1 /\ chan_wf s2 /\
  (forall id, id <> id' -> lookup id (ch_conns s1) = lookup id (ch_conns s2)) /\
  (lookup id' (ch_conns s1) = None <-> lookup id' (ch_conns s2) = None).

Lemma sweep_lookup_gen mi s id : NoDup (map fst (ch_conns s)) ->
  lookup id (ch_conns (sweep mi s)) =
  option_map (fun c => if k_tracked c && idle_candidate (ch_now s) mi c then close_if_ok c else c) (lookup id (ch_conns s)).
Proof.
  intros Hnd. destruct (lookup id (ch_conns s)) as [c|] eqn:L; cbn [option_map].
  - apply sweep_lookup; assumption.
  - unfold sweep. cbn [ch_conns]. rewrite sweep_fold_lookup, L. destruct (mem id _); reflexivity.
Qed.

Lemma none_iff_map {A} (f : A -> A) (a b : option A) : (a = None <-> b = None) -> (option_map f a = None <-> option_map f b = None).
Proof.
  destruct a, b; cbn; intros [H1 H2]; split; intros H; try discriminate; try reflexivity;
    try (discriminate (H2 eq_refl)); try (discriminate (H1 eq_refl)).
Qed.

Lemma same_but_step cf id' s1 s2 e : same_but id' s1 s2 -> same_but id' (step cf s1 e) (step cf s2 e).
Proof.
  intros (Hn & W1 & W2 & Heq & Hnone).
  split; [|split; [apply wf_step, W1|split; [apply wf_step, W2|]]].
  { destruct e; cbn [step]; rewrite ?on_conn_now; cbn [ch_now]; try congruence.
    - destruct (lookup id (ch_conns s1)), (lookup id (ch_conns s2)); cbn [ch_now]; congruence.
    - destruct (sweep_enabled cf); cbn [sweep ch_now]; congruence. }
  assert (Hon : forall i f1 f2, (forall c, f1 c = f2 c) ->
    (forall id, id <> id' -> lookup id (ch_conns (on_conn i f1 s1)) = lookup id (ch_conns (on_conn i f2 s2))) /\
    (lookup id' (ch_conns (on_conn i f1 s1)) = None <-> lookup id' (ch_conns (on_conn i f2 s2)) = None)).
  { intros i f1 f2 Hf. split.
    - intros id Hne. rewrite !on_conn_lookup. rewrite (Heq id Hne). destruct (i =? id); [|reflexivity].
      destruct (lookup id (ch_conns s2)); cbn [option_map]; [now rewrite Hf|reflexivity].
    - rewrite !on_conn_lookup. destruct (i =? id'); [|exact Hnone].
      destruct (lookup id' (ch_conns s1)), (lookup id' (ch_conns s2)); cbn [option_map]; destruct Hnone as [H1 H2];
        split; intros H; try discriminate; auto; try (specialize (H1 eq_refl); discriminate); try (specialize (H2 eq_refl); discriminate). }
  destruct e as [dt|i rl|i mt|i mt|i w d|i| |i sent|i o]; cbn [step].
  - cbn [ch_conns]. split; assumption.
  - assert (Hi : lookup i (ch_conns s1) = None <-> lookup i (ch_conns s2) = None).
    { destruct (Z.eq_dec i id') as [->|Hne]; [exact Hnone|]. rewrite (Heq i Hne). tauto. }
    destruct (lookup i (ch_conns s1)) eqn:L1; destruct (lookup i (ch_conns s2)) eqn:L2;
      try (destruct Hi as [H1 H2]; try (specialize (H1 eq_refl); discriminate); try (specialize (H2 eq_refl); discriminate)).
    + split; assumption.
    + cbn [ch_conns]. rewrite Hn. split.
      * intros id Hne. destruct (Z.eq_dec i id) as [->|Hni].
        -- rewrite !lookup_app_fresh by assumption. reflexivity.
        -- rewrite !lookup_app_other by exact Hni. apply Heq, Hne.
      * destruct (Z.eq_dec i id') as [->|Hni].
        -- rewrite !lookup_app_fresh by assumption. split; discriminate.
        -- rewrite !lookup_app_other by exact Hni. exact Hnone.
  - apply Hon. intros c. now rewrite Hn.
  - apply Hon. intros c. now rewrite Hn.
  - apply Hon. reflexivity.
  - apply Hon. reflexivity.
  - destruct (sweep_enabled cf); [|split; assumption]. destruct W1 as [N1 _]. destruct W2 as [N2 _]. split.
    + intros id Hne. rewrite !sweep_lookup_gen by assumption. rewrite (Heq id Hne), Hn. reflexivity.
    + rewrite !sweep_lookup_gen by assumption.
      destruct (lookup id' (ch_conns s1)), (lookup id' (ch_conns s2)); cbn [option_map] in *; destruct Hnone as [H1 H2];
        split; intros H; try discriminate; try reflexivity;
        try (discriminate (H2 eq_refl)); try (discriminate (H1 eq_refl)).
  - apply Hon. reflexivity.
  - apply Hon. reflexivity.
Qed.

Lemma same_but_step_right cf id' s1 s2 e : is_ping_traffic_of id' e = true ->
  same_but id' s1 s2 -> same_but id' s1 (step cf s2 e).
Proof.
  intros He (Hn & W1 & W2 & Heq & Hnone).
  assert (Hon : forall f, e = e -> step cf s2 e = on_conn id' f s2 ->
            ch_now s1 = ch_now (step cf s2 e) /\
            (forall id, id <> id' -> lookup id (ch_conns s1) = lookup id (ch_conns (step cf s2 e))) /\
            (lookup id' (ch_conns s1) = None <-> lookup id' (ch_conns (step cf s2 e)) = None)).
  { intros f _ ->. split; [rewrite on_conn_now; exact Hn|]. split.
    - intros id Hne. rewrite on_conn_lookup. destruct (id' =? id) eqn:E; [clear - E Hne; lia|]. apply Heq, Hne.
    - rewrite on_conn_lookup, Z.eqb_refl. apply (none_iff_map f) in Hnone.
      rewrite <- Hnone. destruct (lookup id' (ch_conns s1)); cbn [option_map]; split; intros H; try discriminate; reflexivity. }
  assert (Hall : ch_now s1 = ch_now (step cf s2 e) /\
            (forall id, id <> id' -> lookup id (ch_conns s1) = lookup id (ch_conns (step cf s2 e))) /\
            (lookup id' (ch_conns s1) = None <-> lookup id' (ch_conns (step cf s2 e)) = None)).
  { destruct e; cbn [is_ping_traffic_of] in He; try discriminate.
    - apply andb_true_iff in He as [He _]. assert (id = id') by (clear - He; lia). subst id.
      eapply Hon; reflexivity.
    - apply andb_true_iff in He as [He _]. assert (id = id') by (clear - He; lia). subst id.
      eapply Hon; reflexivity.
    - assert (id = id') by (clear - He; lia). subst id. eapply Hon; reflexivity.
    - assert (id = id') by (clear - He; lia). subst id. eapply Hon; reflexivity. }
  destruct Hall as (A1 & A2 & A3).
  split; [exact A1|]. split; [exact W1|]. split; [apply wf_step, W2|]. split; assumption.
Qed.

Lemma same_but_refl id' s : chan_wf s -> same_but id' s s.
Proof. intros W. unfold same_but. split; [reflexivity|]. split; [exact W|]. split; [exact W|]. split; [reflexivity|tauto]. Qed.

Lemma same_but_fold cf id' h : forall s1 s2, same_but id' s1 s2 ->
  same_but id' (fold_left (step cf) (erase_pings_of id' h) s1) (fold_left (step cf) h s2).
Proof.
  induction h as [|e r IH]; intros s1 s2 H; [exact H|]. unfold erase_pings_of in *. cbn [filter fold_left].
  destruct (is_ping_traffic_of id' e) eqn:E; cbn [negb fold_left].
  - apply IH. apply same_but_step_right; assumption.
  - apply IH. apply same_but_step, H.
Qed.

(* Erasing all ping traffic of connection id' from a history changes neither the clock nor the
   state of any other connection. *)
Theorem pings_of_noninterference cf t0 h id id' : id <> id' ->
  ch_now (run cf t0 (erase_pings_of id' h)) = ch_now (run cf t0 h) /\
  lookup id (ch_conns (run cf t0 (erase_pings_of id' h))) = lookup id (ch_conns (run cf t0 h)).
Proof.
  intros Hne. unfold run.
  destruct (same_but_fold cf id' h (init_chan t0) (init_chan t0)) as (Hn & _ & _ & Heq & _).
  { apply same_but_refl. split; [constructor|]. intros i c L. discriminate. }
  split; [exact Hn|apply Heq, Hne].
Qed.

(* ... hence not the decision of the next sweep on any other connection either *)
Definition sweep_closes (cf : config) (s : chan) (id : Z) : Prop :=
  In id (closed_between (ch_conns s) (ch_conns (step cf s ETick))).

Lemma sweep_closes_ext cf s1 s2 id : chan_wf s1 -> chan_wf s2 -> ch_now s1 = ch_now s2 ->
  lookup id (ch_conns s1) = lookup id (ch_conns s2) ->
  (sweep_closes cf s1 id <-> sweep_closes cf s2 id) /\
  lookup id (ch_conns (step cf s1 ETick)) = lookup id (ch_conns (step cf s2 ETick)).
Proof.
  intros [N1 _] [N2 _] Hn Hl. unfold sweep_closes.
  assert (Hafter : lookup id (ch_conns (step cf s1 ETick)) = lookup id (ch_conns (step cf s2 ETick))).
  { cbn [step]. destruct (sweep_enabled cf); [|exact Hl]. rewrite !sweep_lookup_gen by assumption. now rewrite Hl, Hn. }
  split; [|exact Hafter].
  rewrite !closed_between_in by assumption. rewrite Hl, Hafter. tauto.
Qed.

Theorem pings_of_sweep_noninterference cf t0 h id id' : id <> id' ->
  let s1 := run cf t0 (erase_pings_of id' h) in
  let s2 := run cf t0 h in
  (sweep_closes cf s1 id <-> sweep_closes cf s2 id) /\
  lookup id (ch_conns (step cf s1 ETick)) = lookup id (ch_conns (step cf s2 ETick)).
Proof.
  intros Hne s1 s2. destruct (pings_of_noninterference cf t0 h id id' Hne) as [Hn Hl].
  apply sweep_closes_ext; try apply run_wf; assumption.
Qed.
