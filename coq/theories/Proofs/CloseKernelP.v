(* Lemmas about the interleaving kernel of the C07 models. *)
From Coq Require Import List Arith Lia Bool.
From Verif Require Import Model.CloseKernel.
Import ListNotations.

Section Run.
  Context {St Lbl : Type}.
  Variable step : St -> Lbl -> option St.

  Lemma run_none : forall ls, fold_left (fun o l => match o with Some s' => step s' l | None => None end) ls None = None.
  Proof. induction ls as [|l ls IH]; cbn; auto. Qed.

  Lemma run_snoc : forall s ls l,
    run step s (ls ++ [l]) = match run step s ls with Some s' => step s' l | None => None end.
  Proof. intros s ls l. unfold run. rewrite fold_left_app. reflexivity. Qed.

  Lemma run_cons : forall s l ls,
    run step s (l :: ls) = match step s l with Some s' => run step s' ls | None => None end.
  Proof.
    intros s l ls. unfold run. cbn [fold_left]. destruct (step s l); [reflexivity|apply run_none].
  Qed.

  Lemma run_app : forall s l1 l2,
    run step s (l1 ++ l2) = match run step s l1 with Some s' => run step s' l2 | None => None end.
  Proof.
    intros s l1 l2. unfold run at 1 2. rewrite fold_left_app.
    destruct (fold_left _ l1 (Some s)); [reflexivity|apply run_none].
  Qed.

  (* induction over reachable states *)
  Theorem reach_ind : forall (init : St) (P : St -> Prop),
    P init ->
    (forall s l s', Reach step init s -> P s -> step s l = Some s' -> P s') ->
    forall s, Reach step init s -> P s.
  Proof.
    intros init P H0 Hs s [ls Hr]. revert s Hr.
    induction ls as [|l ls IH] using rev_ind; intros s Hr.
    - cbn in Hr. inversion Hr. subst. exact H0.
    - rewrite run_snoc in Hr. destruct (run step init ls) as [s1|] eqn:E; [|discriminate].
      apply (Hs s1 l s); auto. exists ls; exact E.
  Qed.

  Lemma reach_step : forall init s l s', Reach step init s -> step s l = Some s' -> Reach step init s'.
  Proof. intros init s l s' [ls H] Hs. exists (ls ++ [l]). rewrite run_snoc, H. exact Hs. Qed.

  Lemma reach_init : forall init, Reach step init init.
  Proof. intros; exists []; reflexivity. Qed.

  (* a relation preserved by every step holds along every run *)
  Lemma run_rel : forall (R : St -> St -> Prop),
    (forall s, R s s) -> (forall a b c, R a b -> R b c -> R a c) ->
    (forall s l s', step s l = Some s' -> R s s') ->
    forall ls s s', run step s ls = Some s' -> R s s'.
  Proof.
    intros R Hr Ht Hs ls. induction ls as [|l ls IH] using rev_ind; intros s s' H.
    - cbn in H. inversion H. apply Hr.
    - rewrite run_snoc in H. destruct (run step s ls) as [s1|] eqn:E; [|discriminate].
      eapply Ht; [apply IH; exact E|eapply Hs; exact H].
  Qed.
End Run.

Section Upd.
  Context {A : Type}.

  Lemma length_upd : forall (l : list A) n x, length (upd l n x) = length l.
  Proof. induction l as [|y l IH]; intros [|n] x; cbn; auto. Qed.

  Lemma nth_error_upd_same : forall (l : list A) n x, n < length l -> nth_error (upd l n x) n = Some x.
  Proof.
    induction l as [|y l IH]; intros [|n] x H; cbn in *; try lia; auto. apply IH. lia.
  Qed.

  Lemma nth_error_upd_other : forall (l : list A) n m x, m <> n -> nth_error (upd l n x) m = nth_error l m.
  Proof.
    induction l as [|y l IH]; intros [|n] [|m] x H; cbn; auto; try congruence.
  Qed.

  Lemma nth_error_upd : forall (l : list A) n m x q,
    nth_error (upd l n x) m = Some q ->
    (m = n /\ q = x) \/ (m <> n /\ nth_error l m = Some q).
  Proof.
    intros l n m x q H. destruct (Nat.eq_dec m n) as [E|E].
    - subst. left. split; auto.
      assert (Hl : n < length l).
      { rewrite <- (length_upd l n x). apply nth_error_Some. congruence. }
      rewrite nth_error_upd_same in H by exact Hl. congruence.
    - right. rewrite nth_error_upd_other in H by exact E. auto.
  Qed.

  Lemma nth_error_snoc : forall (l : list A) x m q,
    nth_error (l ++ [x]) m = Some q ->
    (m < length l /\ nth_error l m = Some q) \/ (m = length l /\ q = x).
  Proof.
    intros l x m q H. destruct (lt_dec m (length l)) as [L|L].
    - left. rewrite nth_error_app1 in H by exact L. auto.
    - right. rewrite nth_error_app2 in H by lia.
      destruct (m - length l) as [|k] eqn:E.
      + cbn in H. split; [lia|congruence].
      + cbn in H. destruct k; discriminate.
  Qed.

  Lemma nth_error_snoc_old : forall (l : list A) x m q,
    nth_error l m = Some q -> nth_error (l ++ [x]) m = Some q.
  Proof.
    intros l x m q H. rewrite nth_error_app1; auto. apply nth_error_Some. congruence.
  Qed.

  Lemma nth_error_lt : forall (l : list A) m q, nth_error l m = Some q -> m < length l.
  Proof. intros l m q H. apply nth_error_Some. congruence. Qed.

  Variable f : A -> bool.

  Lemma count_if_app : forall l1 l2, count_if f (l1 ++ l2) = count_if f l1 + count_if f l2.
  Proof. intros. unfold count_if. rewrite filter_app, app_length. reflexivity. Qed.

  Lemma count_if_cons : forall x l, count_if f (x :: l) = (if f x then 1 else 0) + count_if f l.
  Proof. intros. unfold count_if. cbn. destruct (f x); reflexivity. Qed.

  Lemma count_if_upd : forall (l : list A) n old x,
    nth_error l n = Some old ->
    count_if f (upd l n x) + (if f old then 1 else 0) = count_if f l + (if f x then 1 else 0).
  Proof.
    induction l as [|y l IH]; intros [|n] old x H; cbn in H; try discriminate.
    - inversion H; subst. cbn [upd]. rewrite !count_if_cons. lia.
    - cbn [upd]. rewrite !count_if_cons. specialize (IH n old x H). lia.
  Qed.

  Lemma count_if_zero : forall (l : list A), (forall m q, nth_error l m = Some q -> f q = false) -> count_if f l = 0.
  Proof.
    induction l as [|y l IH]; intros H; [reflexivity|].
    rewrite count_if_cons. rewrite (H 0 y eq_refl). rewrite IH; [reflexivity|].
    intros m q Hm. apply (H (S m) q). exact Hm.
  Qed.

  Lemma count_if_pos : forall (l : list A) m q, nth_error l m = Some q -> f q = true -> 0 < count_if f l.
  Proof.
    induction l as [|y l IH]; intros [|m] q H Hq; cbn in H; try discriminate; rewrite count_if_cons.
    - inversion H; subst. rewrite Hq. lia.
    - specialize (IH m q H Hq). lia.
  Qed.
End Upd.
