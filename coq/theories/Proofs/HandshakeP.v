(* Proofs about the handshake model (Model/Handshake.v) against Spec/HandshakeSpec.v. *)
From Coq Require Import ZArith List Bool Lia ZifyBool.
From Verif Require Import Base.Wrap Base.Bytes Gen.GenConsts Gen.GenFrame Gen.GenRetry Gen.GenHandshake
  Model.TypedBuf Model.Messages Model.HsText Model.Handshake
  Spec.Protocol Spec.HandshakeSpec Proofs.CodecP Proofs.FrameP Proofs.HsCodecP.
Import ListNotations.
Local Open Scope Z_scope.

(* ---------------- the params map ---------------- *)
Definition lk_step (k : list Z) (acc : option (list Z)) (kv : list Z * list Z) : option (list Z) :=
  if bytes_eqb (fst kv) k then Some (snd kv) else acc.

Lemma lk_fold k p : forall acc,
  fold_left (lk_step k) p acc = match fold_left (lk_step k) p None with Some v => Some v | None => acc end.
Proof.
  induction p as [|kv p IH]; intros acc; cbn [fold_left]; [reflexivity|].
  rewrite (IH (lk_step k acc kv)), (IH (lk_step k None kv)).
  destruct (fold_left (lk_step k) p None); [reflexivity|].
  unfold lk_step. destruct (bytes_eqb (fst kv) k); reflexivity.
Qed.

Lemma lookup_cons k kv p :
  lookup k (kv :: p) = match lookup k p with
                       | Some v => Some v
                       | None => if bytes_eqb (fst kv) k then Some (snd kv) else None
                       end.
Proof. unfold lookup. cbn [fold_left]. fold (lk_step k). rewrite lk_fold. reflexivity. Qed.

Lemma bytes_eqb_refl k : bytes_eqb k k = true.
Proof. apply bytes_eqb_eq. reflexivity. Qed.

Lemma lookup_none k p : lookup k p = None <-> ~ has_param k p.
Proof.
  induction p as [|[k' v'] p IH].
  - split; [intros _ [v []]|reflexivity].
  - rewrite lookup_cons. cbn [fst snd]. destruct (lookup k p) as [v|] eqn:L.
    + split; [discriminate|]. intros N. exfalso.
      assert (N' : ~ has_param k p) by (intros [v0 H]; apply N; exists v0; right; exact H).
      apply IH in N'. discriminate.
    + destruct (bytes_eqb k' k) eqn:E.
      * split; [discriminate|]. intros N. exfalso. apply N. apply bytes_eqb_eq in E. subst. exists v'. left. reflexivity.
      * split; [|reflexivity]. intros _ [v [H|H]].
        -- inversion H; subst. rewrite bytes_eqb_refl in E. discriminate.
        -- apply (proj1 IH eq_refl). exists v. exact H.
Qed.

Lemma lookup_some k p v : lookup k p = Some v <-> announced k p v.
Proof.
  split.
  - revert v. induction p as [|[k' v'] p IH]; intros v H; [discriminate|].
    rewrite lookup_cons in H. cbn [fst snd] in H. destruct (lookup k p) as [w|] eqn:L.
    + inversion H; subst w. destruct (IH v eq_refl) as [l1 [l2 [E N]]].
      exists ((k', v') :: l1), l2. split; [cbn; rewrite E; reflexivity|exact N].
    + destruct (bytes_eqb k' k) eqn:E; [|discriminate]. inversion H; subst v'. apply bytes_eqb_eq in E. subst k'.
      exists [], p. split; [reflexivity|]. apply lookup_none, L.
  - intros [l1 [l2 [E N]]]. subst p. induction l1 as [|a l1 IH]; cbn [app].
    + rewrite lookup_cons. cbn [fst snd]. rewrite (proj2 (lookup_none k l2) N), bytes_eqb_refl. reflexivity.
    + rewrite lookup_cons, IH. reflexivity.
Qed.

Lemma lookup_has k p : has_param k p -> exists v, lookup k p = Some v.
Proof.
  intros H. destruct (lookup k p) as [v|] eqn:L; [exists v; reflexivity|].
  apply lookup_none in L. contradiction.
Qed.

Lemma announced_has k p v : announced k p v -> has_param k p.
Proof. intros [l1 [l2 [E _]]]. exists v. subst p. apply in_or_app. right. left. reflexivity. Qed.

(* ---------------- ephemeral host:port ---------------- *)
Lemma has_suffix_spec s suf : has_suffix s suf = true <-> exists pre, s = pre ++ suf.
Proof.
  unfold has_suffix. split.
  - intros H. apply andb_true_iff in H as [L E]. apply bytes_eqb_eq in E.
    exists (firstn (length s - length suf) s). rewrite <- E at 2. symmetry. apply firstn_skipn.
  - intros [pre ->]. apply andb_true_iff. split.
    + apply Nat.leb_le. rewrite app_length. lia.
    + apply bytes_eqb_eq. rewrite app_length. replace (length pre + length suf - length suf)%nat with (length pre) by lia.
      rewrite skipn_app, Nat.sub_diag, skipn_all. reflexivity.
Qed.

Lemma t_colon0_val : t_colon0 = [58; 48].
Proof. reflexivity. Qed.

Lemma is_ephemeral_spec hp : is_ephemeral hp = true <-> ephemeral_hp hp.
Proof.
  unfold is_ephemeral, isEphemeralHostPort, ephemeral_hp. rewrite t_colon0_val.
  rewrite !orb_true_iff, !bytes_eqb_eq, has_suffix_spec. tauto.
Qed.

Lemma key_hp : c_InitParamHostPort = k_host_port. Proof. reflexivity. Qed.
Lemma key_pn : c_InitParamProcessName = k_process_name. Proof. reflexivity. Qed.

(* ---------------- parseRemotePeer ---------------- *)
Definition code_ok (e : herr) : Prop := match e with HSys c _ => 0 <= c < 256 | _ => True end.

Lemma parse_ok p addr pi : parse_remote_peer p addr = inr pi ->
  has_param k_host_port p /\ has_param k_process_name p /\
  identified p addr (pi_hostport pi) (pi_process pi) (pi_ephemeral pi).
Proof.
  unfold parse_remote_peer. rewrite key_hp, key_pn.
  destruct (lookup k_host_port p) as [hp|] eqn:L1; [|discriminate].
  destruct (lookup k_process_name p) as [pn|] eqn:L2; [|discriminate].
  intros H. inversion H; subst pi. clear H. cbn [pi_hostport pi_process pi_ephemeral].
  apply lookup_some in L1. apply lookup_some in L2.
  split; [eapply announced_has; exact L1|]. split; [eapply announced_has; exact L2|].
  exists hp. split; [exact L1|]. split; [exact L2|].
  destruct (is_ephemeral hp) eqn:E.
  - left. split; [apply is_ephemeral_spec, E|auto].
  - right. split; [|auto]. intros X. apply is_ephemeral_spec in X. congruence.
Qed.

Lemma parse_complete p addr : has_param k_host_port p -> has_param k_process_name p ->
  exists pi, parse_remote_peer p addr = inr pi.
Proof.
  intros H1 H2. unfold parse_remote_peer. rewrite key_hp, key_pn.
  destruct (lookup_has _ _ H1) as [hp ->]. destruct (lookup_has _ _ H2) as [pn ->]. eexists. reflexivity.
Qed.

Lemma parse_err p addr err : parse_remote_peer p addr = inl err ->
  code_ok err /\ ~ (has_param k_host_port p /\ has_param k_process_name p).
Proof.
  unfold parse_remote_peer. rewrite key_hp, key_pn.
  destruct (lookup k_host_port p) as [hp|] eqn:L1.
  - destruct (lookup k_process_name p) as [pn|] eqn:L2; [discriminate|].
    intros H. inversion H; subst. split; [cbn; unfold c_ErrCodeProtocol; lia|].
    intros [_ X]. apply lookup_none in L2. contradiction.
  - intros H. inversion H; subst. split; [cbn; unfold c_ErrCodeProtocol; lia|].
    intros [X _]. apply lookup_none in L1. contradiction.
Qed.

(* ---------------- writing frames ---------------- *)
Definition local_ok (c : hcfg) (hide : bool) : Prop :=
  params_ok (init_params c hide) /\ zlen (s_init protocol_version (init_params c hide)) <= 65519.

Lemma write_message_ok body bs t id :
  writes body bs -> zlen bs <= 65519 -> 0 <= t < 256 ->
  write_message body t id = inr (s_frame t id bs).
Proof.
  intros W L T. unfold write_message.
  rewrite (frame_write_ok c_MaxFramePayloadSize body bs t id W); [|exact L|reflexivity].
  rewrite frame_out_spec; [reflexivity|apply u_ok_1; exact T|exact L].
Qed.

Lemma write_init_ok params t id :
  params_ok params -> zlen (s_init protocol_version params) <= 65519 -> 0 <= t < 256 ->
  write_message (w_init (mkInit c_CurrentProtocolVersion params)) t id = inr (init_frame t id protocol_version params).
Proof.
  intros P L T. unfold init_frame. apply write_message_ok; [|exact L|exact T].
  apply (w_init_writes (mkInit 2 params)). split; [apply u_ok_2; cbn; lia|apply params_ok_kvs16, P].
Qed.

Lemma w_error_writes' code msg : 0 <= code < 256 -> zlen msg <= 65535 ->
  writes (w_error (mkErr code span0 msg)) (s_error code (s_tracing 0 0 0 0) msg).
Proof.
  intros A E. unfold w_error, s_error. cbn [em_code em_span em_msg].
  apply seq_writes; [apply w_u8_writes, A|].
  apply seq_writes; [apply (w_span_writes span0); apply u_ok_1; cbn; lia|].
  apply w_len16_writes, E.
Qed.

Lemma zlen_cons {A} (x : A) l : zlen (x :: l) = 1 + zlen l.
Proof. unfold zlen. cbn [length]. lia. Qed.

Lemma s_error_len code tr msg : zlen tr = 25 -> zlen (s_error code tr msg) = 28 + zlen msg.
Proof.
  intros T. unfold s_error, s_str2. rewrite !zlen_app, zlen_be, T. unfold zlen at 1. cbn [length]. unfold slen. lia.
Qed.

Lemma firstn_zlen {A} (m : Z) (l : list A) : 0 <= m -> zlen (firstn (Z.to_nat m) l) <= m.
Proof. intros H. unfold zlen. pose proof (firstn_le_length (Z.to_nat m) l). lia. Qed.

Lemma tracing0_len : zlen (s_tracing 0 0 0 0) = 25.
Proof. reflexivity. Qed.

Definition norm_err (e : herr) : herr :=
  match e with
  | HTimeout => HSys c_ErrCodeTimeout t_timeout
  | HEOF => HSys c_ErrCodeNetwork t_EOF
  | _ => e
  end.

Definition err_code (e : herr) : Z := GetSystemErrorCode (goerr_of (norm_err e)).

Lemma err_code_range e : code_ok e -> 0 <= err_code e < 256.
Proof.
  unfold err_code, GetSystemErrorCode.
  destruct e; cbn; intros H; try (unfold c_ErrCodeTimeout, c_ErrCodeNetwork, c_ErrCodeUnexpected; lia).
Qed.

(* initError always reports: one error frame (spec layout) carrying the id and the code,
   then the close *)
Lemma init_error_spec id e : code_ok e ->
  exists msg, zlen msg <= 65491 /\
    init_error id e = (norm_err e, [Send (DErr id (err_code e) msg) (error_frame id (err_code e) msg); CloseSock]).
Proof.
  intros C. unfold init_error. fold (norm_err e). fold (err_code e).
  set (msg := firstn (Z.to_nat max_init_error_message) (herr_text (norm_err e))).
  assert (L : zlen msg <= 65491) by (apply (firstn_zlen 65491); lia).
  exists msg. split; [exact L|].
  rewrite (write_message_ok _ (s_error (err_code e) (s_tracing 0 0 0 0) msg)).
  - reflexivity.
  - apply w_error_writes'; [apply err_code_range, C|lia].
  - rewrite s_error_len by apply tracing0_len. lia.
  - unfold c_messageTypeError. lia.
Qed.

Lemma fail_spec pre id e : code_ok e ->
  exists msg, zlen msg <= 65491 /\
    fail pre id e = mkRes None (Some (norm_err e))
                      (pre ++ [Send (DErr id (err_code e) msg) (error_frame id (err_code e) msg); CloseSock]).
Proof.
  intros C. destruct (init_error_spec id e C) as [msg [L E]]. exists msg. split; [exact L|].
  unfold fail. rewrite E. reflexivity.
Qed.

Lemma fail_conn pre id e : hr_conn (fail pre id e) = None.
Proof. unfold fail. destruct (init_error id e). reflexivity. Qed.

(* ---------------- reading the first frame ---------------- *)
Lemma read_in_frame t r1 id res8 p rest e :
  0 <= t < 256 -> 0 <= r1 < 256 -> 0 <= id < 2 ^ 32 -> length res8 = 8%nat -> zlen p <= 65519 ->
  read_in (frame_bytes t r1 id res8 p ++ rest) e = inr (mkFH (16 + zlen p) t r1 id, p).
Proof. intros. unfold read_in. rewrite frame_read_in_frame by assumption. reflexivity. Qed.

Lemma read_message_spec want stream e id payload v params :
  first_frame stream want id payload -> init_payload payload v params ->
  read_message want stream e = (id, inr (mkInit v params)).
Proof.
  intros [r1 [res8 [rest [T [R [I [L8 [Lp ->]]]]]]]] [V [P [junk ->]]].
  unfold read_message. rewrite read_in_frame by assumption. cbn [fh_type fh_id].
  rewrite Z.eqb_refl. cbn [negb]. rewrite r_init_spec by assumption. reflexivity.
Qed.

Lemma em_code_fst r0 : em_code (fst (r_error r0)) = fst (r_u8 r0).
Proof.
  unfold r_error, bindR. destruct (r_u8 r0) as [c ra]. destruct (r_span ra) as [s rb'].
  destruct (r_len16 rb') as [m rc]. reflexivity.
Qed.

Lemma read_error_code payload : bytes_ok payload = true -> code_ok (read_error payload).
Proof.
  intros B. unfold read_error. pose proof (em_code_fst (rb payload)) as E.
  destruct (r_error (rb payload)) as [m r]. cbn [fst] in E. destruct (rerr r); [exact I|].
  cbn. rewrite E. apply (r_uint_range 1 (rb payload) B).
Qed.

Lemma read_message_inv want stream e id r : read_message want stream e = (id, r) -> bytes_ok stream = true ->
  match r with
  | inr m => exists payload, first_frame stream want id payload /\ init_payload payload (im_version m) (im_params m)
  | inl err => code_ok err
  end.
Proof.
  intros E B. unfold read_message, read_in in E.
  destruct (frame_read_in stream) as [[[code h] payload] rest] eqn:F.
  destruct (code =? 0) eqn:C0.
  - assert (code = 0) by lia. subst code.
    destruct (frame_read_in_inv _ _ _ _ F B) as [res8 [Es [L8 [T [R1 [I [Lp [_ Bp]]]]]]]].
    destruct (negb (fh_type h =? want)) eqn:TW.
    + destruct (fh_type h =? c_messageTypeError); inversion E; subst.
      * apply read_error_code, Bp.
      * cbn. unfold c_ErrCodeProtocol. lia.
    + assert (fh_type h = want) by lia.
      destruct (r_init (rb payload)) as [m r'] eqn:RI. destruct (rerr r') eqn:RE; inversion E; subst.
      * exact Logic.I.
      * destruct (r_init_inv _ _ _ RI RE Bp) as [Ep [V [P _]]]. cbn [rrem rb] in Ep.
        exists payload. split.
        -- exists (fh_res1 h), res8, rest. auto 10.
        -- split; [exact V|]. split; [exact P|]. exists (rrem r'). exact Ep.
  - destruct (code =? 1); [inversion E; subst; exact Logic.I|].
    destruct e; [|destruct (_ || _)]; inversion E; subst; exact Logic.I.
Qed.

(* ---------------- inboundHandshake ---------------- *)
Definition init_res_effects (c : hcfg) (id : Z) (pi : peerinfo) : list effect :=
  [Send (DInit t_init_res id protocol_version (init_params c false))
        (init_frame t_init_res id protocol_version (init_params c false));
   Register false pi].

Definition reject_effects (id code : Z) (msg : list Z) : list effect :=
  [Send (DErr id code msg) (error_frame id code msg); CloseSock].

Lemma inbound_accept c stream e pi :
  bytes_ok stream = true -> local_ok c false -> hr_conn (inbound c stream e) = Some pi ->
  exists id params,
    valid_init_req stream id params /\
    identified params (lc_remote c) (pi_hostport pi) (pi_process pi) (pi_ephemeral pi) /\
    inbound c stream e = mkRes (Some pi) None (init_res_effects c id pi).
Proof.
  intros B [LP LL] H. unfold inbound in *.
  destruct (read_message c_messageTypeInitReq stream e) as [id r] eqn:RM.
  pose proof (read_message_inv _ _ _ _ _ RM B) as RI.
  destruct r as [err|req]; [rewrite fail_conn in H; discriminate|].
  destruct RI as [payload [FF IP]].
  destruct (im_version req <? c_CurrentProtocolVersion) eqn:V; [rewrite fail_conn in H; discriminate|].
  destruct (parse_remote_peer (im_params req) (lc_remote c)) as [err|pi0] eqn:PR; [rewrite fail_conn in H; discriminate|].
  rewrite (write_init_ok (init_params c false) c_messageTypeInitRes id LP LL) in * by (unfold c_messageTypeInitRes; lia).
  cbn [hr_conn] in H. inversion H; subst pi0. clear H.
  destruct (parse_ok _ _ _ PR) as [H1 [H2 ID]].
  exists id, (im_params req). split; [|split; [exact ID|reflexivity]].
  exists payload, (im_version req). unfold c_CurrentProtocolVersion in V. unfold protocol_version. auto 10 with zarith.
Qed.

Lemma inbound_reject c stream e :
  bytes_ok stream = true -> hr_conn (inbound c stream e) = None ->
  exists id err msg, code_ok err /\ zlen msg <= 65491 /\
    inbound c stream e = mkRes None (Some (norm_err err)) (reject_effects id (err_code err) msg).
Proof.
  intros B H. unfold inbound in *.
  destruct (read_message c_messageTypeInitReq stream e) as [id r] eqn:RM.
  pose proof (read_message_inv _ _ _ _ _ RM B) as RI.
  assert (F : forall err, code_ok err -> exists id0 err0 msg, code_ok err0 /\ zlen msg <= 65491 /\
             fail [] id err = mkRes None (Some (norm_err err0)) (reject_effects id0 (err_code err0) msg)).
  { intros err C. destruct (fail_spec [] id err C) as [msg [L E]]. exists id, err, msg. auto. }
  destruct r as [err|req]; [apply F, RI|].
  destruct (im_version req <? c_CurrentProtocolVersion) eqn:V.
  { apply F. cbn. unfold c_ErrCodeProtocol. lia. }
  destruct (parse_remote_peer (im_params req) (lc_remote c)) as [err|pi0] eqn:PR.
  { apply F. apply (parse_err _ _ _ PR). }
  destruct (write_message _ _ _) as [err|bytes] eqn:W.
  { apply F. unfold write_message in W. destruct (frame_write _ _ _ _) as [[h p]|]; inversion W. exact Logic.I. }
  cbn [hr_conn] in H. discriminate.
Qed.

Lemma inbound_complete c stream e id params :
  valid_init_req stream id params -> local_ok c false ->
  exists pi, inbound c stream e = mkRes (Some pi) None (init_res_effects c id pi).
Proof.
  intros [payload [v [FF [IP [V [H1 H2]]]]]] [LP LL]. unfold inbound.
  pose proof (read_message_spec c_messageTypeInitReq stream e _ _ _ _ FF IP) as RM. rewrite RM. cbn [im_version im_params].
  replace (v <? c_CurrentProtocolVersion) with false by (unfold protocol_version, c_CurrentProtocolVersion in *; lia).
  destruct (parse_complete params (lc_remote c) H1 H2) as [pi ->].
  rewrite (write_init_ok (init_params c false) c_messageTypeInitRes id LP LL) by (unfold c_messageTypeInitRes; lia).
  exists pi. reflexivity.
Qed.

(* ---------------- outboundHandshake / Connect ---------------- *)
Definition init_req_send (c : hcfg) : effect :=
  Send (DInit t_init_req out_req_id protocol_version (init_params c (lc_hide c)))
       (init_frame t_init_req out_req_id protocol_version (init_params c (lc_hide c))).

Definition connect_effects (c : hcfg) (pi : peerinfo) : list effect :=
  [init_req_send c; Register true pi] ++
  (if bytes_eqb (lc_remote c) (pi_hostport pi) then [] else [AddToPeer (lc_remote c)]).

Lemma outbound_accept c stream e pi :
  bytes_ok stream = true -> local_ok c (lc_hide c) -> hr_conn (outbound c stream e) = Some pi ->
  exists params,
    valid_init_res out_req_id stream params /\
    identified params (lc_remote c) (pi_hostport pi) (pi_process pi) (pi_ephemeral pi) /\
    outbound c stream e = mkRes (Some pi) None [init_req_send c; Register true pi].
Proof.
  intros B [LP LL] H. unfold outbound in *.
  rewrite (write_init_ok (init_params c (lc_hide c)) c_messageTypeInitReq out_req_id LP LL) in * by (unfold c_messageTypeInitReq; lia).
  destruct (read_message c_messageTypeInitRes stream e) as [id r] eqn:RM.
  pose proof (read_message_inv _ _ _ _ _ RM B) as RI.
  destruct r as [err|res]; [rewrite fail_conn in H; discriminate|].
  destruct RI as [payload [FF IP]].
  destruct (negb (id =? out_req_id)) eqn:I; [rewrite fail_conn in H; discriminate|].
  destruct (negb (im_version res =? c_CurrentProtocolVersion)) eqn:V; [rewrite fail_conn in H; discriminate|].
  destruct (parse_remote_peer (im_params res) (lc_remote c)) as [err|pi0] eqn:PR; [rewrite fail_conn in H; discriminate|].
  cbn [hr_conn] in H. inversion H; subst pi0. clear H.
  destruct (parse_ok _ _ _ PR) as [H1 [H2 ID]].
  assert (id = out_req_id) by lia. subst id.
  assert (EV : im_version res = protocol_version) by (unfold protocol_version, c_CurrentProtocolVersion in *; lia).
  exists (im_params res). split; [|split; [exact ID|reflexivity]].
  exists payload. rewrite <- EV. auto.
Qed.

Lemma outbound_reject c stream e :
  bytes_ok stream = true -> hr_conn (outbound c stream e) = None ->
  exists pre err msg, code_ok err /\ zlen msg <= 65491 /\
    (pre = [] \/ exists b, pre = [Send (DInit t_init_req out_req_id protocol_version (init_params c (lc_hide c))) b]) /\
    outbound c stream e = mkRes None (Some (norm_err err)) (pre ++ reject_effects out_req_id (err_code err) msg).
Proof.
  intros B H. unfold outbound in *.
  assert (F : forall pre err, code_ok err ->
             (pre = [] \/ exists b, pre = [Send (DInit t_init_req out_req_id protocol_version (init_params c (lc_hide c))) b]) ->
             exists pre0 err0 msg, code_ok err0 /\ zlen msg <= 65491 /\
             (pre0 = [] \/ exists b, pre0 = [Send (DInit t_init_req out_req_id protocol_version (init_params c (lc_hide c))) b]) /\
             fail pre out_req_id err = mkRes None (Some (norm_err err0)) (pre0 ++ reject_effects out_req_id (err_code err0) msg)).
  { intros pre err C P. destruct (fail_spec pre out_req_id err C) as [msg [L E]]. exists pre, err, msg. auto. }
  destruct (write_message _ _ _) as [err|bytes] eqn:W.
  { apply F; [|left; reflexivity]. unfold write_message in W. destruct (frame_write _ _ _ _) as [[h p]|]; inversion W. exact Logic.I. }
  destruct (read_message c_messageTypeInitRes stream e) as [id r] eqn:RM.
  pose proof (read_message_inv _ _ _ _ _ RM B) as RI.
  assert (P : [Send (DInit c_messageTypeInitReq out_req_id c_CurrentProtocolVersion (init_params c (lc_hide c))) bytes] = [] \/
              exists b, [Send (DInit c_messageTypeInitReq out_req_id c_CurrentProtocolVersion (init_params c (lc_hide c))) bytes]
                        = [Send (DInit t_init_req out_req_id protocol_version (init_params c (lc_hide c))) b]).
  { right. exists bytes. reflexivity. }
  destruct r as [err|res]; [apply F; [exact RI|exact P]|].
  destruct (negb (id =? out_req_id)) eqn:I.
  { apply F; [cbn; unfold c_ErrCodeProtocol; lia|exact P]. }
  destruct (negb (im_version res =? c_CurrentProtocolVersion)) eqn:V.
  { apply F; [cbn; unfold c_ErrCodeProtocol; lia|exact P]. }
  destruct (parse_remote_peer (im_params res) (lc_remote c)) as [err|pi0] eqn:PR.
  { apply F; [apply (parse_err _ _ _ PR)|exact P]. }
  cbn [hr_conn] in H. discriminate.
Qed.

Lemma outbound_complete c stream e params :
  valid_init_res out_req_id stream params -> local_ok c (lc_hide c) ->
  exists pi, outbound c stream e = mkRes (Some pi) None [init_req_send c; Register true pi].
Proof.
  intros [payload [FF [IP [H1 H2]]]] [LP LL]. unfold outbound.
  rewrite (write_init_ok (init_params c (lc_hide c)) c_messageTypeInitReq out_req_id LP LL) by (unfold c_messageTypeInitReq; lia).
  pose proof (read_message_spec c_messageTypeInitRes stream e _ _ _ _ FF IP) as RM. rewrite RM. cbn [im_version im_params].
  rewrite Z.eqb_refl. cbn [negb].
  replace (protocol_version =? c_CurrentProtocolVersion) with true by reflexivity. cbn [negb].
  destruct (parse_complete params (lc_remote c) H1 H2) as [pi ->].
  exists pi. reflexivity.
Qed.

Lemma connect_conn c stream e : hr_conn (connect c stream e) = hr_conn (outbound c stream e).
Proof.
  unfold connect. destruct (hr_conn (outbound c stream e)) as [pi|] eqn:H; [|exact H].
  destruct (negb _); [reflexivity|exact H].
Qed.

Lemma connect_accept c stream e pi :
  bytes_ok stream = true -> local_ok c (lc_hide c) -> hr_conn (connect c stream e) = Some pi ->
  exists params,
    valid_init_res out_req_id stream params /\
    identified params (lc_remote c) (pi_hostport pi) (pi_process pi) (pi_ephemeral pi) /\
    connect c stream e = mkRes (Some pi) None (connect_effects c pi).
Proof.
  intros B L H. rewrite connect_conn in H.
  destruct (outbound_accept c stream e pi B L H) as [params [V [ID E]]].
  exists params. split; [exact V|]. split; [exact ID|].
  unfold connect, connect_effects. rewrite E. cbn [hr_conn hr_err hr_eff].
  destruct (bytes_eqb (lc_remote c) (pi_hostport pi)); reflexivity.
Qed.

Lemma connect_reject c stream e :
  bytes_ok stream = true -> hr_conn (connect c stream e) = None ->
  exists pre err msg, code_ok err /\ zlen msg <= 65491 /\
    (pre = [] \/ exists b, pre = [Send (DInit t_init_req out_req_id protocol_version (init_params c (lc_hide c))) b]) /\
    connect c stream e = mkRes None (Some (norm_err err)) (pre ++ reject_effects out_req_id (err_code err) msg).
Proof.
  intros B H. rewrite connect_conn in H.
  destruct (outbound_reject c stream e B H) as [pre [err [msg [C [L [P E]]]]]].
  exists pre, err, msg. split; [exact C|]. split; [exact L|]. split; [exact P|].
  unfold connect. rewrite H. exact E.
Qed.

Lemma connect_complete c stream e params :
  valid_init_res out_req_id stream params -> local_ok c (lc_hide c) ->
  exists pi, connect c stream e = mkRes (Some pi) None (connect_effects c pi).
Proof.
  intros V L. destruct (outbound_complete c stream e params V L) as [pi E]. exists pi.
  unfold connect, connect_effects. rewrite E. cbn [hr_conn hr_err hr_eff].
  destruct (bytes_eqb (lc_remote c) (pi_hostport pi)); reflexivity.
Qed.

(* ---------------- one well-formed first frame: which fields decide ---------------- *)
Lemma inbound_classify c e t r1 id res8 v params junk rest :
  0 <= t < 256 -> 0 <= r1 < 256 -> 0 <= id < 2 ^ 32 -> length res8 = 8%nat ->
  0 <= v < 65536 -> params_ok params -> zlen (s_init v params ++ junk) <= 65519 -> local_ok c false ->
  (hr_conn (inbound c (frame_bytes t r1 id res8 (s_init v params ++ junk) ++ rest) e) <> None <->
   t = t_init_req /\ protocol_version <= v /\ has_param k_host_port params /\ has_param k_process_name params).
Proof.
  intros T R I L8 V P LP LO. set (stream := frame_bytes t r1 id res8 (s_init v params ++ junk) ++ rest).
  assert (FF : first_frame stream t id (s_init v params ++ junk)).
  { exists r1, res8, rest. auto 10. }
  assert (IP : init_payload (s_init v params ++ junk) v params).
  { split; [exact V|]. split; [exact P|]. exists junk. reflexivity. }
  split.
  - intros H. unfold inbound in H.
    destruct (Z.eq_dec t t_init_req) as [Et|Nt].
    + subst t. pose proof (read_message_spec c_messageTypeInitReq stream e _ _ _ _ FF IP) as RM. rewrite RM in H.
      cbn [im_version im_params] in H.
      destruct (v <? c_CurrentProtocolVersion) eqn:Vv; [rewrite fail_conn in H; congruence|].
      destruct (parse_remote_peer params (lc_remote c)) as [err|pi] eqn:PR; [rewrite fail_conn in H; congruence|].
      destruct (parse_ok _ _ _ PR) as [H1 [H2 _]].
      unfold protocol_version, c_CurrentProtocolVersion in *. auto with zarith.
    + exfalso. apply H. unfold read_message. unfold stream. rewrite read_in_frame by assumption. cbn [fh_type fh_id].
      replace (t =? c_messageTypeInitReq) with false by (unfold t_init_req, c_messageTypeInitReq in *; lia). cbn [negb].
      destruct (t =? c_messageTypeError); apply fail_conn.
  - intros [Et [Vv [H1 H2]]]. subst t.
    destruct (inbound_complete c stream e id params) as [pi E]; [|exact LO|rewrite E; discriminate].
    exists (s_init v params ++ junk), v. auto.
Qed.

Lemma connect_classify c e t r1 id res8 v params junk rest :
  0 <= t < 256 -> 0 <= r1 < 256 -> 0 <= id < 2 ^ 32 -> length res8 = 8%nat ->
  0 <= v < 65536 -> params_ok params -> zlen (s_init v params ++ junk) <= 65519 -> local_ok c (lc_hide c) ->
  (hr_conn (connect c (frame_bytes t r1 id res8 (s_init v params ++ junk) ++ rest) e) <> None <->
   t = t_init_res /\ id = out_req_id /\ v = protocol_version /\
   has_param k_host_port params /\ has_param k_process_name params).
Proof.
  intros T R I L8 V P LP LO. set (stream := frame_bytes t r1 id res8 (s_init v params ++ junk) ++ rest).
  assert (FF : first_frame stream t id (s_init v params ++ junk)).
  { exists r1, res8, rest. auto 10. }
  assert (IP : init_payload (s_init v params ++ junk) v params).
  { split; [exact V|]. split; [exact P|]. exists junk. reflexivity. }
  rewrite connect_conn. split.
  - intros H. unfold outbound in H. destruct LO as [LOP LOL].
    rewrite (write_init_ok (init_params c (lc_hide c)) c_messageTypeInitReq out_req_id LOP LOL) in H by (unfold c_messageTypeInitReq; lia).
    destruct (Z.eq_dec t t_init_res) as [Et|Nt].
    + subst t. pose proof (read_message_spec c_messageTypeInitRes stream e _ _ _ _ FF IP) as RM. rewrite RM in H.
      cbn [im_version im_params] in H.
      destruct (negb (id =? out_req_id)) eqn:Ii; [rewrite fail_conn in H; congruence|].
      destruct (negb (v =? c_CurrentProtocolVersion)) eqn:Vv; [rewrite fail_conn in H; congruence|].
      destruct (parse_remote_peer params (lc_remote c)) as [err|pi] eqn:PR; [rewrite fail_conn in H; congruence|].
      destruct (parse_ok _ _ _ PR) as [H1 [H2 _]].
      unfold protocol_version, c_CurrentProtocolVersion in *. repeat split; auto; lia.
    + exfalso. apply H. unfold read_message. unfold stream. rewrite read_in_frame by assumption. cbn [fh_type fh_id].
      replace (t =? c_messageTypeInitRes) with false by (unfold t_init_res, c_messageTypeInitRes in *; lia). cbn [negb].
      destruct (t =? c_messageTypeError); apply fail_conn.
  - intros [Et [Ei [Ev [H1 H2]]]]. subst t id v.
    destruct (outbound_complete c stream e params) as [pi E]; [|exact LO|rewrite E; discriminate].
    exists (s_init protocol_version params ++ junk). auto.
Qed.

(* ---------------- truncated first frame ---------------- *)
Definition trunc_code (pre : list Z) (e : ending) : Z :=
  match e with
  | Silence => e_timeout
  | PeerClosed => if (zlen pre =? 0) || (zlen pre =? 16) then e_network else e_unexpected
  end.

Lemma read_message_cut want t r1 id res8 p pre e :
  0 <= t < 256 -> 0 <= r1 < 256 -> 0 <= id < 2 ^ 32 -> length res8 = 8%nat -> zlen p <= 65519 ->
  strict_prefix pre (frame_bytes t r1 id res8 p) ->
  exists err, read_message want pre e = (0, inl err) /\ code_ok err /\ err_code err = trunc_code pre e.
Proof.
  intros T R I L8 LP SP. pose proof (frame_read_in_cut t r1 id res8 p pre T R I L8 LP SP) as C.
  unfold read_message, read_in. destruct (frame_read_in pre) as [[[code h] pl] rs]. cbn [fst] in C. subst code.
  change (2 =? 0) with false. change (2 =? 1) with false. cbn iota. unfold trunc_code, c_FrameHeaderSize. destruct e.
  - exists HTimeout. repeat split.
  - destruct ((zlen pre =? 0) || (zlen pre =? 16)); [exists HEOF|exists HUnexpectedEOF]; repeat split.
Qed.

Lemma inbound_truncated c e t r1 id res8 p pre :
  0 <= t < 256 -> 0 <= r1 < 256 -> 0 <= id < 2 ^ 32 -> length res8 = 8%nat -> zlen p <= 65519 ->
  strict_prefix pre (frame_bytes t r1 id res8 p) ->
  exists err msg, inbound c pre e = mkRes None (Some err) (reject_effects 0 (trunc_code pre e) msg).
Proof.
  intros T R I L8 LP SP.
  destruct (read_message_cut c_messageTypeInitReq t r1 id res8 p pre e T R I L8 LP SP) as [err [RM [C EC]]].
  unfold inbound. rewrite RM. destruct (fail_spec [] 0 err C) as [msg [_ E]]. rewrite E, EC.
  exists (norm_err err), msg. reflexivity.
Qed.

Lemma connect_truncated c e t r1 id res8 p pre :
  0 <= t < 256 -> 0 <= r1 < 256 -> 0 <= id < 2 ^ 32 -> length res8 = 8%nat -> zlen p <= 65519 ->
  strict_prefix pre (frame_bytes t r1 id res8 p) -> local_ok c (lc_hide c) ->
  exists err msg, connect c pre e =
    mkRes None (Some err) ([init_req_send c] ++ reject_effects out_req_id (trunc_code pre e) msg).
Proof.
  intros T R I L8 LP SP [LOP LOL].
  destruct (read_message_cut c_messageTypeInitRes t r1 id res8 p pre e T R I L8 LP SP) as [err [RM [C EC]]].
  unfold connect, outbound.
  rewrite (write_init_ok (init_params c (lc_hide c)) c_messageTypeInitReq out_req_id LOP LOL) by (unfold c_messageTypeInitReq; lia).
  rewrite RM.
  destruct (fail_spec [Send (DInit c_messageTypeInitReq out_req_id c_CurrentProtocolVersion (init_params c (lc_hide c)))
                            (init_frame c_messageTypeInitReq out_req_id protocol_version (init_params c (lc_hide c)))]
                      out_req_id err C) as [msg [_ E]].
  rewrite E, EC. cbn [hr_conn]. exists (norm_err err), msg. reflexivity.
Qed.

(* ---------------- the channel's books over a history ---------------- *)
Definition att_valid (a : attempt) : Prop :=
  if at_out a then exists params, valid_init_res out_req_id (at_stream a) params
  else exists id params, valid_init_req (at_stream a) id params.

Definition att_ok (a : attempt) : Prop :=
  bytes_ok (at_stream a) = true /\ local_ok (at_cfg a) (if at_out a then lc_hide (at_cfg a) else false).

Lemma apply_reject ch o pre id code msg :
  (pre = [] \/ exists d b, pre = [Send d b]) ->
  fold_left (fun c e => apply_effect c o e) (pre ++ reject_effects id code msg) ch =
  mkChan (ch_conns ch) (ch_peerconns ch) (ch_closed ch + 1).
Proof. intros [->|[d [b ->]]]; reflexivity. Qed.

Lemma step_invalid ch a : att_ok a -> ~ att_valid a ->
  chan_step ch a = mkChan (ch_conns ch) (ch_peerconns ch) (ch_closed ch + 1).
Proof.
  intros [B L] NV. unfold chan_step, handshake, att_valid in *. destruct (at_out a).
  - destruct (hr_conn (connect (at_cfg a) (at_stream a) (at_end a))) as [pi|] eqn:H.
    + exfalso. apply NV. destruct (connect_accept _ _ _ _ B L H) as [params [V _]]. exists params. exact V.
    + destruct (connect_reject _ _ _ B H) as [pre [err [msg [_ [_ [P E]]]]]]. rewrite E. cbn [hr_eff].
      apply apply_reject. destruct P as [->|[b ->]]; [left; reflexivity|right; eauto].
  - destruct (hr_conn (inbound (at_cfg a) (at_stream a) (at_end a))) as [pi|] eqn:H.
    + exfalso. apply NV. destruct (inbound_accept _ _ _ _ B L H) as [id [params [V _]]]. exists id, params. exact V.
    + destruct (inbound_reject _ _ _ B H) as [id [err [msg [_ [_ E]]]]]. rewrite E. cbn [hr_eff].
      apply (apply_reject ch false []). left. reflexivity.
Qed.

Lemma step_valid ch a : att_ok a -> att_valid a ->
  exists pi extra,
    chan_step ch a = mkChan (ch_conns ch ++ [(at_out a, pi)])
                            (ch_peerconns ch ++ (pi_hostport pi, at_out a) :: extra) (ch_closed ch) /\
    (extra = [] \/ (at_out a = true /\ extra = [(lc_remote (at_cfg a), true)] /\ lc_remote (at_cfg a) <> pi_hostport pi)) /\
    exists params, identified params (lc_remote (at_cfg a)) (pi_hostport pi) (pi_process pi) (pi_ephemeral pi).
Proof.
  intros [B L] V. unfold chan_step, handshake, att_valid in *. destruct (at_out a).
  - destruct V as [params V]. destruct (connect_complete _ _ (at_end a) _ V L) as [pi E].
    assert (H : hr_conn (connect (at_cfg a) (at_stream a) (at_end a)) = Some pi) by (rewrite E; reflexivity).
    destruct (connect_accept _ _ _ _ B L H) as [params' [_ [ID _]]].
    rewrite E. cbn [hr_eff]. unfold connect_effects.
    destruct (bytes_eqb (lc_remote (at_cfg a)) (pi_hostport pi)) eqn:Q.
    + exists pi, []. split; [reflexivity|]. split; [left; reflexivity|exists params'; exact ID].
    + exists pi, [(lc_remote (at_cfg a), true)]. split; [cbn; rewrite <- app_assoc; reflexivity|].
      split; [|exists params'; exact ID]. right. repeat split. intros X. apply bytes_eqb_eq in X. congruence.
  - destruct V as [id [params V]]. destruct (inbound_complete _ _ (at_end a) _ _ V L) as [pi E].
    assert (H : hr_conn (inbound (at_cfg a) (at_stream a) (at_end a)) = Some pi) by (rewrite E; reflexivity).
    destruct (inbound_accept _ _ _ _ B L H) as [id' [params' [_ [ID _]]]].
    rewrite E. cbn [hr_eff]. exists pi, []. split; [reflexivity|]. split; [left; reflexivity|exists params'; exact ID].
Qed.

Lemma att_valid_dec a : att_ok a -> att_valid a \/ ~ att_valid a.
Proof.
  intros [B L]. unfold att_valid. destruct (at_out a).
  - destruct (hr_conn (connect (at_cfg a) (at_stream a) (at_end a))) as [pi|] eqn:H.
    + left. destruct (connect_accept _ _ _ _ B L H) as [params [V _]]. exists params. exact V.
    + right. intros [params V]. destruct (connect_complete _ _ (at_end a) _ V L) as [pi E]. rewrite E in H. discriminate.
  - destruct (hr_conn (inbound (at_cfg a) (at_stream a) (at_end a))) as [pi|] eqn:H.
    + left. destruct (inbound_accept _ _ _ _ B L H) as [id [params [V _]]]. exists id, params. exact V.
    + right. intros [id [params V]]. destruct (inbound_complete _ _ (at_end a) _ _ V L) as [pi E]. rewrite E in H. discriminate.
Qed.

Inductive count_valid : list attempt -> Z -> Prop :=
| cv_nil : count_valid [] 0
| cv_yes a l n : att_valid a -> count_valid l n -> count_valid (a :: l) (n + 1)
| cv_no a l n : ~ att_valid a -> count_valid l n -> count_valid (a :: l) n.

Lemma history_gen atts : Forall att_ok atts -> forall ch,
  exists n, count_valid atts n /\ 0 <= n <= zlen atts /\
    let ch' := fold_left chan_step atts ch in
    zlen (ch_conns ch') = zlen (ch_conns ch) + n /\
    ch_closed ch' = ch_closed ch + (zlen atts - n) /\
    zlen (ch_peerconns ch) + n <= zlen (ch_peerconns ch') <= zlen (ch_peerconns ch) + 2 * n.
Proof.
  induction 1 as [|a atts OK _ IH]; intros ch.
  - exists 0. split; [constructor|]. cbn [fold_left]. change (zlen (@nil attempt)) with 0. cbn zeta. lia.
  - cbn [fold_left]. destruct (att_valid_dec a OK) as [V|NV].
    + destruct (step_valid ch a OK V) as [pi [extra [E [X _]]]].
      destruct (IH (chan_step ch a)) as [n [CV [Rn [A1 [A2 A3]]]]].
      assert (C1 : zlen (ch_conns (chan_step ch a)) = zlen (ch_conns ch) + 1)
        by (rewrite E; cbn [ch_conns]; rewrite zlen_app; reflexivity).
      assert (C2 : ch_closed (chan_step ch a) = ch_closed ch) by (rewrite E; reflexivity).
      assert (C3 : zlen (ch_peerconns (chan_step ch a)) = zlen (ch_peerconns ch) + 1 + zlen extra)
        by (rewrite E; cbn [ch_peerconns]; rewrite zlen_app, zlen_cons; lia).
      assert (0 <= zlen extra <= 1).
      { destruct X as [->|[_ [-> _]]]; unfold zlen; cbn; lia. }
      exists (n + 1). split; [constructor; assumption|]. rewrite zlen_cons. split; [lia|]. cbn zeta in *. lia.
    + rewrite (step_invalid ch a OK NV).
      destruct (IH (mkChan (ch_conns ch) (ch_peerconns ch) (ch_closed ch + 1))) as [n [CV [Rn [A1 [A2 A3]]]]].
      exists n. split; [constructor; assumption|]. rewrite zlen_cons. split; [lia|]. cbn zeta in *.
      cbn [ch_conns ch_peerconns ch_closed] in A1, A2, A3. lia.
Qed.

Lemma history atts : Forall att_ok atts ->
  exists n, count_valid atts n /\
    zlen (ch_conns (run_channel atts)) = n /\
    ch_closed (run_channel atts) = zlen atts - n /\
    n <= zlen (ch_peerconns (run_channel atts)) <= 2 * n.
Proof.
  intros OK. destruct (history_gen atts OK chan0) as [n [CV [_ [A1 [A2 A3]]]]].
  exists n. unfold run_channel. cbn zeta in *. cbn [chan0 ch_conns ch_peerconns ch_closed] in *.
  unfold zlen at 2 in A1. unfold zlen at 1 4 in A3. cbn [length] in *. split; [exact CV|]. lia.
Qed.

(* ---------------- statements as used by Props/C13.v ---------------- *)
Lemma inbound_iff c stream e : bytes_ok stream = true -> local_ok c false ->
  (hr_conn (inbound c stream e) <> None <-> exists id params, valid_init_req stream id params).
Proof.
  intros B L. split.
  - intros H. destruct (hr_conn (inbound c stream e)) as [pi|] eqn:E; [|congruence].
    destruct (inbound_accept c stream e pi B L E) as [id [params [V _]]]. exists id, params. exact V.
  - intros [id [params V]]. destruct (inbound_complete c stream e id params V L) as [pi E]. rewrite E. discriminate.
Qed.

Lemma connect_iff c stream e : bytes_ok stream = true -> local_ok c (lc_hide c) ->
  (hr_conn (connect c stream e) <> None <-> exists params, valid_init_res out_req_id stream params).
Proof.
  intros B L. split.
  - intros H. destruct (hr_conn (connect c stream e)) as [pi|] eqn:E; [|congruence].
    destruct (connect_accept c stream e pi B L E) as [params [V _]]. exists params. exact V.
  - intros [params V]. destruct (connect_complete c stream e params V L) as [pi E]. rewrite E. discriminate.
Qed.

Lemma inbound_accept_effects c stream e pi :
  bytes_ok stream = true -> local_ok c false -> hr_conn (inbound c stream e) = Some pi ->
  exists id params,
    valid_init_req stream id params /\
    identified params (lc_remote c) (pi_hostport pi) (pi_process pi) (pi_ephemeral pi) /\
    hr_err (inbound c stream e) = None /\
    hr_eff (inbound c stream e) =
      [Send (DInit t_init_res id protocol_version (init_params c false))
            (init_frame t_init_res id protocol_version (init_params c false));
       Register false pi].
Proof.
  intros B L H. destruct (inbound_accept c stream e pi B L H) as [id [params [V [ID E]]]].
  exists id, params. rewrite E. auto.
Qed.

Lemma connect_accept_effects c stream e pi :
  bytes_ok stream = true -> local_ok c (lc_hide c) -> hr_conn (connect c stream e) = Some pi ->
  exists params,
    valid_init_res out_req_id stream params /\
    identified params (lc_remote c) (pi_hostport pi) (pi_process pi) (pi_ephemeral pi) /\
    hr_err (connect c stream e) = None /\
    hr_eff (connect c stream e) =
      [Send (DInit t_init_req out_req_id protocol_version (init_params c (lc_hide c)))
            (init_frame t_init_req out_req_id protocol_version (init_params c (lc_hide c)));
       Register true pi] ++
      (if bytes_eqb (lc_remote c) (pi_hostport pi) then [] else [AddToPeer (lc_remote c)]).
Proof.
  intros B L H. destruct (connect_accept c stream e pi B L H) as [params [V [ID E]]].
  exists params. rewrite E. auto.
Qed.

Lemma inbound_reject_effects c stream e :
  bytes_ok stream = true -> hr_conn (inbound c stream e) = None ->
  exists id code msg, 0 <= code < 256 /\ slen msg <= 65491 /\
    hr_err (inbound c stream e) <> None /\
    hr_eff (inbound c stream e) = [Send (DErr id code msg) (error_frame id code msg); CloseSock].
Proof.
  intros B H. destruct (inbound_reject c stream e B H) as [id [err [msg [C [L E]]]]].
  exists id, (err_code err), msg. rewrite E. cbn [hr_err hr_eff].
  split; [apply err_code_range, C|]. split; [exact L|]. split; [discriminate|reflexivity].
Qed.

Lemma connect_reject_effects c stream e :
  bytes_ok stream = true -> hr_conn (connect c stream e) = None ->
  exists pre code msg, 0 <= code < 256 /\ slen msg <= 65491 /\
    (pre = [] \/ exists b, pre = [Send (DInit t_init_req out_req_id protocol_version (init_params c (lc_hide c))) b]) /\
    hr_err (connect c stream e) <> None /\
    hr_eff (connect c stream e) = pre ++ [Send (DErr out_req_id code msg) (error_frame out_req_id code msg); CloseSock].
Proof.
  intros B H. destruct (connect_reject c stream e B H) as [pre [err [msg [C [L [P E]]]]]].
  exists pre, (err_code err), msg. rewrite E. cbn [hr_err hr_eff].
  split; [apply err_code_range, C|]. split; [exact L|]. split; [exact P|]. split; [discriminate|reflexivity].
Qed.

Lemma inbound_truncated_effects c e t r1 id res8 p pre :
  0 <= t < 256 -> 0 <= r1 < 256 -> 0 <= id < 2 ^ 32 -> length res8 = 8%nat -> slen p <= 65519 ->
  strict_prefix pre (frame_bytes t r1 id res8 p) ->
  hr_conn (inbound c pre e) = None /\
  exists msg, hr_eff (inbound c pre e) =
    [Send (DErr 0 (trunc_code pre e) msg) (error_frame 0 (trunc_code pre e) msg); CloseSock].
Proof.
  intros T R I L8 LP SP. destruct (inbound_truncated c e t r1 id res8 p pre T R I L8 LP SP) as [err [msg E]].
  rewrite E. split; [reflexivity|]. exists msg. reflexivity.
Qed.

Lemma connect_truncated_effects c e t r1 id res8 p pre :
  0 <= t < 256 -> 0 <= r1 < 256 -> 0 <= id < 2 ^ 32 -> length res8 = 8%nat -> slen p <= 65519 ->
  strict_prefix pre (frame_bytes t r1 id res8 p) -> local_ok c (lc_hide c) ->
  hr_conn (connect c pre e) = None /\ hr_err (connect c pre e) <> None /\
  exists msg, hr_eff (connect c pre e) =
    [Send (DInit t_init_req out_req_id protocol_version (init_params c (lc_hide c)))
          (init_frame t_init_req out_req_id protocol_version (init_params c (lc_hide c)));
     Send (DErr out_req_id (trunc_code pre e) msg) (error_frame out_req_id (trunc_code pre e) msg); CloseSock].
Proof.
  intros T R I L8 LP SP L. destruct (connect_truncated c e t r1 id res8 p pre T R I L8 LP SP L) as [err [msg E]].
  rewrite E. split; [reflexivity|]. split; [discriminate|]. exists msg. reflexivity.
Qed.

Lemma step_valid_books ch a : att_ok a -> att_valid a ->
  exists pi extra params,
    chan_step ch a = mkChan (ch_conns ch ++ [(at_out a, pi)])
                            (ch_peerconns ch ++ (pi_hostport pi, at_out a) :: extra) (ch_closed ch) /\
    (extra = [] \/ (at_out a = true /\ extra = [(lc_remote (at_cfg a), true)] /\ lc_remote (at_cfg a) <> pi_hostport pi)) /\
    identified params (lc_remote (at_cfg a)) (pi_hostport pi) (pi_process pi) (pi_ephemeral pi).
Proof.
  intros OK V. destruct (step_valid ch a OK V) as [pi [extra [E [X [params ID]]]]]. exists pi, extra, params. auto.
Qed.

Lemma init_deadline_spec now : (forall d, init_deadline (Some d) now = d) /\ init_deadline None now = now + 5000000000.
Proof. split; reflexivity. Qed.
