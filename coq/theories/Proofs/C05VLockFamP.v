(* Proofs for property C05 (b), scenario families of Model/C05VLockFam.v (sub c05vlock of engine
   cutbegin): over the tables regenerated from the Go source, every call of every scenario of
   the two families -- a caller giving up on a stalled connection whose cancel notification
   does not fit into the send buffer, and a connection that dies while it is being registered
   with its peer -- has control back by its bound.  The proof goes through the generated
   tables only: each lock acquisition on those paths must be a site of the lock-site table on a
   plain mutex, the whole lock-program table must pass the checker, and each wait must offer a
   deadline exit; an edit of the library that breaks one of these breaks this file. *)
From Coq Require Import ZArith List Bool Lia ZifyBool.
From Verif Require Import Base.Wrap Base.Bytes Base.Wire Gen.GenConsts Gen.GenWaitSites Gen.GenLockProgs
  Spec.WaitSpec Spec.LockProgSpec Model.CallPath Model.CallScen Model.LockProg Model.CutBegin Model.C05VLockFam
  Proofs.CallPathP Proofs.LockProgP.
Import ListNotations.
Local Open Scope Z_scope.

Definition c05v_step_ok (s : pstep) : bool := p_ready s || has_deadline_exitb (p_site s).

Lemma c05v_steps_ok path : forallb c05v_step_ok path = true ->
  Forall (fun s => p_ready s = true \/ has_deadline_exit (p_site s)) path.
Proof.
  intros H. apply Forall_forall. intros s Hs. rewrite forallb_forall in H. specialize (H s Hs).
  unfold c05v_step_ok in H. apply orb_true_iff in H. destruct H as [H|H]; [left; exact H|right].
  apply has_deadline_exitb_iff. exact H.
Qed.

Lemma c05v_back_ok class dc bound path : 0 <= dc -> dc <= bound -> forallb c05v_step_ok path = true ->
  c05v_back class dc bound path = [class; 1].
Proof.
  intros H0 Hb H. unfold c05v_back.
  destruct (path_by_deadline dc dc (Z.le_refl dc) path (c05v_steps_ok path H) 0) as (t & E & L & U).
  rewrite E. replace (t <=? bound) with true by lia. reflexivity.
Qed.

(* the steps the scenario paths are made of, each checked against the generated tables *)
Lemma c05v_lock_steps : forallb c05v_step_ok
  [lock_in n_c05v_addconn; lock_in n_c05v_statelock; lock_in n_c05v_stopex; lock_in n_getconn; lock_in n_readstate;
   lock_in n_newex; lock_in n_rmex] = true.
Proof. vm_compute. reflexivity. Qed.

Lemma c05v_wait_steps e1 e2 e3 : forallb c05v_step_ok
  [c05v_wait n_flush e1; c05v_wait n_recv e2; w_wait n_recv e3; w_ready n_lock; w_ready n_dial; w_ready n_hs_write;
   w_ready n_hs_read; w_ready n_flush] = true.
Proof. vm_compute. reflexivity. Qed.

Ltac c05v_path :=
  repeat match goal with
  | |- context [if ?b then _ else _] => destruct b
  end;
  vm_compute; reflexivity.

Lemma c05v_giver_flush sc mode d tc : 0 <= d -> 0 <= tc -> c05v_giver n_flush false sc mode d tc = [1; 1].
Proof.
  intros Hd Ht. unfold c05v_giver. apply c05v_back_ok; [destruct (mode =? 0); lia|lia|].
  unfold c05v_fail_path. c05v_path.
Qed.

Lemma c05v_giver_recv sc mode d tc : 0 <= d -> 0 <= tc -> c05v_giver n_recv true sc mode d tc = [1; 1].
Proof.
  intros Hd Ht. unfold c05v_giver. apply c05v_back_ok; [destruct (mode =? 0); lia|lia|].
  unfold c05v_fail_path. c05v_path.
Qed.

Lemma c05v_other_flush sc mode d tc : 0 <= d -> c05v_other n_flush false sc mode d tc = [1; 1].
Proof. intros Hd. unfold c05v_other. apply c05v_back_ok; [lia|lia|]. c05v_path. Qed.

Lemma c05v_other_recv sc mode d tc : 0 <= d -> c05v_other n_recv true sc mode d tc = [1; 1].
Proof. intros Hd. unfold c05v_other. apply c05v_back_ok; [lia|lia|]. c05v_path. Qed.

Lemma c05v_after_ok failed d : 0 <= d -> c05v_after failed d = [0; 1].
Proof. intros Hd. unfold c05v_after. apply c05v_back_ok; [lia|lia|]. unfold c05v_connect. c05v_path. Qed.

Lemma c05v_first_ok d : 0 <= d -> c05v_first d = [0; 1].
Proof. intros Hd. unfold c05v_first. apply c05v_back_ok; [lia|lia|]. unfold c05v_connect. vm_compute. reflexivity. Qed.

(* well-formed scenario inputs of the two families: times are not negative *)
Definition c05v_wf (c : list Z) : Prop :=
  match c with
  | [3; _; _; _; _; _; dx; dw; dz; tc] => 0 <= dx /\ 0 <= dw /\ 0 <= dz /\ 0 <= tc
  | 4 :: _ :: _ :: _ :: _ :: d0 :: dzs => 0 <= d0 /\ Forall (fun d => 0 <= d) dzs
  | _ => False
  end.

Definition c05v_back_in_time (r : list Z) : Prop := exists class, (class = 0 \/ class = 1) /\ r = [class; 1].

Lemma c05v_stall_ok sc who mode hasw dx dw dz tc : 0 <= dx -> 0 <= dw -> 0 <= dz -> 0 <= tc ->
  Forall c05v_back_in_time (c05v_stall sc who mode hasw dx dw dz tc).
Proof.
  intros Hx Hw Hz Ht. unfold c05v_stall. apply Forall_cons.
  - exists 1. split; [right; reflexivity|]. destruct (who =? 0); [apply c05v_giver_flush|apply c05v_other_flush]; assumption.
  - apply Forall_app. split.
    + destruct (hasw =? 1); [|apply Forall_nil]. apply Forall_cons; [|apply Forall_nil].
      exists 1. split; [right; reflexivity|]. destruct (who =? 1); [apply c05v_giver_recv|apply c05v_other_recv]; assumption.
    + apply Forall_cons; [|apply Forall_nil]. exists 0. split; [left; reflexivity|]. apply c05v_after_ok. exact Hz.
Qed.

Lemma c05v_reg_ok d0 dzs : 0 <= d0 -> Forall (fun d => 0 <= d) dzs -> Forall c05v_back_in_time (c05v_reg d0 dzs).
Proof.
  intros H0 Hz. unfold c05v_reg. apply Forall_cons.
  - exists 0. split; [left; reflexivity|]. apply c05v_first_ok. exact H0.
  - apply Forall_forall. intros r Hr. apply in_map_iff in Hr. destruct Hr as (d & <- & Hd).
    rewrite Forall_forall in Hz. exists 0. split; [left; reflexivity|]. apply c05v_after_ok. exact (Hz d Hd).
Qed.

(* EVERY call of EVERY scenario of the two families is back by its bound *)
Theorem c05vlock_all_back : forall c, c05v_wf c -> Forall c05v_back_in_time (c05v_results c).
Proof.
  intros c H. unfold c05v_wf in H. unfold c05v_results.
  destruct c as [|f c]; [destruct H|].
  destruct (Z.eq_dec f 3) as [->|N3].
  - do 9 (destruct c as [|? c]; [destruct H|]). destruct c; [|destruct H].
    destruct H as (Hx & Hw & Hz & Ht). apply c05v_stall_ok; assumption.
  - destruct (Z.eq_dec f 4) as [->|N4].
    + do 5 (destruct c as [|? c]; [destruct H|]). destruct H as [H0 Hz]. apply c05v_reg_ok; assumption.
    + exfalso. destruct f as [|p|p]; try exact H.
      repeat (match goal with q : positive |- _ => destruct q end;
              try exact H; try (apply N3; reflexivity); try (apply N4; reflexivity)).
Qed.

(* the tie is not vacuous: each function in which the scenario paths take a lock has its
   acquisition in the generated lock-site table, on a plain mutex of the mutex table, and its
   lock program is in the generated table and follows the discipline *)
Definition c05v_names : list (list Z) :=
  [n_c05v_addconn; n_c05v_statelock; n_c05v_stopex; n_getconn; n_readstate; n_newex; n_rmex].

Definition c05v_name_tiedb (n : list Z) : bool :=
  existsb (fun l => name_eqb (ls_fn l) n) (lockp_sites ++ lockp_sites_conn) &&
  existsb (fun f => name_eqb (lf_name f) n) lockp_progs.

Theorem c05vlock_names_tied : Forall (fun n =>
  (exists l, In l (lockp_sites ++ lockp_sites_conn) /\ ls_fn l = n /\ plain_mutex lockp_mutexes (ls_mutex l)) /\
  (exists f, In f lockp_progs /\ lf_name f = n /\ lock_disciplined (sem_of lockp_mutexes) f)) c05v_names.
Proof.
  assert (H : forallb c05v_name_tiedb c05v_names = true) by (vm_compute; reflexivity).
  apply Forall_forall. intros n Hn. rewrite forallb_forall in H. specialize (H n Hn).
  unfold c05v_name_tiedb in H. apply andb_true_iff in H. destruct H as [H1 H2].
  apply existsb_exists in H1. destruct H1 as (l & Hl & El). apply existsb_exists in H2. destruct H2 as (f & Hf & Ef).
  unfold name_eqb in El, Ef.
  destruct (list_eq_dec Z.eq_dec (ls_fn l) n) as [el|]; [|discriminate El].
  destruct (list_eq_dec Z.eq_dec (lf_name f) n) as [ef|]; [|discriminate Ef].
  split.
  - exists l. split; [exact Hl|]. split; [exact el|].
    pose proof lock_sites_plain as P. rewrite Forall_forall in P. exact (P l Hl).
  - exists f. split; [exact Hf|]. split; [exact ef|].
    pose proof lock_progs_disciplined as D. rewrite Forall_forall in D. exact (D f Hf).
Qed.

(* a lock step whose site is not in the table, or a table that fails the checker, makes the
   prediction "may be blocked for ever": the paths really depend on the tables *)
Lemma c05v_unknown_site_blocks : forall class dc bound pre post,
  forallb c05v_step_ok pre = true ->
  c05v_back class dc bound (pre ++ mkStep (mkWsite [] WLock []) (mkEv None None None) false :: post) = [class; 0].
Proof.
  intros class dc bound pre post H. unfold c05v_back.
  assert (G : forall t, run_path dc dc (pre ++ mkStep (mkWsite [] WLock []) (mkEv None None None) false :: post) t = None).
  { induction pre as [|s r IH]; intros t.
    - reflexivity.
    - cbn [forallb] in H. apply andb_true_iff in H. destruct H as [Hs Hr]. cbn [app run_path].
      destruct (p_ready s); [exact (IH Hr t)|].
      destruct (wait_leave dc dc (p_site s) (p_ev s) t); [exact (IH Hr _)|reflexivity]. }
  rewrite G. reflexivity.
Qed.

(* non-vacuity *)
Lemma c05vlock_examples :
  c05v_wf [3; 1; 2; 0; 0; 1; 600; 700; 400; 30] /\ c05v_wf [4; 0; 1; 2; 3; 500; 300; 400] /\
  run_c05vlock [3; 1; 2; 0; 0; 1; 600; 700; 400; 30] = [1; 1; 1; 1; 0; 1] /\
  run_c05vlock [4; 0; 1; 2; 3; 500; 300; 400] = [0; 1; 0; 1; 0; 1].
Proof.
  split; [cbn [c05v_wf]; lia|]. split; [cbn [c05v_wf]; split; [lia|]; repeat (apply Forall_cons; [lia|]); apply Forall_nil|].
  split; vm_compute; reflexivity.
Qed.
