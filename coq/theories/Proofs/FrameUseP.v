(* Soundness of the static ownership checker (Model/FrameUse.v) for the path semantics of
   Spec/FrameUseSpec.v, its verdict on the table go2v regenerated from the Go source, and the
   tie of that table's hand-over sites to the labels of the FrameOwn interleaving model. *)
From Coq Require Import ZArith List Bool String Lia.
From Verif Require Import Spec.FrameUseSpec Spec.FrameOwnSpec Model.FrameOwn Model.FrameUse Gen.GenSites Gen.GenFrameUse.
From Verif Require Import Proofs.FrameOwnP.
Import ListNotations.
Local Open Scope Z_scope.

(* ------------------------------------------------------------------ strings, association lists *)

Lemma str_eqb_eq a : forall b, str_eqb a b = true <-> a = b.
Proof.
  induction a as [|x a IH]; intros [|y b]; cbn; split; intros H; try reflexivity; try discriminate.
  - apply andb_true_iff in H. destruct H as [H1 H2]. apply Z.eqb_eq in H1. apply IH in H2. congruence.
  - inversion H; subst. apply andb_true_iff. split; [apply Z.eqb_refl|apply IH; reflexivity].
Qed.

Lemma str_eqb_refl a : str_eqb a a = true.
Proof. apply str_eqb_eq. reflexivity. Qed.

Lemma str_eqb_neq a b : str_eqb a b = false <-> a <> b.
Proof.
  split; intros H.
  - intros E. apply str_eqb_eq in E. congruence.
  - destruct (str_eqb a b) eqn:E; [|reflexivity]. apply str_eqb_eq in E. contradiction.
Qed.

Lemma str_dec (a b : str) : a = b \/ a <> b.
Proof. destruct (str_eqb a b) eqn:E; [left; apply str_eqb_eq; exact E|right; apply str_eqb_neq; exact E]. Qed.

Lemma is_nil_false x : is_nil x = false <-> x <> [].
Proof. destruct x; cbn; split; intros H; congruence. Qed.

Lemma alookup_cons y v r x : alookup ((y, v) :: r) x = if str_eqb y x then Some v else alookup r x.
Proof. reflexivity. Qed.

Lemma alookup_aremove en x : forall y b, alookup (aremove en x) y = Some b -> y <> x /\ alookup en y = Some b.
Proof.
  induction en as [|[y0 v0] r IH]; intros y b H; [discriminate|].
  unfold aremove in H. cbn [filter fst] in H. destruct (str_eqb y0 x) eqn:E0; cbn [negb] in H.
  - apply IH in H. destruct H as [N L]. split; [exact N|]. rewrite alookup_cons.
    apply str_eqb_eq in E0. subst y0. assert (Ex : str_eqb x y = false) by (apply str_eqb_neq; congruence).
    rewrite Ex. exact L.
  - rewrite alookup_cons in H. rewrite alookup_cons. destruct (str_eqb y0 y) eqn:E1.
    + split; [|exact H]. apply str_eqb_eq in E1. subst y0. apply str_eqb_neq. exact E0.
    + apply IH in H. exact H.
Qed.

Lemma alookup_aset en x v y b : alookup (aset en x v) y = Some b ->
  (y = x /\ b = v) \/ (y <> x /\ alookup en y = Some b).
Proof.
  unfold aset. rewrite alookup_cons. destruct (str_eqb x y) eqn:E.
  - intros H. left. apply str_eqb_eq in E. split; congruence.
  - intros H. right. apply alookup_aremove in H. exact H.
Qed.

Lemma alookup_aremove_all xs : forall en y b, alookup (aremove_all en xs) y = Some b -> ~ In y xs /\ alookup en y = Some b.
Proof.
  induction xs as [|x r IH]; intros en y b H; cbn in *; [split; [tauto|exact H]|].
  apply IH in H. destruct H as [N L]. apply alookup_aremove in L. destruct L as [N2 L]. split; [|exact L].
  intros [E|I]; [congruence|contradiction].
Qed.

Lemma upd_same e x b : upd e x b x = b.
Proof. unfold upd. rewrite str_eqb_refl. reflexivity. Qed.
Lemma upd_other e x b y : y <> x -> upd e x b y = e y.
Proof. intros N. unfold upd. apply str_eqb_neq in N. rewrite N. reflexivity. Qed.

(* ------------------------------------------------------------------ the discipline *)

Lemma disc_app t1 : forall live t2, disc live (t1 ++ t2) = match disc live t1 with Some l1 => disc l1 t2 | None => None end.
Proof.
  induction t1 as [|ev r IH]; intros live t2; [reflexivity|].
  destruct ev; cbn; try apply IH; destruct live; try reflexivity; apply IH.
Qed.

(* ------------------------------------------------------------------ simulation *)

Definition env_sim (e : cenv) (en : aenv) : Prop := forall x b, alookup en x = Some b -> e x = b.

Definition own_sim (live : bool) (e : cenv) (o : aown) : Prop :=
  match o with
  | AOwned => live = true
  | AGone => True
  | ACond x g ex => (e x <> g -> live = true) /\ (ex <> [] -> e ex = true -> live = true)
  end.

Definition sim (live : bool) (e : cenv) (a : ast) : Prop := env_sim e (a_env a) /\ own_sim live e (a_own a).

Definition no_wrong (l : list aout) : Prop := forall w, ~ In (AWrong w) l.

Inductive matches : okind -> cenv -> bool -> aout -> Prop :=
| m_norm e live a : sim live e a -> matches KNorm e live (ANorm a)
| m_brk e live a : sim live e a -> matches KBrk e live (ABrk a)
| m_cnt e live a : sim live e a -> matches KCnt e live (ACnt a)
| m_ret e live a lbl vs bs c : sim live e a -> Forall2 (reval e) vs bs -> matches (KRet bs c) e live (ARet a lbl vs c).

Lemma own_sim_true e o : own_sim true e o.
Proof. destruct o; cbn; auto. Qed.

Lemma no_wrong_app l1 l2 : no_wrong (l1 ++ l2) -> no_wrong l1 /\ no_wrong l2.
Proof. intros H. split; intros w I; apply (H w); apply in_or_app; [left|right]; exact I. Qed.

Lemma env_sim_nil e : env_sim e [].
Proof. intros x b H. discriminate. Qed.

Lemma env_sim_aset e en x b : env_sim e en -> e x = b -> env_sim e (aset en x b).
Proof.
  intros S E y v H. apply alookup_aset in H. destruct H as [[-> ->]|[N L]]; [exact E|apply S; exact L].
Qed.

Lemma env_sim_upd_aset e en x b : env_sim e en -> env_sim (upd e x b) (aset en x b).
Proof.
  intros S y v H. apply alookup_aset in H. destruct H as [[-> ->]|[N L]]; [apply upd_same|].
  rewrite upd_other by exact N. apply S; exact L.
Qed.

Lemma env_sim_upd_aremove e en x b : env_sim e en -> env_sim (upd e x b) (aremove en x).
Proof.
  intros S y v H. apply alookup_aremove in H. destruct H as [N L]. rewrite upd_other by exact N. apply S; exact L.
Qed.

Lemma env_sim_agree e e' en res : env_sim e en -> agree_except res e e' -> env_sim e' (aremove_all en res).
Proof.
  intros S A y v H. apply alookup_aremove_all in H. destruct H as [N L]. rewrite (A y N). apply S; exact L.
Qed.

Lemma aeval_sound e en r b v : env_sim e en -> reval e r b -> aeval en r = Some v -> v = b.
Proof.
  intros S R A. destruct R; cbn in A.
  - congruence.
  - apply S in A. congruence.
  - discriminate.
Qed.

Lemma own_learn_sim live e o x b : own_sim live e o -> e x = b -> own_sim live e (own_learn o x b).
Proof.
  intros S E. destruct o as [| |y g ex]; cbn; try exact S.
  destruct S as [S1 S2]. destruct (str_eqb y x) eqn:Ey.
  - apply str_eqb_eq in Ey. subst y. destruct (Bool.eqb b g) eqn:Eb; cbn; [exact I|].
    apply S1. apply eqb_false_iff in Eb. congruence.
  - destruct (is_nil ex) eqn:En; cbn [negb andb].
    + cbn. split; assumption.
    + destruct (str_eqb ex x) eqn:Ex.
      * apply str_eqb_eq in Ex. subst ex. destruct b; cbn.
        -- apply S2; [apply is_nil_false; exact En|exact E].
        -- split; assumption.
      * cbn. split; assumption.
Qed.

Lemma learn_sim live e a x b : sim live e a -> e x = b -> sim live e (learn a x b).
Proof.
  intros [S1 S2] E. split; cbn.
  - apply env_sim_aset; assumption.
  - apply own_learn_sim; assumption.
Qed.

Lemma own_forget_sim live e o x b : own_sim live e o -> own_sim live (upd e x b) (own_forget o x).
Proof.
  intros S. destruct o as [| |y g ex]; cbn; try exact S.
  destruct (str_eqb y x) eqn:Ey; cbn [orb]; [exact I|].
  destruct (is_nil ex) eqn:En; cbn [negb andb].
  - cbn. destruct S as [S1 S2]. apply str_eqb_neq in Ey. rewrite upd_other by exact Ey. split; [exact S1|].
    intros N. destruct ex; [congruence|discriminate].
  - destruct (str_eqb ex x) eqn:Ex; [exact I|]. cbn. destruct S as [S1 S2].
    apply str_eqb_neq in Ey. apply str_eqb_neq in Ex. rewrite !upd_other by assumption. split; assumption.
Qed.

Lemma nth_nth_error {A} (l : list A) i d x : nth i l d = x -> x <> d -> nth_error l i = Some x.
Proof.
  revert i. induction l as [|y r IH]; intros [|i] H N; cbn in *; try congruence.
  apply IH; assumption.
Qed.

(* ------------------------------------------------------------------ soundness of aexec *)

Section Sound.
Variable cv : str -> option conv.

Lemma flat_seq_in q o l a1 : In (ANorm a1) l -> In o (aexec cv q a1) ->
  In o (flat_map (fun o => match o with ANorm a1 => aexec cv q a1 | _ => [o] end) l).
Proof. intros I1 I2. apply in_flat_map. exists (ANorm a1). split; assumption. Qed.

Lemma flat_abort_in q o l : In o l -> (forall a1, o <> ANorm a1) ->
  In o (flat_map (fun o => match o with ANorm a1 => aexec cv q a1 | _ => [o] end) l).
Proof.
  intros I1 N. apply in_flat_map. exists o. split; [exact I1|].
  destruct o; try (left; reflexivity). exfalso. eapply N. reflexivity.
Qed.

Theorem aexec_sound p e tr e' k : exec cv p e tr e' k ->
  forall live a, sim live e a -> no_wrong (aexec cv p a) ->
  exists live', disc live tr = Some live' /\ exists o, In o (aexec cv p a) /\ matches k e' live' o.
Proof.
  induction 1 as
    [ e | w e | h e | h x e Hx | h x e Hx | kd w e Hk | w e
    | f res e e' Hc Ha | f res e e' Hc Ha
    | f res i g ei e e' Hc Ha Hr He | f res i g ei e e' Hc Ha Hr | f res i g ei e e' Hc Ha
    | x r b e Hr
    | p q e tr1 e1 tr2 e2 k H1 IH1 H2 IH2 | p q e tr1 e1 k H1 IH1 Hk
    | x v p q e tr e' k Hx H1 IH1 | x v p q e tr e' k Hx H1 IH1
    | x v p q e tr e' k Hx H1 IH1 | x v p q e tr e' k H1 IH1
    | p q e tr e' k H1 IH1 | p q e tr e' k H1 IH1
    | p q e tr e' k H1 IH1 | p q e tr e' k H1 IH1
    | b e | b e tr1 e1 k1 tr2 e2 k H1 IH1 Hk H2 IH2 | b e tr e1 H1 IH1 | b e tr e1 vs c H1 IH1
    | e | e | lbl vs bs c e Hv ];
    intros live a S NW.
  - (* FSkip *) exists live. split; [reflexivity|]. exists (ANorm a). split; [left; reflexivity|constructor; exact S].
  - (* FUse *) cbn in NW |- *. destruct S as [S1 S2]. destruct (a_own a) eqn:Eo; try (exfalso; eapply NW; left; reflexivity).
    cbn in S2. subst live. exists true. split; [reflexivity|]. exists (ANorm a). split; [left; reflexivity|].
    constructor. split; [exact S1|rewrite Eo; reflexivity].
  - (* FBind [] *) exists true. split; [reflexivity|]. cbn. eexists. split; [left; reflexivity|].
    constructor. split; [apply S|reflexivity].
  - (* FBind x, frame *) exists true. split; [reflexivity|]. cbn. apply is_nil_false in Hx. rewrite Hx.
    eexists. split; [left; reflexivity|]. constructor. split; cbn; [apply env_sim_upd_aremove; apply S|split; intros; reflexivity].
  - (* FBind x, nil *) exists false. split; [reflexivity|]. cbn. apply is_nil_false in Hx. rewrite Hx.
    eexists. split; [left; reflexivity|]. constructor. split; cbn; [apply env_sim_upd_aremove; apply S|].
    split; [intros N; exfalso; apply N; apply upd_same|intros N; congruence].
  - (* FXfer *) cbn in NW |- *. assert (E4 : (kd =? 4) = false) by (apply Z.eqb_neq; exact Hk). rewrite E4 in *.
    destruct S as [S1 S2]. destruct (a_own a) eqn:Eo; try (exfalso; eapply NW; left; reflexivity).
    cbn in S2. subst live. exists false. split; [reflexivity|]. eexists. split; [left; reflexivity|].
    constructor. split; [exact S1|exact I].
  - (* done *) exists false. split; [reflexivity|]. cbn. eexists. split; [left; reflexivity|]. constructor. split; [apply S|exact I].
  - (* call, always, taken *)
    cbn in NW |- *. destruct S as [S1 S2]. destruct (a_own a) eqn:Eo; try (exfalso; eapply NW; left; reflexivity).
    cbn in S2. subst live. rewrite Hc in *. exists false. split; [reflexivity|]. eexists. split; [left; reflexivity|].
    constructor. split; cbn; [eapply env_sim_agree; eassumption|exact I].
  - (* call, always, kept *)
    cbn in NW |- *. destruct S as [S1 S2]. destruct (a_own a) eqn:Eo; try (exfalso; eapply NW; left; reflexivity).
    cbn in S2. subst live. rewrite Hc in *. exists true. split; [reflexivity|]. eexists. split; [left; reflexivity|].
    constructor. split; cbn; [eapply env_sim_agree; eassumption|exact I].
  - (* call, taken *)
    cbn in NW |- *. destruct S as [S1 S2]. destruct (a_own a) eqn:Eo; try (exfalso; eapply NW; left; reflexivity).
    cbn in S2. subst live. rewrite Hc in *. exists false. split; [reflexivity|].
    destruct (is_nil (nth i res [])) eqn:En.
    + eexists. split; [left; reflexivity|]. constructor. split; cbn; [eapply env_sim_agree; eassumption|exact I].
    + eexists. split; [left; reflexivity|]. constructor. split; cbn; [eapply env_sim_agree; eassumption|].
      apply is_nil_false in En. split.
      * intros N. exfalso. apply N. apply (Hr (nth i res [])); [|exact En].
        apply nth_nth_error with (d := []); [reflexivity|exact En].
      * intros Nx Ex. exfalso. destruct ei as [j|]; [|congruence].
        rewrite (He j (nth j res []) eq_refl) in Ex; [discriminate| |exact Nx].
        apply nth_nth_error with (d := []); [reflexivity|exact Nx].
  - (* call, refused *)
    cbn in NW |- *. destruct S as [S1 S2]. destruct (a_own a) eqn:Eo; try (exfalso; eapply NW; left; reflexivity).
    cbn in S2. subst live. rewrite Hc in *. exists true. split; [reflexivity|].
    destruct (is_nil (nth i res [])) eqn:En;
      (eexists; split; [left; reflexivity|]; constructor; split; cbn; [eapply env_sim_agree; eassumption|first [exact I|split; intros; reflexivity]]).
  - (* call, dropped *)
    cbn in NW |- *. destruct S as [S1 S2]. destruct (a_own a) eqn:Eo; try (exfalso; eapply NW; left; reflexivity).
    cbn in S2. subst live. rewrite Hc in *. exists true. split; [reflexivity|].
    destruct (is_nil (nth i res [])) eqn:En;
      (eexists; split; [left; reflexivity|]; constructor; split; cbn; [eapply env_sim_agree; eassumption|first [exact I|split; intros; reflexivity]]).
  - (* FSet *)
    exists live. split; [reflexivity|]. cbn. eexists. split; [left; reflexivity|]. constructor. destruct S as [S1 S2].
    split; cbn; [|apply own_forget_sim; exact S2].
    destruct (aeval (a_env a) r) as [v|] eqn:Ea.
    + rewrite (aeval_sound _ _ _ _ _ S1 Hr Ea). apply env_sim_upd_aset; exact S1.
    + apply env_sim_upd_aremove; exact S1.
  - (* FSeq, normal *)
    cbn in NW |- *.
    assert (NW1 : no_wrong (aexec cv p a)).
    { intros w I. apply (NW w). apply flat_abort_in; [exact I|intros a1; discriminate]. }
    destruct (IH1 live a S NW1) as [l1 [D1 [o1 [I1 M1]]]]. inversion M1 as [? ? a1 S1| | |]; subst.
    assert (NW2 : no_wrong (aexec cv q a1)).
    { intros w I. apply (NW w). eapply flat_seq_in; eassumption. }
    destruct (IH2 l1 a1 S1 NW2) as [l2 [D2 [o2 [I2 M2]]]].
    exists l2. split; [rewrite disc_app, D1; exact D2|]. exists o2. split; [eapply flat_seq_in; eassumption|exact M2].
  - (* FSeq, abort *)
    cbn in NW |- *.
    assert (NW1 : no_wrong (aexec cv p a)).
    { intros w I. apply (NW w). apply flat_abort_in; [exact I|intros a1; discriminate]. }
    destruct (IH1 live a S NW1) as [l1 [D1 [o1 [I1 M1]]]]. exists l1. split; [exact D1|]. exists o1. split; [|exact M1].
    apply flat_abort_in; [exact I1|]. intros a1 E. subst o1. inversion M1; subst. congruence.
  - (* FIf TIs, then *)
    cbn in NW |- *. destruct (alookup (a_env a) x) as [v0|] eqn:El.
    + assert (Ev : v0 = v) by (rewrite <- Hx; symmetry; apply (proj1 S); exact El). subst v0. rewrite eqb_reflx in *.
      exact (IH1 live a S NW).
    + apply no_wrong_app in NW. destruct NW as [NW1 NW2].
      destruct (IH1 live (learn a x v) (learn_sim _ _ _ _ _ S Hx) NW1) as [l1 [D1 [o1 [I1 M1]]]].
      exists l1. split; [exact D1|]. exists o1. split; [apply in_or_app; left; exact I1|exact M1].
  - (* FIf TIs, else *)
    cbn in NW |- *. assert (Hx' : e x = negb v) by (destruct (e x), v; cbn; congruence).
    destruct (alookup (a_env a) x) as [v0|] eqn:El.
    + assert (Ev : v0 = negb v) by (rewrite <- Hx'; symmetry; apply (proj1 S); exact El). subst v0.
      assert (Eb : Bool.eqb (negb v) v = false) by (destruct v; reflexivity). rewrite Eb in *.
      exact (IH1 live a S NW).
    + apply no_wrong_app in NW. destruct NW as [NW1 NW2].
      destruct (IH1 live (learn a x (negb v)) (learn_sim _ _ _ _ _ S Hx') NW2) as [l1 [D1 [o1 [I1 M1]]]].
      exists l1. split; [exact D1|]. exists o1. split; [apply in_or_app; right; exact I1|exact M1].
  - (* FIf TImp, then *)
    cbn in NW |- *. destruct (alookup (a_env a) x) as [v0|] eqn:El.
    + assert (Ev : v0 = v) by (rewrite <- Hx; symmetry; apply (proj1 S); exact El). subst v0. rewrite eqb_reflx in *.
      apply no_wrong_app in NW. destruct NW as [NW1 NW2].
      destruct (IH1 live a S NW1) as [l1 [D1 [o1 [I1 M1]]]].
      exists l1. split; [exact D1|]. exists o1. split; [apply in_or_app; left; exact I1|exact M1].
    + apply no_wrong_app in NW. destruct NW as [NW1 NW2].
      destruct (IH1 live (learn a x v) (learn_sim _ _ _ _ _ S Hx) NW1) as [l1 [D1 [o1 [I1 M1]]]].
      exists l1. split; [exact D1|]. exists o1. split; [apply in_or_app; left; exact I1|exact M1].
  - (* FIf TImp, else *)
    cbn in NW |- *. destruct (alookup (a_env a) x) as [v0|] eqn:El.
    + destruct (Bool.eqb v0 v).
      * apply no_wrong_app in NW. destruct NW as [NW1 NW2].
        destruct (IH1 live a S NW2) as [l1 [D1 [o1 [I1 M1]]]].
        exists l1. split; [exact D1|]. exists o1. split; [apply in_or_app; right; exact I1|exact M1].
      * exact (IH1 live a S NW).
    + apply no_wrong_app in NW. destruct NW as [NW1 NW2].
      destruct (IH1 live a S NW2) as [l1 [D1 [o1 [I1 M1]]]].
      exists l1. split; [exact D1|]. exists o1. split; [apply in_or_app; right; exact I1|exact M1].
  - (* FIf TOther, then *)
    cbn in NW |- *. apply no_wrong_app in NW. destruct NW as [NW1 NW2].
    destruct (IH1 live a S NW1) as [l1 [D1 [o1 [I1 M1]]]].
    exists l1. split; [exact D1|]. exists o1. split; [apply in_or_app; left; exact I1|exact M1].
  - (* FIf TOther, else *)
    cbn in NW |- *. apply no_wrong_app in NW. destruct NW as [NW1 NW2].
    destruct (IH1 live a S NW2) as [l1 [D1 [o1 [I1 M1]]]].
    exists l1. split; [exact D1|]. exists o1. split; [apply in_or_app; right; exact I1|exact M1].
  - (* FAlt l *)
    cbn in NW |- *. apply no_wrong_app in NW. destruct NW as [NW1 NW2].
    destruct (IH1 live a S NW1) as [l1 [D1 [o1 [I1 M1]]]].
    exists l1. split; [exact D1|]. exists o1. split; [apply in_or_app; left; exact I1|exact M1].
  - (* FAlt r *)
    cbn in NW |- *. apply no_wrong_app in NW. destruct NW as [NW1 NW2].
    destruct (IH1 live a S NW2) as [l1 [D1 [o1 [I1 M1]]]].
    exists l1. split; [exact D1|]. exists o1. split; [apply in_or_app; right; exact I1|exact M1].
  - (* FLoop, no iteration *)
    exists live. split; [reflexivity|]. cbn in NW |- *.
    destruct (a_own a) eqn:Eo; try (exfalso; eapply NW; left; reflexivity);
      (match type of NW with no_wrong (if ?c then _ else _) => destruct c end; [|exfalso; eapply NW; left; reflexivity]);
      (eexists; split; [left; reflexivity|]; apply m_norm; split; cbn; [apply env_sim_nil|destruct S as [_ S2]; rewrite Eo in S2; exact S2]).
  - (* FLoop, one more iteration *)
    pose proof NW as NWf. cbn in NW.
    assert (Hno : forall x g ex, a_own a <> ACond x g ex).
    { intros x g ex E. rewrite E in NW. eapply NW. left. reflexivity. }
    set (a0 := mkA (a_own a) []) in *.
    assert (S0 : sim live e a0) by (split; cbn; [apply env_sim_nil|apply S]).
    assert (Hall : forallb (fun o => match o with
                                     | ANorm a1 | ACnt a1 => own_eqb (a_own a1) (a_own a)
                                     | AWrong _ => false
                                     | _ => true end) (aexec cv b a0) = true).
    { destruct (a_own a); try (exfalso; eapply Hno; reflexivity);
        (match type of NW with no_wrong (if ?c then _ else _) => destruct c eqn:Ec end; [reflexivity|exfalso; eapply NW; left; reflexivity]). }
    assert (NWb : no_wrong (aexec cv b a0)).
    { intros w I. rewrite forallb_forall in Hall. apply Hall in I. discriminate. }
    destruct (IH1 live a0 S0 NWb) as [l1 [D1 [o1 [I1 M1]]]].
    assert (S1 : sim l1 e1 a0).
    { rewrite forallb_forall in Hall. specialize (Hall _ I1).
      destruct Hk as [-> | ->]; inversion M1 as [? ? a1 Sa| |? ? a1 Sa|]; subst; cbn in Hall;
        (split; cbn; [apply env_sim_nil|]); destruct Sa as [_ Sa];
        destruct (a_own a1), (a_own a); cbn in Hall; try discriminate; exact Sa. }
    assert (Eq : aexec cv (FLoop b) a0 = aexec cv (FLoop b) a) by reflexivity.
    assert (NW0 : no_wrong (aexec cv (FLoop b) a0)) by (rewrite Eq; exact NWf).
    destruct (IH2 l1 a0 S1 NW0) as [l2 [D2 [o2 [I2 M2]]]].
    exists l2. split; [rewrite disc_app, D1; exact D2|]. exists o2. split; [rewrite <- Eq; exact I2|exact M2].
  - (* FLoop, break *)
    cbn in NW. cbn [aexec].
    assert (Hno : forall x g ex, a_own a <> ACond x g ex).
    { intros x g ex E. rewrite E in NW. eapply NW. left. reflexivity. }
    set (a0 := mkA (a_own a) []) in *.
    assert (S0 : sim live e a0) by (split; cbn; [apply env_sim_nil|apply S]).
    assert (Hall : forallb (fun o => match o with
                                     | ANorm a1 | ACnt a1 => own_eqb (a_own a1) (a_own a)
                                     | AWrong _ => false
                                     | _ => true end) (aexec cv b a0) = true).
    { destruct (a_own a); try (exfalso; eapply Hno; reflexivity);
        (match type of NW with no_wrong (if ?c then _ else _) => destruct c eqn:Ec end; [reflexivity|exfalso; eapply NW; left; reflexivity]). }
    assert (NWb : no_wrong (aexec cv b a0)).
    { intros w I. rewrite forallb_forall in Hall. apply Hall in I. discriminate. }
    destruct (IH1 live a0 S0 NWb) as [l1 [D1 [o1 [I1 M1]]]].
    exists l1. split; [exact D1|]. inversion M1 as [|? ? a1 Sa| |]; subst.
    exists (ANorm a1). split; [|constructor; exact Sa].
    destruct (a_own a); try (exfalso; eapply Hno; reflexivity); rewrite Hall; right;
      apply in_flat_map; exists (ABrk a1); (split; [exact I1|left; reflexivity]).
  - (* FLoop, return *)
    cbn in NW. cbn [aexec].
    assert (Hno : forall x g ex, a_own a <> ACond x g ex).
    { intros x g ex E. rewrite E in NW. eapply NW. left. reflexivity. }
    set (a0 := mkA (a_own a) []) in *.
    assert (S0 : sim live e a0) by (split; cbn; [apply env_sim_nil|apply S]).
    assert (Hall : forallb (fun o => match o with
                                     | ANorm a1 | ACnt a1 => own_eqb (a_own a1) (a_own a)
                                     | AWrong _ => false
                                     | _ => true end) (aexec cv b a0) = true).
    { destruct (a_own a); try (exfalso; eapply Hno; reflexivity);
        (match type of NW with no_wrong (if ?c then _ else _) => destruct c eqn:Ec end; [reflexivity|exfalso; eapply NW; left; reflexivity]). }
    assert (NWb : no_wrong (aexec cv b a0)).
    { intros w I. rewrite forallb_forall in Hall. apply Hall in I. discriminate. }
    destruct (IH1 live a0 S0 NWb) as [l1 [D1 [o1 [I1 M1]]]].
    exists l1. split; [exact D1|]. inversion M1 as [| | |? ? a1 lbl vs0 bs c0 Sa Fv]; subst.
    exists (ARet a1 lbl vs0 c). split; [|constructor; assumption].
    destruct (a_own a); try (exfalso; eapply Hno; reflexivity); rewrite Hall; right;
      apply in_flat_map; exists (ARet a1 lbl vs0 c); (split; [exact I1|left; reflexivity]).
  - (* break *) exists live. split; [reflexivity|]. exists (ABrk a). split; [left; reflexivity|constructor; exact S].
  - (* continue *) exists live. split; [reflexivity|]. exists (ACnt a). split; [left; reflexivity|constructor; exact S].
  - (* FRet *)
    cbn in NW |- *. destruct c.
    + destruct S as [S1 S2]. destruct (a_own a) eqn:Eo; try (exfalso; eapply NW; left; reflexivity).
      cbn in S2. subst live. exists true. split; [reflexivity|]. eexists. split; [left; reflexivity|].
      constructor; [split; [exact S1|rewrite Eo; reflexivity]|exact Hv].
    + exists live. split; [reflexivity|]. eexists. split; [left; reflexivity|]. constructor; assumption.
Qed.

End Sound.

(* ------------------------------------------------------------------ rows *)

Lemma row_init_sim kind e : sim (row_live0 kind) e (row_init kind).
Proof.
  unfold row_live0, row_init. split; cbn; [apply env_sim_nil|]. destruct (kind =? 1); cbn; [exact I|reflexivity].
Qed.

Lemma row_check_outs cv fn cls kind body : row_check cv (fn, cls, kind, body) = true ->
  exists c, row_conv cv fn kind = Some c /\
    forall o, In o (aexec cv body (row_init kind)) -> exists a l vs cr, o = ARet a l vs cr /\ ret_ok c a vs = true.
Proof.
  unfold row_check. destruct (row_conv cv fn kind) as [c|]; [|discriminate]. intros H. exists c. split; [reflexivity|].
  intros o I. rewrite forallb_forall in H. specialize (H o I). destruct o; try discriminate. do 4 eexists. split; [reflexivity|exact H].
Qed.

Lemma row_check_no_wrong cv fn cls kind body : row_check cv (fn, cls, kind, body) = true ->
  no_wrong (aexec cv body (row_init kind)).
Proof.
  intros H w I. destruct (row_check_outs _ _ _ _ _ H) as [c [_ A]]. destruct (A _ I) as [a [l [vs [cr [E _]]]]]. discriminate.
Qed.

(* A checked function never touches, hands over or passes on a frame that it has handed over,
   released or never had: every execution of its abstract program is disciplined. *)
Theorem checked_row_disciplined cv fn cls kind body : row_check cv (fn, cls, kind, body) = true ->
  forall e tr e' k, exec cv body e tr e' k -> disciplined (row_live0 kind) tr.
Proof.
  intros H e tr e' k X.
  destruct (aexec_sound cv body e tr e' k X _ _ (row_init_sim kind e) (row_check_no_wrong _ _ _ _ _ H)) as [l [D _]].
  unfold disciplined. rewrite D. discriminate.
Qed.

Lemma forall2_nth e en vs : forall bs i v, Forall2 (reval e) vs bs -> env_sim e en ->
  aeval en (nth i vs RUnk) = Some v -> nth_error bs i = Some v.
Proof.
  induction vs as [|r vs IH]; intros bs i v F S A.
  - destruct i; discriminate.
  - inversion F as [|? b ? bs' R F']; subst. destruct i as [|i]; cbn in *.
    + rewrite (aeval_sound _ _ _ _ _ S R A). reflexivity.
    + eapply IH; eassumption.
Qed.

Lemma forall2_nth_var e vs : forall bs i x, Forall2 (reval e) vs bs ->
  rexp_is_var (nth i vs RUnk) x = true -> nth_error bs i = Some (e x).
Proof.
  induction vs as [|r vs IH]; intros bs i x F A.
  - destruct i; discriminate.
  - inversion F as [|? b ? bs' R F']; subst. destruct i as [|i]; cbn in *.
    + destruct r; try discriminate. apply str_eqb_eq in A. subst. inversion R; subst. reflexivity.
    + eapply IH; eassumption.
Qed.

Lemma opt_is_true o b : opt_is o b = true -> o = Some b.
Proof. destruct o as [v|]; cbn; [|discriminate]. intros H. apply eqb_prop in H. congruence. Qed.

(* ... and it keeps its own signature: whenever it returns with the frame gone, the values it
   returns say so (so the assumption its callers make, [x_call_taken] .. [x_call_dropped], holds). *)
Theorem checked_row_signature cv fn cls body : row_check cv (fn, cls, 0, body) = true ->
  forall e tr e' vs c live', exec cv body e tr e' (KRet vs c) -> disc true tr = Some live' ->
  conv_holds (cv fn) vs live'.
Proof.
  intros H e tr e' vs c live' X D.
  destruct (row_check_outs _ _ _ _ _ H) as [cn [Ec A]].
  destruct (aexec_sound cv body e tr e' _ X _ _ (row_init_sim 0 e) (row_check_no_wrong _ _ _ _ _ H)) as [l [D' [o [I M]]]].
  change (row_live0 0) with true in D'. rewrite D in D'. inversion D'; subst l. clear D'.
  destruct (A _ I) as [a [lb [vs0 [cr [Eo R]]]]]. subst o. inversion M as [| | |? ? ? ? ? ? ? [S1 S2] F]; subst.
  unfold row_conv in Ec. cbn in Ec. destruct (cv fn) as [[|i g ei|]|]; try discriminate; inversion Ec; subst cn; cbn; [exact Logic.I|].
  intros ->. cbn in R. destruct (a_own a) as [| |x gx ex] eqn:Eown; cbn in S2.
  - discriminate.
  - apply andb_true_iff in R. destruct R as [R1 R2]. apply opt_is_true in R1. split.
    + eapply forall2_nth; eassumption.
    + intros j ->. apply opt_is_true in R2. eapply forall2_nth; eassumption.
  - apply andb_true_iff in R. destruct R as [R R3]. apply andb_true_iff in R. destruct R as [R1 R2].
    apply eqb_prop in R2. subst gx. destruct S2 as [S2 S3]. split.
    + rewrite (forall2_nth_var _ _ _ _ _ F R1). f_equal.
      destruct (Bool.bool_dec (e' x) g) as [E|N]; [exact E|]. specialize (S2 N). discriminate.
    + intros j ->. apply andb_true_iff in R3. destruct R3 as [R3 R4]. rewrite (forall2_nth_var _ _ _ _ _ F R4). f_equal.
      destruct (e' ex) eqn:Ex; [|reflexivity]. assert (N : ex <> []) by (apply is_nil_false; destruct (is_nil ex); [discriminate|reflexivity]).
      specialize (S3 N eq_refl). discriminate.
Qed.

(* ------------------------------------------------------------------ the generated table *)

(* for diagnosis: when an edit of the source makes the checker reject the regenerated table, this
   lemma fails first and Coq's message shows (function, offending statement) in clear text *)
Definition z2s (l : str) : string := string_of_list_ascii (map (fun z => Ascii.ascii_of_nat (Z.to_nat z)) l).
Fixpoint sdedup (l : list (string * string)) : list (string * string) :=
  match l with
  | [] => []
  | (a, b) :: r => if existsb (fun p => String.eqb (fst p) a && String.eqb (snd p) b) r then sdedup r else (a, b) :: sdedup r
  end.
Definition table_complaints : list (string * string) :=
  sdedup (flat_map (fun r => let '(fn, _, _, _) := r in map (fun w => (z2s fn, z2s w)) (row_complaint conv_of r)) frame_use_table).
Lemma frame_use_no_complaint : table_complaints = [].
Proof. vm_compute. reflexivity. Qed.

(* the table go2v regenerated from the Go source on this run passes the checker *)
Lemma frame_use_checked : table_check conv_of frame_use_table frame_use_impls = true.
Proof. vm_compute. reflexivity. Qed.

Lemma table_rows_checked row : In row frame_use_table -> row_check conv_of row = true.
Proof.
  intros I. pose proof frame_use_checked as H. unfold table_check in H. apply andb_true_iff in H. destruct H as [H _].
  rewrite forallb_forall in H. apply H. exact I.
Qed.

Theorem no_touch_after_handover : forall fn cls kind body, In (fn, cls, kind, body) frame_use_table ->
  forall e tr e' k, exec conv_of body e tr e' k -> disciplined (row_live0 kind) tr.
Proof. intros fn cls kind body I. eapply checked_row_disciplined. apply table_rows_checked. exact I. Qed.

Theorem handover_signatures_kept : forall fn cls body, In (fn, cls, 0, body) frame_use_table ->
  forall e tr e' vs c live', exec conv_of body e tr e' (KRet vs c) -> disc true tr = Some live' ->
  conv_holds (conv_of fn) vs live'.
Proof. intros fn cls body I. eapply checked_row_signature. apply table_rows_checked. exact I. Qed.

(* every function that is passed a frame for keeps is itself a checked function of the table,
   or an interface method all of whose implementations are, with the same signature (or the
   caller assumes the frame gone in any case) *)
Theorem handover_callees_checked : forall fn cls kind body f, In (fn, cls, kind, body) frame_use_table ->
  In f (callees body) -> callee_ok conv_of frame_use_table frame_use_impls f = true.
Proof.
  intros fn cls kind body f I C. pose proof frame_use_checked as H. unfold table_check in H.
  apply andb_true_iff in H. destruct H as [_ H]. rewrite forallb_forall in H. specialize (H _ I). cbn in H.
  rewrite forallb_forall in H. apply H. exact C.
Qed.

(* the returns at which a frame is dropped (neither released nor handed on nor left to the
   caller) are exactly the documented leaks on fault paths *)
Lemma drops_are_expected : table_drops conv_of frame_use_table = expected_drops.
Proof. vm_compute. reflexivity. Qed.

(* the stores of a frame into the heap are the reviewed ones *)
Lemma escapes_are_expected : frame_escapes = expected_escapes.
Proof. vm_compute. reflexivity. Qed.

(* ------------------------------------------------------------------ tie to the FrameOwn model *)

(* the model's list of hand-over statements is the list go2v extracted from the source *)
Lemma xfer_sites_generated : map xfer_site xfer_model = frame_xfer_sites.
Proof. vm_compute. reflexivity. Qed.

(* per function, as many Release statements (incl. the onDone closure) as FramePool.Release call
   sites in the regenerated pool-site table *)
Definition release_count_xfer (f : str) : nat :=
  List.length (filter (fun r => let '(g, k, _, _) := r in
     str_eqb g f && (str_eqb k (s2z "Release") || str_eqb k (s2z "closure Release"))) xfer_model).
Definition release_count_pool (f : str) : nat :=
  List.length (filter (fun p => str_eqb (fst p) f && str_eqb (snd p) (s2z "Release")) pool_sites).
Lemma release_sites_agree :
  forallb (fun f => Nat.eqb (release_count_xfer f) (release_count_pool f))
          (map (fun r => fst (fst (fst r))) xfer_model ++ map fst pool_sites) = true.
Proof. vm_compute. reflexivity. Qed.

(* [ext tg base tr]: tr extends base by events each of which, if it is a hand-over, is
   accounted for by a row of [xfer_model] that lists label tag tg *)
Inductive ext (tg : Z) (base : list ev) : list ev -> Prop :=
| ext_base : ext tg base base
| ext_cons e tr : handover_okb tg e = true -> ext tg base tr -> ext tg base (e :: tr).

Definition pif_tag (tg : Z) : Prop := handover_okb tg (ERel S_pif_rel 0) = true.

Lemma pif_ok tg t : pif_tag tg -> handover_okb tg (ERel S_pif_rel t) = true.
Proof. intros H. exact H. Qed.

Lemma frag_done_ext tg base t s : pif_tag tg -> ext tg base (s_trace s) -> ext tg base (s_trace (frag_done t s)).
Proof.
  intros P K. unfold frag_done. destruct (s_fdone s t); [exact K|]. cbn. constructor; [apply pif_ok; exact P|exact K].
Qed.
Lemma fetch_done_ext tg base k s : pif_tag tg -> ext tg base (s_trace s) -> ext tg base (s_trace (fetch_done k s)).
Proof. intros P K. unfold fetch_done. destruct (r_cur (s_rdr s k)); [apply frag_done_ext; [exact P|]|]; exact K. Qed.
Lemma parse_chunks_ext tg base k pok t s : ext tg base (s_trace s) -> ext tg base (s_trace (parse_chunks k pok t s)).
Proof. intros K. unfold parse_chunks. cbv zeta. destruct pok; cbn; constructor; try exact K; reflexivity. Qed.
Lemma release_prev_ext tg base k q s : pif_tag tg -> ext tg base (s_trace s) -> ext tg base (s_trace (release_prev k q s)).
Proof. intros P K. unfold release_prev. cbv zeta. destruct (r_prev (s_rdr s k)); [apply frag_done_ext; [exact P|]|]; exact K. Qed.

Ltac ext_tac :=
  repeat first
    [ apply ext_base
    | apply frag_done_ext; [vm_compute; reflexivity|]
    | apply fetch_done_ext; [vm_compute; reflexivity|]
    | apply parse_chunks_ext
    | apply release_prev_ext; [vm_compute; reflexivity|]
    | match goal with
      | |- ext _ _ (s_trace (if ?b then _ else _)) => destruct b
      | |- ext _ _ (s_trace (match ?x with Some _ => _ | None => _ end)) => destruct x
      | |- ext _ _ (ERel (if ?b then _ else _) _ :: _) => destruct b
      | |- ext _ _ (_ :: _) => apply ext_cons; [vm_compute; reflexivity|]
      end
    | progress cbn [s_trace emit p_get p_acc p_rel push_mex push_send pop_mex pop_send set_mex set_rdr set_wr
                    set_send set_stop set_wexit set_fdone set_ty bump mex_shutdown fail_reader] ].

(* every hand-over event of a step of the (repaired) interleaving model is performed by a
   hand-over statement of the source that [xfer_model] attributes to that step's label *)
Lemma step_handovers s l s' : step false s l = Some s' -> ext (label_tag l) (s_trace s) (s_trace s').
Proof.
  intros H. destruct l; unfold step in H; cbv zeta in H; cbn [label_tag];
    repeat match type of H with
    | (if ?b then _ else _) = Some _ => destruct b
    | match ?x with Some _ => _ | None => _ end = Some _ => destruct x
    | match ?x with [] => _ | _ :: _ => _ end = Some _ => destruct x
    | None = Some _ => discriminate H
    end; try (some H); ext_tac.
Qed.

Lemma ext_split tg base tr : ext tg base tr -> exists new, tr = new ++ base /\ forallb (handover_okb tg) new = true.
Proof.
  induction 1 as [|e tr He _ [new [E F]]].
  - exists []. split; reflexivity.
  - exists (e :: new). split; [cbn; congruence|cbn; rewrite He; exact F].
Qed.

Lemma firstn_diff {A} (new base : list A) : firstn (List.length (new ++ base) - List.length base) (new ++ base) = new.
Proof.
  rewrite app_length. replace (List.length new + List.length base - List.length base)%nat with (List.length new) by lia.
  rewrite firstn_app, Nat.sub_diag, firstn_all. cbn. apply app_nil_r.
Qed.

Theorem run_handovers_explained ls : forall s,
  Forall (fun te => forallb (handover_okb (fst te)) (snd te) = true) (run_events false s ls).
Proof.
  induction ls as [|l r IH]; intros s; cbn; [constructor|].
  destruct (step false s l) as [s'|] eqn:E; [|constructor]. constructor; [|apply IH].
  cbn. destruct (ext_split _ _ _ (step_handovers _ _ _ E)) as [new [En F]]. rewrite En, firstn_diff. exact F.
Qed.

(* and every row of [xfer_model] is exercised by the model: a witness run in which each
   hand-over statement is performed by one of the labels listed for it *)
Definition xfer_witness : list label :=
  [LLocal 1 0; LLocal 1 1; LReadFail 1; LReadRel 1 false; LReadRel 1 true;
   LConnSysErr 1 true false; LConnSysErr 1 true false; LRfsFrag 2 1 false; LWrite 1 false;
   LSendMsg 1 true; LSendMsg 1 false; LWrite 1 true; LSendMsg 1 true; LStop 1; LDrain 1;
   LNewMex 9 1 2; LReadFwd 1 (Some 9) 0; LReadFwd 1 (Some 9) 1; LRecvMsg 9; LRecvMsg 9;
   LRelaySend 2 3; LWrite 3 false;
   LReadCallReq 1 7; LFetch 7 true true true; LReadFwd 1 (Some 7) 0; LFetch 7 true true true; LCloseLast 7;
   LWNew 7 true; LWFlush 7 true;
   LReadCallReq 1 8; LFetch 8 true true true; LRespSysErr 8].

Lemma xfer_rows_exercised :
  exists s, run false (init 1) xfer_witness = Some s /\
            forallb (row_hit (run_events false (init 1) xfer_witness)) xfer_model = true.
Proof. eexists. split; [vm_compute; reflexivity|]. vm_compute. reflexivity. Qed.

(* ------------------------------------------------------------------ non-vacuity *)

Local Open Scope string_scope.
Definition ex_flush_good : fu :=
  FSeq (FUse (s2z "SentBytes(wf.frame.Header.FrameSize())"))
  (FSeq (FCall (s2z "frameReceiver.Receive") [s2z "sent"; s2z "failure"])
  (FSeq (FIf (TIs (s2z "sent") true) (FRet (s2z "return nil") [RLit false] false) FSkip)
  (FSeq (FXfer 2 (s2z "wf.frame")) (FRet (s2z "return nil") [RLit false] false)))).
Definition ex_flush_bad : fu :=
  FSeq (FCall (s2z "frameReceiver.Receive") [s2z "sent"; s2z "failure"])
  (FSeq (FIf (TIs (s2z "sent") true)
             (FSeq (FUse (s2z "SentBytes(wf.frame.Header.FrameSize())")) (FRet (s2z "return nil") [RLit false] false)) FSkip)
  (FSeq (FXfer 2 (s2z "wf.frame")) (FRet (s2z "return nil") [RLit false] false))).
Lemma example_flush_thm :
  row_check conv_of (s2z "relayFragmentSender.flushFragment", s2z "wf", 0, ex_flush_good) = true /\
  row_check conv_of (s2z "relayFragmentSender.flushFragment", s2z "wf", 0, ex_flush_bad) = false /\
  exists e tr e' k, exec conv_of ex_flush_bad e tr e' k /\ ~ disciplined true tr.
Proof.
  split; [vm_compute; reflexivity|]. split; [vm_compute; reflexivity|].
  exists (fun _ => false), [UUse; UGone; UUse], (upd (fun _ => false) (s2z "sent") true), (KRet [false] false).
  split.
  - change [UUse; UGone; UUse] with ([UUse; UGone] ++ [UUse])%list.
    eapply x_seq with (e1 := upd (fun _ => false) (s2z "sent") true).
    + eapply x_call_taken with (i := 0%nat) (g := true) (ei := None); [reflexivity| | |].
      * intros y N. unfold upd. destruct (str_eqb y (s2z "sent")) eqn:E; [|reflexivity].
        exfalso. apply N. left. symmetry. apply str_eqb_eq. exact E.
      * intros x Hx _. cbn [nth_error] in Hx. injection Hx as <-. apply upd_same.
      * intros j y Hj. discriminate.
    + eapply x_seq_abort; [|discriminate]. apply x_if_is_then; [apply upd_same|].
      change [UUse] with ([UUse] ++ [])%list. eapply x_seq; [apply x_use|].
      apply (x_ret conv_of (s2z "return nil") [RLit false] [false] false). repeat constructor.
  - intros D. apply D. reflexivity.
Qed.

